(* C14 — statements only.  Engines proved equal to the reference on every NFA with
   wf_nfa A = true, every haystack and offset: the bounded backtracker through all of its
   state-carrying entry points, in both match modes, from ANY reusable state satisfying the
   invariant, and it declines (no match, state untouched) exactly when CanHandle is false.
   The PikeVM, the lazy DFA (all capacities) and the one-pass DFA are NOT modelled in Coq
   here: they are tied to the same reference by the per-run correspondence only. *)
From Coq Require Import List NArith.
From CV Require Import Nfa NfaRef Backtrack.

Theorem C14_backtracker_search_is_reference :
  forall W, (2 <= W)%N -> forall A max_visited, wf_nfa A = true ->
  forall st h at_, bt_inv W st -> at_ <= length h ->
  can_handle A max_visited (length h - at_) = true ->
  fst (bt_search_at W A max_visited st h at_) = ref_search_at A (longest st) h at_.
Proof. exact bt_search_at_is_ref_any_mode. Qed.
Print Assumptions C14_backtracker_search_is_reference.

Theorem C14_backtracker_is_match_is_reference :
  forall W, (2 <= W)%N -> forall A max_visited, wf_nfa A = true ->
  forall st h, bt_inv W st -> can_handle A max_visited (length h) = true ->
  fst (bt_is_match W A max_visited st h) = ref_is_match A h.
Proof. exact bt_is_match_is_ref. Qed.
Print Assumptions C14_backtracker_is_match_is_reference.

Theorem C14_backtracker_anchored_is_reference :
  forall W, (2 <= W)%N -> forall A max_visited, wf_nfa A = true ->
  forall st h, bt_inv W st -> can_handle A max_visited (length h) = true ->
  fst (bt_is_match_anchored W A max_visited st h) = ref_is_match_anchored A h.
Proof. exact bt_is_match_anchored_is_ref. Qed.
Print Assumptions C14_backtracker_anchored_is_reference.

Theorem C14_backtracker_declines :
  forall W, (2 <= W)%N -> forall A max_visited, wf_nfa A = true ->
  forall st h at_, length h < at_ \/ can_handle A max_visited (length h - at_) = false ->
  bt_search_at W A max_visited st h at_ = (Done None, st).
Proof. exact bt_search_at_declines. Qed.
Print Assumptions C14_backtracker_declines.

Theorem C14_reference_leftmost :
  forall A h, wf_nfa A = true -> forall at_ s e sl,
  find_at A h at_ = Done (Some (s, e, sl)) ->
  at_ <= s /\ s <= e /\ e <= length h /\ nfa_path A h (start_anch A) s e /\
  forall s', at_ <= s' < s -> forall e', ~ nfa_path A h (start_anch A) s' e'.
Proof. exact find_at_some. Qed.
Print Assumptions C14_reference_leftmost.
