From Coq Require Import List NArith ZArith.
From CV Require Import Nfa Onepass OnepassProofs.
Import ListNotations.

Theorem Onepass_search_is_ref : forall A h D,
  wf_nfa A = true -> nocap0 A = true -> bytes_ok h -> build cur A = Some D ->
  ref_anchored A h = Done (op_search cur D h).
Proof. exact onepass_search_is_ref. Qed.
Print Assumptions Onepass_search_is_ref.

Theorem Onepass_is_match_is_ref : forall A h D,
  wf_nfa A = true -> nocap0 A = true -> bytes_ok h -> build cur A = Some D ->
  ref_is_match A h = Done (op_is_match cur D h).
Proof. exact onepass_is_match_is_ref. Qed.
Print Assumptions Onepass_is_match_is_ref.

Theorem Onepass_build_is_closure_table : forall A D,
  wf_nfa A = true -> build cur A = Some D -> table_ok cur A D.
Proof. exact build_is_closure_table. Qed.
Print Assumptions Onepass_build_is_closure_table.

Theorem Onepass_priority_original_refuted :
  run original nfa_empty_or_a [97%N] = Some (Some [0; 1; 0; 1]%Z, true) /\
  ref_anchored nfa_empty_or_a [97%N] = Done (Some [0; 0; 0; 0]%Z).
Proof. exact onepass_priority_original_refuted. Qed.
Print Assumptions Onepass_priority_original_refuted.

Theorem Onepass_prefix_original_refuted :
  run original nfa_ab [97; 98; 99]%N = Some (None, true) /\
  ref_anchored nfa_ab [97; 98; 99]%N = Done (Some [0; 2]%Z).
Proof. exact onepass_prefix_original_refuted. Qed.
Print Assumptions Onepass_prefix_original_refuted.

Theorem Onepass_start_zero_original_refuted :
  run original nfa_loop [97; 97; 99; 99]%N = Some (None, true) /\
  ref_anchored nfa_loop [97; 97; 99; 99]%N = Done (Some [0; 4; 2; 2; -1; -1]%Z).
Proof. exact onepass_start_zero_original_refuted. Qed.
Print Assumptions Onepass_start_zero_original_refuted.

Theorem Onepass_endonly_original_refuted :
  run before_2b09251 nfa_end_or_a [97%N] = Some (None, false) /\
  ref_anchored nfa_end_or_a [97%N] = Done (Some [0; 1]%Z) /\
  run cur nfa_end_or_a [97%N] = Some (Some [0; 1]%Z, true).
Proof. exact onepass_endonly_original_refuted. Qed.
Print Assumptions Onepass_endonly_original_refuted.

Theorem Onepass_merge_original_refuted :
  run before_2b09251 nfa_a_or_cap_a [97%N] = Some (Some [0; 1; 0; 0]%Z, true) /\
  ref_anchored nfa_a_or_cap_a [97%N] = Done (Some [0; 1; -1; -1]%Z) /\
  run cur nfa_a_or_cap_a [97%N] = Some (Some [0; 1; -1; -1]%Z, true).
Proof. exact onepass_merge_original_refuted. Qed.
Print Assumptions Onepass_merge_original_refuted.

Theorem Onepass_cap0_refuted :
  wf_nfa nfa_cap0 = true /\ run cur nfa_cap0 [97%N] = Some (Some [1; 1]%Z, true) /\
  ref_anchored nfa_cap0 [97%N] = Done (Some [0; 1]%Z).
Proof. exact onepass_cap0_refuted. Qed.
Print Assumptions Onepass_cap0_refuted.
