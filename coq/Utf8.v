(* Utf8.v — UTF-8 encoding and decoding as Go's unicode/utf8 does it.

   encode r  : utf8.AppendRune(nil, r)   (surrogates and r > 0x10FFFF become EF BF BD)
   decode bs : utf8.DecodeRune(bs)       (any ill-formed prefix is (U+FFFD, 1))

   Convention for the empty input: Go returns (RuneError, 0); the model returns None, so
   that every `Some (r, w)` has 1 <= w <= 4.

   Bytes are N (< 256 for real inputs; a "byte" >= 256 decodes as an invalid byte).
   The functions use shifts/masks (fast under vm_compute); the lemmas *_arith restate them
   with div/mod for lia.                                                                   *)
From Coq Require Import List NArith Lia Bool Arith PeanoNat.
From Coq Require Import ZifyBool ZifyNat ZifyN.
Import ListNotations.
Local Open Scope N_scope.

(* ------------------------------------------------------------------ code points *)
Definition is_surrogate (r : N) : bool := (0xD800 <=? r) && (r <=? 0xDFFF).
Definition is_scalar (r : N) : bool := (r <=? 0x10FFFF) && negb (is_surrogate r).

Definition lo6 (x : N) : N := N.land x 63.
Definition cbyte (x : N) : N := 128 + lo6 x.          (* 0x80 | (x & 0x3F) *)

Lemma lo6_mod x : lo6 x = x mod 64.
Proof. unfold lo6. change 63 with (N.ones 6). rewrite N.land_ones. reflexivity. Qed.

Lemma shr6 x : N.shiftr x 6 = x / 64.
Proof. rewrite N.shiftr_div_pow2. reflexivity. Qed.
Lemma shr12 x : N.shiftr x 12 = x / 4096.
Proof. rewrite N.shiftr_div_pow2. reflexivity. Qed.
Lemma shr18 x : N.shiftr x 18 = x / 262144.
Proof. rewrite N.shiftr_div_pow2. reflexivity. Qed.
Lemma shl6 x : N.shiftl x 6 = x * 64.
Proof. rewrite N.shiftl_mul_pow2. reflexivity. Qed.
Lemma shl12 x : N.shiftl x 12 = x * 4096.
Proof. rewrite N.shiftl_mul_pow2. reflexivity. Qed.
Lemma shl18 x : N.shiftl x 18 = x * 262144.
Proof. rewrite N.shiftl_mul_pow2. reflexivity. Qed.
Lemma land31 x : N.land x 31 = x mod 32.
Proof. change 31 with (N.ones 5). rewrite N.land_ones. reflexivity. Qed.
Lemma land15 x : N.land x 15 = x mod 16.
Proof. change 15 with (N.ones 4). rewrite N.land_ones. reflexivity. Qed.
Lemma land7 x : N.land x 7 = x mod 8.
Proof. change 7 with (N.ones 3). rewrite N.land_ones. reflexivity. Qed.

(* unicode/utf8: AppendRune / EncodeRune; nfa/compile.go: encodeRune is the same function
   on scalar values (it has no surrogate / range check: the `|` of Go is `+` here, the
   operands have disjoint bits) *)
Definition encode (r : N) : list N :=
  if r <? 0x80 then [r]
  else if r <? 0x800 then [192 + N.shiftr r 6; cbyte r]
  else if r <? 0x10000 then
    if is_surrogate r then [0xEF; 0xBF; 0xBD]
    else [224 + N.shiftr r 12; cbyte (N.shiftr r 6); cbyte r]
  else if r <=? 0x10FFFF then [240 + N.shiftr r 18; cbyte (N.shiftr r 12); cbyte (N.shiftr r 6); cbyte r]
  else [0xEF; 0xBF; 0xBD].

Lemma encode_arith r :
  encode r =
  if r <? 0x80 then [r]
  else if r <? 0x800 then [192 + r / 64; 128 + r mod 64]
  else if r <? 0x10000 then
    if is_surrogate r then [0xEF; 0xBF; 0xBD]
    else [224 + r / 4096; 128 + (r / 64) mod 64; 128 + r mod 64]
  else if r <=? 0x10FFFF then [240 + r / 262144; 128 + (r / 4096) mod 64; 128 + (r / 64) mod 64; 128 + r mod 64]
  else [0xEF; 0xBF; 0xBD].
Proof. unfold encode, cbyte. rewrite !lo6_mod, shr6, shr12, shr18. reflexivity. Qed.

(* ------------------------------------------------------------------ decoding *)
Definition is_cont (b : N) : bool := (0x80 <=? b) && (b <=? 0xBF).
Definition rune_error : N := 0xFFFD.
Definition bad : option (N * nat) := Some (rune_error, 1%nat).

(* unicode/utf8: DecodeRune.  `first[p0]`: < 0x80 ASCII; 0x80..0xC1 and 0xF5..0xFF invalid
   (xx); 0xC2..0xDF size 2; 0xE0..0xEF size 3 with accept range A0..BF for E0, 80..9F for
   ED; 0xF0..0xF4 size 4 with accept range 90..BF for F0, 80..8F for F4.  A sequence cut
   short by the end of the input is (RuneError, 1). *)
Definition decode (bs : list N) : option (N * nat) :=
  match bs with
  | [] => None
  | b0 :: t =>
    if b0 <? 0x80 then Some (b0, 1%nat)
    else if b0 <? 0xC2 then bad
    else if b0 <? 0xE0 then
      match t with
      | b1 :: _ =>
        if is_cont b1 then Some (N.shiftl (N.land b0 31) 6 + lo6 b1, 2%nat) else bad
      | _ => bad
      end
    else if b0 <? 0xF0 then
      match t with
      | b1 :: b2 :: _ =>
        if ((if b0 =? 0xE0 then 0xA0 else 0x80) <=? b1) && (b1 <=? (if b0 =? 0xED then 0x9F else 0xBF))
           && is_cont b2
        then Some (N.shiftl (N.land b0 15) 12 + N.shiftl (lo6 b1) 6 + lo6 b2, 3%nat) else bad
      | _ => bad
      end
    else if b0 <? 0xF5 then
      match t with
      | b1 :: b2 :: b3 :: _ =>
        if ((if b0 =? 0xF0 then 0x90 else 0x80) <=? b1) && (b1 <=? (if b0 =? 0xF4 then 0x8F else 0xBF))
           && is_cont b2 && is_cont b3
        then Some (N.shiftl (N.land b0 7) 18 + N.shiftl (lo6 b1) 12 + N.shiftl (lo6 b2) 6 + lo6 b3, 4%nat)
        else bad
      | _ => bad
      end
    else bad
  end.

Lemma decode_arith b0 t :
  decode (b0 :: t) =
    if b0 <? 0x80 then Some (b0, 1%nat)
    else if b0 <? 0xC2 then bad
    else if b0 <? 0xE0 then
      match t with
      | b1 :: _ =>
        if is_cont b1 then Some ((b0 mod 32) * 64 + b1 mod 64, 2%nat) else bad
      | _ => bad
      end
    else if b0 <? 0xF0 then
      match t with
      | b1 :: b2 :: _ =>
        if ((if b0 =? 0xE0 then 0xA0 else 0x80) <=? b1) && (b1 <=? (if b0 =? 0xED then 0x9F else 0xBF))
           && is_cont b2
        then Some ((b0 mod 16) * 4096 + (b1 mod 64) * 64 + b2 mod 64, 3%nat) else bad
      | _ => bad
      end
    else if b0 <? 0xF5 then
      match t with
      | b1 :: b2 :: b3 :: _ =>
        if ((if b0 =? 0xF0 then 0x90 else 0x80) <=? b1) && (b1 <=? (if b0 =? 0xF4 then 0x8F else 0xBF))
           && is_cont b2 && is_cont b3
        then Some ((b0 mod 8) * 262144 + (b1 mod 64) * 4096 + (b2 mod 64) * 64 + b3 mod 64, 4%nat)
        else bad
      | _ => bad
      end
    else bad.
Proof.
  cbn [decode]. rewrite ?shl6, ?shl12, ?shl18, ?lo6_mod, land31, land15, land7.
  destruct t as [|b1 [|b2 [|b3 t]]]; rewrite ?shl6, ?shl12, ?shl18, ?lo6_mod; reflexivity.
Qed.

(* ------------------------------------------------------------------ encode: length *)
Definition enc_len (r : N) : nat :=
  if r <? 0x80 then 1 else if r <? 0x800 then 2 else if r <? 0x10000 then 3
  else if r <=? 0x10FFFF then 4 else 3.

Theorem encode_len r : length (encode r) = enc_len r.
Proof.
  unfold encode, enc_len.
  destruct (r <? 0x80); [reflexivity|]. destruct (r <? 0x800); [reflexivity|].
  destruct (r <? 0x10000); [destruct (is_surrogate r); reflexivity|].
  destruct (r <=? 0x10FFFF); reflexivity.
Qed.

Lemma encode_len_bounds r : (1 <= length (encode r) <= 4)%nat.
Proof.
  rewrite encode_len. unfold enc_len.
  destruct (r <? 0x80), (r <? 0x800), (r <? 0x10000), (r <=? 0x10FFFF); lia.
Qed.

Lemma encode_nonscalar r : is_scalar r = false -> encode r = [0xEF; 0xBF; 0xBD].
Proof.
  unfold is_scalar, encode. intros H.
  destruct (r <? 0x80) eqn:E1; [unfold is_surrogate in H; lia|].
  destruct (r <? 0x800) eqn:E2; [unfold is_surrogate in H; lia|].
  destruct (r <? 0x10000) eqn:E3.
  - destruct (is_surrogate r) eqn:E4; [reflexivity|]. lia.
  - destruct (r <=? 0x10FFFF) eqn:E4; [|reflexivity]. unfold is_surrogate in H. lia.
Qed.

(* all bytes of an encoding are bytes *)
Lemma encode_bytes r : Forall (fun b => b < 256) (encode r).
Proof.
  rewrite encode_arith.
  destruct (r <? 0x80) eqn:E1; [repeat constructor; lia|].
  destruct (r <? 0x800) eqn:E2; [repeat constructor; lia|].
  destruct (r <? 0x10000) eqn:E3.
  - destruct (is_surrogate r); repeat constructor; lia.
  - destruct (r <=? 0x10FFFF) eqn:E4; repeat constructor; lia.
Qed.

(* ------------------------------------------------------------------ decode ∘ encode *)
Theorem decode_encode r rest :
  is_scalar r = true -> decode (encode r ++ rest) = Some (r, length (encode r)).
Proof.
  intros Hs. unfold is_scalar, is_surrogate in Hs.
  rewrite encode_len. unfold enc_len. rewrite encode_arith. unfold is_surrogate.
  destruct (r <? 0x80) eqn:E1.
  { cbn [app]. rewrite decode_arith. rewrite E1. reflexivity. }
  destruct (r <? 0x800) eqn:E2.
  { cbn [app]. rewrite decode_arith. unfold is_cont.
    replace (192 + r / 64 <? 128) with false by lia.
    replace (192 + r / 64 <? 194) with false by lia.
    replace (192 + r / 64 <? 224) with true by lia.
    replace ((128 <=? 128 + r mod 64) && (128 + r mod 64 <=? 191)) with true by lia.
    f_equal. f_equal. lia. }
  destruct (r <? 0x10000) eqn:E3.
  { replace ((55296 <=? r) && (r <=? 57343)) with false by lia.
    cbn [app]. rewrite decode_arith. unfold is_cont.
    replace (224 + r / 4096 <? 128) with false by lia.
    replace (224 + r / 4096 <? 194) with false by lia.
    replace (224 + r / 4096 <? 224) with false by lia.
    replace (224 + r / 4096 <? 240) with true by lia.
    assert (Hc : ((if 224 + r / 4096 =? 224 then 160 else 128) <=? 128 + (r / 64) mod 64) &&
                 (128 + (r / 64) mod 64 <=? (if 224 + r / 4096 =? 237 then 159 else 191)) &&
                 ((128 <=? 128 + r mod 64) && (128 + r mod 64 <=? 191)) = true).
    { destruct (224 + r / 4096 =? 224) eqn:Ea; destruct (224 + r / 4096 =? 237) eqn:Eb; lia. }
    rewrite Hc. f_equal. f_equal. lia. }
  replace (r <=? 1114111) with true by lia.
  cbn [app]. rewrite decode_arith. unfold is_cont.
  replace (240 + r / 262144 <? 128) with false by lia.
  replace (240 + r / 262144 <? 194) with false by lia.
  replace (240 + r / 262144 <? 224) with false by lia.
  replace (240 + r / 262144 <? 240) with false by lia.
  replace (240 + r / 262144 <? 245) with true by lia.
  assert (Hc : ((if 240 + r / 262144 =? 240 then 144 else 128) <=? 128 + (r / 4096) mod 64) &&
               (128 + (r / 4096) mod 64 <=? (if 240 + r / 262144 =? 244 then 143 else 191)) &&
               ((128 <=? 128 + (r / 64) mod 64) && (128 + (r / 64) mod 64 <=? 191)) &&
               ((128 <=? 128 + r mod 64) && (128 + r mod 64 <=? 191)) = true).
  { destruct (240 + r / 262144 =? 240) eqn:Ea; destruct (240 + r / 262144 =? 244) eqn:Eb; lia. }
  rewrite Hc. f_equal. f_equal. lia.
Qed.

Corollary decode_encode_nil r :
  is_scalar r = true -> decode (encode r) = Some (r, length (encode r)).
Proof. intros H. rewrite <- (app_nil_r (encode r)) at 1. now apply decode_encode. Qed.

Theorem encode_inj r1 r2 :
  is_scalar r1 = true -> is_scalar r2 = true -> encode r1 = encode r2 -> r1 = r2.
Proof.
  intros H1 H2 He. pose proof (decode_encode_nil r1 H1) as D1.
  pose proof (decode_encode_nil r2 H2) as D2. rewrite He in D1. congruence.
Qed.

(* ------------------------------------------------------------------ decode: shape of results *)
Theorem decode_width_pos bs r w :
  decode bs = Some (r, w) -> (1 <= w <= 4)%nat /\ (w <= length bs)%nat.
Proof.
  destruct bs as [|b0 t]; [discriminate|]. cbn [decode]. unfold bad. intros H.
  repeat match type of H with
         | (if ?c then _ else _) = _ => destruct c
         | match ?l with [] => _ | _ :: _ => _ end = _ => destruct l
         end; inversion H; subst; cbn [length]; lia.
Qed.

Lemma decode_cons_some b t : exists r w, decode (b :: t) = Some (r, w).
Proof.
  cbn [decode]. unfold bad.
  repeat match goal with
         | |- context [if ?c then _ else _] => destruct c
         | |- context [match ?l with [] => _ | _ :: _ => _ end] => destruct l
         end; eauto.
Qed.

(* a well-formed prefix: decode returns the scalar value it encodes *)
Theorem decode_valid_is_encode bs r w :
  decode bs = Some (r, w) -> (1 < w)%nat \/ r < 0x80 ->
  firstn w bs = encode r /\ is_scalar r = true /\ w = length (encode r).
Proof.
  destruct bs as [|b0 t]; [discriminate|]. rewrite decode_arith. unfold bad, rune_error, is_cont.
  intros H Hw.
  destruct (b0 <? 0x80) eqn:E0.
  { inversion H; subst. rewrite encode_len, encode_arith. unfold enc_len, is_scalar, is_surrogate.
    rewrite E0. cbn [firstn]. repeat split; lia. }
  destruct (b0 <? 0xC2) eqn:E1; [inversion H; subst; lia|].
  destruct (b0 <? 0xE0) eqn:E2.
  { destruct t as [|b1 t]; [inversion H; subst; lia|].
    destruct ((128 <=? b1) && (b1 <=? 191)) eqn:Ec; [|inversion H; subst; lia].
    inversion H; subst. clear H Hw.
    rewrite encode_len, encode_arith. unfold enc_len, is_scalar, is_surrogate.
    replace (b0 mod 32 * 64 + b1 mod 64 <? 128) with false by lia.
    replace (b0 mod 32 * 64 + b1 mod 64 <? 2048) with true by lia.
    cbn [firstn]. repeat split; try lia. f_equal; [lia|f_equal; lia]. }
  destruct (b0 <? 0xF0) eqn:E3.
  { destruct t as [|b1 [|b2 t]]; try (inversion H; subst; lia).
    match type of H with (if ?c then _ else _) = _ => destruct c eqn:Ec end; [|inversion H; subst; lia].
    inversion H; subst. clear H Hw.
    rewrite encode_len, encode_arith. unfold enc_len, is_scalar, is_surrogate.
    destruct (b0 =? 224) eqn:Ea; destruct (b0 =? 237) eqn:Eb; try lia.
    all: set (v := b0 mod 16 * 4096 + b1 mod 64 * 64 + b2 mod 64).
    all: replace (v <? 128) with false by lia; replace (v <? 2048) with false by lia;
         replace (v <? 65536) with true by lia;
         replace ((55296 <=? v) && (v <=? 57343)) with false by lia.
    all: cbn [firstn]; repeat split; try lia.
    all: f_equal; [lia|f_equal; [lia|f_equal; lia]]. }
  destruct (b0 <? 0xF5) eqn:E4; [|inversion H; subst; lia].
  destruct t as [|b1 [|b2 [|b3 t]]]; try (inversion H; subst; lia).
  match type of H with (if ?c then _ else _) = _ => destruct c eqn:Ec end; [|inversion H; subst; lia].
  inversion H; subst. clear H Hw.
  rewrite encode_len, encode_arith. unfold enc_len, is_scalar, is_surrogate.
  destruct (b0 =? 240) eqn:Ea; destruct (b0 =? 244) eqn:Eb; try lia.
  all: set (v := b0 mod 8 * 262144 + b1 mod 64 * 4096 + b2 mod 64 * 64 + b3 mod 64).
  all: replace (v <? 128) with false by lia; replace (v <? 2048) with false by lia;
       replace (v <? 65536) with false by lia; replace (v <=? 1114111) with true by lia.
  all: cbn [firstn]; repeat split; try lia.
  all: f_equal; [lia|f_equal; [lia|f_equal; [lia|f_equal; lia]]].
Qed.

(* every failure has width 1 and value U+FFFD: whenever the consumed prefix is not the
   encoding of the returned rune, the result is (U+FFFD, 1) *)
Theorem decode_invalid_width1 bs r w :
  decode bs = Some (r, w) -> firstn w bs <> encode r -> r = rune_error /\ w = 1%nat.
Proof.
  intros H Hne.
  destruct (Nat.ltb 1 w) eqn:Ew.
  { apply Nat.ltb_lt in Ew. destruct (decode_valid_is_encode bs r w H (or_introl Ew)) as [Hf _]. contradiction. }
  apply Nat.ltb_ge in Ew. destruct (decode_width_pos _ _ _ H) as [[Hw1 _] _].
  assert (w = 1%nat) by lia. subst w. split; [|reflexivity].
  destruct (r <? 0x80) eqn:Er.
  { destruct (decode_valid_is_encode bs r 1 H) as [Hf _]; [right; lia|contradiction]. }
  destruct bs as [|b0 t]; [discriminate|]. cbn [decode] in H. unfold bad in H.
  repeat match type of H with
         | (if ?c then _ else _) = _ => destruct c eqn:?
         | match ?l with [] => _ | _ :: _ => _ end = _ => destruct l
         end; inversion H; subst; try reflexivity; try lia.
Qed.

(* a result of width 1 is an ASCII byte or the replacement character *)
Lemma decode_width1 bs r : decode bs = Some (r, 1%nat) -> r < 0x80 \/ r = rune_error.
Proof.
  intros H. destruct (r <? 0x80) eqn:E; [left; lia|right].
  destruct bs as [|b0 t]; [discriminate|]. cbn [decode] in H. unfold bad in H.
  repeat match type of H with
         | (if ?c then _ else _) = _ => destruct c eqn:?
         | match ?l with [] => _ | _ :: _ => _ end = _ => destruct l
         end; inversion H; subst; try reflexivity; try lia.
Qed.

(* a single byte >= 0x80 (including non-bytes) is the replacement character *)
Lemma decode_single_high b : 0x80 <= b -> decode [b] = Some (rune_error, 1%nat).
Proof.
  intros H. cbn [decode]. unfold bad.
  replace (b <? 128) with false by lia.
  repeat match goal with |- context [if ?c then _ else _] => destruct c end; reflexivity.
Qed.

Lemma decode_single_low b : b < 0x80 -> decode [b] = Some (b, 1%nat).
Proof. intros H. cbn [decode]. replace (b <? 128) with true by lia. reflexivity. Qed.

(* whole-string decoding of a string of length >= 2: exactly the multi-byte encodings *)
Theorem decode_whole_multibyte bs r :
  (2 <= length bs)%nat -> decode bs = Some (r, length bs) ->
  bs = encode r /\ is_scalar r = true.
Proof.
  intros Hl H. destruct (decode_valid_is_encode bs r (length bs) H) as [Hf [Hs _]]; [left; lia|].
  rewrite firstn_all in Hf. now split.
Qed.

(* ------------------------------------------------------------------ pages of 64 code points
   all code points of a page r/64 share all bytes of their encoding but the last *)
Lemma scalar_page r : 128 <= r -> is_scalar r = true -> is_scalar (r / 64 * 64) = true.
Proof. unfold is_scalar, is_surrogate. intros H1 H2. lia. Qed.

Theorem encode_page r : 128 <= r -> is_scalar r = true ->
  encode r = removelast (encode (r / 64 * 64)) ++ [128 + r mod 64].
Proof.
  intros H1 Hs. unfold is_scalar, is_surrogate in Hs. rewrite !encode_arith. unfold is_surrogate.
  set (b := r / 64 * 64).
  replace (r <? 128) with false by lia. replace (b <? 128) with false by lia.
  destruct (r <? 2048) eqn:E2.
  { replace (b <? 2048) with true by lia. cbn [removelast app]. f_equal. lia. }
  replace (b <? 2048) with false by lia.
  destruct (r <? 65536) eqn:E3.
  { replace (b <? 65536) with true by lia.
    replace ((55296 <=? r) && (r <=? 57343)) with false by lia.
    replace ((55296 <=? b) && (b <=? 57343)) with false by lia.
    cbn [removelast app]. f_equal; [lia|]. f_equal. lia. }
  replace (b <? 65536) with false by lia.
  replace (r <=? 1114111) with true by lia. replace (b <=? 1114111) with true by lia.
  cbn [removelast app]. f_equal; [lia|]. f_equal; [lia|]. f_equal. lia.
Qed.

(* ------------------------------------------------------------------ case checker
   (correspondence run: Go's utf8.AppendRune / utf8.DecodeRune against the model) *)
Record case := mkCase {
  c_id : N;
  c_rune : N;                 (* input of AppendRune *)
  c_enc : list N;             (* observed utf8.AppendRune(nil, rune) *)
  c_bytes : list N;           (* input of DecodeRune *)
  c_dec_r : N; c_dec_w : nat  (* observed utf8.DecodeRune(bytes); (0xFFFD, 0) for empty *)
}.

Definition list_N_eqb (a b : list N) : bool :=
  (length a =? length b)%nat && forallb (fun '(x, y) => x =? y) (combine a b).

Definition check_case (c : case) : bool :=
  list_N_eqb (encode (c_rune c)) (c_enc c) &&
  match decode (c_bytes c) with
  | Some (r, w) => (r =? c_dec_r c) && (w =? c_dec_w c)%nat
  | None => (c_dec_r c =? rune_error) && (c_dec_w c =? 0)%nat
  end.

Definition mismatches (cs : list case) : list N :=
  map c_id (filter (fun c => negb (check_case c)) cs).
