(* Property C16: prefilters never skip a match and "complete" prefilters are exact.
   Statements only; proofs and models are in Teddy.v. *)
Require Import List NArith ZArith Bool Arith.
From CV Require Import Teddy.
Import ListNotations.

(* the specification: pf_find is the minimum occurrence position at or after s *)
Theorem C16_pf_find_spec : forall (L : list (list N)) (h : list N) (s : nat),
  (forall i, pf_find L h s = Some i <->
     (s <= i <= length h /\ occurs_at L h i = true /\
      forall j, s <= j < i -> occurs_at L h j = false)) /\
  (pf_find L h s = None <-> forall i, s <= i <= length h -> occurs_at L h i = false).
Proof. exact Teddy.pf_find_spec. Qed.
Print Assumptions C16_pf_find_spec.

Theorem C16_occurs_at_iff : forall L h i,
  occurs_at L h i = true <-> exists l, In l L /\ (exists r, skipn i h = l ++ r).
Proof. exact Teddy.occurs_at_iff. Qed.
Print Assumptions C16_occurs_at_iff.

(* certified checker on dumped masks/buckets: no false negatives (slim and fat) *)
Theorem C16_masks_ok_sound : forall (T : teddy) (pid : nat) (l h : list N) (i : nat),
  masks_ok T = true -> nth_error (pats T) pid = Some l -> prefix l (skipn i h) ->
  exists b, b < nbk T /\ In pid (nth b (bkts T) []) /\
            N.testbit (cmask T (skipn i h)) (N.of_nat b) = true.
Proof. exact Teddy.masks_ok_sound. Qed.
Print Assumptions C16_masks_ok_sound.

Theorem C16_teddy_no_false_negative : forall (T : teddy) (l h : list N) (i : nat),
  masks_ok T = true -> In l (pats T) -> prefix l (skipn i h) -> cmask T (skipn i h) <> 0%N.
Proof. exact Teddy.teddy_no_false_negative. Qed.
Print Assumptions C16_teddy_no_false_negative.

(* the pure Go candidate finder meets the contract assumed of the assembly *)
Theorem C16_scalar_cand_contract : forall T : teddy, cand_contract T (scalar_cand T).
Proof. exact Teddy.scalar_cand_contract. Qed.
Print Assumptions C16_scalar_cand_contract.

Theorem C16_scalar_cand_contract_exact : forall T : teddy, cand_contract_exact T (scalar_cand T).
Proof. exact Teddy.scalar_cand_contract_exact. Qed.
Print Assumptions C16_scalar_cand_contract_exact.

Theorem C16_cand_contract_exact_weak : forall (T : teddy) (cand : list N -> option (nat * N)),
  cand_contract_exact T cand -> cand_contract T cand.
Proof. exact Teddy.cand_contract_exact_weak. Qed.
Print Assumptions C16_cand_contract_exact_weak.

(* Teddy.Find / FatTeddy.Find (any candidate finder meeting the contract) = pf_find *)
Theorem C16_teddy_find_is_min : forall (cand : list N -> option (nat * N)) (T : teddy),
  masks_ok T = true -> nonempty (pats T) -> cand_contract T cand ->
  forall (h : list N) (s : nat), teddy_find cand T h s = pf_find (pats T) h s.
Proof. exact Teddy.teddy_find_is_min. Qed.
Print Assumptions C16_teddy_find_is_min.

Theorem C16_teddy_search_fuel_ok : forall (cand : list N -> option (nat * N)) (T : teddy),
  masks_ok T = true -> nonempty (pats T) -> cand_contract T cand ->
  forall (h : list N) (s : nat), teddy_search cand T h s <> None.
Proof. exact Teddy.teddy_search_fuel_ok. Qed.
Print Assumptions C16_teddy_search_fuel_ok.

Theorem C16_teddy_find_scalar_is_min : forall (T : teddy) (h : list N) (s : nat),
  masks_ok T = true -> nonempty (pats T) -> teddy_find_scalar T h s = pf_find (pats T) h s.
Proof. exact Teddy.teddy_find_scalar_is_min. Qed.
Print Assumptions C16_teddy_find_scalar_is_min.

(* the model of NewTeddy/NewFatTeddy + buildMasks always passes the checker, hence: *)
Theorem C16_new_teddy_masks_ok : forall (isfat : bool) (ps : list (list N)) (fp : nat),
  ps <> [] -> masks_ok (new_teddy_gen isfat ps fp) = true.
Proof. exact Teddy.new_teddy_masks_ok. Qed.
Print Assumptions C16_new_teddy_masks_ok.

Theorem C16_new_teddy_find_is_min :
  forall (isfat : bool) (ps : list (list N)) (fp : nat) (h : list N) (s : nat),
  ps <> [] -> nonempty ps ->
  teddy_find_scalar (new_teddy_gen isfat ps fp) h s = pf_find ps h s.
Proof. exact Teddy.new_teddy_find_is_min. Qed.
Print Assumptions C16_new_teddy_find_is_min.

(* ---------------- FindMatch, repaired code (fix d598647 in /repo) ---------------- *)

(* the start is the minimum *)
Theorem C16_teddy_findmatch_start_is_min : forall (cand : list N -> option (nat * N)) (T : teddy),
  masks_ok T = true -> nonempty (pats T) -> cand_contract T cand ->
  forall (h : list N) (s : nat),
  option_map fst (teddy_findmatch cand T h s) = pf_find (pats T) h s.
Proof. exact Teddy.teddy_findmatch_start_is_min. Qed.
Print Assumptions C16_teddy_findmatch_start_is_min.

Theorem C16_teddy_search_min_fuel_ok : forall (cand : list N -> option (nat * N)) (T : teddy),
  masks_ok T = true -> nonempty (pats T) -> cand_contract T cand ->
  forall (h : list N) (s : nat), teddy_search_min cand T h s <> None.
Proof. exact Teddy.teddy_search_min_fuel_ok. Qed.
Print Assumptions C16_teddy_search_min_fuel_ok.

(* THE FULL STATEMENT: FindMatch reports the leftmost-first span, for all haystacks and
   starts (scalar path and candidate path), slim and fat, any candidate finder meeting
   the contract; buckets_sorted = ids ascending inside each bucket (checked on the dump) *)
Theorem C16_teddy_findmatch_leftmost_first :
  forall (cand : list N -> option (nat * N)) (T : teddy),
  masks_ok T = true -> nonempty (pats T) -> cand_contract T cand ->
  buckets_sorted T = true ->
  forall (h : list N) (s : nat), teddy_findmatch cand T h s = pf_findmatch (pats T) h s.
Proof. exact Teddy.teddy_findmatch_leftmost_first. Qed.
Print Assumptions C16_teddy_findmatch_leftmost_first.

Theorem C16_teddy_findmatch_reports_occurrence :
  forall (cand : list N -> option (nat * N)) (T : teddy),
  masks_ok T = true -> nonempty (pats T) -> cand_contract T cand ->
  buckets_sorted T = true ->
  forall (h : list N) (s p e : nat),
  teddy_findmatch cand T h s = Some (p, e) ->
  exists l, In l (pats T) /\ prefix l (skipn p h) /\ e = p + length l.
Proof. exact Teddy.teddy_findmatch_reports_occurrence. Qed.
Print Assumptions C16_teddy_findmatch_reports_occurrence.

(* buildMasks guarantees ascending buckets; end-to-end corollary for the model's own
   NewTeddy / NewFatTeddy with the pure Go candidate finder: no artifact, no hypothesis *)
Theorem C16_new_teddy_buckets_sorted : forall (isfat : bool) (ps : list (list N)) (fp : nat),
  buckets_sorted (new_teddy_gen isfat ps fp) = true.
Proof. exact Teddy.new_teddy_buckets_sorted. Qed.
Print Assumptions C16_new_teddy_buckets_sorted.

Theorem C16_new_teddy_findmatch_leftmost_first :
  forall (isfat : bool) (ps : list (list N)) (fp : nat) (h : list N) (s : nat),
  ps <> [] -> nonempty ps ->
  teddy_findmatch_scalar (new_teddy_gen isfat ps fp) h s = pf_findmatch ps h s.
Proof. exact Teddy.new_teddy_findmatch_leftmost_first. Qed.
Print Assumptions C16_new_teddy_findmatch_leftmost_first.

Theorem C16_teddy_findmatch_witness_repaired :
  teddy_findmatch_scalar (new_teddy witness_pats 2) witness_hay 0 = Some (20, 24) /\
  teddy_findmatch_scalar (new_fat_teddy fat_witness_pats 2) witness_hay 0 = Some (20, 24).
Proof. exact Teddy.teddy_findmatch_witness_repaired. Qed.
Print Assumptions C16_teddy_findmatch_witness_repaired.

(* ------- FindMatch, THE ORIGINAL CODE BEFORE FIX d598647 (first hit in bucket order) -------
   kept to document why the fix is needed: start minimal and span an occurrence, leftmost-
   first only in three special cases, refuted in general *)
Theorem C16_teddy_findmatch_bucket_order_start_is_min :
  forall (cand : list N -> option (nat * N)) (T : teddy),
  masks_ok T = true -> nonempty (pats T) -> cand_contract T cand ->
  forall (h : list N) (s : nat),
  option_map fst (teddy_findmatch_bucket_order cand T h s) = pf_find (pats T) h s.
Proof. exact Teddy.teddy_findmatch_bucket_order_start_is_min. Qed.
Print Assumptions C16_teddy_findmatch_bucket_order_start_is_min.

Theorem C16_teddy_findmatch_bucket_order_reports_occurrence :
  forall (cand : list N -> option (nat * N)) (T : teddy),
  masks_ok T = true -> nonempty (pats T) -> cand_contract T cand ->
  forall (h : list N) (s p e : nat),
  teddy_findmatch_bucket_order cand T h s = Some (p, e) ->
  exists l, In l (pats T) /\ prefix l (skipn p h) /\ e = p + length l.
Proof. exact Teddy.teddy_findmatch_bucket_order_reports_occurrence. Qed.
Print Assumptions C16_teddy_findmatch_bucket_order_reports_occurrence.

Theorem C16_teddy_findmatch_bucket_order_leftmost_first_short :
  forall (cand : list N -> option (nat * N)) (T : teddy),
  masks_ok T = true -> nonempty (pats T) -> cand_contract T cand ->
  forall (h : list N) (s : nat), length h - s < 16 ->
  teddy_findmatch_bucket_order cand T h s = pf_findmatch (pats T) h s.
Proof. exact Teddy.teddy_findmatch_bucket_order_leftmost_first_short. Qed.
Print Assumptions C16_teddy_findmatch_bucket_order_leftmost_first_short.

Theorem C16_teddy_findmatch_bucket_order_leftmost_first_unambiguous :
  forall (cand : list N -> option (nat * N)) (T : teddy),
  masks_ok T = true -> nonempty (pats T) -> cand_contract T cand ->
  forall (h : list N) (s : nat), unambiguous (pats T) ->
  teddy_findmatch_bucket_order cand T h s = pf_findmatch (pats T) h s.
Proof. exact Teddy.teddy_findmatch_bucket_order_leftmost_first_unambiguous. Qed.
Print Assumptions C16_teddy_findmatch_bucket_order_leftmost_first_unambiguous.

Theorem C16_teddy_findmatch_bucket_order_leftmost_first_singleton :
  forall (cand : list N -> option (nat * N)) (T : teddy),
  masks_ok T = true -> nonempty (pats T) -> cand_contract T cand ->
  forall (h : list N) (s : nat), singleton_buckets T ->
  teddy_findmatch_bucket_order cand T h s = pf_findmatch (pats T) h s.
Proof. exact Teddy.teddy_findmatch_bucket_order_leftmost_first_singleton. Qed.
Print Assumptions C16_teddy_findmatch_bucket_order_leftmost_first_singleton.

Theorem C16_new_teddy_singleton : forall (ps : list (list N)) (fp : nat),
  length ps <= 8 -> singleton_buckets (new_teddy ps fp).
Proof. exact Teddy.new_teddy_singleton. Qed.
Print Assumptions C16_new_teddy_singleton.

Theorem C16_teddy_findmatch_bucket_order_leftmost_first_refuted :
  exists (ps : list (list N)) (h : list N) (s : nat),
    let T := new_teddy ps 2 in
    2 <= length ps <= 32 /\
    forallb (fun l => 3 <=? length l) ps = true /\
    masks_ok T = true /\
    teddy_findmatch_bucket_order_scalar T h s = Some (20, 23) /\
    pf_findmatch ps h s = Some (20, 24).
Proof. exact Teddy.teddy_findmatch_bucket_order_leftmost_first_refuted. Qed.
Print Assumptions C16_teddy_findmatch_bucket_order_leftmost_first_refuted.

Theorem C16_fat_teddy_findmatch_bucket_order_leftmost_first_refuted :
  exists (ps : list (list N)) (h : list N) (s : nat),
    let T := new_fat_teddy ps 2 in
    2 <= length ps <= 64 /\
    forallb (fun l => 3 <=? length l) ps = true /\
    masks_ok T = true /\
    teddy_findmatch_bucket_order_scalar T h s = Some (20, 23) /\
    pf_findmatch ps h s = Some (20, 24).
Proof. exact Teddy.fat_teddy_findmatch_bucket_order_leftmost_first_refuted. Qed.
Print Assumptions C16_fat_teddy_findmatch_bucket_order_leftmost_first_refuted.

(* IsComplete with LiteralLen() > 0 (all literals of one length): start + LiteralLen is
   the leftmost-first span *)
Theorem C16_uniform_len_span : forall (L : list (list N)) (h : list N) (s n : nat),
  (forall l, In l L -> length l = n) ->
  pf_findmatch L h s = option_map (fun p => (p, p + n)) (pf_find L h s).
Proof. exact Teddy.uniform_len_span. Qed.
Print Assumptions C16_uniform_len_span.

(* single byte / single substring / digit prefilters, relative to the C18 specifications *)
Theorem C16_memchr_prefilter_is_min : forall memchr : list N -> N -> option nat,
  (forall (t : list N) (c : N), memchr t c = first_index (N.eqb c) t) ->
  forall (c : N) (h : list N) (s : nat), memchr_pf_find memchr c h s = pf_find [[c]] h s.
Proof. exact Teddy.memchr_prefilter_is_min. Qed.
Print Assumptions C16_memchr_prefilter_is_min.

Theorem C16_memmem_prefilter_is_min : forall memmem : list N -> list N -> option nat,
  (forall t needle : list N, memmem t needle = pf_find [needle] t 0) ->
  forall (needle h : list N) (s : nat), needle <> [] ->
  memmem_pf_find memmem needle h s = pf_find [needle] h s.
Proof. exact Teddy.memmem_prefilter_is_min. Qed.
Print Assumptions C16_memmem_prefilter_is_min.

Theorem C16_digit_prefilter_is_min : forall memchr_digit : list N -> option nat,
  (forall t : list N, memchr_digit t = first_index is_digit t) ->
  forall (h : list N) (s : nat),
  (forall i, digit_pf_find memchr_digit h s = Some i <->
     s <= i < length h /\ is_digit (nth i h 0%N) = true /\
     forall j, s <= j < i -> is_digit (nth j h 0%N) = false) /\
  (digit_pf_find memchr_digit h s = None <->
     forall i, s <= i < length h -> is_digit (nth i h 0%N) = false).
Proof. exact Teddy.digit_prefilter_is_min. Qed.
Print Assumptions C16_digit_prefilter_is_min.

(* wrappers *)
Theorem C16_incomplete_wrap_transparent : forall p : pfilter,
  (forall (h : list N) (s : nat), pf_Find (wrap_incomplete p) h s = pf_Find p h s) /\
  pf_IsComplete (wrap_incomplete p) = false /\ pf_LiteralLen (wrap_incomplete p) = 0.
Proof. exact Teddy.incomplete_wrap_transparent. Qed.
Print Assumptions C16_incomplete_wrap_transparent.

Theorem C16_line_anchor_wrap_correct :
  forall (inner : list N -> nat -> option nat) (L : list (list N)),
  (forall (h : list N) (s : nat), inner h s = pf_find L h s) ->
  forall (h : list N) (s : nat),
  line_anchor_find inner h s = scan_from (line_occ L h) s (S (length h) - s).
Proof. exact Teddy.line_anchor_wrap_correct. Qed.
Print Assumptions C16_line_anchor_wrap_correct.

Theorem C16_line_anchor_wrap_guarantees :
  forall (inner : list N -> nat -> option nat) (L : list (list N)),
  (forall (h : list N) (s : nat), inner h s = pf_find L h s) ->
  forall (h : list N) (s : nat),
  (forall p, line_anchor_find inner h s = Some p ->
     s <= p <= length h /\ occurs_at L h p = true /\
     (p = 0 \/ nth (p - 1) h 0%N = 10%N) /\
     forall j, s <= j < p -> occurs_at L h j = true -> line_start h j = false) /\
  (line_anchor_find inner h s = None ->
     forall j, s <= j <= length h -> occurs_at L h j = true -> line_start h j = false).
Proof. exact Teddy.line_anchor_wrap_guarantees. Qed.
Print Assumptions C16_line_anchor_wrap_guarantees.

(* effectiveness tracker, over arbitrary call histories *)
Theorem C16_tracker_transparent :
  forall (inner : list N -> nat -> option nat) (cfg : tconfig) (es : list tevent) (t : tstate),
  Forall (tracker_call_ok inner) (tracker_run inner cfg t es).
Proof. exact Teddy.tracker_transparent. Qed.
Print Assumptions C16_tracker_transparent.

Theorem C16_tracker_inactive_returns_none :
  forall (inner : list N -> nat -> option nat) (cfg : tconfig) (es : list tevent) (t : tstate),
  active t = false -> (forall e, In e es -> e <> EvReset) ->
  Forall (fun x : tstate * tevent * option (option nat) =>
            match x with
            | (_, EvFind _ _, res) => res = Some None
            | _ => True
            end) (tracker_run inner cfg t es).
Proof. exact Teddy.tracker_inactive_returns_none. Qed.
Print Assumptions C16_tracker_inactive_returns_none.

Theorem C16_tracker_find_warmup :
  forall (inner : list N -> nat -> option nat) (cfg : tconfig) (t : tstate) (h : list N) (s : nat),
  active t = true -> (w64 (candidates t + 1) <? warmupPeriod cfg)%N = true ->
  active (fst (tracker_find inner cfg t h s)) = true /\
  snd (tracker_find inner cfg t h s) = inner h s.
Proof. exact Teddy.tracker_find_warmup. Qed.
Print Assumptions C16_tracker_find_warmup.
