(* Property C08: Replace*, Expand* and Split produce what Go's regexp produces.
   Statements only; the proofs are in Replace.v.

   Reading guide.  [expand_scan_std], [std_replace_all], [std_split] are Gallina copies
   of regexp.go (Go 1.25.4); [expand_spec] is the declarative reading of the template
   language.  [expand_cx], [cx_replace_loop(_m)], [cx_ReplaceAll*], [cx_split] model the
   CURRENT /repo/regex.go (after the fixes 6e1b8e6 expand, 0455b8d Split, 407f360
   emptyMatchStep) and equal the regexp side for all inputs.  The [..._original]
   definitions model the code before those fixes; their [_refuted] theorems are the
   record of what was wrong.  [uni] is unicode.IsLetter||IsDigit above U+007F (any
   table).  find_at_ok / find_at_stable / find_at_aligned are the assumptions on the
   match engine (leftmost search from a position; re-searching up to the start of the
   match found gives the same span; no match ends inside the rune at the search
   position). *)
From Coq Require Import List NArith ZArith Bool.
From CV Require Import Replace.
Import ListNotations.
Open Scope N_scope.

(* ---- UTF-8 width, as used by "advance one rune" ---- *)

Theorem C08_decode_width_bounds : forall p,
  (decode_width p <= length p)%nat /\ (p <> [] -> 1 <= decode_width p)%nat.
Proof. exact Replace.decode_width_bounds. Qed.
Print Assumptions C08_decode_width_bounds.

Theorem C08_name_len_fuel : forall uni f1 f2 l, (length l <= f1)%nat -> (length l <= f2)%nat ->
  name_len uni f1 l = name_len uni f2 l.
Proof. exact Replace.name_len_fuel. Qed.
Print Assumptions C08_name_len_fuel.

(* ---- Expand ---- *)

Theorem C08_expand_scan_std_eq_spec : forall uni src m names, wf_match src m ->
  forall dst tmpl, expand_scan_std uni src m names dst tmpl = expand_spec uni src m names dst tmpl.
Proof. exact Replace.expand_scan_std_eq_spec. Qed.
Print Assumptions C08_expand_scan_std_eq_spec.

Theorem C08_expand_no_dollar : forall uni src m names dst tmpl, has_dollar tmpl = false ->
  expand_scan_std uni src m names dst tmpl = dst ++ tmpl.
Proof. exact Replace.expand_no_dollar. Qed.
Print Assumptions C08_expand_no_dollar.

Theorem C08_expand_original_refuted : exists uni tmpl src m names,
  wf_match src m /\ expand_original src m [] tmpl <> expand_scan_std uni src m names [] tmpl.
Proof. exact Replace.expand_original_refuted. Qed.
Print Assumptions C08_expand_original_refuted.

Theorem C08_expand_original_refuted_brace : exists tmpl,
  wf_match w_src w_m /\ expand_original w_src w_m [] tmpl <> expand_scan_std no_uni w_src w_m w_names [] tmpl.
Proof. exact Replace.expand_original_refuted_brace. Qed.
Print Assumptions C08_expand_original_refuted_brace.

Theorem C08_expand_original_refuted_name : exists tmpl,
  wf_match w_src w_m /\ expand_original w_src w_m [] tmpl <> expand_scan_std no_uni w_src w_m w_names [] tmpl.
Proof. exact Replace.expand_original_refuted_name. Qed.
Print Assumptions C08_expand_original_refuted_name.

Theorem C08_expand_original_refuted_multidigit : exists tmpl,
  wf_match w_src w_m /\ expand_original w_src w_m [] tmpl <> expand_scan_std no_uni w_src w_m w_names [] tmpl.
Proof. exact Replace.expand_original_refuted_multidigit. Qed.
Print Assumptions C08_expand_original_refuted_multidigit.

Theorem C08_expand_original_refuted_longest_name : exists tmpl,
  wf_match w_src w_m /\ expand_original w_src w_m [] tmpl <> expand_scan_std no_uni w_src w_m w_names [] tmpl.
Proof. exact Replace.expand_original_refuted_longest_name. Qed.
Print Assumptions C08_expand_original_refuted_longest_name.

Theorem C08_expand_original_refuted_leading_zero : exists tmpl,
  wf_match w_src w_m /\ expand_original w_src w_m [] tmpl <> expand_scan_std no_uni w_src w_m w_names [] tmpl.
Proof. exact Replace.expand_original_refuted_leading_zero. Qed.
Print Assumptions C08_expand_original_refuted_leading_zero.

Theorem C08_expand_original_refuted_unicode_name : exists tmpl,
  wf_match w_src w_m /\
  expand_original w_src w_m [] tmpl <> expand_scan_std (fun r => r =? 233) w_src w_m w_names [] tmpl.
Proof. exact Replace.expand_original_refuted_unicode_name. Qed.
Print Assumptions C08_expand_original_refuted_unicode_name.

Theorem C08_expand_cx_eq_std : forall uni src m names dst tmpl,
  expand_cx uni src m names dst tmpl = expand_scan_std uni src m names dst tmpl.
Proof. exact Replace.expand_cx_eq_std. Qed.
Print Assumptions C08_expand_cx_eq_std.

Theorem C08_expand_cx_eq_spec : forall uni src m names, wf_match src m ->
  forall dst tmpl, expand_cx uni src m names dst tmpl = expand_spec uni src m names dst tmpl.
Proof. exact Replace.expand_cx_eq_spec. Qed.
Print Assumptions C08_expand_cx_eq_spec.

(* ---- the replace loops ---- *)

(* emptyMatchStep: one rune, one byte at the end of the text *)
Theorem C08_step_cx_eq : forall h p, step_cx h p = step_rune h p.
Proof. exact Replace.step_cx_eq. Qed.
Print Assumptions C08_step_cx_eq.


Theorem C08_replace_eq_std : forall h sub repl,
  find_at_ok h sub -> find_at_stable sub -> find_at_aligned h sub ->
  cx_replace_loop h sub repl = std_replace_all h sub repl.
Proof. exact Replace.replace_eq_std. Qed.
Print Assumptions C08_replace_eq_std.

Theorem C08_replace_m_eq_std : forall h sub repl,
  find_at_ok h sub -> find_at_stable sub -> find_at_aligned h sub ->
  cx_replace_loop_m h sub repl = std_replace_all h sub repl.
Proof. exact Replace.replace_m_eq_std. Qed.
Print Assumptions C08_replace_m_eq_std.

Theorem C08_ReplaceAll_eq_std : forall uni names h sub,
  find_at_ok h sub -> find_at_stable sub -> find_at_aligned h sub ->
  forall tmpl, cx_ReplaceAll uni names h sub tmpl = std_ReplaceAll uni names h sub tmpl.
Proof. exact Replace.ReplaceAll_eq_std. Qed.
Print Assumptions C08_ReplaceAll_eq_std.

Theorem C08_ReplaceAllLiteral_eq_std : forall h sub,
  find_at_ok h sub -> find_at_stable sub -> find_at_aligned h sub ->
  forall r, cx_ReplaceAllLiteral h sub r = std_ReplaceAllLiteral h sub r.
Proof. exact Replace.ReplaceAllLiteral_eq_std. Qed.
Print Assumptions C08_ReplaceAllLiteral_eq_std.

Theorem C08_ReplaceAllFunc_eq_std : forall h sub,
  find_at_ok h sub -> find_at_stable sub -> find_at_aligned h sub ->
  forall f, cx_ReplaceAllFunc h sub f = std_ReplaceAllFunc h sub f.
Proof. exact Replace.ReplaceAllFunc_eq_std. Qed.
Print Assumptions C08_ReplaceAllFunc_eq_std.

Theorem C08_replace_no_match_copy : forall h sub repl, (forall p, sub p = None) ->
  std_replace_all h sub repl = h /\ replace_loop_original h sub repl = h /\ replace_loop_m_original h sub repl = h
  /\ cx_replace_loop h sub repl = h /\ cx_replace_loop_m h sub repl = h.
Proof. exact Replace.replace_no_match_copy. Qed.
Print Assumptions C08_replace_no_match_copy.

Theorem C08_replace_literal_no_dollar : forall uni names h sub r,
  cx_ReplaceAllLiteral h sub r = cx_replace_loop h sub (fun _ => r)
  /\ (has_dollar r = false -> cx_ReplaceAll uni names h sub r = cx_ReplaceAllLiteral h sub r)
  /\ (has_dollar r = false -> std_ReplaceAll uni names h sub r = std_ReplaceAllLiteral h sub r).
Proof. exact Replace.replace_literal_no_dollar. Qed.
Print Assumptions C08_replace_literal_no_dollar.

Theorem C08_ReplaceAll_original_refuted : exists h sub tmpl,
  find_at_ok h sub /\ ReplaceAll_original h sub tmpl <> std_ReplaceAll no_uni [[]] h sub tmpl.
Proof. exact Replace.ReplaceAll_original_refuted. Qed.
Print Assumptions C08_ReplaceAll_original_refuted.

Theorem C08_ReplaceAll_original_template_refuted : exists h sub tmpl,
  find_at_ok h sub /\ has_dollar tmpl = true
  /\ ReplaceAll_original h sub tmpl <> std_ReplaceAll no_uni [[]] h sub tmpl.
Proof. exact Replace.ReplaceAll_original_template_refuted. Qed.
Print Assumptions C08_ReplaceAll_original_template_refuted.

Theorem C08_ReplaceAllLiteral_original_refuted : exists h sub r,
  find_at_ok h sub /\ ReplaceAllLiteral_original h sub r <> std_ReplaceAllLiteral h sub r.
Proof. exact Replace.ReplaceAllLiteral_original_refuted. Qed.
Print Assumptions C08_ReplaceAllLiteral_original_refuted.

Theorem C08_ReplaceAllFunc_original_refuted : exists h sub f,
  find_at_ok h sub /\ ReplaceAllFunc_original h sub f <> std_ReplaceAllFunc h sub f.
Proof. exact Replace.ReplaceAllFunc_original_refuted. Qed.
Print Assumptions C08_ReplaceAllFunc_original_refuted.

(* ---- Split ---- *)

Theorem C08_split_original_n1_refuted : exists s ms n,
  sorted_disjoint ms /\ split_original s ms n <> std_split s true ms n.
Proof. exact Replace.split_original_n1_refuted. Qed.
Print Assumptions C08_split_original_n1_refuted.

Theorem C08_split_original_empty_refuted : exists s ms n,
  sorted_disjoint ms /\ split_original s ms n <> std_split s false ms n.
Proof. exact Replace.split_original_empty_refuted. Qed.
Print Assumptions C08_split_original_empty_refuted.

Theorem C08_split_eq_std : forall s e ms, sorted_disjoint ms ->
  forall n, cx_split s e ms n = std_split s e ms n.
Proof. exact Replace.split_eq_std. Qed.
Print Assumptions C08_split_eq_std.

Theorem C08_split_limit_irrelevant : forall s ms n, sorted_disjoint ms ->
  std_split_loop s n (find_all_n ms n) [] 0 0 = std_split_loop s n ms [] 0 0.
Proof. exact Replace.split_limit_irrelevant. Qed.
Print Assumptions C08_split_limit_irrelevant.
