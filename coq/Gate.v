(* Gate.v — configuration records, prefilter candidate loops and the strategy dispatcher of
   the meta engine (properties C12; uses the statements of C16, C17, C14 as hypotheses).

   Configuration leaf
     config / default_config / validate      meta/config.go: Config, DefaultConfig, Validate
     lazy_config / effective_capacity_bytes / lazy_validate   dfa/lazy/config.go
     validate_spec, default_valid, lazy_validate_spec, lazy_default_valid,
     dfa_config_of (meta/compile.go), meta_max_dfa_states_ignored
   Candidate loops, parametric in the haystack length, the reference (mstart, mend), a
   verifier and a prefilter
     gate_loop / is_match_nfa               meta/ismatch.go: isMatchNFA
     is_match_adaptive                      meta/ismatch.go: isMatchAdaptive (IsComplete shortcut)
     span_loop / find_indices_nfa_at        meta/find_indices.go: findIndicesNFA, findIndicesNFAAt
     find_indices_dfa_complete              meta/find_indices.go: findIndicesDFA, literal fast path
     gate_sound, gate_bool_sound, complete_shortcut_sound, complete_span_sound,
     prefilter_on_off_agree, gate_unsound_without_H2_refuted
   Dispatcher
     select_strategy (meta/strategy.go: SelectStrategy), run / meta_find
     (meta/find_indices.go: FindIndicesAt), limits_only_select_branch, config_irrelevant_model
   Instance: the reference (mstart, mend) read off Nfa.find_at (gate_sound_nfa).            *)
From Coq Require Import List NArith ZArith Lia Bool Arith PeanoNat.
From Coq Require Import ZifyBool ZifyNat ZifyN.
From CV Require Import Nfa NfaRef.
Import ListNotations.

(* ================================================================== configuration leaf *)
(* meta/config.go: type Config.  MaxDFAStates is uint32; the other limits are Go ints (any
   integer can be stored, Validate decides) *)
Record config := mkConfig {
  enable_dfa : bool;
  enable_prefilter : bool;
  max_dfa_states : N;
  determinization_limit : Z;
  min_literal_len : Z;
  max_literals : Z;
  max_recursion_depth : Z;
  enable_ascii_opt : bool }.

(* meta/config.go: DefaultConfig *)
Definition default_config : config := mkConfig true true 10000 1000 1 256 100 true.

(* meta/config.go: Validate — the field named by the first failing test, in the order of
   the Go code *)
Inductive cfg_field := FMaxDFAStates | FDeterminizationLimit | FMinLiteralLen | FMaxLiterals | FMaxRecursionDepth.

Definition bad_dfa_states (c : config) : bool :=
  enable_dfa c && ((max_dfa_states c <? 1)%N || (1000000 <? max_dfa_states c)%N).
Definition bad_det_limit (c : config) : bool :=
  enable_dfa c && ((determinization_limit c <? 10)%Z || (100000 <? determinization_limit c)%Z).
Definition bad_min_lit_len (c : config) : bool :=
  enable_prefilter c && ((min_literal_len c <? 1)%Z || (64 <? min_literal_len c)%Z).
Definition bad_max_literals (c : config) : bool :=
  enable_prefilter c && ((max_literals c <? 1)%Z || (1000 <? max_literals c)%Z).
Definition bad_rec_depth (c : config) : bool :=
  (max_recursion_depth c <? 10)%Z || (1000 <? max_recursion_depth c)%Z.

Definition validate_err (c : config) : option cfg_field :=
  if bad_dfa_states c then Some FMaxDFAStates
  else if bad_det_limit c then Some FDeterminizationLimit
  else if bad_min_lit_len c then Some FMinLiteralLen
  else if bad_max_literals c then Some FMaxLiterals
  else if bad_rec_depth c then Some FMaxRecursionDepth
  else None.

Definition validate (c : config) : bool :=
  match validate_err c with None => true | Some _ => false end.

(* the documented ranges *)
Definition config_in_range (c : config) : Prop :=
  (enable_dfa c = true ->
     (1 <= max_dfa_states c <= 1000000)%N /\ (10 <= determinization_limit c <= 100000)%Z) /\
  (enable_prefilter c = true ->
     (1 <= min_literal_len c <= 64)%Z /\ (1 <= max_literals c <= 1000)%Z) /\
  (10 <= max_recursion_depth c <= 1000)%Z.

Lemma validate_bool c :
  validate c = negb (bad_dfa_states c) && negb (bad_det_limit c) && negb (bad_min_lit_len c) &&
               negb (bad_max_literals c) && negb (bad_rec_depth c).
Proof.
  unfold validate, validate_err.
  destruct (bad_dfa_states c), (bad_det_limit c), (bad_min_lit_len c), (bad_max_literals c), (bad_rec_depth c);
    reflexivity.
Qed.

Theorem validate_spec c : validate c = true <-> config_in_range c.
Proof.
  rewrite validate_bool.
  unfold bad_dfa_states, bad_det_limit, bad_min_lit_len, bad_max_literals, bad_rec_depth, config_in_range.
  destruct c as [dfa pf mds dl mll ml mrd ascii]. cbn [enable_dfa enable_prefilter max_dfa_states
    determinization_limit min_literal_len max_literals max_recursion_depth].
  destruct dfa, pf; cbn [andb negb]; lia.
Qed.

Theorem default_valid : validate default_config = true.
Proof. vm_compute. reflexivity. Qed.

(* the error names the first violated range *)
Theorem validate_err_first c f :
  validate_err c = Some f ->
  match f with
  | FMaxDFAStates => enable_dfa c = true /\ ~ (1 <= max_dfa_states c <= 1000000)%N
  | FDeterminizationLimit => enable_dfa c = true /\ ~ (10 <= determinization_limit c <= 100000)%Z
  | FMinLiteralLen => enable_prefilter c = true /\ ~ (1 <= min_literal_len c <= 64)%Z
  | FMaxLiterals => enable_prefilter c = true /\ ~ (1 <= max_literals c <= 1000)%Z
  | FMaxRecursionDepth => ~ (10 <= max_recursion_depth c <= 1000)%Z
  end.
Proof.
  unfold validate_err.
  destruct (bad_dfa_states c) eqn:E1; [|destruct (bad_det_limit c) eqn:E2; [|destruct (bad_min_lit_len c) eqn:E3;
    [|destruct (bad_max_literals c) eqn:E4; [|destruct (bad_rec_depth c) eqn:E5]]]];
    intros Hf; inversion Hf; subst f;
    unfold bad_dfa_states, bad_det_limit, bad_min_lit_len, bad_max_literals, bad_rec_depth in *;
    [apply andb_prop in E1 as [Hen E1]|apply andb_prop in E2 as [Hen E2]|apply andb_prop in E3 as [Hen E3]
    |apply andb_prop in E4 as [Hen E4]|]; try (split; [exact Hen|]); lia.
Qed.

(* ------------------------------------------------------------------ dfa/lazy/config.go *)
(* a float64 as far as Validate looks at it: NaN or a rational num/den *)
Inductive f64 := FNaN | FRat (num : Z) (den : positive).
Definition f_lt0 (x : f64) : bool := match x with FNaN => false | FRat n _ => (n <? 0)%Z end.
Definition f_gt1 (x : f64) : bool := match x with FNaN => false | FRat n d => (Z.pos d <? n)%Z end.

Record lazy_config := mkLazy {
  cache_capacity_bytes : Z;
  lz_max_states : N;
  max_cache_clears : Z;
  cache_hit_threshold : f64;
  use_prefilter : bool;
  min_prefilter_len : Z;
  lz_determinization_limit : Z;
  break_at_match : bool }.

Definition default_cache_capacity : Z := 2 * 1024 * 1024.

(* dfa/lazy/config.go: DefaultConfig *)
Definition lazy_default_config : lazy_config :=
  mkLazy default_cache_capacity 0 5 (FRat 0 1) true 3 1000 true.

(* dfa/lazy/config.go: effectiveCapacityBytes *)
Definition effective_capacity_bytes (c : lazy_config) : Z :=
  if (0 <? cache_capacity_bytes c)%Z then cache_capacity_bytes c
  else if (0 <? lz_max_states c)%N then (Z.of_N (lz_max_states c) * 100)%Z
  else default_cache_capacity.

(* dfa/lazy/config.go: Validate *)
Definition lazy_validate (c : lazy_config) : bool :=
  if (cache_capacity_bytes c =? 0)%Z && (lz_max_states c =? 0)%N then false
  else if (max_cache_clears c <? 0)%Z then false
  else if f_lt0 (cache_hit_threshold c) || f_gt1 (cache_hit_threshold c) then false
  else if (min_prefilter_len c <? 0)%Z then false
  else if (lz_determinization_limit c <=? 0)%Z then false
  else true.

Theorem lazy_validate_spec c :
  lazy_validate c = true <->
  ~ (cache_capacity_bytes c = 0%Z /\ lz_max_states c = 0%N) /\
  (0 <= max_cache_clears c)%Z /\
  f_lt0 (cache_hit_threshold c) = false /\ f_gt1 (cache_hit_threshold c) = false /\
  (0 <= min_prefilter_len c)%Z /\ (0 < lz_determinization_limit c)%Z.
Proof.
  unfold lazy_validate.
  destruct (Z.eqb_spec (cache_capacity_bytes c) 0) as [E1|E1], (N.eqb_spec (lz_max_states c) 0) as [E2|E2];
    cbn [andb];
    try (split; [discriminate|]; intros [Hx _]; exfalso; apply Hx; split; assumption);
    destruct (Z.ltb_spec (max_cache_clears c) 0) as [E3|E3];
    destruct (f_lt0 (cache_hit_threshold c)) eqn:E4; destruct (f_gt1 (cache_hit_threshold c)) eqn:E5; cbn [orb];
    destruct (Z.ltb_spec (min_prefilter_len c) 0) as [E6|E6];
    destruct (Z.leb_spec (lz_determinization_limit c) 0) as [E7|E7];
    (split;
     [intros Hx; try discriminate Hx; repeat split; try lia; try reflexivity; try (intros [? ?]; lia)
     |intros [Hx1 [Hx2 [Hx3 [Hx4 [Hx5 Hx6]]]]]; try reflexivity; try discriminate; lia]).
Qed.

Theorem lazy_default_valid : lazy_validate lazy_default_config = true.
Proof. vm_compute. reflexivity. Qed.

(* the capacity the cache is created with is positive for every configuration (also the
   invalid ones and negative CacheCapacityBytes) *)
Theorem effective_capacity_pos c : (0 < effective_capacity_bytes c)%Z.
Proof.
  unfold effective_capacity_bytes, default_cache_capacity.
  destruct (Z.ltb_spec 0 (cache_capacity_bytes c)); [lia|].
  destruct (N.ltb_spec 0 (lz_max_states c)); lia.
Qed.

(* meta/compile.go: buildStrategyEngines — dfaConfig := lazy.DefaultConfig();
   dfaConfig.MaxStates = config.MaxDFAStates; dfaConfig.DeterminizationLimit = ... *)
Definition dfa_config_of (c : config) : lazy_config :=
  mkLazy default_cache_capacity (max_dfa_states c) 5 (FRat 0 1) true 3 (determinization_limit c) true.

(* a valid meta configuration with the DFA enabled gives a valid lazy-DFA configuration *)
Theorem dfa_config_of_valid c :
  validate c = true -> enable_dfa c = true -> lazy_validate (dfa_config_of c) = true.
Proof.
  intros Hv Hd. apply validate_spec in Hv. destruct Hv as [H1 _]. destruct (H1 Hd) as [_ H2].
  apply lazy_validate_spec. unfold dfa_config_of, default_cache_capacity. cbn. repeat split; try lia.
Qed.

(* MaxDFAStates is copied into the legacy field MaxStates, which effectiveCapacityBytes
   ignores because DefaultConfig already set CacheCapacityBytes: the meta limit does not
   influence the cache capacity at all *)
Theorem meta_max_dfa_states_ignored c :
  effective_capacity_bytes (dfa_config_of c) = default_cache_capacity.
Proof. reflexivity. Qed.

(* with the DFA disabled Validate does not look at DeterminizationLimit, yet strategies that
   do not depend on EnableDFA (UseBoundedBacktracker for ^-anchored patterns) still compile
   lazy DFAs from it: the lazy configuration can be invalid (the Go code then drops the DFA
   and falls back, meta/compile.go) *)
Example dfa_config_invalid_when_dfa_disabled :
  exists c, validate c = true /\ lazy_validate (dfa_config_of c) = false.
Proof. exists (mkConfig false true 0 0 1 256 100 true). vm_compute. split; reflexivity. Qed.

(* ================================================================== candidate loops *)
Definition is_some {T} (o : option T) : bool := match o with Some _ => true | None => false end.

Definition res_map {T U} (f : T -> U) (r : res T) : res U :=
  match r with OutOfFuel => OutOfFuel | Done x => Done (f x) end.

Section Loops.
  Variable hlen : nat.                       (* len(haystack) *)
  (* the reference: mstart s = "some match starts at s", mend s = the end the reference
     semantics assigns to the match starting at s (leftmost-first or leftmost-longest) *)
  Variable mstart : nat -> bool.
  Variable mend : nat -> nat.

  (* reference search from a position: the leftmost start >= at_ (shape of Nfa.find_at) *)
  Fixpoint ref_from (k s : nat) : option (nat * nat) :=
    if mstart s then Some (s, mend s)
    else match k with 0 => None | S k' => ref_from k' (S s) end.

  Definition ref_find (at_ : nat) : option (nat * nat) :=
    if hlen <? at_ then None else ref_from (hlen - at_) at_.

  Definition ref_is_match : bool := is_some (ref_find 0).

  Lemma ref_from_some : forall k s r,
    ref_from k s = Some r ->
    exists s', r = (s', mend s') /\ s <= s' <= s + k /\ mstart s' = true /\
               forall s'', s <= s'' < s' -> mstart s'' = false.
  Proof.
    induction k as [|k IH]; intros s r H; cbn [ref_from] in H; destruct (mstart s) eqn:E.
    - inversion H; subst. exists s. repeat split; try lia; auto.
    - discriminate.
    - inversion H; subst. exists s. repeat split; try lia; auto.
    - destruct (IH _ _ H) as [s' [H1 [H2 [H3 H4]]]]. exists s'. repeat split; try lia; auto.
      intros s'' Hs''. destruct (Nat.eq_dec s'' s) as [->|Hne]; [exact E|apply H4; lia].
  Qed.

  Lemma ref_from_none : forall k s,
    ref_from k s = None <-> forall s', s <= s' <= s + k -> mstart s' = false.
  Proof.
    induction k as [|k IH]; intros s; cbn [ref_from]; destruct (mstart s) eqn:E.
    - split; [discriminate|]. intros H. rewrite (H s) in E by lia. discriminate.
    - split; [|reflexivity]. intros _ s' Hs'. assert (s' = s) by lia. now subst.
    - split; [discriminate|]. intros H. rewrite (H s) in E by lia. discriminate.
    - rewrite IH. split.
      + intros H s' Hs'. destruct (Nat.eq_dec s' s) as [->|Hne]; [exact E|apply H; lia].
      + intros H s' Hs'. apply H. lia.
  Qed.

  Lemma ref_find_some at_ r :
    ref_find at_ = Some r ->
    exists s, r = (s, mend s) /\ at_ <= s <= hlen /\ mstart s = true /\
              forall s', at_ <= s' < s -> mstart s' = false.
  Proof.
    unfold ref_find. destruct (Nat.ltb_spec hlen at_) as [Hlt|Hle]; [discriminate|]. intros Hr.
    destruct (ref_from_some _ _ _ Hr) as [s [H1 [H2 [H3 H4]]]]. exists s. repeat split; try lia; auto.
  Qed.

  Lemma ref_find_none at_ :
    ref_find at_ = None <-> forall s, at_ <= s <= hlen -> mstart s = false.
  Proof.
    unfold ref_find. destruct (Nat.ltb_spec hlen at_) as [Hlt|Hle].
    - split; [|reflexivity]. intros _ s Hs. lia.
    - rewrite ref_from_none. split; intros Hr s Hs; apply Hr; lia.
  Qed.

  (* skipping start positions that carry no match does not change the answer *)
  Lemma ref_find_skip at_ pos :
    at_ <= pos <= hlen -> (forall s, at_ <= s < pos -> mstart s = false) -> ref_find at_ = ref_find pos.
  Proof.
    intros Hp. remember (pos - at_) as d eqn:Hd. revert at_ Hp Hd.
    induction d as [|d IH]; intros at_ Hp Hd Hno.
    - assert (at_ = pos) by lia. now subst.
    - rewrite <- (IH (S at_)); [|lia|lia|intros; apply Hno; lia].
      unfold ref_find. destruct (Nat.ltb_spec hlen at_); [lia|]. destruct (Nat.ltb_spec hlen (S at_)); [lia|].
      replace (hlen - at_) with (S (hlen - S at_)) by lia. cbn [ref_from].
      rewrite (Hno at_) by lia. reflexivity.
  Qed.

  Lemma ref_find_none_mono at_ pos : at_ <= pos -> ref_find at_ = None -> ref_find pos = None.
  Proof. rewrite !ref_find_none. intros Hle H s Hs. apply H. lia. Qed.

  Theorem ref_is_match_spec : ref_is_match = true <-> exists s, s <= hlen /\ mstart s = true.
  Proof.
    unfold ref_is_match. destruct (ref_find 0) as [r|] eqn:E; cbn [is_some].
    - split; [|reflexivity]. intros _. destruct (ref_find_some _ _ E) as [s [_ [H1 [H2 _]]]]. exists s. split; [lia|exact H2].
    - split; [discriminate|]. intros [s [Hs Hm]]. rewrite (proj1 (ref_find_none 0) E s) in Hm by lia. discriminate.
  Qed.

  (* ---------------------------------------------------------------- the loops *)
  (* the engine run from a candidate position.  meta/ismatch.go and meta/find_indices.go
     call SearchAtWithState(haystack, pos, ...) / pikevm.SearchAt(haystack, pos): an
     UNANCHORED search over the start positions >= pos, not an anchored verification *)
  Variable verify : nat -> option (nat * nat).
  (* prefilter.Find(haystack, at): -1 = None *)
  Variable pf_find : nat -> option nat.

  (* meta/find_indices.go: findIndicesNFAAt, `for at < len(haystack) { ... at = pos + 1 }` *)
  Fixpoint span_loop (fuel at_ : nat) : res (option (nat * nat)) :=
    match fuel with
    | 0 => OutOfFuel
    | S f =>
        if at_ <? hlen then
          match pf_find at_ with
          | None => Done None
          | Some pos =>
              match verify pos with
              | Some m => Done (Some m)
              | None => span_loop f (pos + 1)
              end
          end
        else Done None
    end.

  (* meta/ismatch.go: isMatchNFA, the same loop returning `found` *)
  Fixpoint gate_loop (fuel at_ : nat) : res bool :=
    match fuel with
    | 0 => OutOfFuel
    | S f =>
        if at_ <? hlen then
          match pf_find at_ with
          | None => Done false
          | Some pos =>
              match verify pos with
              | Some _ => Done true
              | None => gate_loop f (pos + 1)
              end
          end
        else Done false
    end.

  Lemma gate_loop_span f : forall at_, gate_loop f at_ = res_map is_some (span_loop f at_).
  Proof.
    induction f as [|f IH]; intros at_; cbn [gate_loop span_loop res_map]; [reflexivity|].
    destruct (at_ <? hlen); [|reflexivity]. destruct (pf_find at_) as [pos|]; [|reflexivity].
    destruct (verify pos); [reflexivity|apply IH].
  Qed.

  (* meta/find_indices.go: findIndicesNFAAt.  use_pf = e.prefilter != nil &&
     !e.prefilterPartialCoverage; the fall-through is one engine run from at_ *)
  Definition find_indices_nfa_at (use_pf : bool) (at_ : nat) : res (option (nat * nat)) :=
    if use_pf then span_loop (hlen - at_ + 1) at_ else Done (verify at_).

  (* meta/find_indices.go: findIndicesNFA = the same code with at := 0 *)
  Definition find_indices_nfa (use_pf : bool) : res (option (nat * nat)) := find_indices_nfa_at use_pf 0.

  (* meta/ismatch.go: isMatchNFA.  has_pf = e.prefilter != nil (NO partial-coverage test
     here); engine_is_match = IsMatchWithState / pikevm.IsMatch on the whole haystack *)
  Definition is_match_nfa (has_pf : bool) (engine_is_match : bool) : res bool :=
    if has_pf then gate_loop (hlen + 1) 0 else Done engine_is_match.

  (* meta/ismatch.go: isMatchAdaptive *)
  Definition is_match_adaptive (has_pf pf_complete has_dfa dfa_matched cache_nearly_full : bool)
             (engine_is_match : bool) : res bool :=
    if has_pf then
      match pf_find 0 with
      | None => Done false
      | Some _ => if pf_complete then Done true else is_match_nfa true engine_is_match
      end
    else if has_dfa then
      if dfa_matched then Done true
      else if cache_nearly_full then is_match_nfa false engine_is_match else Done false
    else is_match_nfa false engine_is_match.

  (* meta/find_indices.go: findIndicesDFA, "Literal fast path — complete prefilter returns
     match directly" *)
  Definition find_indices_dfa_complete (lit_len : nat) (pike_search : option (nat * nat)) : option (nat * nat) :=
    match pf_find 0 with
    | None => None
    | Some pos => if 0 <? lit_len then Some (pos, pos + lit_len) else pike_search
    end.

  (* ---------------------------------------------------------------- hypotheses *)
  Variable cand : nat -> bool.     (* some literal of the prefilter occurs at position c *)

  (* literals are non-empty: an occurrence lies inside the haystack *)
  Definition pf_H0 : Prop := forall c, cand c = true -> c < hlen.
  (* C16: Find returns the minimal candidate position >= its argument *)
  Definition pf_H1 : Prop := forall at_, at_ <= hlen ->
    match pf_find at_ with
    | Some c => at_ <= c /\ cand c = true /\ forall c', at_ <= c' < c -> cand c' = false
    | None => forall c', at_ <= c' -> cand c' = false
    end.
  (* C17: the literals are necessary — every match starts at a candidate position *)
  Definition pf_H2 : Prop := forall s, s <= hlen -> mstart s = true -> cand s = true.
  (* C14: the engine run from c returns the reference answer for searches starting at c *)
  Definition engine_ok : Prop := forall c, c <= hlen -> verify c = ref_find c.
  (* completeness (IsComplete): every candidate is a match ... *)
  Definition pf_complete_ok : Prop := forall c, cand c = true -> mstart c = true.
  (* ... of the reported length *)
  Definition pf_complete_len (lit_len : nat) : Prop :=
    forall c, cand c = true -> mstart c = true /\ mend c = c + lit_len.

  Lemma ref_find_end at_ : pf_H0 -> pf_H2 -> hlen <= at_ -> ref_find at_ = None.
  Proof.
    intros H0 H2 Hle. apply ref_find_none. intros s Hs. destruct (mstart s) eqn:E; [|reflexivity].
    exfalso. pose proof (H0 s (H2 s ltac:(lia) E)). lia.
  Qed.

  (* C12: the candidate loop returns the reference leftmost span *)
  Theorem span_loop_sound :
    pf_H0 -> pf_H1 -> pf_H2 -> engine_ok ->
    forall fuel at_, hlen - at_ < fuel -> span_loop fuel at_ = Done (ref_find at_).
  Proof.
    intros H0 H1 H2 He. induction fuel as [|f IH]; intros at_ Hf; [lia|]. cbn [span_loop].
    destruct (Nat.ltb_spec at_ hlen) as [Hlt|Hge].
    2:{ now rewrite ref_find_end. }
    pose proof (H1 at_ ltac:(lia)) as Hp. destruct (pf_find at_) as [pos|].
    - destruct Hp as [Hle [Hc Hmin]]. pose proof (H0 pos Hc) as Hpos.
      assert (Hskip : ref_find at_ = ref_find pos).
      { apply ref_find_skip; [lia|]. intros s Hs. destruct (mstart s) eqn:E; [|reflexivity].
        pose proof (H2 s ltac:(lia) E) as Hc2. rewrite (Hmin s Hs) in Hc2. discriminate. }
      rewrite He by lia. rewrite Hskip. destruct (ref_find pos) as [m|] eqn:E; [reflexivity|].
      rewrite IH by lia. now rewrite (ref_find_none_mono pos (pos + 1) ltac:(lia) E).
    - f_equal. symmetry. apply ref_find_none. intros s Hs. destruct (mstart s) eqn:E; [|reflexivity].
      pose proof (H2 s ltac:(lia) E) as Hc2. rewrite (Hp s ltac:(lia)) in Hc2. discriminate.
  Qed.

  Theorem gate_sound use_pf at_ :
    (use_pf = true -> pf_H0 /\ pf_H1 /\ pf_H2) -> engine_ok -> at_ <= hlen ->
    find_indices_nfa_at use_pf at_ = Done (ref_find at_).
  Proof.
    intros Hpf He Hat. unfold find_indices_nfa_at. destruct use_pf.
    - destruct (Hpf eq_refl) as [H0 [H1 H2]]. apply span_loop_sound; auto. lia.
    - now rewrite He.
  Qed.

  (* C12 / C01: the boolean gate returns "some position carries a match" *)
  Theorem gate_bool_sound has_pf engine_is_match :
    (has_pf = true -> pf_H0 /\ pf_H1 /\ pf_H2) -> engine_ok -> engine_is_match = ref_is_match ->
    is_match_nfa has_pf engine_is_match = Done ref_is_match /\
    (is_match_nfa has_pf engine_is_match = Done true <-> exists s, s <= hlen /\ mstart s = true).
  Proof.
    intros Hpf He Hm.
    assert (E : is_match_nfa has_pf engine_is_match = Done ref_is_match).
    { unfold is_match_nfa. destruct has_pf; [|now rewrite Hm].
      destruct (Hpf eq_refl) as [H0 [H1 H2]].
      rewrite gate_loop_span, span_loop_sound by (auto; lia). reflexivity. }
    split; [exact E|]. rewrite E, <- ref_is_match_spec. split; [now inversion 1|now intros ->].
  Qed.

  (* "EnablePrefilter never changes answers": the loop with the prefilter and the plain
     engine run agree *)
  Theorem prefilter_on_off_agree at_ engine_is_match :
    pf_H0 -> pf_H1 -> pf_H2 -> engine_ok -> engine_is_match = ref_is_match -> at_ <= hlen ->
    find_indices_nfa_at true at_ = find_indices_nfa_at false at_ /\
    is_match_nfa true engine_is_match = is_match_nfa false engine_is_match.
  Proof.
    intros H0 H1 H2 He Hm Hat. split.
    - rewrite !gate_sound; auto; discriminate.
    - destruct (gate_bool_sound true engine_is_match (fun _ => conj H0 (conj H1 H2)) He Hm) as [-> _].
      destruct (gate_bool_sound false engine_is_match ltac:(discriminate) He Hm) as [-> _]. reflexivity.
  Qed.

  (* the IsComplete shortcut of isMatchAdaptive; the DFA hypothesis is: a positive answer is
     right, a negative answer is right unless the cache was nearly full (C14) *)
  Theorem complete_shortcut_sound has_pf pf_complete has_dfa dfa_matched cache_nearly_full engine_is_match :
    (has_pf = true -> pf_H0 /\ pf_H1 /\ pf_H2) ->
    (has_pf = true -> pf_complete = true -> pf_complete_ok) ->
    engine_ok -> engine_is_match = ref_is_match ->
    (has_dfa = true -> (dfa_matched = true -> ref_is_match = true) /\
                       (dfa_matched = false -> cache_nearly_full = false -> ref_is_match = false)) ->
    is_match_adaptive has_pf pf_complete has_dfa dfa_matched cache_nearly_full engine_is_match
    = Done ref_is_match.
  Proof.
    intros Hpf Hco He Hm Hdfa. unfold is_match_adaptive.
    destruct has_pf.
    - destruct (Hpf eq_refl) as [H0 [H1 H2]]. pose proof (H1 0 ltac:(lia)) as Hp.
      destruct (pf_find 0) as [pos|].
      + destruct pf_complete.
        * destruct Hp as [_ [Hc _]]. f_equal. symmetry. apply ref_is_match_spec.
          exists pos. split; [pose proof (H0 pos Hc); lia|]. now apply (Hco eq_refl eq_refl).
        * apply (gate_bool_sound true engine_is_match Hpf He Hm).
      + f_equal. symmetry. unfold ref_is_match.
        assert (E : ref_find 0 = None); [|now rewrite E].
        apply ref_find_none. intros s Hs. destruct (mstart s) eqn:E; [|reflexivity].
        pose proof (H2 s ltac:(lia) E) as Hc2. rewrite (Hp s ltac:(lia)) in Hc2. discriminate.
    - destruct has_dfa.
      + destruct (Hdfa eq_refl) as [Hd1 Hd2]. destruct dfa_matched.
        * now rewrite Hd1.
        * destruct cache_nearly_full.
          -- apply (gate_bool_sound false engine_is_match ltac:(discriminate) He Hm).
          -- now rewrite Hd2.
      + apply (gate_bool_sound false engine_is_match ltac:(discriminate) He Hm).
  Qed.

  (* the literal fast path of findIndicesDFA *)
  Theorem complete_span_sound lit_len pike_search :
    pf_H0 -> pf_H1 -> pf_H2 -> (0 < lit_len -> pf_complete_len lit_len) ->
    (lit_len = 0 -> pike_search = ref_find 0) ->
    find_indices_dfa_complete lit_len pike_search = ref_find 0.
  Proof using hlen mstart mend pf_find cand.
    clear verify. intros H0 H1 H2 Hco Hpk. unfold find_indices_dfa_complete.
    pose proof (H1 0 ltac:(lia)) as Hp. destruct (pf_find 0) as [pos|].
    - destruct (Nat.ltb_spec 0 lit_len) as [Hl|Hl]; [|apply Hpk; lia].
      destruct Hp as [_ [Hc Hmin]]. destruct (Hco Hl pos Hc) as [Hms Hme]. pose proof (H0 pos Hc) as Hpos.
      rewrite (ref_find_skip 0 pos ltac:(lia)).
      + unfold ref_find. destruct (Nat.ltb_spec hlen pos); [lia|].
        destruct (hlen - pos); cbn [ref_from]; rewrite Hms, Hme; reflexivity.
      + intros s Hs. destruct (mstart s) eqn:E; [|reflexivity].
        pose proof (H2 s ltac:(lia) E) as Hc2. rewrite (Hmin s Hs) in Hc2. discriminate.
    - symmetry. apply ref_find_none. intros s Hs. destruct (mstart s) eqn:E; [|reflexivity].
      pose proof (H2 s ltac:(lia) E) as Hc2. rewrite (Hp s ltac:(lia)) in Hc2. discriminate.
  Qed.
End Loops.

(* ------------------------------------------------------------------ a prefilter satisfying H1:
   the scalar scan for the minimal candidate (what C16 states of every prefilter) *)
Fixpoint scan_from (cand : nat -> bool) (k c : nat) : option nat :=
  if cand c then Some c else match k with 0 => None | S k' => scan_from cand k' (S c) end.

Definition scan_find (hlen : nat) (cand : nat -> bool) (at_ : nat) : option nat :=
  if hlen <=? at_ then None else scan_from cand (hlen - 1 - at_) at_.

Lemma scan_from_spec cand : forall k c,
  match scan_from cand k c with
  | Some x => c <= x <= c + k /\ cand x = true /\ forall c', c <= c' < x -> cand c' = false
  | None => forall c', c <= c' <= c + k -> cand c' = false
  end.
Proof.
  induction k as [|k IH]; intros c; cbn [scan_from]; destruct (cand c) eqn:E.
  - repeat split; try lia; auto.
  - intros c' Hc'. assert (c' = c) by lia. now subst.
  - repeat split; try lia; auto.
  - specialize (IH (S c)). destruct (scan_from cand k (S c)) as [x|].
    + destruct IH as [H1 [H2 H3]]. repeat split; try lia; auto.
      intros c' Hc'. destruct (Nat.eq_dec c' c) as [->|Hne]; [exact E|apply H3; lia].
    + intros c' Hc'. destruct (Nat.eq_dec c' c) as [->|Hne]; [exact E|apply IH; lia].
Qed.

Theorem scan_find_H1 hlen cand : pf_H0 hlen cand -> pf_H1 hlen (scan_find hlen cand) cand.
Proof.
  intros H0 at_ Hat. unfold scan_find. destruct (Nat.leb_spec hlen at_) as [Hle|Hlt].
  - intros c' Hc'. destruct (cand c') eqn:E; [|reflexivity]. pose proof (H0 c' E). lia.
  - pose proof (scan_from_spec cand (hlen - 1 - at_) at_) as Hs.
    destruct (scan_from cand (hlen - 1 - at_) at_) as [x|].
    + destruct Hs as [H1 [H2 H3]]. repeat split; try lia; auto.
    + intros c' Hc'. destruct (cand c') eqn:E; [|reflexivity]. pose proof (H0 c' E) as Hlt'.
      rewrite Hs in E by lia. discriminate.
Qed.

(* ------------------------------------------------------------------ non-vacuity: `ab` on
   "xaabab": matches start at 2 and 4 and are 2 long; the prefilter literal is the prefix "a",
   whose occurrences 1, 2, 4 are the candidates (1 is a false candidate) *)
Definition ex_hlen := 6.
Definition ex_mstart (s : nat) : bool := (s =? 2) || (s =? 4).
Definition ex_mend (s : nat) : nat := s + 2.
Definition ex_cand (c : nat) : bool := (c =? 1) || (c =? 2) || (c =? 4).
Definition ex_pf := scan_find ex_hlen ex_cand.
Definition ex_verify := ref_find ex_hlen ex_mstart ex_mend.

Example ex_H0 : pf_H0 ex_hlen ex_cand.
Proof. intros c. unfold ex_cand, ex_hlen. lia. Qed.
Example ex_H1 : pf_H1 ex_hlen ex_pf ex_cand.
Proof. apply scan_find_H1, ex_H0. Qed.
Example ex_H2 : pf_H2 ex_hlen ex_mstart ex_cand.
Proof. intros s _. unfold ex_mstart, ex_cand. lia. Qed.
Example ex_engine_ok : engine_ok ex_hlen ex_mstart ex_mend ex_verify.
Proof. intros c _. reflexivity. Qed.

Example ex_runs :
  find_indices_nfa_at ex_hlen ex_verify ex_pf true 0 = Done (Some (2, 4)) /\
  find_indices_nfa_at ex_hlen ex_verify ex_pf true 3 = Done (Some (4, 6)) /\
  find_indices_nfa_at ex_hlen ex_verify ex_pf true 5 = Done None /\
  find_indices_nfa_at ex_hlen ex_verify ex_pf false 0 = Done (Some (2, 4)) /\
  is_match_nfa ex_hlen ex_verify ex_pf true false = Done true /\
  map ex_pf (seq 0 7) = [Some 1; Some 1; Some 2; Some 4; Some 4; None; None].
Proof. vm_compute. repeat split. Qed.

(* the hypotheses are needed: a prefilter whose literal is not necessary (H2 fails: the match
   at 0 does not start at a candidate) makes both loops miss the match, although H0, H1 and
   the engine hypothesis hold *)
Theorem gate_unsound_without_H2_refuted :
  exists hlen mstart mend cand pf,
    let verify := ref_find hlen mstart mend in
    pf_H0 hlen cand /\ pf_H1 hlen pf cand /\ engine_ok hlen mstart mend verify /\
    ~ pf_H2 hlen mstart cand /\
    ref_find hlen mstart mend 0 = Some (0, 1) /\
    find_indices_nfa_at hlen verify pf true 0 = Done None /\
    is_match_nfa hlen verify pf true true = Done false.
Proof.
  exists 3, (fun s => s =? 0), (fun s => s + 1), (fun c => c =? 2), (scan_find 3 (fun c => c =? 2)).
  cbn zeta.
  assert (H0 : pf_H0 3 (fun c => c =? 2)) by (intros c; lia).
  split; [exact H0|]. split; [apply scan_find_H1, H0|]. split; [intros c _; reflexivity|].
  split; [|vm_compute; repeat split].
  intros H2. specialize (H2 0 ltac:(lia) eq_refl). discriminate.
Qed.

(* note on the engine hypothesis: `engine_ok` is about the UNANCHORED search from the
   candidate, which is what the Go loops call.  After a failed run from pos no start >= pos
   carries a match, so the remaining iterations (at = pos + 1) can only fail as well: the
   loop is sound but re-scans; span_loop_sound covers exactly this behaviour. *)

(* ================================================================== the dispatcher *)
(* meta/strategy.go: type Strategy *)
Inductive strategy :=
| UseNFA | UseDFA | UseBoth | UseReverseAnchored | UseReverseSuffix | UseOnePass | UseReverseInner
| UseBoundedBacktracker | UseTeddy | UseReverseSuffixSet | UseCharClassSearcher | UseCompositeSearcher
| UseBranchDispatch | UseDigitPrefilter | UseAhoCorasick | UseAnchoredLiteral | UseMultilineReverseSuffix.

(* what SelectStrategy reads off the pattern / the NFA, independent of the configuration *)
Record pfeat := mkFeat {
  f_start_anchored : bool;      (* n.IsAlwaysAnchored() *)
  f_end_anchored : bool;        (* nfa.IsPatternEndAnchored(re) *)
  f_has_start_anchor : bool;    (* nfa.IsPatternStartAnchored(re) *)
  f_anchored_literal : bool;    (* DetectAnchoredLiteral(re) != nil *)
  f_branch_dispatch : bool;     (* nfa.IsBranchDispatchPattern(re) *)
  f_nfa_size : nat;             (* n.States() *)
  f_simple_cc_plus : bool;      (* nfa.IsSimpleCharClassPlus(re) *)
  f_composite_cc : bool;        (* nfa.IsCompositeCharClassPattern(re) *)
  f_simple_cc : bool;           (* isSimpleCharClass(re) *)
  f_digit_lead : bool;          (* the pattern part of shouldUseDigitPrefilter *)
  f_dfa_unsafe : bool;          (* hasCaseInsensitiveUnicode || hasWordBoundaryAnchorCombo ||
                                   canMatchEmpty || hasMultilineLineAnchor *)
  f_can_match_empty : bool }.   (* canMatchEmpty(re) *)

Section Meta.
  Variable hlen : nat.
  Variable mstart : nat -> bool.
  Variable mend : nat -> nat.
  Local Notation ref := (ref_find hlen mstart mend).

  Variable ft : pfeat.
  (* analyses of the literal sequences, which are extracted under the configuration's
     MaxLiterals / MinLiteralLen *)
  Variable reverse_strategy : config -> option strategy.   (* selectReverseStrategy, 0 = None *)
  Variable good_literals : config -> bool.                 (* analyzeLiterals: hasGoodLiterals *)
  Variable teddy_literals : config -> bool.                (* analyzeLiterals: hasTeddyLiterals *)
  Variable literal_strategy : config -> option strategy.   (* selectLiteralStrategy *)
  Variable all_complete : config -> bool.                  (* literals.AllComplete() *)

  (* meta/strategy.go: SelectStrategy, same order of tests *)
  Definition select_strategy (c : config) : strategy :=
    if enable_dfa c && f_end_anchored ft && negb (f_start_anchored ft) && negb (f_has_start_anchor ft)
    then UseReverseAnchored else
    if f_start_anchored ft then
      if f_end_anchored ft && f_anchored_literal ft then UseAnchoredLiteral
      else if f_branch_dispatch ft then UseBranchDispatch else UseBoundedBacktracker
    else
    match reverse_strategy c with Some s => s | None =>
    if negb (enable_dfa c) then UseNFA else
    let nolit := negb (good_literals c) && negb (teddy_literals c) in
    if nolit && f_simple_cc_plus ft then UseCharClassSearcher else
    if nolit && f_composite_cc ft then UseCompositeSearcher else
    if nolit && f_simple_cc ft then UseBoundedBacktracker else
    match literal_strategy c with Some s => s | None =>
    if enable_dfa c && enable_prefilter c && f_digit_lead ft then UseDigitPrefilter else
    if f_nfa_size ft <? 20 then (if f_dfa_unsafe ft then UseNFA else UseDFA) else
    if nolit && f_can_match_empty ft then UseNFA else
    if good_literals c || teddy_literals c then
      (if (200 <? f_nfa_size ft) && negb (all_complete c) then UseNFA else UseDFA)
    else if 100 <? f_nfa_size ft then UseNFA else UseBoth
    end end.

  (* meta/compile.go: a forward DFA that fails to compile (limits!) downgrades to UseNFA *)
  Variable dfa_compile_ok : config -> bool.
  Definition final_strategy (c : config) : strategy :=
    match select_strategy c with
    | UseDFA => if dfa_compile_ok c then UseDFA else UseNFA
    | UseBoth => if dfa_compile_ok c then UseBoth else UseNFA
    | UseDigitPrefilter => if dfa_compile_ok c then UseDigitPrefilter else UseNFA
    | s => s
    end.

  (* the engines; every one is compiled under the configuration (recursion depth, limits) *)
  Variable engine_pike : config -> nat -> option (nat * nat).      (* PikeVM from at *)
  Variable engine_bt : config -> nat -> option (nat * nat).        (* BoundedBacktracker from at *)
  Variable engine_ascii_bt : config -> nat -> option (nat * nat).  (* ASCII-NFA backtracker *)
  Variable engine_bidir : config -> nat -> option (nat * nat).     (* findIndicesBidirectionalDFALongest *)
  (* the lazy DFA: None = it gave up (cache full after MaxCacheClears, determinization
     limit) and the caller falls back to the NFA path *)
  Variable engine_dfa : config -> nat -> option (option (nat * nat)).
  Variable engine_special : strategy -> config -> nat -> option (nat * nat).
  Variable bt_built ascii_applicable bidir_built pf_built partial_cov : config -> bool.
  Variable nstates_of ascii_nstates_of : config -> nat.
  Variable max_visited : nat.
  Variable is_ascii : nat -> bool.          (* simd.IsASCII(haystack[at:]) *)
  (* the prefilter built under a configuration, run with or without vector extensions *)
  Variable pf_find : config -> bool -> nat -> option nat.
  Variable cand : config -> nat -> bool.

  (* nfa/backtrack.go: CanHandle *)
  Definition can_handle (n len : nat) : bool := n * (len + 1) <=? max_visited.

  Definition has_pf (c : config) : bool := enable_prefilter c && pf_built c.

  (* the engine run from a candidate / from at in findIndicesNFAAt *)
  Definition verify_of (c : config) (pos : nat) : option (nat * nat) :=
    if bt_built c && negb (f_can_match_empty ft) && can_handle (nstates_of c) (hlen - pos)
    then engine_bt c pos else engine_pike c pos.

  (* meta/find_indices.go: findIndicesNFAAt *)
  Definition nfa_find (c : config) (cpu : bool) (at_ : nat) : res (option (nat * nat)) :=
    find_indices_nfa_at hlen (verify_of c) (pf_find c cpu) (has_pf c && negb (partial_cov c)) at_.

  (* meta/find_indices.go: findIndicesBoundedBacktrackerAt *)
  Definition bt_find (c : config) (cpu : bool) (at_ : nat) : res (option (nat * nat)) :=
    if negb (bt_built c) then nfa_find c cpu at_ else
    if enable_ascii_opt c && ascii_applicable c && is_ascii at_ then
      if negb (can_handle (ascii_nstates_of c) (hlen - at_)) then
        (if bidir_built c then Done (engine_bidir c at_) else Done (engine_pike c at_))
      else Done (engine_ascii_bt c at_)
    else if negb (can_handle (nstates_of c) (hlen - at_)) then
      (if bidir_built c then Done (engine_bidir c at_) else nfa_find c cpu at_)
    else Done (engine_bt c at_).

  (* meta/find_indices.go: FindIndicesAt *)
  Definition run (s : strategy) (c : config) (cpu : bool) (at_ : nat) : res (option (nat * nat)) :=
    match s with
    | UseNFA | UseOnePass => nfa_find c cpu at_
    | UseDFA | UseBoth =>
        match engine_dfa c at_ with Some r => Done r | None => nfa_find c cpu at_ end
    | UseBoundedBacktracker => bt_find c cpu at_
    | s' => Done (engine_special s' c at_)
    end.

  Definition meta_find (c : config) (cpu : bool) (at_ : nat) : res (option (nat * nat)) :=
    run (final_strategy c) c cpu at_.

  (* C14 / C15 / C16 / C17 for the components, for every valid configuration *)
  Definition engines_ok : Prop :=
    forall c at_, validate c = true -> at_ <= hlen ->
      engine_pike c at_ = ref at_ /\ engine_bt c at_ = ref at_ /\ engine_bidir c at_ = ref at_ /\
      (is_ascii at_ = true -> engine_ascii_bt c at_ = ref at_) /\
      (forall r, engine_dfa c at_ = Some r -> r = ref at_) /\
      (forall s, engine_special s c at_ = ref at_).
  Definition prefilters_ok : Prop :=
    forall c cpu, validate c = true -> has_pf c && negb (partial_cov c) = true ->
      pf_H0 hlen (cand c) /\ pf_H1 hlen (pf_find c cpu) (cand c) /\ pf_H2 hlen mstart (cand c).

  Lemma nfa_find_ref c cpu at_ :
    engines_ok -> prefilters_ok -> validate c = true -> at_ <= hlen -> nfa_find c cpu at_ = Done (ref at_).
  Proof.
    intros He Hp Hv Hat. unfold nfa_find. apply gate_sound with (cand := cand c); [|
      |exact Hat].
    - intros Hu. now apply Hp.
    - intros pos Hpos. unfold verify_of. destruct (He c pos Hv Hpos) as [H1 [H2 _]].
      destruct (bt_built c && negb (f_can_match_empty ft) && can_handle (nstates_of c) (hlen - pos)); assumption.
  Qed.

  (* whichever branch the limits select — strategy, backtracker vs PikeVM (CanHandle), ASCII
     NFA, DFA vs fallback after it gave up, prefilter loop or not, vector or scalar prefilter
     — the answer is the reference answer *)
  Theorem limits_only_select_branch s c cpu at_ :
    engines_ok -> prefilters_ok -> validate c = true -> at_ <= hlen -> run s c cpu at_ = Done (ref at_).
  Proof.
    intros He Hp Hv Hat. pose proof (nfa_find_ref c cpu at_ He Hp Hv Hat) as Hn.
    destruct (He c at_ Hv Hat) as [H1 [H2 [H3 [H4 [H5 H6]]]]].
    assert (Hbt : bt_find c cpu at_ = Done (ref at_)).
    { unfold bt_find. destruct (bt_built c); cbn [negb]; [|exact Hn].
      destruct (enable_ascii_opt c && ascii_applicable c); cbn [andb].
      - destruct (is_ascii at_) eqn:Ea.
        + destruct (can_handle (ascii_nstates_of c) (hlen - at_)); cbn [negb].
          * now rewrite H4.
          * destruct (bidir_built c); [now rewrite H3|now rewrite H1].
        + destruct (can_handle (nstates_of c) (hlen - at_)); cbn [negb]; [now rewrite H2|].
          destruct (bidir_built c); [now rewrite H3|exact Hn].
      - destruct (can_handle (nstates_of c) (hlen - at_)); cbn [negb]; [now rewrite H2|].
        destruct (bidir_built c); [now rewrite H3|exact Hn]. }
    destruct s; cbn [run]; try exact Hn; try exact Hbt; try (now rewrite H6);
      (destruct (engine_dfa c at_) as [r|] eqn:E; [now rewrite (H5 r eq_refl)|exact Hn]).
  Qed.

  (* C12 at the level of the model: the result does not depend on the (valid)
     configuration, nor on the vector extensions, and is the reference result *)
  Theorem config_irrelevant_model c1 c2 cpu1 cpu2 at_ :
    engines_ok -> prefilters_ok -> validate c1 = true -> validate c2 = true -> at_ <= hlen ->
    meta_find c1 cpu1 at_ = meta_find c2 cpu2 at_ /\ meta_find c1 cpu1 at_ = Done (ref at_).
  Proof.
    intros He Hp Hv1 Hv2 Hat. unfold meta_find.
    rewrite !limits_only_select_branch by assumption. split; reflexivity.
  Qed.

  Corollary default_config_same c cpu at_ :
    engines_ok -> prefilters_ok -> validate c = true -> at_ <= hlen ->
    meta_find c cpu at_ = meta_find default_config true at_.
  Proof. intros He Hp Hv Hat. apply config_irrelevant_model; auto; apply default_valid. Qed.
End Meta.

(* the dispatcher does depend on the configuration (the theorem above is not about a
   constant function): the same features go to different strategies *)
Example select_strategy_depends_on_config :
  let ft := mkFeat false false false false false 50 false false false false false false in
  let none := fun _ : config => @None strategy in
  let no := fun _ : config => false in
  select_strategy ft none no no none no default_config = UseBoth /\
  select_strategy ft none no no none no (mkConfig false true 10000 1000 1 256 100 true) = UseNFA.
Proof. vm_compute. split; reflexivity. Qed.

(* non-vacuity of engines_ok / prefilters_ok: every engine is the reference of the small
   instance above, the DFA gives up under a small determinization limit, the forward DFA
   does not compile under a small state limit *)
Definition ex_r := ref_find ex_hlen ex_mstart ex_mend.
Definition ex_ft := mkFeat false false false false false 50 false false false false false false.
Definition ex_dfa (c : config) (at_ : nat) : option (option (nat * nat)) :=
  if (determinization_limit c <? 100)%Z then None else Some (ex_r at_).
Definition ex_meta (c : config) (cpu : bool) (at_ : nat) : res (option (nat * nat)) :=
  meta_find ex_hlen ex_ft (fun _ => None) (fun _ => false) (fun _ => false) (fun _ => None) (fun _ => false)
    (fun c => (5 <=? max_dfa_states c)%N)
    (fun _ => ex_r) (fun _ => ex_r) (fun _ => ex_r) (fun _ => ex_r) ex_dfa (fun _ _ => ex_r)
    (fun _ => true) (fun _ => false) (fun _ => false) (fun _ => true) (fun _ => false)
    (fun _ => 10) (fun _ => 5) 40 (fun _ => false) (fun _ _ => ex_pf) c cpu at_.

Example ex_engines_ok :
  engines_ok ex_hlen ex_mstart ex_mend (fun _ => ex_r) (fun _ => ex_r) (fun _ => ex_r) (fun _ => ex_r)
             ex_dfa (fun _ _ => ex_r) (fun _ => false).
Proof.
  intros c at_ _ _. repeat split; auto. intros r0. unfold ex_dfa.
  destruct (determinization_limit c <? 100)%Z; intros Hr; inversion Hr; reflexivity.
Qed.

Example ex_prefilters_ok :
  prefilters_ok ex_hlen ex_mstart (fun _ => true) (fun _ => false) (fun _ _ => ex_pf) (fun _ => ex_cand).
Proof. intros c cpu _ _. split; [apply ex_H0|]. split; [apply ex_H1|apply ex_H2]. Qed.

Example ex_meta_runs :
  let c_small := mkConfig true true 1 10 1 1 10 false in
  let c_nodfa := mkConfig false false 0 0 0 0 1000 true in
  validate c_small = true /\ validate c_nodfa = true /\
  final_strategy ex_ft (fun _ => None) (fun _ => false) (fun _ => false) (fun _ => None) (fun _ => false)
                 (fun c => (5 <=? max_dfa_states c)%N) default_config = UseBoth /\
  final_strategy ex_ft (fun _ => None) (fun _ => false) (fun _ => false) (fun _ => None) (fun _ => false)
                 (fun c => (5 <=? max_dfa_states c)%N) c_small = UseNFA /\
  ex_meta default_config true 0 = Done (Some (2, 4)) /\
  ex_meta c_small false 0 = Done (Some (2, 4)) /\
  ex_meta c_nodfa false 0 = Done (Some (2, 4)) /\
  ex_meta c_nodfa true 3 = Done (Some (4, 6)) /\
  ex_meta c_small true 5 = Done None.
Proof. vm_compute. repeat split. Qed.

(* ================================================================== the reference read off Nfa.find_at *)
Section NfaInstance.
  Variable A : nfa.
  Variable h : hay.
  Hypothesis Hwf : wf_nfa A = true.

  Definition nfa_mstart (s : nat) : bool :=
    match search_from A h s with Done (Some _) => true | _ => false end.
  Definition nfa_mend (s : nat) : nat :=
    match search_from A h s with Done (Some (e, _)) => e | _ => 0 end.

  Definition span_of' (r : res (option (nat * nat * slots))) : res (option (nat * nat)) :=
    match r with
    | OutOfFuel => OutOfFuel
    | Done None => Done None
    | Done (Some (s, e, _)) => Done (Some (s, e))
    end.

  Lemma search_from_total s : s <= length h -> search_from A h s <> OutOfFuel.
  Proof.
    intros Hs Hf. apply (find_at_total A h Hwf s). unfold find_at.
    destruct (Nat.ltb_spec (length h) s); [lia|].
    unfold search_from in Hf. destruct (length h - s); cbn [find_loop]; now rewrite Hf.
  Qed.

  Lemma find_loop_is_ref_from : forall k s, s + k <= length h ->
    span_of' (find_loop (fuel_for A h) A h k s) = Done (ref_from nfa_mstart nfa_mend k s).
  Proof.
    induction k as [|k IH]; intros s Hk; cbn [find_loop ref_from]; unfold nfa_mstart, nfa_mend;
      pose proof (search_from_total s ltac:(lia)) as Ht; unfold search_from in *;
      destruct (search_with (fuel_for A h) A h s) as [|[[e sl]|]]; try reflexivity; try (now exfalso).
    apply IH. lia.
  Qed.

  (* the abstract reference of the loops, instantiated, is Nfa.find_at *)
  Theorem ref_find_is_find_at at_ :
    span_of' (find_at A h at_) = Done (ref_find (length h) nfa_mstart nfa_mend at_).
  Proof.
    unfold find_at, ref_find. destruct (Nat.ltb_spec (length h) at_); [reflexivity|].
    apply find_loop_is_ref_from. lia.
  Qed.

  (* mstart is "an accepting path starts here", so H2 reads: every position from which the
     NFA has an accepting path is a candidate position *)
  Theorem nfa_mstart_spec s :
    s <= length h -> (nfa_mstart s = true <-> exists e, nfa_path A h (start_anch A) s e).
  Proof.
    intros Hs. unfold nfa_mstart. pose proof (search_from_total s Hs) as Ht. unfold search_from in *.
    destruct (search_with (fuel_for A h) A h s) as [|[[e sl]|]] eqn:E; [now exfalso| |].
    - split; [|reflexivity]. intros _. exists e. eapply search_with_sound; eauto.
    - split; [discriminate|]. intros [e He]. exfalso.
      eapply (search_with_complete A h Hwf); eauto.
  Qed.

  (* C12 for the NFA path: the candidate loop around an engine that answers like the plain
     NFA simulation returns what the plain NFA simulation returns *)
  Theorem gate_sound_nfa (verify : nat -> option (nat * nat)) (pf : nat -> option nat) (cand : nat -> bool)
          use_pf at_ :
    (use_pf = true ->
       pf_H0 (length h) cand /\ pf_H1 (length h) pf cand /\
       (forall s, s <= length h -> (exists e, nfa_path A h (start_anch A) s e) -> cand s = true)) ->
    (forall c, c <= length h -> Done (verify c) = span_of' (find_at A h c)) ->
    at_ <= length h ->
    find_indices_nfa_at (length h) verify pf use_pf at_ = span_of' (find_at A h at_).
  Proof.
    intros Hpf Hv Hat. rewrite ref_find_is_find_at.
    apply gate_sound with (cand := cand); [| |exact Hat].
    - intros Hu. destruct (Hpf Hu) as [H0 [H1 H2]]. split; [exact H0|]. split; [exact H1|].
      intros s Hs Hm. apply H2; [exact Hs|]. now apply nfa_mstart_spec.
    - intros c Hc. specialize (Hv c Hc). rewrite ref_find_is_find_at in Hv. now inversion Hv.
  Qed.
End NfaInstance.

(* ================================================================== case checker
   one observed Config.Validate() call: the fields and whether Go returned nil; and the
   strategy is not checked here (its inputs are not observable) *)
Record case := mkCase { c_id : N; c_cfg : config; c_valid : bool }.

Definition check_case (c : case) : bool := Bool.eqb (validate (c_cfg c)) (c_valid c).

Definition mismatches (cs : list case) : list N :=
  map c_id (filter (fun c => negb (check_case c)) cs).
