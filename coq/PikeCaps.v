(* PikeCaps.v — the PikeVM with capture vectors (nfa/pikevm.go: SearchWithCaptures,
   SearchWithCapturesAt, SearchWithCapturesInSpan; threads carry copy-on-write capture
   vectors): model with value semantics for the vectors, a separate model of the
   copy-on-write store, and the theorem that the captures reported are exactly those of the
   reference search Nfa.find_at (first accepting path in priority order).

   Results (every NFA with wf_nfa, every haystack, every offset):
     erase_run / pikecaps_erase  : erasing the vectors from a run of this model gives the run of
                                   Pike.v's model (same thread lists, same visited sets)
     pikecaps_loop_is_ref        : the loop of searchUnanchoredWithCapturesAt returns the
                                   reference's start, end AND slot vector (literal equality)
     pikecaps_search_is_ref      : SearchWithCapturesAt reports the reference's groups
     pikecaps_anchored_is_ref / csearch_anchored_is_ref : searchAtWithCaptures = the reference search
                                   from the one start `at`, vector included
     pikecaps_in_span_full       : SearchWithCapturesInSpan(h, s, len(h)) likewise (shorter spans are
                                   modelled, pikecaps_in_span, and replayed by the case checker only)
     cow_fixed_value / cow_ok / cow_list_ok : copy-on-write store, reference for the right branch
                                   of a Split taken BEFORE the left branch is explored = value
                                   semantics (closure and step, resource invariant cow_pre/cow_post)
     cow_loop_value / cow_search_is_ref : the whole search on the store = the value model = find_at
     cow_original_refuted(_search) : the original order (clone after the left branch) is not
   Route: PikeSpan.v's layered search with the slot vector added to its big-step form
   (LEs/LLEs; erasing the vector gives PikeSpan.LE/LLE, so soundness, totality and the
   visited-set facts are inherited), lemma K with vectors (each listed thread carries the
   vector the reference search has on reaching that configuration), invariant J with vectors. *)
From Coq Require Import List NArith ZArith Lia Bool Arith PeanoNat.
From Coq Require Import FSets.FSetPositive.
From Coq Require Import ZifyBool ZifyNat ZifyN.
From CV Require Import Nfa NfaRef Backtrack Pike PikeSpan.
Import ListNotations.

(* ------------------------------------------------------------------ the model *)
(* nfa/pikevm.go: type thread (state, startPos, captures) — the vector by value *)
Definition cthread := (nat * nat * slots)%type.
Definition cq (t : cthread) : nat := fst (fst t).
Definition cs (t : cthread) : nat := snd (fst t).
Definition csl (t : cthread) : slots := snd t.
(* the thread of Pike.v's model *)
Definition er (t : cthread) : thread := fst t.

Section CModel.
  Variable A : nfa.
  Variable h : hay.

  (* nfa/pikevm.go: addThread / addThreadToNext.  StateCapture: updateCapture(t.captures,
     group, isStart, pos) — the same slot update as Nfa.succs; StateSplit: left, then right,
     each with its own value of the vector. *)
  Fixpoint cclosure (fuel p q s : nat) (sl : slots) (vs : vset) : res (list cthread * vset) :=
    match fuel with
    | 0 => OutOfFuel
    | S f =>
        if Pike.vmem q vs then Done ([], vs) else
        let vs1 := q :: vs in
        match nth_error (states A) q with
        | None => Done ([], vs1)
        | Some st =>
            match st with
            | SMatch | SByteRange _ _ _ | SSparse _ => Done ([(q, s, sl)], vs1)
            | SEpsilon nx => cclosure f p nx s sl vs1
            | SCapture idx is_start nx =>
                cclosure f p nx s (set_nth sl (slot_of idx is_start) (Z.of_nat p)) vs1
            | SSplit l r =>
                match cclosure f p l s sl vs1 with
                | OutOfFuel => OutOfFuel
                | Done (t1, vs2) =>
                    match cclosure f p r s sl vs2 with
                    | OutOfFuel => OutOfFuel
                    | Done (t2, vs3) => Done (t1 ++ t2, vs3)
                    end
                end
            | SLook lk nx => if look_ok lk h p then cclosure f p nx s sl vs1 else Done ([], vs1)
            | SFail => Done ([], vs1)
            end
        end
    end.

  Fixpoint cclosure_list (fuel p : nat) (ts : list cthread) (vs : vset) : res (list cthread * vset) :=
    match ts with
    | [] => Done ([], vs)
    | (q, s, sl) :: ts' =>
        match cclosure fuel p q s sl vs with
        | OutOfFuel => OutOfFuel
        | Done (t1, vs1) =>
            match cclosure_list fuel p ts' vs1 with
            | OutOfFuel => OutOfFuel
            | Done (t2, vs2) => Done (t1 ++ t2, vs2)
            end
        end
    end.

  (* nfa/pikevm.go: step — the stepped thread keeps its vector *)
  Definition ctargets (b : N) (t : cthread) : list cthread :=
    match nth_error (states A) (cq t) with
    | Some st => map (fun q => (q, cs t, csl t)) (byte_succ st b)
    | None => []
    end.

  Definition cstep_all (p' : nat) (b : N) (queue : list cthread) : res (list cthread * vset) :=
    cclosure_list (cfuel A) p' (flat_map (ctargets b) queue) [].

  Fixpoint ccut (q : list cthread) : list cthread * option cthread :=
    match q with
    | [] => ([], None)
    | t :: q' => if is_match_thread A (er t) then ([], Some t) else let (a, m) := ccut q' in (t :: a, m)
    end.

  Definition cbest := option (nat * nat * slots).
  Definition er_best (b : cbest) : option (nat * nat) := option_map fst b.

  (* bestStart, bestEnd, bestCaptures = t.captures.copyData() *)
  Definition cupd_best (best : cbest) (m : option cthread) (p : nat) : cbest :=
    match m with
    | None => best
    | Some t => if better (er_best best) (cs t) p then Some (cs t, p, csl t) else best
    end.

  (* searchUnanchoredWithCapturesAt, head of the loop body: caps := p.newCaptures() *)
  Definition cinject (anchored : bool) (at_ p : nat) (queue : list cthread) (best : cbest)
    : res (list cthread) :=
    if is_none best && (negb anchored || (p =? at_))
    then match cclosure (cfuel A) p (start_anch A) p (init_slots A) [] with
         | OutOfFuel => OutOfFuel
         | Done (t, _) => Done (queue ++ t)
         end
    else Done queue.

  (* nfa/pikevm.go: searchUnanchoredWithCapturesAt; k = len(haystack) - pos *)
  Fixpoint csu_loop (anchored : bool) (at_ k p : nat) (queue : list cthread) (best : cbest)
    : res cbest :=
    match cinject anchored at_ p queue best with
    | OutOfFuel => OutOfFuel
    | Done queue1 =>
        let (q0, m) := ccut queue1 in
        let best1 := cupd_best best m p in
        match k with
        | 0 => Done best1
        | S k' =>
            match nth_error h p with
            | None => Done best1
            | Some b =>
                match cstep_all (S p) b q0 with
                | OutOfFuel => OutOfFuel
                | Done (nq, _) =>
                    if no_candidate (er_best best1) (map er nq) then Done best1
                    else csu_loop anchored at_ k' (S p) nq best1
                end
            end
        end
    end.

  (* nfa/pikevm.go: searchAtWithCaptures; SearchWithCapturesInSpan is the same loop on
     haystack[:spanEnd] for the bytes and the full haystack for the assertions *)
  Fixpoint csa_loop (k p : nat) (queue : list cthread) (last : option (nat * slots))
    : res (option (nat * slots)) :=
    let (q0, m) := ccut queue in
    let last1 := match m with
                 | Some t => match last with
                             | None => Some (p, csl t)
                             | Some (l, _) => if l <? p then Some (p, csl t) else last
                             end
                 | None => last
                 end in
    match k with
    | 0 => Done last1
    | S k' =>
        match nth_error h p with
        | None => Done last1
        | Some b =>
            match cstep_all (S p) b q0 with
            | OutOfFuel => OutOfFuel
            | Done (nq, _) =>
                match nq, last1 with
                | [], Some _ => Done last1
                | _, _ => csa_loop k' (S p) nq last1
                end
            end
        end
    end.

  Definition csearch_anchored (s : nat) : res cbest :=
    match cclosure (cfuel A) s (start_anch A) s (init_slots A) [] with
    | OutOfFuel => OutOfFuel
    | Done (t, _) =>
        match csa_loop (length h - s) s t None with
        | OutOfFuel => OutOfFuel
        | Done None => Done None
        | Done (Some (e, sl)) => Done (Some (s, e, sl))
        end
    end.

  (* nfa/pikevm.go: SearchWithCapturesAt.  The end-of-input shortcut (matchesEmptyAt, group 0
     only) is taken only when the pattern has no sub-groups. *)
  Definition pikecaps_search_at_g (anchored : bool) (at_ : nat) : res cbest :=
    if length h <? at_ then Done None
    else if (at_ =? length h) && (ncaps A <=? 1) then
      match matches_empty_at A h at_ with
      | OutOfFuel => OutOfFuel
      | Done true => Done (Some (at_, at_, init_slots A))
      | Done false => Done None
      end
    else if anchored then csearch_anchored at_
    else csu_loop false at_ (length h - at_) at_ [] None.
End CModel.

Definition pikecaps_search_at (A : nfa) (h : hay) (at_ : nat) : res cbest :=
  pikecaps_search_at_g A h false at_.

(* nfa/pikevm.go: SearchWithCapturesInSpan(haystack, spanStart, spanEnd): one seed at spanStart,
   the loop of searchAtWithCaptures with len(haystack) replaced by spanEnd for the bytes; the
   assertions see the full haystack *)
Definition pikecaps_in_span (A : nfa) (h : hay) (s e : nat) : res cbest :=
  if (e <? s) || (length h <? e) then Done None else
  match cclosure A h (cfuel A) s (start_anch A) s (init_slots A) [] with
  | OutOfFuel => OutOfFuel
  | Done (t, _) =>
      match csa_loop A h (e - s) s t None with
      | OutOfFuel => OutOfFuel
      | Done None => Done None
      | Done (Some (l, sl)) => Done (Some (s, l, sl))
      end
  end.

(* what the entry points report (buildCapturesResult): group 0 = the span, group i >= 1 =
   slots 2i, 2i+1 if both are set, otherwise unset *)
Fixpoint pairs_norm (sl : slots) : slots :=
  match sl with
  | a :: b :: t => (if (0 <=? a)%Z && (0 <=? b)%Z then [a; b] else [(-1)%Z; (-1)%Z]) ++ pairs_norm t
  | _ => sl
  end.

Definition report (A : nfa) (s e : nat) (sl : slots) : slots :=
  if ncaps A =? 0 then [Z.of_nat s; Z.of_nat e] else caps_of s e (pairs_norm sl).

Definition report_res (A : nfa) (r : res cbest) : res (option slots) :=
  match r with
  | OutOfFuel => OutOfFuel
  | Done None => Done None
  | Done (Some (s, e, sl)) => Done (Some (report A s e sl))
  end.

(* PROOFS_BEGIN *)
(* ------------------------------------------------------------------ erasing the vectors *)
Definition er_out (r : res (list cthread * vset)) : res (list thread * vset) :=
  match r with OutOfFuel => OutOfFuel | Done (T, vs) => Done (map er T, vs) end.

Definition er_res (r : res cbest) : res (option (nat * nat)) :=
  match r with OutOfFuel => OutOfFuel | Done b => Done (er_best b) end.

Section Erase.
  Variable A : nfa.
  Variable h : hay.

  Lemma cclosure_erase f : forall p q s sl vs,
    er_out (cclosure A h f p q s sl vs) = closure A h f p q s vs.
  Proof.
    induction f as [|f IH]; intros p q s sl vs; [reflexivity|].
    cbn [cclosure closure]. destruct (Pike.vmem q vs); [reflexivity|].
    destruct (nth_error (states A) q) as [st|]; [|reflexivity].
    destruct st as [|lo hi nx|trs|l r|nx|idx is_start nx|lk nx|]; try reflexivity; try apply IH.
    - rewrite <- (IH p l s sl (q :: vs)).
      destruct (cclosure A h f p l s sl (q :: vs)) as [|[t1 v1]]; [reflexivity|]. cbn [er_out].
      rewrite <- (IH p r s sl v1).
      destruct (cclosure A h f p r s sl v1) as [|[t2 v2]]; [reflexivity|]. cbn [er_out].
      now rewrite map_app.
    - destruct (look_ok lk h p); [apply IH|reflexivity].
  Qed.

  Lemma cclosure_list_erase f p : forall ts vs,
    er_out (cclosure_list A h f p ts vs) = closure_list A h f p (map er ts) vs.
  Proof.
    induction ts as [|[[q s] sl] ts IH]; intros vs; [reflexivity|].
    cbn [cclosure_list map er fst closure_list].
    rewrite <- (cclosure_erase f p q s sl vs).
    destruct (cclosure A h f p q s sl vs) as [|[t1 v1]]; [reflexivity|]. cbn [er_out].
    rewrite <- (IH v1).
    destruct (cclosure_list A h f p ts v1) as [|[t2 v2]]; [reflexivity|]. cbn [er_out].
    now rewrite map_app.
  Qed.

  Lemma ctargets_erase b t : map er (ctargets A b t) = targets A b (er t).
  Proof.
    unfold ctargets, targets, cq, cs, er. destruct t as [[q s] sl]. cbn [fst snd].
    destruct (nth_error (states A) q); [|reflexivity]. rewrite map_map. reflexivity.
  Qed.

  Lemma flat_ctargets_erase b q : map er (flat_map (ctargets A b) q) = flat_map (targets A b) (map er q).
  Proof.
    induction q as [|t q IH]; [reflexivity|]. cbn [flat_map map]. rewrite map_app, ctargets_erase, IH. reflexivity.
  Qed.

  Lemma cstep_all_erase p' b q : er_out (cstep_all A h p' b q) = step_all A h p' b (map er q).
  Proof. unfold cstep_all, step_all. rewrite cclosure_list_erase, flat_ctargets_erase. reflexivity. Qed.

  Lemma ccut_erase q :
    cut A (map er q) = (map er (fst (ccut A q)), option_map er (snd (ccut A q))).
  Proof.
    induction q as [|t q IH]; [reflexivity|]. cbn [map cut ccut].
    destruct (is_match_thread A (er t)); [reflexivity|]. rewrite IH.
    destruct (ccut A q) as [a m]. reflexivity.
  Qed.

  Lemma cupd_best_erase best m p :
    er_best (cupd_best best m p) = upd_best (er_best best) (option_map er m) p.
  Proof.
    destruct m as [[[q s] sl]|]; [|reflexivity]. cbn [cupd_best upd_best option_map er cs fst snd].
    destruct (better (er_best best) s p); reflexivity.
  Qed.

  Lemma is_none_erase (b : cbest) : is_none (er_best b) = is_none b.
  Proof. destruct b; reflexivity. Qed.

  Definition er_q (r : res (list cthread)) : res (list thread) :=
    match r with OutOfFuel => OutOfFuel | Done q => Done (map er q) end.

  Lemma cinject_erase anchored at_ p q best :
    er_q (cinject A h anchored at_ p q best) = inject A h anchored at_ p (map er q) (er_best best).
  Proof.
    unfold cinject, inject. rewrite is_none_erase.
    destruct (is_none best && (negb anchored || (p =? at_))); [|reflexivity].
    rewrite <- (cclosure_erase (cfuel A) p (start_anch A) p (init_slots A) []).
    destruct (cclosure A h (cfuel A) p (start_anch A) p (init_slots A) []) as [|[t v]]; [reflexivity|].
    cbn [er_out er_q]. now rewrite map_app.
  Qed.

  (* erasing the capture vectors from a run of the loop gives the run of Pike.v's loop *)
  Theorem erase_run anchored at_ : forall k p q best,
    er_res (csu_loop A h anchored at_ k p q best) = su_loop A h anchored at_ k p (map er q) (er_best best).
  Proof.
    induction k as [|k IH]; intros p q best; cbn [csu_loop su_loop];
      rewrite <- cinject_erase;
      destruct (cinject A h anchored at_ p q best) as [|q1]; try reflexivity; cbn [er_q];
      rewrite ccut_erase; destruct (ccut A q1) as [q0 m]; cbn [fst snd];
      rewrite <- cupd_best_erase.
    - reflexivity.
    - destruct (nth_error h p) as [b|]; [|reflexivity].
      rewrite <- cstep_all_erase. destruct (cstep_all A h (S p) b q0) as [|[nq v]]; [reflexivity|].
      cbn [er_out]. destruct (no_candidate (er_best (cupd_best best m p)) (map er nq)); [reflexivity|].
      apply IH.
  Qed.

  Definition er_last (l : option (nat * slots)) : option nat := option_map fst l.
  Definition er_lres (r : res (option (nat * slots))) : res (option nat) :=
    match r with OutOfFuel => OutOfFuel | Done l => Done (er_last l) end.

  Theorem erase_run_anchored : forall k p q last,
    er_lres (csa_loop A h k p q last) = sa_loop A h k p (map er q) (er_last last).
  Proof.
    induction k as [|k IH]; intros p q last; cbn [csa_loop sa_loop];
      rewrite ccut_erase; destruct (ccut A q) as [q0 m]; cbn [fst snd].
    - destruct m as [t|]; [|reflexivity]. destruct last as [[l sl]|]; cbn [er_last option_map fst er_lres]; [|reflexivity].
      destruct (l <? p); reflexivity.
    - set (last1 := match m with
                    | Some t => match last with None => Some (p, csl t)
                                | Some (l, _) => if l <? p then Some (p, csl t) else last end
                    | None => last end).
      assert (E1 : er_last last1 =
                   match option_map er m with
                   | Some _ => match er_last last with None => Some p
                               | Some l => if l <? p then Some p else er_last last end
                   | None => er_last last end).
      { unfold last1. destruct m as [t|]; [|reflexivity]. destruct last as [[l sl]|]; [|reflexivity].
        cbn [er_last option_map fst]. destruct (l <? p); reflexivity. }
      rewrite <- E1. destruct (nth_error h p) as [b|]; [|reflexivity].
      rewrite <- cstep_all_erase. destruct (cstep_all A h (S p) b q0) as [|[nq v]]; [reflexivity|].
      cbn [er_out]. destruct nq as [|t nq]; cbn [map].
      + destruct last1 as [[l1 sl1]|]; [reflexivity|]. apply (IH (S p) [] None).
      + apply (IH (S p) (t :: nq) last1).
  Qed.
End Erase.

(* ------------------------------------------------------------------ the layered search of
   PikeSpan.v with the slot vector *)
Definition eps_succ_s (h : hay) (p : nat) (st : nstate) (sl : slots) : list (nat * slots) :=
  match st with
  | SEpsilon nx => [(nx, sl)]
  | SCapture idx is_start nx => [(nx, set_nth sl (slot_of idx is_start) (Z.of_nat p))]
  | SSplit l r => [(l, sl); (r, sl)]
  | SLook lk nx => if look_ok lk h p then [(nx, sl)] else []
  | _ => []
  end.

Lemma eps_succ_s_fst h p st sl : map fst (eps_succ_s h p st sl) = eps_succ h p st.
Proof. destruct st; cbn [eps_succ_s eps_succ map fst]; try reflexivity. destruct (look_ok lk h p); reflexivity. Qed.

Definition withsl (sl : slots) (qs : list nat) : list (nat * slots) := map (fun x => (x, sl)) qs.

Lemma withsl_fst sl qs : map fst (withsl sl qs) = qs.
Proof. unfold withsl. rewrite map_map. cbn [fst]. apply map_id. Qed.

Section LSRel.
  Variable A : nfa.
  Variable h : hay.

  Inductive LEs : nat -> nat -> slots -> list vset -> option (nat * slots) -> list vset -> Prop :=
  | LEs_nil q p sl : LEs q p sl [] None []
  | LEs_vis q p sl v W : Pike.vmem q v = true -> LEs q p sl (v :: W) None (v :: W)
  | LEs_bad q p sl v W : Pike.vmem q v = false -> nth_error (states A) q = None ->
      LEs q p sl (v :: W) None ((q :: v) :: W)
  | LEs_match q p sl v W st : Pike.vmem q v = false -> nth_error (states A) q = Some st ->
      is_match_state st = true -> LEs q p sl (v :: W) (Some (p, sl)) ((q :: v) :: W)
  | LEs_byte q p sl v W st r W1 : Pike.vmem q v = false -> nth_error (states A) q = Some st ->
      is_match_state st = false -> is_terminal st = true ->
      LLEs (withsl sl (lstep h st p)) (S p) W r W1 -> LEs q p sl (v :: W) r ((q :: v) :: W1)
  | LEs_eps q p sl v W st r W1 : Pike.vmem q v = false -> nth_error (states A) q = Some st ->
      is_match_state st = false -> is_terminal st = false ->
      LLEs (eps_succ_s h p st sl) p ((q :: v) :: W) r W1 -> LEs q p sl (v :: W) r W1
  with LLEs : list (nat * slots) -> nat -> list vset -> option (nat * slots) -> list vset -> Prop :=
  | LLEs_nil p W : LLEs [] p W None W
  | LLEs_hit x sl cs p W e W1 : LEs x p sl W (Some e) W1 -> LLEs ((x, sl) :: cs) p W (Some e) W1
  | LLEs_miss x sl cs p W W1 r W2 : LEs x p sl W None W1 -> LLEs cs p W1 r W2 -> LLEs ((x, sl) :: cs) p W r W2.

  Scheme LEs_mut := Minimality for LEs Sort Prop
    with LLEs_mut := Minimality for LLEs Sort Prop.
  Combined Scheme LEs_LLEs_ind from LEs_mut, LLEs_mut.

  (* erasing the vector gives the search of PikeSpan.v *)
  Lemma LEs_LLEs_erase :
    (forall q p sl W r W', LEs q p sl W r W' -> LE A h q p W (erase r) W') /\
    (forall cs p W r W', LLEs cs p W r W' -> LLE A h (map fst cs) p W (erase r) W').
  Proof.
    apply LEs_LLEs_ind; intros; cbn [erase option_map fst map].
    - constructor.
    - now constructor.
    - now constructor.
    - eapply LE_match; eauto.
    - eapply LE_byte; eauto. match goal with H : LLE _ _ _ _ _ _ _ |- _ => rewrite withsl_fst in H; exact H end.
    - eapply LE_eps; eauto. match goal with H : LLE _ _ _ _ _ _ _ |- _ => rewrite eps_succ_s_fst in H; exact H end.
    - constructor.
    - apply LLE_hit. assumption.
    - eapply LLE_miss; eauto.
  Qed.

  (* every run of PikeSpan's search is the erasure of a run with vectors *)
  Lemma LE_LLE_lift :
    (forall q p W r0 W', LE A h q p W r0 W' -> forall sl, exists r, LEs q p sl W r W' /\ erase r = r0) /\
    (forall qs p W r0 W', LLE A h qs p W r0 W' -> forall cs, map fst cs = qs ->
        exists r, LLEs cs p W r W' /\ erase r = r0).
  Proof.
    apply LE_LLE_ind.
    - intros q p sl. exists None. split; [constructor|reflexivity].
    - intros q p v W Hv sl. exists None. split; [now constructor|reflexivity].
    - intros q p v W Hv Hst sl. exists None. split; [now constructor|reflexivity].
    - intros q p v W st Hv Hst Hm sl. exists (Some (p, sl)). split; [eapply LEs_match; eauto|reflexivity].
    - intros q p v W st r W1 Hv Hst Hm Ht _ IH sl.
      destruct (IH (withsl sl (lstep h st p)) (withsl_fst _ _)) as [r1 [H1 E1]].
      exists r1. split; [eapply LEs_byte; eauto|exact E1].
    - intros q p v W st r W1 Hv Hst Hm Ht _ IH sl.
      destruct (IH (eps_succ_s h p st sl) (eps_succ_s_fst _ _ _ _)) as [r1 [H1 E1]].
      exists r1. split; [eapply LEs_eps; eauto|exact E1].
    - intros p W cs Hcs. destruct cs; [|discriminate]. exists None. split; [constructor|reflexivity].
    - intros x qs p W e W1 _ IH cs Hcs. destruct cs as [|[x' sl] cs]; [discriminate|].
      cbn [map fst] in Hcs. inversion Hcs; subst.
      destruct (IH sl) as [r1 [H1 E1]]. destruct r1 as [e1|]; [|discriminate].
      exists (Some e1). split; [now apply LLEs_hit|exact E1].
    - intros x qs p W W1 r W2 _ IH1 _ IH2 cs Hcs. destruct cs as [|[x' sl] cs]; [discriminate|].
      cbn [map fst] in Hcs. inversion Hcs; subst.
      destruct (IH1 sl) as [r1 [H1 E1]]. destruct r1 as [e1|]; [discriminate|].
      destruct (IH2 cs eq_refl) as [r2 [H2 E2]].
      exists r2. split; [eapply LLEs_miss; eauto|exact E2].
  Qed.

  Lemma LEs_total q p sl W : exists r W', LEs q p sl W r W' /\ length W' = length W.
  Proof.
    destruct (LE_total A h q p W) as [r0 [W' [H0 Hl]]].
    destruct (proj1 LE_LLE_lift _ _ _ _ _ H0 sl) as [r [H1 _]]. eauto.
  Qed.

  Lemma LLEs_total cs p W : exists r W', LLEs cs p W r W' /\ length W' = length W.
  Proof.
    destruct (LLE_total A h (map fst cs) p W) as [r0 [W' [H0 Hl]]].
    destruct (proj2 LE_LLE_lift _ _ _ _ _ H0 cs eq_refl) as [r [H1 _]]. eauto.
  Qed.

  Lemma LLEs_app cs1 cs2 p W W1 r W2 :
    LLEs cs1 p W None W1 -> LLEs cs2 p W1 r W2 -> LLEs (cs1 ++ cs2) p W r W2.
  Proof.
    revert W. induction cs1 as [|[x sl] cs1 IH]; intros W H1 H2; cbn [app].
    - inversion H1; subst. exact H2.
    - inversion H1; subst. eapply LLEs_miss; eauto.
  Qed.

  Lemma LLEs_app_hit cs1 cs2 p W e W1 :
    LLEs cs1 p W (Some e) W1 -> LLEs (cs1 ++ cs2) p W (Some e) W1.
  Proof.
    revert W. induction cs1 as [|[x sl] cs1 IH]; intros W H1; cbn [app]; inversion H1; subst.
    - now apply LLEs_hit.
    - eapply LLEs_miss; eauto.
  Qed.
End LSRel.

(* ------------------------------------------------------------------ dead configurations in the
   visited lists do not change the answer, vector included *)
Section LSDead.
  Variable A : nfa.
  Variable h : hay.
  Hypothesis Hwf : wf_nfa A = true.

  Lemma erase_none r : erase r = None -> r = None.
  Proof. destruct r; [discriminate|reflexivity]. Qed.

  Lemma LEs_dead q p sl W r W' : dead A h q p -> LEs A h q p sl W r W' -> r = None /\ Rd A h p W W'.
  Proof.
    intros Hd H. apply (proj1 (LEs_LLEs_erase A h)) in H.
    destruct (LE_dead A h Hwf _ _ _ _ _ Hd H) as [E R]. split; [now apply erase_none|exact R].
  Qed.

  Lemma LEs_LLEs_Rd :
    (forall q p sl W1 r1 W1', LEs A h q p sl W1 r1 W1' -> forall W2 r2 W2', Rd A h p W1 W2 ->
        LEs A h q p sl W2 r2 W2' -> r1 = r2 /\ Rd A h p W1' W2') /\
    (forall cs p W1 r1 W1', LLEs A h cs p W1 r1 W1' -> forall W2 r2 W2', Rd A h p W1 W2 ->
        LLEs A h cs p W2 r2 W2' -> r1 = r2 /\ Rd A h p W1' W2').
  Proof.
    assert (Hdd : forall q p sl W1 r1 W1' W2 r2 W2', dead A h q p -> LEs A h q p sl W1 r1 W1' -> Rd A h p W1 W2 ->
              LEs A h q p sl W2 r2 W2' -> r1 = r2 /\ Rd A h p W1' W2').
    { intros q p sl W1 r1 W1' W2 r2 W2' Hd H1 HR H2.
      destruct (LEs_dead _ _ _ _ _ _ Hd H1) as [-> R1]. destruct (LEs_dead _ _ _ _ _ _ Hd H2) as [-> R2].
      split; [reflexivity|]. apply (Rd_trans A h _ _ W1); [apply Rd_sym, R1|]. apply (Rd_trans A h _ _ W2); [exact HR|exact R2]. }
    apply LEs_LLEs_ind.
    - intros q p sl W2 r2 W2' [Hl _] H2. destruct W2; [|discriminate]. inversion H2; subst. split; [reflexivity|apply Rd_refl].
    - intros q p sl v W Hv W2 r2 W2' HR H2. destruct W2 as [|v2 T2]; [destruct HR; discriminate|].
      destruct (Rd_head A h _ _ _ _ _ HR q) as [E|D]; [|eapply Hdd; eauto; now constructor].
      rewrite Hv in E. inversion H2; subst; try congruence. auto.
    - intros q p sl v W Hv Hst W2 r2 W2' HR H2. destruct W2 as [|v2 T2]; [destruct HR; discriminate|].
      destruct (Rd_head A h _ _ _ _ _ HR q) as [E|D]; [|eapply Hdd; eauto; now constructor].
      rewrite Hv in E. inversion H2; subst; try congruence. split; [reflexivity|now apply (Rd_push A h Hwf)].
    - intros q p sl v W st Hv Hst Hm W2 r2 W2' HR H2. destruct W2 as [|v2 T2]; [destruct HR; discriminate|].
      destruct (Rd_head A h _ _ _ _ _ HR q) as [E|D]; [|eapply Hdd; eauto; eapply LEs_match; eauto].
      rewrite Hv in E. inversion H2; subst; try congruence. split; [reflexivity|now apply (Rd_push A h Hwf)].
    - intros q p sl v W st r W1 Hv Hst Hm Ht HL IH W2 r2 W2' HR H2. destruct W2 as [|v2 T2]; [destruct HR; discriminate|].
      destruct (Rd_head A h _ _ _ _ _ HR q) as [E|D]; [|eapply Hdd; eauto; eapply LEs_byte; eauto].
      rewrite Hv in E. inversion H2; subst; try congruence.
      match goal with Hs : nth_error (states A) q = Some ?st' |- _ => assert (st' = st) by congruence; subst st' end.
      match goal with HL2 : LLEs _ _ _ _ T2 _ _ |- _ => destruct (IH _ _ _ (Rd_tail A h Hwf _ _ _ _ _ HR) HL2) as [-> R2] end.
      split; [reflexivity|]. apply (Rd_cons A h Hwf); [|exact R2]. intros x. rewrite !vmem_cons.
      destruct (Rd_head A h _ _ _ _ _ HR x) as [Ex|Dx]; [left; now rewrite Ex|now right].
    - intros q p sl v W st r W1 Hv Hst Hm Ht HL IH W2 r2 W2' HR H2. destruct W2 as [|v2 T2]; [destruct HR; discriminate|].
      destruct (Rd_head A h _ _ _ _ _ HR q) as [E|D]; [|eapply Hdd; eauto; eapply LEs_eps; eauto].
      rewrite Hv in E. inversion H2; subst; try congruence.
      match goal with Hs : nth_error (states A) q = Some ?st' |- _ => assert (st' = st) by congruence; subst st' end.
      match goal with HL2 : LLEs _ _ _ _ _ _ _ |- _ => apply (IH _ _ _ (Rd_push A h Hwf _ q _ _ _ _ HR) HL2) end.
    - intros p W W2 r2 W2' HR H2. inversion H2; subst. auto.
    - intros x sl cs p W e W1 H1 IH W2 r2 W2' HR H2. inversion H2; subst.
      + match goal with HX : LEs _ _ x p sl W2 _ _ |- _ => apply (IH _ _ _ HR HX) end.
      + match goal with HX : LEs _ _ x p sl W2 None _ |- _ => destruct (IH _ _ _ HR HX) as [E _]; discriminate end.
    - intros x sl cs p W W1 r W2a H1 IH1 HL IHL W2 r2 W2' HR H2. inversion H2; subst.
      + match goal with HX : LEs _ _ x p sl W2 _ _ |- _ => destruct (IH1 _ _ _ HR HX) as [E _]; discriminate end.
      + match goal with HX : LEs _ _ x p sl W2 None ?Wm, HY : LLEs _ _ cs p ?Wm _ _ |- _ =>
          destruct (IH1 _ _ _ HR HX) as [_ R1]; apply (IHL _ _ _ R1 HY) end.
  Qed.
End LSDead.

(* ------------------------------------------------------------------ lemma K with vectors: each
   thread listed by the closure carries the vector the search has on reaching it *)
Definition cfg (t : cthread) : nat * slots := (cq t, csl t).
Definition mk_thr (s : nat) (c : nat * slots) : cthread := (fst c, s, snd c).

Lemma cfg_mk_thr s l : map cfg (map (mk_thr s) l) = l.
Proof. rewrite map_map. induction l as [|[x sl] l IH]; [reflexivity|]. cbn [map]. now rewrite IH. Qed.

Section LayerKS.
  Variable A : nfa.
  Variable h : hay.

  Lemma cclosure_unfold f p q s sl vs :
    cclosure A h (S f) p q s sl vs =
    if Pike.vmem q vs then Done ([], vs) else
    match nth_error (states A) q with
    | None => Done ([], q :: vs)
    | Some st => if is_terminal st then Done ([(q, s, sl)], q :: vs)
                 else cclosure_list A h f p (map (mk_thr s) (eps_succ_s h p st sl)) (q :: vs)
    end.
  Proof.
    cbn [cclosure]. destruct (Pike.vmem q vs); [reflexivity|].
    destruct (nth_error (states A) q) as [st|]; [|reflexivity].
    destruct st as [|lo hi nx|trs|l r|nx|idx is_start nx|lk nx|];
      cbn [is_terminal eps_succ_s map cclosure_list mk_thr fst snd]; try reflexivity.
    - destruct (cclosure A h f p l s sl (q :: vs)) as [|[t1 v1]]; [reflexivity|].
      destruct (cclosure A h f p r s sl v1) as [|[t2 v2]]; [reflexivity|]. now rewrite app_nil_r.
    - destruct (cclosure A h f p nx s sl (q :: vs)) as [|[t1 v1]]; [reflexivity|]. now rewrite app_nil_r.
    - destruct (cclosure A h f p nx s _ (q :: vs)) as [|[t1 v1]]; [reflexivity|]. now rewrite app_nil_r.
    - destruct (look_ok lk h p); cbn [map cclosure_list mk_thr fst snd]; [|reflexivity].
      destruct (cclosure A h f p nx s sl (q :: vs)) as [|[t1 v1]]; [reflexivity|]. now rewrite app_nil_r.
  Qed.

  (* first success, in thread order, of: Match thread -> its position and ITS vector; byte
     thread -> the search from its byte successors at the next position with its vector *)
  Inductive DiveS : nat -> list cthread -> list vset -> option (nat * slots) -> list vset -> Prop :=
  | DiveS_nil p W : DiveS p [] W None W
  | DiveS_match p t T W : is_match_thread A (er t) = true -> DiveS p (t :: T) W (Some (p, csl t)) W
  | DiveS_hit p t T W st e W1 : is_match_thread A (er t) = false -> nth_error (states A) (cq t) = Some st ->
      LLEs A h (withsl (csl t) (lstep h st p)) (S p) W (Some e) W1 -> DiveS p (t :: T) W (Some e) W1
  | DiveS_miss p t T W st W1 r W2 : is_match_thread A (er t) = false -> nth_error (states A) (cq t) = Some st ->
      LLEs A h (withsl (csl t) (lstep h st p)) (S p) W None W1 -> DiveS p T W1 r W2 -> DiveS p (t :: T) W r W2.

  Lemma DiveS_app p T1 T2 W W1 r W2 : DiveS p T1 W None W1 -> DiveS p T2 W1 r W2 -> DiveS p (T1 ++ T2) W r W2.
  Proof.
    revert W. induction T1 as [|t T1 IH]; intros W H1 H2; cbn [app].
    - inversion H1; subst. exact H2.
    - inversion H1; subst. eapply DiveS_miss; eauto.
  Qed.

  Lemma DiveS_app_hit p T1 T2 W e W1 : DiveS p T1 W (Some e) W1 -> DiveS p (T1 ++ T2) W (Some e) W1.
  Proof.
    revert W. induction T1 as [|t T1 IH]; intros W H1; cbn [app]; inversion H1; subst.
    - now apply DiveS_match.
    - eapply DiveS_hit; eauto.
    - eapply DiveS_miss; eauto.
  Qed.

  Definition KcS (cf : nat) : Prop :=
    forall p q s sl v T v', cclosure A h cf p q s sl v = Done (T, v') ->
    forall W r Wout, LEs A h q p sl (v :: W) r Wout ->
    exists W'', DiveS p T W r W'' /\ (r = None -> Wout = v' :: W'').

  Lemma KS_list_of cf : KcS cf ->
    forall p ts v T v', cclosure_list A h cf p ts v = Done (T, v') ->
    forall W r Wout, LLEs A h (map cfg ts) p (v :: W) r Wout ->
    exists W'', DiveS p T W r W'' /\ (r = None -> Wout = v' :: W'').
  Proof.
    intros HK p ts. induction ts as [|[[q s] sl] ts IH]; intros v T v' HC W r Wout HL.
    - inversion HC; subst. cbn [map] in HL. inversion HL; subst. exists W. split; [constructor|auto].
    - cbn [cclosure_list] in HC.
      destruct (cclosure A h cf p q s sl v) as [|[T1 v1]] eqn:E1; [discriminate|].
      destruct (cclosure_list A h cf p ts v1) as [|[T2 v2]] eqn:E2; [discriminate|].
      inversion HC; subst. change (map cfg ((q, s, sl) :: ts)) with ((q, sl) :: map cfg ts) in HL. inversion HL; subst.
      + match goal with HX : LEs _ _ q p sl _ _ _ |- _ => destruct (HK _ _ _ _ _ _ _ E1 _ _ _ HX) as [Wa [HD _]] end.
        exists Wa. split; [now apply DiveS_app_hit|discriminate].
      + match goal with HX : LEs _ _ q p sl _ None ?Wm, HY : LLEs _ _ _ p ?Wm _ _ |- _ =>
          destruct (HK _ _ _ _ _ _ _ E1 _ _ _ HX) as [Wa [HD HE]]; rewrite (HE eq_refl) in HY;
          destruct (IH _ _ _ E2 _ _ _ HY) as [Wb [HD2 HE2]] end.
        exists Wb. split; [eapply DiveS_app; eauto|exact HE2].
  Qed.

  Lemma KS_closure cf : KcS cf.
  Proof.
    induction cf as [|cf IH]; intros p q s sl v T v' HC W r Wout HL; [discriminate|].
    rewrite cclosure_unfold in HC. inversion HL; subst.
    - match goal with Hv : Pike.vmem q v = true |- _ => rewrite Hv in HC end.
      inversion HC; subst. exists W. split; [constructor|auto].
    - match goal with Hv : Pike.vmem q v = false, Hs : nth_error _ q = None |- _ => rewrite Hv, Hs in HC end.
      inversion HC; subst. exists W. split; [constructor|auto].
    - match goal with Hv : Pike.vmem q v = false, Hs : nth_error _ q = Some _ |- _ => rewrite Hv, Hs in HC end.
      assert (Ht : is_terminal st = true) by (destruct st; try discriminate; reflexivity).
      rewrite Ht in HC. inversion HC; subst. exists W. split; [|discriminate].
      apply (DiveS_match p (q, s, sl)). unfold er. cbn [fst]. erewrite match_state_thread; eauto.
    - match goal with Hv : Pike.vmem q v = false, Hs : nth_error _ q = Some _, Ht : is_terminal _ = true |- _ =>
        rewrite Hv, Hs, Ht in HC end.
      inversion HC; subst.
      assert (Hmt : is_match_thread A (er (q, s, sl)) = false) by (unfold er; cbn [fst]; erewrite match_state_thread; eauto).
      destruct r as [e|].
      + exists W1. split; [eapply (DiveS_hit p (q, s, sl)); eauto|discriminate].
      + exists W1. split; [eapply (DiveS_miss p (q, s, sl)); eauto; constructor|reflexivity].
    - match goal with Hv : Pike.vmem q v = false, Hs : nth_error _ q = Some _, Ht : is_terminal _ = false |- _ =>
        rewrite Hv, Hs, Ht in HC end.
      eapply (KS_list_of cf IH); [exact HC|]. rewrite cfg_mk_thr. assumption.
  Qed.

  Lemma KS_list cf p ts v T v' W r Wout :
    cclosure_list A h cf p ts v = Done (T, v') -> LLEs A h (map cfg ts) p (v :: W) r Wout ->
    exists W'', DiveS p T W r W'' /\ (r = None -> Wout = v' :: W'').
  Proof. intros HC HL. eapply (KS_list_of cf (KS_closure cf)); eauto. Qed.
End LayerKS.

(* ------------------------------------------------------------------ Nfa.dfs = the layered search,
   vector included *)
Definition at_pos (p : nat) (c : nat * slots) : nat * nat * slots := (fst c, p, snd c).

Section RefSimS.
  Variable A : nfa.
  Variable h : hay.
  Hypothesis Hwf : wf_nfa A = true.
  Let n := nstates A.
  Notation rdfs := (dfs A h PositiveSet.t (pmem n) (padd n)).
  Notation rdfs_list := (dfs_list A h PositiveSet.t (pmem n) (padd n)).

  Lemma succs_shape_s q st p sl : nth_error (states A) q = Some st -> is_match_state st = false ->
    succs h st p sl = if is_terminal st then map (at_pos (S p)) (withsl sl (lstep h st p))
                      else map (at_pos p) (eps_succ_s h p st sl).
  Proof.
    intros Hst Hm. pose proof (wf_state A Hwf _ _ Hst) as Hok.
    destruct st as [|lo hi nx|trs|l r|nx|idx is_start nx|lk nx|]; try discriminate;
      cbn [succs is_terminal eps_succ_s]; unfold lstep, withsl; cbn [byte_succ].
    - destruct (nth_error h p) as [b|]; [|reflexivity]. destruct (in_range lo hi b); reflexivity.
    - destruct (nth_error h p) as [b|]; [|reflexivity].
      cbn [state_ok] in Hok. rewrite (sparse_filter_first _ _ _ b Hok).
      destruct (sparse_next trs b); reflexivity.
    - reflexivity.
    - reflexivity.
    - reflexivity.
    - destruct (look_ok lk h p); reflexivity.
    - reflexivity.
  Qed.

  Definition simPS (f : nat) : Prop :=
    forall q p sl V r V' W, q < n -> p <= length h -> Rl A h p V W ->
    rdfs f q p sl V = (Done r, V') -> exists W', LEs A h q p sl W r W' /\ Rl A h p V' W'.

  Lemma dfs_list_LLEs_of f : simPS f ->
    forall cs p V r V' W,
    (forall c, In c cs -> fst c < n) -> p <= length h -> Rl A h p V W ->
    rdfs_list f (map (at_pos p) cs) V = (Done r, V') -> exists W', LLEs A h cs p W r W' /\ Rl A h p V' W'.
  Proof.
    intros HS cs. induction cs as [|[q1 s1] cs IH]; intros p V r V' W Hcs Hp HR H; cbn [map at_pos fst snd dfs_list] in H.
    - inversion H; subst. exists W. split; [constructor|exact HR].
    - pose proof (Hcs (q1, s1) (or_introl eq_refl)) as Hq1. cbn [fst] in Hq1.
      destruct (rdfs f q1 p s1 V) as [[|[[e1 sl1]|]] V1] eqn:E1; try discriminate.
      + inversion H; subst. destruct (HS _ _ _ _ _ _ _ Hq1 Hp HR E1) as [W1 [L1 R1]].
        exists W1. split; [|exact R1]. apply LLEs_hit. exact L1.
      + destruct (HS _ _ _ _ _ _ _ Hq1 Hp HR E1) as [W1 [L1 R1]].
        destruct (IH p V1 r V' W1 (fun c Hc => Hcs c (or_intror Hc)) Hp R1 H) as [W2 [L2 R2]].
        exists W2. split; [|exact R2]. eapply LLEs_miss; eauto.
  Qed.

  Lemma dfs_LEs f : simPS f.
  Proof.
    induction f as [|f IH]; intros q p sl V r V' W Hq Hp HR H; [discriminate|].
    destruct W as [|v Wt]; [destruct HR as [Hl _]; cbn [length] in Hl; lia|].
    rewrite dfs_unfold in H.
    destruct (nth_error (states A) q) as [st|] eqn:Hst.
    2:{ apply nth_error_None in Hst. unfold n, nstates in Hq. lia. }
    assert (Hv : pmem n q p V = Pike.vmem q v).
    { destruct HR as [_ HR]. specialize (HR 0 q Hq ltac:(lia)). rewrite Nat.add_0_r in HR. exact HR. }
    rewrite Hv in H. destruct (Pike.vmem q v) eqn:Ev.
    { inversion H; subst. exists (v :: Wt). split; [now constructor|exact HR]. }
    pose proof (Rl_add A h Hwf p V v Wt q Hq HR) as HR1.
    destruct (is_match_state st) eqn:Hm.
    { inversion H; subst. exists ((q :: v) :: Wt). split; [eapply LEs_match; eauto|exact HR1]. }
    pose proof (succs_shape_s q st p sl Hst Hm) as Hsh.
    assert (Hcs : forall c, In c (succs h st p sl) -> cst c < n /\ cpos c <= length h).
    { intros [[q' p'] s'] Hc. split; [eapply succs_target_ok; eauto|].
      apply (succs_pos h st p sl q' p' s' Hc Hp). }
    destruct (is_terminal st) eqn:Ht.
    - rewrite Hsh in H, Hcs.
      destruct (lstep h st p) as [|x0 xs] eqn:El.
      { cbn [withsl map dfs_list] in H. inversion H; subst. exists ((q :: v) :: Wt). split; [|exact HR1].
        eapply LEs_byte; eauto. rewrite El. constructor. }
      assert (HSp : S p <= length h).
      { destruct (Hcs (x0, S p, sl)) as [_ Hc]; [now left|]. exact Hc. }
      rewrite <- El in *.
      assert (Hfst : forall c, In c (withsl sl (lstep h st p)) -> fst c < n).
      { intros c Hc. destruct (Hcs (at_pos (S p) c)) as [Hc1 _]; [now apply in_map|]. exact Hc1. }
      destruct (dfs_list_LLEs_of f IH _ (S p) (padd n q p V) r V' Wt Hfst HSp
                  (Rl_tail A h Hwf _ _ _ _ HR1) H) as [W1 [L1 R1]].
      exists ((q :: v) :: W1). split; [eapply LEs_byte; eauto|].
      apply (Rl_cons A h Hwf); [exact Hp| |exact R1]. intros x Hx.
      etransitivity.
      { apply (dfs_list_frame A h Hwf f _ (S p) (padd n q p V) (Done r) V') with (p0 := p) (x := x) in H; [exact H| |exact Hx|lia].
        intros c Hc. apply in_map_iff in Hc. destruct Hc as [c0 [<- _]]. split; [reflexivity|exact HSp]. }
      destruct HR1 as [_ HR1]. specialize (HR1 0 x Hx ltac:(lia)). rewrite Nat.add_0_r in HR1. exact HR1.
    - rewrite Hsh in H, Hcs.
      assert (Hfst : forall c, In c (eps_succ_s h p st sl) -> fst c < n).
      { intros c Hc. destruct (Hcs (at_pos p c)) as [Hc1 _]; [now apply in_map|]. exact Hc1. }
      destruct (dfs_list_LLEs_of f IH _ p (padd n q p V) r V' _ Hfst Hp HR1 H) as [W1 [L1 R1]].
      exists W1. split; [eapply LEs_eps; eauto|exact R1].
  Qed.

  Lemma search_with_LEs f s r : s <= length h ->
    search_with f A h s = Done r ->
    exists Wr, LEs A h (start_anch A) s (init_slots A) (repeat [] (S (length h) - s)) r Wr.
  Proof.
    unfold search_with. intros Hs H.
    destruct (dfs A h PositiveSet.t (pmem (nstates A)) (padd (nstates A)) f (start_anch A) s (init_slots A) PositiveSet.empty)
      as [r1 V'] eqn:E. cbn [fst] in H. subst r1.
    destruct (dfs_LEs f (start_anch A) s (init_slots A) PositiveSet.empty r V' _ (st0_lt A Hwf) Hs (Rl_fresh A h s) E)
      as [Wr [HL _]].
    exists Wr. exact HL.
  Qed.
End RefSimS.

(* ------------------------------------------------------------------ list helpers for threads
   with vectors *)
Definition ctag_lt (ss : nat) (t : cthread) : bool := tag_lt ss (er t).
Definition ctag_eq (ss : nat) (t : cthread) : bool := tag_eq ss (er t).
Definition ctag_gt (ss : nat) (t : cthread) : bool := tag_gt ss (er t).

Lemma filter_map_er (f : thread -> bool) (l : list cthread) :
  map er (filter (fun t => f (er t)) l) = filter f (map er l).
Proof.
  induction l as [|a l IH]; [reflexivity|]. cbn [filter map]. destruct (f (er a)); cbn [map]; now rewrite IH.
Qed.

Lemma ctsorted_split ss (l : list cthread) : tsorted (map er l) ->
  l = filter (ctag_lt ss) l ++ filter (ctag_eq ss) l ++ filter (ctag_gt ss) l.
Proof.
  induction l as [|a l IH]; intros Hs; [reflexivity|]. cbn [map] in Hs. destruct Hs as [Ha Hs]. specialize (IH Hs).
  assert (Ha' : forall x, In x l -> snd (er a) <= snd (er x)) by (intros x Hx; apply Ha; now apply in_map).
  cbn [filter]. unfold ctag_lt at 1, ctag_eq at 1, ctag_gt at 1, tag_lt, tag_eq, tag_gt.
  destruct (lt_eq_lt_dec (snd (er a)) ss) as [[Hlt|Heq]|Hgt].
  - replace (snd (er a) <? ss) with true by lia. replace (snd (er a) =? ss) with false by lia.
    replace (ss <? snd (er a)) with false by lia. cbn [app]. f_equal. exact IH.
  - replace (snd (er a) <? ss) with false by lia. replace (snd (er a) =? ss) with true by lia.
    replace (ss <? snd (er a)) with false by lia.
    assert (E1 : filter (ctag_lt ss) l = [])
      by (apply filter_nil; intros x Hx; pose proof (Ha' x Hx); unfold ctag_lt, tag_lt; lia).
    rewrite E1 in IH |- *. cbn [app] in *. f_equal. exact IH.
  - replace (snd (er a) <? ss) with false by lia. replace (snd (er a) =? ss) with false by lia.
    replace (ss <? snd (er a)) with true by lia.
    assert (E1 : filter (ctag_lt ss) l = [])
      by (apply filter_nil; intros x Hx; pose proof (Ha' x Hx); unfold ctag_lt, tag_lt; lia).
    assert (E2 : filter (ctag_eq ss) l = [])
      by (apply filter_nil; intros x Hx; pose proof (Ha' x Hx); unfold ctag_eq, tag_eq; lia).
    rewrite E1, E2 in IH |- *. cbn [app] in *. f_equal. exact IH.
Qed.

Section ClosureAppS.
  Variable A : nfa.
  Variable h : hay.

  Lemma cclosure_list_app f p a b vs :
    cclosure_list A h f p (a ++ b) vs =
    match cclosure_list A h f p a vs with
    | OutOfFuel => OutOfFuel
    | Done (T1, v1) => match cclosure_list A h f p b v1 with
                       | OutOfFuel => OutOfFuel
                       | Done (T2, v2) => Done (T1 ++ T2, v2)
                       end
    end.
  Proof.
    revert vs. induction a as [|[[q s] sl] a IH]; intros vs; cbn [app cclosure_list].
    - destruct (cclosure_list A h f p b vs) as [|[T2 v2]]; reflexivity.
    - destruct (cclosure A h f p q s sl vs) as [|[T0 v0]]; [reflexivity|]. rewrite IH.
      destruct (cclosure_list A h f p a v0) as [|[T1 v1]]; [reflexivity|].
      destruct (cclosure_list A h f p b v1) as [|[T2 v2]]; [reflexivity|]. now rewrite app_assoc.
  Qed.

  Lemma cclosure_done f p q s sl vs T0 vs' :
    closure A h f p q s vs = Done (T0, vs') -> exists T, cclosure A h f p q s sl vs = Done (T, vs') /\ map er T = T0.
  Proof.
    intros H. rewrite <- (cclosure_erase A h f p q s sl vs) in H.
    destruct (cclosure A h f p q s sl vs) as [|[T v]]; [discriminate|]. cbn [er_out] in H. inversion H; subst. eauto.
  Qed.

  Lemma cclosure_list_done f p ts vs T0 vs' :
    closure_list A h f p (map er ts) vs = Done (T0, vs') ->
    exists T, cclosure_list A h f p ts vs = Done (T, vs') /\ map er T = T0.
  Proof.
    intros H. rewrite <- (cclosure_list_erase A h f p ts vs) in H.
    destruct (cclosure_list A h f p ts vs) as [|[T v]]; [discriminate|]. cbn [er_out] in H. inversion H; subst. eauto.
  Qed.

  Lemma cclosure_erased f p q s sl vs T vs' :
    cclosure A h f p q s sl vs = Done (T, vs') -> closure A h f p q s vs = Done (map er T, vs').
  Proof. intros H. rewrite <- (cclosure_erase A h f p q s sl vs), H. reflexivity. Qed.

  Lemma cclosure_list_erased f p ts vs T vs' :
    cclosure_list A h f p ts vs = Done (T, vs') -> closure_list A h f p (map er ts) vs = Done (map er T, vs').
  Proof. intros H. rewrite <- (cclosure_list_erase A h f p ts vs), H. reflexivity. Qed.

  Lemma cclosure_total p q s sl vs : exists T vs', cclosure A h (cfuel A) p q s sl vs = Done (T, vs').
  Proof.
    destruct (closure_total A h p q s vs) as [T0 [vs' E]].
    destruct (cclosure_done _ _ _ _ sl _ _ _ E) as [T [E1 _]]. eauto.
  Qed.

  Lemma cclosure_list_total p ts vs : exists T vs', cclosure_list A h (cfuel A) p ts vs = Done (T, vs').
  Proof.
    destruct (closure_list_total A h p (map er ts) vs) as [T0 [vs' E]].
    destruct (cclosure_list_done _ _ _ _ _ _ E) as [T [E1 _]]. eauto.
  Qed.

  Lemma cclosure_tags f p q s sl vs T vs' :
    cclosure A h f p q s sl vs = Done (T, vs') -> forall t, In t T -> cs t = s.
  Proof.
    intros H t Ht. apply cclosure_erased in H.
    apply (closure_tags A h _ _ _ _ _ _ _ H (er t)). now apply in_map.
  Qed.

  Lemma cclosure_list_tags f p ts vs T vs' :
    cclosure_list A h f p ts vs = Done (T, vs') -> forall t, In t T -> exists r, In r ts /\ cs r = cs t.
  Proof.
    intros H t Ht. apply cclosure_list_erased in H.
    destruct (closure_list_tags A h _ _ _ _ _ _ H (er t) (in_map er _ _ Ht)) as [r0 [Hr0 Hs]].
    apply in_map_iff in Hr0. destruct Hr0 as [r [<- Hr]]. exists r. split; [exact Hr|exact Hs].
  Qed.

  (* the byte successors of a thread, with its vector *)
  Definition clst (p : nat) (t : cthread) : list (nat * slots) :=
    match nth_error (states A) (cq t) with Some st => withsl (csl t) (lstep h st p) | None => [] end.

  Lemma clst_ctargets p b t : nth_error h p = Some b -> map cfg (ctargets A b t) = clst p t.
  Proof.
    intros Hb. unfold ctargets, clst, lstep, withsl. rewrite Hb. destruct (nth_error (states A) (cq t)); [|reflexivity].
    rewrite map_map. reflexivity.
  Qed.

  Lemma ctargets_tag b t r : In r (ctargets A b t) -> cs r = cs t.
  Proof.
    unfold ctargets. destruct (nth_error (states A) (cq t)); [|intros []].
    intros H. apply in_map_iff in H. destruct H as [x [<- _]]. reflexivity.
  Qed.

  Lemma filter_ctargets ss b t :
    filter (ctag_eq ss) (ctargets A b t) = if ctag_eq ss t then ctargets A b t else [].
  Proof.
    destruct (ctag_eq ss t) eqn:E.
    - apply filter_all. intros r Hr. unfold ctag_eq, tag_eq, er in *. pose proof (ctargets_tag b t r Hr) as Ht.
      unfold cs in Ht. now rewrite Ht.
    - apply filter_nil. intros r Hr. unfold ctag_eq, tag_eq, er in *. pose proof (ctargets_tag b t r Hr) as Ht.
      unfold cs in Ht. now rewrite Ht.
  Qed.

  Lemma cfg_filter_ctargets ss p b q0 : nth_error h p = Some b ->
    map cfg (filter (ctag_eq ss) (flat_map (ctargets A b) q0)) = flat_map (clst p) (filter (ctag_eq ss) q0).
  Proof.
    intros Hb. induction q0 as [|t q0 IH]; [reflexivity|]. cbn [flat_map filter].
    rewrite filter_app, map_app, filter_ctargets. destruct (ctag_eq ss t); cbn [flat_map map app].
    - f_equal; [apply (clst_ctargets p b t Hb)|exact IH].
    - exact IH.
  Qed.

  Lemma cfg_ctargets p b q0 : nth_error h p = Some b ->
    map cfg (flat_map (ctargets A b) q0) = flat_map (clst p) q0.
  Proof.
    intros Hb. induction q0 as [|t q0 IH]; [reflexivity|]. cbn [flat_map]. rewrite map_app. f_equal; [|exact IH].
    apply (clst_ctargets p b t Hb).
  Qed.
End ClosureAppS.

Section DiveFacts.
  Variable A : nfa.
  Variable h : hay.

  Lemma DiveS_nomatch p T W r W2 : (forall t, In t T -> is_match_thread A (er t) = false) ->
    DiveS A h p T W r W2 -> LLEs A h (flat_map (clst A h p) T) (S p) W r W2.
  Proof.
    intros Hn HD. induction HD as [p W|p t T W Hm|p t T W st e W1 Hm Hst HL|p t T W st W1 r W2 Hm Hst HL HD IH]; cbn [flat_map].
    - constructor.
    - rewrite (Hn t (or_introl eq_refl)) in Hm. discriminate.
    - unfold clst at 1. rewrite Hst. now apply LLEs_app_hit.
    - unfold clst at 1. rewrite Hst. eapply LLEs_app; [exact HL|]. apply IH. intros t' Ht'. apply Hn. now right.
  Qed.

  Lemma DiveS_split p T0 tm R W r W2 : (forall t, In t T0 -> is_match_thread A (er t) = false) ->
    is_match_thread A (er tm) = true -> DiveS A h p (T0 ++ tm :: R) W r W2 ->
    (exists e, r = Some e /\ DiveS A h p T0 W (Some e) W2) \/
    (r = Some (p, csl tm) /\ exists W1, DiveS A h p T0 W None W1).
  Proof.
    intros Hn Hm. revert W. induction T0 as [|t T0 IH]; intros W HD; cbn [app] in HD.
    - inversion HD; subst; try congruence. right. split; [reflexivity|]. eexists. constructor.
    - assert (Ht : is_match_thread A (er t) = false) by (apply Hn; now left).
      inversion HD; subst; try congruence.
      + left. exists e. split; [reflexivity|]. eapply DiveS_hit; eauto.
      + match goal with HX : DiveS _ _ p (T0 ++ tm :: R) _ _ _ |- _ =>
          destruct (IH (fun t' Ht' => Hn t' (or_intror Ht')) _ HX) as [[e [-> HD']]|[-> [W1' HD']]] end.
        * left. exists e. split; [reflexivity|]. eapply DiveS_miss; eauto.
        * right. split; [reflexivity|]. exists W1'. eapply DiveS_miss; eauto.
  Qed.

  Lemma DiveS_end p T W r W2 : nth_error h p = None -> (forall t, In t T -> is_match_thread A (er t) = false) ->
    DiveS A h p T W r W2 -> r = None.
  Proof.
    intros Hb Hn HD. induction HD as [p W|p t T W Hm|p t T W st e W1 Hm Hst HL|p t T W st W1 r W2 Hm Hst HL HD IH].
    - reflexivity.
    - rewrite (Hn t (or_introl eq_refl)) in Hm. discriminate.
    - unfold lstep in HL. rewrite Hb in HL. inversion HL.
    - apply IH; [exact Hb|]. intros t' Ht'. apply Hn. now right.
  Qed.

  Lemma DiveS_some_nonempty p T W e W2 : DiveS A h p T W (Some e) W2 -> T <> [].
  Proof. intros HD E. subst. inversion HD. Qed.

  Lemma ccut_spec q : forall q0 m, ccut A q = (q0, m) ->
    (forall t, In t q0 -> is_match_thread A (er t) = false) /\
    match m with
    | Some tm => is_match_thread A (er tm) = true /\ exists rest, q = q0 ++ tm :: rest
    | None => q = q0
    end.
  Proof.
    induction q as [|t q IH]; intros q0 m H; cbn [ccut] in H.
    - inversion H; subst. split; [intros t []|reflexivity].
    - destruct (is_match_thread A (er t)) eqn:Et.
      + inversion H; subst. split; [intros t0 []|]. split; [exact Et|]. exists q. reflexivity.
      + destruct (ccut A q) as [a m0]. inversion H; subst.
        destruct (IH a m eq_refl) as [H1 H2]. split.
        * intros t0 [<-|Ht0]; [exact Et|apply H1, Ht0].
        * destruct m as [tm|].
          -- destruct H2 as [H2 [rest ->]]. split; [exact H2|]. exists rest. reflexivity.
          -- now subst.
  Qed.
End DiveFacts.

(* ------------------------------------------------------------------ the unanchored loop against
   the search from the leftmost matching start ss, vector included *)
Section MainS.
  Variable A : nfa.
  Variable h : hay.
  Hypothesis Hwf : wf_nfa A = true.
  Variables at_ ss e' : nat.
  Variable sl' : slots.
  Notation st0 := (start_anch A).
  Hypothesis Hdead : forall s, at_ <= s -> s < ss -> dead A h st0 s.
  Hypothesis Hss : ss <= length h.
  Hypothesis Href : exists Wr, LEs A h st0 ss (init_slots A) (repeat [] (S (length h) - ss)) (Some (e', sl')) Wr.

  Definition cQs (q : list cthread) : list cthread := filter (ctag_eq ss) q.

  (* the reference answer (e', sl') is the first success of the dives from the threads of
     start ss, or (if they all fail) the match already recorded *)
  Definition JS (p : nat) (T : list cthread) (best : cbest) : Prop :=
    exists W' r W'', length W' = length h - p /\ deadW A h (S p) W' /\ DiveS A h p T W' r W'' /\
                     (r = Some (e', sl') \/ (r = None /\ best = Some (ss, e', sl'))).

  Lemma JS_step p b q0 best nq vs' :
    sinv A h at_ (S p) (S p) p (map er q0) (er_best best) -> nth_error h p = Some b ->
    cstep_all A h (S p) b q0 = Done (nq, vs') ->
    (forall t, In t q0 -> is_match_thread A (er t) = false) ->
    JS p (cQs q0) best -> JS (S p) (cQs nq) best.
  Proof.
    intros I Hb ES Hnm [W' [r [W'' [Hl [Hd [HD Hr]]]]]].
    assert (Hp : p < length h) by (eapply nth_error_Some_lt'; eauto).
    destruct W' as [|w Wt]; [cbn [length] in Hl; lia|].
    pose proof (targets_sorted A b _ (i_sorted _ _ _ _ _ _ _ _ I)) as Hso.
    rewrite <- flat_ctargets_erase in Hso.
    unfold cstep_all in ES. rewrite (ctsorted_split ss _ Hso), cclosure_list_app in ES.
    set (ts := flat_map (ctargets A b) q0) in *.
    destruct (cclosure_list A h (cfuel A) (S p) (filter (ctag_lt ss) ts) []) as [|[Tlt vlt]] eqn:E1; [discriminate|].
    rewrite cclosure_list_app in ES.
    destruct (cclosure_list A h (cfuel A) (S p) (filter (ctag_eq ss) ts) vlt) as [|[Teq veq]] eqn:E2; [discriminate|].
    destruct (cclosure_list A h (cfuel A) (S p) (filter (ctag_gt ss) ts) veq) as [|[Tgt vgt]] eqn:E3; [discriminate|].
    inversion ES; subst nq vs'. clear ES.
    assert (HQ : cQs (Tlt ++ Teq ++ Tgt) = Teq).
    { unfold cQs. rewrite !filter_app.
      rewrite (filter_nil (ctag_eq ss) Tlt), (filter_nil (ctag_eq ss) Tgt), (filter_all (ctag_eq ss) Teq).
      - now rewrite app_nil_r.
      - intros t Ht. destruct (cclosure_list_tags A h _ _ _ _ _ _ E2 t Ht) as [r0 [Hr0 Hs]].
        apply filter_In in Hr0. destruct Hr0 as [_ Hg]. unfold ctag_eq, tag_eq, er, cs in *. lia.
      - intros t Ht. destruct (cclosure_list_tags A h _ _ _ _ _ _ E3 t Ht) as [r0 [Hr0 Hs]].
        apply filter_In in Hr0. destruct Hr0 as [_ Hg]. unfold ctag_gt, ctag_eq, tag_gt, tag_eq, er, cs in *. lia.
      - intros t Ht. destruct (cclosure_list_tags A h _ _ _ _ _ _ E1 t Ht) as [r0 [Hr0 Hs]].
        apply filter_In in Hr0. destruct Hr0 as [_ Hg]. unfold ctag_lt, ctag_eq, tag_lt, tag_eq, er, cs in *. lia. }
    rewrite HQ.
    (* what the earlier starts have visited has no accepting path *)
    assert (Hvlt : forall x, In x vlt -> dead A h x (S p)).
    { intros x Hx. pose proof (cclosure_list_erased A h _ _ _ _ _ _ E1) as E1e.
      destruct (p_sound _ _ _ _ _ _ _ (closure_list_spec A h _ _ _ _ _ _ E1e) x Hx) as [[]|[r0 [Hr0 He]]].
      apply in_map_iff in Hr0. destruct Hr0 as [rc [<- Hrc]].
      apply filter_In in Hrc. destruct Hrc as [Hrc Hlt]. unfold ctag_lt, tag_lt in Hlt.
      assert (Hr0 : In (er rc) (flat_map (targets A b) (map er q0))).
      { rewrite <- flat_ctargets_erase. now apply in_map. }
      apply in_flat_map in Hr0. destruct Hr0 as [[y s] [Hy Hr0]].
      apply in_targets in Hr0. destruct Hr0 as [st [Hst [Hin Hs]]]. cbn [fst snd] in *.
      destruct (i_sound _ _ _ _ _ _ _ _ I y s Hy) as [H1 [H2 [H3 H4]]].
      apply (dead_reach A h st0 s x (S p)); [apply Hdead; lia|].
      eapply (reach_byte_ereach A h Hwf); [exact H4| |exact He]. exists st, b. auto. }
    (* the dives of the kept threads of start ss, as one search at the next position *)
    assert (HL1 : LLEs A h (map cfg (filter (ctag_eq ss) ts)) (S p) (w :: Wt) r W'').
    { unfold ts. rewrite (cfg_filter_ctargets A h ss p b q0 Hb).
      apply DiveS_nomatch; [|exact HD]. intros t Ht. apply Hnm. apply filter_In in Ht. apply Ht. }
    assert (HR : Rd A h (S p) (w :: Wt) (vlt :: Wt)).
    { apply (Rd_cons A h Hwf); [|apply Rd_refl]. intros x.
      destruct (Pike.vmem x w) eqn:Ew; destruct (Pike.vmem x vlt) eqn:Ev; auto; right.
      - apply vmem_In in Ew. specialize (Hd 0 x Ew). now rewrite Nat.add_0_r in Hd.
      - apply vmem_In in Ev. apply Hvlt, Ev. }
    destruct (LLEs_total A h (map cfg (filter (ctag_eq ss) ts)) (S p) (vlt :: Wt)) as [r2 [W2 [HL2 _]]].
    destruct (proj2 (LEs_LLEs_Rd A h Hwf) _ _ _ _ _ HL1 _ _ _ HR HL2) as [<- _].
    destruct (KS_list A h _ _ _ _ _ _ _ _ _ E2 HL2) as [W3 [HD3 _]].
    exists Wt, r, W3. split; [cbn [length] in Hl; lia|]. split; [|split; [exact HD3|exact Hr]].
    intros i x Hx. replace (S (S p) + i) with (S p + S i) by lia. apply (Hd (S i) x). exact Hx.
  Qed.

  Lemma JS_cut p queue1 best q0 m :
    sinv A h at_ (S p) p p (map er queue1) (er_best best) -> ccut A queue1 = (q0, m) ->
    JS p (cQs queue1) best -> JS p (cQs q0) (cupd_best best m p).
  Proof.
    intros I EC [W' [r [W'' [Hl [Hd [HD Hr]]]]]].
    destruct (ccut_spec A queue1 q0 m EC) as [Hnm Hm].
    destruct m as [tm|]; [|subst q0; exists W', r, W''; cbn [cupd_best]; auto].
    destruct Hm as [Htm [rest Hq]].
    assert (Hin : In (er tm) (map er queue1)) by (apply in_map; rewrite Hq; apply in_or_app; right; now left).
    pose proof (i_sorted _ _ _ _ _ _ _ _ I) as Hso. rewrite Hq, map_app in Hso. cbn [map] in Hso. apply tsorted_app in Hso.
    destruct Hso as [So1 [[So2 So3] So4]].
    destruct tm as [[xm sm] slm]. unfold er in Hin, So2, So4, Htm. cbn [fst] in Hin, So2, So4, Htm.
    destruct (i_sound _ _ _ _ _ _ _ _ I xm sm Hin) as [M1 [M2 [M3 M4]]]. cbn [snd] in *.
    assert (Hge : ss <= sm).
    { destruct (le_lt_dec ss sm) as [Hle|Hlt]; [exact Hle|]. exfalso. apply (Hdead sm M1 Hlt p).
      exists xm. split; [exact M4|]. apply is_match_thread_iff in Htm. exact Htm. }
    assert (Hnm0 : forall t, In t (cQs q0) -> is_match_thread A (er t) = false).
    { intros t Ht. apply Hnm. apply filter_In in Ht. apply Ht. }
    destruct (Nat.eq_dec sm ss) as [->|Hne].
    - assert (HQ : cQs queue1 = cQs q0 ++ (xm, ss, slm) :: cQs rest).
      { rewrite Hq. unfold cQs. rewrite filter_app. cbn [filter]. unfold ctag_eq at 2, tag_eq, er. cbn [fst snd].
        rewrite Nat.eqb_refl. reflexivity. }
      rewrite HQ in HD.
      assert (Hbest : cupd_best best (Some (xm, ss, slm)) p = Some (ss, p, slm)).
      { pose proof (better_true A h Hwf at_ (er_best best) (xm, ss) p _ I Hin) as Hbt. cbn [snd] in Hbt.
        cbn [cupd_best cs csl fst snd]. now rewrite Hbt. }
      destruct (DiveS_split A h p (cQs q0) (xm, ss, slm) (cQs rest) W' r W'' Hnm0 Htm HD) as [[e [-> HD0]]|[-> [W1 HD0]]].
      + exists W', (Some e), W''. split; [exact Hl|]. split; [exact Hd|]. split; [exact HD0|].
        left. destruct Hr as [Hr|[Hr _]]; [exact Hr|discriminate].
      + exists W', None, W1. split; [exact Hl|]. split; [exact Hd|]. split; [exact HD0|].
        right. split; [reflexivity|]. destruct Hr as [Hr|[Hr _]]; [|discriminate].
        cbn [csl snd] in Hr. inversion Hr; subst. exact Hbest.
    - assert (HQ : cQs queue1 = cQs q0).
      { rewrite Hq. unfold cQs. rewrite filter_app. cbn [filter]. unfold ctag_eq at 2, tag_eq, er. cbn [fst snd].
        replace (sm =? ss) with false by lia.
        rewrite (filter_nil (ctag_eq ss) rest); [apply app_nil_r|].
        intros t Ht. pose proof (So2 (er t) (in_map er _ _ Ht)). unfold ctag_eq, tag_eq. cbn [snd] in *. lia. }
      rewrite HQ in HD. exists W', r, W''. split; [exact Hl|]. split; [exact Hd|]. split; [exact HD|].
      destruct Hr as [Hr|[Hr Hb]]; [now left|right]. split; [exact Hr|]. subst best.
      cbn [cupd_best cs csl er_best option_map fst snd better].
      replace (sm <? ss) with false by lia. replace (ss <? sm) with true by lia. reflexivity.
  Qed.

  Lemma cQs_inject_other p (queue T : list cthread) : (forall t, In t T -> cs t = p) -> p <> ss -> cQs (queue ++ T) = cQs queue.
  Proof.
    intros Ht Hne. unfold cQs. rewrite filter_app, (filter_nil (ctag_eq ss) T); [apply app_nil_r|].
    intros t Hin. unfold ctag_eq, tag_eq, er. pose proof (Ht t Hin) as E. unfold cs in E. rewrite E. lia.
  Qed.

  Lemma JS_start (queue T : list cthread) vs' best :
    cclosure A h (cfuel A) ss st0 ss (init_slots A) [] = Done (T, vs') ->
    (forall t, In t queue -> cs t < ss) -> JS ss (cQs (queue ++ T)) best.
  Proof.
    intros ET Hq.
    assert (HQ : cQs (queue ++ T) = T).
    { unfold cQs. rewrite filter_app, (filter_nil (ctag_eq ss) queue), (filter_all (ctag_eq ss) T); [reflexivity| |].
      - intros t Ht. unfold ctag_eq, tag_eq, er. pose proof (cclosure_tags A h _ _ _ _ _ _ _ _ ET t Ht) as E.
        unfold cs in E. rewrite E. apply Nat.eqb_refl.
      - intros t Ht. unfold ctag_eq, tag_eq, er. pose proof (Hq t Ht) as E. unfold cs in E. lia. }
    rewrite HQ. destruct Href as [Wr HLE].
    replace (S (length h) - ss) with (S (length h - ss)) in HLE by lia. cbn [repeat] in HLE.
    destruct (KS_closure A h (cfuel A) ss st0 ss (init_slots A) [] T vs' ET _ _ _ HLE) as [W3 [HD _]].
    exists (repeat [] (length h - ss)), (Some (e', sl')), W3. split; [apply repeat_length|]. split; [|split; [exact HD|now left]].
    intros i x Hx. destruct (inW_repeat _ _ _ Hx).
  Qed.

  Lemma cinject_eq p queue best T vs' :
    cclosure A h (cfuel A) p st0 p (init_slots A) [] = Done (T, vs') ->
    cinject A h false at_ p queue best = Done (if is_none best then queue ++ T else queue).
  Proof.
    intros ET. unfold cinject. cbn [negb orb]. rewrite andb_true_r, ET. destruct (is_none best); reflexivity.
  Qed.

  Lemma csu_end : forall k p queue best e sl,
    p + k = length h -> at_ <= p -> sinv A h at_ p p p (map er queue) (er_best best) ->
    (ss < p -> JS p (cQs queue) best) ->
    csu_loop A h false at_ k p queue best = Done (Some (ss, e, sl)) -> e = e' /\ sl = sl'.
  Proof.
    induction k as [|k IH]; intros p queue best e sl Hk Hp I HJ H; cbn [csu_loop] in H;
      destruct (cclosure_total A h p st0 p (init_slots A) []) as [T [vs' ET]];
      rewrite (cinject_eq p queue best T vs' ET) in H;
      pose proof (cclosure_erased A h _ _ _ _ _ _ _ _ ET) as ETe;
      pose proof (su_inject A h Hwf at_ p (map er queue) (er_best best) (map er T) vs' I Hp ETe) as I1;
      (assert (I1' : sinv A h at_ (S p) p p (map er (if is_none best then queue ++ T else queue)) (er_best best))
         by (rewrite is_none_erase in I1; destruct (is_none best); [rewrite map_app|]; exact I1));
      destruct (ccut A (if is_none best then queue ++ T else queue)) as [q0 m] eqn:EC;
      pose proof (ccut_erase A (if is_none best then queue ++ T else queue)) as ECe;
      rewrite EC in ECe; cbn [fst snd] in ECe;
      pose proof (su_cut A h Hwf at_ p _ (er_best best) (map er q0) (option_map er m) I1' ECe) as I2;
      rewrite <- cupd_best_erase in I2;
      destruct (ccut_spec A _ q0 m EC) as [Hnm _].
    all: assert (Hnm0 : forall t, In t (cQs q0) -> is_match_thread A (er t) = false)
           by (intros t Ht; apply Hnm; apply filter_In in Ht; apply Ht).
    all: assert (HJ2 : ss <= p -> JS p (cQs q0) (cupd_best best m p)).
    1,3: intros Hle; apply (JS_cut p _ best q0 m I1' EC);
         destruct (Nat.eq_dec p ss) as [Hpe|Hne];
         [ subst p; destruct best as [[[bs be] bsl]|];
           [ exfalso; destruct (i_best _ _ _ _ _ _ _ _ I bs be eq_refl) as [B1 [B2 [B3 [B4 _]]]];
             apply (Hdead bs B1 ltac:(lia) be B4)
           | cbn [is_none]; apply (JS_start queue T vs' None ET);
             intros [[x s] sl0] Hin;
             destruct (i_sound _ _ _ _ _ _ _ _ I x s (in_map er _ _ Hin)) as [_ [Hlt _]]; exact Hlt ]
         | destruct (is_none best);
           [ rewrite (cQs_inject_other p queue T (cclosure_tags A h _ _ _ _ _ _ _ _ ET) Hne) | ];
           apply HJ; lia ].
    - inversion H as [Hb1]. clear H.
      destruct (HJ2 ltac:(lia)) as [W' [r [W'' [_ [_ [HD [Hr|[_ Hr]]]]]]]].
      + subst r. assert (Hnone : nth_error h p = None) by (apply nth_error_None; lia).
        pose proof (DiveS_end A h p _ _ _ _ Hnone Hnm0 HD). discriminate.
      + rewrite Hb1 in Hr. inversion Hr. auto.
    - destruct (nth_error h p) as [b|] eqn:Hb.
      2:{ apply nth_error_None in Hb. lia. }
      destruct (cstep_all A h (S p) b q0) as [|[nq vs2]] eqn:ES; [discriminate|].
      pose proof (cstep_all_erase A h (S p) b q0) as ESe. rewrite ES in ESe. cbn [er_out] in ESe. symmetry in ESe.
      pose proof (su_step A h Hwf at_ p b (map er q0) _ (map er nq) vs2 I2 ESe Hb) as I3.
      destruct (no_candidate (er_best (cupd_best best m p)) (map er nq)) eqn:Enc.
      + inversion H as [Hb1]. clear H.
        assert (Hb1e : er_best (cupd_best best m p) = Some (ss, e)) by (rewrite Hb1; reflexivity).
        destruct (i_best _ _ _ _ _ _ _ _ I3 ss e Hb1e) as [_ [B2 [B3 _]]].
        destruct (JS_step p b q0 _ nq vs2 I2 Hb ES Hnm (HJ2 ltac:(lia))) as [W' [r [W'' [_ [_ [HD [Hr|[_ Hr]]]]]]]].
        * subst r. exfalso. pose proof (DiveS_some_nonempty A h _ _ _ _ _ HD) as Hne.
          destruct (cQs nq) as [|t Q] eqn:EQ; [congruence|].
          assert (Ht : In t (cQs nq)) by (rewrite EQ; now left).
          apply filter_In in Ht. destruct Ht as [Ht Hs]. unfold ctag_eq, tag_eq in Hs.
          unfold no_candidate in Enc. rewrite Hb1 in Enc. cbn [er_best option_map fst] in Enc. apply negb_true_iff in Enc.
          apply Bool.not_true_iff_false in Enc. apply Enc. apply existsb_exists. exists (er t).
          split; [now apply in_map|]. lia.
        * rewrite Hb1 in Hr. inversion Hr. auto.
      + apply (IH (S p) nq (cupd_best best m p) e sl); [lia|lia|exact I3| |exact H].
        intros Hlt. apply (JS_step p b q0 _ nq vs2 I2 Hb ES Hnm). apply HJ2. lia.
  Qed.
End MainS.

(* ------------------------------------------------------------------ the captures theorem *)
Section FinalS.
  Variable A : nfa.
  Variable h : hay.
  Hypothesis Hwf : wf_nfa A = true.
  Notation st0 := (start_anch A).

  (* nfa/pikevm.go searchUnanchoredWithCapturesAt = the reference search: start, end and the
     slot vector of the first accepting path in priority order (C03 / C14 for the PikeVM) *)
  Theorem pikecaps_loop_is_ref at_ : at_ <= length h ->
    csu_loop A h false at_ (length h - at_) at_ [] None = find_at A h at_.
  Proof.
    intros Hle.
    pose proof (erase_run A h false at_ (length h - at_) at_ [] None) as HE. cbn [map er_best option_map] in HE.
    pose proof (su_total A h at_ (length h - at_) at_ [] None) as HT.
    destruct (csu_loop A h false at_ (length h - at_) at_ [] None) as [|cb] eqn:EC;
      [cbn [er_res] in HE; congruence|]. cbn [er_res] in HE. symmetry in HE.
    pose proof (su_spec A h Hwf at_ (length h - at_) at_ [] None (er_best cb) ltac:(lia) (le_n _)
                  (sinv_init A h Hwf at_) HE) as HR.
    destruct (find_at A h at_) as [|[[[s' e'] sl']|]] eqn:ER.
    - exfalso. now apply (find_at_total A h Hwf at_).
    - destruct (find_at_some A h Hwf at_ s' e' sl' ER) as [R1 [R2 [R3 [R4 R5]]]].
      destruct cb as [[[bs be] bsl]|]; cbn [er_best option_map fst result_ok] in HR.
      2:{ exfalso. apply (HR s' e' R1 ltac:(lia) R4). }
      destruct HR as [B1 [B2 [B3 [B4 B5]]]].
      assert (bs = s').
      { destruct (lt_eq_lt_dec bs s') as [[Hlt|Heq]|Hgt]; [|exact Heq|].
        - exfalso. apply (R5 bs (conj B1 Hlt) be B4).
        - exfalso. apply (B5 s' e' R1 Hgt R4). }
      subst bs.
      assert (Href : exists Wr, LEs A h st0 s' (init_slots A) (repeat [] (S (length h) - s')) (Some (e', sl')) Wr).
      { unfold find_at in ER. destruct (length h <? at_); [discriminate|].
        apply (search_with_LEs A h Hwf (fuel_for A h) s' _ ltac:(lia)). eapply find_loop_hit; eauto. }
      destruct (csu_end A h Hwf at_ s' e' sl' (fun s0 H1 H2 e0 => R5 s0 (conj H1 H2) e0) ltac:(lia) Href
                  (length h - at_) at_ [] None be bsl ltac:(lia) (le_n _) (sinv_init A h Hwf at_)) as [-> ->];
        [intros Hlt; lia|exact EC|reflexivity].
    - destruct cb as [[[bs be] bsl]|]; [|reflexivity]. exfalso.
      cbn [er_best option_map fst result_ok] in HR. destruct HR as [B1 [B2 [B3 [B4 B5]]]].
      apply (find_at_none A h Hwf at_ ER bs ltac:(lia) be B4).
  Qed.

  (* SearchWithCapturesAt, literally, whenever the end-of-input shortcut is not taken *)
  Theorem pikecaps_search_is_ref_raw at_ : ~ (at_ = length h /\ ncaps A <= 1) ->
    pikecaps_search_at A h at_ = find_at A h at_.
  Proof.
    intros Hn. unfold pikecaps_search_at, pikecaps_search_at_g.
    destruct (Nat.ltb_spec (length h) at_) as [Hlt|Hle].
    - unfold find_at. apply Nat.ltb_lt in Hlt. now rewrite Hlt.
    - replace ((at_ =? length h) && (ncaps A <=? 1)) with false by lia.
      now apply pikecaps_loop_is_ref.
  Qed.

  Lemma report_small s e sl1 sl2 : ncaps A <= 1 -> length sl1 = 2 * ncaps A -> length sl2 = 2 * ncaps A ->
    report A s e sl1 = report A s e sl2.
  Proof.
    intros Hc H1 H2. unfold report. destruct (Nat.eqb_spec (ncaps A) 0) as [E|E]; [reflexivity|].
    assert (E1 : ncaps A = 1) by lia. rewrite E1 in H1, H2.
    destruct sl1 as [|a1 [|b1 [|c1 t1]]]; try discriminate. destruct sl2 as [|a2 [|b2 [|c2 t2]]]; try discriminate.
    cbn [pairs_norm]. destruct ((0 <=? a1)%Z && (0 <=? b1)%Z); destruct ((0 <=? a2)%Z && (0 <=? b2)%Z); reflexivity.
  Qed.

  (* SearchWithCapturesAt reports exactly the reference's groups: group 0 = the span, group i =
     slots 2i, 2i+1 of the first accepting path in priority order *)
  Theorem pikecaps_search_is_ref at_ :
    report_res A (pikecaps_search_at A h at_) = report_res A (find_at A h at_).
  Proof.
    destruct (Nat.eq_dec at_ (length h)) as [He|He]; [destruct (le_lt_dec (ncaps A) 1) as [Hc|Hc]|].
    2,3: rewrite pikecaps_search_is_ref_raw by lia; reflexivity.
    unfold pikecaps_search_at, pikecaps_search_at_g.
    replace (length h <? at_) with false by lia. replace ((at_ =? length h) && (ncaps A <=? 1)) with true by lia.
    destruct (matches_empty_at A h at_) as [|b] eqn:EM; [exfalso; now apply (matches_empty_total A h Hwf at_)|].
    pose proof (matches_empty_path A h Hwf at_ b EM) as Hb.
    destruct (find_at A h at_) as [|[[[s' e'] sl']|]] eqn:ER.
    - exfalso. now apply (find_at_total A h Hwf at_).
    - destruct (find_at_some A h Hwf at_ s' e' sl' ER) as [R1 [R2 [R3 [R4 R5]]]].
      assert (s' = at_) by lia. assert (e' = at_) by lia. subst s' e'.
      destruct b; [|assert (false = true) by (apply Hb; exact R4); discriminate].
      cbn [report_res]. do 2 f_equal.
      destruct (caps_wf A h at_ at_ at_ sl' ER ltac:(lia)) as [Hlen _].
      unfold caps_of in Hlen. rewrite !set_nth_length' in Hlen.
      apply report_small; [exact Hc| |exact Hlen]. unfold init_slots. apply repeat_length.
    - destruct b; [|reflexivity]. exfalso.
      apply (find_at_none A h Hwf at_ ER at_ ltac:(lia) at_). now apply Hb.
  Qed.

  (* erasing the vectors from the result gives the result of Pike.v's model *)
  Theorem pikecaps_erase at_ : er_res (pikecaps_search_at A h at_) = pike_search_at A h at_.
  Proof.
    rewrite (pike_search_is_ref A h Hwf at_).
    pose proof (pikecaps_search_is_ref at_) as HR.
    destruct (pikecaps_search_at A h at_) as [|[[[s e] sl]|]] eqn:EP;
      destruct (find_at A h at_) as [|[[[s' e'] sl']|]] eqn:ER; cbn [report_res er_res er_best option_map fst span_of] in *;
      try discriminate; try reflexivity.
    destruct (Nat.eq_dec at_ (length h)) as [He|He]; [destruct (le_lt_dec (ncaps A) 1) as [Hc|Hc]|].
    2,3: rewrite pikecaps_search_is_ref_raw in EP by lia; rewrite ER in EP; inversion EP; reflexivity.
    destruct (find_at_some A h Hwf at_ s' e' sl' ER) as [R1 [R2 [R3 [R4 R5]]]].
    unfold pikecaps_search_at, pikecaps_search_at_g in EP.
    replace (length h <? at_) with false in EP by lia. replace ((at_ =? length h) && (ncaps A <=? 1)) with true in EP by lia.
    destruct (matches_empty_at A h at_) as [|[|]]; inversion EP; subst. do 3 f_equal; lia.
  Qed.
End FinalS.

(* ------------------------------------------------------------------ the anchored loop
   (searchAtWithCaptures; SearchWithCapturesInSpan with spanEnd = len(haystack)): one start *)
Section AnchoredS.
  Variable A : nfa.
  Variable h : hay.
  Hypothesis Hwf : wf_nfa A = true.
  Notation st0 := (start_anch A).

  Definition orelseS (r l : option (nat * slots)) : option (nat * slots) :=
    match r with Some e => Some e | None => l end.

  Definition JAS (ro : option (nat * slots)) (p : nat) (queue : list cthread) (last : option (nat * slots)) : Prop :=
    (forall l sl, last = Some (l, sl) -> l < p) /\
    exists r W'', DiveS A h p queue (repeat [] (length h - p)) r W'' /\ orelseS r last = ro.

  Lemma csa_end ro : forall k p queue last res,
    p + k = length h -> JAS ro p queue last -> csa_loop A h k p queue last = Done res -> res = ro.
  Proof.
    induction k as [|k IH]; intros p queue last res Hk [Hlast [r [W'' [HD Hr]]]] H; cbn [csa_loop] in H;
      destruct (ccut A queue) as [q0 m] eqn:EC; destruct (ccut_spec A queue q0 m EC) as [Hnm Hm];
      set (last1 := match m with
                    | Some t => match last with None => Some (p, csl t)
                                | Some (l, _) => if l <? p then Some (p, csl t) else last end
                    | None => last end) in *.
    all: assert (HJ : (forall l sl, last1 = Some (l, sl) -> l < S p) /\
                      exists r0 W0, DiveS A h p q0 (repeat [] (length h - p)) r0 W0 /\ orelseS r0 last1 = ro).
    1,3: destruct m as [tm|];
         [ destruct Hm as [Htm [rest Hq]]; rewrite Hq in HD;
           assert (Hl1 : last1 = Some (p, csl tm))
             by (unfold last1; destruct last as [[l sl]|];
                 [pose proof (Hlast l sl eq_refl); replace (l <? p) with true by lia|]; reflexivity);
           split; [intros l sl E; rewrite Hl1 in E; inversion E; lia|];
           destruct (DiveS_split A h p q0 tm rest _ r W'' Hnm Htm HD) as [[e [-> HD0]]|[-> [W1 HD0]]];
           [ exists (Some e), W''; split; [exact HD0|exact Hr]
           | exists None, W1; split; [exact HD0|]; rewrite Hl1; exact Hr ]
         | subst q0; unfold last1; split; [intros l sl E; pose proof (Hlast l sl E); lia|];
           exists r, W''; split; [exact HD|exact Hr] ].
    all: destruct HJ as [Hlast1 [r0 [W0 [HD0 Hr0]]]].
    - inversion H; subst res.
      assert (Hnone : nth_error h p = None) by (apply nth_error_None; lia).
      rewrite (DiveS_end A h p _ _ _ _ Hnone Hnm HD0) in Hr0. exact Hr0.
    - destruct (nth_error h p) as [b|] eqn:Hb.
      2:{ inversion H; subst res. rewrite (DiveS_end A h p _ _ _ _ Hb Hnm HD0) in Hr0. exact Hr0. }
      assert (Hp : p < length h) by (eapply nth_error_Some_lt'; eauto).
      destruct (cstep_all A h (S p) b q0) as [|[nq vs2]] eqn:ES; [discriminate|].
      assert (HJn : JAS ro (S p) nq last1).
      { split; [exact Hlast1|].
        pose proof (DiveS_nomatch A h p _ _ _ _ Hnm HD0) as HL.
        replace (length h - p) with (S (length h - S p)) in HL by lia. cbn [repeat] in HL.
        rewrite <- (cfg_ctargets A h p b q0 Hb) in HL. unfold cstep_all in ES.
        destruct (KS_list A h _ _ _ _ _ _ _ _ _ ES HL) as [W3 [HD3 _]].
        exists r0, W3. split; [exact HD3|exact Hr0]. }
      destruct nq as [|t nq'].
      + destruct last1 as [l|] eqn:El.
        * inversion H; subst res. destruct HJn as [_ [r1 [W1 [HD1 Hr1]]]]. inversion HD1; subst. exact Hr1.
        * apply (IH (S p) [] None res ltac:(lia) HJn H).
      + apply (IH (S p) (t :: nq') last1 res ltac:(lia) HJn H).
  Qed.

  (* the reference for one start: the search from `s` only, with its vector *)
  Definition ref_anchored_caps (s : nat) : res cbest :=
    if length h <? s then Done None else
    match search_with (fuel_for A h) A h s with
    | OutOfFuel => OutOfFuel
    | Done None => Done None
    | Done (Some (e, sl)) => Done (Some (s, e, sl))
    end.

  Theorem csearch_anchored_is_ref s : s <= length h -> csearch_anchored A h s = ref_anchored_caps s.
  Proof.
    intros Hle. unfold csearch_anchored, ref_anchored_caps. replace (length h <? s) with false by lia.
    destruct (search_with (fuel_for A h) A h s) as [|r] eqn:ES; [exfalso; now apply (search_with_total A h Hwf s Hle)|].
    destruct (cclosure_total A h s st0 s (init_slots A) []) as [T [vs' ET]]. rewrite ET.
    destruct (csa_loop A h (length h - s) s T None) as [|r0] eqn:EL.
    { exfalso. pose proof (erase_run_anchored A h (length h - s) s T None) as HE. rewrite EL in HE.
      cbn [er_lres er_last option_map] in HE. symmetry in HE. now apply (sa_total A h _ _ _ _ HE). }
    destruct (search_with_LEs A h Hwf _ s r Hle ES) as [Wr HLE].
    replace (S (length h) - s) with (S (length h - s)) in HLE by lia. cbn [repeat] in HLE.
    destruct (KS_closure A h (cfuel A) s st0 s (init_slots A) [] T vs' ET _ _ _ HLE) as [W3 [HD _]].
    assert (HJ : JAS r s T None).
    { split; [intros l sl E; discriminate|]. exists r, W3. split; [exact HD|]. destruct r; reflexivity. }
    rewrite (csa_end r (length h - s) s T None r0 ltac:(lia) HJ EL).
    destruct r as [[e sl]|]; reflexivity.
  Qed.

  (* SearchWithCapturesAt on an NFA flagged anchored *)
  Theorem pikecaps_anchored_is_ref at_ : ~ (at_ = length h /\ ncaps A <= 1) ->
    pikecaps_search_at_g A h true at_ = ref_anchored_caps at_.
  Proof.
    intros Hn. unfold pikecaps_search_at_g.
    destruct (Nat.ltb_spec (length h) at_) as [Hlt|Hle].
    - unfold ref_anchored_caps. apply Nat.ltb_lt in Hlt. now rewrite Hlt.
    - replace ((at_ =? length h) && (ncaps A <=? 1)) with false by lia.
      now apply csearch_anchored_is_ref.
  Qed.

  (* SearchWithCapturesInSpan with spanEnd = len(haystack) *)
  Theorem pikecaps_in_span_full s : s <= length h -> pikecaps_in_span A h s (length h) = ref_anchored_caps s.
  Proof.
    intros Hle. rewrite <- (csearch_anchored_is_ref s Hle). unfold pikecaps_in_span, csearch_anchored.
    replace ((length h <? s) || (length h <? length h)) with false by lia. reflexivity.
  Qed.
End AnchoredS.

(* ------------------------------------------------------------------ the copy-on-write store
   (nfa/pikevm.go: cowCaptures / sharedCaptures).  A heap of cells (data, refs); a thread holds
   the index of a cell.  `fixed = true` is the code as repaired (the reference for the right
   branch of a Split is taken BEFORE the left branch is explored), `fixed = false` the original
   order (clone AFTER the left branch). *)
Definition cell := (slots * nat)%type.
Definition heap := list cell.
Definition hdata (H : heap) (c : nat) : slots := fst (nth c H ([], 0)).
Definition hrefs (H : heap) (c : nat) : nat := snd (nth c H ([], 0)).

(* cowCaptures.clone: refs++ , same cell *)
Definition cow_clone (H : heap) (c : nat) : heap := set_nth H c (hdata H c, S (hrefs H c)).

(* cowCaptures.update: out-of-range index: unchanged; refs > 1: refs--, a new cell with the
   modified copy; exclusive owner: in place *)
Definition cow_update (H : heap) (c i : nat) (v : Z) : heap * nat :=
  if length (hdata H c) <=? i then (H, c)
  else if 1 <? hrefs H c
       then (set_nth H c (hdata H c, hrefs H c - 1) ++ [(set_nth (hdata H c) i v, 1)], length H)
       else (set_nth H c (set_nth (hdata H c) i v, hrefs H c), c).

Definition hthread := (nat * nat * nat)%type.   (* state, startPos, cell *)
Definition deref (H : heap) (t : hthread) : cthread := (fst (fst t), snd (fst t), hdata H (snd t)).

Section Cow.
  Variable A : nfa.
  Variable h : hay.

  Fixpoint cowcl (fixed : bool) (fuel p q s c : nat) (H : heap) (vs : vset) : res (list hthread * heap * vset) :=
    match fuel with
    | 0 => OutOfFuel
    | S f =>
        if Pike.vmem q vs then Done ([], H, vs) else
        let vs1 := q :: vs in
        match nth_error (states A) q with
        | None => Done ([], H, vs1)
        | Some st =>
            match st with
            | SMatch | SByteRange _ _ _ | SSparse _ => Done ([(q, s, c)], H, vs1)
            | SEpsilon nx => cowcl fixed f p nx s c H vs1
            | SCapture idx is_start nx =>
                let (H1, c1) := cow_update H c (slot_of idx is_start) (Z.of_nat p) in
                cowcl fixed f p nx s c1 H1 vs1
            | SSplit l r =>
                if fixed then
                  let H1 := cow_clone H c in                    (* rightCaps = t.captures.clone() *)
                  match cowcl fixed f p l s c H1 vs1 with
                  | OutOfFuel => OutOfFuel
                  | Done (t1, H2, vs2) =>
                      match cowcl fixed f p r s c H2 vs2 with
                      | OutOfFuel => OutOfFuel
                      | Done (t2, H3, vs3) => Done (t1 ++ t2, H3, vs3)
                      end
                  end
                else
                  match cowcl fixed f p l s c H vs1 with
                  | OutOfFuel => OutOfFuel
                  | Done (t1, H2, vs2) =>
                      match cowcl fixed f p r s c (cow_clone H2 c) vs2 with   (* t.captures.clone() afterwards *)
                      | OutOfFuel => OutOfFuel
                      | Done (t2, H3, vs3) => Done (t1 ++ t2, H3, vs3)
                      end
                  end
            | SLook lk nx => if look_ok lk h p then cowcl fixed f p nx s c H vs1 else Done ([], H, vs1)
            | SFail => Done ([], H, vs1)
            end
        end
    end.

  (* step: the stepped thread hands its cell to the thread it becomes *)
  Fixpoint cowcl_list (fixed : bool) (fuel p : nat) (ts : list hthread) (H : heap) (vs : vset)
    : res (list hthread * heap * vset) :=
    match ts with
    | [] => Done ([], H, vs)
    | (q, s, c) :: ts' =>
        match cowcl fixed fuel p q s c H vs with
        | OutOfFuel => OutOfFuel
        | Done (t1, H1, vs1) =>
            match cowcl_list fixed fuel p ts' H1 vs1 with
            | OutOfFuel => OutOfFuel
            | Done (t2, H2, vs2) => Done (t1 ++ t2, H2, vs2)
            end
        end
    end.
End Cow.

(* ---------------- list facts *)
Lemma nth_set_nth {T} (l : list T) i j v d :
  nth j (set_nth l i v) d = if (i =? j) && (i <? length l) then v else nth j l d.
Proof.
  revert i j. induction l as [|x l IH]; intros i j; cbn [set_nth length].
  - rewrite andb_false_r. reflexivity.
  - destruct i as [|i], j as [|j]; cbn [nth]; try reflexivity.
    rewrite IH. cbn [Nat.eqb]. replace (S i <? S (length l)) with (i <? length l) by lia. reflexivity.
Qed.

Lemma set_nth_oob {T} (l : list T) i v : length l <= i -> set_nth l i v = l.
Proof.
  revert i. induction l as [|x l IH]; intros i Hi; [reflexivity|]. destruct i as [|i]; cbn [length] in Hi; [lia|].
  cbn [set_nth]. rewrite IH by lia. reflexivity.
Qed.

Definition cnt (x : nat) (T : list hthread) : nat := length (filter (fun t => snd t =? x) T).

Lemma cnt_app x T1 T2 : cnt x (T1 ++ T2) = cnt x T1 + cnt x T2.
Proof. unfold cnt. now rewrite filter_app, app_length. Qed.

Lemma cnt_pos x T : 1 <= cnt x T <-> exists t, In t T /\ snd t = x.
Proof.
  unfold cnt. split.
  - intros Hc. destruct (filter (fun t => snd t =? x) T) as [|t l] eqn:E; [cbn in Hc; lia|].
    assert (Ht : In t (filter (fun t => snd t =? x) T)) by (rewrite E; now left).
    apply filter_In in Ht. exists t. split; [apply Ht|]. destruct Ht as [_ Ht]. lia.
  - intros [t [Ht Hs]]. assert (Hf : In t (filter (fun t => snd t =? x) T)) by (apply filter_In; split; [exact Ht|lia]).
    destruct (filter (fun t => snd t =? x) T); [destruct Hf|cbn; lia].
Qed.

Definition ind (x c : nat) : nat := if x =? c then 1 else 0.

Lemma cnt_single x q s c : cnt x [(q, s, c)] = ind x c.
Proof. unfold cnt, ind. cbn [filter snd]. rewrite (Nat.eqb_sym c x). destruct (x =? c); reflexivity. Qed.

Lemma clone_length H c : length (cow_clone H c) = length H.
Proof. apply set_nth_length'. Qed.

Lemma clone_data H c x : hdata (cow_clone H c) x = hdata H x.
Proof.
  unfold cow_clone, hdata. rewrite nth_set_nth. destruct (Nat.eqb_spec c x) as [->|Hne]; [|reflexivity].
  destruct (x <? length H); reflexivity.
Qed.

Lemma clone_refs H c x : c < length H -> hrefs (cow_clone H c) x = hrefs H x + ind x c.
Proof.
  intros Hc. unfold cow_clone, hrefs, ind. rewrite nth_set_nth. rewrite (Nat.eqb_sym x c).
  destruct (Nat.eqb_spec c x) as [->|Hne]; cbn [andb].
  - replace (x <? length H) with true by lia. cbn [snd]. lia.
  - lia.
Qed.

(* the resource invariant: ext x = number of references to cell x held outside the call *)
Definition cow_pre (ext : nat -> nat) (H : heap) (own : nat -> nat) : Prop :=
  (forall x, ext x + own x <= hrefs H x) /\ (forall x, length H <= x -> ext x = 0 /\ own x = 0).

Definition cow_post (ext : nat -> nat) (H : heap) (T : list hthread) (H' : heap) : Prop :=
  length H <= length H' /\ cow_pre ext H' (fun x => cnt x T) /\
  (forall x, 1 <= ext x -> hdata H' x = hdata H x).

Lemma cow_update_spec ext H c i v H1 c1 :
  cow_pre ext H (fun x => ind x c) -> c < length H -> cow_update H c i v = (H1, c1) ->
  length H <= length H1 /\ c1 < length H1 /\ hdata H1 c1 = set_nth (hdata H c) i v /\
  cow_pre ext H1 (fun x => ind x c1) /\ (forall x, 1 <= ext x -> hdata H1 x = hdata H x).
Proof.
  intros [Hr Hz] Hc HU. unfold cow_update in HU.
  destruct (Nat.leb_spec (length (hdata H c)) i) as [Hoob|Hin].
  - inversion HU; subst H1 c1. rewrite set_nth_oob by exact Hoob. repeat split; auto; apply Hr || apply Hz; auto.
  - destruct (Nat.ltb_spec 1 (hrefs H c)) as [Hsh|Hex]; inversion HU; subst H1 c1; clear HU.
    + assert (Hd : forall x, x < length H -> nth x (set_nth H c (hdata H c, hrefs H c - 1) ++ [(set_nth (hdata H c) i v, 1)]) ([], 0)
                     = if c =? x then (hdata H c, hrefs H c - 1) else nth x H ([], 0)).
      { intros x Hx. rewrite app_nth1 by (rewrite set_nth_length'; exact Hx). rewrite nth_set_nth.
        replace (c <? length H) with true by lia. rewrite andb_true_r. reflexivity. }
      assert (Hn : nth (length H) (set_nth H c (hdata H c, hrefs H c - 1) ++ [(set_nth (hdata H c) i v, 1)]) ([], 0)
                   = (set_nth (hdata H c) i v, 1)).
      { rewrite app_nth2 by (rewrite set_nth_length'; lia). rewrite set_nth_length', Nat.sub_diag. reflexivity. }
      rewrite app_length, set_nth_length'. cbn [length]. split; [lia|]. split; [lia|].
      split; [unfold hdata at 1; now rewrite Hn|]. split; [split|].
      * intros x. unfold hrefs at 1, ind. destruct (lt_eq_lt_dec x (length H)) as [[Hlt|Heq]|Hgt].
        -- rewrite (Hd x Hlt). replace (x =? length H) with false by lia.
           pose proof (Hr x) as Hrx. unfold ind in Hrx. destruct (Nat.eqb_spec c x) as [->|Hne].
           ++ rewrite Nat.eqb_refl in Hrx. cbn [snd]. lia.
           ++ replace (x =? c) with false in Hrx by lia. unfold hrefs in Hrx. lia.
        -- subst x. rewrite Hn, Nat.eqb_refl. cbn [snd]. destruct (Hz (length H) (le_n _)) as [E _]. lia.
        -- destruct (Hz x ltac:(lia)) as [E _]. replace (x =? length H) with false by lia. lia.
      * intros x Hx. rewrite app_length, set_nth_length' in Hx. cbn [length] in Hx.
        destruct (Hz x ltac:(lia)) as [E _]. split; [exact E|]. unfold ind. replace (x =? length H) with false by lia. reflexivity.
      * intros x Hx. destruct (le_lt_dec (length H) x) as [Hge|Hlt]; [destruct (Hz x Hge); lia|].
        unfold hdata at 1. rewrite (Hd x Hlt). destruct (Nat.eqb_spec c x) as [->|Hne]; reflexivity.
    + assert (Hd : forall x, nth x (set_nth H c (set_nth (hdata H c) i v, hrefs H c)) ([], 0)
                     = if c =? x then (set_nth (hdata H c) i v, hrefs H c) else nth x H ([], 0)).
      { intros x. rewrite nth_set_nth. replace (c <? length H) with true by lia. rewrite andb_true_r. reflexivity. }
      rewrite set_nth_length'. split; [lia|]. split; [exact Hc|].
      split; [unfold hdata at 1; now rewrite Hd, Nat.eqb_refl|]. split; [split|].
      * intros x. unfold hrefs at 1. rewrite Hd. pose proof (Hr x) as Hrx. unfold hrefs in Hrx.
        destruct (Nat.eqb_spec c x) as [->|Hne]; cbn [snd]; exact Hrx.
      * intros x Hx. rewrite set_nth_length' in Hx. apply Hz, Hx.
      * intros x Hx. unfold hdata at 1. rewrite Hd. destruct (Nat.eqb_spec c x) as [->|Hne]; [|reflexivity].
        exfalso. pose proof (Hr x) as Hrx. unfold ind in Hrx. rewrite Nat.eqb_refl in Hrx. lia.
Qed.

Section CowOk.
  Variable A : nfa.
  Variable h : hay.

  Lemma cow_post_nil ext H c : cow_pre ext H (fun x => ind x c) -> cow_post ext H [] H.
  Proof.
    intros [Hr Hz]. split; [lia|]. split; [split|auto].
    - intros x. pose proof (Hr x). unfold cnt. cbn [filter length]. lia.
    - intros x Hx. destruct (Hz x Hx). auto.
  Qed.

  Lemma cow_post_one ext H q s c : cow_pre ext H (fun x => ind x c) -> cow_post ext H [(q, s, c)] H.
  Proof.
    intros [Hr Hz]. split; [lia|]. split; [split|auto].
    - intros x. rewrite cnt_single. apply Hr.
    - intros x Hx. rewrite cnt_single. apply Hz, Hx.
  Qed.

  Lemma deref_stable H2 H3 (T : list hthread) :
    (forall x, 1 <= cnt x T -> hdata H3 x = hdata H2 x) -> map (deref H3) T = map (deref H2) T.
  Proof.
    intros Hd. apply map_ext_in. intros t Ht. unfold deref. f_equal. apply Hd. apply cnt_pos. eauto.
  Qed.

  Definition cow_good (f : nat) : Prop :=
    forall p q s c H vs T H' vs' ext,
    cowcl A h true f p q s c H vs = Done (T, H', vs') ->
    c < length H -> cow_pre ext H (fun x => ind x c) ->
    cow_post ext H T H' /\ cclosure A h f p q s (hdata H c) vs = Done (map (deref H') T, vs').

  Lemma cow_ok f : cow_good f.
  Proof.
    induction f as [|f IH]; intros p q s c H vs T H' vs' ext HC Hc Hpre; [discriminate|].
    cbn [cowcl cclosure] in HC |- *. destruct (Pike.vmem q vs).
    { inversion HC; subst. split; [eapply cow_post_nil; eauto|reflexivity]. }
    destruct (nth_error (states A) q) as [st|].
    2:{ inversion HC; subst. split; [eapply cow_post_nil; eauto|reflexivity]. }
    destruct st as [|lo hi nx|trs|l r|nx|idx is_start nx|lk nx|].
    1,2,3: inversion HC; subst; split; [now apply cow_post_one|reflexivity].
    - (* Split, reference taken first *)
      destruct Hpre as [Hr Hz].
      destruct (cowcl A h true f p l s c (cow_clone H c) (q :: vs)) as [|[[T1 H2] vs2]] eqn:E1; [discriminate|].
      destruct (cowcl A h true f p r s c H2 vs2) as [|[[T2 H3] vs3]] eqn:E2; [discriminate|].
      inversion HC; subst T H' vs'. clear HC.
      assert (P1 : cow_pre (fun x => ext x + ind x c) (cow_clone H c) (fun x => ind x c)).
      { split.
        - intros x. rewrite (clone_refs H c x Hc). pose proof (Hr x). lia.
        - intros x Hx. rewrite clone_length in Hx. destruct (Hz x Hx) as [Z1 Z2]. rewrite Z1, Z2. auto. }
      destruct (IH _ _ _ _ _ _ _ _ _ _ E1 ltac:(rewrite clone_length; exact Hc) P1) as [[L1 [[R1 Z1] D1]] C1].
      rewrite clone_length in L1. rewrite clone_data in C1.
      assert (P2 : cow_pre (fun x => ext x + cnt x T1) H2 (fun x => ind x c)).
      { split.
        - intros x. pose proof (R1 x). lia.
        - intros x Hx. destruct (Z1 x Hx) as [Z3 Z4]. split; lia. }
      destruct (IH _ _ _ _ _ _ _ _ _ _ E2 ltac:(lia) P2) as [[L2 [[R2 Z2] D2]] C2].
      assert (Hdc : hdata H2 c = hdata H c).
      { rewrite (D1 c) by (unfold ind; rewrite Nat.eqb_refl; lia). apply clone_data. }
      rewrite Hdc in C2. rewrite C1, C2. split.
      + split; [lia|]. split; [split|].
        * intros x. rewrite cnt_app. pose proof (R2 x). lia.
        * intros x Hx. rewrite cnt_app. destruct (Z2 x Hx) as [Z3 Z4]. split; lia.
        * intros x Hx. rewrite (D2 x) by lia. rewrite (D1 x) by lia. apply clone_data.
      + rewrite map_app. rewrite (deref_stable H2 H3 T1); [reflexivity|]. intros x Hx. apply D2. lia.
    - apply (IH _ _ _ _ _ _ _ _ _ _ HC Hc Hpre).
    - destruct (cow_update H c (slot_of idx is_start) (Z.of_nat p)) as [H1 c1] eqn:EU.
      destruct (cow_update_spec ext H c _ _ H1 c1 Hpre Hc EU) as [L1 [Hc1 [Hd1 [P1 D1]]]].
      destruct (IH _ _ _ _ _ _ _ _ _ _ HC Hc1 P1) as [[L2 [P2 D2]] C2].
      rewrite Hd1 in C2. split; [|exact C2].
      split; [lia|]. split; [exact P2|]. intros x Hx. rewrite (D2 x Hx). apply D1, Hx.
    - destruct (look_ok lk h p).
      + apply (IH _ _ _ _ _ _ _ _ _ _ HC Hc Hpre).
      + inversion HC; subst. split; [eapply cow_post_nil; eauto|reflexivity].
    - inversion HC; subst. split; [eapply cow_post_nil; eauto|reflexivity].
  Qed.
End CowOk.

Section CowTop.
  Variable A : nfa.
  Variable h : hay.

  Lemma cnt_cons x q s c ts : cnt x ((q, s, c) :: ts) = ind x c + cnt x ts.
  Proof. change ((q, s, c) :: ts) with ([(q, s, c)] ++ ts). now rewrite cnt_app, cnt_single. Qed.

  (* the step of a whole queue: every thread owns one reference of its cell *)
  Lemma cow_list_ok f p : forall ts H vs T H' vs' ext,
    cowcl_list A h true f p ts H vs = Done (T, H', vs') ->
    cow_pre ext H (fun x => cnt x ts) ->
    cow_post ext H T H' /\ cclosure_list A h f p (map (deref H) ts) vs = Done (map (deref H') T, vs').
  Proof.
    induction ts as [|[[q s] c] ts IH]; intros H vs T H' vs' ext HC [Hr Hz]; cbn [cowcl_list map cclosure_list] in HC |- *.
    - inversion HC; subst. split; [|reflexivity]. split; [lia|]. split; [split; [exact Hr|exact Hz]|auto].
    - destruct (cowcl A h true f p q s c H vs) as [|[[T1 H1] vs1]] eqn:E1; [discriminate|].
      destruct (cowcl_list A h true f p ts H1 vs1) as [|[[T2 H2] vs2]] eqn:E2; [discriminate|].
      inversion HC; subst T H' vs'. clear HC.
      assert (Hc : c < length H).
      { destruct (le_lt_dec (length H) c) as [Hge|Hlt]; [|exact Hlt]. destruct (Hz c Hge) as [_ Z].
        rewrite cnt_cons in Z. unfold ind in Z. rewrite Nat.eqb_refl in Z. lia. }
      assert (P1 : cow_pre (fun x => ext x + cnt x ts) H (fun x => ind x c)).
      { split.
        - intros x. pose proof (Hr x) as Hx. rewrite cnt_cons in Hx. lia.
        - intros x Hx. destruct (Hz x Hx) as [Z1 Z2]. rewrite cnt_cons in Z2. split; lia. }
      destruct (cow_ok A h f _ _ _ _ _ _ _ _ _ _ E1 Hc P1) as [[L1 [[R1 Z1] D1]] C1].
      assert (P2 : cow_pre (fun x => ext x + cnt x T1) H1 (fun x => cnt x ts)).
      { split.
        - intros x. pose proof (R1 x). lia.
        - intros x Hx. destruct (Z1 x Hx) as [Z3 Z4]. split; lia. }
      destruct (IH _ _ _ _ _ _ E2 P2) as [[L2 [[R2 Z2] D2]] C2].
      unfold deref at 1. cbn [fst snd]. rewrite C1.
      rewrite <- (deref_stable H H1 ts) by (intros x Hx; apply D1; lia). rewrite C2. split.
      + split; [lia|]. split; [split|].
        * intros x. rewrite cnt_app. pose proof (R2 x). lia.
        * intros x Hx. rewrite cnt_app. destruct (Z2 x Hx) as [Z3 Z4]. split; lia.
        * intros x Hx. rewrite (D2 x) by lia. apply D1. lia.
      + rewrite map_app. rewrite (deref_stable H1 H2 T1); [reflexivity|]. intros x Hx. apply D2. lia.
  Qed.

  (* the repaired order implements value semantics: from a fresh vector (newCaptures), the
     threads listed by the closure on the store dereference to the threads of the value model *)
  Theorem cow_fixed_value f p q s sl vs T H' vs' :
    cowcl A h true f p q s 0 [(sl, 1)] vs = Done (T, H', vs') ->
    cclosure A h f p q s sl vs = Done (map (deref H') T, vs').
  Proof.
    intros HC.
    assert (P : cow_pre (fun _ => 0) [(sl, 1)] (fun x => ind x 0)).
    { split.
      - intros [|x]; cbn; [lia|]. unfold hrefs. destruct x; cbn; lia.
      - intros x Hx. cbn [length] in Hx. unfold ind. replace (x =? 0) with false by lia. auto. }
    destruct (cow_ok A h f _ _ _ _ _ _ _ _ _ _ HC ltac:(cbn; lia) P) as [_ C]. exact C.
  Qed.
End CowTop.

(* the original order does not: state 0 = Split(1, 3); 1 = Capture(group 1, start) -> 2;
   2 = 'a'; 3 = 'b'.  The left branch writes slot 2 in place (sole owner), the clone taken
   afterwards hands the written vector to the right branch: the thread at state 3 carries slot
   2 = 0 although its path never passed the capture. *)
Definition cow_nfa : nfa :=
  mkNfa [SSplit 1 3; SCapture 1 true 2; SByteRange 97 97 4; SByteRange 98 98 4; SMatch] 0 0 2.

Theorem cow_original_refuted :
  exists A h f p q s sl T H' vs' Tv vsv,
    wf_nfa A = true /\
    cowcl A h false f p q s 0 [(sl, 1)] [] = Done (T, H', vs') /\
    cclosure A h f p q s sl [] = Done (Tv, vsv) /\
    map (deref H') T <> Tv.
Proof.
  exists cow_nfa, [98%N], 6, 0, 0, 0, (init_slots cow_nfa).
  eexists. eexists. eexists. eexists. eexists.
  split; [vm_compute; reflexivity|]. split; [vm_compute; reflexivity|]. split; [vm_compute; reflexivity|].
  vm_compute. discriminate.
Qed.

Example cow_fixed_example :
  match cowcl cow_nfa [98%N] true 6 0 0 0 0 [(init_slots cow_nfa, 1)] [] with
  | Done (T, H', _) => map (deref H') T = [(2, 0, [-1; -1; 0; -1]%Z); (3, 0, [-1; -1; -1; -1]%Z)]
  | OutOfFuel => False
  end.
Proof. vm_compute. reflexivity. Qed.

(* ------------------------------------------------------------------ the whole search on the
   copy-on-write store (searchUnanchoredWithCapturesAt as written: newCaptures allocates a cell
   with refs = 1, a stepped thread hands its cell on, bestCaptures = t.captures.copyData()) *)
Definition hq (t : hthread) : nat := fst (fst t).
Definition hs (t : hthread) : nat := snd (fst t).
Definition hc (t : hthread) : nat := snd t.

Section CowLoop.
  Variable A : nfa.
  Variable h : hay.

  Definition htargets (b : N) (t : hthread) : list hthread :=
    match nth_error (states A) (hq t) with
    | Some st => map (fun q => (q, hs t, hc t)) (byte_succ st b)
    | None => []
    end.

  Definition hstep_all (fixed : bool) (p' : nat) (b : N) (queue : list hthread) (H : heap) :=
    cowcl_list A h fixed (cfuel A) p' (flat_map (htargets b) queue) H [].

  Fixpoint hcut (q : list hthread) : list hthread * option hthread :=
    match q with
    | [] => ([], None)
    | t :: q' => if is_match_thread A (fst t) then ([], Some t) else let (a, m) := hcut q' in (t :: a, m)
    end.

  Definition hupd_best (best : cbest) (m : option hthread) (p : nat) (H : heap) : cbest :=
    match m with
    | None => best
    | Some t => if better (er_best best) (hs t) p then Some (hs t, p, hdata H (hc t)) else best
    end.

  Definition hinject (fixed anchored : bool) (at_ p : nat) (queue : list hthread) (best : cbest) (H : heap)
    : res (list hthread * heap) :=
    if is_none best && (negb anchored || (p =? at_))
    then match cowcl A h fixed (cfuel A) p (start_anch A) p (length H) (H ++ [(init_slots A, 1)]) [] with
         | OutOfFuel => OutOfFuel
         | Done (t, H', _) => Done (queue ++ t, H')
         end
    else Done (queue, H).

  Fixpoint hsu_loop (fixed anchored : bool) (at_ k p : nat) (queue : list hthread) (best : cbest) (H : heap)
    : res cbest :=
    match hinject fixed anchored at_ p queue best H with
    | OutOfFuel => OutOfFuel
    | Done (queue1, H1) =>
        let (q0, m) := hcut queue1 in
        let best1 := hupd_best best m p H1 in
        match k with
        | 0 => Done best1
        | S k' =>
            match nth_error h p with
            | None => Done best1
            | Some b =>
                match hstep_all fixed (S p) b q0 H1 with
                | OutOfFuel => OutOfFuel
                | Done (nq, H2, _) =>
                    if no_candidate (er_best best1) (map fst nq) then Done best1
                    else hsu_loop fixed anchored at_ k' (S p) nq best1 H2
                end
            end
        end
    end.

  Definition cow_search_at (fixed : bool) (at_ : nat) : res cbest :=
    if length h <? at_ then Done None
    else hsu_loop fixed false at_ (length h - at_) at_ [] None [].
End CowLoop.


Section CowLoopOk.
  Variable A : nfa.
  Variable h : hay.
  Hypothesis Hwf : wf_nfa A = true.

  Lemma byte_succ_le1 q st b : nth_error (states A) q = Some st -> length (byte_succ st b) <= 1.
  Proof.
    intros Hst. pose proof (wf_state A Hwf _ _ Hst) as Hok.
    destruct st as [|lo hi nx|trs|l r|nx|idx is_start nx|lk nx|]; cbn [byte_succ length]; try lia.
    - destruct (in_range lo hi b); cbn [length]; lia.
    - cbn [state_ok] in Hok. rewrite (sparse_filter_first _ _ _ b Hok). destruct (sparse_next trs b); cbn [length]; lia.
  Qed.

  Lemma cnt_htargets x b t : cnt x (htargets A b t) <= ind x (hc t).
  Proof.
    unfold htargets. destruct (nth_error (states A) (hq t)) as [st|] eqn:Hst; [|unfold cnt; cbn; lia].
    pose proof (byte_succ_le1 _ st b Hst) as Hl.
    destruct (byte_succ st b) as [|y [|z l]]; cbn [length] in Hl; try lia.
    - unfold cnt; cbn; lia.
    - cbn [map]. rewrite cnt_single. lia.
  Qed.

  Lemma cnt_flat_htargets x b q0 : cnt x (flat_map (htargets A b) q0) <= cnt x q0.
  Proof.
    induction q0 as [|[[q s] c] q0 IH]; [cbn; lia|]. cbn [flat_map]. rewrite cnt_app, cnt_cons.
    pose proof (cnt_htargets x b (q, s, c)) as H1. unfold hc in H1. cbn [snd] in H1. lia.
  Qed.

  Lemma er_deref H t : er (deref H t) = fst t.
  Proof. destruct t as [[q s] c]. reflexivity. Qed.

  Lemma map_er_deref H T : map er (map (deref H) T) = map fst T.
  Proof. rewrite map_map. apply map_ext. intros t. apply er_deref. Qed.

  Lemma hcut_deref H q :
    ccut A (map (deref H) q) = (map (deref H) (fst (hcut A q)), option_map (deref H) (snd (hcut A q))).
  Proof.
    induction q as [|t q IH]; [reflexivity|]. cbn [map ccut hcut]. rewrite er_deref.
    destruct (is_match_thread A (fst t)); [reflexivity|]. rewrite IH. destruct (hcut A q) as [a m]. reflexivity.
  Qed.

  Lemma hcut_prefix q : exists rest, q = fst (hcut A q) ++ rest.
  Proof.
    induction q as [|t q [rest IH]]; [exists []; reflexivity|]. cbn [hcut].
    destruct (is_match_thread A (fst t)); [exists (t :: q); reflexivity|].
    destruct (hcut A q) as [a m]. cbn [fst] in *. exists rest. cbn [app]. now rewrite <- IH.
  Qed.

  Lemma deref_htargets H b t : map (deref H) (htargets A b t) = ctargets A b (deref H t).
  Proof.
    unfold htargets, ctargets. destruct t as [[q s] c]. unfold hq, hs, hc, cq, cs, csl, deref. cbn [fst snd].
    destruct (nth_error (states A) q); [|reflexivity]. rewrite map_map. reflexivity.
  Qed.

  Lemma deref_flat_htargets H b q0 :
    map (deref H) (flat_map (htargets A b) q0) = flat_map (ctargets A b) (map (deref H) q0).
  Proof.
    induction q0 as [|t q0 IH]; [reflexivity|]. cbn [flat_map map]. now rewrite map_app, deref_htargets, IH.
  Qed.

  Lemma hupd_best_deref best m p H : cupd_best best (option_map (deref H) m) p = hupd_best best m p H.
  Proof. destruct m as [[[q s] c]|]; reflexivity. Qed.

  (* erasing cells and store gives Pike.v's closure, whatever the order of the clone *)
  Definition er_h (r : res (list hthread * heap * vset)) : res (list thread * vset) :=
    match r with OutOfFuel => OutOfFuel | Done (T, _, vs) => Done (map fst T, vs) end.

  Lemma cowcl_erase fixed f : forall p q s c H vs,
    er_h (cowcl A h fixed f p q s c H vs) = closure A h f p q s vs.
  Proof.
    induction f as [|f IH]; intros p q s c H vs; [reflexivity|].
    cbn [cowcl closure]. destruct (Pike.vmem q vs); [reflexivity|].
    destruct (nth_error (states A) q) as [st|]; [|reflexivity].
    destruct st as [|lo hi nx|trs|l r|nx|idx is_start nx|lk nx|]; try reflexivity; try apply IH.
    - destruct fixed.
      + rewrite <- (IH p l s c (cow_clone H c) (q :: vs)).
        destruct (cowcl A h true f p l s c (cow_clone H c) (q :: vs)) as [|[[t1 H2] v1]]; [reflexivity|]. cbn [er_h].
        rewrite <- (IH p r s c H2 v1).
        destruct (cowcl A h true f p r s c H2 v1) as [|[[t2 H3] v2]]; [reflexivity|]. cbn [er_h]. now rewrite map_app.
      + rewrite <- (IH p l s c H (q :: vs)).
        destruct (cowcl A h false f p l s c H (q :: vs)) as [|[[t1 H2] v1]]; [reflexivity|]. cbn [er_h].
        rewrite <- (IH p r s c (cow_clone H2 c) v1).
        destruct (cowcl A h false f p r s c (cow_clone H2 c) v1) as [|[[t2 H3] v2]]; [reflexivity|]. cbn [er_h]. now rewrite map_app.
    - destruct (cow_update H c (slot_of idx is_start) (Z.of_nat p)) as [H1 c1]. apply IH.
    - destruct (look_ok lk h p); [apply IH|reflexivity].
  Qed.

  Lemma cowcl_list_erase fixed f p : forall ts H vs,
    er_h (cowcl_list A h fixed f p ts H vs) = closure_list A h f p (map fst ts) vs.
  Proof.
    induction ts as [|[[q s] c] ts IH]; intros H vs; [reflexivity|].
    cbn [cowcl_list map fst closure_list]. rewrite <- (cowcl_erase fixed f p q s c H vs).
    destruct (cowcl A h fixed f p q s c H vs) as [|[[t1 H1] v1]]; [reflexivity|]. cbn [er_h].
    rewrite <- (IH H1 v1). destruct (cowcl_list A h fixed f p ts H1 v1) as [|[[t2 H2] v2]]; [reflexivity|].
    cbn [er_h]. now rewrite map_app.
  Qed.

  Lemma cowcl_total fixed p q s c H vs : exists T H' vs', cowcl A h fixed (cfuel A) p q s c H vs = Done (T, H', vs').
  Proof.
    destruct (closure_total A h p q s vs) as [T0 [v0 E0]]. rewrite <- (cowcl_erase fixed) with (c := c) (H := H) in E0.
    destruct (cowcl A h fixed (cfuel A) p q s c H vs) as [|[[T H'] vs']]; [discriminate|]. eauto.
  Qed.

  Lemma cowcl_list_total fixed p ts H vs : exists T H' vs', cowcl_list A h fixed (cfuel A) p ts H vs = Done (T, H', vs').
  Proof.
    destruct (closure_list_total A h p (map fst ts) vs) as [T0 [v0 E0]]. rewrite <- (cowcl_list_erase fixed) with (H := H) in E0.
    destruct (cowcl_list A h fixed (cfuel A) p ts H vs) as [|[[T H'] vs']]; [discriminate|]. eauto.
  Qed.

  Lemma hinject_ok anchored at_ p queue best H :
    cow_pre (fun _ => 0) H (fun x => cnt x queue) ->
    exists q1 H1, hinject A h true anchored at_ p queue best H = Done (q1, H1) /\
                  cinject A h anchored at_ p (map (deref H) queue) best = Done (map (deref H1) q1) /\
                  cow_pre (fun _ => 0) H1 (fun x => cnt x q1).
  Proof.
    intros [Hr Hz]. unfold hinject, cinject. destruct (is_none best && (negb anchored || (p =? at_))).
    2:{ exists queue, H. split; [reflexivity|]. split; [reflexivity|split; assumption]. }
    destruct (cowcl_total true p (start_anch A) p (length H) (H ++ [(init_slots A, 1)]) []) as [T [H' [vs' EC]]].
    rewrite EC.
    assert (Hnx : forall x, x < length H -> nth x (H ++ [(init_slots A, 1)]) ([], 0) = nth x H ([], 0))
      by (intros x Hx; now apply app_nth1).
    assert (Hnl : nth (length H) (H ++ [(init_slots A, 1)]) ([], 0) = (init_slots A, 1))
      by (rewrite app_nth2 by lia; now rewrite Nat.sub_diag).
    assert (P0 : cow_pre (fun x => cnt x queue) (H ++ [(init_slots A, 1)]) (fun x => ind x (length H))).
    { split.
      - intros x. unfold hrefs, ind. destruct (lt_eq_lt_dec x (length H)) as [[Hlt|Heq]|Hgt].
        + rewrite (Hnx x Hlt). replace (x =? length H) with false by lia. pose proof (Hr x) as Hx. unfold hrefs in Hx. lia.
        + subst x. rewrite Hnl, Nat.eqb_refl. cbn [snd]. destruct (Hz (length H) (le_n _)) as [_ Z]. lia.
        + replace (x =? length H) with false by lia. destruct (Hz x ltac:(lia)) as [_ Z]. lia.
      - intros x Hx. rewrite app_length in Hx. cbn [length] in Hx. destruct (Hz x ltac:(lia)) as [_ Z].
        split; [exact Z|]. unfold ind. replace (x =? length H) with false by lia. reflexivity. }
    destruct (cow_ok A h _ _ _ _ _ _ _ _ _ _ _ EC ltac:(rewrite app_length; cbn [length]; lia) P0) as [[L1 [[R1 Z1] D1]] C1].
    unfold hdata at 1 in C1. rewrite Hnl in C1. cbn [fst] in C1. rewrite C1.
    exists (queue ++ T), H'. split; [reflexivity|]. split.
    - rewrite map_app. f_equal. f_equal. apply deref_stable. intros x Hx. rewrite (D1 x Hx).
      assert (Hlt : x < length H) by (destruct (le_lt_dec (length H) x) as [Hge|Hlt]; [destruct (Hz x Hge); lia|exact Hlt]).
      unfold hdata. now rewrite (Hnx x Hlt).
    - split.
      + intros x. rewrite cnt_app. pose proof (R1 x). lia.
      + intros x Hx. rewrite cnt_app. destruct (Z1 x Hx) as [Z3 Z4]. split; lia.
  Qed.

  Lemma hstep_ok p' b q0 H :
    cow_pre (fun _ => 0) H (fun x => cnt x q0) ->
    exists nq H2 vs, hstep_all A h true p' b q0 H = Done (nq, H2, vs) /\
                     cstep_all A h p' b (map (deref H) q0) = Done (map (deref H2) nq, vs) /\
                     cow_pre (fun _ => 0) H2 (fun x => cnt x nq).
  Proof.
    intros [Hr Hz]. unfold hstep_all, cstep_all.
    destruct (cowcl_list_total true p' (flat_map (htargets A b) q0) H []) as [nq [H2 [vs EC]]]. rewrite EC.
    assert (P0 : cow_pre (fun _ => 0) H (fun x => cnt x (flat_map (htargets A b) q0))).
    { split.
      - intros x. pose proof (Hr x). pose proof (cnt_flat_htargets x b q0). lia.
      - intros x Hx. destruct (Hz x Hx) as [_ Z]. pose proof (cnt_flat_htargets x b q0). split; lia. }
    destruct (cow_list_ok A h _ _ _ _ _ _ _ _ _ EC P0) as [[L1 [P1 D1]] C1].
    rewrite deref_flat_htargets in C1. exists nq, H2, vs. split; [reflexivity|]. split; [exact C1|exact P1].
  Qed.

  (* the repaired order: the search on the store IS the search with value semantics *)
  Theorem cow_loop_value anchored at_ : forall k p queue best H,
    cow_pre (fun _ => 0) H (fun x => cnt x queue) ->
    hsu_loop A h true anchored at_ k p queue best H = csu_loop A h anchored at_ k p (map (deref H) queue) best.
  Proof.
    induction k as [|k IH]; intros p queue best H Hpre; cbn [hsu_loop csu_loop];
      destruct (hinject_ok anchored at_ p queue best H Hpre) as [q1 [H1 [E1 [E2 [Hr1 Hz1]]]]]; rewrite E1, E2;
      rewrite hcut_deref; destruct (hcut_prefix q1) as [rest Hq1]; destruct (hcut A q1) as [q0 m]; cbn [fst snd] in *;
      rewrite hupd_best_deref.
    - reflexivity.
    - destruct (nth_error h p) as [b|]; [|reflexivity].
      assert (P0 : cow_pre (fun _ => 0) H1 (fun x => cnt x q0)).
      { split.
        - intros x. pose proof (Hr1 x) as Hx. rewrite Hq1, cnt_app in Hx. lia.
        - intros x Hx. destruct (Hz1 x Hx) as [_ Z]. rewrite Hq1, cnt_app in Z. split; lia. }
      destruct (hstep_ok (S p) b q0 H1 P0) as [nq [H2 [vs [E3 [E4 P2]]]]]. rewrite E3, E4.
      rewrite map_er_deref. destruct (no_candidate (er_best (hupd_best best m p H1)) (map fst nq)); [reflexivity|].
      apply IH, P2.
  Qed.

  (* searchUnanchoredWithCapturesAt on the copy-on-write store, as repaired = the reference *)
  Theorem cow_search_is_ref at_ : ~ (at_ = length h /\ ncaps A <= 1) ->
    cow_search_at A h true at_ = find_at A h at_.
  Proof.
    intros Hn. rewrite <- (pikecaps_search_is_ref_raw A h Hwf at_ Hn).
    unfold cow_search_at, pikecaps_search_at, pikecaps_search_at_g.
    destruct (length h <? at_) eqn:E; [reflexivity|].
    replace ((at_ =? length h) && (ncaps A <=? 1)) with false by lia.
    apply (cow_loop_value false at_ (length h - at_) at_ [] None []).
    split; [intros x; unfold cnt; cbn; lia|intros x _; auto].
  Qed.
End CowLoopOk.


(* the original order on the real witness: the NFA compiled from the pattern "plus of group (star of a), then end of text" (pcPatterns[0] of the harness), haystack
   "aa": the search on the store reports group 1 = [2 2], the reference (and regexp) [0 2] — what
   the Go code returned before the repair *)
Definition cow_wit_nfa : nfa :=
  mkNfa [SByteRange 97 97 2; SEpsilon 3; SSplit 0 1; SCapture 1 false 6; SCapture 1 true 2; SEpsilon 7;
         SSplit 4 5; SLook LEndText 8; SMatch; SByteRange 0 255 10; SSplit 4 9] 4 10 2.

Theorem cow_original_refuted_search :
  exists A h at_, wf_nfa A = true /\
    report_res A (cow_search_at A h false at_) = Done (Some [0; 2; 2; 2]%Z) /\
    report_res A (find_at A h at_) = Done (Some [0; 2; 0; 2]%Z) /\
    report_res A (cow_search_at A h true at_) = Done (Some [0; 2; 0; 2]%Z).
Proof. exists cow_wit_nfa, [97%N; 97%N], 0. repeat split; vm_compute; reflexivity. Qed.
(* PROOFS_END *)

(* ------------------------------------------------------------------ case checker *)
(* op 1 = SearchWithCapturesAt(h, at), op 2 = SearchWithSlotTableCapturesAt(h, at) (per-state slot
   tables instead of per-thread vectors; the seed does not clear Visited — a different closure
   discipline with, by C03, the same answer: it is compared with the model's answer, which is the
   reference's by pikecaps_search_is_ref).  Observed result: found, and the full capture vector
   flattened (2 entries per group, -1 -1 for an unset group). *)
(* op 3 = SearchWithCapturesInSpan(h, at, c_end) (c_end is 0 for the other ops); the reference for
   it is the search from `at` only, and only for c_end = len(h) *)
Record case := mkCase {
  c_id : N; c_nfa : nfa; c_anch : bool; c_hay : list N; c_at : N; c_end : N; c_op : N;
  c_found : bool; c_caps : list Z }.

Definition enc_caps (A : nfa) (r : res cbest) : option (bool * slots) :=
  match report_res A r with
  | OutOfFuel => None
  | Done None => Some (false, [])
  | Done (Some sl) => Some (true, sl)
  end.

Fixpoint zlist_eqb (a b : list Z) : bool :=
  match a, b with
  | [], [] => true
  | x :: a', y :: b' => (x =? y)%Z && zlist_eqb a' b'
  | _, _ => false
  end.

Definition obs_eqb (a : option (bool * slots)) (c : case) : bool :=
  match a with
  | None => false
  | Some (b, sl) => Bool.eqb b (c_found c) && zlist_eqb sl (c_caps c)
  end.

Definition run_model (c : case) : option (bool * slots) :=
  enc_caps (c_nfa c)
    (match c_op c with
     | 3%N => pikecaps_in_span (c_nfa c) (c_hay c) (N.to_nat (c_at c)) (N.to_nat (c_end c))
     | _ => pikecaps_search_at_g (c_nfa c) (c_hay c) (c_anch c) (N.to_nat (c_at c))
     end).

Definition run_ref (c : case) : option (bool * slots) :=
  enc_caps (c_nfa c)
    (if c_anch c || (c_op c =? 3)%N then ref_anchored_caps (c_nfa c) (c_hay c) (N.to_nat (c_at c))
     else find_at (c_nfa c) (c_hay c) (N.to_nat (c_at c))).

(* model fidelity: the model reproduces the observed Go result *)
Definition check_case (c : case) : bool := wf_nfa (c_nfa c) && obs_eqb (run_model c) c.
(* the observed Go result equals the reference search, groups included *)
Definition check_ref (c : case) : bool :=
  if (c_op c =? 3)%N && negb (N.to_nat (c_end c) =? length (c_hay c)) then true else obs_eqb (run_ref c) c.

Definition mismatches (cs : list case) : list N := map c_id (filter (fun c => negb (check_case c)) cs).
Definition ref_mismatches (cs : list case) : list N := map c_id (filter (fun c => negb (check_ref c)) cs).

(* ------------------------------------------------------------------ examples *)
(* (a)|b with groups: 0 = Capture(0,start); ... written by hand: (a)(b)? *)
Definition ex_opt : nfa :=
  mkNfa [SCapture 0 true 1; SCapture 1 true 2; SByteRange 97 97 3; SCapture 1 false 4; SSplit 5 8;
         SCapture 2 true 6; SByteRange 98 98 7; SCapture 2 false 8; SCapture 0 false 9; SMatch;
         SByteRange 0 255 11; SSplit 0 10] 0 11 3.

Example ex_opt_caps : enc_caps ex_opt (pikecaps_search_at ex_opt [120; 97; 98]%N 0) = Some (true, [1; 3; 1; 2; 2; 3]%Z).
Proof. vm_compute. reflexivity. Qed.
Example ex_opt_caps2 : enc_caps ex_opt (pikecaps_search_at ex_opt [120; 97; 99]%N 0) = Some (true, [1; 2; 1; 2; -1; -1]%Z).
Proof. vm_compute. reflexivity. Qed.
Example ex_opt_ref : pikecaps_search_at ex_opt [120; 97; 98]%N 0 = find_at ex_opt [120; 97; 98]%N 0.
Proof. vm_compute. reflexivity. Qed.
