(* Property C18: vectorised byte-search primitives equal their scalar definitions.
   Statements only; the proofs are in Swar.v.  The theorems are about the faithful
   models of the pure-Go code paths of /repo/simd; the AVX2 assembly is tied to the
   same scalar specifications by the correspondence run (harness c18). *)
From Coq Require Import List NArith ZArith Bool.
From CV Require Import Swar.
Import ListNotations.
Open Scope N_scope.

Theorem C18_has_zero_byte_first : forall bs, length bs = 8%nat -> Forall (fun b => b < 256) bs ->
  match first_index (fun b => b =? 0) bs with
  | Some i => haszero (le bs) <> 0 /\ (tz64 (haszero (le bs)) / 8)%nat = i
  | None => haszero (le bs) = 0
  end.
Proof. exact Swar.has_zero_byte_first. Qed.
Print Assumptions C18_has_zero_byte_first.

Theorem C18_has_zero_byte_first_word : forall x, x < 2 ^ 64 ->
  match first_index (fun b => b =? 0) (bytes_of 8 x) with
  | Some i => haszero x <> 0 /\ (tz64 (haszero x) / 8)%nat = i
  | None => haszero x = 0
  end.
Proof. exact Swar.has_zero_byte_first_word. Qed.
Print Assumptions C18_has_zero_byte_first_word.

Theorem C18_memchr_swar_correct : forall h c, c < 256 -> Forall (fun b => b < 256) h ->
  memchr_swar h c = memchr_spec h c.
Proof. exact Swar.memchr_swar_correct. Qed.
Print Assumptions C18_memchr_swar_correct.

Theorem C18_memchr2_swar_correct : forall h c1 c2, c1 < 256 -> c2 < 256 ->
  Forall (fun b => b < 256) h -> memchr2_swar h c1 c2 = memchr2_spec h c1 c2.
Proof. exact Swar.memchr2_swar_correct. Qed.
Print Assumptions C18_memchr2_swar_correct.

Theorem C18_memchr3_swar_correct : forall h c1 c2 c3, c1 < 256 -> c2 < 256 -> c3 < 256 ->
  Forall (fun b => b < 256) h -> memchr3_swar h c1 c2 c3 = memchr3_spec h c1 c2 c3.
Proof. exact Swar.memchr3_swar_correct. Qed.
Print Assumptions C18_memchr3_swar_correct.

Theorem C18_memchr_pair_swar_correct : forall h b1 b2 offset, b1 < 256 -> b2 < 256 ->
  Forall (fun b => b < 256) h -> memchr_pair_swar h b1 b2 offset = memchr_pair_spec h b1 b2 offset.
Proof. exact Swar.memchr_pair_swar_correct. Qed.
Print Assumptions C18_memchr_pair_swar_correct.

Theorem C18_swar_reads_in_bounds : forall h b1 b2 offset, b1 < 256 -> b2 < 256 ->
  Forall (fun b => b < 256) h ->
  memchr_pair_swar h b1 b2 offset <> PANIC /\ memchr_pair_swar h b1 b2 offset <> OUT_OF_FUEL.
Proof. exact Swar.swar_reads_in_bounds. Qed.
Print Assumptions C18_swar_reads_in_bounds.

Theorem C18_memchr_digit_model_correct : forall h, memchr_digit_model h = memchr_digit_spec h.
Proof. exact Swar.memchr_digit_model_correct. Qed.
Print Assumptions C18_memchr_digit_model_correct.

Theorem C18_memchr_digit_at_model_correct : forall h at_,
  memchr_digit_at_model h at_ = memchr_digit_at_spec h at_.
Proof. exact Swar.memchr_digit_at_model_correct. Qed.
Print Assumptions C18_memchr_digit_at_model_correct.

Theorem C18_memchr_word_model_correct : forall h, memchr_word_model h = memchr_word_spec h.
Proof. exact Swar.memchr_word_model_correct. Qed.
Print Assumptions C18_memchr_word_model_correct.

Theorem C18_memchr_not_word_model_correct : forall h,
  memchr_not_word_model h = memchr_not_word_spec h.
Proof. exact Swar.memchr_not_word_model_correct. Qed.
Print Assumptions C18_memchr_not_word_model_correct.

Theorem C18_memchr_in_table_model_correct : forall tbl h,
  memchr_in_table_model tbl h = memchr_in_table_spec tbl h.
Proof. exact Swar.memchr_in_table_model_correct. Qed.
Print Assumptions C18_memchr_in_table_model_correct.

Theorem C18_memchr_not_in_table_model_correct : forall tbl h,
  memchr_not_in_table_model tbl h = memchr_not_in_table_spec tbl h.
Proof. exact Swar.memchr_not_in_table_model_correct. Qed.
Print Assumptions C18_memchr_not_in_table_model_correct.

Theorem C18_is_ascii_swar_correct : forall h, Forall (fun b => b < 256) h ->
  is_ascii_swar h = Some (is_ascii_spec h).
Proof. exact Swar.is_ascii_swar_correct. Qed.
Print Assumptions C18_is_ascii_swar_correct.

Theorem C18_count_non_ascii_model_correct : forall h,
  count_non_ascii_model h = count_non_ascii_spec h.
Proof. exact Swar.count_non_ascii_model_correct. Qed.
Print Assumptions C18_count_non_ascii_model_correct.

Theorem C18_first_non_ascii_model_correct : forall h,
  first_non_ascii_model h = first_non_ascii_spec h.
Proof. exact Swar.first_non_ascii_model_correct. Qed.
Print Assumptions C18_first_non_ascii_model_correct.

Theorem C18_memmem_model_correct : forall h n, memmem_model h n = memmem_spec h n.
Proof. exact Swar.memmem_model_correct. Qed.
Print Assumptions C18_memmem_model_correct.

Theorem C18_memmem_model_total : forall h n,
  memmem_model h n <> OUT_OF_FUEL /\ memmem_model h n <> PANIC.
Proof. exact Swar.memmem_model_total. Qed.
Print Assumptions C18_memmem_model_total.
