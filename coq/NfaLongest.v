(* NfaLongest.v — what the exhaustive search `dfsl` of Nfa.v (nfa/backtrack.go:
   backtrackFindLongestWithState) and the leftmost-longest reference `find_at_longest`,
   `match_ends` compute, stated against the path semantics `nfa_path` (property C10):
     dfsl_inv              : invariant of one exploration over an arbitrary visited set
     dfsl_spec             : from a set that is empty on the domain: Done r with r the MAXIMUM
                             of { e | nfa_path A h q p e } (None iff there is no path), and the
                             final set is exactly the set of reachable configurations
     dfsl_pset_total       : fuel |N|*(|h|+1)+1 is never exhausted (PositiveSet instance)
     find_at_longest_spec / _none / _total : leftmost start, maximal end
     match_ends_spec       : all ends of accepting paths from one start, sorted, no duplicates
     longest_ge_first      : same start as leftmost-first, end at least as large
     ref_search_at_longest_eq / bt_longest_is_find_at_longest : the backtracker in longest
                             mode returns find_at_longest
   and a small model of where the mode flag lives (regex.go: Longest, Copy, CompilePOSIX;
   meta/engine.go: SetLongest, getSearchState, putSearchState; meta/search_state.go: reset):
     mode_is_per_value, search_state_gets_mode.                                            *)
From Coq Require Import List NArith ZArith Lia Bool Arith PeanoNat Sorted.
From Coq Require Import FSets.FSetPositive.
From Coq Require Import ZifyBool ZifyNat ZifyN.
From CV Require Import Nfa NfaRef Backtrack.
Import ListNotations.

(* ------------------------------------------------------------------ maxima *)
(* r is the maximum of the set P of naturals (None: P is empty) *)
Definition is_max (P : nat -> Prop) (r : option nat) : Prop :=
  match r with
  | None => forall e, ~ P e
  | Some e => P e /\ forall e', P e' -> e' <= e
  end.

Lemma is_max_ext (P Q : nat -> Prop) r : (forall e, P e <-> Q e) -> is_max P r -> is_max Q r.
Proof.
  intros HPQ. destruct r as [e|]; cbn [is_max].
  - intros [H1 H2]. split; [now apply HPQ|]. intros e' He'. apply H2. now apply HPQ.
  - intros H e He. apply (H e). now apply HPQ.
Qed.

Lemma is_max_omax (P Q : nat -> Prop) a b :
  is_max P a -> is_max Q b -> is_max (fun e => P e \/ Q e) (omax a b).
Proof.
  destruct a as [x|], b as [y|]; cbn [is_max omax].
  - intros [Hx Hx'] [Hy Hy']. split.
    + destruct (Nat.max_spec x y) as [[_ ->]|[_ ->]]; auto.
    + intros e' [He'|He']; [apply Hx' in He'|apply Hy' in He']; lia.
  - intros [Hx Hx'] Hn. split; [now left|]. intros e' [He'|He']; [now apply Hx'|now apply Hn in He'].
  - intros Hn [Hy Hy']. split; [now right|]. intros e' [He'|He']; [now apply Hn in He'|now apply Hy'].
  - intros Hn Hn' e [He|He]; [now apply (Hn e)|now apply (Hn' e)].
Qed.

Lemma is_max_unique (P : nat -> Prop) a b : is_max P a -> is_max P b -> a = b.
Proof.
  destruct a as [x|], b as [y|]; cbn [is_max].
  - intros [Hx Hx'] [Hy Hy']. f_equal. apply Hx' in Hy. apply Hy' in Hx. lia.
  - intros [Hx _] Hn. now apply Hn in Hx.
  - intros Hn [Hy _]. now apply Hn in Hy.
  - reflexivity.
Qed.

Lemma omax_None_l r : omax None r = r.
Proof. destruct r; reflexivity. Qed.

(* ------------------------------------------------------------------ the exhaustive search,
   over any representation of the visited set that satisfies the set laws on the domain *)
Section Gen.
  Variable A : nfa.
  Variable h : hay.
  Variable VS : Type.
  Variable mem : nat -> nat -> VS -> bool.
  Variable add : nat -> nat -> VS -> VS.
  Variable lo : nat.
  Hypothesis add_same : forall q p V, dom A h lo (q, p) -> mem q p (add q p V) = true.
  Hypothesis add_other : forall q p q' p' V, dom A h lo (q, p) -> dom A h lo (q', p') ->
      (q, p) <> (q', p') -> mem q' p' (add q p V) = mem q' p' V.
  Hypothesis Hwf : wf_nfa A = true.

  Local Notation dom' := (dom A h lo).
  Local Notation inV' := (inV A h VS mem lo).
  Local Notation vsub' := (vsub A h VS mem lo).

  Lemma inV_add' q p V c : dom' (q, p) -> dom' c -> (inV' (add q p V) c <-> c = (q, p) \/ inV' V c).
  Proof. apply (inV_add A h VS mem add lo add_same add_other). Qed.

  Lemma inV_dec V c : inV' V c \/ ~ inV' V c.
  Proof.
    unfold inV. destruct (mem (fst c) (snd c) V) eqn:E.
    - destruct c as [q p]. unfold dom; cbn [fst snd].
      destruct (lt_dec q (nstates A)); [|right; tauto].
      destruct (le_dec lo p); [|right; intros [[_ [? _]] _]; tauto].
      destruct (le_dec p (length h)); [|right; intros [[_ [_ ?]] _]; tauto].
      left. tauto.
    - right. intros [_ H]. discriminate.
  Qed.

  (* every visited configuration that is not on the stack S has all its successors visited *)
  Definition closedL (V : VS) (S : list (nat * nat)) : Prop :=
    forall c, inV' V c -> ~ In c S -> forall c', edge A h c c' -> inV' V c'.

  (* configurations added between V and V' *)
  Definition newin (V V' : VS) (c : nat * nat) : Prop := inV' V' c /\ ~ inV' V c.

  (* positions of the accepting configurations added between V and V' *)
  Definition newacc (V V' : VS) (e : nat) : Prop :=
    exists c, newin V V' c /\ accepting A c /\ snd c = e.

  Lemma newin_trans V0 V1 V2 c :
    vsub' V0 V1 -> vsub' V1 V2 -> (newin V0 V2 c <-> newin V0 V1 c \/ newin V1 V2 c).
  Proof.
    intros H01 H12. unfold newin. split.
    - intros [H2 H0]. destruct (inV_dec V1 c) as [H1|H1]; [left|right]; tauto.
    - intros [[H1 H0]|[H2 H1]]; split; auto.
  Qed.

  Lemma newacc_trans V0 V1 V2 e :
    vsub' V0 V1 -> vsub' V1 V2 -> (newacc V0 V2 e <-> newacc V0 V1 e \/ newacc V1 V2 e).
  Proof.
    intros H01 H12. unfold newacc. split.
    - intros [c [Hc Ha]]. apply (newin_trans V0 V1 V2 c H01 H12) in Hc.
      destruct Hc as [Hc|Hc]; [left|right]; exists c; tauto.
    - intros [[c [Hc Ha]]|[c [Hc Ha]]]; exists c; (split; [|exact Ha]);
        apply (newin_trans V0 V1 V2 c H01 H12); tauto.
  Qed.

  Lemma reach_dom c c' : reach A h c c' -> dom' c -> dom' c'.
  Proof.
    induction 1 as [c|c c1 c2 He Hr IH]; intros Hd; [exact Hd|].
    apply IH. destruct He as [st [sl [sl' [Hst Hin]]]].
    destruct c as [q p], c1 as [q1 p1]. cbn [fst snd] in *.
    eapply (dom_succ A h lo Hwf); eauto.
  Qed.

  Lemma reach_snoc c1 c2 c3 : reach A h c1 c2 -> edge A h c2 c3 -> reach A h c1 c3.
  Proof. intros H He. eapply reach_trans; [exact H|]. econstructor; [exact He|constructor]. Qed.

  (* the invariant of one exploration *)
  Lemma dfsl_inv f : forall q p V r V' S,
    dom' (q, p) ->
    dfsl A h VS mem add f q p V = (Done r, V') -> closedL V S ->
    closedL V' S /\ vsub' V V' /\ inV' V' (q, p) /\
    (forall c, newin V V' c -> reach A h (q, p) c) /\
    is_max (newacc V V') r.
  Proof.
    induction f as [|f IH]; intros q p V r V' S Hd H Hcl; [discriminate|].
    rewrite dfsl_unfold in H.
    destruct (nth_error (states A) q) as [st|] eqn:Hst.
    2:{ apply nth_error_None in Hst. destruct Hd as [Hq _]. unfold nstates in Hq. cbn in Hq. lia. }
    destruct (mem q p V) eqn:Hv.
    { inversion H; subst. split; [exact Hcl|]. split; [intros c Hc; exact Hc|].
      split; [split; [exact Hd|exact Hv]|]. split.
      - intros c [H1 H2]. now exfalso.
      - cbn [is_max]. intros e [c [[H1 H2] _]]. now apply H2. }
    assert (Hnot : ~ inV' V (q, p)).
    { intros [_ Hc]. cbn [fst snd] in Hc. congruence. }
    assert (Hx1 : inV' (add q p V) (q, p)) by (apply (inV_add' q p V (q, p) Hd Hd); now left).
    assert (Hsub1 : vsub' V (add q p V)) by (intros c Hc; apply (inV_add' q p V c Hd (proj1 Hc)); now right).
    assert (Hnew1 : forall c, newin V (add q p V) c <-> c = (q, p)).
    { intros c. unfold newin. split.
      - intros [H1 H2]. apply (inV_add' q p V c Hd (proj1 H1)) in H1. tauto.
      - intros ->. tauto. }
    destruct (is_match_state st) eqn:Hm.
    - (* a Match state: recorded, not expanded *)
      inversion H; subst r V'. assert (st = SMatch) by (destruct st; try discriminate; reflexivity). subst st.
      split; [|split; [exact Hsub1|split; [exact Hx1|split]]].
      + intros c Hc Hn c' He. pose proof (proj1 Hc) as Hdc.
        apply (inV_add' q p V c Hd Hdc) in Hc. destruct Hc as [Hc|Hc].
        * subst c. destruct He as [st' [s1 [s2 [Hst' Hin']]]]. cbn [fst snd] in *.
          rewrite Hst in Hst'. inversion Hst'; subst st'. cbn [succs] in Hin'. destruct Hin'.
        * apply Hsub1. eapply Hcl; eauto.
      + intros c Hc. apply Hnew1 in Hc. subst c. constructor.
      + cbn [is_max]. split.
        * exists (q, p). split; [now apply Hnew1|]. split; [exact Hst|reflexivity].
        * intros e' [c [Hc [_ He']]]. apply Hnew1 in Hc. subst c. cbn [snd] in He'. lia.
    - (* expand the successors with (q,p) on the stack *)
      assert (Hnacc : ~ accepting A (q, p)).
      { unfold accepting. cbn [fst]. rewrite Hst. intros Heq. inversion Heq; subst. discriminate. }
      assert (Hcl1 : closedL (add q p V) ((q, p) :: S)).
      { intros c Hc Hn c' He. pose proof (proj1 Hc) as Hdc. apply (inV_add' q p V c Hd Hdc) in Hc.
        destruct Hc as [Hc|Hc].
        - exfalso. apply Hn. left. now subst.
        - assert (Hn' : ~ In c S) by (intros Hi; apply Hn; now right).
          apply Hsub1. eapply Hcl; eauto. }
      assert (Hgen : forall cs best V0 r0 V1,
                 (forall y, In y cs -> In y (succs h st p [])) ->
                 dfsl_list A h VS mem add f cs best V0 = (Done r0, V1) -> closedL V0 ((q, p) :: S) ->
                 closedL V1 ((q, p) :: S) /\ vsub' V0 V1 /\
                 (forall q' p' s', In (q', p', s') cs -> inV' V1 (q', p')) /\
                 (forall c, newin V0 V1 c -> exists q' p' s', In (q', p', s') cs /\ reach A h (q', p') c) /\
                 exists rn, is_max (newacc V0 V1) rn /\ r0 = omax best rn).
      { induction cs as [|[[q1 p1] sl1] cs IHcs]; intros best V0 r0 V1 Hin Hd0 Hc0.
        - cbn [dfsl_list] in Hd0. inversion Hd0; subst. split; [exact Hc0|]. split; [intros c Hc; exact Hc|].
          split; [intros ? ? ? []|]. split; [intros c [H1 H2]; now exfalso|].
          exists None. split; [|match goal with |- ?x = omax ?x None => destruct x; reflexivity end].
          cbn [is_max]. intros e [c [[H1 H2] _]]. now apply H2.
        - cbn [dfsl_list] in Hd0.
          destruct (dfsl A h VS mem add f q1 p1 V0) as [[|r1] V2] eqn:E1; [discriminate|].
          assert (Hd1 : dom' (q1, p1)).
          { eapply (dom_succ A h lo Hwf); [exact Hd|exact Hst|]. apply Hin. now left. }
          destruct (IH _ _ _ _ _ _ Hd1 E1 Hc0) as [Hc2 [Hs2 [Hi2 [Hr2 Hm2]]]].
          destruct (IHcs (omax best r1) V2 r0 V1 (fun y Hy => Hin y (or_intror Hy)) Hd0 Hc2)
            as [Hc3 [Hs3 [Hi3 [Hr3 [rn [Hm3 Hr0]]]]]].
          split; [exact Hc3|]. split; [intros c Hc; apply Hs3, Hs2, Hc|]. split; [|split].
          + intros q' p' s' [Hy|Hy].
            * inversion Hy; subst. apply Hs3. exact Hi2.
            * eapply Hi3; eauto.
          + intros c Hc. apply (newin_trans V0 V2 V1 c Hs2 Hs3) in Hc. destruct Hc as [Hc|Hc].
            * exists q1, p1, sl1. split; [now left|]. now apply Hr2.
            * destruct (Hr3 c Hc) as [q' [p' [s' [Hy Hr]]]]. exists q', p', s'. split; [now right|exact Hr].
          + exists (omax r1 rn). split.
            * eapply is_max_ext; [|apply (is_max_omax _ _ _ _ Hm2 Hm3)].
              intros e. cbn beta. symmetry. apply (newacc_trans V0 V2 V1 e Hs2 Hs3).
            * rewrite Hr0. destruct best, r1, rn; cbn [omax]; f_equal; lia. }
      destruct (Hgen _ _ _ _ _ (fun y Hy => Hy) H Hcl1) as [Hc2 [Hs2 [Hi2 [Hr2 [rn [Hm2 Hr0]]]]]].
      rewrite omax_None_l in Hr0. subst rn.
      split; [|split; [|split; [|split]]].
      + (* closedL V' S: (q,p) itself is now fully explored *)
        intros c Hc Hn c' He.
        destruct (Nat.eq_dec (fst c) q) as [Hcq|Hcq]; [destruct (Nat.eq_dec (snd c) p) as [Hcp|Hcp]|].
        * destruct c as [cq cp]. cbn [fst snd] in Hcq, Hcp. subst cq cp.
          destruct He as [st' [s1 [s2 [Hst' Hin']]]]. cbn [fst snd] in *.
          rewrite Hst in Hst'. inversion Hst'; subst st'.
          destruct (succs_slots_irrel h st p s1 [] _ _ _ Hin') as [s3 Hin3].
          destruct c' as [q' p']. eapply Hi2. exact Hin3.
        * eapply Hc2; [exact Hc| |exact He]. intros [Hi|Hi]; [|now apply Hn]. subst c. cbn in Hcp. lia.
        * eapply Hc2; [exact Hc| |exact He]. intros [Hi|Hi]; [|now apply Hn]. subst c. cbn in Hcq. lia.
      + intros c Hc. apply Hs2, Hsub1, Hc.
      + apply Hs2. exact Hx1.
      + intros c Hc. apply (newin_trans V (add q p V) V' c Hsub1 Hs2) in Hc. destruct Hc as [Hc|Hc].
        * apply Hnew1 in Hc. subst c. constructor.
        * destruct (Hr2 c Hc) as [q' [p' [s' [Hy Hr]]]]. econstructor; [|exact Hr].
          exists st, [], s'. split; [exact Hst|exact Hy].
      + eapply is_max_ext; [|exact Hm2]. intros e. split.
        * intros [c [Hc Ha]]. exists c. split; [|exact Ha].
          apply (newin_trans V (add q p V) V' c Hsub1 Hs2). now right.
        * intros [c [Hc Ha]]. apply (newin_trans V (add q p V) V' c Hsub1 Hs2) in Hc.
          destruct Hc as [Hc|Hc]; [|exists c; tauto].
          apply Hnew1 in Hc. subst c. exfalso. now apply Hnacc.
  Qed.

  Lemma closedL_reach V : closedL V [] -> forall c c', reach A h c c' -> inV' V c -> inV' V c'.
  Proof.
    intros Hcl c c' Hr. induction Hr as [c|c c1 c2 He Hr IH]; intros Hc; [exact Hc|].
    apply IH. eapply Hcl; eauto.
  Qed.

  (* C10, one exploration from a set that is empty on the domain *)
  Theorem dfsl_spec_gen f q p V r V' :
    dom' (q, p) -> (forall q' p', dom' (q', p') -> mem q' p' V = false) ->
    dfsl A h VS mem add f q p V = (Done r, V') ->
    is_max (nfa_path A h q p) r /\ (forall c, inV' V' c <-> reach A h (q, p) c).
  Proof.
    intros Hd Hemp H.
    assert (Hno : forall c, ~ inV' V c).
    { intros [q' p'] [Hdc Hc]. cbn [fst snd] in Hc. rewrite (Hemp q' p' Hdc) in Hc. discriminate. }
    assert (Hcl : closedL V []) by (intros c Hc; exfalso; now apply (Hno c)).
    destruct (dfsl_inv f q p V r V' [] Hd H Hcl) as [Hc' [_ [Hin [Hr Hm]]]].
    assert (Hiff : forall c, inV' V' c <-> reach A h (q, p) c).
    { intros c. split.
      - intros Hc. apply Hr. split; [exact Hc|apply Hno].
      - intros Hrc. eapply closedL_reach; eauto. }
    split; [|exact Hiff].
    eapply is_max_ext; [|exact Hm]. intros e. split.
    - intros [c [[Hc _] [Ha He]]]. destruct c as [q' e']. cbn [snd] in He. subst e'.
      exists q'. split; [now apply Hiff|exact Ha].
    - intros [q' [Hrc Ha]]. exists (q', e). split; [split; [now apply Hiff|apply Hno]|]. split; [exact Ha|reflexivity].
  Qed.
End Gen.

(* ------------------------------------------------------------------ the PositiveSet instance *)
Section Ref.
  Variable A : nfa.
  Variable h : hay.
  Hypothesis Hwf : wf_nfa A = true.

  Local Notation n := (nstates A).
  Local Notation pdfsl := (dfsl A h PositiveSet.t (pmem n) (padd n)).
  Local Notation pinV := (inV A h PositiveSet.t (pmem n)).

  (* the fuel is never exhausted: the same run on the generation-stamped table of the
     backtracker writes one of its |N|*(|h|-lo+1) cells per unit of fuel (Backtrack.dfsl_sim) *)
  Theorem dfsl_pset_total lo q p :
    lo <= length h -> dom A h lo (q, p) ->
    fst (pdfsl (fuel_for A h) q p PositiveSet.empty) <> OutOfFuel.
  Proof.
    intros Hlo Hd.
    pose proof (bt_inv_fresh W16 HW16) as Hfresh.
    destruct (reset_spec W16 HW16 A bt_fresh (length h - lo) Hfresh) as [R1 [R2 [R3 [R4 _]]]].
    destruct (bt_reset_empty W16 HW16 A bt_fresh h lo 0 0 Hfresh Hlo) as [Hok _].
    set (st0 := set_span (reset W16 A false bt_fresh (length h - lo)) lo) in *.
    assert (I0 : bt_inv W16 st0) by exact R1.
    assert (E0 : bt_empty st0) by exact R2.
    assert (Hv : vlen st0 = n * (length h - lo + 1)) by exact R4.
    pose proof (Rel_init W16 HW16 A h lo st0 Hok I0 E0) as HR0.
    destruct (dfsl_sim A h bstate PositiveSet.t Backtrack.vmem Backtrack.vadd (pmem n) (padd n) lo
                (Rel A h lo st0) bfree
                (fun q p V1 V2 Hd H => Rel_mem A h lo st0 q p V1 V2 Hd H)
                (fun q p V1 V2 Hd H Hv => Rel_add W16 HW16 A h lo st0 q p V1 V2 Hok Hd H Hv)
                Hwf (fuel_for A h) q p st0 PositiveSet.empty Hd HR0) as [E [_ Hfu]].
    rewrite <- E. apply Hfu. unfold bfree, fuel_for. rewrite Hv.
    assert (length h - lo + 1 <= length h + 1) by lia. nia.
  Qed.

  (* C10 dfsl_spec: started on the empty set with the reference fuel, the exploration
     terminates normally, returns the maximal end of an accepting path (None iff there is
     none), and its final set is exactly the set of reachable configurations *)
  Theorem dfsl_spec lo q p :
    lo <= length h -> dom A h lo (q, p) ->
    exists r V',
      pdfsl (fuel_for A h) q p PositiveSet.empty = (Done r, V') /\
      (r = None <-> forall e, ~ nfa_path A h q p e) /\
      (forall e, r = Some e <-> nfa_path A h q p e /\ forall e', nfa_path A h q p e' -> e' <= e) /\
      (forall c, pinV lo V' c <-> reach A h (q, p) c).
  Proof.
    intros Hlo Hd. pose proof (dfsl_pset_total lo q p Hlo Hd) as Htot.
    destruct (pdfsl (fuel_for A h) q p PositiveSet.empty) as [[|r] V'] eqn:E; [now exfalso|].
    exists r, V'. split; [reflexivity|].
    destruct (dfsl_spec_gen A h PositiveSet.t (pmem n) (padd n) lo (pset_same A h lo) (pset_other A h lo) Hwf
                _ q p PositiveSet.empty r V' Hd (fun q' p' _ => pmem_empty n q' p') E) as [Hm Hiff].
    split; [|split; [|exact Hiff]].
    - split.
      + intros ->. exact Hm.
      + intros Hn. destruct r as [e|]; [|reflexivity]. destruct Hm as [Hp _]. now apply Hn in Hp.
    - intros e. split.
      + intros ->. exact Hm.
      + intros He. apply (is_max_unique (nfa_path A h q p)); [exact Hm|exact He].
  Qed.

  (* ---------------- one start position *)
  Lemma explore_from_spec s :
    s <= length h ->
    exists r V',
      explore_from (fuel_for A h) A h s = (Done r, V') /\
      is_max (nfa_path A h (start_anch A) s) r /\
      (forall c, pinV 0 V' c <-> reach A h (start_anch A, s) c).
  Proof.
    intros Hs. assert (Hd : dom A h 0 (start_anch A, s)) by (apply start_dom; [exact Hwf|lia]).
    destruct (dfsl_spec 0 (start_anch A) s ltac:(lia) Hd) as [r [V' [E [H1 [H2 H3]]]]].
    exists r, V'. split; [exact E|]. split; [|exact H3].
    destruct r as [e|]; cbn [is_max]; [now apply H2|now apply H1].
  Qed.

  (* ---------------- the loop over start positions *)
  Lemma fll_some : forall k s s' e,
    s + k <= length h ->
    find_longest_loop (fuel_for A h) A h k s = Done (Some (s', e)) ->
    s <= s' <= s + k /\ is_max (nfa_path A h (start_anch A) s') (Some e) /\
    forall s'', s <= s'' < s' -> forall e', ~ nfa_path A h (start_anch A) s'' e'.
  Proof.
    induction k as [|k IH]; intros s s' e Hk H; cbn [find_longest_loop] in H;
      destruct (explore_from_spec s ltac:(lia)) as [r [V' [E [Hm _]]]]; rewrite E in H; cbn [fst] in H;
      destruct r as [e0|]; try discriminate.
    - inversion H; subst. split; [lia|]. split; [exact Hm|]. intros; lia.
    - inversion H; subst. split; [lia|]. split; [exact Hm|]. intros; lia.
    - destruct (IH (S s) s' e ltac:(lia) H) as [H1 [H2 H3]].
      split; [lia|]. split; [exact H2|].
      intros s'' Hs'' e'. destruct (Nat.eq_dec s'' s) as [->|Hne]; [apply Hm|apply H3; lia].
  Qed.

  Lemma fll_none : forall k s,
    s + k <= length h ->
    find_longest_loop (fuel_for A h) A h k s = Done None ->
    forall s', s <= s' <= s + k -> forall e, ~ nfa_path A h (start_anch A) s' e.
  Proof.
    induction k as [|k IH]; intros s Hk H s' Hs' e; cbn [find_longest_loop] in H;
      destruct (explore_from_spec s ltac:(lia)) as [r [V' [E [Hm _]]]]; rewrite E in H; cbn [fst] in H;
      destruct r as [e0|]; try discriminate.
    - assert (s' = s) by lia. subst. apply Hm.
    - destruct (Nat.eq_dec s' s) as [->|Hne]; [apply Hm|].
      apply (IH (S s) ltac:(lia) H s' ltac:(lia)).
  Qed.

  Lemma fll_total : forall k s,
    s + k <= length h -> find_longest_loop (fuel_for A h) A h k s <> OutOfFuel.
  Proof.
    induction k as [|k IH]; intros s Hk; cbn [find_longest_loop];
      destruct (explore_from_spec s ltac:(lia)) as [r [V' [E _]]]; rewrite E; cbn [fst];
      destruct r as [e0|]; try discriminate.
    apply IH. lia.
  Qed.

  Theorem find_at_longest_total at_ : find_at_longest A h at_ <> OutOfFuel.
  Proof.
    unfold find_at_longest. destruct (Nat.ltb_spec (length h) at_) as [Hlt|Hle]; [discriminate|].
    apply fll_total. lia.
  Qed.

  (* the reference specification of a leftmost-longest answer *)
  Definition leftmost_longest (at_ s e : nat) : Prop :=
    at_ <= s <= length h /\
    nfa_path A h (start_anch A) s e /\
    (forall e', nfa_path A h (start_anch A) s e' -> e' <= e) /\
    (forall s', at_ <= s' < s -> forall e', ~ nfa_path A h (start_anch A) s' e').

  Definition no_match_from (at_ : nat) : Prop :=
    forall s, at_ <= s <= length h -> forall e, ~ nfa_path A h (start_anch A) s e.

  Lemma leftmost_longest_unique at_ s e s' e' :
    leftmost_longest at_ s e -> leftmost_longest at_ s' e' -> s = s' /\ e = e'.
  Proof.
    intros [H1 [H2 [H3 H4]]] [H1' [H2' [H3' H4']]].
    assert (s = s').
    { destruct (Nat.lt_trichotomy s s') as [Hlt|[Heq|Hgt]]; [|exact Heq|].
      - exfalso. apply (H4' s ltac:(lia) e H2).
      - exfalso. apply (H4 s' ltac:(lia) e' H2'). }
    subst s'. split; [reflexivity|]. apply H3 in H2'. apply H3' in H2. lia.
  Qed.

  Lemma find_at_longest_some_fwd at_ s e :
    find_at_longest A h at_ = Done (Some (s, e)) -> leftmost_longest at_ s e.
  Proof.
    unfold find_at_longest. destruct (Nat.ltb_spec (length h) at_) as [Hlt|Hle]; [discriminate|].
    intros H. destruct (fll_some (length h - at_) at_ s e ltac:(lia) H) as [H1 [[H2 H3] H4]].
    unfold leftmost_longest. repeat split; try lia; auto.
  Qed.

  Lemma find_at_longest_none_fwd at_ :
    find_at_longest A h at_ = Done None -> no_match_from at_.
  Proof.
    unfold find_at_longest, no_match_from. destruct (Nat.ltb_spec (length h) at_) as [Hlt|Hle].
    - intros _ s Hs. lia.
    - intros H s Hs. apply (fll_none (length h - at_) at_ ltac:(lia) H s). lia.
  Qed.

  (* C10: the answer is the leftmost start that has an accepting path and, among the paths
     from that start, the maximal end *)
  Theorem find_at_longest_spec at_ s e :
    find_at_longest A h at_ = Done (Some (s, e)) <-> leftmost_longest at_ s e.
  Proof.
    split; [apply find_at_longest_some_fwd|]. intros Hll.
    destruct (find_at_longest A h at_) as [|[[s' e']|]] eqn:E.
    - exfalso. now apply (find_at_longest_total at_).
    - apply find_at_longest_some_fwd in E.
      destruct (leftmost_longest_unique _ _ _ _ _ E Hll) as [-> ->]. reflexivity.
    - exfalso. apply find_at_longest_none_fwd in E. destruct Hll as [H1 [H2 _]]. apply (E s H1 e H2).
  Qed.

  Theorem find_at_longest_none at_ :
    find_at_longest A h at_ = Done None <-> no_match_from at_.
  Proof.
    split; [apply find_at_longest_none_fwd|]. intros Hno.
    destruct (find_at_longest A h at_) as [|[[s' e']|]] eqn:E.
    - exfalso. now apply (find_at_longest_total at_).
    - exfalso. apply find_at_longest_some_fwd in E. destruct E as [H1 [H2 _]]. apply (Hno s' H1 e' H2).
    - reflexivity.
  Qed.

  (* ---------------- all match ends from one start *)
  Lemma seq_ssorted a k : StronglySorted lt (seq a k).
  Proof.
    revert a. induction k as [|k IH]; intros a; cbn [seq]; constructor; [apply IH|].
    apply Forall_forall. intros x Hx. apply in_seq in Hx. lia.
  Qed.

  Lemma filter_ssorted (f : nat -> bool) l : StronglySorted lt l -> StronglySorted lt (filter f l).
  Proof.
    induction 1 as [|x l Hl IH Hx]; cbn [filter]; [constructor|].
    destruct (f x); [|exact IH]. constructor; [exact IH|].
    apply Forall_forall. intros y Hy. apply filter_In in Hy. destruct Hy as [Hy _].
    rewrite Forall_forall in Hx. now apply Hx.
  Qed.

  Lemma ssorted_nodup l : StronglySorted lt l -> NoDup l.
  Proof.
    induction 1 as [|x l Hl IH Hx]; constructor; [|exact IH].
    intros Hin. rewrite Forall_forall in Hx. apply Hx in Hin. lia.
  Qed.

  Theorem match_ends_total s : s <= length h -> match_ends A h s <> OutOfFuel.
  Proof.
    intros Hs. unfold match_ends. destruct (explore_from_spec s Hs) as [r [V' [E _]]]. rewrite E. discriminate.
  Qed.

  (* C10 (and the reference for reverse searches): the list contains exactly the ends of the
     accepting paths from s, in increasing order *)
  Theorem match_ends_spec s l :
    s <= length h -> match_ends A h s = Done l ->
    (forall e, In e l <-> nfa_path A h (start_anch A) s e) /\ StronglySorted lt l /\ NoDup l.
  Proof.
    intros Hs. unfold match_ends. destruct (explore_from_spec s Hs) as [r [V' [E [_ Hiff]]]]. rewrite E.
    intros H. inversion H as [Hl]. clear H.
    match goal with |- context [filter ?f (seq s ?k)] => set (F := f); set (K := k) end.
    assert (Hss : StronglySorted lt (filter F (seq s K))) by (apply filter_ssorted, seq_ssorted).
    split; [|split; [exact Hss|now apply ssorted_nodup]].
    intros e. rewrite filter_In, in_seq. unfold F, K. rewrite existsb_exists. split.
    - intros [He [q [Hq Hm]]]. apply filter_In in Hq. destruct Hq as [Hq Hst]. apply in_seq in Hq.
      destruct (nth_error (states A) q) as [st|] eqn:Hnth; [|discriminate].
      destruct st; try discriminate.
      exists q. split; [|exact Hnth].
      apply (Hiff (q, e)). split; [|exact Hm]. split; cbn [fst snd]; lia.
    - intros [q [Hr Ha]].
      pose proof (proj2 (Hiff (q, e)) Hr) as [[Hq [_ Hu]] Hm]. cbn [fst snd] in *.
      pose proof (reach_pos A h Hwf _ _ Hr Hs) as Hp. cbn [fst snd] in Hp.
      split; [lia|]. exists q. split; [|exact Hm].
      apply filter_In. split; [apply in_seq; lia|]. unfold accepting in Ha. cbn [fst] in Ha. now rewrite Ha.
  Qed.

  (* ---------------- relation to the leftmost-first reference *)
  Theorem longest_ge_first at_ s e sl s' e' :
    find_at A h at_ = Done (Some (s, e, sl)) ->
    find_at_longest A h at_ = Done (Some (s', e')) ->
    s' = s /\ e <= e'.
  Proof.
    intros H1 H2. destruct (find_at_some A h Hwf _ _ _ _ H1) as [F1 [F2 [F3 [F4 F5]]]].
    apply find_at_longest_some_fwd in H2. destruct H2 as [L1 [L2 [L3 L4]]].
    assert (s' = s).
    { destruct (Nat.lt_trichotomy s s') as [Hlt|[Heq|Hgt]]; [|now symmetry|].
      - exfalso. apply (L4 s ltac:(lia) e F4).
      - exfalso. apply (F5 s' ltac:(lia) e' L2). }
    subst s'. split; [reflexivity|]. now apply L3.
  Qed.

  (* the two references agree on whether and where a match starts *)
  Theorem longest_none_iff_first_none at_ :
    find_at_longest A h at_ = Done None <-> find_at A h at_ = Done None.
  Proof.
    rewrite find_at_longest_none. split.
    - intros Hno. destruct (find_at A h at_) as [|[[[s e] sl]|]] eqn:E; [|exfalso|reflexivity].
      + exfalso. now apply (find_at_total A h Hwf at_).
      + destruct (find_at_some A h Hwf _ _ _ _ E) as [F1 [F2 [F3 [F4 _]]]]. apply (Hno s ltac:(lia) e F4).
    - intros H. exact (find_at_none A h Hwf at_ H).
  Qed.
End Ref.

(* ------------------------------------------------------------------ the backtracker in longest mode *)
Lemma ref_sa_loop_longest A h f k s : ref_sa_loop A true h f k s = find_longest_loop f A h k s.
Proof.
  revert s. induction k as [|k IH]; intros s; cbn [ref_sa_loop find_longest_loop ref_one];
    unfold ref_dfsl, explore_from;
    destruct (fst (dfsl A h PositiveSet.t (pmem (nstates A)) (padd (nstates A)) f (start_anch A) s PositiveSet.empty))
      as [|[e|]]; try reflexivity. apply IH.
Qed.

Theorem ref_search_at_longest_eq A h at_ : ref_search_at A true h at_ = find_at_longest A h at_.
Proof. unfold ref_search_at, find_at_longest. destruct (length h <? at_); [reflexivity|]. apply ref_sa_loop_longest. Qed.

(* nfa/backtrack.go: SearchAtWithState with state.Longest = true, on any prior state *)
Theorem bt_longest_is_find_at_longest W (HW : (2 <= W)%N) A mv st h at_ :
  wf_nfa A = true -> bt_inv W st -> longest st = true -> at_ <= length h ->
  can_handle A mv (length h - at_) = true ->
  fst (bt_search_at W A mv st h at_) = find_at_longest A h at_.
Proof.
  intros Hwf Hinv Hl Hat Hcan.
  rewrite (bt_search_at_is_ref_any_mode W HW A mv Hwf st h at_ Hinv Hat Hcan), Hl.
  apply ref_search_at_longest_eq.
Qed.

(* ------------------------------------------------------------------ where the mode lives
   regex.go: type Regex struct { engine *meta.Engine; pattern string; longest bool; posix bool }
   meta/engine.go: Engine.longest, Engine.pikevm (shared), Engine.boundedBacktracker (may be
   nil), Engine.localState (one cached SearchState; the sync.Pool behind it is modelled by
   "no cached state: a new one is made")
   meta/search_state.go: SearchState { pikevm; backtracker *BacktrackerState (may be nil) } *)
Record sstate := mkSS {
  ss_has_bt : bool;          (* state.backtracker != nil *)
  ss_bt_longest : bool;      (* state.backtracker.Longest *)
  ss_pike_longest : bool }.  (* the longest flag of state.pikevm *)

Record engine := mkEng {
  eng_longest : bool;        (* e.longest *)
  eng_pike_longest : bool;   (* the flag of the shared e.pikevm *)
  eng_has_bt : bool;         (* e.boundedBacktracker != nil *)
  eng_bt_longest : bool;     (* the flag of e.boundedBacktracker *)
  eng_state_bt : bool;       (* newSearchState allocates a BacktrackerState for this strategy *)
  eng_local : option sstate }.

Record regex := mkRe { pattern : nat; posix : bool; re_longest : bool; re_engine : engine }.

(* meta/search_state.go: newSearchState *)
Definition new_sstate (e : engine) : sstate := mkSS (eng_state_bt e) false false.

(* meta/compile.go: the engine of a pattern; has_bt / state_bt are functions of the pattern
   (strategy selection), the mode starts as leftmost-first *)
Definition new_engine (has_bt state_bt : bool) : engine := mkEng false false has_bt false state_bt None.

(* meta/engine.go: SetLongest *)
Definition eng_set_longest (e : engine) (b : bool) : engine :=
  mkEng b b (eng_has_bt e) (if eng_has_bt e then b else eng_bt_longest e) (eng_state_bt e) (eng_local e).

(* meta/search_state.go: SearchState.reset — Longest = false *)
Definition ss_reset (s : sstate) : sstate :=
  mkSS (ss_has_bt s) (if ss_has_bt s then false else ss_bt_longest s) (ss_pike_longest s).

(* meta/engine.go: putSearchState — reset, then the local slot if it is free (otherwise the
   sync.Pool, from which the state may or may not come back) *)
Definition put_search_state (e : engine) (s : sstate) : engine :=
  match eng_local e with
  | None => mkEng (eng_longest e) (eng_pike_longest e) (eng_has_bt e) (eng_bt_longest e) (eng_state_bt e)
                  (Some (ss_reset s))
  | Some _ => e
  end.

(* meta/engine.go: getSearchState — take the cached state (or a new one) and overwrite the
   flags from e.longest *)
Definition get_search_state (e : engine) : sstate * engine :=
  let s := match eng_local e with Some s => s | None => new_sstate e end in
  let s1 := mkSS (ss_has_bt s)
                 (if eng_has_bt e && ss_has_bt s then eng_longest e else ss_bt_longest s)
                 (eng_longest e) in
  (s1, mkEng (eng_longest e) (eng_pike_longest e) (eng_has_bt e) (eng_bt_longest e) (eng_state_bt e) None).

(* the mode a search on this state runs in: the backtracker reads state.backtracker.Longest,
   the PikeVM its own flag *)
Definition ss_mode_ok (e : engine) (s : sstate) (b : bool) : Prop :=
  ss_pike_longest s = b /\ (eng_has_bt e = true -> ss_has_bt s = true -> ss_bt_longest s = b).

(* C10: a state acquired after SetLongest(b) carries b, whatever state was released before
   (with whatever flags) and whatever mode the engine was in *)
Theorem search_state_gets_mode (e : engine) (released : sstate) (b : bool) :
  let e1 := eng_set_longest (put_search_state e released) b in
  ss_mode_ok e1 (fst (get_search_state e1)) b.
Proof.
  cbn zeta. unfold ss_mode_ok, get_search_state, eng_set_longest, put_search_state.
  destruct (eng_local e) as [s0|]; cbn; split; try reflexivity; intros Hb Hs; rewrite Hb in *; cbn in *;
    rewrite ?Hs; reflexivity.
Qed.

(* for any engine at all: the acquired state carries the engine's current mode *)
Theorem get_search_state_mode (e : engine) : ss_mode_ok e (fst (get_search_state e)) (eng_longest e).
Proof.
  unfold ss_mode_ok, get_search_state. cbn. split; [reflexivity|]. intros Hb Hs. rewrite Hb, Hs. reflexivity.
Qed.

(* regex.go: Compile / CompilePOSIX / Longest / Copy.  `feat p` = (has_bt, state_bt) of the
   engine compiled for pattern p; compilation is a function of the pattern only *)
Section Values.
  Variable feat : nat -> bool * bool.

  Definition re_set_longest (r : regex) : regex :=
    mkRe (pattern r) (posix r) true (eng_set_longest (re_engine r) true).

  Definition compile (p : nat) : regex := mkRe p false false (new_engine (fst (feat p)) (snd (feat p))).
  Definition compile_posix (p : nat) : regex :=
    re_set_longest (mkRe p true false (new_engine (fst (feat p)) (snd (feat p)))).

  Definition copy (r : regex) : regex :=
    let re := if posix r then compile_posix (pattern r) else compile (pattern r) in
    if re_longest r then re_set_longest re else re.

  (* *Regex values live in a store; a *Regex is an index *)
  Definition store := list regex.
  Definition st_get (σ : store) (i : nat) : option regex := nth_error σ i.
  Definition st_new (σ : store) (r : regex) : store * nat := (σ ++ [r], length σ).
  Definition st_compile (σ : store) (p : nat) := st_new σ (compile p).
  Definition st_compile_posix (σ : store) (p : nat) := st_new σ (compile_posix p).
  Definition st_copy (σ : store) (i : nat) : store * nat :=
    match st_get σ i with Some r => st_new σ (copy r) | None => (σ, i) end.
  Fixpoint st_update (σ : store) (i : nat) (f : regex -> regex) : store :=
    match σ, i with
    | [], _ => []
    | r :: t, 0 => f r :: t
    | r :: t, S i' => r :: st_update t i' f
    end.
  Definition st_longest (σ : store) (i : nat) : store := st_update σ i re_set_longest.

  Lemma st_update_other σ i j f : i <> j -> st_get (st_update σ i f) j = st_get σ j.
  Proof.
    revert i j. unfold st_get. induction σ as [|r t IH]; intros [|i] [|j] Hij; cbn; try reflexivity; try lia.
    apply IH. lia.
  Qed.

  Lemma st_update_same σ i f r : st_get σ i = Some r -> st_get (st_update σ i f) i = Some (f r).
  Proof.
    revert i. unfold st_get. induction σ as [|r0 t IH]; intros [|i] H; cbn in *; try discriminate.
    - now inversion H.
    - now apply IH.
  Qed.

  Lemma st_new_old σ r i x : st_get σ i = Some x -> st_get (fst (st_new σ r)) i = Some x /\ snd (st_new σ r) <> i.
  Proof.
    unfold st_get, st_new. cbn [fst snd]. intros H. split.
    - rewrite nth_error_app1; [exact H|]. apply nth_error_Some. congruence.
    - assert (i < length σ) by (apply nth_error_Some; congruence). lia.
  Qed.

  Lemma st_new_new σ r : st_get (fst (st_new σ r)) (snd (st_new σ r)) = Some r.
  Proof. unfold st_get, st_new. cbn [fst snd]. rewrite nth_error_app2 by lia. now rewrite Nat.sub_diag. Qed.

  (* the copy carries the original's mode and pattern ... *)
  Lemma copy_mode r : re_longest (copy r) = re_longest r \/ (posix r = true /\ re_longest (copy r) = true).
  Proof. unfold copy. destruct (posix r), (re_longest r); cbn; auto. Qed.

  Lemma copy_pattern r : pattern (copy r) = pattern r /\ posix (copy r) = posix r.
  Proof. unfold copy. destruct (posix r), (re_longest r); cbn; auto. Qed.

  (* C10: the mode belongs to one Regex value.  Longest() on a Copy of value i, or on another
     value compiled from the same pattern, leaves value i (its flag and its engine, hence the
     mode of every later search state) exactly as it was *)
  Theorem mode_is_per_value (σ : store) (i : nat) (r : regex) :
    st_get σ i = Some r ->
    (let '(σ1, j) := st_copy σ i in
     st_get (st_longest σ1 j) i = Some r /\
     exists rc, st_get (st_longest σ1 j) j = Some rc /\ re_longest rc = true /\
                eng_longest (re_engine rc) = true /\ pattern rc = pattern r) /\
    (let '(σ1, j) := st_compile σ (pattern r) in
     st_get (st_longest σ1 j) i = Some r /\
     exists rc, st_get (st_longest σ1 j) j = Some rc /\ re_longest rc = true /\
                eng_longest (re_engine rc) = true /\ pattern rc = pattern r) /\
    (forall j, j <> i -> st_get (st_longest σ j) i = Some r).
  Proof.
    intros Hi. split; [|split].
    - unfold st_copy. rewrite Hi.
      destruct (st_new σ (copy r)) as [σ1 j] eqn:E.
      pose proof (st_new_old σ (copy r) i r Hi) as [H1 H2]. pose proof (st_new_new σ (copy r)) as H3.
      rewrite E in H1, H2, H3. cbn [fst snd] in *. split.
      + unfold st_longest. rewrite st_update_other by exact H2. exact H1.
      + exists (re_set_longest (copy r)). split; [apply st_update_same; exact H3|].
        cbn. repeat split. apply copy_pattern.
    - unfold st_compile.
      destruct (st_new σ (compile (pattern r))) as [σ1 j] eqn:E.
      pose proof (st_new_old σ (compile (pattern r)) i r Hi) as [H1 H2].
      pose proof (st_new_new σ (compile (pattern r))) as H3.
      rewrite E in H1, H2, H3. cbn [fst snd] in *. split.
      + unfold st_longest. rewrite st_update_other by exact H2. exact H1.
      + exists (re_set_longest (compile (pattern r))). split; [apply st_update_same; exact H3|].
        cbn. repeat split.
    - intros j Hj. unfold st_longest. rewrite st_update_other by exact Hj. exact Hi.
  Qed.

  (* and Longest() does take effect on the value it is called on, down to the search state *)
  Theorem longest_takes_effect (σ : store) (i : nat) (r : regex) :
    st_get σ i = Some r ->
    exists r', st_get (st_longest σ i) i = Some r' /\ re_longest r' = true /\
               ss_mode_ok (re_engine r') (fst (get_search_state (re_engine r'))) true.
  Proof.
    intros Hi. exists (re_set_longest r). split; [now apply st_update_same|]. split; [reflexivity|].
    apply (get_search_state_mode (re_engine (re_set_longest r))).
  Qed.

  (* CompilePOSIX values start in leftmost-longest mode *)
  Theorem compile_posix_longest p :
    re_longest (compile_posix p) = true /\ eng_longest (re_engine (compile_posix p)) = true.
  Proof. split; reflexivity. Qed.
End Values.

(* ------------------------------------------------------------------ non-vacuity: (a|ab) on "ab" *)
Definition nfa_a_or_ab : nfa :=
  mkNfa [SSplit 1 3; SByteRange 97 97 2; SMatch; SByteRange 97 97 4; SByteRange 98 98 2]%N 0 0 1.

Example a_or_ab_wf : wf_nfa nfa_a_or_ab = true.
Proof. vm_compute. reflexivity. Qed.

Example a_or_ab_first_vs_longest :
  (Backtrack.span_of (find_at nfa_a_or_ab [97; 98]%N 0) = Done (Some (0, 1))) /\
  (find_at_longest nfa_a_or_ab [97; 98]%N 0 = Done (Some (0, 2))) /\
  (match_ends nfa_a_or_ab [97; 98]%N 0 = Done (1 :: 2 :: nil)) /\
  (find_at_longest nfa_a_or_ab [120; 97; 98]%N 0 = Done (Some (1, 3))) /\
  (find_at_longest nfa_a_or_ab [120; 98]%N 0 = Done None).
Proof. vm_compute. repeat split. Qed.

(* ------------------------------------------------------------------ case checker
   one observed leftmost-longest search: the model answer against the span the Go
   implementation returned (None = no match) *)
Record case := mkCase {
  c_id : N; c_nfa : nfa; c_hay : hay; c_at : nat; c_obs : option (nat * nat) }.

Definition span_eqb (a b : option (nat * nat)) : bool :=
  match a, b with
  | None, None => true
  | Some (s, e), Some (s', e') => (s =? s') && (e =? e')
  | _, _ => false
  end.

Definition check_case (c : case) : bool :=
  wf_nfa (c_nfa c) &&
  match find_at_longest (c_nfa c) (c_hay c) (c_at c) with
  | Done r => span_eqb r (c_obs c)
  | OutOfFuel => false
  end.

Definition mismatches (cs : list case) : list N :=
  map c_id (filter (fun c => negb (check_case c)) cs).
