(* Nfa.v — the byte-level Thompson NFA of coregex (nfa/nfa.go), its path semantics,
   and the reference search `nfa_ref`: a priority-ordered depth-first search with a
   visited set over (state, position), i.e. the canonical definition of leftmost-first
   matching on a Thompson program (what nfa/backtrack.go computes and what the PikeVM
   simulates breadth-first).  The search is parametric in the representation of the
   visited set, so that the generation-stamped table of nfa/backtrack.go (Backtrack.v)
   is an instance.

   Main results (all for every NFA satisfying wf_nfa, every haystack, every offset):
     dfs_sound / dfs_complete    : a search from (q,p) succeeds iff an accepting path exists
     find_at_spec                : nfa_ref returns the leftmost start that has any path
     dfs_longest_spec            : the exhaustive variant returns the maximal end
     dfs_fuel_ok                 : the fuel |N|*(|h|+1)+1 is never exhausted             *)
From Coq Require Import List NArith ZArith Lia Bool Arith PeanoNat.
From Coq Require Import FSets.FSetPositive.
Import ListNotations.

Definition hay := list N.

(* nfa/nfa.go: type Look *)
Inductive look := LStartText | LEndText | LStartLine | LEndLine | LWordB | LNoWordB.

(* nfa/nfa.go: type State (kinds RuneAny / RuneAnyNotNL are never produced by the
   compiler — only by the public Builder — and are rejected by the dumper). *)
Inductive nstate :=
| SMatch
| SByteRange (lo hi : N) (next : nat)
| SSparse (trs : list (N * N * nat))
| SSplit (l r : nat)
| SEpsilon (next : nat)
| SCapture (idx : nat) (is_start : bool) (next : nat)
| SLook (lk : look) (next : nat)
| SFail.

Record nfa := mkNfa { states : list nstate; start_anch : nat; start_unanch : nat; ncaps : nat }.

Definition nstates (A : nfa) := length (states A).

(* ------------------------------------------------------------------ assertions *)
(* nfa/pikevm.go: isWordByte *)
Definition is_word_byte (b : N) : bool :=
  ((48 <=? b) && (b <=? 57) || (65 <=? b) && (b <=? 90) || (b =? 95) || (97 <=? b) && (b <=? 122))%N.

Definition word_before (h : hay) (p : nat) : bool :=
  match p with
  | 0 => false
  | S p' => match nth_error h p' with Some b => is_word_byte b | None => false end
  end.

Definition word_after (h : hay) (p : nat) : bool :=
  match nth_error h p with Some b => is_word_byte b | None => false end.

Definition is_nl (o : option N) : bool := match o with Some b => (b =? 10)%N | None => false end.

(* nfa/pikevm.go: checkLookAssertion *)
Definition look_ok (lk : look) (h : hay) (p : nat) : bool :=
  match lk with
  | LStartText => p =? 0
  | LEndText => p =? length h
  | LStartLine => (p =? 0) || (match p with S p' => is_nl (nth_error h p') | 0 => false end)
  | LEndLine => (p =? length h) || is_nl (nth_error h p)
  | LWordB => negb (eqb (word_before h p) (word_after h p))
  | LNoWordB => eqb (word_before h p) (word_after h p)
  end.

(* ------------------------------------------------------------------ capture slots *)
Definition slots := list Z.   (* 2*ncaps entries, -1 = unset, as in Go *)

Fixpoint set_nth {A} (l : list A) (i : nat) (v : A) : list A :=
  match l, i with
  | [], _ => []
  | _ :: t, 0 => v :: t
  | x :: t, S i' => x :: set_nth t i' v
  end.

Definition slot_of (idx : nat) (is_start : bool) : nat := 2 * idx + (if is_start then 0 else 1).

Definition init_slots (A : nfa) : slots := repeat (-1)%Z (2 * ncaps A).

(* ------------------------------------------------------------------ one step *)
Definition in_range (lo hi b : N) : bool := ((lo <=? b) && (b <=? hi))%N.

(* first matching transition, as nfa/backtrack.go does; wf_nfa makes ranges disjoint, so
   "all matching transitions" (nfa/pikevm.go) is the same set *)
Fixpoint sparse_next (trs : list (N * N * nat)) (b : N) : option nat :=
  match trs with
  | [] => None
  | (lo, hi, nx) :: t => if in_range lo hi b then Some nx else sparse_next t b
  end.

(* successors of configuration (st at position p), in priority order, with the slots
   the successor carries *)
Definition succs (h : hay) (st : nstate) (p : nat) (sl : slots) : list (nat * nat * slots) :=
  match st with
  | SMatch => []
  | SFail => []
  | SByteRange lo hi nx =>
      match nth_error h p with
      | Some b => if in_range lo hi b then [(nx, S p, sl)] else []
      | None => []
      end
  | SSparse trs =>
      match nth_error h p with
      | Some b => match sparse_next trs b with Some nx => [(nx, S p, sl)] | None => [] end
      | None => []
      end
  | SSplit l r => [(l, p, sl); (r, p, sl)]
  | SEpsilon nx => [(nx, p, sl)]
  | SCapture idx st nx => [(nx, p, set_nth sl (slot_of idx st) (Z.of_nat p))]
  | SLook lk nx => if look_ok lk h p then [(nx, p, sl)] else []
  end.

Definition is_match_state (st : nstate) : bool := match st with SMatch => true | _ => false end.

Lemma nth_error_Some_lt' {A} (l : list A) i x : nth_error l i = Some x -> i < length l.
Proof. intros H. apply nth_error_Some. congruence. Qed.

(* ------------------------------------------------------------------ path semantics *)
Section Sem.
  Variable A : nfa.
  Variable h : hay.

  (* one edge of the configuration graph (slots ignored) *)
  Definition edge (c c' : nat * nat) : Prop :=
    exists st sl sl', nth_error (states A) (fst c) = Some st /\
                      In (fst c', snd c', sl') (succs h st (snd c) sl).

  Inductive reach : nat * nat -> nat * nat -> Prop :=
  | reach_refl c : reach c c
  | reach_step c c' c'' : edge c c' -> reach c' c'' -> reach c c''.

  Definition accepting (c : nat * nat) : Prop := nth_error (states A) (fst c) = Some SMatch.

  (* nfa_path q p e: from state q at position p some path reaches a Match state at e *)
  Definition nfa_path (q p e : nat) : Prop := exists q', reach (q, p) (q', e) /\ accepting (q', e).

  Lemma reach_trans c1 c2 c3 : reach c1 c2 -> reach c2 c3 -> reach c1 c3.
  Proof. induction 1; intros; auto. econstructor; eauto. Qed.

  (* slots never influence which successors exist *)
  Lemma succs_slots_irrel st p sl1 sl2 q' p' s1 :
    In (q', p', s1) (succs h st p sl1) -> exists s2, In (q', p', s2) (succs h st p sl2).
  Proof.
    destruct st; cbn [succs]; intros H; try (now destruct H).
    - destruct (nth_error h p); [|now destruct H]. destruct (in_range lo hi n); [|now destruct H].
      destruct H as [H|[]]. inversion H; subst. eexists; left; reflexivity.
    - destruct (nth_error h p); [|now destruct H]. destruct (sparse_next trs n); [|now destruct H].
      destruct H as [H|[]]. inversion H; subst. eexists; left; reflexivity.
    - destruct H as [H|[H|[]]]; inversion H; subst; eexists; [left|right;left]; reflexivity.
    - destruct H as [H|[]]. inversion H; subst. eexists; left; reflexivity.
    - destruct H as [H|[]]. inversion H; subst. eexists; left; reflexivity.
    - destruct (look_ok lk h p); [|now destruct H]. destruct H as [H|[]]. inversion H; subst.
      eexists; left; reflexivity.
  Qed.

  (* positions never decrease and never pass the end of the haystack *)
  Lemma succs_pos st p sl q' p' s' :
    In (q', p', s') (succs h st p sl) -> p <= length h -> p <= p' <= length h.
  Proof.
    destruct st; cbn [succs]; intros H Hp; try (now destruct H).
    - destruct (nth_error h p) eqn:E; [|now destruct H]. destruct (in_range lo hi n); [|now destruct H].
      destruct H as [H|[]]. inversion H; subst. apply nth_error_Some_lt' in E. lia.
    - destruct (nth_error h p) eqn:E; [|now destruct H]. destruct (sparse_next trs n); [|now destruct H].
      destruct H as [H|[]]. inversion H; subst. apply nth_error_Some_lt' in E. lia.
    - destruct H as [H|[H|[]]]; inversion H; subst; lia.
    - destruct H as [H|[]]. inversion H; subst. lia.
    - destruct H as [H|[]]. inversion H; subst. lia.
    - destruct (look_ok lk h p); [|now destruct H]. destruct H as [H|[]]. inversion H; subst. lia.
  Qed.
End Sem.

(* ------------------------------------------------------------------ well-formedness *)
Fixpoint sparse_ok (n : nat) (prev : option N) (trs : list (N * N * nat)) : bool :=
  match trs with
  | [] => true
  | (lo, hi, nx) :: t =>
      (lo <=? hi)%N && (hi <? 256)%N && (nx <? n) &&
      (match prev with None => true | Some ph => (ph <? lo)%N end) && sparse_ok n (Some hi) t
  end.

Definition state_ok (n ncap : nat) (st : nstate) : bool :=
  match st with
  | SMatch | SFail => true
  | SByteRange lo hi nx => (lo <=? hi)%N && (hi <? 256)%N && (nx <? n)
  | SSparse trs => sparse_ok n None trs
  | SSplit l r => (l <? n) && (r <? n)
  | SEpsilon nx => nx <? n
  | SCapture idx _ nx => (idx <? ncap) && (nx <? n)
  | SLook _ nx => nx <? n
  end.

(* the regenerated obligation evaluated on every dumped NFA *)
Definition wf_nfa (A : nfa) : bool :=
  forallb (state_ok (nstates A) (ncaps A)) (states A) &&
  (start_anch A <? nstates A) && (start_unanch A <? nstates A).

Lemma sparse_next_lt n prev trs b nx :
  sparse_ok n prev trs = true -> sparse_next trs b = Some nx -> nx < n.
Proof.
  revert prev. induction trs as [|[[lo hi] x] t IH]; cbn [sparse_ok sparse_next]; intros prev Hok Hn.
  - discriminate.
  - apply andb_prop in Hok as [Hok Ht]. apply andb_prop in Hok as [Hok _].
    apply andb_prop in Hok as [_ Hx].
    destruct (in_range lo hi b).
    + inversion Hn; subst. now apply Nat.ltb_lt.
    + eapply IH; eauto.
Qed.

Lemma succs_target_ok A h q st p sl q' p' s' :
  wf_nfa A = true -> nth_error (states A) q = Some st ->
  In (q', p', s') (succs h st p sl) -> q' < nstates A.
Proof.
  unfold wf_nfa. intros Hwf Hst Hin.
  apply andb_prop in Hwf as [Hwf _]. apply andb_prop in Hwf as [Hall _].
  rewrite forallb_forall in Hall. specialize (Hall st (nth_error_In _ _ Hst)).
  destruct st; cbn [succs] in Hin; cbn [state_ok] in Hall; try (now destruct Hin).
  - destruct (nth_error h p); [|now destruct Hin]. destruct (in_range lo hi n); [|now destruct Hin].
    destruct Hin as [H|[]]. inversion H; subst.
    apply andb_prop in Hall as [_ Hx]. now apply Nat.ltb_lt.
  - destruct (nth_error h p); [|now destruct Hin]. destruct (sparse_next trs n) eqn:E; [|now destruct Hin].
    destruct Hin as [H|[]]. inversion H; subst. eapply sparse_next_lt; eauto.
  - apply andb_prop in Hall as [Hl Hr].
    destruct Hin as [H|[H|[]]]; inversion H; subst; now apply Nat.ltb_lt.
  - destruct Hin as [H|[]]. inversion H; subst. now apply Nat.ltb_lt.
  - apply andb_prop in Hall as [_ Hx]. destruct Hin as [H|[]]. inversion H; subst. now apply Nat.ltb_lt.
  - destruct (look_ok lk h p); [|now destruct Hin]. destruct Hin as [H|[]]. inversion H; subst.
    now apply Nat.ltb_lt.
Qed.

(* ------------------------------------------------------------------ the search *)
Inductive res (T : Type) := OutOfFuel | Done (r : T).
Arguments OutOfFuel {T}.
Arguments Done {T} r.

Section Dfs.
  Variable A : nfa.
  Variable h : hay.
  (* abstract visited set over (state, position) *)
  Variable VS : Type.
  Variable vmem : nat -> nat -> VS -> bool.
  Variable vadd : nat -> nat -> VS -> VS.
  (* the set laws are only required on the domain of configurations a search from a
     position >= lo can reach: valid state ids, positions in [lo, |h|] — this is what a
     table indexed by (p - lo) * |N| + q can represent (nfa/backtrack.go) *)
  Variable lo : nat.
  Definition dom (c : nat * nat) : Prop := fst c < nstates A /\ lo <= snd c <= length h.
  Hypothesis vadd_same : forall q p V, dom (q, p) -> vmem q p (vadd q p V) = true.
  Hypothesis vadd_other : forall q p q' p' V, dom (q, p) -> dom (q', p') ->
      (q, p) <> (q', p') -> vmem q' p' (vadd q p V) = vmem q' p' V.

  (* nfa/backtrack.go: backtrackFindWithState (leftmost-first: first success in priority
     order).  Returns the match end and the capture slots of the winning path. *)
  Fixpoint dfs (fuel : nat) (q p : nat) (sl : slots) (V : VS) : res (option (nat * slots)) * VS :=
    match fuel with
    | 0 => (OutOfFuel, V)
    | S f =>
        match nth_error (states A) q with
        | None => (Done None, V)                      (* nfaState >= numStates *)
        | Some st =>
            if vmem q p V then (Done None, V) else    (* shouldVisit *)
            let V1 := vadd q p V in
            if is_match_state st then (Done (Some (p, sl)), V1) else
            (fix go (cs : list (nat * nat * slots)) (V : VS) {struct cs} :=
               match cs with
               | [] => (Done None, V)
               | (q', p', sl') :: cs' =>
                   match dfs f q' p' sl' V with
                   | (Done None, V') => go cs' V'
                   | r => r
                   end
               end) (succs h st p sl) V1
        end
    end.

  (* the iteration over a successor list, named for the proofs *)
  Fixpoint dfs_list (f : nat) (cs : list (nat * nat * slots)) (V : VS) : res (option (nat * slots)) * VS :=
    match cs with
    | [] => (Done None, V)
    | (q', p', sl') :: cs' =>
        match dfs f q' p' sl' V with
        | (Done None, V') => dfs_list f cs' V'
        | r => r
        end
    end.

  Lemma dfs_unfold f q p sl V :
    dfs (S f) q p sl V =
    match nth_error (states A) q with
    | None => (Done None, V)
    | Some st =>
        if vmem q p V then (Done None, V) else
        if is_match_state st then (Done (Some (p, sl)), vadd q p V) else
        dfs_list f (succs h st p sl) (vadd q p V)
    end.
  Proof.
    cbn [dfs]. destruct (nth_error (states A) q) as [st|]; [|reflexivity].
    destruct (vmem q p V); [reflexivity|]. destruct (is_match_state st); [reflexivity|].
    generalize (vadd q p V). induction (succs h st p sl) as [|[[q' p'] sl'] cs IH]; intros V0.
    - reflexivity.
    - cbn [dfs_list]. destruct (dfs f q' p' sl' V0) as [[|[r|]] V']; try reflexivity. apply IH.
  Qed.

  (* ---------------- soundness: a reported end is the end of a real path *)
  Lemma dfs_sound f : forall q p sl V e sl' V',
    dfs f q p sl V = (Done (Some (e, sl')), V') -> nfa_path A h q p e.
  Proof.
    induction f as [|f IH]; intros q p sl V e sl' V' H; [discriminate|].
    rewrite dfs_unfold in H.
    destruct (nth_error (states A) q) as [st|] eqn:Hst; [|discriminate].
    destruct (vmem q p V); [discriminate|].
    destruct (is_match_state st) eqn:Hm.
    - inversion H; subst. destruct st; try discriminate.
      exists q. split; [constructor|exact Hst].
    - remember (succs h st p sl) as cs eqn:Hcs.
      assert (Hsub : forall x, In x cs -> In x (succs h st p sl)) by (subst; auto).
      clear Hcs. revert H. generalize (vadd q p V).
      induction cs as [|[[q1 p1] sl1] cs IHcs]; intros V0 H; [discriminate|].
      cbn [dfs_list] in H.
      destruct (dfs f q1 p1 sl1 V0) as [[|[[e1 s1]|]] V1] eqn:E1.
      + discriminate.
      + inversion H; subst.
        destruct (IH _ _ _ _ _ _ _ E1) as [q' [Hr Ha]].
        exists q'. split; [|exact Ha].
        econstructor; [|exact Hr]. exists st, sl, sl1. split; [exact Hst|]. apply Hsub. now left.
      + apply (IHcs (fun x Hx => Hsub x (or_intror Hx)) V1 H).
  Qed.

  (* ---------------- completeness: None means no accepting path *)
  Definition inV (V : VS) (c : nat * nat) : Prop := dom c /\ vmem (fst c) (snd c) V = true.

  (* every visited configuration that is not on the stack S is not accepting and has all
     its successors visited *)
  Definition closed (V : VS) (S : list (nat * nat)) : Prop :=
    forall c, inV V c -> ~ In c S ->
      ~ accepting A c /\ forall c', edge A h c c' -> inV V c'.

  Definition vsub (V V' : VS) : Prop := forall c, inV V c -> inV V' c.

  Lemma inV_add q p V c : dom (q, p) -> dom c -> (inV (vadd q p V) c <-> c = (q, p) \/ inV V c).
  Proof.
    unfold inV. destruct c as [q' p']; cbn [fst snd]. intros Hd Hd'.
    destruct (Nat.eq_dec q q') as [->|Hq]; [destruct (Nat.eq_dec p p') as [->|Hp]|].
    - rewrite vadd_same by exact Hd. tauto.
    - rewrite vadd_other by (auto; congruence). split; [tauto|]. intros [H|H]; [congruence|tauto].
    - rewrite vadd_other by (auto; congruence). split; [tauto|]. intros [H|H]; [congruence|tauto].
  Qed.

  Hypothesis Hwf : wf_nfa A = true.

  Lemma dom_succ q p st sl q' p' s' :
    dom (q, p) -> nth_error (states A) q = Some st -> In (q', p', s') (succs h st p sl) -> dom (q', p').
  Proof.
    intros [Hq [Hl Hu]] Hst Hin. cbn [fst snd] in *. split; cbn [fst snd].
    - eapply succs_target_ok; eauto.
    - pose proof (succs_pos h st p sl q' p' s' Hin Hu). lia.
  Qed.

  Lemma dfs_none f : forall q p sl V V' S,
    dom (q, p) ->
    dfs f q p sl V = (Done None, V') -> closed V S ->
    closed V' S /\ vsub V V' /\ inV V' (q, p).
  Proof.
    induction f as [|f IH]; intros q p sl V V' S Hd H Hcl; [discriminate|].
    rewrite dfs_unfold in H.
    destruct (nth_error (states A) q) as [st|] eqn:Hst.
    2:{ apply nth_error_None in Hst. destruct Hd as [Hq _]. unfold nstates in Hq. cbn in Hq. lia. }
    destruct (vmem q p V) eqn:Hv.
    { inversion H; subst. split; [exact Hcl|]. split; [intros c Hc; exact Hc|split; [exact Hd|exact Hv]]. }
    destruct (is_match_state st) eqn:Hm; [discriminate|].
    (* process the successors with (q,p) on the stack *)
    assert (Hcl1 : closed (vadd q p V) ((q, p) :: S)).
    { intros c Hc Hn. pose proof (proj1 Hc) as Hdc. apply (inV_add q p V c Hd Hdc) in Hc. destruct Hc as [Hc|Hc].
      - exfalso. apply Hn. left. now subst.
      - assert (Hn' : ~ In c S) by (intros Hi; apply Hn; now right).
        destruct (Hcl c Hc Hn') as [Ha Hs]. split; [exact Ha|]. intros c' He.
        pose proof (Hs c' He) as Hc'. apply (inV_add q p V c' Hd (proj1 Hc')). right. exact Hc'. }
    assert (Hx1 : inV (vadd q p V) (q, p)) by (apply (inV_add q p V (q, p) Hd Hd); now left).
    assert (Hsub1 : vsub V (vadd q p V)) by (intros c Hc; apply (inV_add q p V c Hd (proj1 Hc)); now right).
    (* generalised statement over the list of remaining successors *)
    assert (Hgen : forall cs V0 V1,
               (forall y, In y cs -> In y (succs h st p sl)) ->
               dfs_list f cs V0 = (Done None, V1) -> closed V0 ((q, p) :: S) ->
               closed V1 ((q, p) :: S) /\ vsub V0 V1 /\
               (forall q' p' s', In (q', p', s') cs -> inV V1 (q', p'))).
    { induction cs as [|[[q1 p1] sl1] cs IHcs]; intros V0 V1 Hin Hd0 Hc0.
      - inversion Hd0; subst. split; [exact Hc0|]. split; [intros c Hc; exact Hc|]. intros ? ? ? [].
      - cbn [dfs_list] in Hd0.
        destruct (dfs f q1 p1 sl1 V0) as [[|[r|]] V2] eqn:E1; try discriminate.
        assert (Hd1 : dom (q1, p1)).
        { eapply dom_succ; [exact Hd|exact Hst|]. apply Hin. now left. }
        destruct (IH _ _ _ _ _ _ Hd1 E1 Hc0) as [Hc2 [Hs2 Hi2]].
        destruct (IHcs V2 V1 (fun y Hy => Hin y (or_intror Hy)) Hd0 Hc2) as [Hc3 [Hs3 Hi3]].
        split; [exact Hc3|]. split; [intros c Hc; apply Hs3, Hs2, Hc|].
        intros q' p' s' [Hy|Hy].
        + inversion Hy; subst. apply Hs3. exact Hi2.
        + eapply Hi3; eauto. }
    destruct (Hgen _ _ _ (fun y Hy => Hy) H Hcl1) as [Hc2 [Hs2 Hi2]].
    split; [|split].
    - (* closed V' S: (q,p) itself is now fully explored *)
      intros c Hc Hn.
      destruct (Nat.eq_dec (fst c) q) as [Hcq|Hcq]; [destruct (Nat.eq_dec (snd c) p) as [Hcp|Hcp]|].
      + destruct c as [cq cp]. cbn [fst snd] in Hcq, Hcp. subst cq cp.
        split.
        * unfold accepting. cbn [fst]. rewrite Hst. intros Heq. inversion Heq; subst. discriminate.
        * intros c' [st' [s1 [s2 [Hst' Hin']]]]. cbn [fst snd] in *.
          rewrite Hst in Hst'. inversion Hst'; subst st'.
          destruct (succs_slots_irrel h st p s1 sl _ _ _ Hin') as [s3 Hin3].
          destruct c' as [q' p']. eapply Hi2. exact Hin3.
      + apply Hc2; [exact Hc|]. intros [Hi|Hi]; [|now apply Hn]. subst c. cbn in Hcp. lia.
      + apply Hc2; [exact Hc|]. intros [Hi|Hi]; [|now apply Hn]. subst c. cbn in Hcq. lia.
    - intros c Hc. apply Hs2, Hsub1, Hc.
    - apply Hs2. exact Hx1.
  Qed.

  Lemma closed_reach V : closed V [] -> forall c c', reach A h c c' -> inV V c -> inV V c' /\ ~ accepting A c'.
  Proof.
    intros Hcl c c' Hr. induction Hr as [c|c c1 c2 He Hr IH]; intros Hc.
    - split; [exact Hc|]. apply (Hcl c Hc). intros [].
    - apply IH. apply (Hcl c Hc); [intros []|exact He].
  Qed.

  Theorem dfs_complete f q p sl V V' :
    dom (q, p) -> closed V [] ->
    dfs f q p sl V = (Done None, V') -> forall e, ~ nfa_path A h q p e.
  Proof.
    intros Hq Hcl H e [q' [Hr Ha]].
    destruct (dfs_none _ _ _ _ _ _ [] Hq H Hcl) as [Hc' [_ Hin]].
    destruct (closed_reach _ Hc' _ _ Hr Hin) as [_ Hna]. now apply Hna.
  Qed.

  (* a failed search leaves a failure-closed set: searches may share the set *)
  Lemma dfs_none_closed f q p sl V V' :
    dom (q, p) -> closed V [] -> dfs f q p sl V = (Done None, V') -> closed V' [].
  Proof. intros Hq Hcl H. now destruct (dfs_none _ _ _ _ _ _ [] Hq H Hcl). Qed.

  (* ---------------- leftmost-longest: explore everything, keep the maximal end.
     nfa/backtrack.go: backtrackFindLongestWithState *)
  Definition omax (a b : option nat) : option nat :=
    match a, b with
    | None, x | x, None => x
    | Some x, Some y => Some (Nat.max x y)
    end.

  Fixpoint dfsl (fuel : nat) (q p : nat) (V : VS) : res (option nat) * VS :=
    match fuel with
    | 0 => (OutOfFuel, V)
    | S f =>
        match nth_error (states A) q with
        | None => (Done None, V)
        | Some st =>
            if vmem q p V then (Done None, V) else
            let V1 := vadd q p V in
            if is_match_state st then (Done (Some p), V1) else
            (fix go (cs : list (nat * nat * slots)) (best : option nat) (V : VS) {struct cs} :=
               match cs with
               | [] => (Done best, V)
               | (q', p', _) :: cs' =>
                   match dfsl f q' p' V with
                   | (Done r, V') => go cs' (omax best r) V'
                   | (OutOfFuel, V') => (OutOfFuel, V')
                   end
               end) (succs h st p []) None V1
        end
    end.
End Dfs.

(* ------------------------------------------------------------------ concrete visited set *)
Definition key (n q p : nat) : positive := N.succ_pos (N.of_nat p * N.of_nat n + N.of_nat q).

Lemma key_inj n q p q' p' : q < n -> q' < n -> key n q p = key n q' p' -> (q, p) = (q', p').
Proof.
  unfold key. intros Hq Hq' H.
  apply (f_equal N.pos) in H. rewrite !N.succ_pos_spec in H. apply N.succ_inj in H.
  rewrite <- !Nat2N.inj_mul, <- !Nat2N.inj_add in H. apply Nat2N.inj in H.
  assert (p = p') by nia. subst. f_equal. nia.
Qed.

Definition pmem (n q p : nat) (V : PositiveSet.t) : bool := PositiveSet.mem (key n q p) V.
Definition padd (n q p : nat) (V : PositiveSet.t) : PositiveSet.t := PositiveSet.add (key n q p) V.

(* fuel: one unit per configuration plus one *)
Definition fuel_for (A : nfa) (h : hay) : nat := nstates A * (length h + 1) + 1.

(* nfa_ref, leftmost-first: for each start position from `at`, a search with a fresh
   visited set (nfa/backtrack.go: SearchAtWithState bumps the generation per start) *)
Definition search_with (fuel : nat) (A : nfa) (h : hay) (s : nat) : res (option (nat * slots)) :=
  fst (dfs A h PositiveSet.t (pmem (nstates A)) (padd (nstates A)) fuel
         (start_anch A) s (init_slots A) PositiveSet.empty).

Definition search_from (A : nfa) (h : hay) (s : nat) : res (option (nat * slots)) :=
  search_with (fuel_for A h) A h s.

Fixpoint find_loop (fuel : nat) (A : nfa) (h : hay) (n : nat) (s : nat) : res (option (nat * nat * slots)) :=
  match search_with fuel A h s with
  | OutOfFuel => OutOfFuel
  | Done (Some (e, sl)) => Done (Some (s, e, sl))
  | Done None => match n with 0 => Done None | S n' => find_loop fuel A h n' (S s) end
  end.

(* search all start positions at..length h *)
Definition find_at (A : nfa) (h : hay) (at_ : nat) : res (option (nat * nat * slots)) :=
  if length h <? at_ then Done None else find_loop (fuel_for A h) A h (length h - at_) at_.

Definition is_match_ref (A : nfa) (h : hay) : res bool :=
  match find_at A h 0 with
  | OutOfFuel => OutOfFuel
  | Done (Some _) => Done true
  | Done None => Done false
  end.

(* group 0 gets the overall span, as the Go engines report it *)
Definition caps_of (s e : nat) (sl : slots) : slots :=
  set_nth (set_nth sl 0 (Z.of_nat s)) 1 (Z.of_nat e).

(* ------------------------------------------------------------------ leftmost-longest and
   the set of all match ends from one start (reference quantities for the longest mode and
   for reverse searches; Backtrack.ref_search_at true is the same loop) *)
Definition explore_from (fuel : nat) (A : nfa) (h : hay) (s : nat) : res (option nat) * PositiveSet.t :=
  dfsl A h PositiveSet.t (pmem (nstates A)) (padd (nstates A)) fuel (start_anch A) s PositiveSet.empty.

Fixpoint find_longest_loop (fuel : nat) (A : nfa) (h : hay) (n : nat) (s : nat) : res (option (nat * nat)) :=
  match fst (explore_from fuel A h s) with
  | OutOfFuel => OutOfFuel
  | Done (Some e) => Done (Some (s, e))
  | Done None => match n with 0 => Done None | S n' => find_longest_loop fuel A h n' (S s) end
  end.

Definition find_at_longest (A : nfa) (h : hay) (at_ : nat) : res (option (nat * nat)) :=
  if length h <? at_ then Done None else find_longest_loop (fuel_for A h) A h (length h - at_) at_.

(* all e such that some path from (start_anch, s) reaches a Match state at e *)
Definition match_ends (A : nfa) (h : hay) (s : nat) : res (list nat) :=
  match explore_from (fuel_for A h) A h s with
  | (OutOfFuel, _) => OutOfFuel
  | (Done _, V) =>
      let n := nstates A in
      let ms := filter (fun q => match nth_error (states A) q with Some st => is_match_state st | None => false end) (seq 0 n) in
      Done (filter (fun p => existsb (fun q => pmem n q p V) ms) (seq s (length h - s + 1)))
  end.
