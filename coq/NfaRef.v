(* NfaRef.v — what the reference search `find_at` / `is_match_ref` of Nfa.v computes,
   stated against the path semantics `nfa_path`, for every well-formed NFA, haystack and
   offset:
     find_at_some / find_at_none : leftmost start that has an accepting path (C02), none
                                   iff no start position has one (C01)
     find_at_total               : the fuel |N|*(|h|+1)+1 is never exhausted
     find_at_wf / caps_wf        : spans and capture slots are well-formed (C03, C07)
   The priority choice among the accepting paths of the leftmost start (leftmost-first) is
   the definition of `dfs` itself: the first success of the priority-ordered depth-first
   traversal. *)
From Coq Require Import List NArith ZArith Lia Bool Arith PeanoNat.
From Coq Require Import FSets.FSetPositive.
From CV Require Import Nfa Backtrack.
Import ListNotations.

Section Ref.
  Variable A : nfa.
  Variable h : hay.
  Hypothesis Hwf : wf_nfa A = true.

  Let n := nstates A.

  Lemma pset_same lo q p V : dom A h lo (q, p) -> pmem n q p (padd n q p V) = true.
  Proof. intros _. apply pmem_padd_same. Qed.

  Lemma pset_other lo q p q' p' V :
    dom A h lo (q, p) -> dom A h lo (q', p') -> (q, p) <> (q', p') ->
    pmem n q' p' (padd n q p V) = pmem n q' p' V.
  Proof. intros [Hq _] [Hq' _] Hne. apply pmem_padd_other; auto. Qed.

  (* ---------------- positions along a path *)
  Lemma reach_pos c c' : reach A h c c' -> snd c <= length h -> snd c <= snd c' <= length h.
  Proof.
    induction 1 as [c|c c1 c2 He Hr IH]; intros Hp; [lia|].
    destruct He as [st [sl [sl' [Hst Hin]]]].
    pose proof (succs_pos h st (snd c) sl (fst c1) (snd c1) sl' Hin Hp) as H1.
    specialize (IH ltac:(lia)). lia.
  Qed.

  Lemma nfa_path_pos q p e : nfa_path A h q p e -> p <= length h -> p <= e <= length h.
  Proof. intros [q' [Hr _]] Hp. apply (reach_pos _ _ Hr Hp). Qed.

  (* ---------------- one start position *)
  Lemma search_with_sound f s e sl :
    search_with f A h s = Done (Some (e, sl)) -> nfa_path A h (start_anch A) s e.
  Proof.
    unfold search_with. intros H.
    destruct (dfs A h PositiveSet.t (pmem (nstates A)) (padd (nstates A)) f (start_anch A) s
                  (init_slots A) PositiveSet.empty) as [r V'] eqn:E.
    cbn [fst] in H. subst r. eapply dfs_sound; eauto.
  Qed.

  Lemma search_with_complete f s :
    s <= length h -> search_with f A h s = Done None -> forall e, ~ nfa_path A h (start_anch A) s e.
  Proof.
    unfold search_with. intros Hs H.
    destruct (dfs A h PositiveSet.t (pmem (nstates A)) (padd (nstates A)) f (start_anch A) s
                  (init_slots A) PositiveSet.empty) as [r V'] eqn:E.
    cbn [fst] in H. subst r.
    eapply (dfs_complete A h PositiveSet.t (pmem (nstates A)) (padd (nstates A)) 0
              (pset_same 0) (pset_other 0) Hwf); [| apply closed_empty | exact E].
    apply start_dom; [exact Hwf|lia].
  Qed.

  (* ---------------- the loop over start positions *)
  Lemma find_loop_some f : forall k s s' e sl,
    s + k <= length h ->
    find_loop f A h k s = Done (Some (s', e, sl)) ->
    s <= s' <= s + k /\ nfa_path A h (start_anch A) s' e /\
    forall s'', s <= s'' < s' -> forall e', ~ nfa_path A h (start_anch A) s'' e'.
  Proof.
    induction k as [|k IH]; intros s s' e sl Hk H; cbn [find_loop] in H.
    - destruct (search_with f A h s) as [|[[e0 sl0]|]] eqn:E; try discriminate.
      inversion H; subst. split; [lia|]. split; [eapply search_with_sound; eauto|]. intros; lia.
    - destruct (search_with f A h s) as [|[[e0 sl0]|]] eqn:E; try discriminate.
      + inversion H; subst. split; [lia|]. split; [eapply search_with_sound; eauto|]. intros; lia.
      + destruct (IH (S s) s' e sl ltac:(lia) H) as [H1 [H2 H3]].
        split; [lia|]. split; [exact H2|].
        intros s'' Hs'' e'. destruct (Nat.eq_dec s'' s) as [->|Hne].
        * apply (search_with_complete f s ltac:(lia) E).
        * apply H3. lia.
  Qed.

  Lemma find_loop_none f : forall k s,
    s + k <= length h ->
    find_loop f A h k s = Done None ->
    forall s', s <= s' <= s + k -> forall e, ~ nfa_path A h (start_anch A) s' e.
  Proof.
    induction k as [|k IH]; intros s Hk H s' Hs' e; cbn [find_loop] in H.
    - destruct (search_with f A h s) as [|[[e0 sl0]|]] eqn:E; try discriminate.
      assert (s' = s) by lia. subst. apply (search_with_complete f s ltac:(lia) E).
    - destruct (search_with f A h s) as [|[[e0 sl0]|]] eqn:E; try discriminate.
      destruct (Nat.eq_dec s' s) as [->|Hne].
      + apply (search_with_complete f s ltac:(lia) E).
      + apply (IH (S s) ltac:(lia) H s' ltac:(lia)).
  Qed.

  (* C02: a reported match starts at the leftmost position that has any match *)
  Theorem find_at_some at_ s e sl :
    find_at A h at_ = Done (Some (s, e, sl)) ->
    at_ <= s /\ s <= e /\ e <= length h /\ nfa_path A h (start_anch A) s e /\
    forall s', at_ <= s' < s -> forall e', ~ nfa_path A h (start_anch A) s' e'.
  Proof.
    unfold find_at. destruct (Nat.ltb_spec (length h) at_) as [Hlt|Hle]; [discriminate|].
    intros H. assert (Hk : at_ + (length h - at_) <= length h) by lia.
    destruct (find_loop_some (fuel_for A h) (length h - at_) at_ s e sl Hk H) as [H1 [H2 H3]].
    pose proof (nfa_path_pos _ _ _ H2 ltac:(lia)). repeat split; try lia; auto.
  Qed.

  (* C01: no match reported iff no start position at or after at_ has an accepting path *)
  Theorem find_at_none at_ :
    find_at A h at_ = Done None ->
    forall s, at_ <= s <= length h -> forall e, ~ nfa_path A h (start_anch A) s e.
  Proof.
    unfold find_at. destruct (Nat.ltb_spec (length h) at_) as [Hlt|Hle].
    - intros _ s Hs. lia.
    - intros H s Hs. assert (Hk : at_ + (length h - at_) <= length h) by lia.
      apply (find_loop_none (fuel_for A h) (length h - at_) at_ Hk H s). lia.
  Qed.

  (* the search never runs out of fuel: it is equal to the bounded backtracker on a fresh
     state with a table large enough (Backtrack.bt_search_at_is_ref / bt_total) *)
  Theorem find_at_total at_ : find_at A h at_ <> OutOfFuel.
  Proof.
    destruct (Nat.ltb_spec (length h) at_) as [Hlt|Hle].
    - unfold find_at. apply Nat.ltb_lt in Hlt. rewrite Hlt. discriminate.
    - set (mv := nstates A * (length h - at_ + 1)).
      assert (HW : (2 <= W16)%N) by apply HW16.
      assert (Hcan : can_handle A mv (length h - at_) = true).
      { unfold can_handle, mv. apply Nat.leb_le. lia. }
      pose proof (bt_search_at_is_ref W16 HW A mv Hwf bt_fresh h at_ (bt_inv_fresh W16 HW) eq_refl Hle Hcan) as Href.
      destruct (bt_total W16 HW A mv Hwf bt_fresh h at_ (bt_inv_fresh W16 HW)) as [_ [_ Htot]].
      intros Hf. apply Htot. rewrite Href, Hf. reflexivity.
  Qed.

  Theorem is_match_ref_true :
    is_match_ref A h = Done true <-> exists s e, s <= length h /\ nfa_path A h (start_anch A) s e.
  Proof.
    unfold is_match_ref. destruct (find_at A h 0) as [|[[[s e] sl]|]] eqn:E.
    - exfalso. now apply (find_at_total 0).
    - split; [|reflexivity]. intros _.
      destruct (find_at_some _ _ _ _ E) as [H1 [H2 [H3 [H4 _]]]]. exists s, e. split; [lia|exact H4].
    - split; [discriminate|]. intros [s [e [Hs Hp]]]. exfalso.
      apply (find_at_none 0 E s ltac:(lia) e Hp).
  Qed.

  Theorem is_match_ref_total : is_match_ref A h <> OutOfFuel.
  Proof.
    unfold is_match_ref. destruct (find_at A h 0) as [|[[[s e] sl]|]] eqn:E; try discriminate.
    exfalso. now apply (find_at_total 0).
  Qed.
End Ref.

(* ------------------------------------------------------------------ capture slots *)
Section Slots.
  Variable A : nfa.
  Variable h : hay.
  Variable VS : Type.
  Variable vmem : nat -> nat -> VS -> bool.
  Variable vadd : nat -> nat -> VS -> VS.

  (* every slot is unset or a position between the start of the search and the current
     position *)
  Definition slots_in (lo hi : nat) (sl : slots) : Prop :=
    Forall (fun z => z = (-1)%Z \/ (Z.of_nat lo <= z <= Z.of_nat hi)%Z) sl.

  Lemma slots_in_mono lo hi hi' sl : hi <= hi' -> slots_in lo hi sl -> slots_in lo hi' sl.
  Proof. intros Hle H. eapply Forall_impl; [|exact H]. cbn. intros z [Hz|Hz]; [now left|right; lia]. Qed.

  Lemma set_nth_length' {T} (l : list T) i v : length (set_nth l i v) = length l.
  Proof. revert i. induction l as [|x l IH]; intros [|i]; cbn; auto. Qed.

  Lemma slots_in_set lo hi sl i : lo <= hi -> slots_in lo hi sl -> slots_in lo hi (set_nth sl i (Z.of_nat hi)).
  Proof.
    intros Hle. revert i. induction sl as [|x sl IH]; intros i H; [destruct i; constructor|].
    inversion H; subst. destruct i; cbn.
    - constructor; [right; lia|assumption].
    - constructor; [assumption|apply IH; assumption].
  Qed.

  Lemma succs_slots st p sl q' p' sl' lo :
    In (q', p', sl') (succs h st p sl) -> lo <= p -> p <= length h -> slots_in lo p sl ->
    p <= p' /\ slots_in lo p' sl' /\ length sl' = length sl.
  Proof.
    intros Hin Hlo Hp Hs.
    pose proof (succs_pos h st p sl q' p' sl' Hin Hp) as Hpp.
    split; [lia|].
    destruct st; cbn [succs] in Hin; try (now destruct Hin).
    - destruct (nth_error h p); [|now destruct Hin]. destruct (in_range lo0 hi n); [|now destruct Hin].
      destruct Hin as [H|[]]. inversion H; subst. split; [eapply slots_in_mono; [|exact Hs]; lia|reflexivity].
    - destruct (nth_error h p); [|now destruct Hin]. destruct (sparse_next trs n); [|now destruct Hin].
      destruct Hin as [H|[]]. inversion H; subst. split; [eapply slots_in_mono; [|exact Hs]; lia|reflexivity].
    - destruct Hin as [H|[H|[]]]; inversion H; subst; (split; [exact Hs|reflexivity]).
    - destruct Hin as [H|[]]. inversion H; subst. split; [exact Hs|reflexivity].
    - destruct Hin as [H|[]]. inversion H; subst. split; [apply slots_in_set; auto|apply set_nth_length'].
    - destruct (look_ok lk h p); [|now destruct Hin]. destruct Hin as [H|[]]. inversion H; subst.
      split; [exact Hs|reflexivity].
  Qed.

  Lemma dfs_slots f : forall q p sl V e sl' V' lo,
    lo <= p -> p <= length h -> slots_in lo p sl ->
    dfs A h VS vmem vadd f q p sl V = (Done (Some (e, sl')), V') ->
    p <= e /\ slots_in lo e sl' /\ length sl' = length sl.
  Proof.
    induction f as [|f IH]; intros q p sl V e sl' V' lo Hlo Hp Hs H; [discriminate|].
    rewrite dfs_unfold in H.
    destruct (nth_error (states A) q) as [st|] eqn:Hst; [|discriminate].
    destruct (vmem q p V); [discriminate|].
    destruct (is_match_state st).
    - inversion H; subst. split; [lia|]. split; [exact Hs|reflexivity].
    - remember (succs h st p sl) as cs eqn:Hcs.
      assert (Hsub : forall x, In x cs -> In x (succs h st p sl)) by (subst; auto).
      clear Hcs. revert H. generalize (vadd q p V).
      induction cs as [|[[q1 p1] sl1] cs IHcs]; intros V0 H; [discriminate|].
      cbn [dfs_list] in H.
      destruct (dfs A h VS vmem vadd f q1 p1 sl1 V0) as [[|[[e1 s1]|]] V1] eqn:E1.
      + discriminate.
      + inversion H; subst.
        destruct (succs_slots st p sl q1 p1 sl1 lo (Hsub _ (or_introl eq_refl)) Hlo Hp Hs) as [Hpp [Hs1 Hl1]].
        pose proof (succs_pos h st p sl q1 p1 sl1 (Hsub _ (or_introl eq_refl)) Hp) as Hp1.
        assert (Hlo1 : lo <= p1) by lia. assert (Hp1' : p1 <= length h) by lia.
        destruct (IH q1 p1 sl1 V0 e sl' V' lo Hlo1 Hp1' Hs1 E1) as [He [Hs' Hl']].
        split; [lia|]. split; [exact Hs'|congruence].
      + apply (IHcs (fun x Hx => Hsub x (or_intror Hx)) V1 H).
  Qed.
End Slots.

Lemma repeat_slots_in lo hi k : slots_in lo hi (repeat (-1)%Z k).
Proof. induction k; cbn; constructor; auto. Qed.

(* C03 / C07: the reported captures are well-formed: 2*ncaps entries, group 0 is the overall
   span, every other slot is -1 or a position inside the overall match *)
Theorem caps_wf A h at_ s e sl :
  find_at A h at_ = Done (Some (s, e, sl)) -> s <= length h ->
  length (caps_of s e sl) = 2 * ncaps A /\
  slots_in s e sl /\
  (1 <= ncaps A -> nth 0 (caps_of s e sl) 0%Z = Z.of_nat s /\ nth 1 (caps_of s e sl) 0%Z = Z.of_nat e).
Proof.
  unfold find_at. destruct (length h <? at_); [discriminate|].
  generalize (length h - at_) as k. intros k. revert at_.
  induction k as [|k IH]; intros at_ H Hs; cbn [find_loop] in H.
  - unfold search_with in H.
    destruct (dfs A h PositiveSet.t (pmem (nstates A)) (padd (nstates A)) (fuel_for A h) (start_anch A) at_
                  (init_slots A) PositiveSet.empty) as [[|[[e0 sl0]|]] V'] eqn:E; cbn [fst] in H; try discriminate.
    inversion H; subst.
    destruct (dfs_slots A h _ _ _ _ _ _ _ _ _ _ _ s (le_n s) Hs (repeat_slots_in s s _) E) as [He [Hsl Hlen]].
    unfold init_slots in Hlen. rewrite repeat_length in Hlen.
    unfold caps_of. rewrite !set_nth_length', Hlen. split; [reflexivity|]. split; [exact Hsl|].
    intros Hn. destruct sl as [|a [|b sl]]; cbn in Hlen; try lia. cbn. split; reflexivity.
  - unfold search_with in H.
    destruct (dfs A h PositiveSet.t (pmem (nstates A)) (padd (nstates A)) (fuel_for A h) (start_anch A) at_
                  (init_slots A) PositiveSet.empty) as [[|[[e0 sl0]|]] V'] eqn:E; cbn [fst] in H; try discriminate.
    + inversion H; subst.
      destruct (dfs_slots A h _ _ _ _ _ _ _ _ _ _ _ s (le_n s) Hs (repeat_slots_in s s _) E) as [He [Hsl Hlen]].
      unfold init_slots in Hlen. rewrite repeat_length in Hlen.
      unfold caps_of. rewrite !set_nth_length', Hlen. split; [reflexivity|]. split; [exact Hsl|].
      intros Hn. destruct sl as [|a [|b sl]]; cbn in Hlen; try lia. cbn. split; reflexivity.
    + apply (IH (S at_) H Hs).
Qed.
