(* Props_C15.v — C15: compiled byte automata recognise exactly the UTF-8 of the intended
   runes.  Statements only; proofs are in Utf8.v and ClassAuto.v. *)
From Coq Require Import List NArith Bool Arith.
From CV Require Import Nfa Utf8 ClassAuto.
Import ListNotations.

(* ---- UTF-8 as unicode/utf8 does it *)
Theorem C15_encode_len : forall r, length (encode r) = enc_len r.
Proof. exact Utf8.encode_len. Qed.
Print Assumptions C15_encode_len.

Theorem C15_decode_encode : forall r rest,
  is_scalar r = true -> decode (encode r ++ rest) = Some (r, length (encode r)).
Proof. exact Utf8.decode_encode. Qed.
Print Assumptions C15_decode_encode.

Theorem C15_encode_inj : forall r1 r2,
  is_scalar r1 = true -> is_scalar r2 = true -> encode r1 = encode r2 -> r1 = r2.
Proof. exact Utf8.encode_inj. Qed.
Print Assumptions C15_encode_inj.

Theorem C15_decode_width_pos : forall bs r w,
  decode bs = Some (r, w) -> (1 <= w <= 4) /\ (w <= length bs).
Proof. exact Utf8.decode_width_pos. Qed.
Print Assumptions C15_decode_width_pos.

Theorem C15_decode_invalid_width1 : forall bs r w,
  decode bs = Some (r, w) -> firstn w bs <> encode r -> r = rune_error /\ w = 1.
Proof. exact Utf8.decode_invalid_width1. Qed.
Print Assumptions C15_decode_invalid_width1.

Theorem C15_decode_valid_is_encode : forall bs r w,
  decode bs = Some (r, w) -> 1 < w \/ (r < 0x80)%N ->
  firstn w bs = encode r /\ is_scalar r = true /\ w = length (encode r).
Proof. exact Utf8.decode_valid_is_encode. Qed.
Print Assumptions C15_decode_valid_is_encode.

Theorem C15_decode_whole_multibyte : forall bs r,
  2 <= length bs -> decode bs = Some (r, length bs) -> bs = encode r /\ is_scalar r = true.
Proof. exact Utf8.decode_whole_multibyte. Qed.
Print Assumptions C15_decode_whole_multibyte.

Theorem C15_encode_page : forall r, (128 <= r)%N -> is_scalar r = true ->
  encode r = removelast (encode (r / 64 * 64)) ++ [(128 + r mod 64)%N].
Proof. exact Utf8.encode_page. Qed.
Print Assumptions C15_encode_page.

(* ---- the simulation is the path semantics of Nfa.v *)
Theorem C15_accepts_spec : forall A bs, wf_nfa A = true ->
  (accepts A bs = true <-> nfa_path A bs (start_anch A) 0 (length bs)).
Proof. exact ClassAuto.accepts_spec. Qed.
Print Assumptions C15_accepts_spec.

(* ---- soundness of the certified checkers *)
Theorem C15_sweep_codepoints_sound : forall A ranges, sweep_codepoints A ranges = true ->
  forall r, (r < 0x110000)%N -> is_scalar r = true -> accepts A (encode r) = in_ranges r ranges.
Proof. exact ClassAuto.sweep_codepoints_sound. Qed.
Print Assumptions C15_sweep_codepoints_sound.

Theorem C15_sweep_short_sound : forall A ranges k, sweep_short A ranges k = true ->
  forall bs, length bs <= k -> all_bytes bs -> accepts A bs = spec_class_on_bytes ranges bs.
Proof. exact ClassAuto.sweep_short_sound. Qed.
Print Assumptions C15_sweep_short_sound.

Theorem C15_find_trie_sound : forall A, no_look A = true -> find_trie A = None ->
  forall bs, all_bytes bs -> accepts A bs = true -> 2 <= length bs -> is_enc bs = true.
Proof. exact ClassAuto.find_trie_sound. Qed.
Print Assumptions C15_find_trie_sound.

(* ---- the property, per automaton: the regenerated obligation class_check implies that
   the automaton and regexp's one-rune view accept the same byte strings (any length) *)
Theorem C15_class_check_sound : forall A ranges, class_check A ranges = true ->
  forall bs, all_bytes bs -> accepts A bs = spec_class_on_bytes ranges bs.
Proof. exact ClassAuto.class_check_sound. Qed.
Print Assumptions C15_class_check_sound.

Theorem C15_class_check_paths : forall A ranges, class_check A ranges = true ->
  forall bs, all_bytes bs ->
    (nfa_path A bs (start_anch A) 0 (length bs) <-> spec_class_on_bytes ranges bs = true).
Proof. exact ClassAuto.class_check_paths. Qed.
Print Assumptions C15_class_check_paths.

Theorem C15_failing_mismatches : forall cs, failing (run_cases cs) = ClassAuto.mismatches cs.
Proof. exact ClassAuto.failing_mismatches. Qed.
Print Assumptions C15_failing_mismatches.

(* ---- the range splitter of nfa/compile.go (1-, 2- and 4-byte parts) *)
Theorem C15_utf8_range1_correct : forall lo hi, (lo <= hi)%N -> (hi <= 0x7F)%N ->
  forall bs, in_seqs bs (seqs1 lo hi) = true <-> exists r, (lo <= r <= hi)%N /\ bs = encode r.
Proof. exact ClassAuto.utf8_range1_correct. Qed.
Print Assumptions C15_utf8_range1_correct.

Theorem C15_utf8_range2_correct : forall lo hi, (0x80 <= lo)%N -> (lo <= hi)%N -> (hi <= 0x7FF)%N ->
  forall bs, in_seqs bs (seqs2 lo hi) = true <-> exists r, (lo <= r <= hi)%N /\ bs = encode r.
Proof. exact ClassAuto.utf8_range2_correct. Qed.
Print Assumptions C15_utf8_range2_correct.

Theorem C15_utf8_range4_refuted : exists lo hi bs,
  (0x10000 <= lo)%N /\ (lo <= hi)%N /\ (hi <= 0x10FFFF)%N /\
  in_seqs bs (seqs4 lo hi) = true /\ ~ exists r, (lo <= r <= hi)%N /\ bs = encode r.
Proof. exact ClassAuto.utf8_range4_refuted. Qed.
Print Assumptions C15_utf8_range4_refuted.
