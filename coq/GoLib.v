(* GoLib.v — the Go operations the leaf translator (`harness go2v`, go/harness/go2v.go) maps
   expressions to: indexing, slicing, len, bytes.LastIndexByte, bytes.IndexByte,
   utf8.DecodeRune — over Z (integers, bytes, runes) and list Z ([]byte) — with the facts the
   leaf theorems (leaf/LeafProofs.v) need.  Indexing and slicing are totalised here (default
   0, clipping); the generated `<f>_safe` predicates state exactly when the Go code would
   panic instead, and the theorems about `<f>` are stated under `<f>_safe = true`. *)
From Coq Require Import List ZArith Lia Bool.
From CV Require Import Utf8.
Import ListNotations.
Local Open Scope Z_scope.

Definition len (s : list Z) : Z := Z.of_nat (length s).
Definition idx (s : list Z) (i : Z) : Z := nth (Z.to_nat i) s 0.
Definition slice (s : list Z) (a b : Z) : list Z := firstn (Z.to_nat (b - a)) (skipn (Z.to_nat a) s).
Definition idx_ok (s : list Z) (i : Z) : bool := (0 <=? i) && (i <? len s).
Definition slice_ok (s : list Z) (a b : Z) : bool := (0 <=? a) && (a <=? b) && (b <=? len s).

(* bytes.LastIndexByte: the largest i with s[i] = c, or -1 *)
Fixpoint last_index_from (s : list Z) (c : Z) (i : Z) (acc : Z) : Z :=
  match s with
  | [] => acc
  | b :: t => last_index_from t c (i + 1) (if b =? c then i else acc)
  end.
Definition last_index_byte (s : list Z) (c : Z) : Z := last_index_from s c 0 (-1).

(* bytes.IndexByte: the smallest i with s[i] = c, or -1 *)
Fixpoint index_from (s : list Z) (c : Z) (i : Z) : Z :=
  match s with
  | [] => -1
  | b :: t => if b =? c then i else index_from t c (i + 1)
  end.
Definition index_byte (s : list Z) (c : Z) : Z := index_from s c 0.

(* utf8.DecodeRune: (rune, size); (RuneError, 0) on the empty slice.  The decoder is the one of
   Utf8.v (decode_encode & co. are proved there). *)
Definition decode_rune (s : list Z) : Z * Z :=
  match Utf8.decode (map Z.to_N s) with
  | Some (r, n) => (Z.of_N r, Z.of_nat n)
  | None => (65533, 0)
  end.

(* ------------------------------------------------------------------ facts *)
Lemma len_nonneg s : 0 <= len s. Proof. unfold len. lia. Qed.

Lemma len_map_of_N (h : list N) : len (map Z.of_N h) = Z.of_nat (length h).
Proof. unfold len. now rewrite map_length. Qed.

Lemma idx_map_of_N (h : list N) (p : nat) :
  idx (map Z.of_N h) (Z.of_nat p) = match nth_error h p with Some b => Z.of_N b | None => 0 end.
Proof.
  unfold idx. rewrite Nat2Z.id. revert p. induction h as [|b h IH]; intros [|p]; cbn; auto.
Qed.

Lemma length_slice s a b : slice_ok s a b = true -> len (slice s a b) = b - a.
Proof.
  unfold slice_ok, slice, len. intros H.
  apply andb_prop in H as [H Hb]. apply andb_prop in H as [Ha Hab].
  apply Z.leb_le in Ha, Hab, Hb.
  rewrite firstn_length, skipn_length. lia.
Qed.

Lemma nth_firstn_lt (l : list Z) : forall n i d, (i < n)%nat -> nth i (firstn n l) d = nth i l d.
Proof. induction l as [|x l IH]; intros [|n] [|i] d H; cbn; auto; try lia. apply IH. lia. Qed.

Lemma nth_skipn_add (l : list Z) : forall n i d, nth i (skipn n l) d = nth (n + i) l d.
Proof. induction l as [|x l IH]; intros [|n] i d; cbn; auto. now destruct i. Qed.

Lemma idx_slice s a b i : slice_ok s a b = true -> 0 <= i < b - a -> idx (slice s a b) i = idx s (a + i).
Proof.
  unfold slice_ok, slice, idx, len. intros H Hi.
  apply andb_prop in H as [H Hb]. apply andb_prop in H as [Ha Hab].
  apply Z.leb_le in Ha, Hab, Hb.
  rewrite nth_firstn_lt by lia. rewrite nth_skipn_add. f_equal. lia.
Qed.

(* last_index_byte: specification *)
Lemma last_index_from_spec s c : forall i acc,
  let r := last_index_from s c i acc in
  (r = acc /\ (forall k, (k < length s)%nat -> nth k s 0 <> c)) \/
  (i <= r < i + len s /\ nth (Z.to_nat (r - i)) s 0 = c /\
   forall k, (Z.to_nat (r - i) < k < length s)%nat -> nth k s 0 <> c).
Proof.
  induction s as [|b t IH]; intros i acc; cbn [last_index_from].
  - left. split; [reflexivity|]. intros k Hk. cbn in Hk. lia.
  - specialize (IH (i + 1) (if b =? c then i else acc)). cbv zeta in IH |- *.
    set (r := last_index_from t c (i + 1) (if b =? c then i else acc)) in *.
    unfold len in *. cbn [length]. destruct IH as [[Hr Hno]|[Hr [Hn Hafter]]].
    + destruct (Z.eqb_spec b c) as [->|Hne].
      * right. rewrite Hr. replace (i - i) with 0 by lia. cbn. split; [lia|]. split; [reflexivity|].
        intros [|k] Hk; [lia|]. cbn. apply Hno. lia.
      * left. split; [exact Hr|]. intros [|k] Hk; cbn; [exact Hne|]. apply Hno. lia.
    + right. split; [lia|].
      replace (Z.to_nat (r - i)) with (S (Z.to_nat (r - (i + 1)))) by lia. cbn [nth]. split; [exact Hn|].
      intros [|k] Hk; [lia|]. cbn [nth]. apply Hafter. lia.
Qed.

Lemma last_index_byte_spec s c :
  let r := last_index_byte s c in
  (r = -1 /\ (forall k, (k < length s)%nat -> nth k s 0 <> c)) \/
  (0 <= r < len s /\ idx s r = c /\ forall k, r < k < len s -> idx s k <> c).
Proof.
  cbv zeta. unfold last_index_byte. pose proof (last_index_from_spec s c 0 (-1)) as H. cbv zeta in H.
  destruct H as [H|[H1 [H2 H3]]]; [left; exact H|right].
  rewrite Z.sub_0_r in *. split; [lia|]. split; [exact H2|].
  intros k Hk. unfold idx. apply H3. unfold len in *. lia.
Qed.

Lemma decode_rune_size s : s <> [] -> 1 <= snd (decode_rune s) <= 4 /\ snd (decode_rune s) <= len s.
Proof.
  intros Hs. unfold decode_rune, len. destruct s as [|b0 t]; [congruence|].
  cbn [map]. destruct (Utf8.decode_cons_some (Z.to_N b0) (map Z.to_N t)) as [r [w E]]. rewrite E. cbn [snd].
  pose proof (Utf8.decode_width_pos _ _ _ E) as [H1 H2]. cbn [length] in *. rewrite map_length in H2. lia.
Qed.

Lemma decode_rune_nil : decode_rune [] = (65533, 0).
Proof. reflexivity. Qed.

Lemma last_index_byte_cases s c :
  let r := last_index_byte s c in
  (r = -1 /\ (forall k, 0 <= k < len s -> idx s k <> c)) \/
  (0 <= r < len s /\ idx s r = c /\ forall k, r < k < len s -> idx s k <> c).
Proof.
  cbv zeta. destruct (last_index_byte_spec s c) as [[H1 H2]|H]; [left|right; exact H].
  split; [exact H1|]. intros k Hk. unfold idx. apply H2. unfold len in Hk. lia.
Qed.

(* a haystack of the models (list N) as the translated functions see it *)
Definition hz (h : list N) : list Z := map Z.of_N h.
