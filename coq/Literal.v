(* ======================================================================== *)
(*  Literal.v -- property C17: extracted literals are necessary for every   *)
(*  match.                                                                  *)
(*                                                                          *)
(*  Go sources modelled (coregx/coregex, package literal):                  *)
(*    seq.go        Literal, Seq and its algebra (Minimize, Dedup,          *)
(*                  KeepFirstBytes, CrossForward, LongestCommonPrefix/      *)
(*                  Suffix, Clone)                                          *)
(*    extractor.go  the limit-enforcement helpers (enforceMaxLiteralLen,    *)
(*                  handleCrossProductOverflow, the OpLiteral truncation)   *)
(*                                                                          *)
(*  Part A: certified cover checkers.  The language of a pattern is the     *)
(*  language of the Thompson NFA the library's own compiler produces        *)
(*  (Nfa.v: nfa_path).  [prefix_cover]/[suffix_cover]/[inner_cover] decide, *)
(*  for a dumped NFA and a dumped literal set, whether EVERY match (in      *)
(*  every haystack) starts with / ends with / contains one of the literals. *)
(*  Zero-width assertions are relaxed to unconditional epsilon moves, which *)
(*  only enlarges the language: [Covered] is sound, a [Witness] has to be   *)
(*  confirmed against the implementation by the harness.                    *)
(*  Part B: the Seq algebra with coverage-preservation theorems and the     *)
(*  refutations of the operations that lose coverage / completeness.        *)
(* ======================================================================== *)
From Coq Require Import List NArith ZArith Lia Bool Arith PeanoNat.
From Coq Require Import ZifyBool ZifyNat ZifyN.
From CV Require Import Nfa.
Import ListNotations.

(* ------------------------------------------------------------------------ *)
(** * 0. Words                                                               *)
(* ------------------------------------------------------------------------ *)

(* h[s:e] *)
Definition sub (h : list N) (s e : nat) : list N := firstn (e - s) (skipn s h).

Definition is_prefix (l m : list N) : Prop := exists t, m = l ++ t.
Definition is_suffix (l m : list N) : Prop := exists t, m = t ++ l.
Definition is_infix (l m : list N) : Prop := exists a b, m = a ++ l ++ b.

Inductive cover_result := Covered | Witness (w : list N) | Unknown.

Fixpoint beqb (a b : list N) : bool :=
  match a, b with
  | [], [] => true
  | x :: a', y :: b' => (x =? y)%N && beqb a' b'
  | _, _ => false
  end.

Lemma beqb_eq a b : beqb a b = true <-> a = b.
Proof.
  revert b. induction a as [|x a IH]; intros [|y b]; cbn [beqb]; split; intros H;
    try reflexivity; try discriminate.
  - apply andb_prop in H as [H1 H2]. apply N.eqb_eq in H1. apply IH in H2. now subst.
  - inversion H; subst. rewrite N.eqb_refl. cbn. now apply IH.
Qed.

(* bytes.HasPrefix *)
Fixpoint prefixb (l m : list N) : bool :=
  match l, m with
  | [], _ => true
  | a :: l', b :: m' => (a =? b)%N && prefixb l' m'
  | _ :: _, [] => false
  end.

Lemma prefixb_spec l m : prefixb l m = true <-> is_prefix l m.
Proof.
  revert m. induction l as [|a l IH]; intros m; cbn [prefixb].
  - split; [intros _; now exists m|reflexivity].
  - destruct m as [|b m].
    + split; [discriminate|]. intros [t Ht]. discriminate.
    + split.
      * intros H. apply andb_prop in H as [H1 H2]. apply N.eqb_eq in H1. apply IH in H2.
        destruct H2 as [t ->]. subst. now exists t.
      * intros [t Ht]. cbn in Ht. inversion Ht; subst. rewrite N.eqb_refl. cbn.
        apply IH. now exists t.
Qed.

Lemma is_prefix_refl l : is_prefix l l.
Proof. exists []. now rewrite app_nil_r. Qed.

Lemma is_prefix_trans a b c : is_prefix a b -> is_prefix b c -> is_prefix a c.
Proof. intros [t ->] [u ->]. exists (t ++ u). now rewrite app_assoc. Qed.

Lemma is_prefix_nil m : is_prefix [] m.
Proof. now exists m. Qed.

Lemma is_prefix_cons b l m : is_prefix l m -> is_prefix (b :: l) (b :: m).
Proof. intros [t ->]. now exists t. Qed.

Lemma is_prefix_firstn n m : is_prefix (firstn n m) m.
Proof. exists (skipn n m). now rewrite firstn_skipn. Qed.

(* set operations on lists of state ids *)
Definition memb (q : nat) (X : list nat) : bool := existsb (Nat.eqb q) X.
Definition subsetb (X Y : list nat) : bool := forallb (fun q => memb q Y) X.

Lemma memb_In q X : memb q X = true <-> In q X.
Proof.
  unfold memb. rewrite existsb_exists. split.
  - intros [x [Hx He]]. apply Nat.eqb_eq in He. now subst.
  - intros H. exists q. split; [exact H|apply Nat.eqb_refl].
Qed.

Lemma subsetb_spec X Y : subsetb X Y = true -> forall q, In q X -> In q Y.
Proof. unfold subsetb. rewrite forallb_forall. intros H q Hq. apply memb_In. now apply H. Qed.

Fixpoint add_all (X Y : list nat) : list nat :=
  match X with
  | [] => Y
  | q :: t => if memb q Y then add_all t Y else add_all t (q :: Y)
  end.

(* least fixpoint by iteration; its result is CHECKED (eclosedb / gclosedb), never
   trusted, so no theorem about it is needed *)
Fixpoint iter_close (step : list nat -> list nat) (fuel : nat) (X : list nat) : list nat :=
  match fuel with
  | 0 => X
  | S f => let X' := add_all (step X) X in
           if length X' =? length X then X else iter_close step f X'
  end.

Definition bytes256 : list N := map N.of_nat (seq 0 256).

Lemma bytes256_all b : (b < 256)%N -> In b bytes256.
Proof.
  intros H. unfold bytes256. apply in_map_iff. exists (N.to_nat b). split.
  - apply N2Nat.id.
  - apply in_seq. lia.
Qed.

Definition has_nil (L : list (list N)) : bool :=
  existsb (fun l => match l with [] => true | _ => false end) L.

Lemma has_nil_spec L : has_nil L = true -> In [] L.
Proof.
  unfold has_nil. rewrite existsb_exists. intros [l [Hl H]]. destruct l; [exact Hl|discriminate].
Qed.

(* Brzozowski derivative of a finite set of words *)
Definition deriv (b : N) (L : list (list N)) : list (list N) :=
  flat_map (fun l => match l with c :: t => if (c =? b)%N then [t] else [] | [] => [] end) L.

Lemma deriv_spec b L t : In t (deriv b L) <-> In (b :: t) L.
Proof.
  unfold deriv. rewrite in_flat_map. split.
  - intros [l [Hl H]]. destruct l as [|c l']; [destruct H|].
    destruct (N.eqb_spec c b) as [->|]; [|destruct H]. destruct H as [->|[]]. exact Hl.
  - intros H. exists (b :: t). split; [exact H|]. rewrite N.eqb_refl. now left.
Qed.

Fixpoint first_bad (f : N -> cover_result) (bs : list N) : cover_result :=
  match bs with
  | [] => Covered
  | b :: t => match f b with Covered => first_bad f t | r => r end
  end.

Lemma first_bad_covered f bs : first_bad f bs = Covered -> forall b, In b bs -> f b = Covered.
Proof.
  induction bs as [|a t IH]; cbn [first_bad]; intros H b Hb; [destruct Hb|].
  destruct (f a) eqn:Ea; try discriminate. destruct Hb as [<-|Hb]; [exact Ea|now apply IH].
Qed.

Fixpoint nleqb (a b : list nat) : bool :=
  match a, b with
  | [], [] => true
  | x :: a', y :: b' => (x =? y) && nleqb a' b'
  | _, _ => false
  end.

Lemma nleqb_eq a b : nleqb a b = true -> a = b.
Proof.
  revert b. induction a as [|x a IH]; intros [|y b]; cbn [nleqb]; intros H; try reflexivity; try discriminate.
  apply andb_prop in H as [H1 H2]. apply Nat.eqb_eq in H1. apply IH in H2. now subst.
Qed.

Fixpoint lleqb (a b : list (list N)) : bool :=
  match a, b with
  | [], [] => true
  | x :: a', y :: b' => beqb x y && lleqb a' b'
  | _, _ => false
  end.

Lemma lleqb_eq a b : lleqb a b = true -> a = b.
Proof.
  revert b. induction a as [|x a IH]; intros [|y b]; cbn [lleqb]; intros H; try reflexivity; try discriminate.
  apply andb_prop in H as [H1 H2]. apply beqb_eq in H1. apply IH in H2. now subst.
Qed.

(* subset test with a linear fast path for identical lists *)
Definition subsetqb (X Y : list nat) : bool := nleqb X Y || subsetb X Y.

Lemma subsetqb_spec X Y : subsetqb X Y = true -> forall q, In q X -> In q Y.
Proof.
  unfold subsetqb. intros H q Hq. apply orb_prop in H as [H|H].
  - apply nleqb_eq in H. now subst.
  - eapply subsetb_spec; eauto.
Qed.

(* Loops over all byte values with a one-entry cache: consecutive bytes usually lead to
   the same successor set T = step b, so g T (the expensive closure) is computed once per
   run of equal T's.  Both loops are proved equal to their cache-free versions. *)
Section Cached.
  Variable R : Type.
  Variable step : N -> list nat.
  Variable g : list nat -> R.

  Fixpoint first_bad_c (k : N -> R -> cover_result) (bs : list N) (cT : list nat) (cR : R) : cover_result :=
    match bs with
    | [] => Covered
    | b :: t =>
        let T := step b in
        let r := if nleqb T cT then cR else g T in
        match k b r with Covered => first_bad_c k t T r | x => x end
    end.

  Lemma first_bad_c_eq k bs : forall cT cR, cR = g cT ->
    first_bad_c k bs cT cR = first_bad (fun b => k b (g (step b))) bs.
  Proof.
    induction bs as [|b t IH]; intros cT cR Hc; cbn [first_bad_c first_bad]; [reflexivity|].
    assert (Hr : (if nleqb (step b) cT then cR else g (step b)) = g (step b)).
    { destruct (nleqb (step b) cT) eqn:E; [|reflexivity]. apply nleqb_eq in E. now rewrite E, Hc. }
    rewrite Hr. destruct (k b (g (step b))); try reflexivity. now apply IH.
  Qed.

  Fixpoint forallb_c (k : N -> R -> bool) (bs : list N) (cT : list nat) (cR : R) : bool :=
    match bs with
    | [] => true
    | b :: t =>
        let T := step b in
        let r := if nleqb T cT then cR else g T in
        k b r && forallb_c k t T r
    end.

  Lemma forallb_c_eq k bs : forall cT cR, cR = g cT ->
    forallb_c k bs cT cR = forallb (fun b => k b (g (step b))) bs.
  Proof.
    induction bs as [|b t IH]; intros cT cR Hc; cbn [forallb_c forallb]; [reflexivity|].
    assert (Hr : (if nleqb (step b) cT then cR else g (step b)) = g (step b)).
    { destruct (nleqb (step b) cT) eqn:E; [|reflexivity]. apply nleqb_eq in E. now rewrite E, Hc. }
    rewrite Hr. f_equal. now apply IH.
  Qed.

  (* the body depends on the byte only through aux b: its value is cached as well *)
  Variable aux : N -> list (list N).

  Fixpoint forallb_c2 (k : list (list N) -> R -> bool) (bs : list N)
           (cT : list nat) (cA : list (list N)) (cR : R) (cK : bool) : bool :=
    match bs with
    | [] => true
    | b :: t =>
        let T := step b in
        let a := aux b in
        let r := if nleqb T cT then cR else g T in
        let kv := if nleqb T cT && lleqb a cA then cK else k a r in
        kv && forallb_c2 k t T a r kv
    end.

  Lemma forallb_c2_eq k bs : forall cT cA cR cK, cR = g cT -> cK = k cA cR ->
    forallb_c2 k bs cT cA cR cK = forallb (fun b => k (aux b) (g (step b))) bs.
  Proof.
    induction bs as [|b t IH]; intros cT cA cR cK Hc Hk; cbn [forallb_c2 forallb]; [reflexivity|].
    assert (Hr : (if nleqb (step b) cT then cR else g (step b)) = g (step b)).
    { destruct (nleqb (step b) cT) eqn:E; [|reflexivity]. apply nleqb_eq in E. now rewrite E, Hc. }
    assert (Hkv : (if nleqb (step b) cT && lleqb (aux b) cA then cK
                   else k (aux b) (if nleqb (step b) cT then cR else g (step b))) = k (aux b) (g (step b))).
    { rewrite Hr. destruct (nleqb (step b) cT) eqn:E; [|reflexivity]. cbn [andb].
      destruct (lleqb (aux b) cA) eqn:E2; [|reflexivity].
      apply nleqb_eq in E. apply lleqb_eq in E2. now rewrite E, E2, Hk, Hc. }
    rewrite Hkv, Hr. f_equal. now apply IH.
  Qed.
End Cached.

(* ------------------------------------------------------------------------ *)
(** * 1. Generic labelled graphs: paths, checked closures, the trie walk     *)
(* ------------------------------------------------------------------------ *)

Section Graph.
  (* edges: label None = epsilon, Some b = byte b *)
  Variable E : nat -> option N -> nat -> Prop.
  Variable finalb : nat -> bool.
  Variable bstep : list nat -> N -> list nat.   (* byte successors of a set *)
  Variable estep : list nat -> list nat.        (* one-step epsilon successors of a set *)
  Variable gstep : list nat -> list nat.        (* successors under any label *)
  Variable nfuel : nat.
  (* witness completion (no specification: witnesses are confirmed by the harness) *)
  Variable ext : list nat -> list N.

  Hypothesis bstep_spec : forall X b q q1, In q X -> E q (Some b) q1 -> In q1 (bstep X b).
  Hypothesis estep_spec : forall X q q1, In q X -> E q None q1 -> In q1 (estep X).
  Hypothesis gstep_spec : forall X lab q q1, In q X -> E q lab q1 -> In q1 (gstep X).
  Hypothesis byte_bound : forall q b q1, E q (Some b) q1 -> (b < 256)%N.

  Inductive gpath : nat -> list N -> nat -> Prop :=
  | gp_nil q : gpath q [] q
  | gp_eps q q1 w q' : E q None q1 -> gpath q1 w q' -> gpath q w q'
  | gp_byte q b q1 w q' : E q (Some b) q1 -> gpath q1 w q' -> gpath q (b :: w) q'.

  Lemma gpath_snoc_eps a w b c : gpath a w b -> E b None c -> gpath a w c.
  Proof.
    induction 1 as [q|q q1 w q' He _ IH|q x q1 w q' He _ IH]; intros Hc.
    - eapply gp_eps; [exact Hc|constructor].
    - eapply gp_eps; [exact He|now apply IH].
    - eapply gp_byte; [exact He|now apply IH].
  Qed.

  Lemma gpath_snoc_byte a w b x c : gpath a w b -> E b (Some x) c -> gpath a (w ++ [x]) c.
  Proof.
    induction 1 as [q|q q1 w q' He _ IH|q y q1 w q' He _ IH]; intros Hc.
    - cbn. eapply gp_byte; [exact Hc|constructor].
    - eapply gp_eps; [exact He|now apply IH].
    - cbn. eapply gp_byte; [exact He|now apply IH].
  Qed.

  Definition eclosed (X : list nat) : Prop := forall q q1, In q X -> E q None q1 -> In q1 X.
  Definition gclosed (X : list nat) : Prop := forall lab q q1, In q X -> E q lab q1 -> In q1 X.

  Definition eclosedb (X : list nat) : bool := subsetb (estep X) X.
  Definition gclosedb (X : list nat) : bool := subsetb (gstep X) X.

  Lemma eclosedb_spec X : eclosedb X = true -> eclosed X.
  Proof. intros H q q1 Hq He. eapply subsetb_spec; [exact H|]. eapply estep_spec; eauto. Qed.

  Lemma gclosedb_spec X : gclosedb X = true -> gclosed X.
  Proof. intros H lab q q1 Hq He. eapply subsetb_spec; [exact H|]. eapply gstep_spec; eauto. Qed.

  Lemma gclosed_path X q w q' : gclosed X -> gpath q w q' -> In q X -> In q' X.
  Proof.
    intros Hc. induction 1 as [q|q q1 w q' He _ IH|q x q1 w q' He _ IH]; intros Hq; auto.
    - apply IH. eapply Hc; eauto.
    - apply IH. eapply Hc; eauto.
  Qed.

  (* epsilon closure, checked *)
  Definition eclose (X : list nat) : option (list nat) :=
    let C := iter_close estep nfuel X in
    if eclosedb C && subsetb X C then Some C else None.

  Lemma eclose_spec X C : eclose X = Some C -> eclosed C /\ forall q, In q X -> In q C.
  Proof.
    unfold eclose. destruct (eclosedb _ && subsetb _ _) eqn:H; [|discriminate].
    intros H1. inversion H1; subst. apply andb_prop in H as [Ha Hb].
    split; [now apply eclosedb_spec|now apply subsetb_spec].
  Qed.

  Definition adv_of (T : list nat) : option (list nat) :=
    match T with
    | [] => Some []
    | _ => eclose T
    end.
  Definition adv (X : list nat) (b : N) : option (list nat) := adv_of (bstep X b).

  Lemma adv_spec X b X' : adv X b = Some X' ->
    eclosed X' /\ forall q q1, In q X -> E q (Some b) q1 -> In q1 X'.
  Proof.
    unfold adv, adv_of. intros H.
    assert (Hs : forall q q1, In q X -> E q (Some b) q1 -> In q1 (bstep X b))
      by (intros; eapply bstep_spec; eauto).
    destruct (bstep X b) as [|t T] eqn:Eb.
    - inversion H; subst. split; [intros q q1 []|]. intros q q1 Hq He. exact (Hs q q1 Hq He).
    - apply eclose_spec in H as [Hc Hsub]. split; [exact Hc|]. intros q q1 Hq He.
      apply Hsub. exact (Hs q q1 Hq He).
  Qed.

  Definition acc (X : list nat) : bool := existsb finalb X.

  Lemma acc_false X q : acc X = false -> In q X -> finalb q = false.
  Proof.
    unfold acc. intros H Hq. destruct (finalb q) eqn:Ef; [|reflexivity].
    assert (existsb finalb X = true) by (apply existsb_exists; eauto). congruence.
  Qed.

  (* no final state is reachable from X at all *)
  Definition dead (X : list nat) : bool :=
    let G := iter_close gstep nfuel X in
    gclosedb G && subsetb X G && negb (acc G).

  Lemma dead_spec X q w qf : dead X = true -> In q X -> gpath q w qf -> finalb qf = false.
  Proof.
    unfold dead. intros H Hq Hp.
    apply andb_prop in H as [H Hn]. apply andb_prop in H as [Hc Hs].
    apply negb_true_iff in Hn. eapply acc_false; [exact Hn|].
    eapply gclosed_path; [apply gclosedb_spec; exact Hc|exact Hp|].
    eapply subsetb_spec; eauto.
  Qed.

  Lemma gpath_closed_inv X q m qf : eclosed X -> gpath q m qf -> In q X ->
    (m = [] /\ In qf X) \/
    (exists b m' q1 q2, m = b :: m' /\ In q1 X /\ E q1 (Some b) q2 /\ gpath q2 m' qf).
  Proof.
    intros Hc. induction 1 as [q|q q1 w q' He _ IH|q x q1 w q' He Hp _]; intros Hq.
    - now left.
    - apply IH. eapply Hc; eauto.
    - right. exists x, w, q, q1. auto.
  Qed.

  (* The walk: X = the states reachable on the word w read so far (epsilon-closed), L =
     the residuals of the literals after w.  Depth is bounded by the longest literal. *)
  Fixpoint walk (d : nat) (X : list nat) (L : list (list N)) (w : list N) : cover_result :=
    match d with
    | 0 => Unknown
    | S d' =>
        if has_nil L then Covered                  (* a literal is a prefix of w *)
        else if acc X then Witness w               (* w itself is accepted *)
        else match L with
             | [] => if dead X then Covered else Witness (w ++ ext X)
             | _ => first_bad_c _ (bstep X) adv_of (fun b r =>
                      match r with
                      | None => Unknown
                      | Some [] => Covered
                      | Some X' => walk d' X' (deriv b L) (w ++ [b])
                      end) bytes256 [] (Some [])
             end
    end.

  Theorem walk_sound d : forall X L w, eclosed X -> walk d X L w = Covered ->
    forall q m qf, In q X -> gpath q m qf -> finalb qf = true ->
    exists l, In l L /\ is_prefix l m.
  Proof.
    induction d as [|d IH]; intros X L w Hc Hw q m qf Hq Hp Hf; [discriminate|].
    cbn [walk] in Hw.
    destruct (has_nil L) eqn:Hn.
    { exists []. split; [now apply has_nil_spec|apply is_prefix_nil]. }
    destruct (acc X) eqn:Ha; [discriminate|].
    destruct L as [|l0 L0].
    { destruct (dead X) eqn:Hd; [|discriminate].
      rewrite (dead_spec X q m qf Hd Hq Hp) in Hf. discriminate. }
    remember (l0 :: L0) as L eqn:EL. clear EL.
    destruct (gpath_closed_inv X q m qf Hc Hp Hq) as [[-> Hin]|[b [m' [q1 [q2 [-> [Hq1 [He Hp']]]]]]]].
    { rewrite (acc_false X qf Ha Hin) in Hf. discriminate. }
    rewrite first_bad_c_eq in Hw by reflexivity.
    pose proof (first_bad_covered _ _ Hw b (bytes256_all b (byte_bound _ _ _ He))) as Hb.
    cbn beta in Hb. fold (adv X b) in Hb.
    destruct (adv X b) as [X'|] eqn:Eadv; [|discriminate].
    destruct (adv_spec X b X' Eadv) as [Hc' Hs'].
    pose proof (Hs' q1 q2 Hq1 He) as Hq2.
    destruct X' as [|x0 X0]; [destruct Hq2|].
    destruct (IH _ _ _ Hc' Hb q2 m' qf Hq2 Hp' Hf) as [l [Hl Hpre]].
    exists (b :: l). split; [now apply deriv_spec|now apply is_prefix_cons].
  Qed.

  (* ---------------------------------------------------------------------- *)
  (* inner literals: product of the state set with the set D of pending residuals
     D(w) = { t | u ++ t in L for some suffix u of w }.  The exploration is untrusted;
     its visited list is CHECKED to be an inductive invariant. *)
  Definition pstate := (list nat * list (list N))%type.

  Definition lmemb (t : list N) (D : list (list N)) : bool := existsb (beqb t) D.
  Definition lsubsetb (D D' : list (list N)) : bool := forallb (fun t => lmemb t D') D.

  Lemma lsubsetb_spec D D' : lsubsetb D D' = true -> forall t, In t D -> In t D'.
  Proof.
    unfold lsubsetb, lmemb. rewrite forallb_forall. intros H t Ht.
    specialize (H t Ht). apply existsb_exists in H as [u [Hu He]]. apply beqb_eq in He. now subst.
  Qed.

  (* (X', D') is subsumed by an entry (X'', D'') of V: X' <= X'' and D'' <= D' *)
  Definition covered_by (V : list pstate) (X' : list nat) (D' : list (list N)) : bool :=
    existsb (fun p => subsetqb X' (fst p) && lsubsetb (snd p) D') V.

  Fixpoint dedupl (D : list (list N)) : list (list N) :=
    match D with
    | [] => []
    | t :: r => let r' := dedupl r in if lmemb t r' then r' else t :: r'
    end.

  Definition dnext (L D : list (list N)) (b : N) : list (list N) := L ++ deriv b D.

  Definition inv_ok (L : list (list N)) (V : list pstate) : bool :=
    forallb (fun p =>
      let X := fst p in let D := snd p in
      eclosedb X && negb (acc X) && negb (has_nil D) &&
      (let k := fun (dD : list (list N)) (r : option (list nat)) =>
         match r with
         | None => false
         | Some [] => true
         | Some X' => let D' := L ++ dD in has_nil D' || covered_by V X' D'
         end in
       forallb_c2 _ (bstep X) adv_of (fun b => deriv b D) k bytes256 [] [] (Some []) (k [] (Some [])))) V.

  Lemma inv_ok_good L V : inv_ok L V = true ->
    forall m X D q qf, In (X, D) V -> In q X -> gpath q m qf -> finalb qf = true ->
    (exists l, In l L /\ is_infix l m) \/ (exists t, In t D /\ is_prefix t m).
  Proof.
    intros Hinv. unfold inv_ok in Hinv. rewrite forallb_forall in Hinv.
    induction m as [|b m IH]; intros X D q qf HV Hq Hp Hf.
    - specialize (Hinv _ HV). cbn [fst snd] in Hinv.
      apply andb_prop in Hinv as [Hinv _]. apply andb_prop in Hinv as [Hinv _].
      apply andb_prop in Hinv as [Hc Ha]. apply negb_true_iff in Ha.
      destruct (gpath_closed_inv X q [] qf (eclosedb_spec _ Hc) Hp Hq) as [[_ Hin]|[b [m' [q1 [q2 [Hm _]]]]]];
        [|discriminate].
      rewrite (acc_false X qf Ha Hin) in Hf. discriminate.
    - pose proof (Hinv _ HV) as HX. cbn [fst snd] in HX.
      apply andb_prop in HX as [HX Hall]. apply andb_prop in HX as [HX _].
      apply andb_prop in HX as [Hc Ha]. apply negb_true_iff in Ha.
      destruct (gpath_closed_inv X q (b :: m) qf (eclosedb_spec _ Hc) Hp Hq)
        as [[Hm _]|[b' [m' [q1 [q2 [Hm [Hq1 [He Hp']]]]]]]]; [discriminate|].
      inversion Hm; subst b' m'. clear Hm.
      cbn zeta in Hall. rewrite forallb_c2_eq in Hall by reflexivity. rewrite forallb_forall in Hall.
      specialize (Hall b (bytes256_all b (byte_bound _ _ _ He))). cbn beta in Hall. fold (adv X b) in Hall.
      destruct (adv X b) as [X'|] eqn:Eadv; [|discriminate].
      destruct (adv_spec X b X' Eadv) as [_ Hs'].
      pose proof (Hs' q1 q2 Hq1 He) as Hq2.
      destruct X' as [|x0 X0]; [destruct Hq2|].
      cbn zeta in Hall. apply orb_prop in Hall as [Hnil|Hcov].
      + apply has_nil_spec in Hnil. unfold dnext in Hnil. apply in_app_or in Hnil as [Hl|Hd].
        * left. exists []. split; [exact Hl|]. exists [], (b :: m). reflexivity.
        * right. exists [b]. split; [now apply deriv_spec|]. now exists m.
      + unfold covered_by in Hcov. apply existsb_exists in Hcov as [[X2 D2] [HV2 H2]].
        cbn [fst snd] in H2. apply andb_prop in H2 as [Hsx Hsd].
        pose proof (subsetqb_spec _ _ Hsx q2 Hq2) as Hq2'.
        destruct (IH X2 D2 q2 qf HV2 Hq2' Hp' Hf) as [[l [Hl [a [c Hi]]]]|[t [Ht [r Hpre]]]].
        * left. exists l. split; [exact Hl|]. exists (b :: a), c. now rewrite Hi.
        * pose proof (lsubsetb_spec _ _ Hsd t Ht) as Ht'. unfold dnext in Ht'.
          apply in_app_or in Ht' as [Hl|Hd].
          -- left. exists t. split; [exact Hl|]. exists [b], r. now rewrite Hpre.
          -- right. exists (b :: t). split; [now apply deriv_spec|]. exists r. now rewrite Hpre.
  Qed.

  (* untrusted breadth-first exploration producing the candidate invariant *)
  Fixpoint expand (L : list (list N)) (V : list pstate) (X : list nat) (D : list (list N)) (w : list N)
           (bs : list N) (cT : list nat) (cR : option (list nat)) (cA : list (list N))
           (news : list (pstate * list N)) : cover_result * list (pstate * list N) :=
    match bs with
    | [] => (Covered, news)
    | b :: t =>
        let T := bstep X b in
        let a := deriv b D in
        if nleqb T cT && lleqb a cA then expand L V X D w t cT cR cA news   (* same outcome as the previous byte *)
        else
        let r := if nleqb T cT then cR else adv_of T in
        match r with
        | None => (Unknown, news)
        | Some [] => expand L V X D w t T r a news
        | Some X' =>
            let D' := dedupl (L ++ a) in
            if has_nil D' then expand L V X D w t T r a news
            else if acc X' then (Witness (w ++ [b]), news)
            else if covered_by V X' D' || covered_by (map fst news) X' D' then expand L V X D w t T r a news
            else expand L V X D w t T r a (((X', D'), w ++ [b]) :: news)
        end
    end.

  Fixpoint explore (fuel : nat) (L : list (list N)) (queue : list (pstate * list N))
           (V : list pstate) : cover_result * list pstate :=
    match fuel with
    | 0 => (Unknown, V)
    | S f =>
        match queue with
        | [] => (Covered, V)
        | ((X, D), w) :: t =>
            if covered_by V X D then explore f L t V
            else match expand L ((X, D) :: V) X D w bytes256 [] (Some []) [] [] with
                 | (Covered, news) => explore f L (t ++ rev news) ((X, D) :: V)
                 | (r, _) => (r, V)
                 end
        end
    end.

  Definition inner_walk (fuel : nat) (X0 : list nat) (L : list (list N)) : cover_result :=
    if has_nil L then Covered
    else if acc X0 then Witness []
    else match explore fuel L [((X0, L), [])] [] with
         | (Covered, V) => if inv_ok L V && covered_by V X0 L then Covered else Unknown
         | (r, _) => r
         end.

  Theorem inner_walk_sound fuel X0 L : inner_walk fuel X0 L = Covered ->
    forall q m qf, In q X0 -> gpath q m qf -> finalb qf = true ->
    exists l, In l L /\ is_infix l m.
  Proof.
    unfold inner_walk. intros H q m qf Hq Hp Hf.
    destruct (has_nil L) eqn:Hn.
    { exists []. split; [now apply has_nil_spec|]. exists [], m. reflexivity. }
    destruct (acc X0); [discriminate|].
    destruct (explore fuel L _ _) as [[| |] V]; try discriminate.
    destruct (inv_ok L V && covered_by V X0 L) eqn:Hc; [|discriminate].
    apply andb_prop in Hc as [Hinv Hcov].
    unfold covered_by in Hcov. apply existsb_exists in Hcov as [[X2 D2] [HV2 H2]].
    cbn [fst snd] in H2. apply andb_prop in H2 as [Hsx Hsd].
    destruct (inv_ok_good L V Hinv m X2 D2 q qf HV2 (subsetqb_spec _ _ Hsx q Hq) Hp Hf)
      as [Hl|[t [Ht [r Hpre]]]]; [exact Hl|].
    exists t. split; [exact (lsubsetb_spec _ _ Hsd t Ht)|]. exists [], r. now rewrite Hpre.
  Qed.
End Graph.

(* ------------------------------------------------------------------------ *)
(** * 2. The relaxed NFA graph (forward) and its link with nfa_path          *)
(* ------------------------------------------------------------------------ *)

(* nfa/nfa.go State kinds: the epsilon-like states.  Look states are taken as
   unconditional epsilon moves (over-approximation of the language). *)
Definition eps_succs (st : nstate) : list nat :=
  match st with
  | SSplit l r => [l; r]
  | SEpsilon n => [n]
  | SCapture _ _ n => [n]
  | SLook _ n => [n]
  | _ => []
  end.

Definition byte_succs (st : nstate) (b : N) : list nat :=
  match st with
  | SByteRange lo hi nx => if in_range lo hi b then [nx] else []
  | SSparse trs => match sparse_next trs b with Some nx => [nx] | None => [] end
  | _ => []
  end.

Definition all_succs (st : nstate) : list nat :=
  match st with
  | SByteRange _ _ nx => [nx]
  | SSparse trs => map (fun t => snd t) trs
  | _ => eps_succs st
  end.

Definition lab_succs (st : nstate) (lab : option N) : list nat :=
  match lab with None => eps_succs st | Some b => byte_succs st b end.

Lemma sparse_next_in trs b nx : sparse_next trs b = Some nx -> In nx (map (fun t => snd t) trs).
Proof.
  induction trs as [|[[lo hi] x] t IH]; cbn [sparse_next map snd]; intros H; [discriminate|].
  destruct (in_range lo hi b); [inversion H; now left|right; now apply IH].
Qed.

Lemma lab_succs_all st lab q : In q (lab_succs st lab) -> In q (all_succs st).
Proof.
  destruct lab as [b|]; cbn [lab_succs].
  - destruct st; cbn [byte_succs all_succs]; intros H; try (now destruct H).
    + destruct (in_range lo hi b); [exact H|destruct H].
    + destruct (sparse_next trs b) eqn:E; [|destruct H]. destruct H as [<-|[]].
      eapply sparse_next_in; eauto.
  - destruct st; cbn [eps_succs all_succs]; intros H; try exact H; try (now destruct H).
Qed.

Lemma sparse_next_bound n prev trs b nx :
  sparse_ok n prev trs = true -> sparse_next trs b = Some nx -> (b < 256)%N.
Proof.
  revert prev. induction trs as [|[[lo hi] x] t IH]; cbn [sparse_ok sparse_next]; intros prev Hok Hn.
  - discriminate.
  - apply andb_prop in Hok as [Hok Ht]. apply andb_prop in Hok as [Hok _].
    apply andb_prop in Hok as [Hok _]. apply andb_prop in Hok as [_ Hhi].
    destruct (in_range lo hi b) eqn:Er.
    + unfold in_range in Er. lia.
    + eapply IH; eauto.
Qed.

Section Fwd.
  Variable A : nfa.

  Definition st_of (q : nat) : nstate := nth q (states A) SFail.

  Definition Ef (q : nat) (lab : option N) (q1 : nat) : Prop :=
    exists st, nth_error (states A) q = Some st /\ In q1 (lab_succs st lab).

  Definition f_final (q : nat) : bool := is_match_state (st_of q).
  Definition f_bstep (X : list nat) (b : N) : list nat := flat_map (fun q => byte_succs (st_of q) b) X.
  Definition f_estep (X : list nat) : list nat := flat_map (fun q => eps_succs (st_of q)) X.
  Definition f_gstep (X : list nat) : list nat := flat_map (fun q => all_succs (st_of q)) X.

  Lemma st_of_nth q st : nth_error (states A) q = Some st -> st_of q = st.
  Proof. intros H. unfold st_of. now apply nth_error_nth. Qed.

  Lemma f_bstep_spec X b q q1 : In q X -> Ef q (Some b) q1 -> In q1 (f_bstep X b).
  Proof.
    intros Hq [st [Hst Hin]]. unfold f_bstep. apply in_flat_map. exists q. split; [exact Hq|].
    now rewrite (st_of_nth _ _ Hst).
  Qed.

  Lemma f_estep_spec X q q1 : In q X -> Ef q None q1 -> In q1 (f_estep X).
  Proof.
    intros Hq [st [Hst Hin]]. unfold f_estep. apply in_flat_map. exists q. split; [exact Hq|].
    now rewrite (st_of_nth _ _ Hst).
  Qed.

  Lemma f_gstep_spec X lab q q1 : In q X -> Ef q lab q1 -> In q1 (f_gstep X).
  Proof.
    intros Hq [st [Hst Hin]]. unfold f_gstep. apply in_flat_map. exists q. split; [exact Hq|].
    rewrite (st_of_nth _ _ Hst). eapply lab_succs_all; eauto.
  Qed.

  Hypothesis Hwf : wf_nfa A = true.

  Lemma f_byte_bound q b q1 : Ef q (Some b) q1 -> (b < 256)%N.
  Proof.
    intros [st [Hst Hin]]. unfold wf_nfa in Hwf.
    apply andb_prop in Hwf as [Hwf' _]. apply andb_prop in Hwf' as [Hall _].
    rewrite forallb_forall in Hall. specialize (Hall st (nth_error_In _ _ Hst)).
    destruct st; cbn [lab_succs byte_succs] in Hin; cbn [state_ok] in Hall; try (now destruct Hin).
    - destruct (in_range lo hi b) eqn:Er; [|destruct Hin]. unfold in_range in Er. lia.
    - destruct (sparse_next trs b) eqn:E; [|destruct Hin]. eapply sparse_next_bound; eauto.
  Qed.
End Fwd.

(* every real path is a relaxed path over the bytes it consumes *)
Lemma skipn_nth_cons (h : list N) p b : nth_error h p = Some b -> skipn p h = b :: skipn (S p) h.
Proof.
  revert p. induction h as [|x h IH]; intros [|p] H; try discriminate.
  - inversion H; subst. reflexivity.
  - cbn [nth_error] in H. change (skipn (S p) (x :: h)) with (skipn p h). rewrite (IH p H). reflexivity.
Qed.

Lemma sub_cons (h : list N) p e b : nth_error h p = Some b -> S p <= e -> sub h p e = b :: sub h (S p) e.
Proof.
  intros H Hle. unfold sub. rewrite (skipn_nth_cons h p b H).
  replace (e - p) with (S (e - S p)) by lia. reflexivity.
Qed.

Lemma sub_same (h : list N) p : sub h p p = [].
Proof. unfold sub. now rewrite Nat.sub_diag. Qed.

Lemma path_relaxed A h c c' : reach A h c c' ->
  snd c <= snd c' /\ gpath (Ef A) (fst c) (sub h (snd c) (snd c')) (fst c').
Proof.
  induction 1 as [c|c c1 c2 He _ IH].
  - split; [lia|]. rewrite sub_same. constructor.
  - destruct IH as [Hle Hp]. destruct He as [st [sl [sl' [Hst Hin]]]].
    destruct c as [q p], c1 as [q1 p1], c2 as [q2 p2]. cbn [fst snd] in *.
    destruct st; cbn [succs] in Hin; try (now destruct Hin).
    + destruct (nth_error h p) as [b|] eqn:Eb; [|destruct Hin].
      destruct (in_range lo hi b) eqn:Er; [|destruct Hin].
      destruct Hin as [Hin|[]]. inversion Hin; subst. split; [lia|].
      rewrite (sub_cons h p p2 b Eb Hle). eapply gp_byte; [|exact Hp].
      exists (SByteRange lo hi q1). split; [exact Hst|]. cbn. rewrite Er. now left.
    + destruct (nth_error h p) as [b|] eqn:Eb; [|destruct Hin].
      destruct (sparse_next trs b) as [nx|] eqn:Es; [|destruct Hin].
      destruct Hin as [Hin|[]]. inversion Hin; subst. split; [lia|].
      rewrite (sub_cons h p p2 b Eb Hle). eapply gp_byte; [|exact Hp].
      exists (SSparse trs). split; [exact Hst|]. cbn. rewrite Es. now left.
    + assert (Hq : p1 = p /\ (q1 = l \/ q1 = r))
        by (destruct Hin as [Hin|[Hin|[]]]; inversion Hin; subst; auto).
      destruct Hq as [-> Hq]. split; [lia|].
      eapply gp_eps; [|exact Hp]. exists (SSplit l r). split; [exact Hst|]. cbn.
      destruct Hq as [->| ->]; auto.
    + destruct Hin as [Hin|[]]. inversion Hin; subst. split; [lia|].
      eapply gp_eps; [|exact Hp]. exists (SEpsilon q1). split; [exact Hst|]. now left.
    + destruct Hin as [Hin|[]]. inversion Hin; subst. split; [lia|].
      eapply gp_eps; [|exact Hp]. exists (SCapture idx is_start q1). split; [exact Hst|]. now left.
    + destruct (look_ok lk h p); [|destruct Hin].
      destruct Hin as [Hin|[]]. inversion Hin; subst. split; [lia|].
      eapply gp_eps; [|exact Hp]. exists (SLook lk q1). split; [exact Hst|]. now left.
Qed.

(* ------------------------------------------------------------------------ *)
(** * 3. Witness completion (untrusted) and the three cover checkers         *)
(* ------------------------------------------------------------------------ *)

(* breadth-first search for a shortest labelled path to a final state *)
Fixpoint bfs (nexts : nat -> list (option N * nat)) (fin : nat -> bool) (fuel : nat)
         (queue : list (nat * list N)) (vis : list nat) : list N :=
  match fuel with
  | 0 => []
  | S f =>
      match queue with
      | [] => []
      | (q, p) :: t =>
          if fin q then rev p
          else if memb q vis then bfs nexts fin f t vis
          else bfs nexts fin f
                 (t ++ map (fun e => (snd e, match fst e with Some b => b :: p | None => p end)) (nexts q))
                 (q :: vis)
      end
  end.

(* representative byte of a range: a lower-case letter / digit when possible *)
Definition pick_byte (lo hi : N) : N :=
  if in_range lo hi 97 then 97%N else if in_range lo hi 48 then 48%N else lo.

Definition trans_of (st : nstate) : list (option N * nat) :=
  match st with
  | SByteRange lo hi nx => [(Some (pick_byte lo hi), nx)]
  | SSparse trs => map (fun t => (Some (pick_byte (fst (fst t)) (snd (fst t))), snd t)) trs
  | _ => map (fun q => (None, q)) (eps_succs st)
  end.

Definition maxlen (L : list (list N)) : nat := fold_right (fun l m => Nat.max (length l) m) 0 L.

Definition f_ext (A : nfa) (X : list nat) : list N :=
  bfs (fun q => trans_of (st_of A q)) (f_final A) (20 * nstates A + 100) (map (fun q => (q, [])) X) [].

Definition f_start (A : nfa) : option (list nat) :=
  eclose (f_estep A) (nstates A) [start_anch A].

(* every match starts with one of the literals *)
Definition prefix_cover (A : nfa) (L : list (list N)) : cover_result :=
  if negb (wf_nfa A) then Unknown else
  match f_start A with
  | None => Unknown
  | Some X0 => walk (f_final A) (f_bstep A) (f_estep A) (f_gstep A) (nstates A) (f_ext A)
                    (maxlen L + 2) X0 L []
  end.

Lemma nfa_path_gpath A h s e : nfa_path A h (start_anch A) s e ->
  exists qf, gpath (Ef A) (start_anch A) (sub h s e) qf /\ f_final A qf = true.
Proof.
  intros [q' [Hr Ha]]. exists q'. apply path_relaxed in Hr. cbn [fst snd] in Hr.
  split; [apply Hr|]. unfold accepting in Ha. cbn [fst] in Ha. unfold f_final.
  now rewrite (st_of_nth _ _ _ Ha).
Qed.

Theorem prefix_cover_sound A L : wf_nfa A = true -> prefix_cover A L = Covered ->
  forall h s e, nfa_path A h (start_anch A) s e -> exists l, In l L /\ is_prefix l (sub h s e).
Proof.
  intros Hwf Hc h s e Hp. unfold prefix_cover in Hc. rewrite Hwf in Hc. cbn [negb] in Hc.
  destruct (f_start A) as [X0|] eqn:E0; [|discriminate].
  unfold f_start in E0.
  destruct (eclose_spec (Ef A) (f_estep A) (nstates A) (f_estep_spec A) _ _ E0) as [Hcl Hsub].
  destruct (nfa_path_gpath A h s e Hp) as [qf [Hg Hf]].
  eapply (walk_sound (Ef A) (f_final A) (f_bstep A) (f_estep A) (f_gstep A) (nstates A) (f_ext A)
            (f_bstep_spec A) (f_estep_spec A) (f_gstep_spec A) (f_byte_bound A Hwf));
    [exact Hcl|exact Hc| |exact Hg|exact Hf].
  apply Hsub. now left.
Qed.

(* every match contains one of the literals *)
Definition inner_fuel : nat := 3000.

Definition inner_cover (A : nfa) (L : list (list N)) : cover_result :=
  if negb (wf_nfa A) then Unknown else
  match f_start A with
  | None => Unknown
  | Some X0 => inner_walk (f_final A) (f_bstep A) (f_estep A) (nstates A) inner_fuel X0 L
  end.

Theorem inner_cover_sound A L : wf_nfa A = true -> inner_cover A L = Covered ->
  forall h s e, nfa_path A h (start_anch A) s e -> exists l, In l L /\ is_infix l (sub h s e).
Proof.
  intros Hwf Hc h s e Hp. unfold inner_cover in Hc. rewrite Hwf in Hc. cbn [negb] in Hc.
  destruct (f_start A) as [X0|] eqn:E0; [|discriminate].
  unfold f_start in E0.
  destruct (eclose_spec (Ef A) (f_estep A) (nstates A) (f_estep_spec A) _ _ E0) as [Hcl Hsub].
  destruct (nfa_path_gpath A h s e Hp) as [qf [Hg Hf]].
  eapply (inner_walk_sound (Ef A) (f_final A) (f_bstep A) (f_estep A) (nstates A)
            (f_bstep_spec A) (f_estep_spec A) (f_byte_bound A Hwf));
    [exact Hc| |exact Hg|exact Hf].
  apply Hsub. now left.
Qed.

(* ---------------- backwards: the reversed graph restricted to the states reachable
   from the anchored start *)
Section Bwd.
  Variable A : nfa.
  Variable R : list nat.

  Definition RS : list (nat * nstate) :=
    flat_map (fun q => match nth_error (states A) q with Some st => [(q, st)] | None => [] end) R.

  Definition Eb (q : nat) (lab : option N) (q0 : nat) : Prop := In q0 R /\ Ef A q0 lab q.

  Definition b_sel (f : nstate -> list nat) (X : list nat) : list nat :=
    map fst (filter (fun p => existsb (fun q => memb q X) (f (snd p))) RS).

  Definition b_bstep (X : list nat) (b : N) : list nat := b_sel (fun st => byte_succs st b) X.
  Definition b_estep (X : list nat) : list nat := b_sel eps_succs X.
  Definition b_gstep (X : list nat) : list nat := b_sel all_succs X.
  Definition b_final (q : nat) : bool := q =? start_anch A.

  Lemma b_sel_spec (f : nstate -> list nat) X q q0 st :
    In q X -> In q0 R -> nth_error (states A) q0 = Some st -> In q (f st) -> In q0 (b_sel f X).
  Proof.
    intros Hq Hr Hst Hin. unfold b_sel. apply in_map_iff. exists (q0, st). split; [reflexivity|].
    apply filter_In. split.
    - unfold RS. apply in_flat_map. exists q0. split; [exact Hr|]. rewrite Hst. now left.
    - cbn [snd]. apply existsb_exists. exists q. split; [exact Hin|now apply memb_In].
  Qed.

  Lemma b_bstep_spec X b q q0 : In q X -> Eb q (Some b) q0 -> In q0 (b_bstep X b).
  Proof. intros Hq [Hr [st [Hst Hin]]]. eapply b_sel_spec; eauto. Qed.

  Lemma b_estep_spec X q q0 : In q X -> Eb q None q0 -> In q0 (b_estep X).
  Proof. intros Hq [Hr [st [Hst Hin]]]. eapply b_sel_spec; eauto. Qed.

  Lemma b_gstep_spec X lab q q0 : In q X -> Eb q lab q0 -> In q0 (b_gstep X).
  Proof.
    intros Hq [Hr [st [Hst Hin]]]. eapply b_sel_spec; eauto. eapply lab_succs_all; eauto.
  Qed.

  Lemma b_byte_bound : wf_nfa A = true -> forall q b q0, Eb q (Some b) q0 -> (b < 256)%N.
  Proof. intros Hwf q b q0 [_ He]. eapply f_byte_bound; eauto. Qed.

  Definition b_nexts (q : nat) : list (option N * nat) :=
    flat_map (fun p => map (fun e => (fst e, fst p)) (filter (fun e => snd e =? q) (trans_of (snd p)))) RS.

  Definition b_ext (X : list nat) : list N :=
    bfs b_nexts b_final (20 * nstates A + 100) (map (fun q => (q, [])) X) [].

  (* a forward path inside R is a backward path on the reversed word *)
  Lemma gpath_rev q m q' : gclosed (Ef A) R -> gpath (Ef A) q m q' -> In q R ->
    gpath Eb q' (rev m) q.
  Proof.
    intros Hc. induction 1 as [q|q q1 w q' He _ IH|q x q1 w q' He _ IH]; intros Hq.
    - constructor.
    - eapply gpath_snoc_eps; [apply IH; eapply Hc; eauto|]. split; assumption.
    - cbn [rev]. eapply gpath_snoc_byte; [apply IH; eapply Hc; eauto|]. split; assumption.
  Qed.
End Bwd.

Definition reach_set (A : nfa) : list nat := iter_close (f_gstep A) (nstates A) [start_anch A].

(* every match ends with one of the literals *)
Definition suffix_cover (A : nfa) (L : list (list N)) : cover_result :=
  if negb (wf_nfa A) then Unknown else
  let R := reach_set A in
  if negb (gclosedb (f_gstep A) R && memb (start_anch A) R) then Unknown else
  let M := map fst (filter (fun p => is_match_state (snd p)) (RS A R)) in
  match eclose (b_estep A R) (nstates A) M with
  | None => Unknown
  | Some T0 =>
      match walk (b_final A) (b_bstep A R) (b_estep A R) (b_gstep A R) (nstates A) (b_ext A R)
                 (maxlen L + 2) T0 (map (@rev N) L) [] with
      | Witness w => Witness (rev w)
      | r => r
      end
  end.

Theorem suffix_cover_sound A L : wf_nfa A = true -> suffix_cover A L = Covered ->
  forall h s e, nfa_path A h (start_anch A) s e -> exists l, In l L /\ is_suffix l (sub h s e).
Proof.
  intros Hwf Hc h s e Hp. unfold suffix_cover in Hc. rewrite Hwf in Hc. cbn [negb] in Hc.
  set (R := reach_set A) in *.
  destruct (gclosedb (f_gstep A) R && memb (start_anch A) R) eqn:HR; [|discriminate].
  cbn [negb] in Hc. apply andb_prop in HR as [Hgc Hst]. apply memb_In in Hst.
  pose proof (gclosedb_spec (Ef A) (f_gstep A) (f_gstep_spec A) R Hgc) as HRc.
  destruct (eclose (b_estep A R) (nstates A) _) as [T0|] eqn:E0; [|discriminate].
  destruct (eclose_spec (Eb A R) (b_estep A R) (nstates A) (b_estep_spec A R) _ _ E0) as [Hcl Hsub].
  destruct (walk _ _ _ _ _ _ _ T0 _ _) eqn:Ew; try discriminate.
  destruct (nfa_path_gpath A h s e Hp) as [qf [Hg Hf]].
  pose proof (gclosed_path (Ef A) R _ _ _ HRc Hg Hst) as HqfR.
  pose proof (gpath_rev A R _ _ _ HRc Hg Hst) as Hb.
  assert (HqfT : In qf T0).
  { apply Hsub. apply in_map_iff. unfold f_final, st_of in Hf.
    destruct (nth_error (states A) qf) as [st|] eqn:Est.
    - exists (qf, st). split; [reflexivity|]. apply filter_In. split.
      + unfold RS. apply in_flat_map. exists qf. split; [exact HqfR|]. rewrite Est. now left.
      + cbn [snd]. now rewrite (nth_error_nth _ _ SFail Est) in Hf.
    - rewrite (nth_overflow _ SFail (proj1 (nth_error_None _ _) Est)) in Hf. discriminate. }
  destruct (walk_sound (Eb A R) (b_final A) (b_bstep A R) (b_estep A R) (b_gstep A R) (nstates A)
              (b_ext A R) (b_bstep_spec A R) (b_estep_spec A R) (b_gstep_spec A R)
              (b_byte_bound A R Hwf) _ _ _ _ Hcl Ew qf (rev (sub h s e)) (start_anch A) HqfT Hb)
    as [l' [Hl' [t Ht]]].
  { unfold b_final. apply Nat.eqb_refl. }
  apply in_map_iff in Hl' as [l [<- Hl]]. exists l. split; [exact Hl|].
  exists (rev t). apply (f_equal (@rev N)) in Ht. rewrite rev_involutive, rev_app_distr, rev_involutive in Ht.
  exact Ht.
Qed.

(* ------------------------------------------------------------------------ *)
(** * 4. Complete literals: [complete_ok]                                    *)
(* ------------------------------------------------------------------------ *)
(* Here the direction is the opposite one: the literal must REALLY be accepted, so
   zero-width assertions are taken as failing (under-approximation). *)

Definition strict_eps (st : nstate) : list nat :=
  match st with SLook _ _ => [] | _ => eps_succs st end.

Definition s_estep (A : nfa) (X : list nat) : list nat := flat_map (fun q => strict_eps (st_of A q)) X.
Definition s_close (A : nfa) (X : list nat) : list nat := iter_close (s_estep A) (nstates A) X.

Fixpoint sim (A : nfa) (X : list nat) (l : list N) : list nat :=
  match l with
  | [] => X
  | b :: t => sim A (s_close A (f_bstep A X b)) t
  end.

Definition has_look (A : nfa) : bool :=
  existsb (fun st => match st with SLook _ _ => true | _ => false end) (states A).

Definition complete_ok (A : nfa) (l : list N) : bool :=
  existsb (f_final A) (sim A (s_close A [start_anch A]) l).

Lemma add_all_in X Y q : In q (add_all X Y) -> In q X \/ In q Y.
Proof.
  revert Y. induction X as [|x X IH]; cbn [add_all]; intros Y H; [now right|].
  destruct (memb x Y).
  - destruct (IH _ H); [left; now right|now right].
  - destruct (IH _ H) as [H1|[<-|H1]]; [left; now right|left; now left|now right].
Qed.

Lemma iter_close_sound (P : nat -> Prop) step :
  (forall X, (forall q, In q X -> P q) -> forall q, In q (step X) -> P q) ->
  forall fuel X, (forall q, In q X -> P q) -> forall q, In q (iter_close step fuel X) -> P q.
Proof.
  intros Hstep. induction fuel as [|f IH]; cbn [iter_close]; intros X HX q Hq; [now apply HX|].
  destruct (length (add_all (step X) X) =? length X); [now apply HX|].
  eapply IH; [|exact Hq]. intros q' Hq'. apply add_all_in in Hq' as [H|H]; [|now apply HX].
  eapply Hstep; eauto.
Qed.

Lemma st_of_some A q : st_of A q <> SFail -> nth_error (states A) q = Some (st_of A q).
Proof.
  intros H. unfold st_of in *. destruct (nth_error (states A) q) as [st|] eqn:E.
  - now rewrite (nth_error_nth _ _ SFail E).
  - rewrite (nth_overflow _ SFail (proj1 (nth_error_None _ _) E)) in H. congruence.
Qed.

Lemma s_close_reach A h c0 i X :
  (forall q, In q X -> reach A h c0 (q, i)) -> forall q, In q (s_close A X) -> reach A h c0 (q, i).
Proof.
  unfold s_close. apply iter_close_sound. intros Y HY q1 Hq1.
  unfold s_estep in Hq1. apply in_flat_map in Hq1 as [q [Hq Hin]].
  eapply reach_trans; [apply HY; exact Hq|].
  assert (Hne : st_of A q <> SFail) by (intros E; rewrite E in Hin; destruct Hin).
  eapply reach_step; [|apply reach_refl].
  exists (st_of A q), [], (match st_of A q with SCapture idx s _ => set_nth [] (slot_of idx s) (Z.of_nat i) | _ => [] end).
  split; [now apply st_of_some|]. cbn [fst snd].
  destruct (st_of A q); cbn [strict_eps eps_succs] in Hin; try (now destruct Hin); cbn [succs].
  - destruct Hin as [<-|[<-|[]]]; [now left|right; now left].
  - destruct Hin as [<-|[]]. now left.
  - destruct Hin as [<-|[]]. now left.
Qed.

Lemma bstep_reach A h c0 i b X : nth_error h i = Some b ->
  (forall q, In q X -> reach A h c0 (q, i)) ->
  forall q, In q (f_bstep A X b) -> reach A h c0 (q, S i).
Proof.
  intros Hb HX q1 Hq1. unfold f_bstep in Hq1. apply in_flat_map in Hq1 as [q [Hq Hin]].
  eapply reach_trans; [apply HX; exact Hq|].
  assert (Hne : st_of A q <> SFail) by (intros E; rewrite E in Hin; destruct Hin).
  eapply reach_step; [|apply reach_refl].
  exists (st_of A q), [], []. split; [now apply st_of_some|]. cbn [fst snd].
  destruct (st_of A q); cbn [byte_succs] in Hin; try (now destruct Hin); cbn [succs]; rewrite Hb.
  - destruct (in_range lo hi b); [|destruct Hin]. destruct Hin as [<-|[]]. now left.
  - destruct (sparse_next trs b); [|destruct Hin]. destruct Hin as [<-|[]]. now left.
Qed.

Lemma sim_reach A h c0 : forall l X i, skipn i h = l -> i <= length h ->
  (forall q, In q X -> reach A h c0 (q, i)) ->
  forall q, In q (sim A X l) -> reach A h c0 (q, length h).
Proof.
  induction l as [|b t IH]; intros X i Hs Hi HX q Hq; cbn [sim] in Hq.
  - assert (i = length h).
    { apply (f_equal (@length N)) in Hs. rewrite skipn_length in Hs. cbn in Hs. lia. }
    subst i. now apply HX.
  - assert (Hb : nth_error h i = Some b).
    { rewrite <- (firstn_skipn i h) at 1. rewrite nth_error_app2 by (rewrite firstn_length; lia).
      rewrite firstn_length, Nat.min_l by lia. rewrite Nat.sub_diag, Hs. reflexivity. }
    assert (Hs' : skipn (S i) h = t).
    { pose proof (skipn_nth_cons h i b Hb) as H1. rewrite Hs in H1. now inversion H1. }
    assert (Hi' : S i <= length h) by (apply nth_error_Some_lt' in Hb; lia).
    eapply (IH _ (S i) Hs' Hi'); [|exact Hq].
    apply s_close_reach. eapply bstep_reach; eauto.
Qed.

Theorem complete_ok_sound A l : complete_ok A l = true ->
  nfa_path A l (start_anch A) 0 (length l).
Proof.
  unfold complete_ok. intros H. apply existsb_exists in H as [qf [Hq Hf]].
  exists qf. split.
  - eapply (sim_reach A l (start_anch A, 0) l _ 0 eq_refl (Nat.le_0_l _)); [|exact Hq].
    apply s_close_reach. intros q [<-|[]]. apply reach_refl.
  - unfold accepting. cbn [fst]. unfold f_final in Hf.
    assert (Hne : st_of A qf <> SFail) by (intros E; rewrite E in Hf; discriminate).
    rewrite (st_of_some A qf Hne). destruct (st_of A qf); try discriminate. reflexivity.
Qed.

(* ------------------------------------------------------------------------ *)
(** * 5. The Seq algebra (literal/seq.go)                                    *)
(* ------------------------------------------------------------------------ *)

(* seq.go: type Literal struct { Bytes []byte; Complete bool } *)
Definition literal := (list N * bool)%type.
Definition lit_bytes (l : literal) : list N := fst l.
Definition lit_complete (l : literal) : bool := snd l.

(* seq.go: type Seq struct { literals []Literal; partialCoverage bool } *)
Record seq := mkSeq { lits : list literal; partial : bool }.

(* a literal set covers a set of strings (the matches) *)
Definition covers_prefix (L : list literal) (M : list N -> Prop) : Prop :=
  forall m, M m -> exists l, In l L /\ is_prefix (lit_bytes l) m.
Definition covers_suffix (L : list literal) (M : list N -> Prop) : Prop :=
  forall m, M m -> exists l, In l L /\ is_suffix (lit_bytes l) m.
(* the invariant the cross product relies on: a Complete literal IS the whole string *)
Definition covers_exact (L : list literal) (M : list N -> Prop) : Prop :=
  forall m, M m -> exists l, In l L /\
     (if lit_complete l then m = lit_bytes l else is_prefix (lit_bytes l) m).
Definition cat_lang (M1 M2 : list N -> Prop) (m : list N) : Prop :=
  exists m1 m2, M1 m1 /\ M2 m2 /\ m = m1 ++ m2.

Lemma covers_exact_prefix L M : covers_exact L M -> covers_prefix L M.
Proof.
  intros H m Hm. destruct (H m Hm) as [l [Hl Hc]]. exists l. split; [exact Hl|].
  destruct (lit_complete l); [subst; apply is_prefix_refl|exact Hc].
Qed.

(* a refinement by prefixes keeps the cover *)
Lemma cover_refine (L L' : list literal) M :
  (forall l, In l L -> exists k, In k L' /\ is_prefix (lit_bytes k) (lit_bytes l)) ->
  covers_prefix L M -> covers_prefix L' M.
Proof.
  intros Hr Hc m Hm. destruct (Hc m Hm) as [l [Hl Hp]]. destruct (Hr l Hl) as [k [Hk Hkp]].
  exists k. split; [exact Hk|eapply is_prefix_trans; eauto].
Qed.

(* ---- seq.go: Seq.Minimize.  sort.Slice by length (any order among equal lengths:
   the theorem does not depend on it; the model uses a stable insertion sort), then keep
   a literal unless an already kept one is a prefix of it. *)
Fixpoint insert_by_len (x : literal) (l : list literal) : list literal :=
  match l with
  | [] => [x]
  | y :: t => if length (fst x) <=? length (fst y) then x :: y :: t else y :: insert_by_len x t
  end.
Definition sort_by_len (L : list literal) : list literal := fold_right insert_by_len [] L.

Fixpoint min_loop (kept rest : list literal) : list literal :=
  match rest with
  | [] => kept
  | c :: t => if existsb (fun k => prefixb (fst k) (fst c)) kept then min_loop kept t
              else min_loop (kept ++ [c]) t
  end.
Definition minimize (L : list literal) : list literal :=
  match L with [] => [] | _ => min_loop [] (sort_by_len L) end.

Lemma insert_by_len_in x l y : In y (x :: l) -> In y (insert_by_len x l).
Proof.
  induction l as [|z t IH]; cbn [insert_by_len]; intros H; [exact H|].
  destruct (length (fst x) <=? length (fst z)); [exact H|].
  destruct H as [<-|[<-|H]]; [right; apply IH; now left|now left|right; apply IH; now right].
Qed.

Lemma sort_by_len_in L y : In y L -> In y (sort_by_len L).
Proof.
  induction L as [|x L IH]; cbn [sort_by_len fold_right]; intros H; [exact H|].
  apply insert_by_len_in. destruct H as [<-|H]; [now left|right; now apply IH].
Qed.

Lemma min_loop_spec rest : forall kept,
  (forall k, In k kept -> In k (min_loop kept rest)) /\
  (forall c, In c rest -> exists k, In k (min_loop kept rest) /\ is_prefix (fst k) (fst c)).
Proof.
  induction rest as [|c t IH]; intros kept; cbn [min_loop].
  - split; [auto|intros c []].
  - destruct (existsb (fun k => prefixb (fst k) (fst c)) kept) eqn:Ex.
    + destruct (IH kept) as [Hk Hr]. split; [exact Hk|]. intros c' [<-|Hc']; [|now apply Hr].
      apply existsb_exists in Ex as [k [Hin Hp]]. exists k. split; [now apply Hk|now apply prefixb_spec].
    + destruct (IH (kept ++ [c])) as [Hk Hr]. split.
      * intros k Hin. apply Hk. apply in_or_app. now left.
      * intros c' [<-|Hc']; [|now apply Hr]. exists c. split; [|apply is_prefix_refl].
        apply Hk. apply in_or_app. right. now left.
Qed.

Theorem minimize_preserves_cover L M : covers_prefix L M -> covers_prefix (minimize L) M.
Proof.
  apply cover_refine. intros l Hl. unfold minimize. destruct L as [|x L']; [destruct Hl|].
  apply (proj2 (min_loop_spec (sort_by_len (x :: L')) [])). now apply sort_by_len_in.
Qed.

(* Minimize is only meaningful for prefix sets: on a suffix set it loses coverage *)
Theorem minimize_suffix_refuted : exists L M,
  covers_suffix L M /\ ~ covers_suffix (minimize L) M.
Proof.
  exists [([1;2], true); ([1;2;3], true)]%N, (fun m => m = [1;2;3]%N). split.
  - intros m ->. exists ([1;2;3]%N, true). split; [right; now left|now exists []].
  - intros H. destruct (H [1;2;3]%N eq_refl) as [l [Hl [t Ht]]].
    vm_compute in Hl. destruct Hl as [<-|[]]. cbn in Ht.
    destruct t as [|a [|b [|c t]]]; cbn in Ht; try discriminate. destruct t; discriminate.
Qed.

(* ---- seq.go: Seq.Dedup: first occurrence of each byte string *)
Fixpoint dedup_loop (seen : list (list N)) (L : list literal) : list literal :=
  match L with
  | [] => []
  | l :: t => if lmemb (fst l) seen then dedup_loop seen t else l :: dedup_loop (fst l :: seen) t
  end.
Definition dedup (L : list literal) : list literal := dedup_loop [] L.

Lemma lmemb_In t D : lmemb t D = true <-> In t D.
Proof.
  unfold lmemb. rewrite existsb_exists. split.
  - intros [u [Hu He]]. apply beqb_eq in He. now subst.
  - intros H. exists t. split; [exact H|now apply beqb_eq].
Qed.

Lemma dedup_loop_spec L : forall seen l, In l L ->
  In (fst l) seen \/ exists k, In k (dedup_loop seen L) /\ fst k = fst l.
Proof.
  induction L as [|x L IH]; intros seen l Hl; [destruct Hl|]. cbn [dedup_loop].
  destruct (lmemb (fst x) seen) eqn:Em.
  - destruct Hl as [<-|Hl]; [left; now apply lmemb_In|now apply IH].
  - destruct Hl as [<-|Hl]; [right; exists x; split; [now left|reflexivity]|].
    destruct (IH (fst x :: seen) l Hl) as [[He|Hs]|[k [Hk He]]].
    + right. exists x. split; [now left|exact He].
    + now left.
    + right. exists k. split; [now right|exact He].
Qed.

Theorem dedup_preserves_cover L M : covers_prefix L M -> covers_prefix (dedup L) M.
Proof.
  apply cover_refine. intros l Hl. destruct (dedup_loop_spec L [] l Hl) as [[]|[k [Hk He]]].
  exists k. split; [exact Hk|]. unfold lit_bytes. rewrite He. apply is_prefix_refl.
Qed.

(* ---- seq.go: Seq.KeepFirstBytes *)
Definition keep_first_bytes (n : nat) (L : list literal) : list literal :=
  if n =? 0 then L
  else map (fun l => if n <? length (fst l) then (firstn n (fst l), false) else l) L.

Theorem keep_first_bytes_preserves_cover n L M :
  covers_prefix L M -> covers_prefix (keep_first_bytes n L) M.
Proof.
  apply cover_refine. intros l Hl. unfold keep_first_bytes. destruct (n =? 0).
  - exists l. split; [exact Hl|apply is_prefix_refl].
  - exists (if n <? length (fst l) then (firstn n (fst l), false) else l). split.
    + apply in_map_iff. exists l. split; [reflexivity|exact Hl].
    + destruct (n <? length (fst l)); [apply is_prefix_firstn|apply is_prefix_refl].
Qed.

(* truncation clears Complete: a literal that is still Complete was not touched *)
Theorem keep_first_bytes_clears_complete n L l' :
  In l' (keep_first_bytes n L) -> lit_complete l' = true -> In l' L.
Proof.
  unfold keep_first_bytes. destruct (n =? 0); [auto|].
  intros H Hc. apply in_map_iff in H as [l [He Hl]].
  destruct (n <? length (fst l)); [subst l'; discriminate|now subst].
Qed.

(* ---- extractor.go: markAllInexact, enforceMaxLiteralLen *)
Definition mark_all_inexact (L : list literal) : list literal := map (fun l => (fst l, false)) L.

Definition enforce_max_literal_len (maxlen : nat) (L : list literal) : list literal :=
  map (fun l => if maxlen <? length (fst l) then (firstn maxlen (fst l), false) else l) L.

Theorem enforce_max_literal_len_clears_complete mx L l' :
  In l' (enforce_max_literal_len mx L) -> lit_complete l' = true -> In l' L.
Proof.
  unfold enforce_max_literal_len. intros H Hc. apply in_map_iff in H as [l [He Hl]].
  destruct (mx <? length (fst l)); [subst l'; discriminate|now subst].
Qed.

(* ---- extractor.go: extractPrefixes, case OpLiteral:
        if len(bytes) > MaxLiteralLen { bytes = bytes[:MaxLiteralLen] }; NewLiteral(bytes, true)
   (the same shape in generateCaseFoldVariants and expandCharClass) *)
Definition literal_prefix_seq (maxlen : nat) (bytes : list N) : list literal :=
  [(if maxlen <? length bytes then firstn maxlen bytes else bytes, true)].

(* the truncated literal still covers ... *)
Theorem literal_prefix_seq_covers mx bytes :
  covers_prefix (literal_prefix_seq mx bytes) (fun m => m = bytes).
Proof.
  intros m ->. eexists. split; [now left|]. cbn [lit_bytes fst].
  destruct (mx <? length bytes); [apply is_prefix_firstn|apply is_prefix_refl].
Qed.

(* ... but keeps Complete = true although it is not the whole match *)
Theorem literal_truncation_keeps_complete_refuted : exists mx bytes l,
  In l (literal_prefix_seq mx bytes) /\ lit_complete l = true /\ lit_bytes l <> bytes /\
  ~ covers_exact (literal_prefix_seq mx bytes) (fun m => m = bytes).
Proof.
  exists 2, [97;98;99]%N, ([97;98]%N, true). split; [now left|]. split; [reflexivity|].
  split; [discriminate|]. intros H. destruct (H _ eq_refl) as [l [[<-|[]] Hc]]. discriminate.
Qed.

(* ---- seq.go: Seq.CrossForward *)
Definition cross_forward (L1 L2 : list literal) : list literal :=
  match L1, L2 with
  | [], _ => L1
  | _, [] => L1
  | _, _ => flat_map (fun lf : literal =>
              if snd lf then map (fun rt : literal => (fst lf ++ fst rt, snd rt)) L2
              else [lf]) L1
  end.

Lemma cross_forward_in L1 L2 : L2 <> [] -> forall x,
  In x (flat_map (fun lf : literal => if snd lf then map (fun rt : literal => (fst lf ++ fst rt, snd rt)) L2
                              else [lf]) L1) -> In x (cross_forward L1 L2).
Proof.
  intros Hne x H. unfold cross_forward. destruct L1 as [|a L1]; [destruct H|].
  destruct L2; [congruence|exact H].
Qed.

Theorem cross_forward_exact L1 L2 M1 M2 :
  covers_exact L1 M1 -> covers_exact L2 M2 -> covers_exact (cross_forward L1 L2) (cat_lang M1 M2).
Proof.
  intros H1 H2 m [m1 [m2 [Hm1 [Hm2 ->]]]].
  destruct (H1 m1 Hm1) as [l1 [Hl1 Hc1]]. destruct (H2 m2 Hm2) as [l2 [Hl2 Hc2]].
  assert (Hne : L2 <> []) by (intros ->; destruct Hl2).
  destruct l1 as [b1 c1], l2 as [b2 c2]. cbn [lit_complete lit_bytes fst snd] in *.
  destruct c1.
  - subst m1. exists (b1 ++ b2, c2). split.
    + apply cross_forward_in; [exact Hne|]. apply in_flat_map. exists (b1, true). split; [exact Hl1|].
      cbn [snd fst]. apply in_map_iff. exists (b2, c2). split; [reflexivity|exact Hl2].
    + cbn [lit_complete lit_bytes fst snd]. destruct c2.
      * now subst.
      * destruct Hc2 as [t ->]. exists t. now rewrite app_assoc.
  - exists (b1, false). split.
    + apply cross_forward_in; [exact Hne|]. apply in_flat_map. exists (b1, false). split; [exact Hl1|].
      cbn [snd]. now left.
    + cbn [lit_complete lit_bytes fst snd]. destruct Hc1 as [t ->]. exists (t ++ m2).
      now rewrite app_assoc.
Qed.

(* the version asked for: the accumulator must satisfy the Complete-means-whole invariant
   (only Complete literals are extended), the contribution only has to cover *)
Theorem cross_forward_sound L1 L2 M1 M2 :
  covers_exact L1 M1 -> covers_prefix L2 M2 -> covers_prefix (cross_forward L1 L2) (cat_lang M1 M2).
Proof.
  intros H1 H2 m [m1 [m2 [Hm1 [Hm2 ->]]]].
  destruct (H1 m1 Hm1) as [l1 [Hl1 Hc1]]. destruct (H2 m2 Hm2) as [l2 [Hl2 Hc2]].
  assert (Hne : L2 <> []) by (intros ->; destruct Hl2).
  destruct l1 as [b1 c1], l2 as [b2 c2]. cbn [lit_complete lit_bytes fst snd] in *.
  destruct c1.
  - subst m1. exists (b1 ++ b2, c2). split.
    + apply cross_forward_in; [exact Hne|]. apply in_flat_map. exists (b1, true). split; [exact Hl1|].
      cbn [snd fst]. apply in_map_iff. exists (b2, c2). split; [reflexivity|exact Hl2].
    + cbn [lit_bytes fst]. destruct Hc2 as [t ->]. exists t. now rewrite app_assoc.
  - exists (b1, false). split.
    + apply cross_forward_in; [exact Hne|]. apply in_flat_map. exists (b1, false). split; [exact Hl1|].
      cbn [snd]. now left.
    + cbn [lit_bytes fst]. destruct Hc1 as [t ->]. exists (t ++ m2). now rewrite app_assoc.
Qed.

(* without the invariant (a Complete literal that is only a prefix, e.g. after the
   OpLiteral truncation above) the cross product is unsound *)
Theorem cross_forward_needs_exact_refuted : exists L1 L2 M1 M2,
  covers_prefix L1 M1 /\ covers_prefix L2 M2 /\ ~ covers_prefix (cross_forward L1 L2) (cat_lang M1 M2).
Proof.
  exists [([97]%N, true)], [([99]%N, true)], (fun m => m = [97;98]%N), (fun m => m = [99]%N).
  split; [|split].
  - intros m ->. eexists. split; [now left|]. now exists [98%N].
  - intros m ->. eexists. split; [now left|]. now exists [].
  - intros H. destruct (H [97;98;99]%N) as [l [Hl [t Ht]]].
    + exists [97;98]%N, [99]%N. auto.
    + vm_compute in Hl. destruct Hl as [<-|[]]. cbn in Ht. discriminate.
Qed.

(* ---- extractor.go: extractPrefixesConcat, one loop step.  contribution == nil is
   modelled by None.  An EMPTY (non-nil) contribution -- expandCaseFoldLiteral returns
   NewSeq() when even the first rune has more fold variants than MaxLiterals -- makes
   CrossForward a no-op and the loop goes on with the accumulator still Complete. *)
Definition concat_step (acc : list literal) (contribution : option (list literal)) : list literal :=
  match contribution with
  | None => mark_all_inexact acc
  | Some c => cross_forward acc c
  end.

(* an empty Seq means "no information" (seq.go doc), so it is a sound description of any
   language; the step nevertheless treats it like the empty string *)
Theorem concat_step_empty_contribution_refuted : exists acc M1 M2 M3 c3,
  covers_exact acc M1 /\ covers_exact c3 M3 /\
  ~ covers_prefix (concat_step (concat_step acc (Some [])) (Some c3)) (cat_lang (cat_lang M1 M2) M3).
Proof.
  exists [([120]%N, true)], (fun m => m = [120]%N), (fun m => m = [97]%N), (fun m => m = [121]%N),
         [([121]%N, true)].
  split; [|split].
  - intros m ->. eexists. split; [now left|reflexivity].
  - intros m ->. eexists. split; [now left|reflexivity].
  - intros H. destruct (H [120;97;121]%N) as [l [Hl [t Ht]]].
    + exists [120;97]%N, [121]%N. split; [|auto]. exists [120]%N, [97]%N. auto.
    + vm_compute in Hl. destruct Hl as [<-|[]]. cbn in Ht. discriminate.
Qed.

(* ---- extractor.go: handleCrossProductOverflow *)
Definition handle_cross_product_overflow (maxlits : nat) (L : list literal) : list literal :=
  let L' := dedup (mark_all_inexact (keep_first_bytes 4 L)) in
  if maxlits <? length L' then firstn maxlits L' else L'.

(* the final list truncation drops literals and nothing records it (partialCoverage
   stays false): coverage is lost *)
Theorem handle_cross_product_overflow_refuted : exists maxlits L M,
  covers_prefix L M /\ ~ covers_prefix (handle_cross_product_overflow maxlits L) M.
Proof.
  exists 2, [([97;99], true); ([97;100], true); ([98;99], true); ([98;100], true)]%N,
         (fun m => m = [98;100]%N).
  split.
  - intros m ->. exists ([98;100]%N, true). split; [cbn; auto|apply is_prefix_refl].
  - intros H. destruct (H _ eq_refl) as [l [Hl [t Ht]]]. vm_compute in Hl.
    destruct Hl as [<-|[<-|[]]]; cbn in Ht; discriminate.
Qed.

(* the same truncation `literals[:MaxLiterals]` / early `return NewSeq(allLits...)` occurs in
   extractPrefixesAlternate (without overflow), expandAlternateContribution,
   expandCharClass, extractSuffixes/extractInner case OpAlternate *)
Theorem truncate_list_refuted : exists maxlits L M,
  covers_prefix L M /\ ~ covers_prefix (firstn maxlits L) M.
Proof.
  exists 1, [([97]%N, true); ([98]%N, true)], (fun m => m = [98]%N). split.
  - intros m ->. exists ([98]%N, true). split; [cbn; auto|apply is_prefix_refl].
  - intros H. destruct (H _ eq_refl) as [l [Hl [t Ht]]]. cbn in Hl.
    destruct Hl as [<-|[]]; cbn in Ht; discriminate.
Qed.

(* ---- seq.go: Seq.Clone: `return &Seq{literals: cloned}` *)
Definition clone (s : seq) : seq := mkSeq (lits s) false.

Theorem clone_drops_partial_refuted : exists s, partial (clone s) <> partial s.
Proof. exists (mkSeq [] true). discriminate. Qed.

(* ---- seq.go: commonPrefix / LongestCommonPrefix *)
Fixpoint common_prefix (a b : list N) : list N :=
  match a, b with
  | x :: a', y :: b' => if (x =? y)%N then x :: common_prefix a' b' else []
  | _, _ => []
  end.

Lemma common_prefix_l a b : is_prefix (common_prefix a b) a.
Proof.
  revert b. induction a as [|x a IH]; intros [|y b]; cbn [common_prefix]; try apply is_prefix_nil.
  destruct (x =? y)%N; [apply is_prefix_cons, IH|apply is_prefix_nil].
Qed.

Lemma common_prefix_r a b : is_prefix (common_prefix a b) b.
Proof.
  revert b. induction a as [|x a IH]; intros [|y b]; cbn [common_prefix]; try apply is_prefix_nil.
  destruct (N.eqb_spec x y) as [->|]; [apply is_prefix_cons, IH|apply is_prefix_nil].
Qed.

Fixpoint lcp_loop (p : list N) (L : list literal) : list N :=
  match L with
  | [] => p
  | l :: t => match common_prefix p (fst l) with [] => [] | p' => lcp_loop p' t end
  end.

Definition longest_common_prefix (L : list literal) : list N :=
  match L with [] => [] | l :: t => lcp_loop (fst l) t end.

Lemma lcp_loop_spec L : forall p,
  is_prefix (lcp_loop p L) p /\ forall l, In l L -> is_prefix (lcp_loop p L) (fst l).
Proof.
  induction L as [|x L IH]; intros p; cbn [lcp_loop].
  - split; [apply is_prefix_refl|intros l []].
  - destruct (common_prefix p (fst x)) as [|c p'] eqn:Ec.
    + split; [apply is_prefix_nil|intros; apply is_prefix_nil].
    + destruct (IH (c :: p')) as [H1 H2].
      pose proof (common_prefix_l p (fst x)) as Hl. pose proof (common_prefix_r p (fst x)) as Hr.
      rewrite Ec in Hl, Hr. split.
      * eapply is_prefix_trans; eauto.
      * intros l [<-|Hl']; [eapply is_prefix_trans; eauto|now apply H2].
Qed.

Theorem lcp_is_common_prefix L l : In l L -> is_prefix (longest_common_prefix L) (lit_bytes l).
Proof.
  unfold longest_common_prefix. destruct L as [|x L]; [intros []|].
  destruct (lcp_loop_spec L (fst x)) as [H1 H2]. intros [<-|Hl]; [exact H1|now apply H2].
Qed.

(* the LCP of a covering prefix set is a prefix of every match *)
Theorem lcp_covers L M m : covers_prefix L M -> M m -> is_prefix (longest_common_prefix L) m.
Proof.
  intros H Hm. destruct (H m Hm) as [l [Hl Hp]]. eapply is_prefix_trans; [|exact Hp].
  now apply lcp_is_common_prefix.
Qed.

(* ---- seq.go: commonSuffix / LongestCommonSuffix (index loop from the end == common
   prefix of the reversals) *)
Definition common_suffix (a b : list N) : list N := rev (common_prefix (rev a) (rev b)).

Fixpoint lcs_loop (p : list N) (L : list literal) : list N :=
  match L with
  | [] => p
  | l :: t => match common_suffix p (fst l) with [] => [] | p' => lcs_loop p' t end
  end.

Definition longest_common_suffix (L : list literal) : list N :=
  match L with [] => [] | l :: t => lcs_loop (fst l) t end.

Lemma is_suffix_refl l : is_suffix l l.
Proof. now exists []. Qed.
Lemma is_suffix_nil m : is_suffix [] m.
Proof. exists m. now rewrite app_nil_r. Qed.
Lemma is_suffix_trans a b c : is_suffix a b -> is_suffix b c -> is_suffix a c.
Proof. intros [t ->] [u ->]. exists (u ++ t). now rewrite app_assoc. Qed.
Lemma prefix_rev_suffix a b : is_prefix a (rev b) -> is_suffix (rev a) b.
Proof.
  intros [t Ht]. exists (rev t). apply (f_equal (@rev N)) in Ht.
  now rewrite rev_involutive, rev_app_distr in Ht.
Qed.

Lemma common_suffix_l a b : is_suffix (common_suffix a b) a.
Proof. apply prefix_rev_suffix, common_prefix_l. Qed.
Lemma common_suffix_r a b : is_suffix (common_suffix a b) b.
Proof. apply prefix_rev_suffix, common_prefix_r. Qed.

Lemma lcs_loop_spec L : forall p,
  is_suffix (lcs_loop p L) p /\ forall l, In l L -> is_suffix (lcs_loop p L) (fst l).
Proof.
  induction L as [|x L IH]; intros p; cbn [lcs_loop].
  - split; [apply is_suffix_refl|intros l []].
  - destruct (common_suffix p (fst x)) as [|c p'] eqn:Ec.
    + split; [apply is_suffix_nil|intros; apply is_suffix_nil].
    + destruct (IH (c :: p')) as [H1 H2].
      pose proof (common_suffix_l p (fst x)) as Hl. pose proof (common_suffix_r p (fst x)) as Hr.
      rewrite Ec in Hl, Hr. split.
      * eapply is_suffix_trans; eauto.
      * intros l [<-|Hl']; [eapply is_suffix_trans; eauto|now apply H2].
Qed.

Theorem lcs_is_common_suffix L l : In l L -> is_suffix (longest_common_suffix L) (lit_bytes l).
Proof.
  unfold longest_common_suffix. destruct L as [|x L]; [intros []|].
  destruct (lcs_loop_spec L (fst x)) as [H1 H2]. intros [<-|Hl]; [exact H1|now apply H2].
Qed.

Theorem lcs_covers L M m : covers_suffix L M -> M m -> is_suffix (longest_common_suffix L) m.
Proof.
  intros H Hm. destruct (H m Hm) as [l [Hl Hp]]. eapply is_suffix_trans; [|exact Hp].
  now apply lcs_is_common_suffix.
Qed.

(* ------------------------------------------------------------------------ *)
(** * 6. Case checker                                                        *)
(* ------------------------------------------------------------------------ *)

Inductive kind := KPrefix | KSuffix | KInner.

(* one extracted sequence of one pattern under one extractor configuration, together
   with the NFA the library compiles for the pattern *)
Record case := mkCase {
  c_id : N;
  c_nfa : nfa;
  c_kind : kind;
  c_lits : list literal;
  c_partial : bool
}.

(* empty and partial-coverage sequences carry no guarantee *)
Definition case_skipped (c : case) : bool :=
  c_partial c || match c_lits c with [] => true | _ => false end.

Definition check_case (c : case) : cover_result :=
  if case_skipped c then Covered
  else let L := map fst (c_lits c) in
       match c_kind c with
       | KPrefix => prefix_cover (c_nfa c) L
       | KSuffix => suffix_cover (c_nfa c) L
       | KInner => inner_cover (c_nfa c) L
       end.

(* Complete literals of a prefix sequence that the NFA does not accept as a whole match.
   With Look states in the NFA a rejection is inconclusive (they are taken as failing). *)
Definition bad_complete (c : case) : list (list N) :=
  match c_kind c with
  | KPrefix =>
      if case_skipped c || has_look (c_nfa c) then []
      else map fst (filter (fun l => snd l && negb (complete_ok (c_nfa c) (fst l))) (c_lits c))
  | _ => []
  end.

Definition case_ok (c : case) : bool :=
  match check_case c with Witness _ => false | _ => true end &&
  match bad_complete c with [] => true | _ => false end.

(* (case id, witness): a string the relaxed NFA accepts and no literal covers *)
Definition failing (cs : list case) : list (N * list N) :=
  flat_map (fun c => match check_case c with Witness w => [(c_id c, w)] | _ => [] end) cs.

(* (case id, literal): Complete literals that are not matches *)
Definition failing_complete (cs : list case) : list (N * list N) :=
  flat_map (fun c => map (fun l => (c_id c, l)) (bad_complete c)) cs.

Definition unknowns (cs : list case) : list N :=
  flat_map (fun c => match check_case c with Unknown => [c_id c] | _ => [] end) cs.

Definition mismatches (cs : list case) : list N :=
  map c_id (filter (fun c => negb (case_ok c)) cs).

(* the same lists computed from one evaluation of every case (the case files use these) *)
Definition result := (N * cover_result * list (list N))%type.
Definition results (cs : list case) : list result :=
  map (fun c => (c_id c, check_case c, bad_complete c)) cs.
Definition r_failing (rs : list result) : list (N * list N) :=
  flat_map (fun r => match snd (fst r) with Witness w => [(fst (fst r), w)] | _ => [] end) rs.
Definition r_failing_complete (rs : list result) : list (N * list N) :=
  flat_map (fun r => map (fun l => (fst (fst r), l)) (snd r)) rs.
Definition r_unknowns (rs : list result) : list N :=
  flat_map (fun r => match snd (fst r) with Unknown => [fst (fst r)] | _ => [] end) rs.
Definition r_mismatches (rs : list result) : list N :=
  flat_map (fun r => match snd (fst r), snd r with
                     | Witness _, _ => [fst (fst r)]
                     | _, _ :: _ => [fst (fst r)]
                     | _, [] => [] end) rs.

Lemma r_failing_eq cs : r_failing (results cs) = failing cs.
Proof.
  unfold r_failing, results, failing. induction cs as [|c cs IH]; [reflexivity|].
  cbn [map flat_map fst snd]. now rewrite IH.
Qed.

(* soundness of a Covered verdict of the case checker, in one statement *)
Theorem check_case_sound c : wf_nfa (c_nfa c) = true -> case_skipped c = false ->
  check_case c = Covered ->
  forall h s e, nfa_path (c_nfa c) h (start_anch (c_nfa c)) s e ->
  exists l, In l (c_lits c) /\
    match c_kind c with
    | KPrefix => is_prefix (lit_bytes l) (sub h s e)
    | KSuffix => is_suffix (lit_bytes l) (sub h s e)
    | KInner => is_infix (lit_bytes l) (sub h s e)
    end.
Proof.
  intros Hwf Hs Hc h s e Hp. unfold check_case in Hc. rewrite Hs in Hc.
  destruct (c_kind c).
  - destruct (prefix_cover_sound _ _ Hwf Hc h s e Hp) as [b [Hb Hpre]].
    apply in_map_iff in Hb as [l [<- Hl]]. now exists l.
  - destruct (suffix_cover_sound _ _ Hwf Hc h s e Hp) as [b [Hb Hpre]].
    apply in_map_iff in Hb as [l [<- Hl]]. now exists l.
  - destruct (inner_cover_sound _ _ Hwf Hc h s e Hp) as [b [Hb Hpre]].
    apply in_map_iff in Hb as [l [<- Hl]]. now exists l.
Qed.
