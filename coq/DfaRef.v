(* DfaRef.v — the pure layer of Dfa.v (Section Pure: pstart / pdet / p_loop / p_earliest_loop /
   p_search_at / p_search_anchored / p_is_match_at) against the reference search of Nfa.v, for
   every well-formed NFA without look-around states (no_look) whose unanchored start has the
   shape emitted by the compiler (prefix_ok), every haystack of bytes and every offset.

   STATUS (all Qed, closed under the global context; statements at the end of the file):
     p_is_match_correct / p_is_match_is_ref      IsMatchAt = reference existence
     p_search_at_none_iff                        SearchAt reports nothing iff find_at finds nothing
     p_search_at_end_sound                       a reported end is the end of an accepting path
     p_search_anchored_none_iff / _end_sound     the same for SearchAtAnchored
     p_search_at_leftmost_partial                with break-at-match the reported end is an end of the
                                                 leftmost start (the start find_at reports)
     p_search_at_nobreak_not_leftmost            witness: without break-at-match it is not
     start_match_empty                           a Match in the default start list => empty haystack matches
     anch_fallback_none_iff / _end_sound         the anchored NFA fallback of SearchAtAnchored (every wf NFA)
   NOT proved: p_search_at = end of find_at (the priority order among the ends of the leftmost start).
   Method: under no_look the dstate reached after h[at_..p) is, as a SET, exactly
   {q | reach (q0, at_) (q, p)} as long as no break-at-match cut has happened (exact_at), and
   always a subset of it (sound_at); q0 = start_anch for the anchored entry point and
   q0 = start_unanch for the unanchored one, whose paths are related to the paths from
   start_anch at some s >= at_ by the shape of the compiled prefix (un_accept). *)
From Coq Require Import List NArith ZArith Lia Bool Arith PeanoNat.
From Coq Require Import ZifyBool ZifyNat ZifyN.
From CV Require Import Nfa NfaRef Pike Dfa.
Import ListNotations.

(* ------------------------------------------------------------------ lists of ids *)
Lemma memb_In q l : memb q l = true <-> In q l.
Proof. exact (vmem_In q l). Qed.

Lemma memb_false q l : memb q l = false <-> ~ In q l.
Proof. rewrite <- memb_In. destruct (memb q l); split; congruence. Qed.

Lemma memb_app x l1 l2 : memb x (l1 ++ l2) = memb x l1 || memb x l2.
Proof. unfold memb. apply existsb_app. Qed.

Lemma in_split_first (x : nat) : forall l, In x l -> exists l1 l2, l = l1 ++ x :: l2 /\ ~ In x l1.
Proof.
  induction l as [|a l IH]; intros Hin; [destruct Hin|].
  destruct (Nat.eq_dec a x) as [->|Hne].
  - exists [], l. split; [reflexivity|intros []].
  - destruct Hin as [->|Hin]; [congruence|]. destruct (IH Hin) as [l1 [l2 [-> Hn]]].
    exists (a :: l1), l2. split; [reflexivity|]. intros [->|H]; [congruence|exact (Hn H)].
Qed.

Section Ref.
  Variable A : nfa.
  Hypothesis Hwf : wf_nfa A = true.
  Hypothesis Hnl : no_look A = true.

  Let n := nstates A.

  (* ---------------- no look-around state: the word-boundary / end-line machinery is inert *)
  Lemma nl_st q st : nth_error (states A) q = Some st -> is_look st = false.
  Proof.
    intros H. unfold no_look in Hnl. apply negb_true_iff in Hnl.
    destruct (is_look st) eqn:E; [|reflexivity].
    assert (Hx : existsb is_look (states A) = true).
    { apply existsb_exists. exists st. split; [eapply nth_error_In; eauto|exact E]. }
    congruence.
  Qed.

  Lemma has_wb_nl : has_wb A = false.
  Proof.
    unfold has_wb. destruct (existsb is_look_wb (states A)) eqn:E; [|reflexivity].
    apply existsb_exists in E as [st [Hin Hst]]. apply In_nth_error in Hin as [q Hq].
    pose proof (nl_st q st Hq) as Hl. destruct st; cbn in *; discriminate.
  Qed.

  Lemma has_endline_nl : has_endline A = false.
  Proof.
    unfold has_endline. destruct (existsb is_look_el (states A)) eqn:E; [|reflexivity].
    apply existsb_exists in E as [st [Hin Hst]]. apply In_nth_error in Hin as [q Hq].
    pose proof (nl_st q st Hq) as Hl. destruct st; cbn in *; discriminate.
  Qed.

  Lemma wb_next_nl sat q : wb_next A sat q = None.
  Proof.
    unfold wb_next, st_at. destruct (nth_error (states A) q) as [st|] eqn:E; [|reflexivity].
    destruct st; try reflexivity. apply nl_st in E. discriminate.
  Qed.

  Lemma wb_seed_nl sat : forall ids crossed, wb_seed A sat ids crossed = crossed.
  Proof. induction ids as [|q t IH]; intros crossed; cbn [wb_seed]; [reflexivity|]. rewrite wb_next_nl. apply IH. Qed.

  Lemma resolve_wb_nl ids sat : resolve_wb A ids sat = ids.
  Proof. unfold resolve_wb. rewrite wb_seed_nl. reflexivity. Qed.

  (* ---------------- epsilon steps *)
  Definition esucc (q : nat) : list nat := eps_push A ls_none q.

  Lemma eps_push_nl lh q : eps_push A lh q = esucc q.
  Proof.
    unfold esucc, eps_push, st_at. destruct (nth_error (states A) q) as [st|] eqn:E; [|reflexivity].
    destruct st; try reflexivity. apply nl_st in E. discriminate.
  Qed.

  Inductive estar : nat -> nat -> Prop :=
  | estar_refl q : estar q q
  | estar_step q q' q'' : In q' (esucc q) -> estar q' q'' -> estar q q''.

  Lemma estar_trans a b c : estar a b -> estar b c -> estar a c.
  Proof. induction 1; intros; auto. econstructor; eauto. Qed.

  Lemma esucc_estep h p q q' : In q' (esucc q) <-> estep A h p q q'.
  Proof.
    unfold esucc, eps_push, st_at, estep. split.
    - destruct (nth_error (states A) q) as [st|] eqn:E; [|intros []].
      intros Hin. exists st. split; [reflexivity|].
      destruct st; cbn [eps_succ ls_has ls_none] in *; try exact Hin. destruct lk; destruct Hin.
    - intros [st [Hst Hin]]. rewrite Hst.
      destruct st; cbn [eps_succ] in *; try exact Hin. apply nl_st in Hst. discriminate.
  Qed.

  Lemma estar_ereach h p q q' : estar q q' <-> ereach A h p q q'.
  Proof.
    split.
    - induction 1 as [q|q q1 q2 Hs Hr IH]; [constructor|].
      econstructor; [apply (esucc_estep h p); exact Hs|exact IH].
    - induction 1 as [q|q q1 q2 Hs Hr IH]; [constructor|].
      econstructor; [apply (esucc_estep h p); exact Hs|exact IH].
  Qed.

  Lemma esucc_lt q q' : In q' (esucc q) -> q' < n.
  Proof.
    intros Hin. apply (esucc_estep [] 0) in Hin. destruct Hin as [st [Hst Hin]].
    eapply (eps_succ_lt A [] Hwf); eauto.
  Qed.

  Lemma esucc_len q : length (esucc q) <= 2.
  Proof.
    unfold esucc, eps_push. destruct (st_at A q) as [st|]; [|cbn; lia].
    destruct st; cbn; try lia. destruct lk; cbn; lia.
  Qed.

  Lemma path_here h q p m : reach A h (q, p) (m, p) <-> estar q m.
  Proof. rewrite (reach_same A h Hwf). symmetry. apply estar_ereach. Qed.

  (* ---------------- the closure loop: fuel and result *)
  Definition unv (res : list nat) : nat := length (filter (fun q => negb (memb q res)) (seq 0 n)).

  Lemma unv_le res : unv res <= n.
  Proof.
    unfold unv. rewrite <- (seq_length n 0) at 2. generalize (seq 0 n). intros l.
    induction l as [|a l IH]; cbn; [lia|]. destruct (negb (memb a res)); cbn; lia.
  Qed.

  Lemma unv_snoc_lt q res : q < n -> memb q res = false -> unv (res ++ [q]) < unv res.
  Proof.
    intros Hq Hm. apply (flen_lt _ _ _ q).
    - intros x _ Hx. rewrite memb_app in Hx. destruct (memb x res); [discriminate|reflexivity].
    - apply in_seq. lia.
    - rewrite memb_app. cbn. rewrite Nat.eqb_refl. now rewrite orb_true_r.
    - now rewrite Hm.
  Qed.

  Definition closedM (stack res : list nat) : Prop :=
    forall x y, In x res -> In y (esucc x) -> In y res \/ In y stack.

  Definition closedE (l : list nat) : Prop := forall x y, In x l -> In y (esucc x) -> In y l.

  Lemma closedE_estar l x y : closedE l -> In x l -> estar x y -> In y l.
  Proof. intros Hc Hx Hr. induction Hr as [q|q q1 q2 Hs Hr IH]; [exact Hx|]. apply IH. eapply Hc; eauto. Qed.

  Lemma closure_loop_spec lh : forall f stack res,
    2 * unv res + length stack <= f ->
    (forall x, In x stack -> x < n) ->
    closedM stack res ->
    exists ex, closure_loop f A lh stack res = res ++ ex /\
      closedE (res ++ ex) /\
      (forall x, In x stack -> In x (res ++ ex)) /\
      (forall x, In x ex -> exists s, In s stack /\ estar s x).
  Proof.
    induction f as [|f IH]; intros stack res Hf Hlt Hcl.
    - assert (stack = []) by (destruct stack; [reflexivity|cbn in Hf; lia]). subst.
      exists []. cbn [closure_loop]. rewrite app_nil_r. split; [reflexivity|]. split.
      + intros x y Hx Hy. destruct (Hcl x y Hx Hy) as [H|[]]. exact H.
      + split; [intros x []|intros x []].
    - destruct stack as [|q st].
      + exists []. cbn [closure_loop]. rewrite app_nil_r. split; [reflexivity|]. split.
        * intros x y Hx Hy. destruct (Hcl x y Hx Hy) as [H|[]]. exact H.
        * split; [intros x []|intros x []].
      + cbn [closure_loop]. destruct (memb q res) eqn:Hm.
        * destruct (IH st res) as [ex [He [Hc [Hs Hx]]]].
          -- cbn [length] in Hf. lia.
          -- intros x Hx. apply Hlt. now right.
          -- intros x y Hx Hy. destruct (Hcl x y Hx Hy) as [H|[H|H]]; auto.
             subst. left. apply memb_In. exact Hm.
          -- exists ex. split; [exact He|]. split; [exact Hc|]. split.
             ++ intros x [<-|Hx']; [apply in_or_app; left; apply memb_In; exact Hm|auto].
             ++ intros x Hx'. destruct (Hx x Hx') as [s [Hs1 Hs2]]. exists s. split; [now right|exact Hs2].
        * rewrite eps_push_nl.
          assert (Hq : q < n) by (apply Hlt; now left).
          destruct (IH (esucc q ++ st) (res ++ [q])) as [ex [He [Hc [Hs Hx]]]].
          -- pose proof (unv_snoc_lt q res Hq Hm). pose proof (esucc_len q).
             rewrite app_length. cbn [length] in Hf. lia.
          -- intros x Hx. apply in_app_or in Hx as [Hx|Hx]; [eapply esucc_lt; eauto|apply Hlt; now right].
          -- intros x y Hx Hy. apply in_app_or in Hx as [Hx|[<-|[]]].
             ++ destruct (Hcl x y Hx Hy) as [H|[H|H]].
                ** left. apply in_or_app. now left.
                ** subst. left. apply in_or_app. right. now left.
                ** right. apply in_or_app. now right.
             ++ right. apply in_or_app. now left.
          -- exists ([q] ++ ex). rewrite app_assoc. split; [exact He|]. split; [exact Hc|]. split.
             ++ intros x [<-|Hx'].
                ** apply in_or_app. left. apply in_or_app. right. now left.
                ** apply Hs. apply in_or_app. now right.
             ++ intros x Hx'. apply in_app_or in Hx' as [[<-|[]]|Hx'].
                ** exists q. split; [now left|constructor].
                ** destruct (Hx x Hx') as [s [Hs1 Hs2]]. apply in_app_or in Hs1 as [Hs1|Hs1].
                   --- exists q. split; [now left|]. econstructor; eauto.
                   --- exists s. split; [now right|exact Hs2].
  Qed.

  Lemma closure_into_spec lh res seed :
    closedE res -> seed < n ->
    exists ex, closure_into A lh res seed = res ++ ex /\ closedE (res ++ ex) /\
      In seed (res ++ ex) /\ (forall x, In x ex -> estar seed x).
  Proof.
    intros Hc Hs. unfold closure_into.
    destruct (closure_loop_spec lh (closure_fuel A) [seed] res) as [ex [He [Hc' [Hs' Hx]]]].
    - unfold closure_fuel. pose proof (unv_le res). cbn [length]. fold n. lia.
    - intros x [<-|[]]. exact Hs.
    - intros x y Hx Hy. left. eapply Hc; eauto.
    - exists ex. split; [exact He|]. split; [exact Hc'|]. split; [apply Hs'; now left|].
      intros x Hx'. destruct (Hx x Hx') as [s [[<-|[]] H]]. exact H.
  Qed.

  Lemma fold_closure_spec lh : forall ts res,
    closedE res -> (forall t, In t ts -> t < n) ->
    exists ex, fold_left (closure_into A lh) ts res = res ++ ex /\ closedE (res ++ ex) /\
      (forall x, In x ex -> exists t, In t ts /\ estar t x) /\
      (forall t x, In t ts -> estar t x -> In x (res ++ ex)).
  Proof.
    induction ts as [|t ts IH]; intros res Hc Hlt.
    - exists []. cbn [fold_left]. rewrite app_nil_r. split; [reflexivity|]. split; [exact Hc|].
      split; [intros x []|intros t x []].
    - cbn [fold_left].
      destruct (closure_into_spec lh res t Hc (Hlt t (or_introl eq_refl))) as [e1 [He1 [Hc1 [Hs1 Hx1]]]].
      rewrite He1.
      destruct (IH (res ++ e1) Hc1 (fun x Hx => Hlt x (or_intror Hx))) as [e2 [He2 [Hc2 [Hx2 Hs2]]]].
      exists (e1 ++ e2). rewrite app_assoc. split; [exact He2|]. split; [exact Hc2|]. split.
      + intros x Hx. apply in_app_or in Hx as [Hx|Hx].
        * exists t. split; [now left|auto].
        * destruct (Hx2 x Hx) as [t' [Ht' Hr]]. exists t'. split; [now right|exact Hr].
      + intros t' x [<-|Ht'] Hr.
        * eapply closedE_estar; [exact Hc2| |exact Hr]. apply in_or_app. now left.
        * eapply Hs2; eauto.
  Qed.

  Lemma closedE_nil : closedE [].
  Proof. intros x y []. Qed.

  (* ---------------- byte steps *)
  Lemma byte_targets_iff q b t :
    In t (byte_targets A q b) <-> exists st, nth_error (states A) q = Some st /\ In t (byte_succ st b).
  Proof.
    unfold byte_targets, st_at. split.
    - destruct (nth_error (states A) q) as [st|]; [|intros []]. intros Hin. exists st. split; [reflexivity|].
      destruct st; cbn [byte_succ]; try (now destruct Hin); exact Hin.
    - intros [st [-> Hin]]. destruct st; cbn [byte_succ] in Hin; try (now destruct Hin); exact Hin.
  Qed.

  Lemma byte_targets_bstep h p b q t :
    nth_error h p = Some b -> (In t (byte_targets A q b) <-> bstep A h p q t).
  Proof.
    intros Hb. rewrite byte_targets_iff. unfold bstep. split.
    - intros [st [Hst Hin]]. exists st, b. auto.
    - intros [st [b' [Hst [Hb' Hin]]]]. rewrite Hb in Hb'. inversion Hb'; subst. exists st. auto.
  Qed.

  Lemma byte_targets_lt q b t : In t (byte_targets A q b) -> t < n.
  Proof.
    intros Hin. apply (byte_targets_bstep [b] 0 b q t eq_refl) in Hin.
    apply (bstep_edge A [b] Hwf) in Hin. destruct Hin as [st [sl [sl' [Hst Hin]]]].
    eapply succs_target_ok; eauto.
  Qed.

  Lemma move_loop_spec lh brk b : forall ids res, closedE res ->
    exists ex, move_loop A lh brk b ids res = res ++ ex /\ closedE (res ++ ex) /\
      (forall x, In x ex -> exists q t, In q ids /\ In t (byte_targets A q b) /\ estar t x) /\
      (brk = false -> forall q t x, In q ids -> In t (byte_targets A q b) -> estar t x -> In x (res ++ ex)).
  Proof.
    induction ids as [|q ids IH]; intros res Hc.
    - exists []. cbn [move_loop]. rewrite app_nil_r. split; [reflexivity|]. split; [exact Hc|].
      split; [intros x []|intros _ q t x []].
    - cbn [move_loop]. destruct (brk && is_match_id A q) eqn:Hb.
      + exists []. rewrite app_nil_r. split; [reflexivity|]. split; [exact Hc|].
        split; [intros x []|]. intros ->. discriminate.
      + destruct (fold_closure_spec lh (byte_targets A q b) res Hc (fun t Ht => byte_targets_lt q b t Ht))
          as [e1 [He1 [Hc1 [Hx1 Hs1]]]].
        rewrite He1. destruct (IH (res ++ e1) Hc1) as [e2 [He2 [Hc2 [Hx2 Hs2]]]].
        exists (e1 ++ e2). rewrite app_assoc. split; [exact He2|]. split; [exact Hc2|]. split.
        * intros x Hx. apply in_app_or in Hx as [Hx|Hx].
          -- destruct (Hx1 x Hx) as [t [Ht Hr]]. exists q, t. split; [now left|auto].
          -- destruct (Hx2 x Hx) as [q' [t [Hq' [Ht Hr]]]]. exists q', t. split; [now right|auto].
        * intros Hbrk q' t x [<-|Hq'] Ht Hr.
          -- apply in_or_app. left. eapply Hs1; eauto.
          -- eapply Hs2; eauto.
  Qed.

  Lemma contains_match_iff ids :
    contains_match A ids = true <-> exists m, In m ids /\ nth_error (states A) m = Some SMatch.
  Proof.
    unfold contains_match. rewrite existsb_exists. unfold is_match_id, st_at. split.
    - intros [m [Hin Hm]]. exists m. split; [exact Hin|].
      destruct (nth_error (states A) m) as [st|]; [|discriminate]. destruct st; try discriminate. reflexivity.
    - intros [m [Hin Hm]]. exists m. split; [exact Hin|]. now rewrite Hm.
  Qed.

  Lemma pdet_nl cfg cur b :
    pdet A cfg cur b =
    let sm := contains_match A (d_ids cur) in
    let next := move_loop A (if (b =? 10)%N then ls_start_line else ls_none) (sm && cfg_break cfg) b (d_ids cur) [] in
    if (length next =? 0) && negb sm then DDead
    else if cfg_det_limit cfg <? length next then DLimit
    else DNext (mkD next (is_word_byte b) sm false false).
  Proof. unfold pdet, move_break. rewrite has_wb_nl, has_endline_nl. reflexivity. Qed.

  Lemma eoi_match_nl d : eoi_match A d = contains_match A (closure A ls_eoi (d_ids d)).
  Proof. unfold eoi_match. now rewrite resolve_wb_nl. Qed.

  (* ---------------- finer structure (used for the leftmost-start theorem): the stack
     discipline of the closure loop, and the break-at-match cut of move_loop *)
  Lemma closure_loop_split lh : forall f s1 s2 res,
    2 * unv res + length (s1 ++ s2) <= f ->
    (forall x, In x (s1 ++ s2) -> x < n) ->
    closedM (s1 ++ s2) res ->
    exists ex1 ex2, closure_loop f A lh (s1 ++ s2) res = (res ++ ex1) ++ ex2 /\
      closedM s2 (res ++ ex1) /\
      (forall x, In x s1 -> In x (res ++ ex1)) /\
      (forall x, In x ex1 -> exists s, In s s1 /\ estar s x) /\
      (forall x, In x ex2 -> exists s, In s s2 /\ estar s x) /\
      closedE ((res ++ ex1) ++ ex2).
  Proof.
    induction f as [|f IH]; intros s1 s2 res Hf Hlt Hcl.
    - assert (Hnil : s1 ++ s2 = []) by (destruct (s1 ++ s2); [reflexivity|cbn in Hf; lia]).
      apply app_eq_nil in Hnil as [-> ->]. exists [], []. cbn [closure_loop app]. rewrite !app_nil_r.
      split; [reflexivity|]. split; [exact Hcl|]. split; [intros x []|]. split; [intros x []|].
      split; [intros x []|].
      intros x y Hx Hy. destruct (Hcl x y Hx Hy) as [H|[]]. exact H.
    - destruct s1 as [|q s1].
      + cbn [app] in *. destruct (closure_loop_spec lh (S f) s2 res Hf Hlt Hcl) as [ex [He [Hc [Hs Hx]]]].
        exists [], ex. rewrite app_nil_r. split; [exact He|]. split; [exact Hcl|]. split; [intros x []|].
        split; [intros x []|]. split; [exact Hx|exact Hc].
      + cbn [app closure_loop]. destruct (memb q res) eqn:Hm.
        * destruct (IH s1 s2 res) as [ex1 [ex2 [He [Hc [Hs [Hx1 [Hx2 HcE]]]]]]].
          -- cbn [app length] in Hf. lia.
          -- intros x Hx. apply Hlt. now right.
          -- intros x y Hx Hy. destruct (Hcl x y Hx Hy) as [H|[H|H]]; auto.
             subst. left. apply memb_In. exact Hm.
          -- exists ex1, ex2. split; [exact He|]. split; [exact Hc|]. split.
             ++ intros x [<-|Hx]; [apply in_or_app; left; apply memb_In; exact Hm|auto].
             ++ split; [|split; [exact Hx2|exact HcE]].
                intros x Hx. destruct (Hx1 x Hx) as [s [Hs1 Hs2]]. exists s. split; [now right|exact Hs2].
        * rewrite eps_push_nl.
          assert (Hq : q < n) by (apply Hlt; now left).
          destruct (IH (esucc q ++ s1) s2 (res ++ [q])) as [ex1 [ex2 [He [Hc [Hs [Hx1 [Hx2 HcE]]]]]]].
          -- pose proof (unv_snoc_lt q res Hq Hm). pose proof (esucc_len q).
             rewrite !app_length in *. cbn [length] in Hf. lia.
          -- intros x Hx. rewrite <- app_assoc in Hx. apply in_app_or in Hx as [Hx|Hx]; [eapply esucc_lt; eauto|apply Hlt; now right].
          -- intros x y Hx Hy. rewrite <- app_assoc. apply in_app_or in Hx as [Hx|[<-|[]]].
             ++ destruct (Hcl x y Hx Hy) as [H|[H|H]].
                ** left. apply in_or_app. now left.
                ** subst. left. apply in_or_app. right. now left.
                ** right. apply in_or_app. now right.
             ++ right. apply in_or_app. now left.
          -- rewrite <- app_assoc in He.
             exists ([q] ++ ex1), ex2. rewrite (app_assoc res [q] ex1). split; [exact He|]. split; [exact Hc|]. split.
             ++ intros x [<-|Hx].
                ** apply in_or_app. left. apply in_or_app. right. now left.
                ** apply Hs. apply in_or_app. now right.
             ++ split; [|split; [exact Hx2|exact HcE]].
                intros x Hx. apply in_app_or in Hx as [[<-|[]]|Hx].
                ** exists q. split; [now left|constructor].
                ** destruct (Hx1 x Hx) as [s [Hs1 Hs2]]. apply in_app_or in Hs1 as [Hs1|Hs1].
                   --- exists q. split; [now left|]. econstructor; eauto.
                   --- exists s. split; [now right|exact Hs2].
  Qed.

  (* the closure of a fresh split state u -> [a; b]: u, then everything new below a, then
     everything new below b *)
  Lemma closure_into_split lh res u a b :
    closedE res -> esucc u = [a; b] -> u < n -> memb u res = false ->
    exists ex1 ex2, closure_into A lh res u = ((res ++ [u]) ++ ex1) ++ ex2 /\
      closedM [b] ((res ++ [u]) ++ ex1) /\ In a ((res ++ [u]) ++ ex1) /\
      (forall x, In x ex1 -> estar a x) /\ (forall x, In x ex2 -> estar b x) /\
      closedE (((res ++ [u]) ++ ex1) ++ ex2).
  Proof.
    intros Hc Hes Hu Hm. unfold closure_into, closure_fuel.
    replace (2 * nstates A + 2) with (S (2 * nstates A + 1)) by lia.
    cbn [closure_loop]. rewrite Hm, eps_push_nl, Hes.
    change ([a; b] ++ []) with ([a] ++ [b]).
    destruct (closure_loop_split lh (2 * nstates A + 1) [a] [b] (res ++ [u])) as [ex1 [ex2 [He [Hc1 [Hs [Hx1 [Hx2 HcE]]]]]]].
    - pose proof (unv_snoc_lt u res Hu Hm). pose proof (unv_le res). cbn [app length]. fold n. lia.
    - intros x Hx. apply (esucc_lt u). rewrite Hes. exact Hx.
    - intros x y Hx Hy. apply in_app_or in Hx as [Hx|[<-|[]]].
      + left. apply in_or_app. left. eapply Hc; eauto.
      + right. rewrite Hes in Hy. exact Hy.
    - exists ex1, ex2. split; [exact He|]. split; [exact Hc1|]. split; [apply Hs; now left|].
      split; [|split; [|exact HcE]].
      + intros x Hx. destruct (Hx1 x Hx) as [s [[<-|[]] H]]. exact H.
      + intros x Hx. destruct (Hx2 x Hx) as [s [[<-|[]] H]]. exact H.
  Qed.

  Lemma closedM_estar G b a x :
    closedM [b] G -> In a G -> estar a x -> In x G \/ (estar a b /\ estar b x).
  Proof.
    intros Hc Ha Hr. induction Hr as [q|q q1 q2 Hs Hr IH]; [now left|].
    destruct (Hc q q1 Ha Hs) as [H|[<-|[]]].
    - destruct (IH H) as [H1|[H1 H2]]; [now left|]. right. split; [econstructor; eauto|exact H2].
    - right. split; [econstructor; [exact Hs|constructor]|exact Hr].
  Qed.

  Lemma closure_single lh q0 q : q0 < n -> (In q (closure A lh [q0]) <-> estar q0 q).
  Proof.
    intros Hq0. unfold closure. destruct (fold_closure_spec lh [q0] [] closedE_nil) as [ex [He [_ [Hx Hs]]]].
    { intros t [<-|[]]. exact Hq0. }
    rewrite He. cbn [app]. split.
    - intros Hin. destruct (Hx q Hin) as [t [[<-|[]] Hr]]. exact Hr.
    - intros Hr. apply (Hs q0 q); [now left|exact Hr].
  Qed.

  Lemma move_loop_app lh brk b : forall l1 l2 res,
    (forall q, In q l1 -> brk && is_match_id A q = false) ->
    move_loop A lh brk b (l1 ++ l2) res = move_loop A lh brk b l2 (move_loop A lh brk b l1 res).
  Proof.
    induction l1 as [|q l1 IH]; intros l2 res Hn; [reflexivity|].
    cbn [app move_loop]. rewrite (Hn q (or_introl eq_refl)). apply IH. intros q' Hq'. apply Hn. now right.
  Qed.

  Lemma move_loop_nomatch lh b : forall l res,
    (forall q, In q l -> is_match_id A q = false) ->
    move_loop A lh true b l res = move_loop A lh false b l res.
  Proof.
    induction l as [|q l IH]; intros res Hn; [reflexivity|].
    cbn [move_loop]. rewrite (Hn q (or_introl eq_refl)). cbn [andb]. apply IH. intros q' Hq'. apply Hn. now right.
  Qed.

  Lemma move_loop_cut lh b l1 m l2 res :
    (forall q, In q l1 -> is_match_id A q = false) -> is_match_id A m = true ->
    move_loop A lh true b (l1 ++ m :: l2) res = move_loop A lh false b l1 res.
  Proof.
    intros Hn Hm. rewrite move_loop_app.
    - cbn [move_loop]. rewrite Hm. cbn [andb]. apply move_loop_nomatch. exact Hn.
    - intros q Hq. rewrite (Hn q Hq). reflexivity.
  Qed.

  Lemma first_match_split : forall L, contains_match A L = true ->
    exists l1 m l2, L = l1 ++ m :: l2 /\ is_match_id A m = true /\ forall q, In q l1 -> is_match_id A q = false.
  Proof.
    induction L as [|a L IH]; intros H; [discriminate|].
    unfold contains_match in H. cbn [existsb] in H. destruct (is_match_id A a) eqn:Ha.
    - exists [], a, L. split; [reflexivity|]. split; [exact Ha|intros q []].
    - cbn [orb] in H. destruct (IH H) as [l1 [m [l2 [-> [Hm Hn]]]]].
      exists (a :: l1), m, l2. split; [reflexivity|]. split; [exact Hm|].
      intros q [<-|Hq]; [exact Ha|now apply Hn].
  Qed.

  Lemma contains_match_app G T : contains_match A (G ++ T) = contains_match A G || contains_match A T.
  Proof. unfold contains_match. apply existsb_app. Qed.

  Lemma contains_match_false ids q : contains_match A ids = false -> In q ids -> is_match_id A q = false.
  Proof.
    intros H Hin. destruct (is_match_id A q) eqn:E; [|reflexivity].
    assert (contains_match A ids = true); [|congruence]. unfold contains_match. apply existsb_exists. eauto.
  Qed.

  Lemma is_match_id_iff q : is_match_id A q = true <-> nth_error (states A) q = Some SMatch.
  Proof.
    unfold is_match_id, st_at. destruct (nth_error (states A) q) as [st|]; [|split; discriminate].
    destruct st; split; try discriminate; reflexivity.
  Qed.

  (* ---------------- one search started in configuration (q0, at_) *)
  Section Run.
    Variable cfg : dconfig.
    Variable h : hay.
    Variable q0 at_ : nat.
    Hypothesis Hq0 : q0 < n.
    Hypothesis Hat : at_ <= length h.

    Definition sound_at (p : nat) (ids : list nat) : Prop := forall q, In q ids -> reach A h (q0, at_) (q, p).
    Definition exact_at (p : nat) (ids : list nat) : Prop := forall q, In q ids <-> reach A h (q0, at_) (q, p).

    Lemma reach_lt q p : reach A h (q0, at_) (q, p) -> q < n.
    Proof.
      intros Hr. apply (reach_ind_r A h (fun c => fst c < n) (q0, at_)) in Hr; [exact Hr|exact Hq0|].
      intros c' c'' _ _ [st [sl [sl' [Hst Hin]]]]. eapply succs_target_ok; eauto.
    Qed.

    Lemma reach_cross c c' : reach A h c c' -> forall p, snd c <= p <= snd c' -> exists q', reach A h c (q', p).
    Proof.
      intros Hr.
      apply (reach_ind_r A h (fun c' => forall p, snd c <= p <= snd c' -> exists q', reach A h c (q', p)) c); [| |exact Hr].
      - intros p Hp. exists (fst c). assert (p = snd c) by lia. subst p. destruct c. constructor.
      - intros [q1 p1] [q2 p2] Hr1 IH He p Hp. cbn [snd] in *.
        pose proof (edge_inv A h Hwf _ _ _ _ He) as Hi.
        destruct (Nat.le_gt_cases p p1) as [Hle|Hgt].
        + apply IH. lia.
        + assert (p = p2) by (destruct Hi as [[-> _]|[-> _]]; lia). subst p.
          exists q2. eapply reach_snoc; eauto.
    Qed.

    Lemma step_sound lh brk b p ids :
      at_ <= p -> nth_error h p = Some b -> sound_at p ids ->
      sound_at (S p) (move_loop A lh brk b ids []).
    Proof.
      intros Hp Hb Hs. destruct (move_loop_spec lh brk b ids [] closedE_nil) as [ex [He [_ [Hx _]]]].
      rewrite He. cbn [app]. intros x Hin. destruct (Hx x Hin) as [q [t [Hq [Ht Hr]]]].
      eapply (reach_byte_ereach A h Hwf).
      - apply Hs. exact Hq.
      - apply (byte_targets_bstep h p b); eauto.
      - apply estar_ereach. exact Hr.
    Qed.

    Lemma step_exact lh b p ids :
      at_ <= p -> nth_error h p = Some b -> exact_at p ids ->
      exact_at (S p) (move_loop A lh false b ids []).
    Proof.
      intros Hp Hb Hs q. split.
      - apply step_sound; auto. intros q' Hq'. now apply Hs.
      - intros Hr. destruct (move_loop_spec lh false b ids [] closedE_nil) as [ex [He [_ [_ Hc]]]].
        rewrite He. apply (reach_last_byte A h Hwf) in Hr; [|exact Hp].
        destruct Hr as [q1 [q2 [H1 [H2 H3]]]].
        eapply (Hc eq_refl q1 q2).
        + apply Hs. exact H1.
        + apply (byte_targets_bstep h p b); eauto.
        + apply (estar_ereach h (S p)). exact H3.
    Qed.

    Lemma closure_sound lh p ids : sound_at p ids -> sound_at p (closure A lh ids).
    Proof.
      intros Hs. unfold closure.
      destruct (fold_closure_spec lh ids [] closedE_nil) as [ex [He [_ [Hx _]]]].
      { intros t Ht. eapply reach_lt. apply Hs. exact Ht. }
      rewrite He. cbn [app]. intros x Hin. destruct (Hx x Hin) as [t [Ht Hr]].
      eapply reach_trans; [apply Hs; exact Ht|]. apply path_here. exact Hr.
    Qed.

    Lemma closure_incl lh p ids : sound_at p ids -> forall x, In x ids -> In x (closure A lh ids).
    Proof.
      intros Hs x Hin. unfold closure.
      destruct (fold_closure_spec lh ids [] closedE_nil) as [ex [He [_ [_ Hc]]]].
      { intros t Ht. eapply reach_lt. apply Hs. exact Ht. }
      rewrite He. apply (Hc x x Hin). constructor.
    Qed.

    Lemma start_exact lh : exact_at at_ (closure A lh [q0]).
    Proof.
      unfold closure. destruct (fold_closure_spec lh [q0] [] closedE_nil) as [ex [He [_ [Hx Hs]]]].
      { intros t [<-|[]]. exact Hq0. }
      rewrite He. cbn [app]. intros q. rewrite path_here. split.
      - intros Hin. destruct (Hx q Hin) as [t [[<-|[]] Hr]]. exact Hr.
      - intros Hr. apply (Hs q0 q); [now left|exact Hr].
    Qed.

    Lemma exact_sound p ids : exact_at p ids -> sound_at p ids.
    Proof. intros H q Hq. now apply H. Qed.

    (* ---------------- one transition *)
    Lemma pdet_next_sound s b p s' :
      at_ <= p -> nth_error h p = Some b -> sound_at p (d_ids s) -> pdet A cfg s b = DNext s' ->
      sound_at (S p) (d_ids s') /\ d_match s' = contains_match A (d_ids s).
    Proof.
      intros Hp Hb Hs. rewrite pdet_nl. cbv zeta.
      destruct ((length _ =? 0) && negb _); [discriminate|]. destruct (_ <? _); [discriminate|].
      intros H. inversion H; subst. cbn [d_ids d_match]. split; [apply step_sound; auto|reflexivity].
    Qed.

    Lemma pdet_next_exact s b p s' :
      at_ <= p -> nth_error h p = Some b -> exact_at p (d_ids s) -> contains_match A (d_ids s) = false ->
      pdet A cfg s b = DNext s' -> exact_at (S p) (d_ids s') /\ d_match s' = false.
    Proof.
      intros Hp Hb Hs Hm. rewrite pdet_nl. cbv zeta. rewrite Hm. cbn [andb].
      destruct ((length _ =? 0) && negb _); [discriminate|]. destruct (_ <? _); [discriminate|].
      intros H. inversion H; subst. cbn [d_ids d_match]. split; [apply step_exact; auto|reflexivity].
    Qed.

    Lemma pdet_dead_exact s b p :
      at_ <= p -> nth_error h p = Some b -> exact_at p (d_ids s) ->
      pdet A cfg s b = DDead -> contains_match A (d_ids s) = false /\ forall q, ~ reach A h (q0, at_) (q, S p).
    Proof.
      intros Hp Hb Hs. rewrite pdet_nl. cbv zeta.
      destruct (contains_match A (d_ids s)) eqn:Hm.
      - cbn [negb andb]. rewrite andb_false_r. destruct (_ <? _); discriminate.
      - cbn [andb negb]. rewrite andb_true_r.
        pose proof (step_exact (if (b =? 10)%N then ls_start_line else ls_none) b p (d_ids s) Hp Hb Hs) as Hx.
        destruct (move_loop A _ false b (d_ids s) []) as [|x l] eqn:Hn.
        + intros _. split; [reflexivity|]. intros q Hr. apply Hx in Hr. destruct Hr.
        + cbn [length Nat.eqb]. destruct (_ <? _); discriminate.
    Qed.

    Lemma no_match_here pos ids :
      exact_at pos ids -> contains_match A ids = false ->
      forall m, reach A h (q0, at_) (m, pos) -> nth_error (states A) m <> Some SMatch.
    Proof.
      intros Hx Hm m Hr Hs. assert (contains_match A ids = true); [|congruence].
      apply contains_match_iff. exists m. split; [now apply Hx|exact Hs].
    Qed.

    (* ---------------- the loops *)
    Lemma p_loop_S wb f s pos last :
      p_loop A cfg h wb (S f) s pos last =
      match nth_error h pos with
      | None => RDfa (if eoi_match A s then Some (length h) else last)
      | Some b => match pdet A cfg s b with
                  | DDead => RDfa last
                  | DLimit => RFallback
                  | DNext s' => p_loop A cfg h wb f s' (S pos) (if d_match s' then Some pos else last)
                  end
      end.
    Proof. cbn [p_loop]. rewrite has_wb_nl. reflexivity. Qed.

    Lemma p_earliest_S f s pos :
      p_earliest_loop A cfg h (S f) s pos =
      match nth_error h pos with
      | None => RDfa (eoi_match A s)
      | Some b => match pdet A cfg s b with
                  | DDead => RDfa false
                  | DLimit => RFallback
                  | DNext s' => if d_match s' then RDfa true else p_earliest_loop A cfg h f s' (S pos)
                  end
      end.
    Proof. cbn [p_earliest_loop]. rewrite has_wb_nl. reflexivity. Qed.

    Lemma p_loop_last_some wb : forall f s pos x o,
      p_loop A cfg h wb f s pos (Some x) = RDfa o -> o <> None.
    Proof.
      induction f as [|f IH]; intros s pos x o H.
      - cbn in H. inversion H. discriminate.
      - rewrite p_loop_S in H. destruct (nth_error h pos) as [b|].
        + destruct (pdet A cfg s b) as [| |s']; [inversion H; discriminate|discriminate|].
          destruct (d_match s'); eapply IH; exact H.
        + destruct (eoi_match A s); inversion H; discriminate.
    Qed.

    Lemma eoi_sound s pos :
      sound_at pos (d_ids s) -> nth_error h pos = None -> eoi_match A s = true ->
      pos = length h /\ nfa_path A h q0 at_ (length h).
    Proof.
      intros Hs Hb He. rewrite eoi_match_nl in He. apply contains_match_iff in He as [m [Hin Hmm]].
      pose proof (closure_sound ls_eoi pos (d_ids s) Hs m Hin) as Hr.
      assert (pos = length h).
      { apply nth_error_None in Hb. pose proof (reach_pos A h Hwf _ _ Hr Hat) as Hq. cbn [snd] in Hq. lia. }
      subst pos. split; [reflexivity|]. exists m. split; [exact Hr|exact Hmm].
    Qed.

    Lemma p_loop_sound wb : forall f s pos last e,
      at_ <= pos -> sound_at pos (d_ids s) ->
      (forall x, last = Some x -> nfa_path A h q0 at_ x) ->
      p_loop A cfg h wb f s pos last = RDfa (Some e) -> nfa_path A h q0 at_ e.
    Proof.
      induction f as [|f IH]; intros s pos last e Hp Hs Hl H.
      - cbn in H. inversion H. now apply Hl.
      - rewrite p_loop_S in H. destruct (nth_error h pos) as [b|] eqn:Hb.
        + destruct (pdet A cfg s b) as [| |s'] eqn:Hd.
          * inversion H. now apply Hl.
          * discriminate.
          * destruct (pdet_next_sound s b pos s' Hp Hb Hs Hd) as [Hs' Hm].
            apply (IH s' (S pos) _ e) in H; auto.
            intros x Hx. destruct (d_match s') eqn:Hdm; [|now apply Hl].
            inversion Hx; subst x. symmetry in Hm. apply contains_match_iff in Hm as [m [Hin Hmm]].
            exists m. split; [apply Hs; exact Hin|exact Hmm].
        + destruct (eoi_match A s) eqn:He.
          * inversion H; subst e. apply (eoi_sound s pos Hs Hb He).
          * inversion H. now apply Hl.
    Qed.

    Definition no_acc (pos : nat) : Prop :=
      forall m e, pos <= e -> reach A h (q0, at_) (m, e) -> nth_error (states A) m <> Some SMatch.

    Lemma no_acc_step pos ids :
      exact_at pos ids -> contains_match A ids = false -> no_acc (S pos) -> no_acc pos.
    Proof.
      intros Hx Hm Hn m e He Hr. destruct (Nat.eq_dec e pos) as [->|Hne].
      - eapply no_match_here; eauto.
      - apply (Hn m e); [lia|exact Hr].
    Qed.

    Lemma no_acc_dead pos : at_ <= pos -> (forall q, ~ reach A h (q0, at_) (q, S pos)) -> no_acc (S pos).
    Proof.
      intros Hp Hd m e He Hr Hs. destruct (reach_cross _ _ Hr (S pos)) as [q' Hq']; [cbn [snd]; lia|].
      exact (Hd q' Hq').
    Qed.

    Lemma no_acc_eoi s pos :
      exact_at pos (d_ids s) -> nth_error h pos = None -> eoi_match A s = false -> no_acc pos.
    Proof.
      intros Hx Hb He m e Hpe Hr Hs.
      apply nth_error_None in Hb. pose proof (reach_pos A h Hwf _ _ Hr Hat) as Hq. cbn [snd] in Hq.
      assert (e = pos) by lia. subst e.
      rewrite eoi_match_nl in He. assert (contains_match A (closure A ls_eoi (d_ids s)) = true); [|congruence].
      apply contains_match_iff. exists m. split; [|exact Hs].
      eapply closure_incl; [apply exact_sound; exact Hx|]. now apply Hx.
    Qed.

    Lemma p_loop_none wb : forall f s pos,
      at_ <= pos -> length h - pos < f -> exact_at pos (d_ids s) ->
      p_loop A cfg h wb f s pos None = RDfa None -> no_acc pos.
    Proof.
      induction f as [|f IH]; intros s pos Hp Hf Hx H; [lia|].
      rewrite p_loop_S in H. destruct (nth_error h pos) as [b|] eqn:Hb.
      - assert (Hlt : pos < length h) by (apply nth_error_Some; congruence).
        destruct (pdet A cfg s b) as [| |s'] eqn:Hd.
        + destruct (pdet_dead_exact s b pos Hp Hb Hx Hd) as [Hm Hdead].
          eapply no_acc_step; eauto. apply no_acc_dead; auto.
        + discriminate.
        + destruct (pdet_next_sound s b pos s' Hp Hb (exact_sound _ _ Hx) Hd) as [_ Hdm].
          destruct (contains_match A (d_ids s)) eqn:Hm.
          * rewrite Hdm in H. exfalso. eapply p_loop_last_some; [exact H|reflexivity].
          * destruct (pdet_next_exact s b pos s' Hp Hb Hx Hm Hd) as [Hx' _].
            rewrite Hdm in H. eapply no_acc_step; eauto. apply (IH s' (S pos)); auto; lia.
      - destruct (eoi_match A s) eqn:He; [discriminate|]. eapply no_acc_eoi; eauto.
    Qed.

    Lemma p_earliest_true : forall f s pos,
      at_ <= pos -> sound_at pos (d_ids s) ->
      p_earliest_loop A cfg h f s pos = RDfa true -> exists e, nfa_path A h q0 at_ e.
    Proof.
      induction f as [|f IH]; intros s pos Hp Hs H; [discriminate|].
      rewrite p_earliest_S in H. destruct (nth_error h pos) as [b|] eqn:Hb.
      - destruct (pdet A cfg s b) as [| |s'] eqn:Hd; try discriminate.
        destruct (pdet_next_sound s b pos s' Hp Hb Hs Hd) as [Hs' Hm].
        destruct (d_match s') eqn:Hdm.
        + symmetry in Hm. apply contains_match_iff in Hm as [m [Hin Hmm]].
          exists pos, m. split; [apply Hs; exact Hin|exact Hmm].
        + apply (IH s' (S pos)); auto.
      - inversion H as [He]. exists (length h). apply (eoi_sound s pos Hs Hb He).
    Qed.

    Lemma p_earliest_false : forall f s pos,
      at_ <= pos -> length h - pos < f -> exact_at pos (d_ids s) ->
      p_earliest_loop A cfg h f s pos = RDfa false -> no_acc pos.
    Proof.
      induction f as [|f IH]; intros s pos Hp Hf Hx H; [lia|].
      rewrite p_earliest_S in H. destruct (nth_error h pos) as [b|] eqn:Hb.
      - assert (Hlt : pos < length h) by (apply nth_error_Some; congruence).
        destruct (pdet A cfg s b) as [| |s'] eqn:Hd.
        + destruct (pdet_dead_exact s b pos Hp Hb Hx Hd) as [Hm Hdead].
          eapply no_acc_step; eauto. apply no_acc_dead; auto.
        + discriminate.
        + destruct (pdet_next_sound s b pos s' Hp Hb (exact_sound _ _ Hx) Hd) as [_ Hdm].
          destruct (contains_match A (d_ids s)) eqn:Hm.
          * rewrite Hdm in H. discriminate.
          * destruct (pdet_next_exact s b pos s' Hp Hb Hx Hm Hd) as [Hx' _].
            rewrite Hdm in H. eapply no_acc_step; eauto. apply (IH s' (S pos)); auto; lia.
      - inversion H as [He]. eapply no_acc_eoi; eauto.
    Qed.
  End Run.
End Ref.

(* ------------------------------------------------------------------ the entry points *)
Section Top.
  Variable A : nfa.
  Hypothesis Hwf : wf_nfa A = true.
  Hypothesis Hnl : no_look A = true.

  Lemma start_anch_lt : start_anch A < nstates A.
  Proof.
    pose proof Hwf as H. unfold wf_nfa in H. apply andb_prop in H as [H _]. apply andb_prop in H as [_ H].
    now apply Nat.ltb_lt.
  Qed.

  Lemma start_unanch_lt : start_unanch A < nstates A.
  Proof. pose proof Hwf as H. unfold wf_nfa in H. apply andb_prop in H as [_ H]. now apply Nat.ltb_lt. Qed.

  (* ---------------- the reference, in terms of paths *)
  Lemma ref_bool_iff h at_ :
    ref_bool A h at_ = true <-> exists s e, at_ <= s <= length h /\ nfa_path A h (start_anch A) s e.
  Proof.
    unfold ref_bool. destruct (find_at A h at_) as [|[[[s e] sl]|]] eqn:E.
    - exfalso. now apply (find_at_total A h Hwf at_).
    - split; [|reflexivity]. intros _. destruct (find_at_some A h Hwf _ _ _ _ E) as [H1 [H2 [H3 [H4 _]]]].
      exists s, e. split; [lia|exact H4].
    - split; [discriminate|]. intros [s [e [Hs Hp]]]. exfalso. apply (find_at_none A h Hwf at_ E s Hs e Hp).
  Qed.

  Lemma find_none_iff h at_ : find_at A h at_ = Done None <-> ref_bool A h at_ = false.
  Proof.
    unfold ref_bool. destruct (find_at A h at_) as [|[x|]] eqn:E.
    - exfalso. now apply (find_at_total A h Hwf at_).
    - split; discriminate.
    - split; reflexivity.
  Qed.

  (* "the pattern matches the empty string": a Match state is epsilon-reachable from the start *)
  Definition emp : Prop := exists m, estar A (start_anch A) m /\ nth_error (states A) m = Some SMatch.

  Lemma emp_path h : emp <-> nfa_path A h (start_anch A) (length h) (length h).
  Proof.
    split.
    - intros [m [Hr Ha]]. exists m. split; [apply (path_here A Hwf Hnl h (start_anch A) (length h) m); exact Hr|exact Ha].
    - intros [m [Hr Ha]]. exists m. split; [apply (path_here A Hwf Hnl h (start_anch A) (length h) m); exact Hr|exact Ha].
  Qed.

  Lemma path_end h e : nfa_path A h (start_anch A) (length h) e -> e = length h.
  Proof. intros Hp. pose proof (nfa_path_pos A h Hwf _ _ _ Hp (le_n _)). lia. Qed.

  Lemma ref_bool_end h : ref_bool A h (length h) = true <-> emp.
  Proof.
    rewrite ref_bool_iff, (emp_path h). split.
    - intros [s [e [Hs Hp]]]. assert (s = length h) by lia. subst s.
      pose proof (path_end h e Hp). subst e. exact Hp.
    - intros Hp. exists (length h), (length h). split; [lia|exact Hp].
  Qed.

  Lemma matches_empty_iff : p_matches_empty A = true <-> emp.
  Proof. unfold p_matches_empty. exact (ref_bool_end []). Qed.

  Lemma matches_empty_end h : p_matches_empty A = ref_bool A h (length h).
  Proof. apply eq_true_iff_eq. rewrite matches_empty_iff, ref_bool_end. reflexivity. Qed.

  (* ---------------- the unanchored prefix *)
  Section Prefix.
    Variable r : nat.
    Hypothesis HU : nth_error (states A) (start_unanch A) = Some (SSplit (start_anch A) r).
    Hypothesis Hr : nth_error (states A) r = Some (SByteRange 0 255 (start_unanch A)).
    Variable h : hay.
    Variable at_ : nat.

    Lemma un_sound : forall c, reach A h (start_unanch A, at_) c ->
      at_ <= snd c /\ (fst c = start_unanch A \/ fst c = r \/
                       exists s, at_ <= s <= snd c /\ reach A h (start_anch A, s) c).
    Proof.
      apply (reach_ind_r A h).
      - cbn [fst snd]. split; [lia|now left].
      - intros [q1 p1] [q2 p2] Hr1 [Hp IH] He. cbn [fst snd] in *.
        pose proof (edge_inv A h Hwf _ _ _ _ He) as Hi.
        assert (Hpp : p1 <= p2) by (destruct Hi as [[-> _]|[-> _]]; lia).
        split; [lia|].
        destruct IH as [->|[->|[s [Hs Hrs]]]].
        + destruct Hi as [[-> [st [Hst Hin]]]|[-> [st [b [Hst [_ Hin]]]]]];
            rewrite HU in Hst; inversion Hst; subst st; cbn in Hin.
          * destruct Hin as [<-|[<-|[]]].
            -- right; right. exists p1. split; [lia|constructor].
            -- right; left; reflexivity.
          * destruct Hin.
        + destruct Hi as [[-> [st [Hst Hin]]]|[-> [st [b [Hst [_ Hin]]]]]];
            rewrite Hr in Hst; inversion Hst; subst st; cbn in Hin.
          * destruct Hin.
          * destruct (in_range 0 255 b); [|destruct Hin]. destruct Hin as [<-|[]]. left; reflexivity.
        + right; right. exists s. split; [lia|]. eapply reach_snoc; eauto.
    Qed.

    Hypothesis Hbytes : Forall (fun b => (b < 256)%N) h.

    Lemma un_loop : forall k, at_ + k <= length h -> reach A h (start_unanch A, at_) (start_unanch A, at_ + k).
    Proof.
      induction k as [|k IH]; intros Hk.
      - rewrite Nat.add_0_r. constructor.
      - replace (at_ + S k) with (S (at_ + k)) by lia.
        destruct (nth_error h (at_ + k)) as [b|] eqn:Hb; [|apply nth_error_None in Hb; lia].
        assert (Hb256 : (b < 256)%N).
        { rewrite Forall_forall in Hbytes. apply Hbytes. eapply nth_error_In; eauto. }
        eapply reach_snoc; [eapply reach_snoc; [apply IH; lia|]|].
        + apply (estep_edge A h (at_ + k) (start_unanch A) r). exists (SSplit (start_anch A) r).
          split; [exact HU|]. cbn. auto.
        + apply (bstep_edge A h Hwf). exists (SByteRange 0 255 (start_unanch A)), b.
          split; [exact Hr|]. split; [exact Hb|]. cbn [byte_succ].
          assert (Hin : in_range 0 255 b = true) by (unfold in_range; lia). rewrite Hin. now left.
    Qed.

    Lemma un_accept e : e <= length h ->
      (nfa_path A h (start_unanch A) at_ e <-> exists s, at_ <= s <= e /\ nfa_path A h (start_anch A) s e).
    Proof.
      intros He. split.
      - intros [m [Hrm Ha]]. destruct (un_sound _ Hrm) as [_ Hc]. cbn [fst snd] in Hc.
        unfold accepting in Ha. cbn [fst] in Ha.
        destruct Hc as [->|[->|[s [Hs Hrs]]]].
        + rewrite HU in Ha. discriminate.
        + rewrite Hr in Ha. discriminate.
        + exists s. split; [exact Hs|]. exists m. split; [exact Hrs|exact Ha].
      - intros [s [Hs [m [Hrm Ha]]]]. exists m. split; [|exact Ha].
        eapply reach_trans; [|exact Hrm].
        replace s with (at_ + (s - at_)) by lia.
        apply (reach_snoc A h _ (start_unanch A, at_ + (s - at_))); [apply un_loop; lia|].
        apply (estep_edge A h). exists (SSplit (start_anch A) r). split; [exact HU|]. cbn. auto.
    Qed.
  End Prefix.

  Lemma prefix_shape : prefix_ok A = true ->
    exists r, nth_error (states A) (start_unanch A) = Some (SSplit (start_anch A) r) /\
              nth_error (states A) r = Some (SByteRange 0 255 (start_unanch A)) /\
              always_anchored A = false.
  Proof.
    intros Hp. unfold prefix_ok, st_at in Hp.
    destruct (nth_error (states A) (start_unanch A)) as [st|] eqn:E; [|discriminate].
    destruct st as [| | |l r| | | |]; try discriminate.
    apply andb_prop in Hp as [H1 H2]. apply andb_prop in H1 as [H1 H3].
    destruct (nth_error (states A) r) as [st|] eqn:Er; [|discriminate].
    destruct st as [|lo hi nx| | | | | |]; try discriminate.
    apply andb_prop in H2 as [H2 H4]. apply andb_prop in H2 as [H2 H5].
    apply Nat.eqb_eq in H1, H4. apply N.eqb_eq in H2, H5. subst.
    exists r. split; [reflexivity|]. split; [exact Er|].
    unfold always_anchored. now apply negb_true_iff.
  Qed.

  (* ---------------- statements *)
  Variable cfg : dconfig.
  Variable h : hay.

  Lemma pstart_exact k (anch : bool) at_ : at_ <= length h ->
    exact_at A h (if anch then start_anch A else start_unanch A) at_ at_ (d_ids (pstart A k anch)).
  Proof.
    intros Hat. unfold pstart. cbn [d_ids]. apply start_exact; auto.
    destruct anch; [apply start_anch_lt|apply start_unanch_lt].
  Qed.

  (* the entry points at at_ = length h: matchesEmptyAt (after bde2710 the reference search at
     at_ with end = at_; before it, and at 0, matchesEmpty on the empty haystack) *)
  Lemma empty_at_end : empty_at A h (length h) = ref_bool A h (length h).
  Proof.
    unfold empty_at, ref_bool. destruct (find_at A h (length h)) as [|[[[s e] sl]|]] eqn:E; try reflexivity.
    destruct (find_at_some A h Hwf _ _ _ _ E) as [H1 [H2 [H3 _]]].
    assert (e = length h) by lia. subst e. apply Nat.eqb_refl.
  Qed.

  Lemma matches_empty_at_end : p_matches_empty_at A cfg h (length h) = ref_bool A h (length h).
  Proof.
    unfold p_matches_empty_at. destruct (cfg_old_entry cfg || (length h =? 0)).
    - apply matches_empty_end.
    - apply empty_at_end.
  Qed.

  Lemma matches_empty_at_iff : p_matches_empty_at A cfg h (length h) = true <-> emp.
  Proof. rewrite matches_empty_at_end. apply ref_bool_end. Qed.

  Section Unanchored.
    Hypothesis Hpre : prefix_ok A = true.
    Hypothesis Hbytes : Forall (fun b => (b < 256)%N) h.

    Lemma un_true at_ e : at_ <= length h -> nfa_path A h (start_unanch A) at_ e ->
      exists s, at_ <= s /\ s <= e /\ e <= length h /\ nfa_path A h (start_anch A) s e.
    Proof.
      intros Hat Hp. destruct (prefix_shape Hpre) as [r [HU [Hr _]]].
      pose proof (nfa_path_pos A h Hwf _ _ _ Hp Hat) as Hpe.
      apply (un_accept r HU Hr h at_ Hbytes e) in Hp; [|lia].
      destruct Hp as [s [Hs Hps]]. exists s. repeat split; try lia. exact Hps.
    Qed.

    Lemma un_false at_ : at_ <= length h -> no_acc A h (start_unanch A) at_ at_ -> ref_bool A h at_ = false.
    Proof.
      intros Hat Hn. apply not_true_iff_false. intros Ht. apply ref_bool_iff in Ht as [s [e [Hs Hp]]].
      destruct (prefix_shape Hpre) as [r [HU [Hr _]]].
      pose proof (nfa_path_pos A h Hwf _ _ _ Hp ltac:(lia)) as Hpe.
      assert (Hu : nfa_path A h (start_unanch A) at_ e).
      { apply (un_accept r HU Hr h at_ Hbytes e); [lia|]. exists s. split; [lia|exact Hp]. }
      destruct Hu as [m [Hrm Ha]]. apply (Hn m e); [lia|exact Hrm|exact Ha].
    Qed.

    Theorem p_is_match_correct_ at_ r :
      at_ <= length h -> p_is_match_at A cfg h at_ = RDfa r -> r = ref_bool A h at_.
    Proof.
      intros Hat H. unfold p_is_match_at in H.
      destruct (Nat.leb_spec (length h) at_) as [Hle|Hlt].
      - assert (at_ = length h) by lia. subst at_. rewrite Nat.eqb_refl in H. cbn [andb] in H.
        inversion H. apply matches_empty_at_end.
      - destruct (prefix_shape Hpre) as [r0 [_ [_ Haa]]]. rewrite Haa in H. cbn [andb] in H.
        pose proof (pstart_exact (kind_at h at_) false at_ Hat) as Hx. cbv iota in Hx.
        destruct r.
        + apply (p_earliest_true A Hwf Hnl cfg h (start_unanch A) at_ start_unanch_lt Hat) in H;
            [|lia|apply exact_sound; exact Hx].
          destruct H as [e He]. destruct (un_true at_ e Hat He) as [s [H1 [H2 [H3 H4]]]].
          symmetry. apply ref_bool_iff. exists s, e. split; [lia|exact H4].
        + apply (p_earliest_false A Hwf Hnl cfg h (start_unanch A) at_ start_unanch_lt Hat) in H;
            [|lia|unfold p_fuel; lia|exact Hx].
          symmetry. apply un_false; auto.
    Qed.

    Lemma p_search_at_cases at_ o :
      p_search_at A cfg h at_ = RDfa o ->
      (length h < at_ /\ o = None) \/
      (at_ = length h /\ o = if p_matches_empty_at A cfg h at_ then Some at_ else None) \/
      (at_ < length h /\ p_loop A cfg h true (p_fuel h) (pstart A (kind_at h at_) false) at_ None = RDfa o).
    Proof.
      intros H. unfold p_search_at in H.
      destruct (Nat.ltb_spec (length h) at_) as [Hlt|Hle]; [left; split; [lia|congruence]|].
      destruct (Nat.eqb_spec at_ (length h)) as [He|Hne]; [right; left; split; [exact He|congruence]|].
      destruct (prefix_shape Hpre) as [r0 [_ [_ Haa]]]. rewrite Haa in H. cbn [andb] in H.
      right; right. split; [lia|exact H].
    Qed.

    Theorem p_search_at_end_sound_ at_ e :
      p_search_at A cfg h at_ = RDfa (Some e) ->
      exists s, at_ <= s /\ s <= e /\ e <= length h /\ nfa_path A h (start_anch A) s e.
    Proof.
      intros H. apply p_search_at_cases in H as [[_ H]|[[Ha H]|[Ha H]]]; [discriminate| |].
      - destruct (p_matches_empty_at A cfg h at_) eqn:Hm; [|discriminate]. inversion H; subst e. subst at_.
        exists (length h). repeat split; try lia. apply emp_path. now apply matches_empty_at_iff.
      - pose proof (pstart_exact (kind_at h at_) false at_ ltac:(lia)) as Hx. cbv iota in Hx.
        apply (p_loop_sound A Hwf Hnl cfg h (start_unanch A) at_ start_unanch_lt ltac:(lia)) in H;
          [|lia|apply exact_sound; exact Hx|discriminate].
        apply un_true; [lia|exact H].
    Qed.

    Theorem p_search_at_none_iff_ at_ o :
      p_search_at A cfg h at_ = RDfa o -> (o = None <-> find_at A h at_ = Done None).
    Proof.
      intros H. rewrite find_none_iff.
      pose proof H as H0. apply p_search_at_cases in H as [[Ha H]|[[Ha H]|[Ha H]]].
      - split; [intros _|intros _; exact H]. apply find_none_iff. unfold find_at.
        apply Nat.ltb_lt in Ha. now rewrite Ha.
      - subst at_. rewrite <- matches_empty_at_end. subst o. destruct (p_matches_empty_at A cfg h (length h)); split; congruence.
      - destruct o as [e|].
        + split; [discriminate|]. intros Hf. exfalso.
          destruct (p_search_at_end_sound_ at_ e H0) as [s [H1 [H2 [H3 H4]]]].
          assert (Ht : ref_bool A h at_ = true) by (apply ref_bool_iff; exists s, e; split; [lia|exact H4]).
          congruence.
        + split; [intros _|reflexivity].
          pose proof (pstart_exact (kind_at h at_) false at_ ltac:(lia)) as Hx. cbv iota in Hx.
          apply (p_loop_none A Hwf Hnl cfg h (start_unanch A) at_ start_unanch_lt ltac:(lia)) in H;
            [|lia|unfold p_fuel; lia|exact Hx].
          apply un_false; [lia|exact H].
    Qed.
  End Unanchored.

  (* ---------------- the anchored entry point *)
  Lemma p_search_anchored_cases at_ o :
    p_search_anchored A cfg h at_ = RDfa o ->
    (length h < at_ /\ o = None) \/
    (at_ = length h /\ o = if p_matches_empty_at A cfg h at_ then Some at_ else None) \/
    (at_ < length h /\ p_loop A cfg h false (p_fuel h) (pstart A (kind_at h at_) true) at_ None = RDfa o).
  Proof.
    intros H. unfold p_search_anchored in H.
    destruct (Nat.ltb_spec (length h) at_) as [Hlt|Hle]; [left; split; [lia|congruence]|].
    destruct (Nat.eqb_spec at_ (length h)) as [He|Hne]; [right; left; split; [exact He|congruence]|].
    right; right. split; [lia|exact H].
  Qed.

  Theorem p_search_anchored_end_sound_ at_ e :
    p_search_anchored A cfg h at_ = RDfa (Some e) ->
    at_ <= e /\ e <= length h /\ nfa_path A h (start_anch A) at_ e.
  Proof.
    intros H. apply p_search_anchored_cases in H as [[_ H]|[[Ha H]|[Ha H]]]; [discriminate| |].
    - destruct (p_matches_empty_at A cfg h at_) eqn:Hm; [|discriminate]. inversion H; subst e. subst at_.
      repeat split; try lia. apply emp_path. now apply matches_empty_at_iff.
    - pose proof (pstart_exact (kind_at h at_) true at_ ltac:(lia)) as Hx. cbv iota in Hx.
      apply (p_loop_sound A Hwf Hnl cfg h (start_anch A) at_ start_anch_lt ltac:(lia)) in H;
        [|lia|apply exact_sound; exact Hx|discriminate].
      pose proof (nfa_path_pos A h Hwf _ _ _ H ltac:(lia)). repeat split; try lia. exact H.
  Qed.

  Theorem p_search_anchored_none_iff_ at_ o :
    at_ <= length h -> p_search_anchored A cfg h at_ = RDfa o ->
    (o = None <-> forall e, ~ nfa_path A h (start_anch A) at_ e).
  Proof.
    intros Hat H. pose proof H as H0. apply p_search_anchored_cases in H as [[Ha H]|[[Ha H]|[Ha H]]]; [lia| |].
    - subst at_. subst o. destruct (p_matches_empty_at A cfg h (length h)) eqn:Hm.
      + split; [discriminate|]. intros Hn. exfalso. apply (Hn (length h)). apply emp_path. now apply matches_empty_at_iff.
      + split; [intros _|reflexivity]. intros e Hp. pose proof (path_end h e Hp). subst e.
        apply emp_path in Hp. apply matches_empty_at_iff in Hp. congruence.
    - destruct o as [e|].
      + split; [discriminate|]. intros Hn. exfalso.
        destruct (p_search_anchored_end_sound_ at_ e H0) as [_ [_ Hp]]. exact (Hn e Hp).
      + split; [intros _|reflexivity].
        pose proof (pstart_exact (kind_at h at_) true at_ Hat) as Hx. cbv iota in Hx.
        apply (p_loop_none A Hwf Hnl cfg h (start_anch A) at_ start_anch_lt Hat) in H;
          [|lia|unfold p_fuel; lia|exact Hx].
        intros e [m [Hrm Hacc]].
        pose proof (reach_pos A h Hwf _ _ Hrm Hat) as Hpe. cbn [snd] in Hpe.
        apply (H m e); [lia|exact Hrm|exact Hacc].
  Qed.
End Top.

(* ------------------------------------------------------------------ the leftmost start
   With break-at-match (cfg_break = true, the default of the forward DFA) the end reported by
   searchAt is the end of an accepting path from the LEFTMOST start s0 that has any match.
   Invariant (positions p >= s0, until the first match of s0): the id list is G ++ T where every
   id of G is the unanchored start itself or "good" (every match it can still produce is a match
   of s0: threads of earlier starts are dead, threads of s0 are good) and G contains every
   thread of s0 (phaseA).  The cut happens at the first Match in list order: if it lies in G the
   match is a match of s0 and everything kept is good (phaseB: from then on every reported end
   is an end of s0); if it lies in T all of G is kept. *)
Section Leftmost.
  Variable A : nfa.
  Hypothesis Hwf : wf_nfa A = true.
  Hypothesis Hnl : no_look A = true.
  Variable cfg : dconfig.
  Hypothesis Hbrk : cfg_break cfg = true.
  Variable h : hay.
  Hypothesis Hbytes : Forall (fun b => (b < 256)%N) h.
  Variable r : nat.
  Hypothesis HU : nth_error (states A) (start_unanch A) = Some (SSplit (start_anch A) r).
  Hypothesis Hr : nth_error (states A) r = Some (SByteRange 0 255 (start_unanch A)).
  Variable at_ s0 e0 : nat.
  Hypothesis Hat0 : at_ <= s0.
  Hypothesis Hs0 : s0 <= length h.
  Hypothesis Hleft : forall s e, at_ <= s < s0 -> ~ nfa_path A h (start_anch A) s e.
  Hypothesis He0 : nfa_path A h (start_anch A) s0 e0.

  Local Notation U := (start_unanch A).
  Local Notation sa := (start_anch A).

  Definition valid (e : nat) : Prop := nfa_path A h sa s0 e.
  Definition Good (p q : nat) : Prop := forall e, nfa_path A h q p e -> valid e.
  Definition GU (p q : nat) : Prop := q = U \/ Good p q.
  Definition From0 (p q : nat) : Prop := reach A h (sa, s0) (q, p).
  Definition lh_of (b : N) : lookset := if (b =? 10)%N then ls_start_line else ls_none.

  Lemma U_lt : U < nstates A.
  Proof. exact (start_unanch_lt A Hwf). Qed.

  Lemma at_len : at_ <= length h.
  Proof. lia. Qed.

  Lemma From0_good p q : From0 p q -> Good p q.
  Proof. intros Hf e [m [Hrm Ha]]. exists m. split; [eapply reach_trans; eauto|exact Ha]. Qed.

  Lemma good_step p b q t x :
    Good p q -> nth_error h p = Some b -> In t (byte_targets A q b) -> estar A t x -> Good (S p) x.
  Proof.
    intros Hg Hb Ht Hx e [m [Hrm Ha]]. apply Hg. exists m. split; [|exact Ha].
    eapply reach_trans; [|exact Hrm].
    eapply (reach_byte_ereach A h Hwf).
    - constructor.
    - apply (byte_targets_bstep A h p b); eauto.
    - apply (estar_ereach A Hnl). exact Hx.
  Qed.

  Lemma dead_early s p q : at_ <= s < s0 -> reach A h (sa, s) (q, p) -> Good p q.
  Proof.
    intros Hs Hrq e [m [Hrm Ha]]. exfalso. apply (Hleft s e Hs).
    exists m. split; [eapply reach_trans; eauto|exact Ha].
  Qed.

  Lemma U_nomatch : is_match_id A U = false.
  Proof. unfold is_match_id, st_at. now rewrite HU. Qed.

  Lemma U_targets b : byte_targets A U b = [].
  Proof. unfold byte_targets, st_at. now rewrite HU. Qed.

  Lemma U_esucc : esucc A U = [sa; r].
  Proof. unfold esucc, eps_push, st_at. now rewrite HU. Qed.

  Lemma r_targets b : (b < 256)%N -> byte_targets A r b = [U].
  Proof.
    intros Hb. unfold byte_targets, st_at. rewrite Hr.
    assert (Hin : in_range 0 255 b = true) by (unfold in_range; lia). now rewrite Hin.
  Qed.

  Lemma GU_match p m : GU p m -> is_match_id A m = true -> valid p.
  Proof.
    intros [->|Hg] Hm; [rewrite U_nomatch in Hm; discriminate|].
    apply Hg. exists m. split; [constructor|]. unfold accepting. cbn [fst]. now apply is_match_id_iff.
  Qed.

  Lemma valid_here pos G : valid pos -> (forall q, From0 pos q -> In q G) -> contains_match A G = true.
  Proof.
    intros [m [Hrm Ha]] HG. apply contains_match_iff. exists m. split; [apply HG; exact Hrm|exact Ha].
  Qed.

  Lemma valid_ge e : valid e -> s0 <= e <= length h.
  Proof. intros Hv. exact (nfa_path_pos A h Hwf _ _ _ Hv Hs0). Qed.

  (* ---------------- images under one byte *)
  Lemma img_closed lh brk b L : closedE A (move_loop A lh brk b L []).
  Proof.
    destruct (move_loop_spec A Hwf Hnl lh brk b L [] (closedE_nil A)) as [ex [He [Hc _]]].
    rewrite He. exact Hc.
  Qed.

  Lemma img_good lh brk b pos L :
    nth_error h pos = Some b -> (forall q, In q L -> GU pos q) ->
    forall x, In x (move_loop A lh brk b L []) -> Good (S pos) x.
  Proof.
    intros Hb HL x Hx.
    destruct (move_loop_spec A Hwf Hnl lh brk b L [] (closedE_nil A)) as [ex [He [_ [Hex _]]]].
    rewrite He in Hx. cbn [app] in Hx. destruct (Hex x Hx) as [q [t [Hq [Ht Hs]]]].
    destruct (HL q Hq) as [->|Hg]; [rewrite U_targets in Ht; destruct Ht|]. eapply good_step; eauto.
  Qed.

  Lemma img_complete lh b pos G :
    s0 <= pos -> nth_error h pos = Some b -> (forall q, From0 pos q -> In q G) ->
    forall x, From0 (S pos) x -> In x (move_loop A lh false b G []).
  Proof.
    intros Hp Hb HG x Hx.
    destruct (move_loop_spec A Hwf Hnl lh false b G [] (closedE_nil A)) as [ex [He [_ [_ Hc]]]].
    rewrite He. apply (reach_last_byte A h Hwf) in Hx; [|exact Hp].
    destruct Hx as [q1 [q2 [H1 [H2 H3]]]].
    eapply (Hc eq_refl q1 q2).
    - apply HG. exact H1.
    - apply (byte_targets_bstep A h pos b); eauto.
    - apply (estar_ereach A Hnl h (S pos)). exact H3.
  Qed.

  Definition phaseA (pos : nat) (L : list nat) : Prop :=
    s0 <= pos /\ closedE A L /\ (forall e, e < pos -> ~ valid e) /\
    exists G T, L = G ++ T /\ (forall q, In q G -> GU pos q) /\ (forall q, From0 pos q -> In q G).

  Definition phaseB (pos : nat) (L : list nat) : Prop :=
    closedE A L /\ forall q, In q L -> GU pos q.

  Lemma phaseA_next lh pos G t1 b :
    s0 <= pos -> nth_error h pos = Some b ->
    (forall q, In q G -> GU pos q) -> (forall q, From0 pos q -> In q G) ->
    (forall e, e < pos -> ~ valid e) -> ~ valid pos ->
    phaseA (S pos) (move_loop A lh false b (G ++ t1) []).
  Proof.
    intros Hp Hb HG HF Hlt Hnv. split; [lia|]. split; [apply img_closed|]. split.
    - intros e He. destruct (Nat.eq_dec e pos) as [->|Hne]; [exact Hnv|]. apply Hlt. lia.
    - rewrite move_loop_app by (intros; reflexivity).
      destruct (move_loop_spec A Hwf Hnl lh false b t1 (move_loop A lh false b G [])
                  (img_closed lh false b G)) as [ex [He _]].
      exists (move_loop A lh false b G []), ex. split; [exact He|]. split.
      + intros q Hq. right. eapply img_good; eauto.
      + apply img_complete; auto.
  Qed.

  (* ---------------- transitions *)
  Lemma pdet_next_ids s b s' : pdet A cfg s b = DNext s' ->
    d_ids s' = move_loop A (lh_of b) (contains_match A (d_ids s) && cfg_break cfg) b (d_ids s) [] /\
    d_match s' = contains_match A (d_ids s).
  Proof.
    rewrite (pdet_nl A Hnl). cbv zeta. destruct (_ && negb _); [discriminate|].
    destruct (_ <? _); [discriminate|]. intros H. inversion H; subst. cbn [d_ids d_match]. split; reflexivity.
  Qed.

  Lemma pdet_dead_ids s b : pdet A cfg s b = DDead ->
    move_loop A (lh_of b) false b (d_ids s) [] = [] /\ contains_match A (d_ids s) = false.
  Proof.
    rewrite (pdet_nl A Hnl). cbv zeta. destruct (contains_match A (d_ids s)) eqn:Hm.
    - cbn [negb]. rewrite andb_false_r. destruct (_ <? _); discriminate.
    - cbn [andb negb]. rewrite andb_true_r. fold (lh_of b).
      destruct (move_loop A (lh_of b) false b (d_ids s) []) as [|x l].
      + intros _. split; reflexivity.
      + cbn [length Nat.eqb]. destruct (_ <? _); discriminate.
  Qed.

  Lemma closure_closed lh pos L :
    sound_at A h U at_ pos L -> closedE A L -> forall m, In m (closure A lh L) -> In m L.
  Proof.
    intros Hs Hc m Hin. unfold closure in Hin.
    destruct (fold_closure_spec A Hwf Hnl lh L [] (closedE_nil A)) as [ex [He [_ [Hx _]]]].
    { intros t Ht. eapply (reach_lt A Hwf h U at_ U_lt). apply Hs. exact Ht. }
    rewrite He in Hin. cbn [app] in Hin. destruct (Hx m Hin) as [t [Ht Hrm]].
    eapply closedE_estar; eauto.
  Qed.

  (* ---------------- phase B: everything is good *)
  Lemma runB wb : forall f s pos last e,
    at_ <= pos -> sound_at A h U at_ pos (d_ids s) -> phaseB pos (d_ids s) ->
    (forall x, last = Some x -> valid x) ->
    p_loop A cfg h wb f s pos last = RDfa (Some e) -> valid e.
  Proof.
    induction f as [|f IH]; intros s pos last e Hp Hs [Hc HG] Hl H.
    - cbn in H. inversion H. now apply Hl.
    - rewrite (p_loop_S A Hnl) in H. destruct (nth_error h pos) as [b|] eqn:Hb.
      + destruct (pdet A cfg s b) as [| |s'] eqn:Hd.
        * inversion H. now apply Hl.
        * discriminate.
        * destruct (pdet_next_sound A Hwf Hnl cfg h U at_ s b pos s' Hp Hb Hs Hd) as [Hs' _].
          destruct (pdet_next_ids s b s' Hd) as [Hids Hm].
          assert (HB : phaseB (S pos) (d_ids s')).
          { rewrite Hids. split; [apply img_closed|]. intros q Hq. right. eapply img_good; eauto. }
          apply (IH s' (S pos) _ e) in H; auto.
          intros x Hx. destruct (d_match s') eqn:Hdm; [|now apply Hl]. inversion Hx; subst x.
          symmetry in Hm. apply first_match_split in Hm as [l1 [m [l2 [HL [Hmm _]]]]].
          apply (GU_match pos m); [|exact Hmm]. apply HG. rewrite HL. apply in_or_app. right. now left.
      + destruct (eoi_match A s) eqn:He.
        * inversion H; subst e.
          destruct (eoi_sound A Hwf Hnl h U at_ U_lt at_len s pos Hs Hb He) as [Hpos _]. subst pos.
          rewrite (eoi_match_nl A Hnl) in He. apply contains_match_iff in He as [m [Hin Hmm]].
          apply (closure_closed ls_eoi (length h) (d_ids s) Hs Hc) in Hin.
          apply (GU_match (length h) m); [apply HG; exact Hin|now apply is_match_id_iff].
        * inversion H. now apply Hl.
  Qed.

  (* ---------------- phase A: s0 has not matched yet *)
  Lemma alive pos : s0 <= pos -> (forall e, e <= pos -> ~ valid e) -> exists q, From0 (S pos) q.
  Proof.
    intros Hp Hn. assert (He : pos < e0).
    { destruct (Nat.le_gt_cases e0 pos) as [Hle|Hgt]; [|exact Hgt]. exfalso. exact (Hn e0 Hle He0). }
    destruct He0 as [m [Hrm _]].
    destruct (reach_cross A Hwf Hnl h U at_ U_lt at_len _ _ Hrm (S pos)) as [q Hq]; [cbn [snd]; lia|].
    exists q. exact Hq.
  Qed.

  Lemma runA wb : forall f s pos last e,
    at_ <= pos -> pos <= length h -> length h - pos < f ->
    sound_at A h U at_ pos (d_ids s) -> phaseA pos (d_ids s) ->
    p_loop A cfg h wb f s pos last = RDfa (Some e) -> valid e.
  Proof.
    induction f as [|f IH]; intros s pos last e Hp Hple Hf Hs [Hsp [Hc [Hlt [G [T [HL [HG HF]]]]]]] H; [lia|].
    rewrite (p_loop_S A Hnl) in H. destruct (nth_error h pos) as [b|] eqn:Hb.
    - assert (Hpl : pos < length h) by (apply nth_error_Some; congruence).
      destruct (pdet A cfg s b) as [| |s'] eqn:Hd.
      + (* dead: impossible, a thread of s0 is alive *)
        exfalso. destruct (pdet_dead_ids s b Hd) as [Hnil Hm].
        assert (Hnv : ~ valid pos).
        { intros Hv. pose proof (valid_here pos G Hv HF) as HmG.
          rewrite HL, contains_match_app, HmG in Hm. discriminate. }
        destruct (alive pos Hsp) as [q Hq].
        { intros e' He' Hv. destruct (Nat.eq_dec e' pos) as [->|Hne]; [exact (Hnv Hv)|]. apply (Hlt e'); [lia|exact Hv]. }
        pose proof (phaseA_next (lh_of b) pos G T b Hsp Hb HG HF Hlt Hnv) as [_ [_ [_ [G' [T' [HL' [_ HF']]]]]]].
        rewrite <- HL, Hnil in HL'. symmetry in HL'. apply app_eq_nil in HL' as [-> _].
        exact (HF' q Hq).
      + discriminate.
      + destruct (pdet_next_sound A Hwf Hnl cfg h U at_ s b pos s' Hp Hb Hs Hd) as [Hs' _].
        destruct (pdet_next_ids s b s' Hd) as [Hids Hm]. rewrite Hbrk, andb_true_r in Hids.
        destruct (contains_match A G) eqn:HmG.
        * (* the first Match is in G: it is a match of s0, and the cut keeps good ids only *)
          destruct (first_match_split A G HmG) as [g1 [m [g2 [HGs [Hmm Hnm]]]]].
          assert (Hsm : contains_match A (d_ids s) = true) by (rewrite HL, contains_match_app, HmG; reflexivity).
          rewrite Hsm in Hids, Hm. rewrite HL, HGs, <- app_assoc in Hids. cbn [app] in Hids.
          rewrite move_loop_cut in Hids by assumption.
          assert (Hv : valid pos).
          { apply (GU_match pos m); [|exact Hmm]. apply HG. rewrite HGs. apply in_or_app. right. now left. }
          rewrite Hm in H. apply (runB wb f s' (S pos) (Some pos) e) in H; auto.
          -- rewrite Hids. split; [apply img_closed|]. intros q Hq. right.
             eapply img_good; [exact Hb| |exact Hq]. intros q' Hq'. apply HG. rewrite HGs. apply in_or_app. now left.
          -- intros x Hx. inversion Hx; subst x. exact Hv.
        * (* no thread of s0 matches here *)
          assert (Hnv : ~ valid pos).
          { intros Hv. pose proof (valid_here pos G Hv HF). congruence. }
          assert (HA : phaseA (S pos) (d_ids s')).
          { destruct (contains_match A T) eqn:HmT.
            - destruct (first_match_split A T HmT) as [t1 [m [t2 [HTs [Hmm Hnm]]]]].
              assert (Hsm : contains_match A (d_ids s) = true).
              { rewrite HL, contains_match_app, HmT. apply orb_true_r. }
              rewrite Hsm in Hids. rewrite HL, HTs, app_assoc in Hids.
              rewrite move_loop_cut in Hids.
              + rewrite Hids. apply phaseA_next; auto.
              + intros q Hq. apply in_app_or in Hq as [Hq|Hq]; [eapply contains_match_false; eauto|now apply Hnm].
              + exact Hmm.
            - assert (Hsm : contains_match A (d_ids s) = false) by (rewrite HL, contains_match_app, HmG, HmT; reflexivity).
              rewrite Hsm in Hids. rewrite HL in Hids. rewrite Hids. apply phaseA_next; auto. }
          apply (IH s' (S pos) _ e) in H; auto; lia.
    - (* end of input: the match of s0 ends here *)
      apply nth_error_None in Hb. assert (pos = length h) by lia. subst pos.
      assert (He : e0 = length h).
      { pose proof (valid_ge e0 He0). destruct (Nat.eq_dec e0 (length h)) as [E|E]; [exact E|].
        exfalso. apply (Hlt e0); [lia|exact He0]. }
      assert (Hv : valid (length h)) by (rewrite <- He; exact He0).
      assert (Hem : eoi_match A s = true).
      { rewrite (eoi_match_nl A Hnl). destruct Hv as [m [Hrm Ha]]. apply contains_match_iff. exists m. split; [|exact Ha].
        eapply (closure_incl A Hwf Hnl h U at_ U_lt); [exact Hs|]. rewrite HL. apply in_or_app. left. apply HF. exact Hrm. }
      rewrite Hem in H. inversion H; subst e. exact Hv.
  Qed.

  (* ---------------- establishing phase A at position s0: the closure of the unanchored start
     on top of a closed list of good ids *)
  Lemma establish lh res :
    closedE A res -> (forall q, In q res -> Good s0 q) ->
    exists G T, closure_into A lh res U = G ++ T /\ closedE A (G ++ T) /\
      (forall q, In q G -> GU s0 q) /\ (forall q, From0 s0 q -> In q G).
  Proof.
    intros Hc Hg.
    assert (HF : forall q, From0 s0 q <-> estar A sa q) by (intros q; apply (path_here A Hwf Hnl h)).
    assert (HFg : forall q, estar A sa q -> Good s0 q) by (intros q Hq; apply From0_good; now apply HF).
    destruct (memb U res) eqn:Hm.
    - assert (Heq : closure_into A lh res U = res).
      { unfold closure_into, closure_fuel. replace (2 * nstates A + 2) with (S (S (2 * nstates A))) by lia.
        cbn [closure_loop]. rewrite Hm. reflexivity. }
      exists res, []. rewrite Heq, app_nil_r. split; [reflexivity|]. split; [exact Hc|]. split.
      + intros q Hq. right. now apply Hg.
      + intros q Hq. apply HF in Hq. apply memb_In in Hm.
        eapply closedE_estar; [exact Hc| |exact Hq]. apply (Hc U sa Hm). rewrite U_esucc. now left.
    - destruct (closure_into_split A Hwf Hnl lh res U sa r Hc U_esucc U_lt Hm)
        as [ex1 [ex2 [He [Hc1 [Hsa [Hx1 [Hx2 HcE]]]]]]].
      assert (HG0 : forall q, In q ((res ++ [U]) ++ ex1) -> GU s0 q).
      { intros q Hq. apply in_app_or in Hq as [Hq|Hq]; [apply in_app_or in Hq as [Hq|[<-|[]]]|].
        - right. now apply Hg.
        - now left.
        - right. apply HFg. now apply Hx1. }
      destruct (in_dec Nat.eq_dec r (closure A ls_none [sa])) as [Hin|Hnin].
      + apply (closure_single A Hwf Hnl ls_none sa r (start_anch_lt A Hwf)) in Hin.
        exists (((res ++ [U]) ++ ex1) ++ ex2), []. rewrite app_nil_r. split; [exact He|]. split; [exact HcE|]. split.
        * intros q Hq. apply in_app_or in Hq as [Hq|Hq]; [now apply HG0|].
          right. apply HFg. eapply estar_trans; [exact Hin|now apply Hx2].
        * intros q Hq. apply HF in Hq. eapply closedE_estar; [exact HcE| |exact Hq]. apply in_or_app. now left.
      + exists ((res ++ [U]) ++ ex1), ex2. split; [exact He|]. split; [exact HcE|]. split; [exact HG0|].
        intros q Hq. apply HF in Hq. destruct (closedM_estar A _ r sa q Hc1 Hsa Hq) as [H|[H _]]; [exact H|].
        exfalso. apply Hnin. now apply (closure_single A Hwf Hnl ls_none sa r (start_anch_lt A Hwf)).
  Qed.

  Lemma no_valid_before : forall e, e < s0 -> ~ valid e.
  Proof. intros e He Hv. pose proof (valid_ge e Hv). lia. Qed.

  Lemma phaseA_at_start k : at_ = s0 -> phaseA at_ (d_ids (pstart A k false)).
  Proof.
    intros Heq. unfold pstart. cbn [d_ids]. unfold closure. cbn [fold_left].
    destruct (establish (look_of_kind k) [] (closedE_nil A)) as [G [T [He [Hc [HG HF]]]]]; [intros q []|].
    rewrite He. rewrite Heq. split; [lia|]. split; [exact Hc|]. split; [exact no_valid_before|].
    exists G, T. split; [reflexivity|]. split; assumption.
  Qed.

  Lemma r_in pos L : at_ <= pos <= length h -> exact_at A h U at_ pos L -> In r L.
  Proof.
    intros Hp Hx. apply Hx. replace pos with (at_ + (pos - at_)) by lia.
    apply (reach_snoc A h _ (U, at_ + (pos - at_))); [apply (un_loop A Hwf Hnl r HU Hr h at_ Hbytes); lia|].
    apply (estep_edge A h). exists (SSplit sa r). split; [exact HU|]. cbn. auto.
  Qed.

  Lemma no_match_early pos L : pos < s0 -> sound_at A h U at_ pos L -> contains_match A L = false.
  Proof.
    intros Hp Hs. destruct (contains_match A L) eqn:Hm; [exfalso|reflexivity].
    apply contains_match_iff in Hm as [m [Hin Hmm]].
    assert (Hpath : nfa_path A h U at_ pos) by (exists m; split; [apply Hs; exact Hin|exact Hmm]).
    apply (un_accept A Hwf Hnl r HU Hr h at_ Hbytes pos) in Hpath; [|lia].
    destruct Hpath as [s [Hs' Hps]]. apply (Hleft s pos); [lia|exact Hps].
  Qed.

  Lemma phaseA_at_s0 lh pos L b :
    S pos = s0 -> at_ <= pos -> nth_error h pos = Some b -> exact_at A h U at_ pos L ->
    phaseA (S pos) (move_loop A lh false b L []).
  Proof.
    intros Heq Hp Hb Hx.
    assert (Hb256 : (b < 256)%N).
    { rewrite Forall_forall in Hbytes. apply Hbytes. eapply nth_error_In; eauto. }
    assert (Hrin : In r L) by (apply (r_in pos); [lia|exact Hx]).
    destruct (in_split_first r L Hrin) as [L1 [L2 [HL Hnr]]].
    rewrite HL, move_loop_app by (intros; reflexivity).
    cbn [move_loop andb]. rewrite (r_targets b Hb256). cbn [fold_left].
    assert (Hg1 : forall q, In q (move_loop A lh false b L1 []) -> Good s0 q).
    { intros x Hin.
      destruct (move_loop_spec A Hwf Hnl lh false b L1 [] (closedE_nil A)) as [ex [He [_ [Hex _]]]].
      rewrite He in Hin. cbn [app] in Hin. destruct (Hex x Hin) as [q [t [Hq [Ht Hst]]]].
      rewrite <- Heq. apply (good_step pos b q t x); auto.
      assert (Hrq : reach A h (U, at_) (q, pos)) by (apply Hx; rewrite HL; apply in_or_app; now left).
      destruct (un_sound A Hwf Hnl r HU Hr h at_ _ Hrq) as [_ Hc]. cbn [fst snd] in Hc.
      destruct Hc as [->|[->|[s [Hs Hrs]]]].
      - rewrite U_targets in Ht. destruct Ht.
      - exfalso. exact (Hnr Hq).
      - apply (dead_early s); [lia|exact Hrs]. }
    destruct (establish lh (move_loop A lh false b L1 []) (img_closed lh false b L1) Hg1)
      as [G [T [He [Hc [HG HF]]]]].
    rewrite He.
    destruct (move_loop_spec A Hwf Hnl lh false b L2 (G ++ T) Hc) as [ex [He2 [Hc2 _]]].
    rewrite He2, Heq. split; [lia|]. split; [exact Hc2|]. split; [exact no_valid_before|].
    exists G, (T ++ ex). split; [now rewrite app_assoc|]. split; assumption.
  Qed.

  (* ---------------- before s0: no cut, the id set is exact *)
  Lemma run0 : forall f s pos e,
    at_ <= pos <= s0 -> length h - pos < f ->
    exact_at A h U at_ pos (d_ids s) -> (pos = s0 -> phaseA pos (d_ids s)) ->
    p_loop A cfg h true f s pos None = RDfa (Some e) -> valid e.
  Proof.
    induction f as [|f IH]; intros s pos e Hp Hf Hx HA H; [lia|].
    destruct (Nat.eq_dec pos s0) as [Heq|Hne].
    - apply (runA true (S f) s pos None e); auto; try lia.
      intros q Hq. now apply Hx.
    - assert (Hlt : pos < s0) by lia.
      rewrite (p_loop_S A Hnl) in H.
      destruct (nth_error h pos) as [b|] eqn:Hb; [|apply nth_error_None in Hb; lia].
      assert (Hs : sound_at A h U at_ pos (d_ids s)) by (intros q Hq; now apply Hx).
      pose proof (no_match_early pos (d_ids s) Hlt Hs) as Hm.
      destruct (pdet A cfg s b) as [| |s'] eqn:Hd; try discriminate.
      destruct (pdet_next_exact A Hwf Hnl cfg h U at_ s b pos s' ltac:(lia) Hb Hx Hm Hd) as [Hx' Hdm].
      destruct (pdet_next_ids s b s' Hd) as [Hids _]. rewrite Hm in Hids. cbn [andb] in Hids.
      rewrite Hdm in H. apply (IH s' (S pos) e) in H; auto; try lia.
      intros Heq. rewrite Hids. apply phaseA_at_s0; auto. lia.
  Qed.
End Leftmost.

(* ------------------------------------------------------------------ THEOREMS *)
Definition bytes_ok (h : hay) : Prop := Forall (fun b => (b < 256)%N) h.

(* 1. IsMatchAt (searchEarliestMatch): the DFA answer is the reference answer *)
Theorem p_is_match_correct (A : nfa) (cfg : dconfig) (h : hay) (at_ : nat) (r : bool) :
  wf_nfa A = true -> no_look A = true -> prefix_ok A = true -> bytes_ok h ->
  at_ <= length h ->
  p_is_match_at A cfg h at_ = RDfa r -> r = ref_bool A h at_.
Proof. intros Hwf Hnl Hpre Hb. apply p_is_match_correct_; assumption. Qed.

Corollary p_is_match_is_ref (A : nfa) (cfg : dconfig) (h : hay) (r : bool) :
  wf_nfa A = true -> no_look A = true -> prefix_ok A = true -> bytes_ok h ->
  p_is_match_at A cfg h 0 = RDfa r -> is_match_ref A h = Done r.
Proof.
  intros Hwf Hnl Hpre Hb H.
  apply (p_is_match_correct A cfg h 0 r Hwf Hnl Hpre Hb (Nat.le_0_l _)) in H. subst r.
  unfold is_match_ref, ref_bool. destruct (find_at A h 0) as [|[x|]] eqn:E; try reflexivity.
  exfalso. now apply (find_at_total A h Hwf 0).
Qed.

(* 2. SearchAt / FindAt (searchAt): no match reported iff the reference finds none *)
Theorem p_search_at_none_iff (A : nfa) (cfg : dconfig) (h : hay) (at_ : nat) (o : option nat) :
  wf_nfa A = true -> no_look A = true -> prefix_ok A = true -> bytes_ok h ->
  p_search_at A cfg h at_ = RDfa o -> (o = None <-> find_at A h at_ = Done None).
Proof. intros Hwf Hnl Hpre Hb. apply p_search_at_none_iff_; assumption. Qed.

(* 3. a reported end is the end of an accepting path from some start >= at_ *)
Theorem p_search_at_end_sound (A : nfa) (cfg : dconfig) (h : hay) (at_ e : nat) :
  wf_nfa A = true -> no_look A = true -> prefix_ok A = true -> bytes_ok h ->
  p_search_at A cfg h at_ = RDfa (Some e) ->
  exists s, at_ <= s /\ s <= e /\ e <= length h /\ nfa_path A h (start_anch A) s e.
Proof. intros Hwf Hnl Hpre Hb. apply p_search_at_end_sound_; assumption. Qed.

(* 4. SearchAtAnchored *)
Theorem p_search_anchored_none_iff (A : nfa) (cfg : dconfig) (h : hay) (at_ : nat) (o : option nat) :
  wf_nfa A = true -> no_look A = true -> at_ <= length h ->
  p_search_anchored A cfg h at_ = RDfa o ->
  (o = None <-> forall e, ~ nfa_path A h (start_anch A) at_ e).
Proof. intros Hwf Hnl. apply p_search_anchored_none_iff_; assumption. Qed.

Theorem p_search_anchored_end_sound (A : nfa) (cfg : dconfig) (h : hay) (at_ e : nat) :
  wf_nfa A = true -> no_look A = true ->
  p_search_anchored A cfg h at_ = RDfa (Some e) ->
  at_ <= e /\ e <= length h /\ nfa_path A h (start_anch A) at_ e.
Proof. intros Hwf Hnl. apply p_search_anchored_end_sound_; assumption. Qed.

(* 5. with break-at-match (Config.BreakAtMatch, the default of the forward DFA) the reported end
   is the end of an accepting path from the LEFTMOST start, the start the reference reports.
   (Which of the ends of that start is reported -- the priority order inside one start -- is
   not covered: "partial".) *)
Theorem p_search_at_leftmost_partial (A : nfa) (cfg : dconfig) (h : hay) (at_ e s0 e0 : nat) (sl : slots) :
  wf_nfa A = true -> no_look A = true -> prefix_ok A = true -> bytes_ok h ->
  cfg_break cfg = true ->
  p_search_at A cfg h at_ = RDfa (Some e) ->
  find_at A h at_ = Done (Some (s0, e0, sl)) ->
  nfa_path A h (start_anch A) s0 e.
Proof.
  intros Hwf Hnl Hpre Hb Hbrk H Hf.
  destruct (find_at_some A h Hwf _ _ _ _ Hf) as [H1 [H2 [H3 [H4 H5]]]].
  destruct (prefix_shape A Hpre) as [r [HU [Hr _]]].
  apply (p_search_at_cases A Hwf Hnl cfg h Hpre) in H as [[_ H]|[[Ha H]|[Ha H]]]; [discriminate| |].
  - destruct (p_matches_empty_at A cfg h at_) eqn:Hm; [|discriminate]. inversion H; subst e. subst at_.
    assert (s0 = length h) by lia. subst s0. apply (emp_path A Hwf Hnl). now apply (matches_empty_at_iff A Hwf Hnl cfg h).
  - assert (Hleft : forall s e', at_ <= s < s0 -> ~ nfa_path A h (start_anch A) s e') by (intros s e' Hs; exact (H5 s Hs e')).
    assert (Hs0 : s0 <= length h) by lia.
    apply (run0 A Hwf Hnl cfg Hbrk h Hb r HU Hr at_ s0 e0 H1 Hs0 Hleft H4 (p_fuel h) (pstart A (kind_at h at_) false) at_ e); auto.
    + unfold p_fuel. lia.
    + apply (pstart_exact A Hwf Hnl h (kind_at h at_) false at_). lia.
    + intros Heq. eapply phaseA_at_start; eauto.
Qed.

(* without break-at-match (the configuration of the reverse DFAs) the forward search keeps
   running after the first match and reports an end that belongs to a LATER start:
   ab|bcd on "abcd" gives 4, the reference gives [0,2) *)
Definition nb_nfa : nfa :=
  mkNfa [SByteRange 97 97 1; SByteRange 98 98 6; SByteRange 98 98 3; SByteRange 99 99 4;
         SByteRange 100 100 6; SSplit 0 2; SMatch; SByteRange 0 255 8; SSplit 5 7] 5 8 1.
Definition nb_cfg (brk : bool) : dconfig := mkCfg 1000 5 1000 brk 1 [(255%N, 0)] false false false false.

Lemma p_search_at_nobreak_not_leftmost :
  wf_nfa nb_nfa = true /\ no_look nb_nfa = true /\ prefix_ok nb_nfa = true /\
  p_search_at nb_nfa (nb_cfg false) [97; 98; 99; 100]%N 0 = RDfa (Some 4) /\
  p_search_at nb_nfa (nb_cfg true) [97; 98; 99; 100]%N 0 = RDfa (Some 2) /\
  ref_end nb_nfa [97; 98; 99; 100]%N 0 = Some 2.
Proof. vm_compute. repeat split. Qed.

Print Assumptions p_is_match_correct.
Print Assumptions p_is_match_is_ref.
Print Assumptions p_search_at_none_iff.
Print Assumptions p_search_at_end_sound.
Print Assumptions p_search_anchored_none_iff.
Print Assumptions p_search_anchored_end_sound.
Print Assumptions p_search_at_leftmost_partial.

(* the default unanchored start list (StartText) contains a Match state only if the pattern
   matches the empty haystack *)
Theorem start_match_empty (A : nfa) :
  wf_nfa A = true -> no_look A = true -> prefix_ok A = true ->
  contains_match A (d_ids (pstart A KText false)) = true -> ref_bool A [] 0 = true.
Proof.
  intros Hwf Hnl Hpre Hm. destruct (prefix_shape A Hpre) as [r [HU [Hr _]]].
  apply contains_match_iff in Hm as [m [Hin Hmm]].
  pose proof (pstart_exact A Hwf Hnl [] KText false 0 (Nat.le_0_l _)) as Hx. cbv iota in Hx.
  apply Hx in Hin. destruct (un_sound A Hwf Hnl r HU Hr [] 0 _ Hin) as [_ Hc]. cbn [fst snd] in Hc.
  destruct Hc as [->|[->|[s [Hs Hrs]]]].
  - rewrite HU in Hmm. discriminate.
  - rewrite Hr in Hmm. discriminate.
  - apply (ref_bool_iff A Hwf Hnl). exists s, 0. split; [cbn [length]; lia|]. exists m. split; [exact Hrs|exact Hmm].
Qed.
Print Assumptions start_match_empty.

(* the NFA fallback of SearchAtAnchored (lazy.go: nfaFallbackAnchored): the reference search from
   at_, accepted only if the match it finds starts at at_ *)
Theorem anch_fallback_none_iff (A : nfa) (h : hay) (at_ : nat) :
  wf_nfa A = true -> at_ <= length h ->
  (anch_fallback A h at_ = None <-> forall e, ~ nfa_path A h (start_anch A) at_ e).
Proof.
  intros Hwf Hat. unfold anch_fallback.
  destruct (find_at A h at_) as [|[[[s e] sl]|]] eqn:E.
  - exfalso. now apply (find_at_total A h Hwf at_).
  - destruct (find_at_some A h Hwf _ _ _ _ E) as [H1 [H2 [H3 [H4 H5]]]].
    destruct (Nat.eqb_spec s at_) as [->|Hne].
    + split; [discriminate|]. intros Hn. exfalso. exact (Hn e H4).
    + split; [intros _|reflexivity]. intros e'. apply (H5 at_). lia.
  - split; [intros _|reflexivity]. intros e'. apply (find_at_none A h Hwf at_ E at_). lia.
Qed.

Theorem anch_fallback_end_sound (A : nfa) (h : hay) (at_ e : nat) :
  wf_nfa A = true -> anch_fallback A h at_ = Some e ->
  at_ <= e /\ e <= length h /\ nfa_path A h (start_anch A) at_ e.
Proof.
  intros Hwf. unfold anch_fallback.
  destruct (find_at A h at_) as [|[[[s e1] sl]|]] eqn:E; try discriminate.
  destruct (find_at_some A h Hwf _ _ _ _ E) as [H1 [H2 [H3 [H4 _]]]].
  destruct (Nat.eqb_spec s at_) as [->|Hne]; [|discriminate].
  intros H. inversion H; subst e1. repeat split; try lia. exact H4.
Qed.
Print Assumptions anch_fallback_none_iff.
Print Assumptions anch_fallback_end_sound.
