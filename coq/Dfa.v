(* Dfa.v — executable model of the lazy DFA of coregex (dfa/lazy/ *.go): determinisation on
   demand (builder.go), start states per look-behind context (start.go), the state cache with
   byte-accounted capacity, clears and the NFA-fallback rule (cache.go, lazy.go:determinize /
   tryClearCache / getStartState), and the search loops lazy.go exposes:
     FindAt / SearchAt (searchAt), SearchFirstAt (searchFirstAt), SearchAtAnchored,
     IsMatch / IsMatchAt (searchEarliestMatch), SearchReverse / IsMatchReverse (Section Reverse).
   The prefilter is nil in every DFA built by CompileWithConfig (builder.go:buildPrefilter
   returns nil), so the prefilter branches are not modelled.  The NFA fallback (d.pikevm) is
   modelled by the reference search Nfa.find_at (PikeVM = reference is the subject of Pike.v).

   Layers:
     P  pure determinisation and cache-free searches (prefix p_): every transition is computed by
        `pdet`, no acceleration.
     C  the cache machine (prefix c_): slots, rows of tagged ids, start table, memory accounting,
        clears, acceleration detection, the 4x-unrolled loops, the start-state fast transition.
   Theorems are in DfaCache.v (C = P under the cache invariant) and DfaRef.v (P = reference).
   The case checker at the end replays observed call histories of the real lazy.DFA. *)
From Coq Require Import List NArith ZArith Lia Bool Arith PeanoNat.
From CV Require Import Nfa Pike.
Import ListNotations.

(* ------------------------------------------------------------------ look sets *)
(* dfa/lazy/look.go: type LookSet *)
Record lookset := mkLS { ls_st : bool; ls_et : bool; ls_sl : bool; ls_el : bool; ls_wb : bool; ls_nwb : bool }.

(* dfa/lazy/look.go: LookSet.Contains *)
Definition ls_has (s : lookset) (l : look) : bool :=
  match l with
  | LStartText => ls_st s | LEndText => ls_et s | LStartLine => ls_sl s
  | LEndLine => ls_el s | LWordB => ls_wb s | LNoWordB => ls_nwb s
  end.

Definition ls_none : lookset := mkLS false false false false false false.
Definition ls_start_line : lookset := mkLS false false true false false false.
Definition ls_end_line : lookset := mkLS false false false true false false.
(* dfa/lazy/look.go: LookSetForEOI *)
Definition ls_eoi : lookset := mkLS false true false true false false.

(* dfa/lazy/start.go: type StartKind *)
Inductive skind := KNonWord | KWord | KText | KLineLF | KLineCR.

(* dfa/lazy/start.go: initByteMap *)
Definition kind_of_byte (b : N) : skind :=
  if (b =? 10)%N then KLineLF else if (b =? 13)%N then KLineCR
  else if is_word_byte b then KWord else KNonWord.

(* dfa/lazy/look.go: LookSetFromStartKind *)
Definition look_of_kind (k : skind) : lookset :=
  match k with
  | KText => mkLS true false true false false false
  | KLineLF => ls_start_line
  | _ => ls_none
  end.

Definition kind_idx (k : skind) : nat :=
  match k with KNonWord => 0 | KWord => 1 | KText => 2 | KLineLF => 3 | KLineCR => 4 end.

(* ------------------------------------------------------------------ state sets *)
Definition memb (q : nat) (l : list nat) : bool := existsb (Nat.eqb q) l.

Definition st_at (A : nfa) (q : nat) : option nstate := nth_error (states A) q.

(* dfa/lazy/builder.go: epsilonClosureInto, the switch: states pushed by the popped state,
   listed top of stack first (Split pushes right, then left). *)
Definition eps_push (A : nfa) (lh : lookset) (q : nat) : list nat :=
  match st_at A q with
  | Some (SEpsilon n) => [n]
  | Some (SSplit l r) => [l; r]
  | Some (SLook lk n) => if ls_has lh lk then [n] else []
  | Some (SCapture _ _ n) => [n]
  | _ => []
  end.

(* dfa/lazy/builder.go: epsilonClosureInto, the loop (add on pop; result in insertion order) *)
Fixpoint closure_loop (fuel : nat) (A : nfa) (lh : lookset) (stack res : list nat) {struct fuel} : list nat :=
  match fuel with
  | 0 => res
  | S f =>
      match stack with
      | [] => res
      | q :: st =>
          if memb q res then closure_loop f A lh st res
          else closure_loop f A lh (eps_push A lh q ++ st) (res ++ [q])
      end
  end.

Definition closure_fuel (A : nfa) : nat := 2 * nstates A + 2.

(* dfa/lazy/builder.go: epsilonClosureInto *)
Definition closure_into (A : nfa) (lh : lookset) (res : list nat) (seed : nat) : list nat :=
  closure_loop (closure_fuel A) A lh [seed] res.

(* dfa/lazy/builder.go: epsilonClosure *)
Definition closure (A : nfa) (lh : lookset) (seeds : list nat) : list nat :=
  fold_left (closure_into A lh) seeds [].

Definition is_match_id (A : nfa) (q : nat) : bool :=
  match st_at A q with Some SMatch => true | _ => false end.

(* dfa/lazy/builder.go: containsMatchState; lazy.go: containsNFAMatch *)
Definition contains_match (A : nfa) (ids : list nat) : bool := existsb (is_match_id A) ids.

(* dfa/lazy/state.go: sortStateIDs applied to a StateSet (no duplicates) *)
Fixpoint ins_sorted (x : nat) (l : list nat) : list nat :=
  match l with
  | [] => [x]
  | y :: t => if x <? y then x :: l else if x =? y then l else y :: ins_sorted x t
  end.
Definition sort_ids (l : list nat) : list nat := fold_right ins_sorted [] l.

(* dfa/lazy/builder.go: resolveWordBoundaries, the test on a Look state *)
Definition wb_next (A : nfa) (sat : bool) (q : nat) : option nat :=
  match st_at A q with
  | Some (SLook LWordB n) => if sat then Some n else None
  | Some (SLook LNoWordB n) => if sat then None else Some n
  | _ => None
  end.

(* phase 1: word-boundary looks among the input states *)
Fixpoint wb_seed (A : nfa) (sat : bool) (ids crossed : list nat) : list nat :=
  match ids with
  | [] => crossed
  | q :: t =>
      match wb_next A sat q with
      | Some n => if memb n crossed then wb_seed A sat t crossed else wb_seed A sat t (crossed ++ [n])
      | None => wb_seed A sat t crossed
      end
  end.

(* phase 2: what a crossed state leads to *)
Definition wb_succ (A : nfa) (sat : bool) (q : nat) : list nat :=
  match st_at A q with
  | Some (SLook _ _) => match wb_next A sat q with Some n => [n] | None => [] end
  | Some (SEpsilon n) => [n]
  | Some (SSplit l r) => [l; r]
  | Some (SCapture _ _ n) => [n]
  | _ => []
  end.

Fixpoint add_new (xs crossed stack : list nat) : list nat * list nat :=
  match xs with
  | [] => (crossed, stack)
  | x :: t => if memb x crossed then add_new t crossed stack else add_new t (crossed ++ [x]) (x :: stack)
  end.

Fixpoint wb_loop (fuel : nat) (A : nfa) (sat : bool) (stack crossed : list nat) {struct fuel} : list nat :=
  match fuel with
  | 0 => crossed
  | S f =>
      match stack with
      | [] => crossed
      | q :: st => let '(c2, st2) := add_new (wb_succ A sat q) crossed st in wb_loop f A sat st2 c2
      end
  end.

(* dfa/lazy/builder.go: resolveWordBoundaries.  The unchanged input (same order) when no
   assertion is crossed, otherwise the SORTED union (StateSet.ToSlice). *)
Definition resolve_wb (A : nfa) (ids : list nat) (sat : bool) : list nat :=
  let seed := wb_seed A sat ids [] in
  match seed with
  | [] => ids
  | _ => sort_ids (ids ++ wb_loop (nstates A + 1) A sat (rev seed) seed)
  end.

Definition is_look_wb (st : nstate) : bool :=
  match st with SLook LWordB _ | SLook LNoWordB _ => true | _ => false end.
Definition is_look_el (st : nstate) : bool :=
  match st with SLook LEndLine _ => true | _ => false end.
(* dfa/lazy/builder.go: checkHasWordBoundary / checkHasEndLine *)
Definition has_wb (A : nfa) : bool := existsb is_look_wb (states A).
Definition has_endline (A : nfa) : bool := existsb is_look_el (states A).
Definition is_look (st : nstate) : bool := match st with SLook _ _ => true | _ => false end.
Definition no_look (A : nfa) : bool := negb (existsb is_look (states A)).

(* targets of state q on byte b (ByteRange: the one target; Sparse: every matching range) *)
Definition byte_targets (A : nfa) (q : nat) (b : N) : list nat :=
  match st_at A q with
  | Some (SByteRange lo hi n) => if in_range lo hi b then [n] else []
  | Some (SSparse trs) => map (fun t => snd t) (filter (fun t => in_range (fst (fst t)) (snd (fst t)) b) trs)
  | _ => []
  end.

(* dfa/lazy/builder.go: moveWithWordContextBreak, the loop over resolvedStates *)
Fixpoint move_loop (A : nfa) (lh : lookset) (brk : bool) (b : N) (ids res : list nat) : list nat :=
  match ids with
  | [] => res
  | q :: t =>
      if brk && is_match_id A q then res
      else move_loop A lh brk b t (fold_left (closure_into A lh) (byte_targets A q b) res)
  end.

(* dfa/lazy/builder.go: moveWithWordContextBreak *)
Definition move_break (A : nfa) (ids : list nat) (b : N) (from_word brk : bool) : list nat :=
  let resolved := if has_wb A then resolve_wb A ids (negb (eqb from_word (is_word_byte b))) else ids in
  let lh := if (b =? 10)%N then ls_start_line else ls_none in
  move_loop A lh brk b resolved [].

(* ------------------------------------------------------------------ DFA states *)
(* dfa/lazy/state.go: type State (the fields that determine behaviour) *)
Record dstate := mkD { d_ids : list nat; d_fw : bool; d_match : bool; d_mwb : bool; d_mnwb : bool }.

(* dfa/lazy/config.go: Config (CacheCapacityBytes / MaxStates folded by effectiveCapacityBytes)
   plus the byte classes of the NFA (nfa/alphabet.go) as runs (last byte of the run, class).
   The last two fields are NOT Go configuration: they select the ORIGINAL variants of two
   functions repaired in /repo (all false = the current code):
     cfg_sorted_key   before 33a0339 the determinizer keyed the cache by the SORTED id set
     cfg_loose_accel  before fd804d1 the loops used DetectAccelerationFromFlat
     cfg_old_entry    before bde2710 a search starting at len(haystack) was answered by
                      matchesEmpty (the EMPTY haystack) and the NFA fallback of SearchAtAnchored
                      was the unanchored search; before ce6ce59 getStartState returned a start
                      state without id when the cache was full
     cfg_accel_no_eoi before edee2be searchAt / searchEarliestMatch returned lastMatch / false when
                      memchr found no exit byte, without the end-of-input check *)
Record dconfig := mkCfg {
  cfg_cap : nat; cfg_max_clears : nat; cfg_det_limit : nat; cfg_break : bool;
  cfg_stride : nat; cfg_classes : list (N * nat);
  cfg_sorted_key : bool; cfg_loose_accel : bool; cfg_old_entry : bool; cfg_accel_no_eoi : bool }.

(* dfa/lazy/state.go: computeOrderedStateKey — the hash of (flags, ids IN ORDER); the original
   ComputeStateKeyWithWordAndMatch hashed the sorted ids.  Hash collisions are not modelled. *)
Definition dkey := (list nat * bool * bool)%type.
Definition key_of (cfg : dconfig) (d : dstate) : dkey :=
  ((if cfg_sorted_key cfg then sort_ids (d_ids d) else d_ids d), d_fw d, d_match d).

Fixpoint list_eqb (a b : list nat) : bool :=
  match a, b with
  | [], [] => true
  | x :: a', y :: b' => (x =? y) && list_eqb a' b'
  | _, _ => false
  end.
Definition key_eqb (a b : dkey) : bool :=
  list_eqb (fst (fst a)) (fst (fst b)) && eqb (snd (fst a)) (snd (fst b)) && eqb (snd a) (snd b).

(* nfa/alphabet.go: ByteClasses.Get *)
Fixpoint class_of_runs (runs : list (N * nat)) (b : N) : nat :=
  match runs with
  | [] => 0
  | (hi, c) :: t => if (b <=? hi)%N then c else class_of_runs t b
  end.
Definition class_of (cfg : dconfig) (b : N) : nat := class_of_runs (cfg_classes cfg) b.

(* dfa/lazy/builder.go: detectAccelFromTransitions, "first byte that maps to this class" *)
Fixpoint class_rep_runs (runs : list (N * nat)) (lo : N) (c : nat) : option N :=
  match runs with
  | [] => None
  | (hi, c') :: t => if c' =? c then Some lo else class_rep_runs t (hi + 1)%N c
  end.
Definition class_rep (cfg : dconfig) (c : nat) : option N := class_rep_runs (cfg_classes cfg) 0%N c.

(* dfa/lazy/start.go: ComputeStartStateWithStride *)
Definition pstart (A : nfa) (k : skind) (anchored : bool) : dstate :=
  let s := if anchored then start_anch A else start_unanch A in
  mkD (closure A (look_of_kind k) [s]) (match k with KWord => true | _ => false end) false false false.

Inductive dres := DDead | DLimit | DNext (s : dstate).

(* dfa/lazy/lazy.go: determinize, up to the cache lookup *)
Definition pdet (A : nfa) (cfg : dconfig) (cur : dstate) (b : N) : dres :=
  let cur_ids := if has_endline A && (b =? 10)%N then closure A ls_end_line (d_ids cur) else d_ids cur in
  let src_match := contains_match A cur_ids in
  let brk := src_match && cfg_break cfg in
  let next := move_break A cur_ids b (d_fw cur) brk in
  if (length next =? 0) && negb src_match then DDead
  else if cfg_det_limit cfg <? length next then DLimit
  else
    (* only a match that the assertion ADDS counts (8fdf457) *)
    let wbf := has_wb A && negb src_match && negb (contains_match A next) in
    DNext (mkD next (is_word_byte b) src_match
               (wbf && contains_match A (resolve_wb A next true))
               (wbf && contains_match A (resolve_wb A next false))).

(* dfa/lazy/builder.go: CheckEOIMatch *)
Definition eoi_match (A : nfa) (d : dstate) : bool :=
  contains_match A (closure A ls_eoi (resolve_wb A (d_ids d) (d_fw d))).

(* dfa/lazy/state.go: checkWordBoundaryFast *)
Definition wb_fast (d : dstate) (b : N) : bool :=
  if d_match d then false
  else if negb (eqb (d_fw d) (is_word_byte b)) then d_mwb d else d_mnwb d.

(* dfa/lazy/lazy.go: checkWordBoundaryMatch *)
Definition wb_slow (A : nfa) (d : dstate) (b : N) : bool :=
  if d_match d then false
  else if contains_match A (d_ids d) then false
  else contains_match A (resolve_wb A (d_ids d) (negb (eqb (d_fw d) (is_word_byte b)))).

(* ------------------------------------------------------------------ results *)
(* the outcome of a DFA loop: an answer computed by the DFA, or "give up": the caller runs
   the NFA fallback *)
Inductive out (T : Type) := RDfa (r : T) | RFallback.
Arguments RDfa {T} r.
Arguments RFallback {T}.

Definition kind_at (h : hay) (pos : nat) : skind :=
  match pos with
  | 0 => KText
  | S p => match nth_error h p with Some b => kind_of_byte b | None => KNonWord end
  end.

(* nfa/nfa.go: IsAlwaysAnchored *)
Definition always_anchored (A : nfa) : bool := start_anch A =? start_unanch A.

(* nfa/compile.go: compileUnanchoredPrefix — the shape of the unanchored start the compiler
   emits for a pattern that is not always anchored: Split(pattern start, any byte -> the split) *)
Definition prefix_ok (A : nfa) : bool :=
  match st_at A (start_unanch A) with
  | Some (SSplit l r) =>
      (l =? start_anch A) && negb (start_anch A =? start_unanch A) &&
      match st_at A r with
      | Some (SByteRange lo hi n) => (lo =? 0)%N && (hi =? 255)%N && (n =? start_unanch A)
      | _ => false
      end
  | _ => false
  end.

(* the NFA fallback: d.pikevm.SearchAt(haystack, startPos), modelled by the reference *)
Definition ref_end (A : nfa) (h : hay) (at_ : nat) : option nat :=
  match find_at A h at_ with Done (Some (_, e, _)) => Some e | _ => None end.
Definition ref_bool (A : nfa) (h : hay) (at_ : nat) : bool :=
  match find_at A h at_ with Done (Some _) => true | _ => false end.

(* ------------------------------------------------------------------ layer P: pure searches *)
Section Pure.
  Variable A : nfa.
  Variable cfg : dconfig.
  Variable h : hay.

  (* the common shape of SearchAtAnchored / searchAt without cache: word-boundary shortcut,
     transition, delayed match, end of input.  wbf selects the shortcut test (searchAt uses
     checkWordBoundaryMatch, the other loops checkWordBoundaryFast). *)
  Fixpoint p_loop (wbslow : bool) (fuel : nat) (s : dstate) (pos : nat) (last : option nat) : out (option nat) :=
    match fuel with
    | 0 => RDfa last
    | S f =>
        match nth_error h pos with
        | None => RDfa (if eoi_match A s then Some (length h) else last)
        | Some b =>
            if has_wb A && (if wbslow then wb_slow A s b else wb_fast s b) then RDfa (Some pos)
            else
              match pdet A cfg s b with
              | DDead => RDfa last
              | DLimit => RFallback
              | DNext s' => p_loop wbslow f s' (S pos) (if d_match s' then Some pos else last)
              end
        end
    end.

  (* searchFirstAt: returns at the first delayed match *)
  Fixpoint p_first_loop (fuel : nat) (s : dstate) (pos : nat) : out (option nat) :=
    match fuel with
    | 0 => RDfa None
    | S f =>
        match nth_error h pos with
        | None => RDfa (if eoi_match A s then Some (length h) else None)
        | Some b =>
            if has_wb A && wb_fast s b then RDfa (Some pos)
            else
              match pdet A cfg s b with
              | DDead => RDfa None
              | DLimit => RFallback
              | DNext s' => if d_match s' then RDfa (Some pos) else p_first_loop f s' (S pos)
              end
        end
    end.

  (* searchEarliestMatch *)
  Fixpoint p_earliest_loop (fuel : nat) (s : dstate) (pos : nat) : out bool :=
    match fuel with
    | 0 => RDfa false
    | S f =>
        match nth_error h pos with
        | None => RDfa (eoi_match A s)
        | Some b =>
            if has_wb A && wb_fast s b then RDfa true
            else
              match pdet A cfg s b with
              | DDead => RDfa false
              | DLimit => RFallback
              | DNext s' => if d_match s' then RDfa true else p_earliest_loop f s' (S pos)
              end
        end
    end.

  Definition p_fuel : nat := S (length h).

  (* lazy.go: matchesEmpty — "the pattern matches the empty haystack" *)
  Definition p_matches_empty : bool := ref_bool A [] 0.

  (* lazy.go: matchesEmptyAt for at > 0: d.pikevm.SearchAt(haystack, at) matched && end == at *)
  Definition empty_at (at_ : nat) : bool :=
    match find_at A h at_ with Done (Some (_, e, _)) => e =? at_ | _ => false end.

  (* lazy.go: matchesEmptyAt (before bde2710: matchesEmpty whatever the position) *)
  Definition p_matches_empty_at (at_ : nat) : bool :=
    if cfg_old_entry cfg || (at_ =? 0) then p_matches_empty else empty_at at_.

  (* lazy.go: SearchAtAnchored on an unbounded cache *)
  Definition p_search_anchored (at_ : nat) : out (option nat) :=
    if length h <? at_ then RDfa None
    else if at_ =? length h then RDfa (if p_matches_empty_at at_ then Some at_ else None)
    else p_loop false p_fuel (pstart A (kind_at h at_) true) at_ None.

  (* lazy.go: SearchAt / FindAt (searchAt) on an unbounded cache *)
  Definition p_search_at (at_ : nat) : out (option nat) :=
    if length h <? at_ then RDfa None
    else if at_ =? length h then RDfa (if p_matches_empty_at at_ then Some at_ else None)
    else if always_anchored A && (0 <? at_) then RDfa None
    else p_loop true p_fuel (pstart A (kind_at h at_) false) at_ None.

  (* lazy.go: SearchFirstAt *)
  Definition p_search_first (at_ : nat) : out (option nat) :=
    if length h <? at_ then RDfa None
    else if at_ =? length h then RDfa (if p_matches_empty_at at_ then Some at_ else None)
    else if always_anchored A && (0 <? at_) then RDfa None
    else p_first_loop p_fuel (pstart A (kind_at h at_) false) at_.

  (* lazy.go: IsMatchAt (IsMatch = IsMatchAt 0) *)
  Definition p_is_match_at (at_ : nat) : out bool :=
    if length h <=? at_ then RDfa ((at_ =? length h) && p_matches_empty_at at_)
    else if always_anchored A && (0 <? at_) then RDfa false
    else p_earliest_loop p_fuel (pstart A (kind_at h at_) false) at_.
End Pure.

(* the answer delivered to the caller: DFA result or NFA fallback (lazy.go: nfaFallback) *)
Definition fin_end (A : nfa) (h : hay) (at_ : nat) (o : out (option nat)) : option nat :=
  match o with RDfa r => r | RFallback => ref_end A h at_ end.
(* lazy.go: nfaFallbackAnchored — the match found from startPos must start there *)
Definition anch_fallback (A : nfa) (h : hay) (at_ : nat) : option nat :=
  match find_at A h at_ with Done (Some (s, e, _)) => if s =? at_ then Some e else None | _ => None end.
Definition fin_end_anch (A : nfa) (cfg : dconfig) (h : hay) (at_ : nat) (o : out (option nat)) : option nat :=
  match o with
  | RDfa r => r
  | RFallback => if cfg_old_entry cfg then ref_end A h at_ else anch_fallback A h at_
  end.
Definition fin_bool (A : nfa) (h : hay) (at_ : nat) (o : out bool) : bool :=
  match o with RDfa r => r | RFallback => ref_bool A h at_ end.

(* ------------------------------------------------------------------ layer C: the cache *)
(* dfa/lazy/state.go: type StateID — the state index (offset / stride) and the tag bits *)
Inductive tid := TInvalid | TDead | TId (idx : nat) (mt st : bool).

Definition tid_eqb (a b : tid) : bool :=
  match a, b with
  | TInvalid, TInvalid | TDead, TDead => true
  | TId i m s, TId j m' s' => (i =? j) && eqb m m' && eqb s s'
  | _, _ => false
  end.

(* StateID.IsTagged *)
Definition tagged (t : tid) : bool := match t with TId _ m s => m || s | _ => true end.
(* StateID.IsMatchTag *)
Definition mtag (t : tid) : bool := match t with TId _ m _ => m | _ => false end.
(* StateID.IsStartTag *)
Definition stag (t : tid) : bool := match t with TId _ _ s => s | _ => false end.
(* StateID.Offset() / stride *)
Definition tidx (t : tid) : nat := match t with TId i _ _ => i | _ => 0 end.

(* a cached State: the determinised content, the start tag of its id, acceleration
   (None = not checked yet, Some [] = checked, not accelerable) and its row of flatTrans *)
Record cstate := mkCS { cs_d : dstate; cs_stag : bool; cs_accel : option (list N); cs_row : list tid }.

(* dfa/lazy/cache.go: type DFACache.  c_slots = stateList (slot 0 is nil until the first
   clear); the states map is the set of filled slots keyed by key_of; flatTrans has
   stride * len(stateList) entries; c_stab = startTable.states, index 5*anchored + kind *)
Record cache := mkCache { c_slots : list (option cstate); c_clears : nat; c_stab : list tid }.

(* lazy.go: NewCache *)
Definition new_cache : cache := mkCache [] 0 (repeat TInvalid 10).

Section Cached.
  Variable A : nfa.
  Variable cfg : dconfig.

  Definition stride := cfg_stride cfg.

  Definition slot (c : cache) (i : nat) : option cstate :=
    match nth_error (c_slots c) i with Some (Some s) => Some s | _ => None end.

  (* cache.go: getState *)
  Definition get_state (c : cache) (t : tid) : option cstate :=
    match t with TId i _ _ => slot c i | _ => None end.

  Definition accel_len (s : cstate) : nat := match cs_accel s with Some l => length l | None => 0 end.

  (* cache.go: MemoryUsage *)
  Definition mem_usage (c : cache) : nat :=
    let n := length (c_slots c) in
    fold_left (fun acc o => match o with
                            | Some s => acc + 48 + 4 * length (d_ids (cs_d s)) + accel_len s
                            | None => acc end) (c_slots c) (4 * stride * n + 8 * n).

  (* cache.go: Size *)
  Definition cache_size (c : cache) : nat :=
    length (filter (fun o => match o with Some _ => true | None => false end) (c_slots c)).

  Definition is_full (c : cache) : bool := cfg_cap cfg <=? mem_usage c.

  (* cache.go: Get *)
  Fixpoint find_key_from (k : dkey) (l : list (option cstate)) (i : nat) : option nat :=
    match l with
    | [] => None
    | Some s :: t => if key_eqb (key_of cfg (cs_d s)) k then Some i else find_key_from k t (S i)
    | None :: t => find_key_from k t (S i)
    end.
  Definition find_key (c : cache) (k : dkey) : option nat := find_key_from k (c_slots c) 0.

  (* State.ID() of the state in slot i *)
  Definition sid_of (c : cache) (i : nat) : tid :=
    match slot c i with Some s => TId i (d_match (cs_d s)) (cs_stag s) | None => TInvalid end.

  Definition blank_row : list tid := repeat TInvalid stride.

  (* cache.go: Insert (capacity already checked) + registerState of a state without id:
     nextID is index 1 on an empty cache (slot 0 reserved) *)
  Definition push (c : cache) (d : dstate) : cache * nat :=
    let s := Some (mkCS d false None blank_row) in
    match c_slots c with
    | [] => (mkCache [None; s] (c_clears c) (c_stab c), 1)
    | sl => (mkCache (sl ++ [s]) (c_clears c) (c_stab c), length sl)
    end.

  Fixpoint set_nth_tid (l : list tid) (i : nat) (v : tid) : list tid :=
    match l, i with
    | [], _ => []
    | _ :: t, 0 => v :: t
    | x :: t, S i' => x :: set_nth_tid t i' v
    end.

  Fixpoint upd_nth (l : list (option cstate)) (i : nat) (f : cstate -> cstate) : list (option cstate) :=
    match l, i with
    | [], _ => []
    | o :: t, 0 => option_map f o :: t
    | o :: t, S i' => o :: upd_nth t i' f
    end.

  Definition upd_slot (c : cache) (i : nat) (f : cstate -> cstate) : cache :=
    mkCache (upd_nth (c_slots c) i f) (c_clears c) (c_stab c).

  (* cache.go: SetFlatTransition *)
  Definition set_row (c : cache) (i cls : nat) (t : tid) : cache :=
    upd_slot c i (fun s => mkCS (cs_d s) (cs_stag s) (cs_accel s) (set_nth_tid (cs_row s) cls t)).

  (* the entry of flatTrans at Offset(sid) + cls, InvalidState when out of range.  Offset of
     InvalidState / DeadState is 0: an id-less state reads row 0. *)
  Definition row_get (c : cache) (t : tid) (cls : nat) : tid :=
    match nth_error (c_slots c) (tidx t) with
    | Some (Some s) => nth cls (cs_row s) TInvalid
    | _ => TInvalid
    end.

  Definition stab_idx (k : skind) (anchored : bool) : nat := (if anchored then 5 else 0) + kind_idx k.

  (* lazy.go: tryClearCache after the MaxCacheClears test: ClearKeepMemory, then the default
     start state (StartText, unanchored) is inserted with id 0 and start-tagged *)
  Definition clear_cache (c : cache) : cache :=
    let d0 := pstart A KText false in
    mkCache [Some (mkCS d0 true None blank_row)] (S (c_clears c))
            (set_nth_tid (repeat TInvalid 10) (stab_idx KText false) (TId 0 false true)).

  Inductive zres := ZDead | ZErr | ZNext (t : tid).

  (* lazy.go: determinize.  cur = index of the current state *)
  Definition dz (c : cache) (cur : nat) (b : N) : cache * zres :=
    match slot c cur with
    | None => (c, ZErr)
    | Some cs =>
        let cls := class_of cfg b in
        match pdet A cfg (cs_d cs) b with
        | DDead => (set_row c cur cls TDead, ZDead)
        | DLimit => (c, ZErr)
        | DNext ns =>
            let k := key_of cfg ns in
            match find_key c k with
            | Some j => (set_row c cur cls (sid_of c j), ZNext (sid_of c j))
            | None =>
                if is_full c then
                  if cfg_max_clears cfg <=? c_clears c then (c, ZErr)
                  else
                    let c1 := clear_cache c in
                    (* re-insert the current state *)
                    let r :=
                      match find_key c1 (key_of cfg (cs_d cs)) with
                      | Some j0 => Some (c1, j0)
                      | None => if is_full c1 then None else Some (push c1 (cs_d cs))
                      end in
                    match r with
                    | None => (c1, ZErr)
                    | Some (c2, j0) =>
                        match find_key c2 k with
                        | Some j => (set_row c2 j0 cls (sid_of c2 j), ZNext (sid_of c2 j))
                        | None =>
                            if is_full c2 then (c2, ZErr)
                            else let '(c3, j) := push c2 ns in
                                 (set_row c3 j0 cls (sid_of c3 j), ZNext (sid_of c3 j))
                        end
                    end
                else
                  let '(c1, j) := push c ns in
                  (set_row c1 cur cls (sid_of c1 j), ZNext (sid_of c1 j))
            end
        end
    end.

  (* ---------------- start states: lazy.go:getStartState *)
  Definition mark_start (c : cache) (j : nat) (k : skind) (anch : bool) : cache :=
    let c1 := upd_slot c j (fun s => mkCS (cs_d s) true (cs_accel s) (cs_row s)) in
    mkCache (c_slots c1) (c_clears c1) (set_nth_tid (c_stab c1) (stab_idx k anch) (sid_of c1 j)).

  (* lazy.go: getStartState / getStartStateForReverse.  None: nil is returned, the caller runs
     the NFA fallback.  When the cache is full the current code (ce6ce59) clears it once and
     inserts the start state into the fresh cache; the ORIGINAL code (cfg_old_entry) returned the
     computed state without id (Some TInvalid): "search can continue" — on row 0. *)
  Definition insert_start (c : cache) (d : dstate) (k : skind) (anch : bool) : option (cache * tid) :=
    match find_key c (key_of cfg d) with
    | Some j => let c1 := mark_start c j k anch in Some (c1, sid_of c1 j)
    | None =>
        if is_full c then None
        else let '(c1, j) := push c d in
             let c2 := mark_start c1 j k anch in Some (c2, sid_of c2 j)
    end.

  Definition get_start_k (c : cache) (k : skind) (anch : bool) : cache * option tid :=
    match nth (stab_idx k anch) (c_stab c) TInvalid with
    | TInvalid =>
        let d := pstart A k anch in
        match insert_start c d k anch with
        | Some (c1, t) => (c1, Some t)
        | None =>
            if cfg_old_entry cfg then (c, Some TInvalid)
            else if cfg_max_clears cfg <=? c_clears c then (c, None)
            else
              let c1 := clear_cache c in
              match insert_start c1 d k anch with
              | Some (c2, t) => (c2, Some t)
              | None => (c1, None)
              end
        end
    | t => (c, match get_state c t with Some _ => Some (sid_of c (tidx t)) | None => None end)
    end.

  Definition get_start (c : cache) (h : hay) (pos : nat) (anch : bool) : cache * option tid :=
    get_start_k c (kind_at h pos) anch.

  (* ---------------- acceleration: builder.go:detectAccelFromTransitions over the flat row *)
  Definition is_invalid (t : tid) : bool := match t with TInvalid => true | _ => false end.
  Definition is_dead (t : tid) : bool := match t with TDead => true | _ => false end.

  Fixpoint exit_classes (self : tid) (row : list tid) (i : nat) : list nat :=
    match row with
    | [] => []
    | t :: r =>
        if is_invalid t || tid_eqb t self || is_dead t then exit_classes self r (S i)
        else i :: exit_classes self r (S i)
    end.

  Fixpoint reps_of (cls : list nat) : list N :=
    match cls with
    | [] => []
    | c :: t => match class_rep cfg c with Some b => b :: reps_of t | None => reps_of t end
    end.

  (* builder.go: detectAccelFromTransitions — the ORIGINAL detection of the loops (before fd804d1) *)
  Definition detect_accel_loose (c : cache) (i : nat) : list N :=
    match slot c i with
    | None => []
    | Some s =>
        let row := firstn stride (cs_row s) in
        let cached := length (filter (fun t => negb (is_invalid t)) row) in
        if cached <? Nat.max 1 (stride - stride / 16) then []
        else if Nat.max 1 (stride / 16) <? stride - cached then []
        else
          let ex := exit_classes (sid_of c i) row 0 in
          if (1 <=? length ex) && (length ex <=? 3) then reps_of ex else []
    end.

  (* classes whose transition leaves the state (the dead state included) *)
  Fixpoint leave_classes (self : tid) (row : list tid) (i : nat) : list nat :=
    match row with
    | [] => []
    | t :: r => if tid_eqb t self then leave_classes self r (S i) else i :: leave_classes self r (S i)
    end.

  (* number of bytes of a class *)
  Fixpoint class_size_runs (runs : list (N * nat)) (lo : N) (c : nat) : N :=
    match runs with
    | [] => 0%N
    | (hi, c') :: t => ((if Nat.eqb c' c then hi + 1 - lo else 0) + class_size_runs t (hi + 1) c)%N
    end.
  Definition class_size (c : nat) : N := class_size_runs (cfg_classes cfg) 0%N c.

  (* builder.go: detectSoundAccel — every class cached, every transition that leaves the state
     is an exit, an exit class consists of exactly one byte *)
  Definition detect_accel_sound (c : cache) (i : nat) : list N :=
    match slot c i with
    | None => []
    | Some s =>
        let row := firstn stride (cs_row s) in
        if (length row <? stride) || existsb is_invalid row then []
        else
          let ex := leave_classes (sid_of c i) row 0 in
          if (1 <=? length ex) && (length ex <=? 3) && forallb (fun k => (class_size k =? 1)%N) ex
          then reps_of ex else []
    end.

  Definition detect_accel (c : cache) (i : nat) : list N :=
    if cfg_loose_accel cfg then detect_accel_loose c i else detect_accel_sound c i.

  (* lazy.go: tryDetectAccelerationWithCache *)
  Definition try_detect (c : cache) (i : nat) : cache :=
    match slot c i with
    | Some s =>
        match cs_accel s with
        | None => let a := detect_accel c i in
                  upd_slot c i (fun s => mkCS (cs_d s) (cs_stag s) (Some a) (cs_row s))
        | Some _ => c
        end
    | None => c
    end.

  Definition accel_bytes (c : cache) (t : tid) : list N :=
    match get_state c t with Some s => match cs_accel s with Some l => l | None => [] end | None => [] end.

  (* lazy.go: accelerate (simd.Memchr/2/3 over haystack[pos:]) *)
  Fixpoint find_byte (ex : list N) (l : list N) (p : nat) : option nat :=
    match l with
    | [] => None
    | b :: t => if existsb (N.eqb b) ex then Some p else find_byte ex t (S p)
    end.
  Definition accelerate (h : hay) (pos : nat) (ex : list N) : option nat := find_byte ex (skipn pos h) pos.

  (* ---------------- the loops *)
  Definition byte_at (h : hay) (p : nat) : N := nth p h 0%N.
  Definition lookup (c : cache) (t : tid) (b : N) : tid := row_get c t (class_of cfg b).

  Inductive ustop := UCont | USlow | UMatch.

  (* the 4x-unrolled block of searchAt / searchFirstAt / searchEarliestMatch; UMatch: the tagged
     entry met carries the match tag (only searchEarliestMatch looks at it) *)
  Definition unroll4 (c : cache) (h : hay) (sid : tid) (pos : nat) : tid * nat * ustop :=
    let e := length h in
    let stop (n : tid) := if mtag n then UMatch else USlow in
    let n1 := lookup c sid (byte_at h pos) in
    if tagged n1 then (sid, pos, stop n1) else
    let pos1 := S pos in
    if e <=? pos1 + 2 then (n1, pos1, USlow) else
    let n2 := lookup c n1 (byte_at h pos1) in
    if tagged n2 then (n1, pos1, stop n2) else
    let pos2 := S pos1 in
    if e <=? pos2 + 1 then (n2, pos2, USlow) else
    let n3 := lookup c n2 (byte_at h pos2) in
    if tagged n3 then (n2, pos2, stop n3) else
    let pos3 := S pos2 in
    let n4 := lookup c n3 (byte_at h pos3) in
    if tagged n4 then (n3, pos3, stop n4) else (n4, S pos3, UCont).

  Definition lstate := (tid * nat * option nat)%type.

  Fixpoint drive {R : Type} (dflt : R) (step : cache -> lstate -> cache * (out R + lstate))
           (fuel : nat) (c : cache) (st : lstate) : cache * out R :=
    match fuel with
    | 0 => (c, RDfa dflt)
    | S f =>
        match step c st with
        | (c', inl o) => (c', o)
        | (c', inr st') => drive dflt step f c' st'
        end
    end.

  Definition is_accelerable (c : cache) (t : tid) : bool :=
    match accel_bytes c t with [] => false | _ => true end.

  Definition eoi_of (c : cache) (t : tid) : bool :=
    match get_state c t with Some s => eoi_match A (cs_d s) | None => false end.

  Section Loops.
    Variable h : hay.

    (* transition taken from state sid (index known to be cached) on byte b *)
    Definition take (c : cache) (sid : tid) (b : N) : cache * zres :=
      match lookup c sid b with
      | TInvalid =>
          match get_state c sid with
          | None => (c, ZErr)
          | Some _ => dz c (tidx sid) b
          end
      | TDead => (c, ZDead)
      | t => (c, ZNext t)
      end.

    (* lazy.go: SearchAtAnchored, one iteration *)
    Definition anch_step (c : cache) (st : lstate) : cache * (out (option nat) + lstate) :=
      let '(sid, pos, last) := st in
      if length h <=? pos then (c, inl (RDfa (if eoi_of c sid then Some (length h) else last)))
      else
        let b := byte_at h pos in
        if has_wb A && (match get_state c sid with Some s => wb_fast (cs_d s) b | None => false end)
        then (c, inl (RDfa (Some pos)))
        else
          match take c sid b with
          | (c1, ZErr) => (c1, inl RFallback)
          | (c1, ZDead) => (c1, inl (RDfa last))
          | (c1, ZNext t) => (c1, inr (t, S pos, if mtag t then Some pos else last))
          end.

    (* lazy.go: searchFirstAt, one iteration *)
    Definition first_step (c : cache) (st : lstate) : cache * (out (option nat) + lstate) :=
      let '(sid0, pos0, last) := st in
      if length h <=? pos0 then (c, inl (RDfa (if eoi_of c sid0 then Some (length h) else last)))
      else
        let '(sid, pos, u) :=
          if negb (has_wb A) && (pos0 + 3 <? length h) then unroll4 c h sid0 pos0 else (sid0, pos0, USlow) in
        match u with
        | UCont => (c, inr (sid, pos, last))
        | _ =>
            let b := byte_at h pos in
            if has_wb A && (match get_state c sid with Some s => wb_fast (cs_d s) b | None => false end)
            then (c, inl (RDfa (Some pos)))
            else
              match take c sid b with
              | (c1, ZErr) => (c1, inl RFallback)
              | (c1, ZDead) => (c1, inl (RDfa last))
              | (c1, ZNext t) => if mtag t then (c1, inl (RDfa (Some pos))) else (c1, inr (t, S pos, last))
              end
        end.

    (* lazy.go: searchAt, one iteration *)
    Definition at_step (c : cache) (st : lstate) : cache * (out (option nat) + lstate) :=
      let '(sid0, pos0, last) := st in
      if length h <=? pos0 then (c, inl (RDfa (if eoi_of c sid0 then Some (length h) else last)))
      else
        let '(sid, pos, u) :=
          if negb (has_wb A) && (pos0 + 3 <? length h) then
            if is_accelerable c sid0 then (sid0, pos0, USlow) else unroll4 c h sid0 pos0
          else (sid0, pos0, USlow) in
        match u with
        | UCont => (c, inr (sid, pos, last))
        | _ =>
            (* start state fast transition *)
            let nx := lookup c sid (byte_at h pos) in
            if stag sid && negb (is_invalid nx) && negb (is_dead nx) then
              (c, inr (nx, S pos, if mtag nx then Some pos else last))
            else
              match get_state c sid with
              | None => (c, inl RFallback)
              | Some _ =>
                  let c1 := try_detect c (tidx sid) in
                  let ex := accel_bytes c1 sid in
                  let jump := match ex with [] => Some pos | _ => accelerate h pos ex end in
                  match jump with
                  | None =>
                      (* no exit byte: on to the end-of-input check (edee2be) *)
                      if cfg_accel_no_eoi cfg then (c1, inl (RDfa last))
                      else (c1, inl (RDfa (if eoi_of c1 sid then Some (length h) else last)))
                  | Some pos' =>
                      let b := byte_at h pos' in
                      if has_wb A && (match get_state c1 sid with Some s => wb_slow A (cs_d s) b | None => false end)
                      then (c1, inl (RDfa (Some pos')))
                      else
                        match take c1 sid b with
                        | (c2, ZErr) => (c2, inl RFallback)
                        | (c2, ZDead) => (c2, inl (RDfa last))
                        | (c2, ZNext t) => (c2, inr (t, S pos', if mtag t then Some pos' else last))
                        end
                  end
              end
        end.

    (* lazy.go: searchEarliestMatch, one iteration (last is unused) *)
    Definition earliest_step (c : cache) (st : lstate) : cache * (out bool + lstate) :=
      let '(sid0, pos0, last) := st in
      if length h <=? pos0 then (c, inl (RDfa (eoi_of c sid0)))
      else
        let '(sid, pos, u) :=
          if negb (has_wb A) && (pos0 + 3 <? length h) then
            if is_accelerable c sid0 then (sid0, pos0, USlow) else unroll4 c h sid0 pos0
          else (sid0, pos0, USlow) in
        match u with
        | UCont => (c, inr (sid, pos, last))
        | UMatch => (c, inl (RDfa true))
        | USlow =>
            let nx := lookup c sid (byte_at h pos) in
            if stag sid && negb (is_invalid nx) && negb (is_dead nx) then
              if mtag nx then (c, inl (RDfa true)) else (c, inr (nx, S pos, last))
            else
              match get_state c sid with
              | None => (c, inl RFallback)
              | Some _ =>
                  let c1 := try_detect c (tidx sid) in
                  let ex := accel_bytes c1 sid in
                  let jump := match ex with [] => Some pos | _ => accelerate h pos ex end in
                  match jump with
                  | None =>
                      if cfg_accel_no_eoi cfg then (c1, inl (RDfa false))
                      else (c1, inl (RDfa (eoi_of c1 sid)))
                  | Some pos' =>
                      let b := byte_at h pos' in
                      if has_wb A && (match get_state c1 sid with Some s => wb_fast (cs_d s) b | None => false end)
                      then (c1, inl (RDfa true))
                      else
                        match take c1 sid b with
                        | (c2, ZErr) => (c2, inl RFallback)
                        | (c2, ZDead) => (c2, inl (RDfa false))
                        | (c2, ZNext t) => if mtag t then (c2, inl (RDfa true)) else (c2, inr (t, S pos', last))
                        end
                  end
              end
        end.

    Definition c_fuel : nat := S (length h).

    (* lazy.go: matchesEmpty *)
    Definition c_matches_empty (c : cache) : bool :=
      match slot c 0 with
      | Some s => if contains_match A (d_ids (cs_d s)) then true else ref_bool A [] 0
      | None => ref_bool A [] 0
      end.

    (* lazy.go: matchesEmptyAt *)
    Definition c_matches_empty_at (c : cache) (at_ : nat) : bool :=
      if cfg_old_entry cfg || (at_ =? 0) then c_matches_empty c else empty_at A h at_.

    (* lazy.go: SearchAtAnchored *)
    Definition c_search_anchored (c : cache) (at_ : nat) : cache * out (option nat) :=
      if length h <? at_ then (c, RDfa None)
      else if at_ =? length h then (c, RDfa (if c_matches_empty_at c at_ then Some at_ else None))
      else
        match get_start c h at_ true with
        | (c1, None) => (c1, RFallback)
        | (c1, Some sid) => drive None anch_step c_fuel c1 (sid, at_, None)
        end.

    (* lazy.go: SearchAt / FindAt -> searchAt *)
    Definition c_search_at (c : cache) (at_ : nat) : cache * out (option nat) :=
      if length h <? at_ then (c, RDfa None)
      else if at_ =? length h then (c, RDfa (if c_matches_empty_at c at_ then Some at_ else None))
      else if always_anchored A && (0 <? at_) then (c, RDfa None)
      else
        match get_start c h at_ false with
        | (c1, None) => (c1, RFallback)
        | (c1, Some sid) => drive None at_step c_fuel c1 (sid, at_, None)
        end.

    (* lazy.go: SearchFirstAt -> searchFirstAt *)
    Definition c_search_first (c : cache) (at_ : nat) : cache * out (option nat) :=
      if length h <? at_ then (c, RDfa None)
      else if at_ =? length h then (c, RDfa (if c_matches_empty_at c at_ then Some at_ else None))
      else if always_anchored A && (0 <? at_) then (c, RDfa None)
      else
        match get_start c h at_ false with
        | (c1, None) => (c1, RFallback)
        | (c1, Some sid) => drive None first_step c_fuel c1 (sid, at_, None)
        end.

    (* lazy.go: IsMatchAt -> searchEarliestMatch *)
    Definition c_is_match_at (c : cache) (at_ : nat) : cache * out bool :=
      if length h <=? at_ then (c, RDfa ((at_ =? length h) && c_matches_empty_at c at_))
      else if always_anchored A && (0 <? at_) then (c, RDfa false)
      else
        match get_start c h at_ false with
        | (c1, None) => (c1, RFallback)
        | (c1, Some sid) => drive false earliest_step c_fuel c1 (sid, at_, None)
        end.
  End Loops.
End Cached.

(* ------------------------------------------------------------------ reverse searches
   (a lazy.DFA compiled from nfa.ReverseAnchored(n) with BreakAtMatch = false; the haystack is
   read backwards from end-1 down to start) *)
Section Reverse.
  Variable A : nfa.
  Variable cfg : dconfig.
  Variable h : hay.
  Variable start_ : nat.

  (* lazy.go: getStartStateForReverse — the same table and computation as the forward
     unanchored start, with the context taken from the byte AFTER the region *)
  Definition rev_kind (end_ : nat) : skind :=
    if length h <=? end_ then KText
    else match nth_error h end_ with Some b => kind_of_byte b | None => KText end.

  (* lazy.go: SearchReverse, the 4x-unrolled loop: cached untagged transitions only; a tagged
     or missing entry leaves the loop (the steps already taken in this round are kept).
     at1 = at + 1. *)
  Fixpoint rev_unroll (fuel : nat) (c : cache) (sid : tid) (at1 : nat) : tid * nat :=
    match fuel with
    | 0 => (sid, at1)
    | S f =>
        if start_ + 4 <=? at1 then
          let n1 := lookup cfg c sid (byte_at h (at1 - 1)) in
          if tagged n1 then (sid, at1) else
          let n2 := lookup cfg c n1 (byte_at h (at1 - 2)) in
          if tagged n2 then (n1, at1 - 1) else
          let n3 := lookup cfg c n2 (byte_at h (at1 - 3)) in
          if tagged n3 then (n2, at1 - 2) else
          let n4 := lookup cfg c n3 (byte_at h (at1 - 4)) in
          if tagged n4 then (n3, at1 - 3) else rev_unroll f c n4 (at1 - 4)
        else (sid, at1)
    end.

  Definition nfa_match_of (c : cache) (t : tid) : bool :=
    match get_state c t with Some s => contains_match A (d_ids (cs_d s)) | None => false end.

  (* lazy.go: SearchReverse, the single-byte tail loop *)
  Definition rev_step (c : cache) (st : lstate) : cache * (out (option nat) + lstate) :=
    let '(sid, at1, last) := st in
    if at1 <=? start_ then (c, inl (RDfa (if nfa_match_of c sid then Some start_ else last)))
    else
      match take A cfg c sid (byte_at h (at1 - 1)) with
      | (c1, ZErr) => (c1, inl RFallback)
      | (c1, ZDead) => (c1, inl (RDfa last))
      | (c1, ZNext t) => (c1, inr (t, at1 - 1, if mtag t then Some at1 else last))
      end.

  (* lazy.go: IsMatchReverse *)
  Definition rev_bool_step (c : cache) (st : lstate) : cache * (out bool + lstate) :=
    let '(sid, at1, last) := st in
    if at1 <=? start_ then (c, inl (RDfa (nfa_match_of c sid)))
    else
      match take A cfg c sid (byte_at h (at1 - 1)) with
      | (c1, ZErr) => (c1, inl RFallback)
      | (c1, ZDead) => (c1, inl (RDfa false))
      | (c1, ZNext t) => if mtag t then (c1, inl (RDfa true)) else (c1, inr (t, at1 - 1, last))
      end.

  (* lazy.go: SearchReverse *)
  Definition c_search_reverse (c : cache) (end_ : nat) : cache * out (option nat) :=
    if (end_ <=? start_) || (length h <? end_) then (c, RDfa None)
    else
      match get_start_k A cfg c (rev_kind end_) false with
      | (c1, None) => (c1, RFallback)
      | (c1, Some sid) =>
          let '(sid1, at1) := rev_unroll (S (length h)) c1 sid end_ in
          drive None rev_step (S (length h)) c1 (sid1, at1, None)
      end.

  (* lazy.go: IsMatchReverse *)
  Definition c_is_match_reverse (c : cache) (end_ : nat) : cache * out bool :=
    if (end_ <=? start_) || (length h <? end_) then (c, RDfa false)
    else
      match get_start_k A cfg c (rev_kind end_) false with
      | (c1, None) => (c1, RFallback)
      | (c1, Some sid) => drive false rev_bool_step (S (length h)) c1 (sid, end_, None)
      end.

  (* lazy.go: nfaFallbackReverse (also the fallback of IsMatchReverse), after fix f6a852a: the
     PikeVM of the DFA's own, i.e. the REVERSE, NFA is run in longest mode over a REVERSED COPY of
     haystack[start:end]; only a match that begins at position 0 of the copy (= ends at end_) is
     accepted, and its end e gives the start end_ - e.  In longest mode the reported span does not
     depend on thread priority, so the model is the plain set simulation anchored at 0: all
     matching transitions are followed (reverse NFAs have Sparse states with overlapping ranges,
     they are not wf_nfa), the last position at which a Match state is in the set is the answer.
     (Before the fix the PikeVM scanned the slice FORWARDS: rev_fallback_original.) *)
  Definition rev_slice (end_ : nat) : hay := firstn (end_ - start_) (skipn start_ h).
  Fixpoint rsim_loop (bs : list N) (cur : list nat) (pos : nat) (last : option nat) : option nat :=
    let last' := if contains_match A cur then Some pos else last in
    match bs with
    | [] => last'
    | b :: t =>
        match closure A ls_none (flat_map (fun q => byte_targets A q b) cur) with
        | [] => last'
        | nxt => rsim_loop t nxt (S pos) last'
        end
    end.
  Definition rev_fallback (end_ : nat) : option nat :=
    match rsim_loop (rev (rev_slice end_)) (closure A ls_none [start_anch A]) 0 None with
    | Some e => Some (end_ - e)
    | None => None
    end.
  Definition rev_fallback_bool (end_ : nat) : bool :=
    match rev_fallback end_ with Some _ => true | None => false end.
  Definition rev_fallback_original (end_ : nat) : option nat :=
    match pike_search_at_g A (rev_slice end_) true 0 with Done (Some (s, _)) => Some (start_ + s) | _ => None end.
End Reverse.

Definition dfa_search_reverse (A : nfa) (cfg : dconfig) (c : cache) (h : hay) (start_ end_ : nat) : cache * option nat :=
  let '(c', o) := c_search_reverse A cfg h start_ c end_ in
  (c', match o with RDfa r => r | RFallback => rev_fallback A h start_ end_ end).
Definition dfa_is_match_reverse (A : nfa) (cfg : dconfig) (c : cache) (h : hay) (start_ end_ : nat) : cache * bool :=
  let '(c', o) := c_is_match_reverse A cfg h start_ c end_ in
  (c', match o with RDfa r => r | RFallback => rev_fallback_bool A h start_ end_ end).

(* ------------------------------------------------------------------ the entry points as the
   caller sees them (NFA fallback applied) *)
Definition dfa_search_at (A : nfa) (cfg : dconfig) (c : cache) (h : hay) (at_ : nat) : cache * option nat :=
  let '(c', o) := c_search_at A cfg h c at_ in (c', fin_end A h at_ o).
Definition dfa_search_first (A : nfa) (cfg : dconfig) (c : cache) (h : hay) (at_ : nat) : cache * option nat :=
  let '(c', o) := c_search_first A cfg h c at_ in (c', fin_end A h at_ o).
Definition dfa_search_anchored (A : nfa) (cfg : dconfig) (c : cache) (h : hay) (at_ : nat) : cache * option nat :=
  let '(c', o) := c_search_anchored A cfg h c at_ in (c', fin_end_anch A cfg h at_ o).
Definition dfa_is_match_at (A : nfa) (cfg : dconfig) (c : cache) (h : hay) (at_ : nat) : cache * bool :=
  let '(c', o) := c_is_match_at A cfg h c at_ in (c', fin_bool A h at_ o).

(* ------------------------------------------------------------------ case checker *)
(* one observed call on a lazy.DFA with its DFACache: k_op 0 = FindAt, 1 = SearchAt,
   2 = SearchFirstAt, 3 = SearchAtAnchored, 4 = IsMatchAt, 5 = SearchReverse, 6 = IsMatchReverse
   (for 5 and 6 the DFA is the reverse one and k_at encodes start + 1000 * end); k_res = the int returned (-1: none;
   IsMatchAt: 0/1); k_size / k_clears / k_mem = cache.Size() / ClearCount() / MemoryUsage()
   observed after the call *)
Record call := mkCall { k_op : N; k_hay : list N; k_at : nat; k_res : Z;
                        k_size : nat; k_clears : nat; k_mem : nat }.

(* a case = one DFA value (NFA + configuration + byte classes) and a history of calls on ONE
   cache, starting from NewCache() *)
Record case := mkCase { c_id : N; c_nfa : nfa; c_cfg : dconfig; c_calls : list call }.

Definition enc_end (r : option nat) : Z := match r with Some e => Z.of_nat e | None => (-1)%Z end.
Definition enc_b (b : bool) : Z := if b then 1%Z else 0%Z.

Definition run_call (A : nfa) (cfg : dconfig) (c : cache) (k : call) : cache * Z :=
  match k_op k with
  | 0%N | 1%N => let '(c', r) := dfa_search_at A cfg c (k_hay k) (k_at k) in (c', enc_end r)
  | 2%N => let '(c', r) := dfa_search_first A cfg c (k_hay k) (k_at k) in (c', enc_end r)
  | 3%N => let '(c', r) := dfa_search_anchored A cfg c (k_hay k) (k_at k) in (c', enc_end r)
  | 5%N => let '(c', r) := dfa_search_reverse A cfg c (k_hay k) (k_at k mod 1000) (k_at k / 1000) in (c', enc_end r)
  | 6%N => let '(c', r) := dfa_is_match_reverse A cfg c (k_hay k) (k_at k mod 1000) (k_at k / 1000) in (c', enc_b r)
  | _ => let '(c', r) := dfa_is_match_at A cfg c (k_hay k) (k_at k) in (c', enc_b r)
  end.

Definition call_ok (A : nfa) (cfg : dconfig) (c' : cache) (r : Z) (k : call) : bool :=
  (r =? k_res k)%Z && (cache_size c' =? k_size k) && (c_clears c' =? k_clears k) &&
  (mem_usage cfg c' =? k_mem k).

(* index of the first call whose model result / cache observation differs, None if all agree *)
Fixpoint first_bad (A : nfa) (cfg : dconfig) (c : cache) (ks : list call) (i : nat) : option nat :=
  match ks with
  | [] => None
  | k :: t => let '(c', r) := run_call A cfg c k in
              if call_ok A cfg c' r k then first_bad A cfg c' t (S i) else Some i
  end.

(* reverse NFAs are not wf_nfa (overlapping Sparse ranges): histories of reverse calls only are
   replayed without that requirement *)
Definition reverse_only (ks : list call) : bool := forallb (fun k => (5 <=? k_op k)%N) ks.

Definition check_case (c : case) : bool :=
  (wf_nfa (c_nfa c) || reverse_only (c_calls c)) && match first_bad (c_nfa c) (c_cfg c) new_cache (c_calls c) 0 with None => true | Some _ => false end.

Definition mismatches (cs : list case) : list N := map c_id (filter (fun c => negb (check_case c)) cs).

(* (case id, index of the first differing call) for debugging *)
Definition mismatch_details (cs : list case) : list (N * nat) :=
  flat_map (fun c => match first_bad (c_nfa c) (c_cfg c) new_cache (c_calls c) 0 with
                     | Some i => [(c_id c, i)] | None => [] end) cs.

(* the OBSERVED results against the reference search (property C14: engine = reference):
   op 0/1: end of find_at; op 2: existence; op 3: end of the search anchored at `at`; op 4: existence *)
Definition ref_anch_end (A : nfa) (h : hay) (at_ : nat) : option nat :=
  if length h <? at_ then None
  else match search_from A h at_ with Done (Some (e, _)) => Some e | _ => None end.

Definition ref_of_call (A : nfa) (k : call) : Z :=
  match k_op k with
  | 0%N | 1%N => enc_end (ref_end A (k_hay k) (k_at k))
  | 2%N => (* SearchFirstAt reports the earliest end by design: existence only *)
      match ref_end A (k_hay k) (k_at k) with
      | None => (-1)%Z
      | Some e => if (k_res k <? 0)%Z then Z.of_nat e else k_res k
      end
  | 3%N => enc_end (ref_anch_end A (k_hay k) (k_at k))
  | 5%N | 6%N => k_res k     (* reverse DFAs: no reference on the reverse NFA; fidelity only *)
  | _ => enc_b (ref_bool A (k_hay k) (k_at k))
  end.

Fixpoint ref_bad_calls (A : nfa) (ks : list call) (i : nat) : list nat :=
  match ks with
  | [] => []
  | k :: t => if (ref_of_call A k =? k_res k)%Z then ref_bad_calls A t (S i) else i :: ref_bad_calls A t (S i)
  end.

(* (case id, indices of the calls whose observed result differs from the reference) *)
Definition ref_mismatches (cs : list case) : list (N * list nat) :=
  flat_map (fun c => match ref_bad_calls (c_nfa c) (c_calls c) 0 with [] => [] | l => [(c_id c, l)] end) cs.
