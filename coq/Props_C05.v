(* Property C05 (linear time).  Statements only; models and proofs are in Backtrack.v (bounded
   backtracker, ghost counter `writes`), Cost.v (PikeVM set simulation, lazy DFA accounting,
   reverse-suffix barrier, CompositeSearcher recursion) and Cache.v (work events of a cache).
   NOT linear in the code, and stated as such: SearchAtWithState (quadratic,
   C05_bt_search_quadratic_witness) and CompositeSearcher (C05_composite_superlinear_refuted). *)
From Coq Require Import List NArith Arith.
From CV Require Import Nfa Backtrack Cache Cost.
Import ListNotations.

(* ---- bounded backtracker *)
Theorem C05_bt_is_match_visits_bound : forall (W : N), (2 <= W)%N -> forall (A : nfa) (max_visited : nat),
  wf_nfa A = true -> forall (st : bstate) (h : hay), bt_inv W st ->
  writes (snd (bt_is_match W A max_visited st h)) <= writes st + nstates A * (length h + 1).
Proof. exact Backtrack.bt_is_match_visits_bound. Qed.
Print Assumptions C05_bt_is_match_visits_bound.

Theorem C05_bt_start_visits_bound : forall (W : N), (2 <= W)%N -> forall (A : nfa),
  wf_nfa A = true -> forall (st : bstate) (h : hay) (lo s : nat),
  bt_ok A h lo st -> bt_inv W st -> bt_empty st -> lo <= s <= length h ->
  writes (snd (one_search A h (fuel_for A h) s st)) <= writes st + nstates A * (length h - lo + 1).
Proof. exact Backtrack.bt_start_visits_bound. Qed.
Print Assumptions C05_bt_start_visits_bound.

Theorem C05_bt_search_visits_bound : forall (W : N), (2 <= W)%N -> forall (A : nfa) (max_visited : nat),
  wf_nfa A = true -> forall (st : bstate) (h : hay) (at_ : nat), bt_inv W st ->
  writes (snd (bt_search_at W A max_visited st h at_)) <=
  writes st + (length h - at_ + 1) * (nstates A * (length h - at_ + 1)).
Proof. exact Backtrack.bt_search_visits_bound. Qed.
Print Assumptions C05_bt_search_visits_bound.

Theorem C05_bt_search_quadratic_witness :
  3 * search_writes 16 < search_writes 32 /\ 3 * search_writes 32 < search_writes 64 /\
  is_match_writes 64 <= 2 * is_match_writes 32 + 4 /\
  search_writes 64 = 3 * (65 * 66 / 2) /\ is_match_writes 64 = 3 * 65.
Proof. exact Backtrack.bt_search_quadratic_witness. Qed.
Print Assumptions C05_bt_search_quadratic_witness.

(* ---- PikeVM set simulation *)
Theorem C05_pike_steps_bound : forall (A : nfa) (h : hay),
  pike_steps A h <= 2 * nstates A * (length h + 1).
Proof. exact Cost.pike_steps_bound. Qed.
Print Assumptions C05_pike_steps_bound.

Theorem C05_pike_steps_doubling : forall (A : nfa) (h h' : hay),
  length h' = 2 * length h -> pike_steps A h' <= 2 * (2 * nstates A * (length h + 1)).
Proof. exact Cost.pike_steps_doubling. Qed.
Print Assumptions C05_pike_steps_doubling.

(* ---- lazy DFA: bytes are paid once; determinizations are bounded by the configuration *)
Theorem C05_work_events_bound : forall (mc : nat) (ops : list op) (cap str : nat),
  Forall no_reset ops -> work_events mc ops (new_cache cap str) <= (mc + 1) * (cap / 48 + 2).
Proof. exact Cache.work_events_bound. Qed.
Print Assumptions C05_work_events_bound.

Theorem C05_dfa_cost_bound : forall (mc D P Fmax : nat) (evs : list dfa_ev) (cap str : nat),
  dfa_cost mc D P Fmax evs (new_cache cap str) Fmax <=
  length evs + D * ((mc + 1) * (cap / 48 + 2) + (mc + 1) * Fmax + 1) + P.
Proof. exact Cost.dfa_cost_bound. Qed.
Print Assumptions C05_dfa_cost_bound.

(* ---- reverse-suffix candidate loop *)
Theorem C05_rev_limited_amortised : forall (h : hay) (at_ : nat) (cands : list (nat * nat)),
  barrier_ok at_ (length h) at_ cands -> at_ <= length h ->
  rev_scan_total cands <= length h - at_.
Proof. exact Cost.rev_limited_amortised. Qed.
Print Assumptions C05_rev_limited_amortised.

Theorem C05_rev_limited_amortised_2 : forall (h : hay) (at_ : nat) (cands : list (nat * nat)) (fallback : nat),
  barrier_ok at_ (length h) at_ cands -> at_ <= length h -> fallback <= length h - at_ ->
  rev_scan_total cands + fallback <= 2 * length h.
Proof. exact Cost.rev_limited_amortised_2. Qed.
Print Assumptions C05_rev_limited_amortised_2.

Theorem C05_rev_unlimited_quadratic : forall d k : nat,
  2 * rev_scan_total (unlimited_cands d k) = d * (k * (k + 1)).
Proof. exact Cost.rev_unlimited_quadratic. Qed.
Print Assumptions C05_rev_unlimited_quadratic.

(* ---- CompositeSearcher: refuted *)
Theorem C05_composite_superlinear_refuted :
  fst (composite_search parts_3lower_digit (repeat 97%N 16) 16 0 0%N) = None /\
  (8 * composite_calls parts_3lower_digit 8 <? composite_calls parts_3lower_digit 16)%N = true /\
  (8 * composite_calls parts_3lower_digit 16 <? composite_calls parts_3lower_digit 32)%N = true /\
  (1000 * 33 <? composite_calls parts_3lower_digit 32)%N = true.
Proof. exact Cost.composite_superlinear_refuted. Qed.
Print Assumptions C05_composite_superlinear_refuted.

Theorem C05_composite_two_parts_quadratic :
  (3 * composite_calls parts_lower_digit 16 <? composite_calls parts_lower_digit 32)%N = true /\
  (3 * composite_calls parts_lower_digit 32 <? composite_calls parts_lower_digit 64)%N = true.
Proof. exact Cost.composite_two_parts_quadratic. Qed.
Print Assumptions C05_composite_two_parts_quadratic.
