(* Props_DfaRev.v — property theorem (C14) about the reverse-search NFA fallback of the lazy DFA;
   proof in DfaRevFallback.v. *)
From Coq Require Import List NArith.
From CV Require Import Nfa NfaRef Dfa DfaRef Reverse DfaRevFallback.
Import ListNotations.

Theorem C14_rev_fallback_original_refuted :
  wf_nfa nb_nfa = true /\ Dfa.no_look nb_nfa = true /\
  (exists sl, find_at nb_nfa rf_hay 0 = Done (Some (1, 3, sl))) /\
  rev_fallback rf_rev rf_hay 0 3 = Some 1 /\
  rev_fallback_bool rf_rev rf_hay 0 3 = true /\
  rev_fallback_original rf_rev rf_hay 0 3 = None.
Proof. exact rev_fallback_original_refuted. Qed.
Print Assumptions C14_rev_fallback_original_refuted.
