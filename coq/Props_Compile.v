(* Props_Compile.v — property statements of layer L0 (the compiler nfa/compile.go): C01 "Match
   agrees with the language of the pattern", C02 "leftmost start", at the level pattern AST ->
   compiled automaton -> reference search.  Statements only; proofs in Compile.v / Regex.v. *)
From Coq Require Import List NArith Lia Bool Arith.
From CV Require Import Nfa NfaRef Utf8 ClassAuto Regex Compile.
Import ListNotations.

Theorem L0_compile_wf : forall r, re_ok r = true -> no_dot r = true -> wf_nfa (compile r) = true.
Proof. exact compile_wf. Qed.
Print Assumptions L0_compile_wf.

Theorem L0_compile_sound : forall r, re_ok r = true -> no_dot r = true ->
  forall h i j, i <= length h ->
  nfa_path (compile r) h (start_anch (compile r)) i j -> re_match code_atoms r h i j.
Proof. exact compile_sound. Qed.
Print Assumptions L0_compile_sound.

Theorem L0_compile_complete : forall r, re_ok r = true -> no_dot r = true ->
  forall h i j, re_match code_atoms r h i j -> nfa_path (compile r) h (start_anch (compile r)) i j.
Proof. exact compile_complete. Qed.
Print Assumptions L0_compile_complete.

Theorem C01_compile_is_match : forall r, re_ok r = true -> no_dot r = true ->
  forall h, is_match_ref (compile r) h = Done true <-> exists i j, re_match code_atoms r h i j.
Proof. exact compile_is_match. Qed.
Print Assumptions C01_compile_is_match.

Theorem C02_compile_find_leftmost : forall r, re_ok r = true -> no_dot r = true ->
  forall h at_ s e sl, find_at (compile r) h at_ = Done (Some (s, e, sl)) ->
  at_ <= s /\ re_match code_atoms r h s e /\ forall i j, at_ <= i < s -> ~ re_match code_atoms r h i j.
Proof. exact compile_find_leftmost. Qed.
Print Assumptions C02_compile_find_leftmost.

Theorem C01_compile_find_none : forall r, re_ok r = true -> no_dot r = true ->
  forall h at_, find_at (compile r) h at_ = Done None -> forall i j, at_ <= i -> ~ re_match code_atoms r h i j.
Proof. exact compile_find_none. Qed.
Print Assumptions C01_compile_find_none.

Theorem L0_compile_find_total : forall r, re_ok r = true -> no_dot r = true ->
  forall h at_, find_at (compile r) h at_ <> OutOfFuel.
Proof. exact compile_find_total. Qed.
Print Assumptions L0_compile_find_total.

Theorem L0_re_match_bounds : forall AS h r i j, re_match AS r h i j -> i <= j <= length h.
Proof. exact re_match_bounds. Qed.
Print Assumptions L0_re_match_bounds.

Theorem L0_nfa_iso_check_sound : forall n1 n2, nfa_eqb n1 n2 = true ->
  forall h at_, find_at n1 h at_ = find_at n2 h at_.
Proof. exact nfa_iso_check_sound. Qed.
Print Assumptions L0_nfa_iso_check_sound.

Theorem L0_check_case_sound : forall c, check_case c = true -> no_dot (c_re c) = true ->
  wf_nfa (c_nfa c) = true /\
  forall h, (is_match_ref (c_nfa c) h = Done true <-> exists i j, re_match code_atoms (c_re c) h i j).
Proof. exact check_case_sound. Qed.
Print Assumptions L0_check_case_sound.
