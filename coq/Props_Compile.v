(* Props_Compile.v — property statements of layer L0 (the compiler nfa/compile.go): C01 "Match
   agrees with the language of the pattern", C02 "leftmost start", at the level pattern AST ->
   compiled automaton -> reference search.  Statements only; proofs in Compile.v / Regex.v. *)
From Coq Require Import List NArith Lia Bool Arith.
From CV Require Import Nfa NfaRef Utf8 ClassAuto Regex Compile CompileSpec CompileUtf8.
Import ListNotations.

Theorem L0_compile_wf : forall r, re_ok r = true -> wf_nfa (compile r) = true.
Proof. exact compile_wf. Qed.
Print Assumptions L0_compile_wf.

Theorem L0_compile_sound : forall r, re_ok r = true ->
  forall h i j, i <= length h ->
  nfa_path (compile r) h (start_anch (compile r)) i j -> re_match code_atoms r h i j.
Proof. exact compile_sound. Qed.
Print Assumptions L0_compile_sound.

Theorem L0_compile_complete : forall r, re_ok r = true ->
  forall h i j, re_match code_atoms r h i j -> nfa_path (compile r) h (start_anch (compile r)) i j.
Proof. exact compile_complete. Qed.
Print Assumptions L0_compile_complete.

Theorem C01_compile_is_match : forall r, re_ok r = true ->
  forall h, is_match_ref (compile r) h = Done true <-> exists i j, re_match code_atoms r h i j.
Proof. exact compile_is_match. Qed.
Print Assumptions C01_compile_is_match.

Theorem C02_compile_find_leftmost : forall r, re_ok r = true ->
  forall h at_ s e sl, find_at (compile r) h at_ = Done (Some (s, e, sl)) ->
  at_ <= s /\ re_match code_atoms r h s e /\ forall i j, at_ <= i < s -> ~ re_match code_atoms r h i j.
Proof. exact compile_find_leftmost. Qed.
Print Assumptions C02_compile_find_leftmost.

Theorem C01_compile_find_none : forall r, re_ok r = true ->
  forall h at_, find_at (compile r) h at_ = Done None -> forall i j, at_ <= i -> ~ re_match code_atoms r h i j.
Proof. exact compile_find_none. Qed.
Print Assumptions C01_compile_find_none.

Theorem L0_compile_find_total : forall r, re_ok r = true ->
  forall h at_, find_at (compile r) h at_ <> OutOfFuel.
Proof. exact compile_find_total. Qed.
Print Assumptions L0_compile_find_total.

Theorem L0_re_match_bounds : forall AS h r i j, re_match AS r h i j -> i <= j <= length h.
Proof. exact re_match_bounds. Qed.
Print Assumptions L0_re_match_bounds.

Theorem L0_nfa_iso_check_sound : forall n1 n2, nfa_eqb n1 n2 = true ->
  forall h at_, find_at n1 h at_ = find_at n2 h at_.
Proof. exact nfa_iso_check_sound. Qed.
Print Assumptions L0_nfa_iso_check_sound.

Theorem L0_check_case_sound : forall c, check_case c = true ->
  wf_nfa (c_nfa c) = true /\
  forall h, (is_match_ref (c_nfa c) h = Done true <-> exists i j, re_match code_atoms (c_re c) h i j).
Proof. exact check_case_sound. Qed.
Print Assumptions L0_check_case_sound.

(* ---- against the specification over well-formed UTF-8 (CompileSpec.v) *)
Theorem L0_multibyte_spec : forall bs,
  in_seqs bs utf8_multibyte = true <-> exists c, is_scalar c = true /\ (128 <= c)%N /\ bs = encode c.
Proof. exact multibyte_spec. Qed.
Print Assumptions L0_multibyte_spec.

Theorem L0_any_spec_le_code : forall nl bs, as_any spec_atoms nl bs -> as_any code_atoms nl bs.
Proof. exact any_spec_le_code. Qed.
Print Assumptions L0_any_spec_le_code.

Theorem L0_any_code_le_spec_refuted : exists nl bs, as_any code_atoms nl bs /\ ~ as_any spec_atoms nl bs.
Proof. exact any_code_le_spec_refuted. Qed.
Print Assumptions L0_any_code_le_spec_refuted.

Theorem L0_class_ascii_exact : forall ranges bs, is_ascii_class ranges = true ->
  (as_class code_atoms ranges bs <-> as_class spec_atoms ranges bs).
Proof. exact class_ascii_exact. Qed.
Print Assumptions L0_class_ascii_exact.

Theorem L0_class_small_spec_le_code : forall ranges bs, is_small_class ranges = true ->
  as_class spec_atoms ranges bs -> as_class code_atoms ranges bs.
Proof. exact class_small_spec_le_code. Qed.
Print Assumptions L0_class_small_spec_le_code.

Theorem L0_class_small_code_le_spec : forall ranges bs, is_small_class ranges = true ->
  no_surrogates ranges = true -> as_class code_atoms ranges bs -> as_class spec_atoms ranges bs.
Proof. exact class_small_code_le_spec. Qed.
Print Assumptions L0_class_small_code_le_spec.

Theorem L0_class_covers_all_spec_le_code : forall ranges bs, is_covers_all_class ranges = true ->
  as_class spec_atoms ranges bs -> as_class code_atoms ranges bs.
Proof. exact class_covers_all_spec_le_code. Qed.
Print Assumptions L0_class_covers_all_spec_le_code.

Theorem L0_class_covers_all_matches_cont_byte : forall ranges b, is_covers_all_class ranges = true ->
  (128 <= b <= 255)%N -> as_class code_atoms ranges [b].
Proof. exact class_covers_all_matches_cont_byte. Qed.
Print Assumptions L0_class_covers_all_matches_cont_byte.

Theorem C01_compile_spec_complete_partial : forall r, re_ok r = true -> atoms_all atom_complete_known r ->
  forall h i j, re_match spec_atoms r h i j -> nfa_path (compile r) h (start_anch (compile r)) i j.
Proof. exact compile_spec_complete_partial. Qed.
Print Assumptions C01_compile_spec_complete_partial.

Theorem C01_compile_spec_sound_partial : forall r, re_ok r = true -> atoms_all atom_exact_known r ->
  forall h i j, i <= length h ->
  nfa_path (compile r) h (start_anch (compile r)) i j -> re_match spec_atoms r h i j.
Proof. exact compile_spec_sound_partial. Qed.
Print Assumptions C01_compile_spec_sound_partial.

Theorem C01_compile_spec_sound_refuted :
  re_ok not_a_twice = true /\ e_acute = encode 0xE9 /\
  (exists sl, find_at (compile not_a_twice) e_acute 0 = Done (Some (0, 2, sl))) /\
  nfa_path (compile not_a_twice) e_acute (start_anch (compile not_a_twice)) 0 2 /\
  forall i j, ~ re_match spec_atoms not_a_twice e_acute i j.
Proof. exact compile_spec_sound_refuted. Qed.
Print Assumptions C01_compile_spec_sound_refuted.

(* ---- the 3-byte range splitter of compileUTF83ByteRangeSimple (CompileUtf8.v) *)
Theorem L0_seqs3_simple_sound : forall lo hi bs, (0x800 <= lo)%N -> (lo <= hi)%N -> (hi <= 0xFFFF)%N ->
  in_seqs bs (seqs3_simple lo hi) = true -> exists c, (lo <= c <= hi)%N /\ bs = enc3 c.
Proof. exact seqs3_simple_sound. Qed.
Print Assumptions L0_seqs3_simple_sound.

Theorem L0_seqs3_simple_complete : forall lo hi c, (0x800 <= lo)%N -> (hi <= 0xFFFF)%N ->
  (hi <= 0xD7FF \/ 0xE000 <= lo)%N -> (lo <= c <= hi)%N -> in_seqs (enc3 c) (seqs3_simple lo hi) = true.
Proof. exact seqs3_simple_complete. Qed.
Print Assumptions L0_seqs3_simple_complete.
