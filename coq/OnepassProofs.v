(* OnepassProofs.v — the one-pass DFA model of Onepass.v returns the anchored answer of the
   reference search of Nfa.v, capture slots included.  Layout:
     A  Search / IsMatch loops = the recursive function op_from on the table
     B  reference dfs on the closure of a root = op_from, given the table invariant `tinv`
     C  build establishes `tinv`
     D  top-level theorems and refutations *)
From Coq Require Import List NArith ZArith Lia Bool Arith PeanoNat.
From Coq Require Import FSets.FSetPositive.
From CV Require Import Nfa Backtrack NfaRef Onepass.
Import ListNotations.

(* ================================================================== A *)
Definition here (r : row) (pos : nat) (sl : slots) (at_end : bool) : option (nat * slots) :=
  if r_match r && (at_end || negb (r_endonly r)) then Some (pos, apply_mask (r_mslots r) pos sl) else None.

(* the answer of the DFA from state st at position pos, as a recursive function: the
   continuation on the next byte if it matches, else the match of this state *)
Fixpoint op_from (D : dfa) (h : hay) (pos st : nat) (sl : slots) : option (nat * slots) :=
  let r := row_of D st in
  match h with
  | [] => here r pos sl true
  | b :: h' =>
      let t := trans D st b in
      if fst t =? 0 then here r pos sl false else
      match op_from D h' (S pos) (fst t) (apply_mask (snd t) pos sl) with
      | Some x => Some x
      | None => here r pos sl false
      end
  end.

Definition fin (x : option (nat * slots)) (saved : option slots) : option slots :=
  match x with Some (e, s) => Some (set_nth s 1 (Z.of_nat e)) | None => saved end.

Lemma op_loop_from D : forall h pos st sl saved,
  op_loop cur D h pos st sl saved = fin (op_from D h pos st sl) saved.
Proof.
  induction h as [|b h IH]; intros pos st sl saved; cbn [op_loop op_from].
  - unfold here. cbn [orb]. rewrite andb_true_r. destruct (r_match (row_of D st)); reflexivity.
  - cbn [v_end_only cur negb andb]. unfold here. cbn [orb].
    destruct (fst (trans D st b) =? 0) eqn:Ed.
    + destruct (r_match (row_of D st) && negb (r_endonly (row_of D st))); reflexivity.
    + rewrite IH.
      destruct (op_from D h (S pos) (fst (trans D st b)) (apply_mask (snd (trans D st b)) pos sl)) as [[e s]|];
        [reflexivity|].
      cbn [fin]. destruct (r_match (row_of D st) && negb (r_endonly (row_of D st))); reflexivity.
Qed.

Definition is_some {T} (x : option T) : bool := match x with Some _ => true | None => false end.

Lemma im_loop_from D : forall h pos st sl,
  im_loop cur D h st = is_some (op_from D h pos st sl).
Proof.
  induction h as [|b h IH]; intros pos st sl; cbn [im_loop op_from].
  - unfold here. cbn [orb]. rewrite andb_true_r. destruct (r_match (row_of D st)); reflexivity.
  - cbn [v_end_only cur orb]. unfold here. cbn [orb].
    destruct (r_match (row_of D st) && negb (r_endonly (row_of D st))) eqn:Em.
    + destruct (fst (trans D st b) =? 0); [reflexivity|].
      destruct (op_from D h (S pos) (fst (trans D st b)) (apply_mask (snd (trans D st b)) pos sl)); reflexivity.
    + destruct (fst (trans D st b) =? 0); [reflexivity|].
      rewrite (IH (S pos) (fst (trans D st b)) (apply_mask (snd (trans D st b)) pos sl)).
      destruct (op_from D h (S pos) (fst (trans D st b)) (apply_mask (snd (trans D st b)) pos sl)); reflexivity.
Qed.

(* ------------------------------------------------------------------ masks and slots *)
Lemma apply_from_length i m z sl : length (apply_from i m z sl) = length sl.
Proof. revert i. induction sl as [|x sl IH]; intros i; cbn [apply_from length]; [reflexivity|]. now rewrite IH. Qed.

Lemma apply_from_0 z : forall sl i, apply_from i 0 z sl = sl.
Proof. induction sl as [|x sl IH]; intros i; cbn [apply_from]; [reflexivity|]. rewrite N.bits_0, IH. reflexivity. Qed.

Lemma testbit_bit i j : N.testbit (bit i) (N.of_nat j) = (i =? j).
Proof.
  unfold bit. rewrite N.shiftl_1_l, N.pow2_bits_eqb.
  destruct (Nat.eqb_spec i j) as [->|Hne]; [apply N.eqb_refl|]. apply N.eqb_neq. lia.
Qed.

Lemma apply_from_lor_above m z b : forall sl j, b < j ->
  apply_from j (N.lor m (bit b)) z sl = apply_from j m z sl.
Proof.
  induction sl as [|y sl IH]; intros j Hj; cbn [apply_from]; [reflexivity|].
  rewrite N.lor_spec, testbit_bit. replace (b =? j) with false by (symmetry; apply Nat.eqb_neq; lia).
  rewrite orb_false_r. f_equal. apply IH. lia.
Qed.

(* adding one bit to the mask = one more slot written *)
Lemma apply_from_lor_bit m z : forall sl i k,
  apply_from i (N.lor m (bit (i + k))) z sl = set_nth (apply_from i m z sl) k z.
Proof.
  induction sl as [|x sl IH]; intros i k; cbn [apply_from].
  - destruct k; reflexivity.
  - rewrite N.lor_spec, testbit_bit. destruct k as [|k].
    + rewrite Nat.add_0_r, Nat.eqb_refl, orb_true_r. cbn [set_nth]. f_equal.
      apply apply_from_lor_above. lia.
    + replace (i + S k =? i) with false by (symmetry; apply Nat.eqb_neq; lia).
      rewrite orb_false_r. cbn [set_nth]. f_equal. replace (i + S k) with (S i + k) by lia. apply IH.
Qed.

Lemma apply_mask_cap m idx st p sl : slot_of idx st < 32 ->
  apply_mask (cap_mask m idx st) p sl = set_nth (apply_mask m p sl) (slot_of idx st) (Z.of_nat p).
Proof.
  intros Hlt. unfold cap_mask, apply_mask. apply Nat.ltb_lt in Hlt. rewrite Hlt.
  apply (apply_from_lor_bit m (Z.of_nat p) sl 0 (slot_of idx st)).
Qed.

Lemma apply_mask_0 p sl : apply_mask 0 p sl = sl.
Proof. apply apply_from_0. Qed.

(* ================================================================== B *)
(* ------------------------------------------------------------------ facts on the reference dfs *)
Section DfsFacts.
  Variable A : nfa.
  Variable h : hay.
  Let n := nstates A.
  Notation rdfs := (dfs A h PositiveSet.t (pmem n) (padd n)).
  Notation rdfs_list := (dfs_list A h PositiveSet.t (pmem n) (padd n)).

  Lemma pmem_padd_mono q p x p0 V : pmem n x p0 V = true -> pmem n x p0 (padd n q p V) = true.
  Proof. unfold pmem, padd. intros H. apply PositiveSet.add_2. exact H. Qed.

  Lemma dfs_mono f : forall q p sl V r V',
    rdfs f q p sl V = (r, V') -> forall x p0, pmem n x p0 V = true -> pmem n x p0 V' = true.
  Proof.
    induction f as [|f IH]; intros q p sl V r V' H x p0 Hm; [inversion H; subst; exact Hm|].
    rewrite dfs_unfold in H.
    destruct (nth_error (states A) q) as [st|]; [|inversion H; subst; exact Hm].
    destruct (pmem n q p V); [inversion H; subst; exact Hm|].
    pose proof (pmem_padd_mono q p x p0 V Hm) as H1.
    destruct (is_match_state st); [inversion H; subst; exact H1|].
    revert H H1. generalize (padd n q p V). generalize (succs h st p sl).
    induction l as [|[[q1 p1] s1] cs IHcs]; intros V0 H H1; cbn [dfs_list] in H; [inversion H; subst; exact H1|].
    destruct (rdfs f q1 p1 s1 V0) as [r1 V1] eqn:E1.
    pose proof (IH _ _ _ _ _ _ E1 x p0 H1) as F1.
    destruct r1 as [|[x1|]]; try (inversion H; subst; exact F1).
    apply (IHcs V1 H F1).
  Qed.

  Lemma dfs_none_mem f q p sl V V' : q < n ->
    rdfs f q p sl V = (Done None, V') -> pmem n q p V' = true.
  Proof.
    intros Hq H. destruct f as [|f]; [discriminate|]. 
    assert (H0 := H). rewrite dfs_unfold in H.
    destruct (nth_error (states A) q) as [st|] eqn:Hst.
    2:{ apply nth_error_None in Hst. unfold n, nstates in Hq. lia. }
    destruct (pmem n q p V) eqn:Hv; [inversion H; subst; exact Hv|].
    destruct (is_match_state st); [discriminate|].
    assert (Hg : forall cs V0, pmem n q p V0 = true -> rdfs_list f cs V0 = (Done None, V') -> pmem n q p V' = true).
    { induction cs as [|[[q1 p1] s1] cs IHcs]; intros V0 Hm Hd; cbn [dfs_list] in Hd; [inversion Hd; subst; exact Hm|].
      destruct (rdfs f q1 p1 s1 V0) as [r1 V1] eqn:E1.
      destruct r1 as [|[x1|]]; try discriminate.
      apply (IHcs V1); [|exact Hd]. eapply dfs_mono; eauto. }
    eapply Hg; [|exact H]. apply pmem_padd_same.
  Qed.
  (* a search from position p leaves the positions before p untouched (as PikeSpan.dfs_frame) *)
  Lemma dfs_frame' f : forall q p sl V r V', p <= length h ->
    rdfs f q p sl V = (r, V') -> forall x p0, x < n -> p0 < p -> pmem n x p0 V' = pmem n x p0 V.
  Proof.
    induction f as [|f IH]; intros q p sl V r V' Hp H x p0 Hx Hp0; [inversion H; reflexivity|].
    rewrite dfs_unfold in H.
    destruct (nth_error (states A) q) as [st|] eqn:Hst; [|inversion H; reflexivity].
    destruct (pmem n q p V); [inversion H; reflexivity|].
    assert (Hq : q < n) by (eapply nth_error_Some_lt'; eauto).
    assert (H1 : pmem n x p0 (padd n q p V) = pmem n x p0 V).
    { apply pmem_padd_other; auto. intros E. inversion E. lia. }
    destruct (is_match_state st); [inversion H; subst; exact H1|].
    rewrite <- H1.
    assert (Hcs : forall c, In c (succs h st p sl) -> p <= snd (fst c) <= length h).
    { intros [[q' p'] s'] Hc. apply (succs_pos h st p sl q' p' s' Hc Hp). }
    revert H Hcs. generalize (padd n q p V). generalize (succs h st p sl).
    induction l as [|[[q1 p1] s1] cs IHcs]; intros V0 H Hcs; cbn [dfs_list] in H; [inversion H; reflexivity|].
    assert (Hc1 : p <= p1 <= length h) by (apply (Hcs (q1, p1, s1)); now left).
    destruct (rdfs f q1 p1 s1 V0) as [r1 V1] eqn:E1.
    pose proof (IH _ _ _ _ _ _ (proj2 Hc1) E1 x p0 Hx ltac:(lia)) as F1.
    destruct r1 as [|[x1|]]; try (inversion H; subst; exact F1).
    rewrite <- F1. apply (IHcs V1 H). intros c Hc. apply Hcs. now right.
  Qed.
End DfsFacts.

(* ------------------------------------------------------------------ one step of the closure loop *)
Definition clo_step (v : variant) (A : nfa) (root : nat) (x : nat) (m : N)
           (stk' : list (nat * N)) (seen : list nat) (c : clo) : option (list (nat * N) * list nat * clo) :=
  let c1 := add_ent c x m in
  match nth_error (states A) x with
  | None => Some (stk', seen, c1)
  | Some SMatch => if c_match c1 then None else Some (stk', seen, set_match c1 m)
  | Some (SSplit l r) =>
      match push (if v_right_first v then l else r) m (stk', seen) with
      | None => None
      | Some ss1 =>
          match push (if v_right_first v then r else l) m ss1 with
          | None => None
          | Some ss2 => Some (fst ss2, snd ss2, c1)
          end
      end
  | Some (SEpsilon nx) =>
      match push nx m (stk', seen) with None => None | Some ss1 => Some (fst ss1, snd ss1, c1) end
  | Some (SCapture idx is_start nx) =>
      match push nx (cap_mask m idx is_start) (stk', seen) with
      | None => None | Some ss1 => Some (fst ss1, snd ss1, c1) end
  | Some (SLook lk nx) =>
      match look_step v A root lk nx c1 with
      | None => None
      | Some c2 => match push nx m (stk', seen) with None => None | Some ss1 => Some (fst ss1, snd ss1, c2) end
      end
  | Some _ => Some (stk', seen, c1)
  end.

Lemma clo_loop_S v A root f x m stk' seen c :
  clo_loop v A root (S f) ((x, m) :: stk') seen c =
  match clo_step v A root x m stk' seen c with
  | None => None
  | Some (s2, se2, c2) => clo_loop v A root f s2 se2 c2
  end.
Proof.
  cbn [clo_loop]. unfold clo_step.
  destruct (nth_error (states A) x) as [[ | lo hi nx | trs | l r | nx | idx isst nx | lk nx | ]|]; try reflexivity.
  - destruct (c_match (add_ent c x m)); reflexivity.
  - destruct (push (if v_right_first v then l else r) m (stk', seen)) as [ss1|]; [|reflexivity].
    destruct (push (if v_right_first v then r else l) m ss1) as [ss2|]; reflexivity.
  - destruct (push nx m (stk', seen)) as [ss1|]; reflexivity.
  - destruct (push nx (cap_mask m idx isst) (stk', seen)) as [ss1|]; reflexivity.
  - destruct (look_step v A root lk nx (add_ent c x m)) as [c2|]; [|reflexivity].
    destruct (push nx m (stk', seen)) as [ss1|]; reflexivity.
Qed.

Lemma clo_loop_nil v A root f seen c : clo_loop v A root (S f) [] seen c = Some c.
Proof. reflexivity. Qed.

Lemma push_some x m stk seen ss : push x m (stk, seen) = Some ss ->
  ss = ((x, m) :: stk, x :: seen) /\ ~ In x seen.
Proof.
  unfold push. cbn [fst snd]. destruct (mem_nat x seen) eqn:E; [discriminate|]. intros H. inversion H; subst.
  split; [reflexivity|]. intros Hin. unfold mem_nat in E.
  assert (existsb (Nat.eqb x) seen = true) by (apply existsb_exists; exists x; split; [exact Hin|apply Nat.eqb_refl]).
  congruence.
Qed.

(* the shape of one step: what is appended, what is pushed *)
Inductive step_kind (v : variant) (A : nfa) (root x : nat) (m : N) (stk' : list (nat * N)) (seen : list nat) (c : clo) :
  list (nat * N) * list nat * clo -> Prop :=
| SK_leaf st : nth_error (states A) x = Some st ->
    (match st with SByteRange _ _ _ | SSparse _ | SFail => True | _ => False end) ->
    step_kind v A root x m stk' seen c (stk', seen, add_ent c x m)
| SK_oob : nth_error (states A) x = None -> step_kind v A root x m stk' seen c (stk', seen, add_ent c x m)
| SK_match : nth_error (states A) x = Some SMatch -> c_match c = false ->
    step_kind v A root x m stk' seen c (stk', seen, set_match (add_ent c x m) m)
| SK_split l r : nth_error (states A) x = Some (SSplit l r) -> ~ In r seen -> ~ In l (r :: seen) ->
    step_kind v A root x m stk' seen c ((l, m) :: (r, m) :: stk', l :: r :: seen, add_ent c x m)
| SK_eps nx : nth_error (states A) x = Some (SEpsilon nx) -> ~ In nx seen ->
    step_kind v A root x m stk' seen c ((nx, m) :: stk', nx :: seen, add_ent c x m)
| SK_cap idx isst nx : nth_error (states A) x = Some (SCapture idx isst nx) -> ~ In nx seen ->
    step_kind v A root x m stk' seen c ((nx, cap_mask m idx isst) :: stk', nx :: seen, add_ent c x m)
| SK_look lk nx c2 : nth_error (states A) x = Some (SLook lk nx) -> ~ In nx seen ->
    look_step v A root lk nx (add_ent c x m) = Some c2 ->
    step_kind v A root x m stk' seen c ((nx, m) :: stk', nx :: seen, c2).

Lemma clo_step_kind v A root x m stk' seen c s2 :
  v_right_first v = false ->
  clo_step v A root x m stk' seen c = Some s2 -> step_kind v A root x m stk' seen c s2.
Proof.
  intros Hrf. unfold clo_step. rewrite Hrf.
  destruct (nth_error (states A) x) as [[ | lo hi nx | trs | l r | nx | idx isst nx | lk nx | ]|] eqn:Hst; intros H.
  - cbn [add_ent c_match] in H. destruct (c_match c) eqn:Em; [discriminate|]. inversion H; subst. now apply SK_match.
  - inversion H; subst. eapply SK_leaf; eauto. exact I.
  - inversion H; subst. eapply SK_leaf; eauto. exact I.
  - destruct (push r m (stk', seen)) as [ss1|] eqn:E1; [|discriminate].
    apply push_some in E1 as [-> Hr].
    destruct (push l m ((r, m) :: stk', r :: seen)) as [ss2|] eqn:E2; [|discriminate].
    apply push_some in E2 as [-> Hl]. inversion H; subst. cbn [fst snd]. now apply SK_split.
  - destruct (push nx m (stk', seen)) as [ss1|] eqn:E1; [|discriminate].
    apply push_some in E1 as [-> Hn]. inversion H; subst. cbn [fst snd]. now apply SK_eps.
  - destruct (push nx (cap_mask m idx isst) (stk', seen)) as [ss1|] eqn:E1; [|discriminate].
    apply push_some in E1 as [-> Hn]. inversion H; subst. cbn [fst snd]. now apply SK_cap.
  - destruct (look_step v A root lk nx (add_ent c x m)) as [c2|] eqn:El; [|discriminate].
    destruct (push nx m (stk', seen)) as [ss1|] eqn:E1; [|discriminate].
    apply push_some in E1 as [-> Hn]. inversion H; subst. cbn [fst snd]. eapply SK_look; eauto.
  - inversion H; subst. eapply SK_leaf; eauto. exact I.
  - inversion H; subst. now apply SK_oob.
Qed.

Section CloFacts.
  Variable v : variant.
  Variable A : nfa.
  Variable root : nat.
  Hypothesis Hrf : v_right_first v = false.
  Hypothesis Hle : v_look_eps v = false.

  (* invariants of single steps hold at the end *)
  Lemma clo_loop_inv (P : list (nat * N) -> list nat -> clo -> Prop) :
    (forall x m stk' seen c s2 se2 c2, P ((x, m) :: stk') seen c ->
        step_kind v A root x m stk' seen c (s2, se2, c2) -> P s2 se2 c2) ->
    forall f stk seen cc c, clo_loop v A root f stk seen cc = Some c -> P stk seen cc ->
    exists seen', P [] seen' c.
  Proof.
    intros Hstep. induction f as [|f IH]; intros stk seen cc c H HP; [discriminate|].
    destruct stk as [|[x m] stk'].
    - cbn in H. inversion H; subst. now exists seen.
    - rewrite clo_loop_S in H.
      destruct (clo_step v A root x m stk' seen cc) as [[[s2 se2] c2]|] eqn:Es; [|discriminate].
      apply (clo_step_kind _ _ _ _ _ _ _ _ _ Hrf) in Es.
      apply (IH _ _ _ _ H). eapply Hstep; eauto.
  Qed.

  Lemma look_step_spec lk nx c1 c2 : look_step v A root lk nx c1 = Some c2 ->
    c_ents c2 = c_ents c1 /\ c_match c2 = c_match c1 /\ c_mask c2 = c_mask c1 /\
    ((lk = LStartText \/ lk = LStartLine) /\ root = start_anch A /\ c2 = set_slook c1 \/
     lk = LEndText /\ leads_only_to_match A nx = true /\ c2 = set_atend c1).
  Proof.
    unfold look_step. rewrite Hle.
    destruct lk; try discriminate.
    - destruct (Nat.eqb_spec root (start_anch A)); [|discriminate]. intros H; inversion H; subst.
      split; [reflexivity|]. split; [reflexivity|]. split; [reflexivity|]. left. auto.
    - destruct (leads_only_to_match A nx) eqn:E; [|discriminate]. intros H; inversion H; subst.
      split; [reflexivity|]. split; [reflexivity|]. split; [reflexivity|]. right. auto.
    - destruct (Nat.eqb_spec root (start_anch A)); [|discriminate]. intros H; inversion H; subst.
      split; [reflexivity|]. split; [reflexivity|]. split; [reflexivity|]. left. auto.
  Qed.

  (* entries are only appended *)
  Lemma clo_loop_prefix f stk seen cc c :
    clo_loop v A root f stk seen cc = Some c -> exists R, c_ents c = c_ents cc ++ R.
  Proof.
    intros H. set (P := fun (_ : list (nat * N)) (_ : list nat) (c' : clo) => exists R, c_ents c' = c_ents cc ++ R).
    assert (Hstep : forall x m stk' seen c s2 se2 c2, P ((x, m) :: stk') seen c ->
                step_kind v A root x m stk' seen c (s2, se2, c2) -> P s2 se2 c2).
    { unfold P. intros x m stk' seen0 c0 s2 se2 c2 [R HR] Hk.
      inversion Hk; subst; cbn [add_ent set_match c_ents]; try (rewrite HR; rewrite <- app_assoc; eexists; reflexivity).
      match goal with Hl : look_step _ _ _ _ _ _ = Some _ |- _ => apply look_step_spec in Hl as [He _]; rewrite He end.
      cbn [add_ent c_ents]. rewrite HR, <- app_assoc. eexists; reflexivity. }
    destruct (clo_loop_inv P Hstep _ _ _ _ _ H) as [se Hx]; [|exact Hx].
    exists []. now rewrite app_nil_r.
  Qed.

  Definition nomatch (es : list (nat * N)) : Prop := forall e, In e es -> is_match_at A (fst e) = false.

  (* at most one Match entry; it carries c_mask *)
  Definition MI (c : clo) : Prop :=
    (c_match c = false /\ nomatch (c_ents c)) \/
    (c_match c = true /\ exists bef x aft, c_ents c = bef ++ (x, c_mask c) :: aft /\
        is_match_at A x = true /\ nomatch bef /\ nomatch aft).

  Lemma nomatch_app a b : nomatch a -> nomatch b -> nomatch (a ++ b).
  Proof. intros Ha Hb e He. apply in_app_or in He as [He|He]; auto. Qed.

  Lemma nomatch_one x m : is_match_at A x = false -> nomatch [(x, m)].
  Proof. intros H e [<-|[]]. exact H. Qed.

  Lemma MI_add c x m : is_match_at A x = false -> MI c -> MI (add_ent c x m).
  Proof.
    intros Hx [[Hm Hn]|[Hm [bef [y [aft [He [Hy [Hb Ha]]]]]]]]; unfold MI; cbn [add_ent c_ents c_match c_mask].
    - left. split; [exact Hm|]. apply nomatch_app; [exact Hn|now apply nomatch_one].
    - right. split; [exact Hm|]. exists bef, y, (aft ++ [(x, m)]). rewrite He, <- app_assoc. cbn [app].
      repeat split; auto. apply nomatch_app; [exact Ha|now apply nomatch_one].
  Qed.

  Definition facts (cc c' : clo) : Prop :=
    (c_slook cc = true -> c_slook c' = true) /\ (c_atend cc = true -> c_atend c' = true) /\
    (c_slook c' = true -> c_slook cc = true \/ root = start_anch A) /\ (MI cc -> MI c').

  Lemma clo_loop_facts f stk seen cc c :
    clo_loop v A root f stk seen cc = Some c -> facts cc c.
  Proof.
    intros H. set (P := fun (_ : list (nat * N)) (_ : list nat) (c' : clo) => facts cc c').
    assert (Hstep : forall x m stk' seen c s2 se2 c2, P ((x, m) :: stk') seen c ->
                step_kind v A root x m stk' seen c (s2, se2, c2) -> P s2 se2 c2).
    { unfold P, facts. intros x m stk' seen0 c0 s2 se2 c2 [H1 [H2 [H3 H4]]] Hk.
      inversion Hk; subst; cbn [add_ent set_match c_slook c_atend].
      - repeat split; auto. intros HM. apply MI_add; [|exact (H4 HM)]. unfold is_match_at.
        match goal with Hs : nth_error _ x = Some st |- _ => rewrite Hs end. destruct st; try reflexivity; contradiction.
      - repeat split; auto. intros HM. apply MI_add; [|exact (H4 HM)]. unfold is_match_at.
        match goal with Hs : nth_error _ x = None |- _ => rewrite Hs end. reflexivity.
      - repeat split; auto. intros HM. right. cbn [c_match c_ents c_mask]. split; [reflexivity|].
        destruct (H4 HM) as [[_ Hn]|[Hm _]]; [|congruence].
        exists (c_ents c0), x, []. repeat split; auto.
        + unfold is_match_at. match goal with Hs : nth_error _ x = Some SMatch |- _ => rewrite Hs end. reflexivity.
        + intros e [].
      - repeat split; auto. intros HM. apply MI_add; [|exact (H4 HM)]. unfold is_match_at.
        match goal with Hs : nth_error _ x = Some _ |- _ => rewrite Hs end. reflexivity.
      - repeat split; auto. intros HM. apply MI_add; [|exact (H4 HM)]. unfold is_match_at.
        match goal with Hs : nth_error _ x = Some _ |- _ => rewrite Hs end. reflexivity.
      - repeat split; auto. intros HM. apply MI_add; [|exact (H4 HM)]. unfold is_match_at.
        match goal with Hs : nth_error _ x = Some _ |- _ => rewrite Hs end. reflexivity.
      - match goal with Hl : look_step _ _ _ _ _ _ = Some _ |- _ => apply look_step_spec in Hl as [He [Hm [Hk2 Hcase]]] end.
        assert (HMI2 : MI cc -> MI c2).
        { intros HM. assert (Hadd : MI (add_ent c0 x m)).
          { apply MI_add; [|exact (H4 HM)]. unfold is_match_at.
            match goal with Hs : nth_error _ x = Some _ |- _ => rewrite Hs end. reflexivity. }
          unfold MI in *. rewrite He, Hm, Hk2. exact Hadd. }
        destruct Hcase as [[_ [Hr ->]]|[_ [_ ->]]]; cbn [set_slook set_atend c_slook c_atend add_ent]; repeat split; auto. }
    destruct (clo_loop_inv P Hstep _ _ _ _ _ H) as [se Hx]; [|exact Hx].
    unfold P, facts. repeat split; auto.
  Qed.

  (* a `$` chain (epsilons and captures down to Match) cannot be passed once matched *)
  Lemma leads_chain0 : forall k nx, leads_only A k nx = true ->
    forall f m stk seen cc c, c_match cc = true ->
    clo_loop v A root f ((nx, m) :: stk) seen cc = Some c -> False.
  Proof.
    induction k as [|k IH]; intros nx Hl f m stk seen cc c Hm H; [discriminate|].
    cbn [leads_only] in Hl. destruct f as [|f]; [discriminate|].
    rewrite clo_loop_S in H. unfold clo_step in H.
    destruct (nth_error (states A) nx) as [[ | lo hi nx' | trs | l r | nx' | idx isst nx' | lk nx' | ]|]; try discriminate.
    - cbn [add_ent c_match] in H. rewrite Hm in H. discriminate.
    - destruct (push nx' m (stk, seen)) as [ss1|] eqn:E1; [|discriminate].
      apply push_some in E1 as [-> _]. cbn [fst snd] in H. eapply (IH nx' Hl); [|exact H]. exact Hm.
    - destruct (push nx' (cap_mask m idx isst) (stk, seen)) as [ss1|] eqn:E1; [|discriminate].
      apply push_some in E1 as [-> _]. cbn [fst snd] in H. eapply (IH nx' Hl); [|exact H]. exact Hm.
  Qed.

  Definition inert (e : nat * N) : Prop :=
    is_match_at A (fst e) = false /\ forall b, ent_target A (fst e) b = None.

  (* passing a `$` chain: its entries, then Match *)
  Lemma leads_chain : forall k nx, leads_only A k nx = true ->
    forall f m stk seen cc c, clo_loop v A root f ((nx, m) :: stk) seen cc = Some c ->
    exists f' seen' cc' chain xm mm, f' < f /\
      clo_loop v A root f' stk seen' cc' = Some c /\ (forall x, In x seen -> In x seen') /\
      c_ents cc' = c_ents cc ++ chain ++ [(xm, mm)] /\ is_match_at A xm = true /\
      (forall e, In e chain -> inert e) /\ c_match cc' = true /\ c_atend cc' = c_atend cc /\
      c_slook cc' = c_slook cc.
  Proof.
    induction k as [|k IH]; intros nx Hl f m stk seen cc c H; [discriminate|].
    cbn [leads_only] in Hl. destruct f as [|f]; [discriminate|].
    rewrite clo_loop_S in H. unfold clo_step in H.
    destruct (nth_error (states A) nx) as [[ | lo hi nx' | trs | l r | nx' | idx isst nx' | lk nx' | ]|] eqn:Hst; try discriminate.
    - cbn [add_ent c_match] in H. destruct (c_match cc); [discriminate|].
      exists f, seen, (set_match (add_ent cc nx m) m), [], nx, m. cbn [set_match add_ent c_ents c_match c_atend c_slook app].
      split; [lia|]. split; [exact H|]. split; [auto|]. split; [reflexivity|]. split; [unfold is_match_at; now rewrite Hst|].
      split; [intros e0 []|]. auto.
    - destruct (push nx' m (stk, seen)) as [ss1|] eqn:E1; [|discriminate].
      apply push_some in E1 as [-> _]. cbn [fst snd] in H.
      destruct (IH nx' Hl _ _ _ _ _ _ H) as [f' [seen' [cc' [chain [xm [mm [Hlt [H1 [H2 [H3 [H4 [H5 [H6 [H7 H8]]]]]]]]]]]]]].
      exists f', seen', cc', ((nx, m) :: chain), xm, mm. cbn [add_ent c_ents c_atend c_slook] in *.
      split; [lia|]. split; [exact H1|]. split; [intros x Hx; apply H2; now right|].
      split; [rewrite H3, <- app_assoc; reflexivity|]. split; [exact H4|].
      split; [|auto].
      intros e0 [<-|He]; [|now apply H5]. split; cbn [fst]; [unfold is_match_at|intros b; unfold ent_target]; now rewrite Hst.
    - destruct (push nx' (cap_mask m idx isst) (stk, seen)) as [ss1|] eqn:E1; [|discriminate].
      apply push_some in E1 as [-> _]. cbn [fst snd] in H.
      destruct (IH nx' Hl _ _ _ _ _ _ H) as [f' [seen' [cc' [chain [xm [mm [Hlt [H1 [H2 [H3 [H4 [H5 [H6 [H7 H8]]]]]]]]]]]]]].
      exists f', seen', cc', ((nx, m) :: chain), xm, mm. cbn [add_ent c_ents c_atend c_slook] in *.
      split; [lia|]. split; [exact H1|]. split; [intros x Hx; apply H2; now right|].
      split; [rewrite H3, <- app_assoc; reflexivity|]. split; [exact H4|].
      split; [|auto].
      intros e0 [<-|He]; [|now apply H5]. split; cbn [fst]; [unfold is_match_at|intros b; unfold ent_target]; now rewrite Hst.
  Qed.

  (* once matched, no `$` can follow: c_atend is final *)
  Lemma clo_atend_fixed : forall f stk seen cc c,
    clo_loop v A root f stk seen cc = Some c -> c_match cc = true -> c_atend c = c_atend cc.
  Proof.
    induction f as [|f IH]; intros stk seen cc c H Hm; [discriminate|].
    destruct stk as [|[x m] stk']; [cbn in H; inversion H; reflexivity|].
    rewrite clo_loop_S in H.
    destruct (clo_step v A root x m stk' seen cc) as [[[s2 se2] c2]|] eqn:Es; [|discriminate].
    apply (clo_step_kind _ _ _ _ _ _ _ _ _ Hrf) in Es.
    inversion Es; subst; try (rewrite (IH _ _ _ _ H); [reflexivity|exact Hm]).
    - congruence.
    - match goal with Hl : look_step _ _ _ _ _ _ = Some _ |- _ => apply look_step_spec in Hl as [He [Hm2 [Hk2 Hcase]]] end.
      destruct Hcase as [[_ [Hr ->]]|[_ [Hlo ->]]].
      + rewrite (IH _ _ _ _ H); [reflexivity|exact Hm].
      + exfalso. eapply (leads_chain0 _ _ Hlo); [|exact H]. exact Hm.
  Qed.
End CloFacts.

(* ------------------------------------------------------------------ the simulation *)
Section Sim.
  Variable v : variant.
  Hypothesis Hrf : v_right_first v = false.
  Hypothesis Hkm : v_keep_after_match v = false.
  Hypothesis Hle : v_look_eps v = false.
  Hypothesis Hbe : v_break_endonly v = false.
  Hypothesis Hom : v_or_masks v = false.
  Variable A : nfa.
  Variable h : hay.
  Hypothesis Hbytes : Forall (fun b => (b < 256)%N) h.
  Hypothesis Hwf : wf_nfa A = true.
  Hypothesis Hcap : ncaps A <= 16.
  Variable D : dfa.
  Let n := nstates A.
  Let mp := d_map D.
  Notation rdfs := (dfs A h PositiveSet.t (pmem n) (padd n)).
  Notation rdfs_list := (dfs_list A h PositiveSet.t (pmem n) (padd n)).

  Definition cfg := (nat * nat * slots)%type.
  Definition rres := (res (option (nat * slots)) * PositiveSet.t)%type.

  (* the pending work of the recursive dfs: one frame (fuel, remaining successors) per level *)
  Fixpoint run_frames (fs : list (nat * list cfg)) (V : PositiveSet.t) : rres :=
    match fs with
    | [] => (Done None, V)
    | (g, cs) :: fs' =>
        match rdfs_list g cs V with
        | (Done None, V') => run_frames fs' V'
        | r => r
        end
    end.

  Lemma run_frames_nil fs V : concat (map snd fs) = [] -> run_frames fs V = (Done None, V).
  Proof.
    induction fs as [|[g cs] fs IH]; intros H; [reflexivity|]. cbn [map snd concat] in H.
    apply app_eq_nil in H as [-> H]. cbn [run_frames dfs_list]. apply IH, H.
  Qed.

  Lemma run_frames_skip : forall fs V c0 rest, concat (map snd fs) = c0 :: rest ->
    exists g cs fs', run_frames fs V = run_frames ((g, c0 :: cs) :: fs') V /\
                     concat (map snd ((g, cs) :: fs')) = rest.
  Proof.
    induction fs as [|[g cs] fs IH]; intros V c0 rest H; [discriminate|]. cbn [map snd concat] in H.
    destruct cs as [|c1 cs].
    - cbn [app] in H. destruct (IH V c0 rest H) as [g' [cs' [fs' [H1 H2]]]].
      exists g', cs', fs'. split; [|exact H2]. rewrite <- H1. reflexivity.
    - cbn [app] in H. inversion H; subst. exists g, cs, fs. split; reflexivity.
  Qed.

  Lemma run_frames_cons g c0 cs fs' V :
    run_frames ((g, c0 :: cs) :: fs') V =
    match rdfs g (fst (fst c0)) (snd (fst c0)) (snd c0) V with
    | (Done None, V1) => run_frames ((g, cs) :: fs') V1
    | r => r
    end.
  Proof.
    destruct c0 as [[x p] sl]. cbn [run_frames dfs_list fst snd].
    destruct (rdfs g x p sl V) as [[|[r1|]] V1]; reflexivity.
  Qed.

  Lemma run_frames_pop g x p sl cs fs' V st :
    nth_error (states A) x = Some st -> pmem n x p V = false -> is_match_state st = false ->
    run_frames ((S g, (x, p, sl) :: cs) :: fs') V =
    run_frames ((g, succs h st p sl) :: (S g, cs) :: fs') (padd n x p V).
  Proof.
    intros Hst Hv Hm. rewrite run_frames_cons. cbn [fst snd]. rewrite dfs_unfold, Hst, Hv, Hm.
    cbn [run_frames].
    destruct (rdfs_list g (succs h st p sl) (padd n x p V)) as [[|[r1|]] V1]; reflexivity.
  Qed.

  Lemma wf_state' q st : nth_error (states A) q = Some st -> state_ok n (ncaps A) st = true.
  Proof.
    intros Hst. unfold wf_nfa in Hwf. apply andb_prop in Hwf as [H1 _]. apply andb_prop in H1 as [Hall _].
    rewrite forallb_forall in Hall. apply Hall. eapply nth_error_In; eauto.
  Qed.

  (* successors of a leaf *)
  Lemma succs_leaf x st p sl : nth_error (states A) x = Some st ->
    (match st with SByteRange _ _ _ | SSparse _ | SFail => True | _ => False end) ->
    succs h st p sl =
    match nth_error h p with
    | Some b => match ent_target A x b with Some t => [(t, S p, sl)] | None => [] end
    | None => []
    end.
  Proof.
    intros Hst Hk. unfold ent_target. rewrite Hst. destruct st; try contradiction; cbn [succs].
    - destruct (nth_error h p); [|reflexivity]. destruct (in_range lo hi n0); reflexivity.
    - destruct (nth_error h p); [|reflexivity]. destruct (sparse_next trs n0); reflexivity.
    - destruct (nth_error h p); reflexivity.
  Qed.

  Lemma ent_target_lt x b t : ent_target A x b = Some t -> t < n.
  Proof.
    unfold ent_target. destruct (nth_error (states A) x) as [st|] eqn:Hst; [|discriminate].
    pose proof (wf_state' _ _ Hst) as Hok. destruct st; try discriminate; cbn [state_ok] in Hok.
    - destruct (in_range lo hi b); [|discriminate]. intros H; inversion H; subst.
      apply andb_prop in Hok as [_ Hx]. now apply Nat.ltb_lt.
    - intros H. eapply sparse_next_lt; eauto.
  Qed.

  (* the continuation through target t with mask m, read off the table *)
  Definition cont (p : nat) (sl0 : slots) (t : nat) (m : N) : option (nat * slots) :=
    match lookup t mp with
    | Some nx => op_from D (skipn (S p) h) (S p) nx (apply_mask m p sl0)
    | None => None
    end.

  (* what the reference does on the entries of a closure, in order: the first byte leaf that
     matches continues (the later ones go to the same, already failed, target), a Match
     succeeds unless it lies behind a failing end-of-text assertion *)
  Fixpoint exp_scan (p : nat) (sl0 : slots) (atend : bool) (es : list (nat * N)) (tried : bool)
    : option (nat * slots) :=
    match es with
    | [] => None
    | (x, m) :: es' =>
        if is_match_at A x then
          (if atend && negb (p =? length h) then exp_scan p sl0 atend es' tried
           else Some (p, apply_mask m p sl0))
        else
          match nth_error h p with
          | None => exp_scan p sl0 atend es' tried
          | Some b =>
              match ent_target A x b with
              | None => exp_scan p sl0 atend es' tried
              | Some t =>
                  if tried then exp_scan p sl0 atend es' true else
                  match cont p sl0 t m with
                  | Some r => Some r
                  | None => exp_scan p sl0 atend es' true
                  end
              end
          end
    end.

  (* every byte leaf the reference can reach goes to T0 on the current byte *)
  Fixpoint HL (p : nat) (atend : bool) (T0 : option nat) (es : list (nat * N)) : Prop :=
    match es with
    | [] => True
    | (x, m) :: es' =>
        if is_match_at A x then (if atend && negb (p =? length h) then HL p atend T0 es' else True)
        else (forall b t, nth_error h p = Some b -> ent_target A x b = Some t -> T0 = Some t) /\ HL p atend T0 es'
    end.

  Lemma exp_scan_chain p sl0 chain xm mm R tried :
    (forall e, In e chain -> inert A e) -> is_match_at A xm = true -> p <> length h ->
    exp_scan p sl0 true (chain ++ (xm, mm) :: R) tried = exp_scan p sl0 true R tried.
  Proof.
    intros Hin Hm Hp. induction chain as [|[x m] chain IH]; cbn [app exp_scan].
    - rewrite Hm. cbn [andb]. replace (p =? length h) with false by (symmetry; now apply Nat.eqb_neq). reflexivity.
    - destruct (Hin (x, m) (or_introl eq_refl)) as [H1 H2]. cbn [fst] in H1, H2. rewrite H1.
      destruct (nth_error h p) as [b|]; [rewrite H2|]; apply IH; intros e He; apply Hin; now right.
  Qed.

  Lemma HL_chain p T0 chain xm mm R :
    (forall e, In e chain -> inert A e) -> is_match_at A xm = true -> p <> length h ->
    HL p true T0 (chain ++ (xm, mm) :: R) -> HL p true T0 R.
  Proof.
    intros Hin Hm Hp. induction chain as [|[x m] chain IH]; cbn [app HL].
    - rewrite Hm. cbn [andb]. replace (p =? length h) with false by (symmetry; now apply Nat.eqb_neq). auto.
    - destruct (Hin (x, m) (or_introl eq_refl)) as [H1 H2]. cbn [fst] in H1. rewrite H1.
      intros [_ H]. apply IH; [|exact H]. intros e He; apply Hin; now right.
  Qed.

  (* a non-leaf, non-match entry is skipped *)
  Lemma exp_scan_skip p sl0 atend x m es tried :
    is_match_at A x = false -> (forall b, ent_target A x b = None) ->
    exp_scan p sl0 atend ((x, m) :: es) tried = exp_scan p sl0 atend es tried.
  Proof. intros H1 H2. cbn [exp_scan]. rewrite H1. destruct (nth_error h p); [rewrite H2|]; reflexivity. Qed.

  Lemma HL_tail p atend T0 x m es : is_match_at A x = false -> HL p atend T0 ((x, m) :: es) -> HL p atend T0 es.
  Proof. intros H1. cbn [HL]. rewrite H1. tauto. Qed.

  Definition Vpos (p : nat) (V : PositiveSet.t) (stk : list (nat * N)) (seen : list nat) : Prop :=
    forall x, x < n -> pmem n x p V = true -> In x seen /\ ~ In x (map fst stk).
  Definition Vabove (p : nat) (V : PositiveSet.t) : Prop :=
    forall x p', x < n -> p < p' -> pmem n x p' V = false.

  Lemma Vpos_pop p V x m stk' seen : Vpos p V ((x, m) :: stk') seen -> x < n -> In x seen ->
    NoDup (x :: map fst stk') -> Vpos p (padd n x p V) stk' seen.
  Proof.
    intros HV Hx Hin Hnd y Hy Hm. destruct (Nat.eq_dec y x) as [->|Hne].
    - split; [exact Hin|]. now inversion Hnd.
    - rewrite pmem_padd_other in Hm; auto; [|intros E; inversion E; congruence].
      destruct (HV y Hy Hm) as [H1 H2]. split; [exact H1|]. intros Hi. apply H2. cbn [map fst]. now right.
  Qed.

  Lemma Vpos_push p V stk seen y m' : Vpos p V stk seen -> ~ In y seen ->
    Vpos p V ((y, m') :: stk) (y :: seen).
  Proof.
    intros HV Hy z Hz Hm. destruct (HV z Hz Hm) as [H1 H2]. split; [now right|].
    cbn [map fst]. intros [E|Hi]; [subst; contradiction|contradiction].
  Qed.

  Lemma Vpos_seen p V stk seen seen' : Vpos p V stk seen -> (forall x, In x seen -> In x seen') -> Vpos p V stk seen'.
  Proof. intros HV Hs z Hz Hm. destruct (HV z Hz Hm) as [H1 H2]. split; auto. Qed.

  Lemma Vabove_padd p V x : Vabove p V -> x < n -> Vabove p (padd n x p V).
  Proof.
    intros HV Hx y p' Hy Hp'. rewrite pmem_padd_other; auto. intros E. inversion E. lia.
  Qed.

  Lemma is_match_at_state x st : nth_error (states A) x = Some st -> is_match_at A x = is_match_state st.
  Proof. intros H. unfold is_match_at. rewrite H. destruct st; reflexivity. Qed.

  Lemma ent_target_nonleaf x st : nth_error (states A) x = Some st ->
    (match st with SByteRange _ _ _ | SSparse _ => False | _ => True end) -> forall b, ent_target A x b = None.
  Proof. intros H Hk b. unfold ent_target. rewrite H. destruct st; try reflexivity; contradiction. Qed.

  Section W.
    Variables (p q : nat) (c : clo) (sl0 : slots) (T0 : option nat).
    Hypothesis Hp : p <= length h.
    Hypothesis IHM : forall t nx sl V f r V', T0 = Some t -> lookup t mp = Some nx -> Vabove p V ->
        rdfs f t (S p) sl V = (Done r, V') -> r = op_from D (skipn (S p) h) (S p) nx sl.
    Hypothesis HT0 : forall t, T0 = Some t -> exists nx, lookup t mp = Some nx.
    Hypothesis Hsl : c_slook c = true -> p = 0.

    Definition Wgoal (f : nat) : Prop := forall stk seen cc R fs V tried r V',
      clo_loop v A q f stk seen cc = Some c ->
      c_ents c = c_ents cc ++ R ->
      Forall (fun xm => fst xm < n) stk -> NoDup (map fst stk) -> incl (map fst stk) seen ->
      Vpos p V stk seen ->
      concat (map snd fs) = map (fun xm => (fst xm, p, apply_mask (snd xm) p sl0)) stk ->
      (tried = false -> Vabove p V) ->
      (tried = true -> exists t0, T0 = Some t0 /\ pmem n t0 (S p) V = true) ->
      (p < length h -> c_atend cc = true -> c_match cc = true) ->
      HL p (c_atend c) T0 R ->
      run_frames fs V = (Done r, V') ->
      r = exp_scan p sl0 (c_atend c) R tried.

    (* the popped entry has one successor y at the same position, pushed with mask m' *)
    Lemma W_one f (IH : forall f', f' < S f -> Wgoal f') x m stk' seen cc R fs' V tried r V' g cs st y m' c2 :
      clo_loop v A q f ((y, m') :: stk') (y :: seen) c2 = Some c ->
      c_ents c2 = c_ents cc ++ [(x, m)] -> c_ents c = c_ents cc ++ R ->
      (p < length h -> c_atend c2 = true -> c_match c2 = true) ->
      nth_error (states A) x = Some st -> is_match_state st = false ->
      (match st with SByteRange _ _ _ | SSparse _ => False | _ => True end) ->
      succs h st p (apply_mask m p sl0) = [(y, p, apply_mask m' p sl0)] ->
      y < n -> ~ In y seen ->
      Forall (fun xm => fst xm < n) ((x, m) :: stk') -> NoDup (map fst ((x, m) :: stk')) ->
      incl (map fst ((x, m) :: stk')) seen ->
      Vpos p V ((x, m) :: stk') seen ->
      concat (map snd ((S g, cs) :: fs')) = map (fun xm => (fst xm, p, apply_mask (snd xm) p sl0)) stk' ->
      (tried = false -> Vabove p V) ->
      (tried = true -> exists t0, T0 = Some t0 /\ pmem n t0 (S p) V = true) ->
      HL p (c_atend c) T0 R ->
      run_frames ((S g, (x, p, apply_mask m p sl0) :: cs) :: fs') V = (Done r, V') ->
      r = exp_scan p sl0 (c_atend c) R tried.
    Proof.
      intros Hloop He2 HR Hinvm Hst Hms Hnl Hsucc Hy Hys Hlt Hnd Hinc HV Hfs Hfresh Htried HHL Hrun.
      assert (Hxn : x < n) by (inversion Hlt; assumption).
      assert (Hxs : In x seen) by (apply Hinc; now left).
      assert (Hxv : pmem n x p V = false).
      { destruct (pmem n x p V) eqn:E; [|reflexivity]. destruct (HV x Hxn E) as [_ Hni]. exfalso. apply Hni. now left. }
      destruct (clo_loop_prefix v A q Hrf Hle _ _ _ _ _ Hloop) as [R' HR''].
      assert (HRR : R = (x, m) :: R').
      { rewrite HR'', He2, <- app_assoc in HR. apply app_inv_head in HR. symmetry. exact HR. }
      subst R.
      rewrite (run_frames_pop g x p _ cs fs' V st Hst Hxv Hms), Hsucc in Hrun.
      assert (Hmx : is_match_at A x = false) by (rewrite (is_match_at_state _ _ Hst); exact Hms).
      rewrite (exp_scan_skip p sl0 _ x m R' tried Hmx (ent_target_nonleaf _ _ Hst Hnl)).
      apply HL_tail in HHL; [|exact Hmx].
      cbn [map fst] in Hnd, Hinc.
      eapply (IH f (Nat.lt_succ_diag_r f)); [exact Hloop|exact HR''| | | | | |exact (fun E => Vabove_padd p V x (Hfresh E) Hxn)| |exact Hinvm|exact HHL|exact Hrun].
      - constructor; [exact Hy|]. now inversion Hlt.
      - cbn [map fst]. constructor; [|now inversion Hnd].
        intros Hi. apply Hys. apply Hinc. now right.
      - cbn [map fst]. intros z [<-|Hz]; [now left|]. right. apply Hinc. now right.
      - apply Vpos_push; [|exact Hys]. apply (Vpos_pop p V x m stk' seen HV Hxn Hxs Hnd).
      - cbn [map snd concat fst]. cbn [map snd concat] in Hfs. rewrite Hfs. reflexivity.
      - intros E. destruct (Htried E) as [t0 [H1 H2]]. exists t0. split; [exact H1|]. now apply pmem_padd_mono.
    Qed.

    Lemma run_frames_nil_frame g fs V : run_frames ((g, []) :: fs) V = run_frames fs V.
    Proof. reflexivity. Qed.

    Lemma slot_lt32 x idx isst nx : nth_error (states A) x = Some (SCapture idx isst nx) -> slot_of idx isst < 32.
    Proof.
      intros Hst. pose proof (wf_state' _ _ Hst) as Hok. cbn [state_ok] in Hok.
      apply andb_prop in Hok as [Hi _]. apply Nat.ltb_lt in Hi. unfold slot_of. destruct isst; lia.
    Qed.

    Lemma W : forall f, Wgoal f.
    Proof.
      induction f as [f IH] using lt_wf_ind. unfold Wgoal.
      intros stk seen cc R fs V tried r V' Hloop HR Hlt Hnd Hinc HV Hfs Hfresh Htried Hinvm HHL Hrun.
      destruct f as [|f]; [discriminate|].
      destruct stk as [|[x m] stk'].
      { cbn in Hloop. inversion Hloop; subst cc.
        assert (R = []) by (rewrite <- (app_nil_r (c_ents c)) in HR at 1; apply app_inv_head in HR; auto). subst R.
        rewrite run_frames_nil in Hrun by exact Hfs. inversion Hrun. reflexivity. }
      rewrite clo_loop_S in Hloop.
      destruct (clo_step v A q x m stk' seen cc) as [[[s2 se2] c2]|] eqn:Es; [|discriminate].
      apply (clo_step_kind _ _ _ _ _ _ _ _ _ Hrf) in Es.
      cbn [map fst snd] in Hfs.
      destruct (run_frames_skip _ V _ _ Hfs) as [g [cs [fs' [Hr1 Hr2]]]]. rewrite Hr1 in Hrun.
      destruct g as [|g]; [rewrite run_frames_cons in Hrun; cbn in Hrun; discriminate|].
      assert (Hxn : x < n) by (inversion Hlt; assumption).
      assert (Hxs : In x seen) by (apply Hinc; now left).
      assert (Hxv : pmem n x p V = false).
      { destruct (pmem n x p V) eqn:E; [|reflexivity]. destruct (HV x Hxn E) as [_ Hni]. exfalso. apply Hni. now left. }
      assert (HV1 : Vpos p (padd n x p V) stk' seen) by (apply (Vpos_pop p V x m stk' seen HV Hxn Hxs Hnd)).
      assert (Hlt' : Forall (fun xm => fst xm < n) stk') by (now inversion Hlt).
      assert (Hnd' : NoDup (map fst stk')) by (now inversion Hnd).
      assert (Hinc' : incl (map fst stk') seen) by (intros z Hz; apply Hinc; now right).
      inversion Es as [st Hst Hkind | Hnone | Hst Hcm | l r0 Hst Hr0 Hl | nx Hst Hnx | idx isst nx Hst Hnx | lk nx c2' Hst Hnx Hlook]; subst s2 se2 c2.
      - (* leaf *)
        destruct (clo_loop_prefix v A q Hrf Hle _ _ _ _ _ Hloop) as [R' HR''].
        assert (HRR : R = (x, m) :: R').
        { rewrite HR'' in HR. cbn [add_ent c_ents] in HR. rewrite <- app_assoc in HR. apply app_inv_head in HR. symmetry; exact HR. }
        subst R.
        assert (Hms : is_match_state st = false) by (destruct st; try contradiction; reflexivity).
        rewrite (run_frames_pop g x p _ cs fs' V st Hst Hxv Hms) in Hrun. rewrite (succs_leaf x st p _ Hst Hkind) in Hrun.
        assert (Hmx : is_match_at A x = false) by (rewrite (is_match_at_state _ _ Hst); exact Hms).
        cbn [exp_scan]. rewrite Hmx. cbn [HL] in HHL. rewrite Hmx in HHL. destruct HHL as [HHL1 HHL2].
        assert (Hgo : forall V2 tried2 r2, Vpos p V2 stk' seen -> (tried2 = false -> Vabove p V2) ->
                   (tried2 = true -> exists t0, T0 = Some t0 /\ pmem n t0 (S p) V2 = true) ->
                   run_frames ((S g, cs) :: fs') V2 = (Done r2, V') -> r2 = exp_scan p sl0 (c_atend c) R' tried2).
        { intros V2 tried2 r2 G1 G2 G3 G4.
          eapply (IH f (Nat.lt_succ_diag_r f)); [exact Hloop|exact HR''|exact Hlt'|exact Hnd'|exact Hinc'|exact G1|exact Hr2|exact G2|exact G3|exact Hinvm|exact HHL2|exact G4]. }
        assert (Hfr1 : tried = false -> Vabove p (padd n x p V)) by (intros E; apply Vabove_padd; auto).
        assert (Htr1 : tried = true -> exists t0, T0 = Some t0 /\ pmem n t0 (S p) (padd n x p V) = true).
        { intros E. destruct (Htried E) as [t0 [H1 H2]]. exists t0. split; [exact H1|]. now apply pmem_padd_mono. }
        destruct (nth_error h p) as [b|] eqn:Hb.
        2:{ rewrite run_frames_nil_frame in Hrun. eapply Hgo; eauto. }
        destruct (ent_target A x b) as [t|] eqn:Et.
        2:{ rewrite run_frames_nil_frame in Hrun. eapply Hgo; eauto. }
        pose proof (HHL1 b t eq_refl Et) as HT.
        pose proof (ent_target_lt _ _ _ Et) as Htn.
        assert (HSp : S p <= length h) by (apply nth_error_Some_lt' in Hb; clear - Hb; lia).
        rewrite run_frames_cons in Hrun. cbn [fst snd] in Hrun.
        destruct (rdfs g t (S p) (apply_mask m p sl0) (padd n x p V)) as [r1 V2] eqn:E1.
        destruct tried.
        + destruct (Htr1 eq_refl) as [t0 [Ht0 Hmem]]. rewrite HT in Ht0. inversion Ht0; subst t0.
          destruct g as [|g']; [cbn in E1; inversion E1; subst; discriminate|].
          rewrite dfs_unfold in E1.
          destruct (nth_error (states A) t) as [st'|] eqn:Hst'.
          2:{ apply nth_error_None in Hst'. unfold n, nstates in Htn. clear - Hst' Htn. lia. }
          rewrite Hmem in E1. inversion E1; subst r1 V2.
          rewrite run_frames_nil_frame in Hrun. eapply Hgo; eauto.
        + destruct r1 as [|ro]; [discriminate|].
          destruct (HT0 t HT) as [nx Hnxl].
          pose proof (IHM t nx _ _ g ro V2 HT Hnxl (Hfr1 eq_refl) E1) as Hro.
          unfold cont. rewrite Hnxl, <- Hro.
          destruct ro as [res|]; [inversion Hrun; reflexivity|].
          rewrite run_frames_nil_frame in Hrun. eapply (Hgo V2 true); [| |intros _|exact Hrun].
          * intros z Hz Hm2. apply HV1; [exact Hz|].
            pose proof (dfs_frame' A h g _ _ _ _ _ _ HSp E1 z p Hz (Nat.lt_succ_diag_r p)) as Hf. fold n in Hf.
            rewrite <- Hf. exact Hm2.
          * discriminate.
          * exists t. split; [exact HT|]. eapply dfs_none_mem; eauto.
      - (* out of range: impossible *)
        apply nth_error_None in Hnone. unfold n, nstates in Hxn. clear - Hnone Hxn. lia.
      - (* Match *)
        destruct (clo_loop_prefix v A q Hrf Hle _ _ _ _ _ Hloop) as [R' HR''].
        assert (HRR : R = (x, m) :: R').
        { rewrite HR'' in HR. cbn [set_match add_ent c_ents] in HR. rewrite <- app_assoc in HR. apply app_inv_head in HR. symmetry; exact HR. }
        subst R.
        rewrite run_frames_cons in Hrun. cbn [fst snd] in Hrun. rewrite dfs_unfold, Hst, Hxv in Hrun.
        cbn [is_match_state] in Hrun. inversion Hrun; subst.
        cbn [exp_scan]. rewrite (is_match_at_state _ _ Hst). cbn [is_match_state].
        destruct (c_atend c && negb (p =? length h)) eqn:E; [|reflexivity]. exfalso.
        apply andb_prop in E as [E1 E2]. apply negb_true_iff, Nat.eqb_neq in E2.
        assert (Hpl : p < length h) by (clear - Hp E2; lia).
        assert (Hac : c_atend cc = false).
        { destruct (c_atend cc) eqn:Ea; [|reflexivity]. rewrite (Hinvm Hpl eq_refl) in Hcm. discriminate. }
        rewrite (clo_atend_fixed v A q Hrf Hle _ _ _ _ _ Hloop eq_refl) in E1.
        cbn [set_match add_ent c_atend] in E1. congruence.
      - (* Split *)
        destruct (clo_loop_prefix v A q Hrf Hle _ _ _ _ _ Hloop) as [R' HR''].
        assert (HRR : R = (x, m) :: R').
        { rewrite HR'' in HR. cbn [add_ent c_ents] in HR. rewrite <- app_assoc in HR. apply app_inv_head in HR. symmetry; exact HR. }
        subst R.
        pose proof (wf_state' _ _ Hst) as Hok. cbn [state_ok] in Hok. apply andb_prop in Hok as [Hln Hrn].
        apply Nat.ltb_lt in Hln, Hrn.
        rewrite (run_frames_pop g x p _ cs fs' V _ Hst Hxv eq_refl) in Hrun. cbn [succs] in Hrun.
        assert (Hmx : is_match_at A x = false) by (rewrite (is_match_at_state _ _ Hst); reflexivity).
        rewrite (exp_scan_skip p sl0 _ x m R' tried Hmx (ent_target_nonleaf _ _ Hst I)).
        apply HL_tail in HHL; [|exact Hmx].
        eapply (IH f (Nat.lt_succ_diag_r f)); [exact Hloop|exact HR''| | | | | |exact (fun E => Vabove_padd p V x (Hfresh E) Hxn)| |exact Hinvm|exact HHL|exact Hrun].
        + constructor; [exact Hln|]. constructor; [exact Hrn|]. exact Hlt'.
        + cbn [map fst]. constructor.
          * intros [E|Hi]; [apply Hl; now left|]. apply Hl. right. now apply Hinc'.
          * constructor; [|exact Hnd']. intros Hi. apply Hr0. now apply Hinc'.
        + cbn [map fst]. intros z [<-|[<-|Hz]]; [now left|right; now left|]. right. right. now apply Hinc'.
        + apply Vpos_push; [|exact Hl]. apply Vpos_push; [|exact Hr0]. exact HV1.
        + cbn [map snd concat fst]. cbn [map snd concat] in Hr2. cbn [app]. do 2 f_equal. exact Hr2.
        + intros E. destruct (Htried E) as [t0 [H1 H2]]. exists t0. split; [exact H1|]. now apply pmem_padd_mono.
      - (* Epsilon *)
        pose proof (wf_state' _ _ Hst) as Hok. cbn [state_ok] in Hok. apply Nat.ltb_lt in Hok.
        eapply (W_one f IH x m stk' seen cc R fs' V tried r V' g cs _ nx m _ Hloop eq_refl HR Hinvm Hst eq_refl I eq_refl Hok Hnx Hlt Hnd Hinc HV Hr2 Hfresh Htried HHL Hrun).
      - (* Capture *)
        pose proof (wf_state' _ _ Hst) as Hok. cbn [state_ok] in Hok. apply andb_prop in Hok as [_ Hok]. apply Nat.ltb_lt in Hok.
        assert (Hsucc : succs h (SCapture idx isst nx) p (apply_mask m p sl0) = [(nx, p, apply_mask (cap_mask m idx isst) p sl0)]).
        { cbn [succs]. rewrite (apply_mask_cap m idx isst p sl0 (slot_lt32 _ _ _ _ Hst)). reflexivity. }
        eapply (W_one f IH x m stk' seen cc R fs' V tried r V' g cs _ nx _ _ Hloop eq_refl HR Hinvm Hst eq_refl I Hsucc Hok Hnx Hlt Hnd Hinc HV Hr2 Hfresh Htried HHL Hrun).
      - (* Look *)
        pose proof (wf_state' _ _ Hst) as Hok. cbn [state_ok] in Hok. apply Nat.ltb_lt in Hok.
        destruct (look_step_spec v A q Hle _ _ _ _ Hlook) as [He [Hm2 [Hk2 Hcase]]].
        destruct (clo_loop_facts v A q Hrf Hle _ _ _ _ _ Hloop) as [Fsl [Fat [_ _]]].
        destruct Hcase as [[Hlk [Hq Hc2]]|[Hlk [Hlo Hc2]]]; subst c2'.
        + (* start assertion: p = 0 *)
          assert (Hp0 : p = 0) by (apply Hsl, Fsl; reflexivity).
          assert (Hsucc : succs h (SLook lk nx) p (apply_mask m p sl0) = [(nx, p, apply_mask m p sl0)]).
          { cbn [succs]. rewrite Hp0. destruct Hlk as [->| ->]; reflexivity. }
          eapply (W_one f IH x m stk' seen cc R fs' V tried r V' g cs _ nx m _ Hloop eq_refl HR Hinvm Hst eq_refl I Hsucc Hok Hnx Hlt Hnd Hinc HV Hr2 Hfresh Htried HHL Hrun).
        + (* end of text *)
          subst lk.
          destruct (Nat.eq_dec p (length h)) as [Hpe|Hpne].
          * assert (Hsucc : succs h (SLook LEndText nx) p (apply_mask m p sl0) = [(nx, p, apply_mask m p sl0)]).
            { cbn [succs look_ok]. rewrite (proj2 (Nat.eqb_eq _ _) Hpe). reflexivity. }
            assert (Hinvm' : p < length h -> c_atend (set_atend (add_ent cc x m)) = true -> c_match (set_atend (add_ent cc x m)) = true)
              by (intros Hpl; clear - Hpl Hpe; lia).
            eapply (W_one f IH x m stk' seen cc R fs' V tried r V' g cs _ nx m _ Hloop eq_refl HR Hinvm' Hst eq_refl I Hsucc Hok Hnx Hlt Hnd Hinc HV Hr2 Hfresh Htried HHL Hrun).
          * (* the assertion fails: the reference skips the chain below it *)
            unfold leads_only_to_match in Hlo.
            destruct (leads_chain v A q Hrf Hle _ _ Hlo _ _ _ _ _ _ Hloop)
              as [f' [seen' [cc' [chain [xm [mm [Hlt2 [H1 [H2 [H3 [H4 [H5 [H6 [H7 H8]]]]]]]]]]]]]].
            destruct (clo_loop_prefix v A q Hrf Hle _ _ _ _ _ H1) as [R'' HR''].
            assert (HRR : R = (x, m) :: chain ++ (xm, mm) :: R'').
            { rewrite HR'', H3 in HR. cbn [set_atend add_ent c_ents] in HR. rewrite <- !app_assoc in HR.
              apply app_inv_head in HR. cbn [app] in HR. symmetry. exact HR. }
            subst R.
            assert (Hatc : c_atend c = true).
            { destruct (clo_loop_facts v A q Hrf Hle _ _ _ _ _ H1) as [_ [Fat' _]]. apply Fat'. rewrite H7. reflexivity. }
            rewrite Hatc in HHL |- *.
            rewrite (run_frames_pop g x p _ cs fs' V _ Hst Hxv eq_refl) in Hrun. cbn [succs look_ok] in Hrun.
            replace (p =? length h) with false in Hrun by (symmetry; now apply Nat.eqb_neq).
            rewrite run_frames_nil_frame in Hrun.
            assert (Hmx : is_match_at A x = false) by (rewrite (is_match_at_state _ _ Hst); reflexivity).
            rewrite (exp_scan_skip p sl0 _ x m _ tried Hmx (ent_target_nonleaf _ _ Hst I)).
            rewrite (exp_scan_chain p sl0 chain xm mm R'' tried H5 H4 Hpne).
            apply HL_tail in HHL; [|exact Hmx]. apply (HL_chain p T0 chain xm mm R'' H5 H4 Hpne) in HHL.
            rewrite <- Hatc in HHL |- *.
            assert (Hf' : f' < S f) by (clear - Hlt2; lia).
            eapply (IH f' Hf'); [exact H1|exact HR''|exact Hlt'|exact Hnd'| | |exact Hr2| | | |exact HHL|exact Hrun].
            -- intros z Hz. apply H2. right. apply Hinc'. exact Hz.
            -- eapply Vpos_seen; [exact HV1|]. intros z Hz. apply H2. now right.
            -- exact (fun E => Vabove_padd p V x (Hfresh E) Hxn).
            -- intros E. destruct (Htried E) as [t0 [G1 G2]]. exists t0. split; [exact G1|]. now apply pmem_padd_mono.
            -- intros _ _. exact H6.
    Qed.
  End W.

  (* ---------------------------------------------------------------- the table invariant *)
  Definition row_ok (q sid : nat) : Prop :=
    sid <> 0 /\ q < n /\ exists c, closure v A q = Some c /\
      r_match (row_of D sid) = c_match c /\
      r_mslots (row_of D sid) = (if c_match c then c_mask c else 0%N) /\
      r_endonly (row_of D sid) = c_match c && c_atend c /\
      (c_slook c = true -> forall q' s' b, lookup q' mp = Some s' -> (b < 256)%N -> fst (trans D s' b) <> sid) /\
      forall b, (b < 256)%N ->
        match bt_for v A c b with
        | None => False
        | Some None => fst (trans D sid b) = 0
        | Some (Some (t, m)) => snd (trans D sid b) = m /\ lookup t mp = Some (fst (trans D sid b))
        end.
  Definition tinv : Prop := forall q sid, lookup q mp = Some sid -> row_ok q sid.

  Lemma bt_for_cur c b : bt_for v A c b = bt_scan A (negb (c_match c && c_atend c)) true b (c_ents c) None.
  Proof. unfold bt_for, stops. rewrite Hkm, Hbe, Hom. reflexivity. Qed.

  Lemma ent_target_match x b : is_match_at A x = true -> ent_target A x b = None.
  Proof.
    unfold is_match_at, ent_target. destruct (nth_error (states A) x) as [[]|]; try discriminate. reflexivity.
  Qed.

  (* no conflict: the accumulator is final, and every reachable leaf on b goes to its target *)
  Lemma bt_scan_HL p b atend : nth_error h p = Some b ->
    forall es acc r, bt_scan A (negb atend) true b es acc = Some r ->
    (forall a, acc = Some a -> r = Some a) /\
    ((forall a, acc = Some a -> True) -> HL p atend (option_map fst r) es).
  Proof.
    intros Hb. assert (Hpl : p < length h) by (eapply nth_error_Some_lt'; eauto).
    assert (Hpe : (p =? length h) = false) by (apply Nat.eqb_neq; clear - Hpl; lia).
    induction es as [|[x m] es IH]; intros acc r H; cbn [bt_scan] in H.
    - inversion H; subst. split; [auto|]. intros _. exact I.
    - destruct (is_match_at A x) eqn:Hm.
      + destruct atend; cbn [negb andb] in H.
        * rewrite (ent_target_match x b Hm) in H. destruct (IH _ _ H) as [H1 H2].
          split; [exact H1|]. intros _. cbn [HL]. rewrite Hm, Hpe. cbn [andb negb]. apply H2. auto.
        * inversion H; subst. split; [auto|]. intros _. cbn [HL]. rewrite Hm. cbn [andb]. exact I.
      + rewrite andb_false_r in H. destruct (ent_target A x b) as [t|] eqn:Et.
        * destruct acc as [[t0 m0]|].
          -- destruct (Nat.eqb_spec t0 t) as [->|Hne]; [|discriminate].
             destruct (IH _ _ H) as [H1 H2]. split; [exact H1|]. intros _. cbn [HL]. rewrite Hm.
             split; [|apply H2; auto]. intros b' t' Hb' Et'. rewrite Hb in Hb'. inversion Hb'; subst b'.
             rewrite Et in Et'. inversion Et'; subst t'. rewrite (H1 _ eq_refl). reflexivity.
          -- destruct (IH _ _ H) as [H1 H2]. split; [intros a Ha; discriminate|]. intros _. cbn [HL]. rewrite Hm.
             split; [|apply H2; auto]. intros b' t' Hb' Et'. rewrite Hb in Hb'. inversion Hb'; subst b'.
             rewrite Et in Et'. inversion Et'; subst t'. rewrite (H1 _ eq_refl). reflexivity.
        * destruct (IH _ _ H) as [H1 H2]. split; [exact H1|]. intros _. cbn [HL]. rewrite Hm.
          split; [|apply H2; auto]. intros b' t' Hb' Et'. rewrite Hb in Hb'. inversion Hb'; subst b'. congruence.
  Qed.

  (* the first matching leaf decides; afterwards only the Match of the closure is left *)
  Lemma exp_scan_bt p sl0 b atend : nth_error h p = Some b ->
    forall es r, bt_scan A (negb atend) true b es None = Some r ->
    exp_scan p sl0 atend es false =
    match r with
    | Some (t, m) => match cont p sl0 t m with Some x => Some x | None => exp_scan p sl0 atend es true end
    | None => exp_scan p sl0 atend es true
    end.
  Proof.
    intros Hb. assert (Hpl : p < length h) by (eapply nth_error_Some_lt'; eauto).
    assert (Hpe : (p =? length h) = false) by (apply Nat.eqb_neq; clear - Hpl; lia).
    induction es as [|[x m] es IH]; intros r H; cbn [bt_scan] in H.
    - inversion H; subst. reflexivity.
    - cbn [exp_scan]. destruct (is_match_at A x) eqn:Hm.
      + destruct atend; cbn [negb andb] in H.
        * rewrite (ent_target_match x b Hm) in H. rewrite Hpe. cbn [andb negb]. apply IH, H.
        * inversion H; subst. cbn [andb]. reflexivity.
      + rewrite andb_false_r in H. rewrite Hb. destruct (ent_target A x b) as [t|] eqn:Et.
        * destruct (bt_scan_HL p b atend Hb _ _ _ H) as [H1 _]. rewrite (H1 _ eq_refl). reflexivity.
        * apply IH, H.
  Qed.

  Lemma exp_scan_quiet p sl0 atend tried : tried = true \/ nth_error h p = None ->
    forall bef rest, nomatch A bef ->
    exp_scan p sl0 atend (bef ++ rest) tried = exp_scan p sl0 atend rest tried.
  Proof.
    intros Hq. induction bef as [|[x m] bef IH]; intros rest Hn; [reflexivity|].
    cbn [app exp_scan]. pose proof (Hn (x, m) (or_introl eq_refl)) as Hx. cbn [fst] in Hx. rewrite Hx.
    assert (Hn' : nomatch A bef) by (intros e He; apply Hn; now right).
    destruct Hq as [->|Hnb].
    - destruct (nth_error h p); [destruct (ent_target A x n0)|]; apply IH, Hn'.
    - rewrite Hnb. apply IH, Hn'.
  Qed.

  Lemma exp_scan_final p sl0 c tried : MI A c -> tried = true \/ nth_error h p = None ->
    exp_scan p sl0 (c_atend c) (c_ents c) tried =
    if c_match c && negb (c_atend c && negb (p =? length h))
    then Some (p, apply_mask (c_mask c) p sl0) else None.
  Proof.
    intros [[Hm Hn]|[Hm [bef [x [aft [He [Hx [Hb Ha]]]]]]]] Hq; rewrite Hm; cbn [andb].
    - rewrite <- (app_nil_r (c_ents c)). rewrite (exp_scan_quiet p sl0 _ tried Hq _ [] Hn). reflexivity.
    - rewrite He, (exp_scan_quiet p sl0 _ tried Hq bef _ Hb). cbn [exp_scan]. rewrite Hx.
      destruct (c_atend c && negb (p =? length h)); cbn [negb]; [|reflexivity].
      rewrite <- (app_nil_r aft). rewrite (exp_scan_quiet p sl0 _ tried Hq aft [] Ha). reflexivity.
  Qed.

  Lemma bt_scan_nomatch s1 s2 b : forall es acc, nomatch A es ->
    bt_scan A s1 true b es acc = bt_scan A s2 true b es acc.
  Proof.
    induction es as [|[x m] es IH]; intros acc Hn; [reflexivity|]. cbn [bt_scan].
    pose proof (Hn (x, m) (or_introl eq_refl)) as Hx. cbn [fst] in Hx. rewrite Hx, !andb_false_r.
    assert (Hn' : nomatch A es) by (intros e He; apply Hn; now right).
    destruct (ent_target A x b); [destruct acc as [[t0 m0]|]; [destruct (t0 =? n0)|]|]; try reflexivity; apply IH, Hn'.
  Qed.

  Lemma bt_for_atend c b : MI A c -> bt_for v A c b = bt_scan A (negb (c_atend c)) true b (c_ents c) None.
  Proof.
    intros HMI. rewrite bt_for_cur. destruct HMI as [[Hm Hn]|[Hm _]]; rewrite Hm; cbn [andb]; [|reflexivity].
    apply bt_scan_nomatch, Hn.
  Qed.

  Lemma skipn_nth_some {T} (l : list T) p b : nth_error l p = Some b -> skipn p l = b :: skipn (S p) l.
  Proof.
    revert p. induction l as [|a l IH]; intros [|p] H; try discriminate.
    - inversion H; reflexivity.
    - cbn [nth_error] in H. cbn [skipn]. rewrite (IH p H). reflexivity.
  Qed.

  Lemma skipn_nth_none {T} (l : list T) p : nth_error l p = None -> skipn p l = [].
  Proof. intros H. apply nth_error_None in H. now apply skipn_all2. Qed.

  Lemma here_flags sid c p sl0 at_end :
    r_match (row_of D sid) = c_match c ->
    r_mslots (row_of D sid) = (if c_match c then c_mask c else 0%N) ->
    r_endonly (row_of D sid) = c_match c && c_atend c ->
    (p =? length h) = at_end ->
    here (row_of D sid) p sl0 at_end =
    if c_match c && negb (c_atend c && negb (p =? length h))
    then Some (p, apply_mask (c_mask c) p sl0) else None.
  Proof.
    intros H1 H2 H3 H4. unfold here. rewrite H1, H2, H3, H4.
    destruct (c_match c), (c_atend c), at_end; reflexivity.
  Qed.

  (* Lemma X: the scan of the closure entries is what the table does *)
  Lemma exp_scan_table (Ht : tinv) q sid c p sl0 :
    lookup q mp = Some sid -> closure v A q = Some c -> MI A c -> p <= length h ->
    exp_scan p sl0 (c_atend c) (c_ents c) false = op_from D (skipn p h) p sid sl0.
  Proof.
    intros Hl Hc HMI Hp. destruct (Ht q sid Hl) as [Hs0 [Hqn [c' [Hc' [F1 [F2 [F3 [_ Hrow]]]]]]]].
    rewrite Hc in Hc'. inversion Hc'; subst c'. clear Hc'.
    destruct (nth_error h p) as [b|] eqn:Hb.
    - rewrite (skipn_nth_some h p b Hb). cbn [op_from].
      assert (Hb256 : (b < 256)%N).
      { rewrite Forall_forall in Hbytes. apply Hbytes. eapply nth_error_In; eauto. }
      assert (Hpl : p < length h) by (eapply nth_error_Some_lt'; eauto).
      assert (Hpe : (p =? length h) = false) by (apply Nat.eqb_neq; clear - Hpl; lia).
      specialize (Hrow b Hb256). rewrite (bt_for_atend c b HMI) in Hrow.
      destruct (bt_scan A (negb (c_atend c)) true b (c_ents c) None) as [r|] eqn:Ebt; [|contradiction].
      rewrite (exp_scan_bt p sl0 b _ Hb _ _ Ebt).
      rewrite (exp_scan_final p sl0 c true HMI (or_introl eq_refl)).
      rewrite <- (here_flags sid c p sl0 false F1 F2 F3 Hpe).
      destruct r as [[t m]|].
      + destruct Hrow as [Hsnd Hlk]. destruct (Ht t _ Hlk) as [Hnz _].
        replace (fst (trans D sid b) =? 0) with false by (symmetry; now apply Nat.eqb_neq).
        unfold cont. rewrite Hlk, Hsnd. reflexivity.
      + rewrite Hrow. reflexivity.
    - rewrite (skipn_nth_none h p Hb). cbn [op_from].
      assert (Hpe : (p =? length h) = true) by (apply nth_error_None in Hb; apply Nat.eqb_eq; clear - Hb Hp; lia).
      rewrite (exp_scan_final p sl0 c false HMI (or_intror Hb)).
      rewrite <- (here_flags sid c p sl0 true F1 F2 F3 Hpe). reflexivity.
  Qed.

  Lemma HL_nobyte p atend T0 : nth_error h p = None -> forall es, HL p atend T0 es.
  Proof.
    intros Hb. induction es as [|[x m] es IH]; cbn [HL]; [exact I|].
    destruct (is_match_at A x); [destruct (atend && negb (p =? length h)); auto|].
    split; [|exact IH]. intros b t Hb'. congruence.
  Qed.

  Definition Vfrom (p : nat) (V : PositiveSet.t) : Prop :=
    forall x p', x < n -> p <= p' -> pmem n x p' V = false.

  (* Lemma M: the reference dfs from a root of the table = the table's answer *)
  Lemma sim_root (Ht : tinv) : forall k p, length h - p = k -> p <= length h ->
    forall q sid sl V f r V', lookup q mp = Some sid ->
      (forall c, closure v A q = Some c -> c_slook c = true -> p = 0) ->
      Vfrom p V -> rdfs f q p sl V = (Done r, V') -> r = op_from D (skipn p h) p sid sl.
  Proof.
    induction k as [k IHk] using lt_wf_ind. intros p Hk Hp q sid sl V f r V' Hl Hsl HV Hd.
    destruct (Ht q sid Hl) as [Hs0 [Hqn [c [Hc [F1 [F2 [F3 [Fre Hrow]]]]]]]].
    assert (HMI : MI A c).
    { unfold closure in Hc. destruct (clo_loop_facts v A q Hrf Hle _ _ _ _ _ Hc) as [_ [_ [_ HM]]].
      apply HM. left; split; [reflexivity|intros e []]. }
    set (T0 := match nth_error h p with
               | Some b => match bt_for v A c b with Some (Some (t, _)) => Some t | _ => None end
               | None => None end).
    rewrite <- (exp_scan_table Ht q sid c p sl Hl Hc HMI Hp).
    assert (HT0 : forall t, T0 = Some t -> exists b m, nth_error h p = Some b /\ (b < 256)%N /\
                     bt_for v A c b = Some (Some (t, m)) /\ lookup t mp = Some (fst (trans D sid b))).
    { intros t HT. unfold T0 in HT. destruct (nth_error h p) as [b|] eqn:Hb; [|discriminate].
      assert (Hb256 : (b < 256)%N) by (rewrite Forall_forall in Hbytes; apply Hbytes; eapply nth_error_In; eauto).
      specialize (Hrow b Hb256). destruct (bt_for v A c b) as [[[t' m]|]|] eqn:Ebt0; try discriminate.
      inversion HT; subst t'. exists b, m. destruct Hrow as [_ Hlk]. repeat split; auto. }
    unfold closure in Hc.
    refine (W p q c sl T0 Hp _ _ (Hsl c Hc) (n + 2) [(q, 0%N)] [q] clo0 (c_ents c) [(f, [(q, p, sl)])] V false r V'
              Hc eq_refl _ _ _ _ _ _ _ _ _ _).
    - (* continuation: induction on the position *)
      intros t nx sl1 V1 f1 r1 V1' HT Hnx HV1 Hd1.
      destruct (HT0 t HT) as [b [m [Hb [Hb256 [Hbt Hlk]]]]].
      assert (Hpl : p < length h) by (eapply nth_error_Some_lt'; eauto).
      assert (Hnxe : nx = fst (trans D sid b)) by congruence.
      assert (Hk' : length h - S p < k) by (clear - Hk Hpl; lia).
      refine (IHk _ Hk' (S p) eq_refl Hpl t nx sl1 V1 f1 r1 V1' Hnx _ _ Hd1).
      + intros ct Hct Hslt. exfalso.
        destruct (Ht t nx Hnx) as [_ [_ [ct' [Hct' [_ [_ [_ [Fret _]]]]]]]].
        rewrite Hct in Hct'. inversion Hct'; subst ct'.
        apply (Fret Hslt q sid b Hl Hb256). symmetry. exact Hnxe.
      + intros x p' Hx Hp'. apply HV1; [exact Hx|]. clear - Hp'. lia.
    - intros t HT. destruct (HT0 t HT) as [b [m [_ [_ [_ Hlk]]]]]. eexists; exact Hlk.
    - constructor; [exact Hqn|constructor].
    - cbn [map fst]. constructor; [intros []|constructor].
    - cbn [map fst]. intros z Hz. exact Hz.
    - intros x Hx Hm. rewrite (HV x p Hx (le_n p)) in Hm. discriminate.
    - cbn [map snd concat fst app]. rewrite apply_mask_0. reflexivity.
    - intros _ x p' Hx Hp'. apply HV; [exact Hx|]. clear - Hp'. lia.
    - discriminate.
    - intros _ Hf. discriminate.
    - cbn [app]. destruct (nth_error h p) as [b|] eqn:Hb.
      + assert (Hb256 : (b < 256)%N) by (rewrite Forall_forall in Hbytes; apply Hbytes; eapply nth_error_In; eauto).
        specialize (Hrow b Hb256). unfold T0. rewrite (bt_for_atend c b HMI) in *.
        destruct (bt_scan A (negb (c_atend c)) true b (c_ents c) None) as [r0|] eqn:Ebt; [|contradiction].
        destruct (bt_scan_HL p b _ Hb _ _ _ Ebt) as [_ HH]. specialize (HH (fun _ _ => I)).
        destruct r0 as [[t m]|]; exact HH.
      + apply HL_nobyte, Hb.
    - cbn [run_frames dfs_list]. rewrite Hd. destruct r; reflexivity.
  Qed.

  (* ---------------------------------------------------------------- group 0 *)
  Lemma set_nth_comm {T} (l : list T) i j a b : i <> j ->
    set_nth (set_nth l i a) j b = set_nth (set_nth l j b) i a.
  Proof.
    revert i j. induction l as [|x l IH]; intros [|i] [|j] Hne; cbn [set_nth]; try reflexivity; try congruence.
    f_equal. apply IH. congruence.
  Qed.

  Hypothesis Hnc0 : nocap0 A = true.

  Definition lift0 (z : Z) (r : res (option (nat * slots))) : res (option (nat * slots)) :=
    match r with Done (Some (e, s)) => Done (Some (e, set_nth s 0 z)) | x => x end.
  Definition set0 (z : Z) (c : cfg) : cfg := (fst (fst c), snd (fst c), set_nth (snd c) 0 z).

  Lemma succs_set0 z q st p sl : nth_error (states A) q = Some st ->
    succs h st p (set_nth sl 0 z) = map (set0 z) (succs h st p sl).
  Proof.
    intros Hst. destruct st; cbn [succs map]; try reflexivity.
    - destruct (nth_error h p); [|reflexivity]. destruct (in_range lo hi n0); reflexivity.
    - destruct (nth_error h p); [|reflexivity]. destruct (sparse_next trs n0); reflexivity.
    - unfold set0. cbn [fst snd]. f_equal. f_equal. apply set_nth_comm.
      unfold nocap0 in Hnc0. rewrite forallb_forall in Hnc0.
      specialize (Hnc0 _ (nth_error_In _ _ Hst)). cbn in Hnc0. destruct idx; [discriminate|].
      unfold slot_of. clear. destruct is_start; lia.
    - destruct (look_ok lk h p); reflexivity.
  Qed.

  Lemma dfs_set0 z f : forall q p sl V,
    rdfs f q p (set_nth sl 0 z) V = (lift0 z (fst (rdfs f q p sl V)), snd (rdfs f q p sl V)).
  Proof.
    induction f as [|f IH]; intros q p sl V; [reflexivity|].
    rewrite !dfs_unfold. destruct (nth_error (states A) q) as [st|] eqn:Hst; [|reflexivity].
    destruct (pmem n q p V); [reflexivity|]. destruct (is_match_state st); [reflexivity|].
    rewrite (succs_set0 z q st p sl Hst). generalize (padd n q p V). generalize (succs h st p sl).
    induction l as [|[[q1 p1] s1] cs IHcs]; intros V0; cbn [map dfs_list]; [reflexivity|].
    unfold set0 at 1. cbn [fst snd]. rewrite IH.
    destruct (rdfs f q1 p1 s1 V0) as [[|[[e s]|]] V1]; cbn [fst snd lift0]; try reflexivity. apply IHcs.
  Qed.

  (* ---------------------------------------------------------------- Search and IsMatch *)
  Hypothesis Ht : tinv.
  Hypothesis Hstart : lookup (start_anch A) mp = Some (d_start D).
  Hypothesis Hnc : d_ncaps D = ncaps A.

  Lemma sim_search :
    match search_with (fuel_for A h) A h 0 with
    | OutOfFuel => False
    | Done r =>
        op_search cur D h = match r with Some (e, sl) => Some (caps_of 0 e sl) | None => None end /\
        op_is_match cur D h = is_some r
    end.
  Proof.
    pose proof (find_at_total A h Hwf 0) as Htot. unfold find_at in Htot. cbn [Nat.ltb Nat.leb] in Htot.
    rewrite Nat.sub_0_r in Htot.
    destruct (search_with (fuel_for A h) A h 0) as [|r] eqn:Es.
    { apply Htot. destruct (length h); cbn [find_loop]; rewrite Es; reflexivity. }
    unfold search_with in Es. fold n in Es.
    destruct (rdfs (fuel_for A h) (start_anch A) 0 (init_slots A) PositiveSet.empty) as [r0 V'] eqn:Ed.
    cbn [fst] in Es. subst r0.
    pose proof (dfs_set0 0%Z (fuel_for A h) (start_anch A) 0 (init_slots A) PositiveSet.empty) as H0.
    rewrite Ed in H0. cbn [fst snd lift0] in H0.
    assert (HV : Vfrom 0 PositiveSet.empty) by (intros x p' _ _; apply pmem_empty).
    assert (Hsl : forall c, closure v A (start_anch A) = Some c -> c_slook c = true -> 0 = 0) by reflexivity.
    pose proof (sim_root Ht _ 0 eq_refl (Nat.le_0_l _) _ _ _ _ _ _ _ Hstart Hsl HV Ed) as Hr1. cbn [skipn] in Hr1.
    split.
    - unfold op_search. rewrite op_loop_from, Hnc. change (repeat (-1)%Z (2 * ncaps A)) with (init_slots A).
      destruct r as [[e sl]|].
      + pose proof (sim_root Ht _ 0 eq_refl (Nat.le_0_l _) _ _ _ _ _ _ _ Hstart Hsl HV H0) as Hr0. cbn [skipn] in Hr0.
        rewrite <- Hr0. reflexivity.
      + pose proof (sim_root Ht _ 0 eq_refl (Nat.le_0_l _) _ _ _ _ _ _ _ Hstart Hsl HV H0) as Hr0. cbn [skipn] in Hr0.
        rewrite <- Hr0. reflexivity.
    - unfold op_is_match. rewrite (im_loop_from D h 0 (d_start D) (init_slots A)).
      rewrite <- Hr1. reflexivity.
  Qed.
End Sim.

(* ================================================================== D (given the table invariant) *)
Definition bytes_ok (h : hay) : Prop := Forall (fun b => (b < 256)%N) h.

(* the table of D is the closure table of A: every state of the memo map carries the flags and
   the byte transitions of the closure of its NFA root, and the start state is the root's *)
Definition table_ok (v : variant) (A : nfa) (D : dfa) : Prop :=
  tinv v A D /\ lookup (start_anch A) (d_map D) = Some (d_start D) /\ d_ncaps D = ncaps A /\ ncaps A <= 16.

Definition ref_is_match (A : nfa) (h : hay) : res bool :=
  match ref_anchored A h with
  | OutOfFuel => OutOfFuel
  | Done r => Done (is_some r)
  end.

Theorem onepass_table_search_is_ref A h D :
  wf_nfa A = true -> nocap0 A = true -> bytes_ok h -> table_ok cur A D ->
  ref_anchored A h = Done (op_search cur D h).
Proof.
  intros Hwf Hnc0 Hb [Ht [Hs [Hn Hc]]].
  pose proof (sim_search cur eq_refl eq_refl eq_refl eq_refl eq_refl A h Hb Hwf Hc D Hnc0 Ht Hs Hn) as H.
  unfold ref_anchored. destruct (search_with (fuel_for A h) A h 0) as [|r]; [contradiction|].
  destruct H as [H _]. rewrite H. destruct r as [[e sl]|]; reflexivity.
Qed.

Theorem onepass_table_is_match_is_ref A h D :
  wf_nfa A = true -> nocap0 A = true -> bytes_ok h -> table_ok cur A D ->
  ref_is_match A h = Done (op_is_match cur D h).
Proof.
  intros Hwf Hnc0 Hb [Ht [Hs [Hn Hc]]].
  pose proof (sim_search cur eq_refl eq_refl eq_refl eq_refl eq_refl A h Hb Hwf Hc D Hnc0 Ht Hs Hn) as H.
  unfold ref_is_match, ref_anchored. destruct (search_with (fuel_for A h) A h 0) as [|r]; [contradiction|].
  destruct H as [_ H]. rewrite H. destruct r as [[e sl]|]; reflexivity.
Qed.

(* ================================================================== C: build establishes the table *)
From Coq Require Import FinFun.
Lemma nth_set_nth_eq {T} (l : list T) i v d : i < length l -> nth i (set_nth l i v) d = v.
Proof. revert i. induction l as [|x l IH]; intros [|i] H; cbn in *; try lia; auto. apply IH. lia. Qed.

Lemma nth_set_nth_ne {T} (l : list T) i j v d : i <> j -> nth j (set_nth l i v) d = nth j l d.
Proof.
  revert i j. induction l as [|x l IH]; intros [|i] [|j] H; cbn; try reflexivity; try congruence.
  apply IH. congruence.
Qed.

Lemma In_set_nth {T} (l : list T) i v r : In r (set_nth l i v) -> r = v \/ In r l.
Proof.
  revert i. induction l as [|x l IH]; intros [|i] H; cbn in *; try tauto.
  - destruct H as [H|H]; auto.
  - destruct H as [H|H]; auto. destruct (IH i H); auto.
Qed.

Lemma lookup_cons k x q mp : lookup q ((k, x) :: mp) = if k =? q then Some x else lookup q mp.
Proof. reflexivity. Qed.

Section Build.
  Variable v : variant.
  Variable A : nfa.
  Hypothesis Hwf : wf_nfa A = true.
  Let n := nstates A.

  Definition tr_of (rows : list row) (sid : nat) (b : N) : nat * N :=
    nth (N.to_nat b) (r_tr (nth sid rows dead_row)) dead_tr.

  Definition flags_ok (r : row) (c : clo) : Prop :=
    r_match r = c_match c /\ r_mslots r = (if c_match c then c_mask c else 0%N) /\
    r_endonly r = c_match c && c_atend c.

  Definition ent_ok (s : bst) (P : list nat) (q sid : nat) : Prop :=
    1 <= sid < length (b_rows s) /\ q < n /\ exists c, closure v A q = Some c /\
      flags_ok (nth sid (b_rows s) dead_row) c /\ (c_slook c = true -> b_slook s = true) /\
      forall b, (b < 256)%N ->
        match bt_for v A c b with
        | None => False
        | Some None => fst (tr_of (b_rows s) sid b) = 0
        | Some (Some (t, m)) =>
            (tr_of (b_rows s) sid b = dead_tr /\ In sid P) \/
            (snd (tr_of (b_rows s) sid b) = m /\ lookup t (b_map s) = Some (fst (tr_of (b_rows s) sid b)))
        end.

  Definition Binv (s : bst) (P : list nat) : Prop :=
    (forall r, In r (b_rows s) -> length (r_tr r) = 256) /\
    (forall q sid, lookup q (b_map s) = Some sid -> ent_ok s P q sid) /\
    (forall q1 q2 x, lookup q1 (b_map s) = Some x -> lookup q2 (b_map s) = Some x -> q1 = q2).

  Definition ext (s s' : bst) : Prop :=
    (exists e, b_rows s' = b_rows s ++ e) /\
    (forall q x, lookup q (b_map s) = Some x -> lookup q (b_map s') = Some x) /\
    (b_slook s = true -> b_slook s' = true).

  Lemma ext_refl s : ext s s.
  Proof. split; [exists []; now rewrite app_nil_r|]. split; auto. Qed.

  Lemma ext_trans s1 s2 s3 : ext s1 s2 -> ext s2 s3 -> ext s1 s3.
  Proof.
    intros [[e1 H1] [H2 H3]] [[e2 H4] [H5 H6]]. split; [exists (e1 ++ e2); now rewrite H4, H1, app_assoc|].
    split; auto.
  Qed.

  Lemma ext_row s s' sid : ext s s' -> sid < length (b_rows s) ->
    nth sid (b_rows s') dead_row = nth sid (b_rows s) dead_row.
  Proof. intros [[e H] _] Hl. rewrite H. now apply app_nth1. Qed.

  Lemma ext_len s s' : ext s s' -> length (b_rows s) <= length (b_rows s').
  Proof. intros [[e H] _]. rewrite H, app_length. lia. Qed.

  (* all_bts: exactly the bytes with a transition, each once *)
  Lemma all_bts_spec c : forall bs bts, all_bts v A c bs = Some bts ->
    (forall b, In b bs -> match bt_for v A c b with
                          | None => False
                          | Some None => True
                          | Some (Some (t, m)) => In (b, t, m) bts end) /\
    (forall b t m, In (b, t, m) bts -> In b bs /\ bt_for v A c b = Some (Some (t, m))) /\
    (NoDup bs -> NoDup (map (fun x => fst (fst x)) bts)).
  Proof.
    induction bs as [|b0 bs IH]; intros bts H; cbn [all_bts] in H.
    - inversion H; subst. split; [intros b []|]. split; [intros b t m []|]. intros _. constructor.
    - destruct (bt_for v A c b0) as [[[t0 m0]|]|] eqn:E0; try discriminate.
      + destruct (all_bts v A c bs) as [l|] eqn:El; [|discriminate]. inversion H; subst.
        destruct (IH l eq_refl) as [H1 [H2 H3]]. split; [|split].
        * intros b [<-|Hb]; [rewrite E0; now left|]. specialize (H1 b Hb).
          destruct (bt_for v A c b) as [[[t m]|]|]; auto. now right.
        * intros b t m [Heq|Hin]; [inversion Heq; subst; split; [now left|exact E0]|].
          destruct (H2 b t m Hin) as [G1 G2]. split; [now right|exact G2].
        * intros Hnd. inversion Hnd; subst. cbn [map fst]. constructor; [|now apply H3].
          intros Hi. apply in_map_iff in Hi as [[[b t] m] [Hb Hin]]. cbn [fst] in Hb. subst b.
          destruct (H2 _ _ _ Hin) as [G1 _]. contradiction.
      + destruct (IH bts H) as [H1 [H2 H3]]. split; [|split].
        * intros b [<-|Hb]; [rewrite E0; exact I|]. apply H1, Hb.
        * intros b t m Hin. destruct (H2 b t m Hin) as [G1 G2]. split; [now right|exact G2].
        * intros Hnd. inversion Hnd; subst. now apply H3.
  Qed.

  Lemma in_bytes256 b : (b < 256)%N <-> In b bytes256.
  Proof.
    unfold bytes256. rewrite in_map_iff. split.
    - intros Hb. exists (N.to_nat b). split; [apply N2Nat.id|]. apply in_seq. lia.
    - intros [k [<- Hk]]. apply in_seq in Hk. lia.
  Qed.

  Lemma nodup_bytes256 : NoDup bytes256.
  Proof.
    unfold bytes256. apply FinFun.Injective_map_NoDup; [|apply seq_NoDup].
    intros a b H. now apply Nat2N.inj.
  Qed.

  Definition agree (L : nat) (s s' : bst) : Prop :=
    length (b_rows s) <= length (b_rows s') /\
    (forall x, x < L -> nth x (b_rows s') dead_row = nth x (b_rows s) dead_row) /\
    (forall q x, lookup q (b_map s) = Some x -> lookup q (b_map s') = Some x) /\
    (b_slook s = true -> b_slook s' = true).

  Lemma agree_refl L s : agree L s s.
  Proof. repeat split; auto. Qed.

  Lemma agree_trans L s1 s2 s3 : agree L s1 s2 -> agree L s2 s3 -> agree L s1 s3.
  Proof.
    intros [H1 [H2 [H3 H4]]] [G1 [G2 [G3 G4]]]. repeat split; auto; [lia|].
    intros x Hx. rewrite (G2 x Hx). apply H2, Hx.
  Qed.

  Lemma agree_le L L' s s' : L <= L' -> agree L' s s' -> agree L s s'.
  Proof. intros Hle [H1 [H2 [H3 H4]]]. repeat split; auto. intros x Hx. apply H2. lia. Qed.

  Lemma closure_fun q c1 c2 : closure v A q = Some c1 -> closure v A q = Some c2 -> c1 = c2.
  Proof. congruence. Qed.

  (* storing one transition of the state under construction *)
  Lemma set_tr_Binv s P root sid c b t m nx :
    Binv s (sid :: P) -> lookup root (b_map s) = Some sid -> closure v A root = Some c ->
    (b < 256)%N -> bt_for v A c b = Some (Some (t, m)) -> lookup t (b_map s) = Some nx ->
    Binv (set_tr s sid b (nx, m)) (sid :: P) /\
    b_map (set_tr s sid b (nx, m)) = b_map s /\ b_slook (set_tr s sid b (nx, m)) = b_slook s /\
    length (b_rows (set_tr s sid b (nx, m))) = length (b_rows s) /\
    tr_of (b_rows (set_tr s sid b (nx, m))) sid b = (nx, m) /\
    (forall x, x <> sid -> nth x (b_rows (set_tr s sid b (nx, m))) dead_row = nth x (b_rows s) dead_row) /\
    (forall b', b' <> b -> tr_of (b_rows (set_tr s sid b (nx, m))) sid b' = tr_of (b_rows s) sid b').
  Proof.
    intros [B0 [B1 B3]] Hroot Hc Hb Hbt Ht.
    destruct (B1 root sid Hroot) as [[Hs1 Hsl] _].
    destruct (nth_error (b_rows s) sid) as [r|] eqn:Er.
    2:{ apply nth_error_None in Er. lia. }
    assert (Hr : nth sid (b_rows s) dead_row = r) by (apply nth_error_nth; exact Er).
    assert (Hlen : length (r_tr r) = 256) by (apply B0; eapply nth_error_In; eauto).
    unfold set_tr. rewrite Er. cbn [b_rows b_map b_slook].
    assert (Hsame : tr_of (set_nth (b_rows s) sid (set_row_tr r b (nx, m))) sid b = (nx, m)).
    { unfold tr_of. rewrite nth_set_nth_eq by exact Hsl. cbn [set_row_tr r_tr]. apply nth_set_nth_eq. lia. }
    assert (Hoth : forall x, x <> sid -> nth x (set_nth (b_rows s) sid (set_row_tr r b (nx, m))) dead_row = nth x (b_rows s) dead_row).
    { intros x Hx. apply nth_set_nth_ne. congruence. }
    assert (Hothb : forall b', b' <> b -> tr_of (set_nth (b_rows s) sid (set_row_tr r b (nx, m))) sid b' = tr_of (b_rows s) sid b').
    { intros b' Hb'. unfold tr_of. rewrite nth_set_nth_eq by exact Hsl. rewrite Hr. cbn [set_row_tr r_tr].
      apply nth_set_nth_ne. intros E. apply Hb'. apply N2Nat.inj. congruence. }
    split; [|repeat split; auto; apply set_nth_length'].
    split; [|split; [|exact B3]].
    - cbn [b_rows]. intros r' Hin. apply In_set_nth in Hin as [->|Hin]; [|now apply B0].
      cbn [set_row_tr r_tr]. rewrite set_nth_length'. exact Hlen.
    - cbn [b_map]. intros q x Hq. destruct (B1 q x Hq) as [[Hx1 Hxl] [Hqn [c' [Hc' [Hfl [Hslk Hby]]]]]].
      unfold ent_ok. cbn [b_rows b_map b_slook].
      split; [rewrite set_nth_length'; lia|]. split; [exact Hqn|]. exists c'. split; [exact Hc'|].
      destruct (Nat.eq_dec x sid) as [->|Hne].
      + assert (q = root) by (eapply B3; eauto). subst q.
        rewrite (closure_fun _ _ _ Hc' Hc) in *. split; [|split; [exact Hslk|]].
        * rewrite nth_set_nth_eq by exact Hsl. rewrite Hr in Hfl. exact Hfl.
        * intros b' Hb'. destruct (N.eq_dec b' b) as [->|Hnb].
          -- rewrite Hbt, Hsame. right. cbn [fst snd]. auto.
          -- rewrite (Hothb b' Hnb). apply Hby, Hb'.
      + split; [|split; [exact Hslk|]].
        * rewrite (Hoth x Hne). exact Hfl.
        * intros b' Hb'. unfold tr_of. rewrite (Hoth x Hne). apply Hby, Hb'.
  Qed.

  Lemma bt_scan_lt stop kf b : forall es acc t m,
    bt_scan A stop kf b es acc = Some (Some (t, m)) ->
    (forall t0 m0, acc = Some (t0, m0) -> t0 < n) -> t < n.
  Proof.
    induction es as [|[x mx] es IH]; intros acc t m H Hacc; cbn [bt_scan] in H.
    - inversion H; subst. eapply Hacc; eauto.
    - destruct (stop && is_match_at A x); [inversion H; subst; eapply Hacc; eauto|].
      destruct (ent_target A x b) as [t1|] eqn:Et; [|eapply IH; eauto].
      destruct acc as [[t0 m0]|].
      + destruct (t0 =? t1); [|discriminate]. eapply IH; [exact H|]. intros t2 m2 E. inversion E; subst.
        eapply Hacc; eauto.
      + eapply IH; [exact H|]. intros t2 m2 E. inversion E; subst. eapply ent_target_lt; eauto.
  Qed.

  Definition bs_spec (f : nat) : Prop := forall root s sid s' P,
    build_state v A f root s = Some (sid, s') -> root < n -> 1 <= length (b_rows s) -> Binv s P ->
    Binv s' P /\ agree (length (b_rows s)) s s' /\ lookup root (b_map s') = Some sid.

  Lemma fill_spec f (Hrec : bs_spec f) : forall bts s s2 P root sid c,
    fill (build_state v A f) sid bts s = Some s2 ->
    Binv s (sid :: P) -> 1 <= length (b_rows s) -> lookup root (b_map s) = Some sid ->
    closure v A root = Some c ->
    (forall b t m, In (b, t, m) bts -> (b < 256)%N /\ bt_for v A c b = Some (Some (t, m)) /\ t < n) ->
    NoDup (map (fun x => fst (fst x)) bts) ->
    Binv s2 (sid :: P) /\ agree sid s s2 /\
    (forall b t m, In (b, t, m) bts ->
        snd (tr_of (b_rows s2) sid b) = m /\ lookup t (b_map s2) = Some (fst (tr_of (b_rows s2) sid b))) /\
    (forall b', ~ In b' (map (fun x => fst (fst x)) bts) -> tr_of (b_rows s2) sid b' = tr_of (b_rows s) sid b').
  Proof.
    induction bts as [|[[b t] m] rest IH]; intros s s2 P root sid c Hf HB H1 Hroot Hc Hent Hnd; cbn [fill] in Hf.
    - inversion Hf; subst. split; [exact HB|]. split; [apply agree_refl|]. split; [intros ? ? ? []|auto].
    - destruct (build_state v A f t s) as [[nx s']|] eqn:Eb; [|discriminate].
      destruct (Hent b t m (or_introl eq_refl)) as [Hb [Hbt Htn]].
      destruct (Hrec t s nx s' (sid :: P) Eb Htn H1 HB) as [HB' [Hag Hlk]].
      destruct HB as [_ [B1 _]]. destruct (B1 root sid Hroot) as [[_ Hsl] _].
      assert (Hroot' : lookup root (b_map s') = Some sid) by (apply Hag, Hroot).
      destruct (set_tr_Binv s' P root sid c b t m nx HB' Hroot' Hc Hb Hbt Hlk)
        as [HB'' [Em [Esl [Elen [Hsame [Hoth Hothb]]]]]].
      set (s'' := set_tr s' sid b (nx, m)) in *.
      assert (Hag1 : agree sid s s'').
      { apply (agree_trans sid s s' s''); [eapply agree_le; [|exact Hag]; clear - Hsl; lia|].
        split; [rewrite Elen; lia|]. split; [intros x Hx; apply Hoth; clear - Hx; lia|].
        split; [rewrite Em; auto|rewrite Esl; auto]. }
      cbn [map fst] in Hnd. inversion Hnd as [|? ? Hnotin Hnd']; subst.
      assert (H1'' : 1 <= length (b_rows s'')) by (destruct Hag1 as [G _]; clear - G H1; lia).
      assert (Hroot'' : lookup root (b_map s'') = Some sid) by (rewrite Em; exact Hroot').
      destruct (IH s'' s2 P root sid c Hf HB'' H1'' Hroot'' Hc (fun b0 t0 m0 Hi => Hent b0 t0 m0 (or_intror Hi)) Hnd')
        as [HB2 [Hag2 [Hent2 Hrow2]]].
      split; [exact HB2|]. split; [eapply agree_trans; eauto|]. split.
      + intros b0 t0 m0 [E|Hi]; [|now apply Hent2]. inversion E; subst b0 t0 m0.
        rewrite (Hrow2 b Hnotin), Hsame. cbn [fst snd]. split; [reflexivity|].
        apply Hag2. rewrite Em. exact Hlk.
      + intros b' Hb'. cbn [map fst] in Hb'.
        assert (Hne : b' <> b) by (intros E; apply Hb'; left; now symmetry).
        assert (Hni : ~ In b' (map (fun x => fst (fst x)) rest)) by (intros Hi; apply Hb'; now right).
        rewrite (Hrow2 b' Hni), (Hothb b' Hne). unfold tr_of. destruct Hag as [_ [G _]]. rewrite (G sid Hsl). reflexivity.
  Qed.

  Lemma tr_of_new rows c b : tr_of (rows ++ [new_row c]) (length rows) b = dead_tr.
  Proof.
    unfold tr_of. rewrite app_nth2 by lia. rewrite Nat.sub_diag. cbn [nth new_row r_tr]. apply nth_repeat.
  Qed.

  Lemma build_state_spec : forall f, bs_spec f.
  Proof.
    induction f as [|f IHf]; intros root s sid s' P H Hrn H1 HB; [discriminate|].
    cbn [build_state] in H. destruct (lookup root (b_map s)) as [sid0|] eqn:El.
    { inversion H; subst. split; [exact HB|]. split; [apply agree_refl|exact El]. }
    destruct (closure v A root) as [c|] eqn:Hc; [|discriminate].
    destruct (all_bts v A c bytes256) as [bts|] eqn:Hbts; [|discriminate].
    set (L := length (b_rows s)) in *.
    set (s1 := mkBst (b_rows s ++ [new_row c]) ((root, L) :: b_map s) (b_slook s || c_slook c)) in *.
    destruct (fill (build_state v A f) L bts s1) as [s2|] eqn:Hf; [|discriminate].
    inversion H; subst sid s'. clear H.
    destruct (all_bts_spec c _ _ Hbts) as [A1 [A2 A3]].
    destruct HB as [B0 [B1 B3]].
    assert (Hlk1 : forall q x, lookup q (b_map s) = Some x -> lookup q (b_map s1) = Some x).
    { intros q x Hq. cbn [s1 b_map lookup]. destruct (Nat.eqb_spec root q) as [->|_]; [congruence|exact Hq]. }
    assert (HB1 : Binv s1 (L :: P)).
    { split; [|split].
      - cbn [s1 b_rows]. intros r Hin. apply in_app_or in Hin as [Hin|[<-|[]]]; [now apply B0|].
        cbn [new_row r_tr]. apply repeat_length.
      - intros q x Hq. cbn [s1 b_map lookup] in Hq. destruct (Nat.eqb_spec root q) as [<-|Hne].
        + inversion Hq; subst x. unfold ent_ok. cbn [s1 b_rows b_slook b_map].
          split; [rewrite app_length; cbn [length]; fold L; clear - H1; lia|]. split; [exact Hrn|].
          exists c. split; [exact Hc|]. split; [|split].
          * unfold L. rewrite app_nth2 by lia. rewrite Nat.sub_diag. cbn [nth new_row]. repeat split.
          * intros E. rewrite E. apply orb_true_r.
          * intros b Hb. unfold L. rewrite tr_of_new. specialize (A1 b (proj1 (in_bytes256 b) Hb)).
            destruct (bt_for v A c b) as [[[t m]|]|]; [|reflexivity|exact A1].
            left. split; [reflexivity|now left].
        + destruct (B1 q x Hq) as [[Hx1 Hxl] [Hqn [c' [Hc' [Hfl [Hslk Hby]]]]]].
          unfold ent_ok. cbn [s1 b_rows b_slook].
          split; [rewrite app_length; cbn [length]; lia|]. split; [exact Hqn|]. exists c'. split; [exact Hc'|].
          split; [rewrite app_nth1 by exact Hxl; exact Hfl|]. split; [intros E; rewrite (Hslk E); reflexivity|].
          intros b Hb. specialize (Hby b Hb). unfold tr_of in *. rewrite app_nth1 by exact Hxl.
          destruct (bt_for v A c' b) as [[[t m]|]|]; [|exact Hby|exact Hby].
          destruct Hby as [[G1 G2]|[G1 G2]]; [left; split; [exact G1|now right]|right; split; [exact G1|apply Hlk1, G2]].
      - intros q1 q2 x Hq1 Hq2. cbn [s1 b_map lookup] in Hq1, Hq2.
        destruct (Nat.eqb_spec root q1) as [<-|Hn1]; destruct (Nat.eqb_spec root q2) as [<-|Hn2]; try reflexivity.
        + inversion Hq1; subst x. destruct (B1 q2 L Hq2) as [[_ Hl] _]. unfold L in Hl. lia.
        + inversion Hq2; subst x. destruct (B1 q1 L Hq1) as [[_ Hl] _]. unfold L in Hl. lia.
        + eapply B3; eauto. }
    assert (H11 : 1 <= length (b_rows s1)) by (cbn [s1 b_rows]; rewrite app_length; cbn [length]; lia).
    assert (Hroot1 : lookup root (b_map s1) = Some L) by (cbn [s1 b_map lookup]; now rewrite Nat.eqb_refl).
    assert (Hent : forall b t m, In (b, t, m) bts -> (b < 256)%N /\ bt_for v A c b = Some (Some (t, m)) /\ t < n).
    { intros b t m Hin. destruct (A2 b t m Hin) as [G1 G2]. split; [now apply in_bytes256|]. split; [exact G2|].
      unfold bt_for in G2. eapply bt_scan_lt; [exact G2|]. intros ? ? E; discriminate. }
    destruct (fill_spec f IHf bts s1 s2 P root L c Hf HB1 H11 Hroot1 Hc Hent (A3 nodup_bytes256))
      as [HB2 [Hag2 [Hent2 Hrow2]]].
    assert (Hroot2 : lookup root (b_map s2) = Some L) by (apply Hag2, Hroot1).
    split; [|split; [|exact Hroot2]].
    - destruct HB2 as [C0 [C1 C3]]. split; [exact C0|]. split; [|exact C3].
      intros q x Hq. destruct (C1 q x Hq) as [Hx [Hqn [c' [Hc' [Hfl [Hslk Hby]]]]]].
      split; [exact Hx|]. split; [exact Hqn|]. exists c'. split; [exact Hc'|]. split; [exact Hfl|]. split; [exact Hslk|].
      intros b Hb. specialize (Hby b Hb). destruct (bt_for v A c' b) as [[[t m]|]|] eqn:Ebt; [|exact Hby|exact Hby].
      destruct Hby as [[G1 [G2|G2]]|G]; [|left; split; [exact G1|exact G2]|right; exact G].
      subst x. assert (q = root) by (eapply C3; eauto). subst q.
      rewrite (closure_fun _ _ _ Hc' Hc) in Ebt.
      pose proof (A1 b (proj1 (in_bytes256 b) Hb)) as Hin. rewrite Ebt in Hin. right. apply (Hent2 b t m Hin).
    - apply (agree_trans L s s1 s2); [|exact Hag2].
      split; [cbn [s1 b_rows]; rewrite app_length; lia|]. split; [intros x Hx; cbn [s1 b_rows]; now apply app_nth1|].
      split; [exact Hlk1|]. cbn [s1 b_slook]. intros E. rewrite E. reflexivity.
  Qed.

  Hypothesis Hrf : v_right_first v = false.
  Hypothesis Hle : v_look_eps v = false.
  Hypothesis Hsz : v_start_zero v = false.

  Theorem build_table_ok D : build v A = Some D -> table_ok v A D.
  Proof.
    unfold build. destruct (16 <? ncaps A) eqn:Ecap; [discriminate|].
    destruct (negb (start_anch A =? start_unanch A)); [discriminate|]. rewrite Hsz.
    destruct (build_state v A (S (nstates A)) (start_anch A) (mkBst [dead_row] [] false)) as [[st s]|] eqn:Eb; [|discriminate].
    destruct (b_slook s && reenters (b_rows s) st) eqn:Ere; [discriminate|]. intros H. inversion H; subst D. clear H.
    assert (Hstn : start_anch A < n).
    { unfold wf_nfa in Hwf. apply andb_prop in Hwf as [H1 _]. apply andb_prop in H1 as [_ H1]. now apply Nat.ltb_lt. }
    assert (HB0 : Binv (mkBst [dead_row] [] false) []).
    { split; [|split].
      - cbn [b_rows]. intros r [<-|[]]. apply repeat_length.
      - cbn [b_map lookup]. intros ? ? E; discriminate.
      - cbn [b_map lookup]. intros ? ? ? E; discriminate. }
    destruct (build_state_spec _ _ _ _ _ [] Eb Hstn (le_n 1) HB0) as [[C0 [C1 C3]] [_ Hst]].
    apply Nat.ltb_ge in Ecap.
    split; [|split; [exact Hst|split; [reflexivity|exact Ecap]]].
    intros q sid Hl. cbn [d_map] in Hl.
    destruct (C1 q sid Hl) as [[Hs1 Hsl] [Hqn [c [Hc [[F1 [F2 F3]] [Hslk Hby]]]]]].
    split; [clear - Hs1; lia|]. split; [exact Hqn|]. exists c. split; [exact Hc|].
    unfold row_of, trans. cbn [d_rows d_map row_of].
    split; [exact F1|]. split; [exact F2|]. split; [exact F3|]. split.
    - intros Hsk q' s' b Hl' Hb Heq.
      assert (Hqs : q = start_anch A).
      { unfold closure in Hc. destruct (clo_loop_facts v A q Hrf Hle _ _ _ _ _ Hc) as [_ [_ [G _]]].
        destruct (G Hsk) as [G1|G1]; [discriminate|exact G1]. }
      subst q. assert (Hsid : sid = st) by (rewrite Hst in Hl; congruence).
      rewrite (Hslk Hsk) in Ere. cbn [andb] in Ere.
      destruct (C1 q' s' Hl') as [[_ Hsl'] _].
      assert (Hex : reenters (b_rows s) st = true).
      { unfold reenters. apply existsb_exists. exists (nth s' (b_rows s) dead_row). split; [now apply nth_In|].
        apply existsb_exists. exists (nth (N.to_nat b) (r_tr (nth s' (b_rows s) dead_row)) dead_tr). split.
        - apply nth_In. rewrite (C0 _ (nth_In _ _ Hsl')). clear - Hb. lia.
        - unfold row_of in Heq. cbn [d_rows] in Heq. rewrite Heq, Hsid, Nat.eqb_refl.
          replace (st =? 0) with false by (symmetry; apply Nat.eqb_neq; clear - Hs1 Hsid; lia). reflexivity. }
      congruence.
    - intros b Hb. specialize (Hby b Hb). unfold tr_of in Hby.
      destruct (bt_for v A c b) as [[[t m]|]|]; [|exact Hby|exact Hby].
      destruct Hby as [[_ []]|G]. exact G.
  Qed.
End Build.

(* ================================================================== E: the theorems *)
(* C03 / C14 for the one-pass DFA: for every well-formed NFA without a Capture 0 state (the
   anchored compiler emits none: `hyp_failures` of the case checker) on which Build succeeds, and
   every haystack of bytes, Search returns the anchored leftmost-first answer of the reference,
   ALL capture slots included (None iff no anchored match) *)
Theorem onepass_search_is_ref A h D :
  wf_nfa A = true -> nocap0 A = true -> bytes_ok h -> build cur A = Some D ->
  ref_anchored A h = Done (op_search cur D h).
Proof.
  intros Hwf Hnc Hb HB. apply onepass_table_search_is_ref; auto.
  apply (build_table_ok cur A Hwf eq_refl eq_refl eq_refl D HB).
Qed.

Theorem onepass_is_match_is_ref A h D :
  wf_nfa A = true -> nocap0 A = true -> bytes_ok h -> build cur A = Some D ->
  ref_is_match A h = Done (op_is_match cur D h).
Proof.
  intros Hwf Hnc Hb HB. apply onepass_table_is_match_is_ref; auto.
  apply (build_table_ok cur A Hwf eq_refl eq_refl eq_refl D HB).
Qed.

(* what a successful Build means: the table is the closure table of the NFA (in particular every
   closure passed the one-pass checks: no state twice, one Match, one target per byte) *)
Theorem build_is_closure_table A D :
  wf_nfa A = true -> build cur A = Some D -> table_ok cur A D.
Proof. intros Hwf HB. apply (build_table_ok cur A Hwf eq_refl eq_refl eq_refl D HB). Qed.

(* ------------------------------------------------------------------ refutations *)
Local Open Scope N_scope.
Definition run (v : variant) (A : nfa) (h : hay) : option (option slots * bool) :=
  match build v A with Some D => Some (op_search v D h, op_is_match v D h) | None => None end.

(* `(|a)` *)
Definition nfa_empty_or_a : nfa :=
  mkNfa [SEpsilon 3; SByteRange 97 97 3; SSplit 0 1; SEpsilon 4; SCapture 1 false 6; SCapture 1 true 2; SMatch] 5 5 2.
(* `ab` *)
Definition nfa_ab : nfa := mkNfa [SByteRange 97 97 1; SByteRange 98 98 2; SMatch] 0 0 1.
(* `a*(|(b))c*` *)
Definition nfa_loop : nfa :=
  mkNfa [SByteRange 97 97 2; SEpsilon 10; SSplit 0 1; SEpsilon 8; SByteRange 98 98 5; SCapture 2 false 8;
         SCapture 2 true 4; SSplit 3 6; SEpsilon 9; SCapture 1 false 13; SCapture 1 true 7; SByteRange 99 99 13;
         SEpsilon 14; SSplit 11 12; SMatch] 2 2 3.
(* `(?:$|a)` *)
Definition nfa_end_or_a : nfa := mkNfa [SLook LEndText 3; SByteRange 97 97 3; SSplit 0 1; SEpsilon 4; SMatch] 2 2 1.
(* `(?:a|()a)` *)
Definition nfa_a_or_cap_a : nfa :=
  mkNfa [SByteRange 97 97 6; SEpsilon 2; SCapture 1 false 4; SCapture 1 true 1; SByteRange 97 97 6; SSplit 0 3;
         SEpsilon 7; SMatch] 5 5 2.
(* not produced by the compiler: a Capture 0 state in the middle *)
Definition nfa_cap0 : nfa := mkNfa [SByteRange 97 97 1; SCapture 0 true 2; SMatch] 0 0 1.

(* ORIGINAL code (before 4001814): right branch explored first, all transitions kept *)
Theorem onepass_priority_original_refuted :
  run original nfa_empty_or_a [97] = Some (Some [0; 1; 0; 1]%Z, true) /\
  ref_anchored nfa_empty_or_a [97] = Done (Some [0; 0; 0; 0]%Z).
Proof. split; vm_compute; reflexivity. Qed.

(* ORIGINAL code (before 92ad1cb): a match only at the end of the input *)
Theorem onepass_prefix_original_refuted :
  run original nfa_ab [97; 98; 99] = Some (None, true) /\
  ref_anchored nfa_ab [97; 98; 99] = Done (Some [0; 2]%Z).
Proof. split; vm_compute; reflexivity. Qed.

(* ORIGINAL code (before 92ad1cb): the start state has id 0 = DeadState, a loop back to it dies *)
Theorem onepass_start_zero_original_refuted :
  run original nfa_loop [97; 97; 99; 99] = Some (None, true) /\
  ref_anchored nfa_loop [97; 97; 99; 99] = Done (Some [0; 4; 2; 2; -1; -1]%Z).
Proof. split; vm_compute; reflexivity. Qed.

(* code before 2b09251 (found with this model): `break` at an end-only Match *)
Theorem onepass_endonly_original_refuted :
  run before_2b09251 nfa_end_or_a [97] = Some (None, false) /\
  ref_anchored nfa_end_or_a [97] = Done (Some [0; 1]%Z) /\
  run cur nfa_end_or_a [97] = Some (Some [0; 1]%Z, true).
Proof. repeat split; vm_compute; reflexivity. Qed.

(* code before 2b09251 (found with this model): masks of equal targets OR-ed *)
Theorem onepass_merge_original_refuted :
  run before_2b09251 nfa_a_or_cap_a [97] = Some (Some [0; 1; 0; 0]%Z, true) /\
  ref_anchored nfa_a_or_cap_a [97] = Done (Some [0; 1; -1; -1]%Z) /\
  run cur nfa_a_or_cap_a [97] = Some (Some [0; 1; -1; -1]%Z, true).
Proof. repeat split; vm_compute; reflexivity. Qed.

(* the hypothesis nocap0 is needed: Search presets slot 0 and lets the masks overwrite it *)
Theorem onepass_cap0_refuted :
  wf_nfa nfa_cap0 = true /\ run cur nfa_cap0 [97] = Some (Some [1; 1]%Z, true) /\
  ref_anchored nfa_cap0 [97] = Done (Some [0; 1]%Z).
Proof. repeat split; vm_compute; reflexivity. Qed.
