package main

import (
	"encoding/json"
	"flag"
	"fmt"
	"os"
	"reflect"
	"regexp"
	"regexp/syntax"
	"sort"
	"strings"
	"time"
	"unicode/utf8"

	"github.com/coregx/coregex"
	"github.com/coregx/coregex/meta"
	"github.com/coregx/coregex/nfa"
)

// ---------------------------------------------------------------------------
// `c19`: property C19 — specialised fast paths are exact on every pattern their own
// applicability test accepts.
//
// (a) Patterns are generated AROUND each whitelist: accepted seeds are mutated node by node on
//     the regexp/syntax AST (toggle lazy, other quantifier, {0}, trailing concatenation, look-
//     around next to a literal, case folding, non-ASCII / Latin-1 member, capture, empty
//     alternative, anchor branch, (?s), (?m)).  For every pattern the PUBLIC predicates and
//     constructors are called and, when applicable, the searcher is run DIRECTLY on exhaustive
//     short haystacks (units: bytes derived from the pattern, "\n", "é", an invalid byte) and
//     every start offset; the oracle is stdlib regexp.
// (b) End-to-end: coregex.MustCompile(p).FindIndex / Match against regexp on the same inputs,
//     with meta.Compile(p).Strategy() recorded: "selected => inside the fragment".
// (c) The Coq specification (FastPath.first_match) is validated against regexp on the same
//     (AST, haystack) for ASCII haystacks: list spec_cases, spec_mismatches must be [].
// Coq case file: searcher models on the construction data dumped from the Go objects (cases),
// predicates/builders of the model on the AST (pred_cases), specification (spec_cases).
// ---------------------------------------------------------------------------

var c19Seeds = []string{
	`[a-z]+`, `\w+`, `\d+`, `[a-z]+[0-9]+`, `\w+@\w+`, `[a-c]+[b-d]+[a-c]+[x-z]+`, `[a-z]{2,3}[0-9]+`,
	`[a-z]*[0-9]+`, `[a-z]?[0-9]`,
	`^(\d+|UUID|hex32)`, `^(abc|x[0-9]+|[k-m]+)`, `^(?:ab|[c-e]+)`,
	`^prefix.*suffix$`, `^/.*[\w-]+\.php$`, `^.*z$`, `^a.+b$`, `^/.+\s+x$`, `^a.+[\s,]+z$`, `^p.*[\n;]+s$`, `^a.+[\s]z$`, `^/.+[\w-]+\.php$`,
	`.*\.txt`, `ERROR.*timeout`, `.*\.(txt|log)`, `(?m)^.*\.php`, `(?m)^/.*[\w-]+\.php`, `.*abc.*`,
	`\d+\.\d+`, `[0-5]+\.[0-9]+`, `\d+x`, `\d{2,}-\d+`,
	`a+$`, `x*$`, `[a-z]+foo$`, `.+foo`, `[^\s]+\.txt`, `\w+@\w+\.com`,
	`^(?:\w|@|x)foobar`, `^\d+[a-z]`, `^[a-z]+\d`,
}

// c19Pattern is one generated pattern with the mutation classes that produced it.
type c19Pattern struct {
	pat    string
	seed   string
	mclass string // "seed" or the (last) mutation class
}

// c19Mutations enumerates the single-node mutations of pattern p in a deterministic order.
// Each mutation is applied to a fresh parse; the result is re-rendered with String().
func c19Mutations(p string) []c19Pattern {
	var out []c19Pattern
	for k := 0; ; k++ {
		re, err := syntax.Parse(p, syntax.Perl)
		if err != nil {
			return out
		}
		cnt := 0
		cls := ""
		done := false
		var walk func(n *syntax.Regexp, parent *syntax.Regexp, idx int)
		try := func(class string, f func()) {
			if done {
				return
			}
			if cnt == k {
				f()
				cls = class
				done = true
			}
			cnt++
		}
		lit := func(s string) *syntax.Regexp {
			return &syntax.Regexp{Op: syntax.OpLiteral, Rune: []rune(s), Flags: syntax.Perl}
		}
		walk = func(n *syntax.Regexp, parent *syntax.Regexp, idx int) {
			if done {
				return
			}
			switch n.Op {
			case syntax.OpStar, syntax.OpPlus, syntax.OpQuest, syntax.OpRepeat:
				try("nongreedy", func() { n.Flags ^= syntax.NonGreedy })
				if n.Op != syntax.OpStar {
					try("quant-op", func() { n.Op = syntax.OpStar; n.Min, n.Max = 0, 0 })
				}
				if n.Op != syntax.OpQuest {
					try("quant-op", func() { n.Op = syntax.OpQuest; n.Min, n.Max = 0, 0 })
				}
				if n.Op != syntax.OpPlus {
					try("quant-op", func() { n.Op = syntax.OpPlus; n.Min, n.Max = 0, 0 })
				}
				try("repeat", func() { n.Op = syntax.OpRepeat; n.Min, n.Max = 2, 3 })
				try("repeat", func() { n.Op = syntax.OpRepeat; n.Min, n.Max = 1, -1 })
				try("repeat-min", func() { n.Op = syntax.OpRepeat; n.Min, n.Max = 2, -1 })
				try("repeat-zero", func() { n.Op = syntax.OpRepeat; n.Min, n.Max = 0, 0 })
			case syntax.OpCharClass:
				try("non-ascii", func() { n.Rune = append(append([]rune{}, n.Rune...), 0xE9, 0xE9) })
				try("non-ascii", func() { n.Rune = append(append([]rune{}, n.Rune...), 0x4E16, 0x4E16) })
				try("non-ascii", func() { n.Rune = []rune{0xE0, 0xFF} })
				try("digit-subset", func() { n.Rune = []rune{'0', '5'} })
			case syntax.OpLiteral:
				try("foldcase", func() { n.Flags |= syntax.FoldCase })
				try("non-ascii", func() { n.Rune = append(append([]rune{}, n.Rune...), 0xE9) })
				try("lookaround", func() {
					if parent != nil && parent.Op == syntax.OpConcat {
						wb := &syntax.Regexp{Op: syntax.OpWordBoundary, Flags: syntax.Perl}
						subs := append([]*syntax.Regexp{}, parent.Sub[:idx]...)
						subs = append(subs, wb, n)
						subs = append(subs, parent.Sub[idx+1:]...)
						parent.Sub = subs
					} else {
						*n = syntax.Regexp{Op: syntax.OpConcat, Flags: syntax.Perl, Sub: []*syntax.Regexp{{Op: syntax.OpNoWordBoundary, Flags: syntax.Perl}, lit(string(n.Rune))}}
					}
				})
			case syntax.OpAnyCharNotNL:
				try("dotall", func() { n.Op = syntax.OpAnyChar })
			case syntax.OpAnyChar:
				try("dotall", func() { n.Op = syntax.OpAnyCharNotNL })
			case syntax.OpBeginText:
				try("multiline", func() { n.Op = syntax.OpBeginLine })
			case syntax.OpBeginLine:
				try("multiline", func() { n.Op = syntax.OpBeginText })
			case syntax.OpEndText:
				try("multiline", func() { n.Op = syntax.OpEndLine })
			case syntax.OpAlternate:
				try("empty-alt", func() { n.Sub = append(n.Sub, &syntax.Regexp{Op: syntax.OpEmptyMatch, Flags: syntax.Perl}) })
				try("anchor-branch", func() { n.Sub = append(n.Sub, &syntax.Regexp{Op: syntax.OpBeginText, Flags: syntax.Perl}) })
				try("anchor-branch", func() { n.Sub = append(n.Sub, &syntax.Regexp{Op: syntax.OpEndText, Flags: syntax.Perl}) })
				try("complex-branch", func() {
					n.Sub = append(n.Sub, &syntax.Regexp{Op: syntax.OpConcat, Flags: syntax.Perl, Sub: []*syntax.Regexp{lit("q"), {Op: syntax.OpPlus, Flags: syntax.Perl, Sub: []*syntax.Regexp{lit("r")}}}})
				})
				try("complex-branch", func() {
					n.Sub = append(n.Sub, &syntax.Regexp{Op: syntax.OpPlus, Flags: syntax.Perl, Sub: []*syntax.Regexp{lit("q")}})
				})
			case syntax.OpConcat:
				try("trailing-concat", func() { n.Sub = append(n.Sub, lit("x")) })
				try("trailing-concat", func() {
					n.Sub = append(n.Sub, &syntax.Regexp{Op: syntax.OpEndText, Flags: syntax.Perl | syntax.WasDollar})
				})
				try("empty-alt", func() {
					n.Sub = append(n.Sub, &syntax.Regexp{Op: syntax.OpAlternate, Flags: syntax.Perl, Sub: []*syntax.Regexp{{Op: syntax.OpEmptyMatch, Flags: syntax.Perl}, lit("y")}})
				})
			}
			if n.Op != syntax.OpCapture && n.Op != syntax.OpEmptyMatch {
				try("capture", func() {
					c := *n
					c.Sub = append([]*syntax.Regexp{}, n.Sub...) // n.Sub may alias n.Sub0
					c.Rune = append([]rune{}, n.Rune...)
					*n = syntax.Regexp{Op: syntax.OpCapture, Flags: syntax.Perl, Cap: 1, Sub: []*syntax.Regexp{&c}}
				})
			}
			if done {
				return
			}
			for i, s := range n.Sub {
				walk(s, n, i)
			}
		}
		walk(re, nil, 0)
		if !done {
			if re.Op != syntax.OpConcat && cnt == k {
				// top-level trailing concatenation for non-concat roots
				out = append(out, c19Pattern{pat: "(?:" + p + ")x", seed: p, mclass: "trailing-concat"})
			}
			return out
		}
		s := re.String()
		if _, err := regexp.Compile(s); err != nil {
			continue
		}
		out = append(out, c19Pattern{pat: s, seed: p, mclass: cls})
	}
}

// ---------------------------------------------------------------------------
// AST features, conversion to Gallina.
// ---------------------------------------------------------------------------

func c19Has(re *syntax.Regexp, f func(*syntax.Regexp) bool) bool {
	if f(re) {
		return true
	}
	for _, s := range re.Sub {
		if c19Has(s, f) {
			return true
		}
	}
	return false
}

func c19Lazy(re *syntax.Regexp) bool {
	return c19Has(re, func(n *syntax.Regexp) bool {
		switch n.Op {
		case syntax.OpStar, syntax.OpPlus, syntax.OpQuest, syntax.OpRepeat:
			return n.Flags&syntax.NonGreedy != 0
		}
		return false
	})
}

func c19LookBehindSensitive(re *syntax.Regexp) bool {
	return c19Has(re, func(n *syntax.Regexp) bool {
		switch n.Op {
		case syntax.OpBeginLine, syntax.OpBeginText, syntax.OpWordBoundary, syntax.OpNoWordBoundary:
			return true
		}
		return false
	})
}

func c19NonASCIIPat(re *syntax.Regexp) bool {
	return c19Has(re, func(n *syntax.Regexp) bool {
		if n.Op == syntax.OpLiteral || n.Op == syntax.OpCharClass {
			for _, r := range n.Rune {
				if r > 127 && r != 0x10FFFF {
					return true
				}
			}
			// negated classes reach 0x10FFFF; they are non-ASCII too
			for i := 1; i < len(n.Rune); i += 2 {
				if n.Op == syntax.OpCharClass && n.Rune[i] > 127 {
					return true
				}
			}
		}
		return false
	})
}

// c19LoopsConsume: every loop body is non-nullable (the Coq reference rejects empty iterations;
// RE2/Go and Perl differ on `(|a)*`).
func c19LoopsConsume(re *syntax.Regexp) bool {
	return !c19Has(re, func(n *syntax.Regexp) bool {
		switch n.Op {
		case syntax.OpStar, syntax.OpPlus, syntax.OpRepeat:
			return canBeEmpty(n.Sub[0])
		}
		return false
	})
}

func c19CoqRe(re *syntax.Regexp) (string, bool) {
	nlist := func(rs []rune) string {
		parts := make([]string, len(rs))
		for i, r := range rs {
			parts[i] = fmt.Sprint(int(r))
		}
		return "[" + strings.Join(parts, ";") + "]"
	}
	subs := func() (string, bool) {
		parts := make([]string, len(re.Sub))
		for i, s := range re.Sub {
			t, ok := c19CoqRe(s)
			if !ok {
				return "", false
			}
			parts[i] = t
		}
		return "[" + strings.Join(parts, "; ") + "]", true
	}
	g := coqBool(re.Flags&syntax.NonGreedy == 0)
	one := func(ctor string) (string, bool) {
		if len(re.Sub) != 1 {
			return "", false
		}
		t, ok := c19CoqRe(re.Sub[0])
		return "(" + ctor + " " + t + ")", ok
	}
	switch re.Op {
	case syntax.OpLiteral:
		return fmt.Sprintf("(Lit %s %s)", coqBool(re.Flags&syntax.FoldCase != 0), nlist(re.Rune)), true
	case syntax.OpEmptyMatch:
		return "(Lit false [])", true
	case syntax.OpCharClass:
		var parts []string
		for i := 0; i+1 < len(re.Rune); i += 2 {
			parts = append(parts, fmt.Sprintf("(%d,%d)", re.Rune[i], re.Rune[i+1]))
		}
		return "(Class [" + strings.Join(parts, ";") + "])", true
	case syntax.OpStar:
		return one("Star " + g)
	case syntax.OpPlus:
		return one("Plus " + g)
	case syntax.OpQuest:
		return one("Quest " + g)
	case syntax.OpRepeat:
		mx := "None"
		if re.Max >= 0 {
			mx = fmt.Sprintf("(Some %d%%nat)", re.Max)
		}
		return one(fmt.Sprintf("Repeat %s %d%%nat %s", g, re.Min, mx))
	case syntax.OpConcat:
		t, ok := subs()
		return "(Concat " + t + ")", ok
	case syntax.OpAlternate:
		t, ok := subs()
		return "(Alt " + t + ")", ok
	case syntax.OpBeginText:
		return "BeginText", true
	case syntax.OpEndText:
		return "EndText", true
	case syntax.OpBeginLine:
		return "BeginLine", true
	case syntax.OpEndLine:
		return "EndLine", true
	case syntax.OpAnyCharNotNL:
		return "AnyNotNL", true
	case syntax.OpAnyChar:
		return "AnyChar", true
	case syntax.OpCapture:
		return one("Capture")
	}
	return "", false
}

// ---------------------------------------------------------------------------
// Dumping construction data (unexported fields are READ through reflect).
// ---------------------------------------------------------------------------

func c19Tbl(v reflect.Value) string { // [256]bool -> (T [(lo,hi);...])
	var parts []string
	for i := 0; i < 256; {
		if !v.Index(i).Bool() {
			i++
			continue
		}
		j := i
		for j+1 < 256 && v.Index(j+1).Bool() {
			j++
		}
		parts = append(parts, fmt.Sprintf("(%d,%d)", i, j))
		i = j + 1
	}
	return "(T [" + strings.Join(parts, ";") + "])"
}

func c19Parts(v reflect.Value) string { // []*charClassPart
	var parts []string
	for i := 0; i < v.Len(); i++ {
		p := v.Index(i).Elem()
		mx := int(p.FieldByName("maxMatch").Int())
		if mx < 0 {
			mx = 0 // Go: -1 and 0 both fail `maxMatch > 0`; the model uses 0
		}
		parts = append(parts, fmt.Sprintf("(mkPart %s %d%%nat %d%%nat)", c19Tbl(p.FieldByName("membership")), p.FieldByName("minMatch").Int(), mx))
	}
	return "[" + strings.Join(parts, "; ") + "]"
}

func c19DumpCC(s *nfa.CharClassSearcher) string {
	v := reflect.ValueOf(s).Elem()
	return fmt.Sprintf("(SCharClass (mkCcs %s %d%%nat))", c19Tbl(v.FieldByName("membership")), v.FieldByName("minMatch").Int())
}
func c19DumpComp(s *nfa.CompositeSearcher) string {
	return "(SComposite " + c19Parts(reflect.ValueOf(s).Elem().FieldByName("parts")) + ")"
}
func c19DumpCDFA(s *nfa.CompositeSequenceDFA) string {
	return "(SCompositeDFA " + c19Parts(reflect.ValueOf(s).Elem().FieldByName("parts")) + ")"
}
func c19DumpBD(d *nfa.BranchDispatcher) string {
	v := reflect.ValueOf(d).Elem()
	disp := v.FieldByName("dispatch")
	var runs []string
	for i := 0; i < 256; {
		x := disp.Index(i).Int()
		j := i
		for j+1 < 256 && disp.Index(j+1).Int() == x {
			j++
		}
		runs = append(runs, fmt.Sprintf("(%d%%nat,%s%%Z)", j-i+1, coqZ(int(x))))
		i = j + 1
	}
	ms := v.FieldByName("branchMatchers")
	var mparts []string
	for i := 0; i < ms.Len(); i++ {
		m := ms.Index(i)
		lit := m.FieldByName("literal")
		lb := make([]byte, lit.Len())
		for k := range lb {
			lb[k] = byte(lit.Index(k).Uint())
		}
		mparts = append(mparts, fmt.Sprintf("(mkBM %s %s %d%%nat %s)", coqBytes(lb), c19Tbl(m.FieldByName("charClass")), m.FieldByName("minMatch").Int(), coqBool(m.FieldByName("hasCharClass").Bool())))
	}
	return fmt.Sprintf("(SBranch (mkBD (D [%s]) [%s] %s))", strings.Join(runs, ";"), strings.Join(mparts, "; "), coqBool(v.FieldByName("canMatchEmpty").Bool()))
}
func c19DumpAL(a *meta.AnchoredLiteralInfo) string {
	tbl := "None"
	if a.CharClassTable != nil {
		tbl = "(Some " + c19Tbl(reflect.ValueOf(a.CharClassTable).Elem()) + ")"
	}
	return fmt.Sprintf("(SAnchoredLit (mkALc %s %s %s %d%%nat %d%%nat %d%%nat %s))", coqBytes(a.Prefix), coqBytes(a.Suffix), tbl, a.CharClassMin, a.WildcardMin, a.MinLength, coqBool(a.WildcardNoNewline))
}

// c19BuildBD mirrors meta/compile.go:buildCharClassSearchers for UseBranchDispatch.
func c19BuildBD(re *syntax.Regexp) *nfa.BranchDispatcher {
	altPart := re
	if re.Op == syntax.OpConcat && len(re.Sub) >= 2 {
		for _, sub := range re.Sub[1:] {
			if sub.Op == syntax.OpAlternate || sub.Op == syntax.OpCapture {
				altPart = sub
				break
			}
		}
	}
	return nfa.NewBranchDispatcher(altPart)
}

// ---------------------------------------------------------------------------
// Haystacks: exhaustive strings over a small set of units.
// ---------------------------------------------------------------------------

func c19Units(re *syntax.Regexp) [][]byte {
	var units [][]byte
	nlit := 0
	c19Has(re, func(n *syntax.Regexp) bool { // whole multi-character literals as units (at most 2)
		if n.Op == syntax.OpLiteral && len(n.Rune) >= 2 && nlit < 2 {
			nlit++
			units = append(units, []byte(string(n.Rune)))
		}
		return false
	})
	// single ASCII bytes in priority order: literal characters, then per class: lo, hi+1 (the
	// adjacent non-member), hi, lo-1
	var cand []rune
	c19Has(re, func(n *syntax.Regexp) bool {
		switch n.Op {
		case syntax.OpLiteral:
			if len(n.Rune) > 0 {
				cand = append(cand, n.Rune[0], n.Rune[len(n.Rune)-1])
			}
		case syntax.OpCharClass:
			for i := 0; i+1 < len(n.Rune) && i < 4; i += 2 {
				cand = append(cand, n.Rune[i], n.Rune[i+1]+1, n.Rune[i+1], n.Rune[i]-1)
			}
		}
		return false
	})
	cand = append(cand, 'a')
	chosen := map[rune]bool{}
	for _, r := range cand {
		if r >= 0x20 && r < 0x7f && !chosen[r] && len(chosen) < 5-nlit {
			chosen[r] = true
			units = append(units, []byte(string(r)))
		}
	}
	units = append(units, []byte("\n"), []byte("é"), []byte{0xE0})
	return units
}

func c19Haystacks(units [][]byte, maxUnits int, limit int) [][]byte {
	out := [][]byte{{}}
	prev := [][]byte{{}}
	for l := 1; l <= maxUnits; l++ {
		var cur [][]byte
		for _, p := range prev {
			for _, u := range units {
				h := append(append([]byte{}, p...), u...)
				cur = append(cur, h)
			}
		}
		if len(out)+len(cur) > limit {
			// thin deterministically
			step := (len(out)+len(cur))/limit + 1
			for i := 0; i < len(cur); i += step {
				out = append(out, cur[i])
			}
			break
		}
		out = append(out, cur...)
		prev = cur
	}
	return out
}

func c19Span(loc []int) string {
	if loc == nil {
		return "none"
	}
	return fmt.Sprintf("[%d %d]", loc[0], loc[1])
}

func c19CoqSpan(loc []int) string {
	if loc == nil {
		return "None"
	}
	return fmt.Sprintf("(Some (%d%%nat,%d%%nat))", loc[0], loc[1])
}

// ---------------------------------------------------------------------------
// Root-cause classification of a disagreement: "<searcher or strategy>/<class>".
// ---------------------------------------------------------------------------

func c19Cause(who string, re *syntax.Regexp, h []byte, mclass string) string {
	hasNL := strings.Contains(string(h), "\n")
	nonASCIIh := false
	for _, b := range h {
		if b >= 0x80 {
			nonASCIIh = true
		}
	}
	dotNL := c19Has(re, func(n *syntax.Regexp) bool { return n.Op == syntax.OpAnyCharNotNL })
	fold := c19Has(re, func(n *syntax.Regexp) bool { return n.Op == syntax.OpLiteral && n.Flags&syntax.FoldCase != 0 })
	look := c19Has(re, func(n *syntax.Regexp) bool {
		return n.Op == syntax.OpWordBoundary || n.Op == syntax.OpNoWordBoundary
	})
	switch who {
	case "CharClassSearcher":
		if c19Lazy(re) {
			return who + "/nongreedy"
		}
	case "CompositeSearcher", "CompositeSequenceDFA", "UseCompositeSearcher":
		if c19Has(re, func(n *syntax.Regexp) bool { return n.Op == syntax.OpRepeat && n.Max == 0 }) {
			return who + "/repeat-zero"
		}
		if c19Lazy(re) {
			return who + "/nongreedy"
		}
		if who != "CompositeSearcher" && c19Has(re, func(n *syntax.Regexp) bool { return n.Op == syntax.OpRepeat && n.Min >= 2 && n.Max == -1 }) {
			return who + "/min-count" // x{n,} (n >= 2) is run as x+
		}
		if c19NonASCIIPat(re) || nonASCIIh {
			return who + "/non-ascii"
		}
		if who != "CompositeSearcher" {
			return who + "/restart-skip"
		}
	case "BranchDispatcher", "UseBranchDispatch":
		// structure first: what follows / surrounds the dispatched alternation
		if re.Op == syntax.OpConcat {
			seenAlt := false
			for _, s := range re.Sub[1:] {
				in := s
				if in.Op == syntax.OpCapture && len(in.Sub) == 1 {
					in = in.Sub[0]
				}
				if seenAlt {
					return who + "/trailing-concat"
				}
				if in.Op == syntax.OpAlternate {
					seenAlt = true
					// the branch the first byte dispatches to
					var br *syntax.Regexp
					for _, b := range in.Sub {
						if f := nfa.ExtractFirstBytes(b); f != nil && len(h) > 0 && f.Contains(h[0]) {
							br = b
							break
						}
					}
					if br == nil {
						for _, b := range in.Sub {
							if canBeEmpty(b) {
								return who + "/empty-branch"
							}
						}
						if c19NonASCIIPat(in) || nonASCIIh {
							return who + "/non-ascii"
						}
						continue
					}
					x := br
					if x.Op == syntax.OpCapture && len(x.Sub) == 1 {
						x = x.Sub[0]
					}
					if !(x.Op == syntax.OpLiteral || (x.Op == syntax.OpPlus && x.Sub[0].Op == syntax.OpCharClass)) {
						return who + "/complex-branch"
					}
					if c19Lazy(br) {
						return who + "/nongreedy"
					}
					if c19NonASCIIPat(br) {
						return who + "/non-ascii"
					}
					if fold {
						return who + "/foldcase"
					}
				} else if !seenAlt {
					return who + "/leading-concat"
				}
			}
		}
	case "AnchoredLiteral", "UseAnchoredLiteral":
		if fold {
			return who + "/foldcase"
		}
		if c19NonASCIIPat(re) {
			return who + "/non-ascii"
		}
		if dotNL && hasNL {
			return who + "/newline"
		}
		if nonASCIIh {
			return who + "/non-ascii"
		}
	case "FirstBytes":
		if c19Has(re, func(n *syntax.Regexp) bool {
			return n.Op == syntax.OpAlternate || n.Op == syntax.OpCapture || n.Op == syntax.OpPlus || n.Op == syntax.OpRepeat
		}) {
			return who + "/nested-anchor"
		}
	case "UseDigitPrefilter":
		if look {
			return who + "/lookaround"
		}
		if c19Has(re, func(n *syntax.Regexp) bool {
			return n.Op == syntax.OpCharClass && len(n.Rune) == 2 && n.Rune[0] >= '0' && n.Rune[1] <= '9' && !(n.Rune[0] == '0' && n.Rune[1] == '9')
		}) {
			return who + "/digit-subset-skip"
		}
	}
	if strings.HasPrefix(who, "Use") {
		if c19Lazy(re) {
			return who + "/nongreedy"
		}
		if look {
			return who + "/lookaround"
		}
		if fold {
			return who + "/foldcase"
		}
		if dotNL && hasNL {
			return who + "/newline"
		}
		if c19NonASCIIPat(re) || nonASCIIh {
			return who + "/non-ascii"
		}
	}
	if k := strings.LastIndex(mclass, "+"); k >= 0 {
		mclass = mclass[k+1:]
	}
	if (who == "BranchDispatcher" || who == "UseBranchDispatch") && (mclass == "anchor-branch" || mclass == "empty-alt") {
		mclass = "empty-branch"
	}
	return who + "/" + mclass
}

// ---------------------------------------------------------------------------

type c19Run struct {
	st        *stats
	cases     []string // Coq searcher cases
	pcases    []string
	predPats  []string
	scases    []string
	caseBud   int
	pBud      int
	sBud      int
	evals     int
	distinct  distinctSet
	expectBad int
	r         *rng
	seed      uint64
}

func (rr *c19Run) bad(who string, p c19Pattern, re *syntax.Regexp, idx int, h []byte, at int, want, got string) {
	// one root cause per searcher: the end-to-end run of a strategy whose searcher is also driven
	// directly shares the searcher's label
	rcWho := who
	if m, ok := map[string]string{"UseCharClassSearcher": "CharClassSearcher", "UseCompositeSearcher": "CompositeSearcher",
		"UseBranchDispatch": "BranchDispatcher", "UseAnchoredLiteral": "AnchoredLiteral"}[who]; ok {
		rcWho = m
	}
	if who == "UseCompositeSearcher" && nfa.IsCompositeSequenceDFAPattern(re) {
		rcWho = "CompositeSequenceDFA" // the engine prefers the DFA form
	}
	rc := c19Cause(rcWho, re, h, p.mclass)
	rr.st.violate(violation{
		Kind: who, Case: idx,
		Detail: map[string]any{"searcher_or_strategy": who, "pattern": p.pat, "seed": p.seed, "mutation": p.mclass,
			"haystack": string(h), "haystack_hex": fmt.Sprintf("%x", h), "at": at, "expected_regexp": want, "got": got},
		Sig:      fmt.Sprintf("%s pat=%q hay=%x at=%d got=%s", who, p.pat, h, at, got),
		RC:       rc,
		Expected: want, Got: got,
	})
	rr.st.hist("violation " + rc)
}

func c19Loc(s, e int, ok bool) []int {
	if !ok {
		return nil
	}
	return []int{s, e}
}

func c19Eq(a, b []int) bool {
	if (a == nil) != (b == nil) {
		return false
	}
	return a == nil || (a[0] == b[0] && a[1] == b[1])
}

func (rr *c19Run) emitCase(data string, h []byte, at int, obs []int) {
	id := len(rr.cases)
	rr.cases = append(rr.cases, fmt.Sprintf("  mkCase %d %s %s %d%%nat %s", id, data, coqBytes(h), at, c19CoqSpan(obs)))
}

func cmdC19(args []string) int {
	fs := flag.NewFlagSet("c19", flag.ExitOnError)
	seed := fs.Uint64("seed", 1, "seed")
	tier := fs.String("tier", "quick", "quick|thorough")
	out := fs.String("out", "cases.v", "Coq case file")
	statsPath := fs.String("stats", "stats.json", "stats file")
	n := fs.Int("n", 0, "maximum number of patterns (0 = tier default)")
	only := fs.String("pattern", "", "run a single pattern (debugging / replay)")
	_ = fs.Parse(args)
	t0 := time.Now()

	st := newStats("C19", *seed)
	rr := &c19Run{st: st, distinct: distinctSet{}, r: newRng(*seed), seed: *seed}
	maxUnits, hayLimit, maxPats := 4, 3000, 420
	rr.caseBud, rr.pBud, rr.sBud = 250, 200, 150
	if *tier == "thorough" {
		maxUnits, hayLimit, maxPats = 5, 20000, 1500
		rr.caseBud, rr.pBud, rr.sBud = 600, 400, 400
	}
	if *n > 0 {
		maxPats = *n
	}

	// ---- patterns: seeds, all single mutations, sampled double mutations ----------------
	var pats []c19Pattern
	seen := map[string]bool{}
	addPat := func(p c19Pattern) bool {
		if seen[p.pat] {
			return false
		}
		if _, err := regexp.Compile(p.pat); err != nil {
			return false
		}
		if _, err := syntax.Parse(p.pat, syntax.Perl); err != nil {
			return false
		}
		seen[p.pat] = true
		pats = append(pats, p)
		return true
	}
	if *only != "" {
		addPat(c19Pattern{pat: *only, seed: *only, mclass: "seed"})
	} else {
		for _, s := range c19Seeds {
			addPat(c19Pattern{pat: s, seed: s, mclass: "seed"})
		}
		var singles []c19Pattern
		for i, s := range c19Seeds {
			ms := c19Mutations(s)
			singles = append(singles, ms...)
			if i < 9 {
				// the seeds of the directly driven searchers are short: every single-node
				// mutation of them is always run (a predicate that accepts one node too many is
				// caught in the quick tier)
				for _, m := range ms {
					addPat(m)
				}
			}
		}
		// order: round-robin over mutation classes so that a truncated run covers all of them
		byClass := map[string][]c19Pattern{}
		var classes []string
		for _, p := range singles {
			if _, ok := byClass[p.mclass]; !ok {
				classes = append(classes, p.mclass)
			}
			byClass[p.mclass] = append(byClass[p.mclass], p)
		}
		sort.Strings(classes)
		pr := rr.r.fork(1)
		for _, c := range classes { // deterministic shuffle inside a class
			l := byClass[c]
			for i := len(l) - 1; i > 0; i-- {
				j := pr.intn(i + 1)
				l[i], l[j] = l[j], l[i]
			}
		}
		budget1 := maxPats * 3 / 4
		for round := 0; len(pats) < budget1; round++ {
			any := false
			for _, c := range classes {
				if round < len(byClass[c]) {
					any = true
					if len(pats) < budget1 {
						addPat(byClass[c][round])
					}
				}
			}
			if !any {
				break
			}
		}
		// double mutations
		dr := rr.r.fork(2)
		for tries := 0; len(pats) < maxPats && tries < maxPats*20 && len(singles) > 0; tries++ {
			base := singles[dr.intn(len(singles))]
			ms := c19Mutations(base.pat)
			if len(ms) == 0 {
				continue
			}
			m2 := ms[dr.intn(len(ms))]
			m2.seed = base.seed
			m2.mclass = base.mclass + "+" + m2.mclass
			addPat(m2)
		}
	}

	stratCount := map[string]int{}
	for idx, p := range pats {
		rr.onePattern(idx, p, maxUnits, hayLimit, stratCount)
	}

	// ---- Coq file ---------------------------------------------------------------------
	var sb strings.Builder
	sb.WriteString("From Coq Require Import List NArith ZArith.\nFrom CV Require Import FastPath.\nImport ListNotations.\nOpen Scope N_scope.\n")
	sb.WriteString("Definition cases : list case := [\n" + strings.Join(rr.cases, ";\n") + "\n].\n")
	sb.WriteString("Definition pred_cases : list pcase := [\n" + strings.Join(rr.pcases, ";\n") + "\n].\n")
	sb.WriteString("Definition spec_cases : list scase := [\n" + strings.Join(rr.scases, ";\n") + "\n].\n")
	sb.WriteString("Definition M := Eval vm_compute in mismatches cases.\nPrint M.\n")
	sb.WriteString("Definition PM := Eval vm_compute in pred_mismatches pred_cases.\nPrint PM.\n")
	sb.WriteString("Definition SM := Eval vm_compute in spec_mismatches spec_cases.\nPrint SM.\n")
	if err := os.WriteFile(*out, []byte(sb.String()), 0o644); err != nil {
		fatal("write %s: %v", *out, err)
	}

	st.Evaluations = rr.evals
	st.Distinct = len(rr.distinct)
	st.CoqCases = len(rr.cases) + len(rr.pcases) + len(rr.scases)
	st.Rule = "patterns: accepted seeds of every fast-path whitelist + every single AST-node mutation (nongreedy, quant-op, repeat, repeat-min, repeat-zero, non-ascii, digit-subset, foldcase, lookaround, dotall, multiline, empty-alt, anchor-branch, complex-branch, trailing-concat, capture) + sampled double mutations; per pattern: public predicates/constructors, each applicable searcher run directly on exhaustive unit strings (<= " + fmt.Sprint(maxUnits) + " units: pattern bytes, \\n, é, invalid byte) at every offset vs regexp.FindIndex (at>0 only without look-behind-sensitive operators), coregex FindIndex/Match end-to-end vs regexp with the selected strategy recorded; distinct = distinct (who, pattern, haystack, at)"
	st.Extra["patterns"] = len(pats)
	st.Extra["strategies"] = stratCount
	st.Extra["coq_searcher_cases"] = len(rr.cases)
	st.Extra["coq_pred_cases"] = len(rr.pcases)
	st.Extra["coq_spec_cases"] = len(rr.scases)
	st.Extra["pred_case_patterns"] = rr.predPats
	st.Extra["coq_note"] = "M = searcher-model fidelity on dumped construction data, PM = predicate/builder fidelity on the AST, SM = specification vs regexp; all three must be []"
	st.Extra["seconds"] = time.Since(t0).Seconds()
	st.write(*statsPath)
	b, _ := json.Marshal(st.KnownByRC)
	fmt.Printf("c19: %d patterns, %d evaluations, %d distinct, %d violations (%d kept, known %d %s), coq cases %d+%d+%d, %.1fs\n",
		len(pats), st.Evaluations, st.Distinct, st.TotalViolations, len(st.Violations), st.KnownHits, b, len(rr.cases), len(rr.pcases), len(rr.scases), time.Since(t0).Seconds())
	return 0
}

func (rr *c19Run) onePattern(idx int, p c19Pattern, maxUnits, hayLimit int, stratCount map[string]int) {
	re, err := syntax.Parse(p.pat, syntax.Perl)
	if err != nil {
		return
	}
	std := regexp.MustCompile(p.pat)
	stdAnch, _ := regexp.Compile(`^(?:` + p.pat + `)`)
	eng, err := meta.Compile(p.pat)
	if err != nil {
		rr.st.hist("meta.Compile error")
		return
	}
	strat := eng.Strategy().String()
	stratCount[strat]++
	cre, err := coregex.Compile(p.pat)
	if err != nil {
		rr.st.hist("coregex.Compile error")
		return
	}
	// general-engine baseline on the same compiled NFA (meta/compile.go:CompileRegexp settings): a
	// disagreement with regexp that the PikeVM shares is a defect of the common NFA compiler
	// (C01/C15), not of the fast path; it is counted in the histogram only.
	var pike *nfa.PikeVM
	if n, err := nfa.NewCompiler(nfa.CompilerConfig{UTF8: true, Anchored: false, DotNewline: false, MaxRecursionDepth: meta.DefaultConfig().MaxRecursionDepth}).CompileRegexp(re); err == nil {
		pike = nfa.NewPikeVM(n)
	}
	fastStrategy := c19FastStrategies[strat]

	// ---- predicates and constructors -------------------------------------------------
	isCC := nfa.IsSimpleCharClassPlus(re)
	isComp := nfa.IsCompositeCharClassPattern(re)
	isCDFA := nfa.IsCompositeSequenceDFAPattern(re)
	isBD := nfa.IsBranchDispatchPattern(re)
	var ccs *nfa.CharClassSearcher
	if isCC {
		ccs = nfa.NewCharClassSearcher(nfa.ExtractCharClassRanges(re), 1)
	}
	var comp *nfa.CompositeSearcher
	if isComp {
		comp = nfa.NewCompositeSearcher(re)
	}
	compBuilt := nfa.NewCompositeSearcher(re) != nil
	var cdfa *nfa.CompositeSequenceDFA
	if isCDFA {
		cdfa = nfa.NewCompositeSequenceDFA(re)
	}
	var bd *nfa.BranchDispatcher
	if isBD && re.Sub[0].Op == syntax.OpBeginText { // (?m)^ is never "always anchored": UseBranchDispatch is not selected
		bd = c19BuildBD(re)
	}
	var al *meta.AnchoredLiteralInfo
	if re.Op == syntax.OpConcat {
		al = meta.DetectAnchoredLiteral(re)
	}
	fb := nfa.ExtractFirstBytes(re)
	rr.st.hist("strategy " + strat)
	for name, on := range map[string]bool{"CharClassSearcher": ccs != nil, "CompositeSearcher": comp != nil, "CompositeSequenceDFA": cdfa != nil,
		"BranchDispatcher": bd != nil, "AnchoredLiteral": al != nil, "FirstBytes": fb != nil} {
		if on {
			rr.st.hist("applicable " + name)
		}
	}

	lbs := c19LookBehindSensitive(re)
	units := c19Units(re)
	hays := c19Haystacks(units, maxUnits, hayLimit)
	// longer inputs shaped by the pattern: a cut sample match, an optional noise unit, a sample
	// match, an optional tail (partial attempts followed by a real match; line structure)
	{
		sr := newRng(rr.seed ^ (uint64(idx)+1)*0x9E3779B97F4A7C15)
		nShaped := 120
		if maxUnits > 4 {
			nShaped = 600
		}
		for i := 0; i < nShaped; i++ {
			m1 := sampleMatch(sr, re, 0)
			if len(m1) > 0 {
				m1 = m1[:sr.intn(len(m1)+1)]
			}
			h := append([]byte{}, m1...)
			if sr.chance(40) {
				h = append(h, units[sr.intn(len(units))]...)
			}
			h = append(h, sampleMatch(sr, re, 0)...)
			if sr.chance(40) {
				h = append(h, units[sr.intn(len(units))]...)
				if sr.chance(50) {
					h = append(h, sampleMatch(sr, re, 0)...)
				}
			}
			if len(h) <= 24 {
				hays = append(hays, h)
			}
		}
	}
	coqRe, coqOK := c19CoqRe(re)

	// per-pattern Coq budget: a few agreeing and the first disagreeing inputs per searcher
	type emitState struct{ ok, bad int }
	es := map[string]*emitState{}
	wantEmit := func(who string, disagree bool) bool {
		if len(rr.cases) >= rr.caseBud {
			return false
		}
		e := es[who]
		if e == nil {
			e = &emitState{}
			es[who] = e
		}
		if disagree {
			if e.bad < 1 {
				e.bad++
				return true
			}
			return false
		}
		if e.ok < 1 && rr.r.intn(40) == 0 {
			e.ok++
			return true
		}
		return false
	}

	specEmitted := 0
	for _, h := range hays {
		ref0 := std.FindIndex(h)
		// (b) end-to-end
		rr.evals++
		got := cre.FindIndex(h)
		rr.distinct.add(fmt.Sprintf("e2e\x00%s\x00%x", p.pat, h))
		gm := cre.Match(h)
		if !c19Eq(ref0, got) || gm != (ref0 != nil) {
			gs := c19Span(got)
			if c19Eq(ref0, got) {
				gs = "Match=" + fmt.Sprint(gm)
			}
			shared := false
			if pike != nil {
				ps, pe, pok := pike.Search(h)
				shared = c19Eq(c19Loc(ps, pe, pok), got) && gm == pok
			}
			switch {
			case strat == "UseBoundedBacktracker" && fb != nil && fb.IsUseful() && len(h) > 0 && !fb.Contains(h[0]) && got == nil && !shared:
				rr.bad("FirstByteFilter", p, re, idx, h, 0, c19Span(ref0), gs)
			case !fastStrategy:
				rr.st.hist("general-engine disagreement (not C19) " + strat)
			case shared:
				rr.st.hist("disagreement shared with the PikeVM on the same NFA (not C19) " + strat)
			default:
				rr.bad(strat, p, re, idx, h, 0, c19Span(ref0), gs)
			}
		}

		// (c) specification
		if coqOK && specEmitted < 2 && len(rr.scases) < rr.sBud && c19LoopsConsume(re) && c19ASCII(h) && rr.r.intn(60) == 0 {
			rr.scases = append(rr.scases, fmt.Sprintf("  mkS %d %s %s %s", len(rr.scases), coqRe, coqBytes(h), c19CoqSpan(ref0)))
			specEmitted++
		}

		// (a) direct runs
		for at := 0; at <= len(h); at++ {
			var ref []int
			if at == 0 {
				ref = ref0
			} else {
				if lbs {
					break
				}
				if loc := std.FindIndex(h[at:]); loc != nil {
					ref = []int{loc[0] + at, loc[1] + at}
				}
			}
			direct := func(who, data string, s, e int, ok bool) {
				rr.evals++
				rr.distinct.add(fmt.Sprintf("%s\x00%s\x00%x\x00%d", who, p.pat, h, at))
				g := c19Loc(s, e, ok)
				dis := !c19Eq(ref, g)
				if dis {
					rr.bad(who, p, re, idx, h, at, c19Span(ref), c19Span(g))
				}
				if wantEmit(who, dis) {
					if dis {
						rr.expectBad++
					}
					rr.emitCase(data, h, at, g)
				}
			}
			if ccs != nil {
				s, e, ok := ccs.SearchAt(h, at)
				direct("CharClassSearcher", c19DumpCC(ccs), s, e, ok)
				if at == 0 {
					if im := ccs.IsMatch(h); im != (ref0 != nil) {
						rr.bad("CharClassSearcher", p, re, idx, h, 0, fmt.Sprint(ref0 != nil), "IsMatch="+fmt.Sprint(im))
					}
				}
			}
			if comp != nil {
				s, e, ok := comp.SearchAt(h, at)
				direct("CompositeSearcher", c19DumpComp(comp), s, e, ok)
			}
			if cdfa != nil {
				s, e, ok := cdfa.SearchAt(h, at)
				direct("CompositeSequenceDFA", c19DumpCDFA(cdfa), s, e, ok)
			}
			if at == 0 && bd != nil {
				s, e, ok := bd.Search(h)
				direct("BranchDispatcher", c19DumpBD(bd), s, e, ok)
				if im := bd.IsMatch(h); im != (ref0 != nil) && ok == (ref0 != nil) {
					rr.bad("BranchDispatcher", p, re, idx, h, 0, fmt.Sprint(ref0 != nil), "IsMatch="+fmt.Sprint(im))
				}
			}
			if at == 0 && al != nil && strat == "UseAnchoredLiteral" {
				ok := meta.MatchAnchoredLiteral(h, al)
				direct("AnchoredLiteral", c19DumpAL(al), 0, len(h), ok)
			}
			if at == 0 && fb != nil && fb.IsComplete() && len(h) > 0 && stdAnch != nil {
				rr.evals++
				if loc := stdAnch.FindIndex(h); loc != nil && !fb.Contains(h[0]) {
					rr.bad("FirstBytes", p, re, idx, h, 0, "first byte of an anchored match "+c19Span(loc)+" is in the set", fmt.Sprintf("Contains(0x%02x)=false", h[0]))
				}
			}
		}
	}

	// ---- predicate case ---------------------------------------------------------------
	if coqOK && len(rr.pcases) < rr.pBud {
		fbs := "None"
		if fb != nil {
			v := reflect.ValueOf(fb).Elem().FieldByName("bytes")
			fbs = "(Some " + c19Tbl(v) + ")"
		}
		var data []string
		if ccs != nil {
			data = append(data, c19DumpCC(ccs))
		}
		if comp != nil {
			data = append(data, c19DumpComp(comp))
		}
		if cdfa != nil {
			data = append(data, c19DumpCDFA(cdfa))
		}
		if bd != nil {
			data = append(data, c19DumpBD(bd))
		}
		if al != nil {
			data = append(data, c19DumpAL(al))
		}
		rr.predPats = append(rr.predPats, p.pat)
		rr.pcases = append(rr.pcases, fmt.Sprintf("  mkP %d %s %s %s %s %s %s %s %s [%s]", len(rr.pcases), coqRe,
			coqBool(isCC), coqBool(isComp), coqBool(compBuilt), coqBool(isCDFA), coqBool(isBD), coqBool(al != nil), fbs, strings.Join(data, "; ")))
	}
}

var c19FastStrategies = map[string]bool{"UseCharClassSearcher": true, "UseCompositeSearcher": true, "UseBranchDispatch": true,
	"UseAnchoredLiteral": true, "UseReverseAnchored": true, "UseReverseSuffix": true, "UseReverseSuffixSet": true,
	"UseReverseInner": true, "UseMultilineReverseSuffix": true, "UseDigitPrefilter": true}

func c19ASCII(h []byte) bool {
	for _, b := range h {
		if b >= utf8.RuneSelf {
			return false
		}
	}
	return true
}

func init() { register("c19", cmdC19) }
