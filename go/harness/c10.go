package main

import (
	"flag"
	"fmt"
	"os"
	"os/exec"
	"regexp"
	"regexp/syntax"
	"strings"

	"github.com/coregx/coregex"
	"github.com/coregx/coregex/meta"
	"github.com/coregx/coregex/nfa"
)

// stdObserve mirrors observe() (c13api.go) for Go's regexp.
func stdObserve(re *regexp.Regexp, api string, h []byte) (out string) {
	defer func() {
		if p := recover(); p != nil {
			out = fmt.Sprintf("PANIC: %v", p)
		}
	}()
	switch api {
	case "Match":
		return fmt.Sprint(re.Match(h))
	case "MatchString":
		return fmt.Sprint(re.MatchString(string(h)))
	case "FindIndex":
		return fmtInts(re.FindIndex(h))
	case "FindStringIndex":
		return fmtInts(re.FindStringIndex(string(h)))
	case "FindSubmatchIndex":
		return fmtInts(re.FindSubmatchIndex(h))
	case "FindAllIndex":
		return fmtIntss(re.FindAllIndex(h, -1))
	case "FindAllSubmatchIndex3":
		return fmtIntss(re.FindAllSubmatchIndex(h, 3))
	case "FindAllString2":
		return fmt.Sprintf("%q", re.FindAllString(string(h), 2))
	case "Count":
		return fmt.Sprint(len(re.FindAllIndex(h, -1)))
	case "ReplaceAll":
		return string(re.ReplaceAll(h, []byte("<$0>")))
	case "Split":
		return fmt.Sprintf("%q", re.Split(string(h), -1))
	}
	return "?"
}

func short(s string, n int) string {
	if len(s) > n {
		return s[:n]
	}
	return s
}

// ---------------------------------------------------------------------------
// `c10`: leftmost-longest mode (Longest(), CompilePOSIX) vs regexp in the same mode, and
// "the mode belongs to one Regex value".
// ---------------------------------------------------------------------------

func cmdC10(args []string) int {
	fs := flag.NewFlagSet("c10", flag.ExitOnError)
	seed := fs.Uint64("seed", 1, "seed")
	tier := fs.String("tier", "quick", "tier")
	statsPath := fs.String("stats", "stats.json", "stats")
	_ = fs.String("out", "", "unused")
	corpus := fs.String("corpus", "/verif/corpus/patterns_harvested.txt", "corpus")
	fs.Parse(args)
	st := newStats("C10", *seed)
	r := newRng(*seed)
	pg := &patGen{r: r.fork(1), corpus: loadCorpus(*corpus)}
	npat, nhay := 700, 14
	if *tier == "thorough" {
		npat, nhay = 5000, 24
	}
	distinct := distinctSet{}
	nontriv := 0
	for i := 0; i < npat; i++ {
		pat, src := pg.next(i)
		ast, err := syntax.Parse(pat, syntax.Perl)
		if err != nil {
			continue
		}
		stdF, err := regexp.Compile(pat)
		if err != nil {
			continue
		}
		cxF, err := coregex.Compile(pat)
		if err != nil {
			st.hist("coregex-rejects")
			continue
		}
		stdL, _ := regexp.Compile(pat)
		stdL.Longest()
		cxL, _ := coregex.Compile(pat)
		cxL.Longest()
		// mode is per value: a copy made BEFORE Longest(), then Longest() on the copy only
		cxOrig, _ := coregex.Compile(pat)
		cxCopy := cxOrig.Copy()
		cxCopy.Longest()
		// mode switched AFTER the value has been used in default mode (pooled per-search state
		// already exists and carries the old mode)
		cxUsed, _ := coregex.Compile(pat)
		var stdP *regexp.Regexp
		var cxP *coregex.Regex
		if sp, err := regexp.CompilePOSIX(pat); err == nil {
			if cp, err2 := coregex.CompilePOSIX(pat); err2 == nil {
				stdP, cxP = sp, cp
			} else {
				st.hist("coregex-rejects-posix")
			}
		}
		strat := "?"
		if e, err := meta.Compile(pat); err == nil {
			strat = e.Strategy().String()
		}
		st.hist("src:" + src)
		st.hist("strategy:" + strat)
		hg := newHayGen(r.fork(uint64(i)+3000), ast)
		for _, w := range [][]byte{hg.next(1), hg.next(2), hg.next(4)} { // warm-up in default mode
			for _, api := range []string{"Match", "FindSubmatchIndex", "FindAllIndex", "ReplaceAll"} {
				observe(cxUsed, api, w)
			}
		}
		cxUsed.Longest()
		for j := 0; j < nhay; j++ {
			h := hg.next(j)
			key := pat + "\x00" + string(h)
			if _, dup := distinct[key]; dup {
				continue
			}
			distinct.add(key)
			differs := false
			for _, api := range obsAPIs {
				st.Evaluations++
				wantF := stdObserve(stdF, api, h)
				wantL := stdObserve(stdL, api, h)
				if wantF != wantL {
					differs = true
				}
				chk := func(mode string, re *coregex.Regex, want string) {
					got := observe(re, api, h)
					if got != want {
						st.violate(violation{Kind: mode + ":" + api, Case: i,
							Detail: map[string]any{"mode": mode, "api": api, "pattern": pat, "haystack": string(h), "haystack_hex": fmt.Sprintf("%x", h),
								"strategy": strat, "expected": want, "got": got, "first_mode_result": wantF},
							Sig: fmt.Sprintf("%s:%s pat=%q hay=%x got=%s", mode, api, pat, h, short(got, 80)), Expected: want, Got: got,
							RC: mode + "/" + strat})
					}
				}
				chk("longest", cxL, wantL)
				chk("copy-then-longest", cxCopy, wantL)
				// a value that was searched in default mode before Longest() must behave like a value
				// on which Longest() was called right after Compile (compared with coregex itself, so
				// that the recorded longest-mode findings do not leak into this relation)
				if g1, g2 := observe(cxUsed, api, h), observe(cxL, api, h); g1 != g2 {
					st.violate(violation{Kind: "used-then-longest:" + api, Case: i,
						Detail: map[string]any{"api": api, "pattern": pat, "haystack": string(h), "strategy": strat, "used_then_longest": g1, "longest_from_start": g2, "regexp_longest": wantL},
						Sig:    fmt.Sprintf("used-then-longest:%s pat=%q hay=%x got=%s", api, pat, h, short(g1, 80)), Expected: g2, Got: g1, RC: "mode-not-applied-to-used-value/" + strat})
				}
				// the original of the copy and a separately compiled value stay leftmost-first:
				// compared with what the SAME library returns in first mode (so that C02's findings
				// do not leak into this relation)
				if g1, g2 := observe(cxOrig, api, h), observe(cxF, api, h); g1 != g2 {
					st.violate(violation{Kind: "mode-leaks-to-original:" + api, Case: i,
						Detail: map[string]any{"api": api, "pattern": pat, "haystack": string(h), "strategy": strat, "original_after_copy_longest": g1, "fresh_first_mode": g2},
						Sig:    fmt.Sprintf("mode-leaks-to-original:%s pat=%q hay=%x got=%s", api, pat, h, short(g1, 80)), Expected: g2, Got: g1, RC: "mode-leak/" + strat})
				}
				if stdP != nil {
					chk("posix", cxP, stdObserve(stdP, api, h))
				}
			}
			if differs {
				nontriv++
			}
			if j == 2 && i%40 == 0 {
				st.sample(map[string]any{"pattern": pat, "haystack": string(h), "strategy": strat, "first": stdObserve(stdF, "FindIndex", h), "longest": stdObserve(stdL, "FindIndex", h)})
			}
		}
	}
	st.Distinct = nontriv
	st.Extra["distinct_pairs"] = len(distinct)
	st.Rule = "patterns x AST-derived haystacks; modes: Longest(), Copy() then Longest() on the copy, CompilePOSIX (when regexp.CompilePOSIX accepts the pattern) vs regexp in the same mode over 11 APIs; the original of the copy must behave like a fresh leftmost-first value; non-trivial = regexp's leftmost-first and leftmost-longest answers differ for some API on this (pattern, haystack)"
	st.write(*statsPath)
	return 0
}

// ---------------------------------------------------------------------------
// `c12`: configuration lattice vs default configuration vs the plain NFA simulation.
// ---------------------------------------------------------------------------

func c12Configs(full bool) []struct {
	name string
	cfg  meta.Config
} {
	var out []struct {
		name string
		cfg  meta.Config
	}
	add := func(name string, f func(c *meta.Config)) {
		c := coregex.DefaultConfig()
		f(&c)
		if c.Validate() == nil {
			out = append(out, struct {
				name string
				cfg  meta.Config
			}{name, c})
		}
	}
	add("dfa=off", func(c *meta.Config) { c.EnableDFA = false })
	add("prefilter=off", func(c *meta.Config) { c.EnablePrefilter = false })
	add("ascii-opt=off", func(c *meta.Config) { c.EnableASCIIOptimization = false })
	add("dfa=off,prefilter=off,ascii-opt=off", func(c *meta.Config) {
		c.EnableDFA, c.EnablePrefilter, c.EnableASCIIOptimization = false, false, false
	})
	for _, n := range []uint32{1, 2, 10, 1000000} {
		n := n
		add(fmt.Sprintf("maxdfa=%d", n), func(c *meta.Config) { c.MaxDFAStates = n })
	}
	for _, n := range []int{10, 11, 100000} {
		n := n
		add(fmt.Sprintf("det=%d", n), func(c *meta.Config) { c.DeterminizationLimit = n })
	}
	for _, n := range []int{2, 8, 64} {
		n := n
		add(fmt.Sprintf("minlit=%d", n), func(c *meta.Config) { c.MinLiteralLen = n })
	}
	for _, n := range []int{1, 2, 64, 65, 1000} {
		n := n
		add(fmt.Sprintf("maxlits=%d", n), func(c *meta.Config) { c.MaxLiterals = n })
	}
	add("depth=1000", func(c *meta.Config) { c.MaxRecursionDepth = 1000 })
	add("maxdfa=2,det=10,minlit=2,maxlits=2", func(c *meta.Config) {
		c.MaxDFAStates, c.DeterminizationLimit, c.MinLiteralLen, c.MaxLiterals = 2, 10, 2, 2
	})
	add("maxdfa=1,prefilter=off", func(c *meta.Config) { c.MaxDFAStates, c.EnablePrefilter = 1, false })
	return out
}

func cmdC12(args []string) int {
	fs := flag.NewFlagSet("c12", flag.ExitOnError)
	seed := fs.Uint64("seed", 1, "seed")
	tier := fs.String("tier", "quick", "tier")
	statsPath := fs.String("stats", "stats.json", "stats")
	_ = fs.String("out", "", "unused")
	modelPath := fs.String("model", "/verif/.work/bin/driver", "model driver")
	corpus := fs.String("corpus", "/verif/corpus/patterns_harvested.txt", "corpus")
	child := fs.String("child", "", "internal: run as CPU-masked child, print observations")
	fs.Parse(args)
	st := newStats("C12", *seed)
	r := newRng(*seed)
	pg := &patGen{r: r.fork(1), corpus: loadCorpus(*corpus)}
	npat, nhay := 420, 10
	if *tier == "thorough" {
		npat, nhay = 3000, 20
	}
	cfgs := c12Configs(true)
	apis := []string{"Match", "FindIndex", "FindSubmatchIndex", "FindAllIndex", "Count"}
	var model *modelProc
	if *child == "" && *modelPath != "" {
		model = startModel(*modelPath)
		defer model.close()
	}
	distinct := distinctSet{}
	// invalid configurations must be rejected
	if *child == "" {
		bad := []func(c *meta.Config){
			func(c *meta.Config) { c.MaxDFAStates = 0 }, func(c *meta.Config) { c.MaxDFAStates = 1000001 },
			func(c *meta.Config) { c.DeterminizationLimit = 9 }, func(c *meta.Config) { c.DeterminizationLimit = 100001 },
			func(c *meta.Config) { c.MinLiteralLen = 0 }, func(c *meta.Config) { c.MinLiteralLen = 65 },
			func(c *meta.Config) { c.MaxLiterals = 0 }, func(c *meta.Config) { c.MaxLiterals = 1001 },
			func(c *meta.Config) { c.MaxRecursionDepth = 9 }, func(c *meta.Config) { c.MaxRecursionDepth = 1001 },
		}
		for k, f := range bad {
			c := coregex.DefaultConfig()
			f(&c)
			st.Evaluations++
			if _, err := coregex.CompileWithConfig("a+b", c); err == nil {
				st.violate(violation{Kind: "invalid-config-accepted", Case: k, Detail: map[string]any{"config_index": k, "config": fmt.Sprintf("%+v", c)},
					Sig: fmt.Sprintf("invalid-config-accepted %d", k), RC: "invalid-config-accepted"})
			}
		}
	}
	var childLines []string
	for i := 0; i < npat; i++ {
		pat, src := pg.next(i)
		ast, err := syntax.Parse(pat, syntax.Perl)
		if err != nil {
			continue
		}
		def, err := coregex.Compile(pat)
		if err != nil {
			continue
		}
		hg := newHayGen(r.fork(uint64(i)+4000), ast)
		hays := make([][]byte, nhay)
		for j := range hays {
			hays[j] = hg.next(j)
		}
		hays = append(hays, hg.perLiteral()...)
		if *child != "" {
			for j, h := range hays {
				for _, api := range apis {
					childLines = append(childLines, fmt.Sprintf("%d\t%d\t%s\t%s", i, j, api, strings.ReplaceAll(observe(def, api, h), "\n", "\\n")))
				}
			}
			continue
		}
		strat := "?"
		if e, err := meta.Compile(pat); err == nil {
			strat = e.Strategy().String()
		}
		st.hist("src:" + src)
		st.hist("strategy:" + strat)
		// reference on the dumped NFA
		modelOK := false
		if n, err := nfa.NewDefaultCompiler().CompileRegexp(ast); err == nil && model != nil && n.States() <= 300 {
			d := dumpNFA(n)
			modelOK = d.ok && model.load(d)
		}
		// pairwise covering: each pattern sees 5 configurations, rotating
		for k := 0; k < 5; k++ {
			cc := cfgs[(i*5+k)%len(cfgs)]
			re, err := coregex.CompileWithConfig(pat, cc.cfg)
			if err != nil {
				st.hist("config-rejects:" + cc.name)
				continue
			}
			st.hist("cfg:" + cc.name)
			for _, h := range hays {
				distinct.add(pat + "\x00" + string(h))
				for _, api := range apis {
					st.Evaluations++
					want := observe(def, api, h)
					got := observe(re, api, h)
					if got != want {
						st.violate(violation{Kind: "config-vs-default:" + api, Case: i,
							Detail: map[string]any{"config": cc.name, "api": api, "pattern": pat, "haystack": string(h), "haystack_hex": fmt.Sprintf("%x", h), "strategy_default": strat,
								"default_result": want, "configured_result": got},
							Sig: fmt.Sprintf("config-vs-default:%s cfg=%s pat=%q hay=%x got=%s", api, cc.name, pat, h, short(got, 80)), Expected: want, Got: got,
							RC: "config-vs-default/" + cc.name})
					}
				}
			}
		}
		// default configuration vs the plain NFA simulation (the Coq reference on the dumped NFA)
		if modelOK {
			for _, h := range hays {
				if len(h) > 120 {
					continue
				}
				ref, ok := model.find(h, 0)
				if !ok {
					continue
				}
				st.Evaluations++
				if got, want := fmtInts(def.FindSubmatchIndex(h)), fmtInts(ref); got != want {
					st.violate(violation{Kind: "default-vs-nfa-reference:FindSubmatchIndex", Case: i,
						Detail: map[string]any{"pattern": pat, "haystack": string(h), "haystack_hex": fmt.Sprintf("%x", h), "strategy": strat, "reference_on_compiled_nfa": want, "got": got},
						Sig:    fmt.Sprintf("default-vs-nfa-reference pat=%q hay=%x got=%s", pat, h, short(got, 80)), Expected: want, Got: got, RC: "default-vs-nfa-reference/" + strat})
				}
			}
		}
		if i%50 == 0 {
			st.sample(map[string]any{"pattern": pat, "strategy": strat, "configs": 5, "haystacks": nhay})
		}
	}
	if *child != "" {
		f, err := os.Create(*child)
		if err != nil {
			return 3
		}
		for _, l := range childLines {
			fmt.Fprintln(f, l)
		}
		f.Close()
		return 0
	}
	// CPU vector extensions masked: re-exec under GODEBUG and compare the default-config observations
	self, _ := os.Executable()
	base := "c12-child-base.txt"
	runChild := func(godebug, out string) bool {
		cmd := exec.Command(self, "c12", "-seed", fmt.Sprint(*seed), "-tier", *tier, "-corpus", *corpus, "-child", out, "-model", "")
		cmd.Env = append(os.Environ(), "GODEBUG="+godebug)
		return cmd.Run() == nil
	}
	if runChild("", base) {
		baseB, _ := os.ReadFile(base)
		for _, gd := range []string{"cpu.avx2=off", "cpu.avx2=off,cpu.ssse3=off", "cpu.all=off"} {
			out := "c12-child-" + strings.ReplaceAll(strings.ReplaceAll(gd, ",", "_"), "=", "-") + ".txt"
			if !runChild(gd, out) {
				st.Notes = appendNote(st.Notes, "child with GODEBUG="+gd+" failed to run")
				continue
			}
			b, _ := os.ReadFile(out)
			bl, ol := strings.Split(string(baseB), "\n"), strings.Split(string(b), "\n")
			st.hist("cpu-mask:" + gd)
			for k := 0; k < len(bl) && k < len(ol); k++ {
				st.Evaluations++
				if bl[k] != ol[k] {
					st.violate(violation{Kind: "cpu-mask-vs-default", Case: k, Detail: map[string]any{"godebug": gd, "default": short(bl[k], 300), "masked": short(ol[k], 300)},
						Sig: fmt.Sprintf("cpu-mask %s line=%s got=%s", gd, short(bl[k], 60), short(ol[k], 80)), RC: "cpu-mask/" + gd})
				}
			}
		}
	} else {
		st.Notes = appendNote(st.Notes, "could not run the CPU-mask child")
	}
	st.Distinct = len(distinct)
	st.Rule = "per pattern: 5 of 23 valid configurations (rotating; DFA/prefilter/ASCII-optimisation off, MaxDFAStates 1..10^6, DeterminizationLimit 10..10^5, MinLiteralLen, MaxLiterals, depth, combinations) vs the default configuration over 5 APIs and AST-derived haystacks; default configuration vs the extracted Coq reference on the dumped NFA; invalid configurations rejected; GODEBUG cpu.avx2/ssse3/all=off child processes vs unmasked; distinct = distinct (pattern, haystack)"
	st.write(*statsPath)
	return 0
}

func init() {
	register("c10", cmdC10)
	register("c12", cmdC12)
}
