package main

import (
	"flag"
	"fmt"
	"regexp"
	"regexp/syntax"
	"sync"

	"github.com/coregx/coregex"
)

// `c06-race`: N goroutines replay a strategy-covering corpus on SHARED Regex values
// (build the harness with -race; race reports go to the GORACE log_path and are parsed
// by the runner).  Every concurrent result is compared with the result of the same call
// executed alone.

type c06Call struct {
	api string
	hay []byte
}

func c06Run(re *coregex.Regex, c c06Call) (out string) {
	defer func() {
		if p := recover(); p != nil {
			out = fmt.Sprintf("PANIC: %v", p)
		}
	}()
	switch c.api {
	case "Match":
		return fmt.Sprint(re.Match(c.hay))
	case "FindIndex":
		return fmtInts(re.FindIndex(c.hay))
	case "FindSubmatchIndex":
		return fmtInts(re.FindSubmatchIndex(c.hay))
	case "FindAllIndex":
		return fmtIntss(re.FindAllIndex(c.hay, -1))
	case "Count":
		return fmt.Sprint(re.Count(c.hay, -1))
	case "ReplaceAll":
		return string(re.ReplaceAll(c.hay, []byte("<$0>")))
	case "FindAllSubmatchIndex":
		return fmtIntss(re.FindAllSubmatchIndex(c.hay, 3))
	case "FindString":
		return re.FindString(string(c.hay))
	case "Split":
		return fmt.Sprintf("%q", re.Split(string(c.hay), -1))
	}
	return ""
}

var c06APIs = []string{"Match", "FindIndex", "FindSubmatchIndex", "FindAllIndex", "Count", "ReplaceAll", "FindAllSubmatchIndex", "FindString", "Split"}

func cmdC06Race(args []string) int {
	fs := flag.NewFlagSet("c06-race", flag.ExitOnError)
	seed := fs.Uint64("seed", 1, "seed")
	tier := fs.String("tier", "quick", "tier")
	statsPath := fs.String("stats", "stats.json", "stats")
	corpus := fs.String("corpus", "/verif/corpus/patterns_harvested.txt", "corpus")
	fs.Parse(args)
	st := newStats("C06", *seed)
	r := newRng(*seed)
	pg := &patGen{r: r.fork(1), corpus: loadCorpus(*corpus)}
	npat := 260
	if *tier == "thorough" {
		npat = 1500
	}
	distinct := distinctSet{}
	for i := 0; i < npat; i++ {
		pat, src := pg.next(i)
		re, err := coregex.Compile(pat)
		if err != nil {
			continue
		}
		if _, err := regexp.Compile(pat); err != nil {
			continue
		}
		ast, _ := syntax.Parse(pat, syntax.Perl)
		hg := newHayGen(r.fork(uint64(i)+7000), ast)
		// call multiset: same and different haystacks
		var calls []c06Call
		nh := 6
		hays := make([][]byte, nh)
		for j := range hays {
			hays[j] = hg.next(j + 1)
		}
		for j := 0; j < 36; j++ {
			calls = append(calls, c06Call{api: c06APIs[(j+i)%len(c06APIs)], hay: hays[r.intn(nh)]})
		}
		// sequential reference on a separate, freshly compiled value
		ref, _ := coregex.Compile(pat)
		want := make([]string, len(calls))
		for k, c := range calls {
			want[k] = c06Run(ref, c)
		}
		strat := "?"
		if c, _ := prepCase(i, pat, src, nil); c != nil {
			strat = stratOf(c)
		}
		st.hist("strategy:" + strat)
		for _, g := range []int{2, 8} {
			got := make([]string, len(calls))
			var wg sync.WaitGroup
			start := make(chan struct{})
			for w := 0; w < g; w++ {
				wg.Add(1)
				go func(w int) {
					defer wg.Done()
					<-start
					for k := w; k < len(calls); k += g {
						got[k] = c06Run(re, calls[k])
					}
				}(w)
			}
			close(start)
			wg.Wait()
			for k := range calls {
				st.Evaluations++
				distinct.add(pat + "\x00" + calls[k].api + "\x00" + string(calls[k].hay))
				if got[k] != want[k] {
					st.violate(violation{Kind: "concurrent-result-differs", Case: i,
						Detail: map[string]any{"pattern": pat, "api": calls[k].api, "haystack": string(calls[k].hay), "goroutines": g, "strategy": strat,
							"expected": want[k], "got": got[k]},
						Sig: fmt.Sprintf("concurrent-result-differs %s pat=%q hay=%x", calls[k].api, pat, calls[k].hay), Expected: want[k], Got: got[k]})
				}
			}
		}
		if i%40 == 0 {
			st.sample(map[string]any{"pattern": pat, "strategy": strat, "goroutines": []int{2, 8}, "calls": len(calls)})
		}
	}
	st.Distinct = len(distinct)
	st.Rule = "per pattern (curated strategy triggers + corpus + grammar): 36 calls over 9 APIs on 6 haystacks, replayed by 2 and by 8 goroutines on one shared Regex; distinct = distinct (pattern, api, haystack); every result compared with the sequential result on a fresh value; race reports parsed from the race detector's log"
	st.write(*statsPath)
	return 0
}

func init() { register("c06-race", cmdC06Race) }
