//go:build verif

// Sub-command c17: property C17 -- "extracted literals are necessary for every match".
//
// For patterns x extractor limits the public extractor API is run
// (literal.New(cfg).ExtractPrefixes / ExtractSuffixes / ExtractInner /
// ExtractInnerForReverseSearch on the tree syntax.Parse(p, syntax.Perl) returns, which
// is what meta/compile.go passes -- it does not Simplify).  Empty and
// IsPartialCoverage sequences carry no guarantee and are only counted.
//
// Go-side search for failing inputs: members of the pattern's language (sampled from
// the AST and confirmed with Go's regexp as ^(?:p)$, plus every substring Go's regexp
// reports as a match inside generated haystacks) are checked against the literal set
// (prefix / suffix / infix), and every Complete literal of a prefix sequence is probed
// with Go's regexp (is it a member; which match does leftmost-first prefer on l and on
// extensions of l).
//
// Coq side: for small NFAs the dumped NFA and the literal set go to the certified cover
// checkers of Literal.v, which decide coverage for ALL matches.  Their witnesses come
// back through -confirm and are re-checked with Go's regexp (Look states are relaxed in
// the checker, so a witness may be spurious).
package main

import (
	"bytes"
	"encoding/hex"
	"encoding/json"
	"flag"
	"fmt"
	"os"
	"os/exec"
	"regexp"
	"regexp/syntax"
	"sort"
	"strconv"
	"strings"
	"time"

	"github.com/coregx/coregex/literal"
	"github.com/coregx/coregex/nfa"
)

func init() { register("c17", c17Main) }

type c17Cfg struct {
	name string
	cfg  literal.ExtractorConfig
}

func c17Configs() []c17Cfg {
	d := literal.DefaultConfig()
	out := []c17Cfg{{"default", d}}
	// what meta/compile.go and meta/strategy.go pass (MaxLiterals from meta.DefaultConfig)
	out = append(out, c17Cfg{"meta", literal.ExtractorConfig{MaxLiterals: 256, MaxLiteralLen: 64, MaxClassSize: 10}})
	for _, v := range []int{1, 2, 8, 256} { // 64 is the default
		c := d
		c.MaxLiterals = v
		out = append(out, c17Cfg{"ML" + strconv.Itoa(v), c})
	}
	for _, v := range []int{1, 2, 4, 8} { // 64 is the default
		c := d
		c.MaxLiteralLen = v
		out = append(out, c17Cfg{"MLL" + strconv.Itoa(v), c})
	}
	for _, v := range []int{1, 4} { // 250 is the default
		c := d
		c.CrossProductLimit = v
		out = append(out, c17Cfg{"CPL" + strconv.Itoa(v), c})
	}
	return out
}

var c17Kinds = []string{"prefix", "suffix", "inner", "rinner"}

// patterns aimed at the limit-handling paths of extractor.go
var c17Curated = []string{
	`foo|[a-z]+`, `foo|bar|[0-9]`, `abc`, `abcdefghij`, `[ab][cd]`, `[ab][cd][ef]`, `[a-h][a-h][a-i]`, `[a-h][a-h][a-h]`,
	`x(?i:a)y`, `x(?i:k)y`, `x(?i:s)z`, `(?i)abcdefghij`, `(?i)abcdefghijk$`, `.*(?i)abcdefghij`, `(?i)hello`, `(?i:ab)c`,
	`a(?:bc|de)f`, `(?:foo|bar)(?:baz|qux)`, `(?:foo.*|bar)baz`, `ab(?:c|d)*e`, `a{2,5}b`, `[ab]{2}c`, `(?:ab){2,3}c`,
	`foobar|foo`, `foo|foobar`, `a|ab`, `ab|a`, `\bfoo\b`, `foo\b`, `\bfoo`, `^abc`, `abc$`, `(?m)^abc$`, `foo\Bbar`,
	`[éè]x`, `é|è`, `[α-γ]z`, `(?i)é`, `(?i)σ`, `日本|語`, `.*\.(txt|log|md)`, `.*(foo|bar)$`, `\.php$`, `eval\b`,
	`ERROR.*connection.*timeout`, `a.*bcd.*e`, `x+foo(?:bar|baz)y*`, `(a|b)c.*d`, `.*foo.*`, `.*(hello|world).*`,
	`(foo|bar|baz|qux|quux|corge|grault|garply|waldo)`, `ab(c|d|e|f|g|h|i|j|k)`, `(?:a|b|c|d|e|f|g|h|i)z`,
	`(abc|abd|xyz)w`, `(?:abcd|abce|abcf)+`, `(?:ab|cd)e?f`, `(?:|a)b`, `a(?:|b)c`, `(?:a|)`, `(a)(b)(c)`, `((ab)|(cd))e`,
	`[abc]`, `[a-j]`, `[a-k]`, `[0-9]x`, `x[0-9]`, `[ab]x[cd]`, `foo[ab]`, `test[xyz]`, `[xyz]test`, `ag[act]gtaaa`,
	`abc|abd`, `abcd|abce|abcf|abcg|abch`, `longliteral1|longliteral2|longliteral3`,
}

// c17BigAlternation: n alternatives with distinct 3-byte heads (exercises the >250 /
// >64 paths: extractPrefixesAlternate overflow, ExtractPrefixes' Clone fallback).
func c17BigAlternation(n int, tail string) string {
	parts := make([]string, 0, n)
	for i := 0; i < n; i++ {
		parts = append(parts, fmt.Sprintf("%c%c%c%s", 'a'+i%26, 'a'+(i/26)%26, 'a'+(i/676)%26, tail))
	}
	return strings.Join(parts, "|")
}

type c17Lit struct {
	b        []byte
	complete bool
}

type c17Seq struct {
	lits    []c17Lit
	partial bool
	isNil   bool
}

func c17FromSeq(s *literal.Seq) c17Seq {
	if s == nil {
		return c17Seq{isNil: true}
	}
	out := c17Seq{partial: s.IsPartialCoverage()}
	for i := 0; i < s.Len(); i++ {
		l := s.Get(i)
		out.lits = append(out.lits, c17Lit{append([]byte(nil), l.Bytes...), l.Complete})
	}
	return out
}

func c17Extract(cfg literal.ExtractorConfig, kind string, re *syntax.Regexp) c17Seq {
	e := literal.New(cfg)
	switch kind {
	case "prefix":
		return c17FromSeq(e.ExtractPrefixes(re))
	case "suffix":
		return c17FromSeq(e.ExtractSuffixes(re))
	case "inner":
		return c17FromSeq(e.ExtractInner(re))
	default:
		info := e.ExtractInnerForReverseSearch(re)
		if info == nil {
			return c17Seq{isNil: true}
		}
		return c17FromSeq(info.Literals)
	}
}

// c17CloneDepth follows the pointers literal.cloneRegexp follows (Sub AND the inline
// storage Sub0, which regexp/syntax leaves stale) and reports whether the walk exceeds a
// depth no parse tree has: cloneRegexp then recurses until the stack overflows, which
// is fatal for the process, so ExtractInnerForReverseSearch is only called in a child.
func c17CloneDepth(re *syntax.Regexp, depth int) bool {
	if re == nil {
		return false
	}
	if depth > 2000 {
		return true
	}
	for _, s := range re.Sub {
		if c17CloneDepth(s, depth+1) {
			return true
		}
	}
	for i := range re.Sub0 {
		if re.Sub0[i] != nil && c17CloneDepth(re.Sub0[i], depth+1) {
			return true
		}
	}
	return false
}

// c17RinnerCrashes: would ExtractInnerForReverseSearch reach cloneRegexp on a cyclic
// Sub/Sub0 graph?  (It clones re.Sub[0..] of a top-level concat.)
func c17RinnerCrashes(re *syntax.Regexp) bool {
	if re.Op != syntax.OpConcat || len(re.Sub) < 3 {
		return false
	}
	for _, s := range re.Sub {
		if c17CloneDepth(s, 0) {
			return true
		}
	}
	return false
}

func c17HasLook(re *syntax.Regexp) bool {
	switch re.Op {
	case syntax.OpWordBoundary, syntax.OpNoWordBoundary, syntax.OpBeginLine, syntax.OpEndLine, syntax.OpBeginText, syntax.OpEndText:
		return true
	}
	for _, s := range re.Sub {
		if c17HasLook(s) {
			return true
		}
	}
	return false
}

func c17Covered(kind string, lits []c17Lit, m []byte) bool {
	for _, l := range lits {
		switch kind {
		case "prefix":
			if bytes.HasPrefix(m, l.b) {
				return true
			}
		case "suffix":
			if bytes.HasSuffix(m, l.b) {
				return true
			}
		default:
			if bytes.Contains(m, l.b) {
				return true
			}
		}
	}
	return false
}

func c17LitsString(lits []c17Lit, max int) string {
	var sb strings.Builder
	for i, l := range lits {
		if i >= max {
			fmt.Fprintf(&sb, " …(%d)", len(lits))
			break
		}
		if i > 0 {
			sb.WriteByte(' ')
		}
		fmt.Fprintf(&sb, "%q", l.b)
		if l.complete {
			sb.WriteByte('!')
		}
	}
	return sb.String()
}

func c17LitsKey(s c17Seq) string {
	var sb strings.Builder
	for _, l := range s.lits {
		sb.WriteString(hex.EncodeToString(l.b))
		if l.complete {
			sb.WriteByte('!')
		}
		sb.WriteByte(',')
	}
	return sb.String()
}

type c17Pat struct {
	idx     int
	pat     string
	src     string
	re      *syntax.Regexp
	std     *regexp.Regexp // leftmost-first
	stdL    *regexp.Regexp // leftmost-longest
	full    *regexp.Regexp // ^(?:p)$
	members [][]byte       // confirmed members / reported match texts
	nfa     *nfa.NFA
	dump    dumpedNFA
}

func c17Prep(idx int, pat, src string) *c17Pat {
	re, err := syntax.Parse(pat, syntax.Perl)
	if err != nil {
		return nil
	}
	std, err := regexp.Compile(pat)
	if err != nil {
		return nil
	}
	full, err := regexp.Compile("^(?:" + pat + ")$")
	if err != nil {
		return nil
	}
	stdL, _ := regexp.Compile(pat)
	stdL.Longest()
	p := &c17Pat{idx: idx, pat: pat, src: src, re: re, std: std, stdL: stdL, full: full}
	if n, err := nfa.NewDefaultCompiler().CompileRegexp(re); err == nil {
		p.nfa = n
	}
	return p
}

// collectMembers: confirmed members of the language / match texts reported by Go's regexp.
func (p *c17Pat) collectMembers(r *rng, nSamples, nHay int) (tried int) {
	seen := map[string]bool{}
	add := func(m []byte) {
		if len(m) > 400 || seen[string(m)] {
			return
		}
		seen[string(m)] = true
		p.members = append(p.members, append([]byte(nil), m...))
	}
	for i := 0; i < nSamples; i++ {
		m := sampleMatch(r, p.re, 0)
		tried++
		if p.full.Match(m) {
			add(m)
		}
	}
	hg := newHayGen(r.fork(77), p.re)
	for j := 0; j < nHay; j++ {
		h := hg.next(j)
		if len(h) > 600 {
			continue
		}
		tried++
		for _, loc := range p.std.FindAllIndex(h, -1) {
			add(h[loc[0]:loc[1]])
		}
		for _, loc := range p.stdL.FindAllIndex(h, 8) {
			add(h[loc[0]:loc[1]])
		}
	}
	return tried
}

type c17Run struct {
	pending  []violation // recorded at the end, most significant first (stats caps the list)
	st       *stats
	distinct distinctSet
	evals    int
	cfgs     []c17Cfg
}

func c17Sig(kind, cfg, pat string, m []byte) string {
	return kind + "|" + cfg + "|" + pat + "|" + hex.EncodeToString(m)
}

func (rr *c17Run) violate(kind string, p *c17Pat, cfg c17Cfg, seqKind string, s c17Seq, m []byte, extra map[string]any) {
	d := map[string]any{
		"pattern": p.pat, "source": p.src, "config": cfg.name,
		"limits":   fmt.Sprintf("MaxLiterals=%d MaxLiteralLen=%d MaxClassSize=%d CrossProductLimit=%d", cfg.cfg.MaxLiterals, cfg.cfg.MaxLiteralLen, cfg.cfg.MaxClassSize, cfg.cfg.CrossProductLimit),
		"sequence": seqKind, "literals": c17LitsString(s.lits, 12), "nliterals": len(s.lits),
		"member": string(m), "member_hex": hex.EncodeToString(m),
	}
	for k, v := range extra {
		d[k] = v
	}
	rr.pending = append(rr.pending, violation{Kind: kind, Case: p.idx, Detail: d, Sig: c17Sig(kind, cfg.name, p.pat, m)})
	rr.st.hist("violation:" + kind)
	rr.st.hist("violation-cfg:" + kind + ":" + cfg.name)
}

// checkComplete probes every Complete literal of a prefix sequence with Go's regexp.
func (rr *c17Run) checkComplete(p *c17Pat, cfg c17Cfg, s c17Seq) (bad bool) {
	for i, l := range s.lits {
		if !l.complete {
			continue
		}
		rr.evals++
		rr.st.hist("complete-literals")
		// (a) the literal is by itself an entire match
		if !p.full.Match(l.b) {
			k := "complete-not-a-match"
			if c17HasLook(p.re) {
				k = "complete-not-a-match-under-assertion" // \b, \B, ^, $ around the literal are ignored by the flag
			}
			rr.violate(k, p, cfg, "prefix", s, l.b, map[string]any{"literal": string(l.b)})
			bad = true
			continue
		}
		// (b) leftmost-first on l and on extensions of l: the match starting at 0 must be l,
		// unless a literal listed EARLIER in the sequence also occurs at 0 (a literal engine
		// searching the sequence in order then reports / verifies that one first)
		earlier := func(h []byte) bool {
			for _, k := range s.lits[:i] {
				if bytes.HasPrefix(h, k.b) {
					return true
				}
			}
			return false
		}
		probes := [][]byte{l.b, append(append([]byte(nil), l.b...), 'z'), append(append([]byte(nil), l.b...), 'a'),
			append(append([]byte(nil), l.b...), l.b...), append(append([]byte(nil), l.b...), "zzz"...)}
		for _, m := range p.members {
			if len(m) > len(l.b) && bytes.HasPrefix(m, l.b) && len(probes) < 24 {
				probes = append(probes, m)
			}
		}
		for _, h := range probes {
			rr.evals++
			loc := p.std.FindIndex(h)
			if loc == nil || loc[0] != 0 {
				continue // context-dependent (anchors, \b): a's check stands
			}
			if loc[1] == len(l.b) {
				continue
			}
			t := h[0:loc[1]]
			if earlier(h) {
				rr.st.hist("complete-shadowed-by-earlier-literal")
				continue
			}
			k := "complete-longer-match-preferred"
			if loc[1] < len(l.b) {
				k = "complete-shorter-match-preferred"
			}
			rr.violate(k, p, cfg, "prefix", s, h, map[string]any{"literal": string(l.b), "std_match": string(t)})
			bad = true
			break
		}
	}
	return bad
}

// one emitted Coq case
type c17Case struct {
	ID       int      `json:"id"`
	Pattern  string   `json:"pattern"`
	Config   string   `json:"config"`
	Kind     string   `json:"kind"`
	Lits     []string `json:"literals_hex"`
	Complete []bool   `json:"complete"`
	GoBad    bool     `json:"go_side_violation"`
	pat      *c17Pat
	seq      c17Seq
}

func c17CoqKind(k string) string {
	switch k {
	case "prefix":
		return "KPrefix"
	case "suffix":
		return "KSuffix"
	default:
		return "KInner"
	}
}

func c17Main(args []string) int {
	fs := flag.NewFlagSet("c17", flag.ExitOnError)
	seed := fs.Uint64("seed", 1, "seed")
	tier := fs.String("tier", "quick", "quick|thorough")
	out := fs.String("out", "cases.v", "Coq case file")
	statsPath := fs.String("stats", "stats.json", "stats file")
	n := fs.Int("n", 0, "maximum number of Coq cases (default 120 quick, 600 thorough)")
	npat := fs.Int("patterns", 0, "number of patterns (default 700 quick, 4000 thorough)")
	corpus := fs.String("corpus", "/verif/corpus/patterns_harvested.txt", "pattern corpus")
	confirm := fs.String("confirm", "", "witness file: lines `caseid hex`, or the coqc output of the case file")
	idxPath := fs.String("idx", "", "case index written next to -out (default <out>.idx.json)")
	probe := fs.String("probe-rinner", "", "(internal) run ExtractInnerForReverseSearch on this pattern in this process and exit")
	_ = fs.Parse(args)
	if *probe != "" {
		re, err := syntax.Parse(*probe, syntax.Perl)
		if err != nil {
			return 0
		}
		literal.New(literal.DefaultConfig()).ExtractInnerForReverseSearch(re)
		return 0
	}
	if *idxPath == "" {
		*idxPath = *out + ".idx.json"
	}
	if *confirm != "" {
		return c17Confirm(*confirm, *idxPath, *statsPath, *seed)
	}
	thorough := *tier == "thorough"
	if *n == 0 {
		*n = 120
		if thorough {
			*n = 600
		}
	}
	if *npat == 0 {
		*npat = 700
		if thorough {
			*npat = 4000
		}
	}
	nSamples, nHay := 24, 12
	if thorough {
		nSamples, nHay = 64, 24
	}
	t0 := time.Now()
	st := newStats("C17", *seed)
	rr := &c17Run{st: st, distinct: distinctSet{}, cfgs: c17Configs()}
	st.Rule = "patterns: C17 limit-path triggers + curated strategy triggers + harvested corpus + templates + grammar; x extractor limits {default, meta(256/64/10/0), MaxLiterals 1,2,8,256, MaxLiteralLen 1,2,4,8, CrossProductLimit 1,4} x {ExtractPrefixes, ExtractSuffixes, ExtractInner, ExtractInnerForReverseSearch}; members: AST samples confirmed by regexp ^(?:p)$ + every match text regexp (leftmost-first and leftmost-longest) reports in 12 haystack shapes; each member must start with / end with / contain a literal of every non-empty non-partial sequence; each Complete prefix literal must be a member and be the leftmost-first match on itself and on extensions. distinct = distinct (pattern, config, sequence kind, member)"

	r := newRng(*seed)
	pg := &patGen{r: r.fork(1), corpus: loadCorpus(*corpus)}
	var pats []*c17Pat
	addPat := func(pat, src string) {
		if p := c17Prep(len(pats), pat, src); p != nil {
			pats = append(pats, p)
		}
	}
	for _, p := range c17Curated {
		addPat(p, "c17-curated")
	}
	addPat(c17BigAlternation(70, ""), "c17-big")
	addPat(c17BigAlternation(70, "x+"), "c17-big")
	addPat(c17BigAlternation(260, ""), "c17-big")
	addPat(c17BigAlternation(300, "q"), "c17-big")
	for i := 0; len(pats) < *npat; i++ {
		pat, src := pg.next(i)
		if len(pat) > 300 {
			continue
		}
		addPat(pat, src)
	}

	var cands []*c17Case
	candSeen := map[string]bool{}
	for _, p := range pats {
		st.hist("src:" + p.src)
		tried := p.collectMembers(newRng(*seed*1000003+uint64(p.idx)), nSamples, nHay)
		rr.evals += tried
		if len(p.members) == 0 {
			st.hist("pattern-without-confirmed-member")
		}
		if p.idx%40 == 3 && len(p.members) > 0 {
			st.sample(map[string]any{"pattern": p.pat, "members": len(p.members), "first_member": string(p.members[0]),
				"prefixes_default": c17LitsString(c17Extract(rr.cfgs[0].cfg, "prefix", p.re).lits, 6)})
		}
		rinnerUnsafe := c17RinnerCrashes(p.re)
		if rinnerUnsafe {
			st.hist("rinner:cyclic-Sub0-graph")
			// confirm in a child process: a stack overflow cannot be recovered
			self, _ := os.Executable()
			cmd := exec.Command(self, "c17", "-probe-rinner", p.pat)
			outb, err := cmd.CombinedOutput()
			if err != nil {
				msg := "exit: " + err.Error()
				if bytes.Contains(outb, []byte("stack overflow")) {
					msg = "fatal error: stack overflow in literal.cloneRegexp"
				}
				rr.pending = append(rr.pending, violation{Kind: "rinner-extraction-crashes", Case: p.idx, Sig: "rinner-extraction-crashes|" + p.pat,
					Detail: map[string]any{"pattern": p.pat, "source": p.src, "what": "ExtractInnerForReverseSearch: cloneRegexp follows stale regexp/syntax Sub0 pointers forming a cycle", "child": msg}})
				st.hist("violation:rinner-extraction-crashes")
			} else {
				rinnerUnsafe = false
			}
		}
		for _, cfg := range rr.cfgs {
			for _, kind := range c17Kinds {
				if kind == "rinner" && rinnerUnsafe {
					st.hist("seq:rinner:skipped-would-crash")
					continue
				}
				s := c17Extract(cfg.cfg, kind, p.re)
				switch {
				case s.isNil:
					st.hist("seq:" + kind + ":nil")
					continue
				case len(s.lits) == 0:
					st.hist("seq:" + kind + ":empty")
					continue
				case s.partial:
					st.hist("seq:" + kind + ":partial-coverage")
					continue
				}
				st.hist("seq:" + kind + ":checked")
				ck := kind
				if kind == "rinner" {
					ck = "inner"
				}
				bad := false
				for _, m := range p.members {
					rr.evals++
					rr.distinct.add(p.pat + "\x00" + cfg.name + "\x00" + kind + "\x00" + string(m))
					if !c17Covered(ck, s.lits, m) {
						rr.violate(kind+"-literal-not-necessary", p, cfg, kind, s, m, nil)
						bad = true
						break
					}
				}
				if kind == "prefix" {
					if rr.checkComplete(p, cfg, s) {
						bad = true
					}
				}
				// candidate Coq case
				if p.nfa == nil || p.nfa.States() > 80 || len(s.lits) > 64 {
					continue
				}
				small := true
				for _, l := range s.lits {
					if len(l.b) > 8 {
						small = false
					}
				}
				if !small {
					continue
				}
				key := p.pat + "\x00" + ck + "\x00" + c17LitsKey(s)
				if candSeen[key] {
					continue
				}
				candSeen[key] = true
				cands = append(cands, &c17Case{Pattern: p.pat, Config: cfg.name, Kind: ck, GoBad: bad, pat: p, seq: s})
			}
		}
	}

	// choose the Coq cases: all limit-path patterns first, then a deterministic spread;
	// at most a third of the cases are ones the Go side already refuted
	chosen, expectBad := c17WriteCoq(*out, *idxPath, c17Choose(cands, *n), st)
	st.CoqCases = len(chosen)
	// crashes, then failures under the default / production limits, then the rest
	rank := func(v violation) int {
		if v.Kind == "rinner-extraction-crashes" {
			return 0
		}
		if c, _ := v.Detail["config"].(string); c == "default" || c == "meta" {
			return 1
		}
		return 2
	}
	sort.SliceStable(rr.pending, func(i, j int) bool { return rank(rr.pending[i]) < rank(rr.pending[j]) })
	for _, v := range rr.pending {
		st.violate(v)
	}
	st.Extra["coq_cases_with_go_side_violation"] = expectBad
	st.Extra["coq_note"] = "F = (case id, witness) pairs: strings the relaxed NFA accepts that no literal covers; feed the coqc output back with -confirm; FC = Complete literals the NFA rejects; U = undecided (fuel)"
	st.Evaluations = rr.evals
	st.Distinct = len(rr.distinct)
	st.Extra["patterns"] = len(pats)
	st.Extra["seconds"] = time.Since(t0).Seconds()
	st.write(*statsPath)
	fmt.Printf("c17: %d patterns, %d evaluations, %d distinct, %d violations (%d recorded), %d coq cases, %.1fs\n",
		len(pats), st.Evaluations, st.Distinct, st.TotalViolations, len(st.Violations), len(chosen), time.Since(t0).Seconds())
	return 0
}

func c17Choose(cands []*c17Case, n int) []*c17Case {
	var bad, good []*c17Case
	for _, c := range cands {
		if c.GoBad {
			bad = append(bad, c)
		} else {
			good = append(good, c)
		}
	}
	pick := func(xs []*c17Case, k int) []*c17Case {
		if len(xs) <= k {
			return xs
		}
		// keep the head (curated limit-path patterns come first), spread over the rest
		head := k / 2
		out := append([]*c17Case(nil), xs[:head]...)
		rest := xs[head:]
		step := float64(len(rest)) / float64(k-head)
		for i := 0; i < k-head; i++ {
			out = append(out, rest[int(float64(i)*step)])
		}
		return out
	}
	// refuted under the default / production limits first
	sort.SliceStable(bad, func(i, j int) bool {
		pi := bad[i].Config == "default" || bad[i].Config == "meta"
		pj := bad[j].Config == "default" || bad[j].Config == "meta"
		return pi && !pj
	})
	nb := n / 3
	if len(bad) < nb {
		nb = len(bad)
	}
	chosen := append(pick(bad, nb), pick(good, n-nb)...)
	// stable order: by pattern index, so that cases of one pattern share the NFA definition
	sort.SliceStable(chosen, func(i, j int) bool { return chosen[i].pat.idx < chosen[j].pat.idx })
	for i, c := range chosen {
		c.ID = i
	}
	return chosen
}

func c17WriteCoq(path, idxPath string, cases []*c17Case, st *stats) ([]*c17Case, []int) {
	var sb strings.Builder
	sb.WriteString("From Coq Require Import List NArith.\nFrom CV Require Import Nfa Literal.\nImport ListNotations.\nOpen Scope N_scope.\n")
	defined := map[int]bool{}
	expectBad := []int{}
	var kept []*c17Case
	for _, c := range cases {
		if !defined[c.pat.idx] {
			c.pat.dump = dumpNFA(c.pat.nfa)
			defined[c.pat.idx] = true
			if c.pat.dump.ok {
				fmt.Fprintf(&sb, "(* %s *)\nDefinition nfa_%d : nfa := %s.\n", c16CommentSafe(fmt.Sprintf("%q", c.pat.pat)), c.pat.idx, c.pat.dump.coq)
			}
		}
		if !c.pat.dump.ok {
			st.hist("coq:skipped-state-kind")
			continue
		}
		kept = append(kept, c)
	}
	sb.WriteString("Definition cases : list case := [\n")
	for i, c := range kept {
		c.ID = i
		if c.GoBad {
			expectBad = append(expectBad, i)
		}
		var ls []string
		for _, l := range c.seq.lits {
			ls = append(ls, "("+coqBytes(l.b)+", "+coqBool(l.complete)+")")
			c.Lits = append(c.Lits, hex.EncodeToString(l.b))
			c.Complete = append(c.Complete, l.complete)
		}
		sep := ";"
		if i == len(kept)-1 {
			sep = ""
		}
		fmt.Fprintf(&sb, "  mkCase %d nfa_%d %s [%s] %s%s\n", i, c.pat.idx, c17CoqKind(c.Kind), strings.Join(ls, "; "), coqBool(c.seq.partial), sep)
		st.hist("coq:" + c.Kind)
	}
	sb.WriteString("].\n")
	sb.WriteString("Definition R := Eval vm_compute in results cases.\n")
	sb.WriteString("Definition F := Eval vm_compute in r_failing R.\nPrint F.\n")
	sb.WriteString("Definition FC := Eval vm_compute in r_failing_complete R.\nPrint FC.\n")
	sb.WriteString("Definition U := Eval vm_compute in r_unknowns R.\nPrint U.\n")
	sb.WriteString("Definition M := Eval vm_compute in r_mismatches R.\nPrint M.\n")
	if err := os.WriteFile(path, []byte(sb.String()), 0o644); err != nil {
		fatal("c17: %v", err)
	}
	b, _ := json.MarshalIndent(kept, "", " ")
	if err := os.WriteFile(idxPath, b, 0o644); err != nil {
		fatal("c17: %v", err)
	}
	return kept, expectBad
}

// ---------------------------------------------------------------------------
// -confirm: witnesses of the Coq checkers against Go's regexp.
// ---------------------------------------------------------------------------

var c17PairRe = regexp.MustCompile(`\(\s*(\d+)\s*,\s*\[([0-9;\s]*)\]\s*\)`)

// c17ParseWitnesses accepts `caseid hex` lines, or coqc output containing
// `F = [(id, [b; b; …]); …]` and `FC = […]`.
func c17ParseWitnesses(txt string) (cover, complete [][2]any) {
	section := func(name string) string {
		i := strings.Index(txt, "\n"+name+" = ")
		if i < 0 && strings.HasPrefix(txt, name+" = ") {
			i = 0
		}
		if i < 0 {
			return ""
		}
		rest := txt[i+1:]
		if j := strings.Index(rest, "\n     : "); j >= 0 {
			rest = rest[:j]
		}
		return rest
	}
	parsePairs := func(s string) [][2]any {
		var out [][2]any
		for _, m := range c17PairRe.FindAllStringSubmatch(s, -1) {
			id, _ := strconv.Atoi(m[1])
			var b []byte
			for _, f := range strings.FieldsFunc(m[2], func(r rune) bool { return r == ';' || r == ' ' || r == '\n' || r == '\t' }) {
				v, _ := strconv.Atoi(f)
				b = append(b, byte(v))
			}
			out = append(out, [2]any{id, b})
		}
		return out
	}
	if f := section("F"); f != "" || strings.Contains(txt, "F = ") {
		return parsePairs(f), parsePairs(section("FC"))
	}
	for _, line := range strings.Split(txt, "\n") {
		f := strings.Fields(line)
		if len(f) == 0 || strings.HasPrefix(f[0], "#") {
			continue
		}
		id, err := strconv.Atoi(f[0])
		if err != nil {
			continue
		}
		var b []byte
		if len(f) > 1 {
			b, _ = hex.DecodeString(f[1])
		}
		cover = append(cover, [2]any{id, b})
	}
	return cover, nil
}

func c17Confirm(witPath, idxPath, statsPath string, seed uint64) int {
	raw, err := os.ReadFile(witPath)
	if err != nil {
		fatal("c17: %v", err)
	}
	ib, err := os.ReadFile(idxPath)
	if err != nil {
		fatal("c17: %v", err)
	}
	var idx []*c17Case
	if err := json.Unmarshal(ib, &idx); err != nil {
		fatal("c17: %v", err)
	}
	byID := map[int]*c17Case{}
	for _, c := range idx {
		byID[c.ID] = c
	}
	st := newStats("C17", seed)
	st.Rule = "confirmation of Coq witnesses: a witness w (a string the relaxed NFA accepts that no literal covers) is embedded in contexts; it is a violation if Go's regexp (^(?:p)$ on w, leftmost-first or leftmost-longest FindAll in a context) reports a match text that no literal covers"
	cover, complete := c17ParseWitnesses(string(raw))
	cfgByName := map[string]c17Cfg{}
	for _, c := range c17Configs() {
		cfgByName[c.name] = c
	}
	ctx := []string{"", " ", "a", "_", "\n", "z", "0", "é"}
	for _, w := range cover {
		id, wb := w[0].(int), w[1].([]byte)
		c := byID[id]
		if c == nil {
			st.Notes = appendNote(st.Notes, fmt.Sprintf("witness for unknown case %d", id))
			continue
		}
		st.Evaluations++
		p := c17Prep(id, c.Pattern, "coq-witness")
		var lits []c17Lit
		for i, h := range c.Lits {
			b, _ := hex.DecodeString(h)
			lits = append(lits, c17Lit{b, c.Complete[i]})
		}
		var found []byte
		var how string
		ok := false
		if p.full.Match(wb) && !c17Covered(c.Kind, lits, wb) {
			found, how, ok = wb, "^(?:p)$ matches the witness", true
		}
		for _, pre := range ctx {
			for _, post := range ctx {
				if ok {
					break
				}
				h := []byte(pre + string(wb) + post)
				for _, rx := range []*regexp.Regexp{p.std, p.stdL} {
					for _, loc := range rx.FindAllIndex(h, -1) {
						t := h[loc[0]:loc[1]]
						if !ok && !c17Covered(c.Kind, lits, t) {
							found, how, ok = append([]byte(nil), t...), fmt.Sprintf("regexp reports [%d,%d] in %q", loc[0], loc[1], h), true
						}
					}
				}
			}
		}
		if ok {
			cfg := cfgByName[c.Config]
			k := c.Kind + "-literal-not-necessary"
			st.violate(violation{Kind: k, Case: id, Sig: c17Sig(k, c.Config, c.Pattern, found),
				Detail: map[string]any{"pattern": c.Pattern, "config": c.Config, "sequence": c.Kind, "literals": c17LitsString(lits, 12),
					"limits":      fmt.Sprintf("MaxLiterals=%d MaxLiteralLen=%d MaxClassSize=%d CrossProductLimit=%d", cfg.cfg.MaxLiterals, cfg.cfg.MaxLiteralLen, cfg.cfg.MaxClassSize, cfg.cfg.CrossProductLimit),
					"coq_witness": string(wb), "coq_witness_hex": hex.EncodeToString(wb), "member": string(found), "member_hex": hex.EncodeToString(found), "how": how, "origin": "coq-witness"}})
			st.hist("witness-confirmed:" + c.Kind)
			fmt.Printf("CONFIRMED case %d %s %s %q: member %q not covered by %s (%s)\n", id, c.Kind, c.Config, c.Pattern, found, c17LitsString(lits, 8), how)
		} else {
			st.hist("witness-unconfirmed:" + c.Kind)
			note := fmt.Sprintf("unconfirmed witness (assertion relaxed in the checker?): case %d %s %s %q witness %q", id, c.Kind, c.Config, c.Pattern, wb)
			st.Notes = append(st.Notes, note)
			fmt.Println("note: " + note)
		}
	}
	for _, w := range complete {
		id, lb := w[0].(int), w[1].([]byte)
		c := byID[id]
		if c == nil {
			continue
		}
		st.Evaluations++
		p := c17Prep(id, c.Pattern, "coq-witness")
		if !p.full.Match(lb) {
			k := "complete-not-a-match"
			st.violate(violation{Kind: k, Case: id, Sig: c17Sig(k, c.Config, c.Pattern, lb),
				Detail: map[string]any{"pattern": c.Pattern, "config": c.Config, "literal": string(lb), "member_hex": hex.EncodeToString(lb), "origin": "coq-witness"}})
			st.hist("complete-witness-confirmed")
			fmt.Printf("CONFIRMED case %d %s %q: Complete literal %q is not a match\n", id, c.Config, c.Pattern, lb)
		} else {
			st.hist("complete-witness-unconfirmed")
			note := fmt.Sprintf("unconfirmed: case %d %q Complete literal %q is a match for Go's regexp but rejected by the NFA model", id, c.Pattern, lb)
			st.Notes = append(st.Notes, note)
			fmt.Println("note: " + note)
		}
	}
	st.Distinct = st.Evaluations
	st.write(statsPath)
	return 0
}
