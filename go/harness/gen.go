package main

import (
	"bufio"
	"os"
	"regexp/syntax"
	"strings"
	"unicode/utf8"
)

// ---------------------------------------------------------------------------
// Pattern generation: (i) harvested corpus, (ii) curated strategy triggers,
// (iii) a weighted grammar over the regexp/syntax surface language.
// ---------------------------------------------------------------------------

func loadCorpus(path string) []string {
	f, err := os.Open(path)
	if err != nil {
		return nil
	}
	defer f.Close()
	var out []string
	sc := bufio.NewScanner(f)
	sc.Buffer(make([]byte, 1<<20), 1<<20)
	for sc.Scan() {
		if l := sc.Text(); l != "" {
			out = append(out, l)
		}
	}
	return out
}

// curated patterns: at least a few per strategy of meta/strategy.go, plus the shapes
// the properties name (lazy quantifiers, look-around at span edges, nullable loops,
// multi-byte literals, case folding).
var curatedPatterns = []string{
	// word boundary + literal prefix + a tail long enough for the DFA strategies (>= 20 NFA states):
	// greedy / optional / bounded tails after the boundary, several candidates in different word contexts
	`\bcat\w{4,10}`, `\bERROR: .*`, `\bfoo.\d+`, `\bfoo.+x`, `\bfoo[a-z]{3,8}\d`, `\b(foo|bar)[a-z]{4,8}\d`, `\Bfoo.bar`,
	`\bfoo\w{2,6}\b`, `foo\w{3,9}\b.`, `\bab[a-z]{2,8}x?\d*`,
	// start-anchored one-pass patterns with captures: a consuming branch next to a branch that can
	// match the empty string through a group (one-pass DFA slot handling), optional groups, loops
	`^a(?:b+|(c*))`, `^(\d+)(?:\.\d+|(e?))`, `^(x)?(?:y+|(z*))w?`, `^(?:(a)|b)(c)?`, `^(\w+)(?:@(\w+))?`, `^(a+)(b+)?`,
	`^([a-z]+)(?:-([0-9]*))?x?`, `^(?:(ab)|a(c)?)d*`, `^(a)(?:(b)|c+)(d?)`, `^([ab])+(?:c|(d*))e?`,
	// NFA / DFA / Both
	`a`, `abc`, `a|b`, `a*`, `a+`, `a?`, `(a|b)*abb`, `(a*)*`, `(a|b*)*`, `(a*)+`, `(a+)*b`, `(|a)*`, `(|a)+`, `(a|)*b`,
	`a*?`, `a+?`, `a??`, `a{2,3}?`, `(a+?)(b*)`, `(a*?)*`, `x*`, `(?:a|ab)(?:c|bcd)`, `(a|ab)(c|bcd)(d*)`,
	`a.c`, `a.*c`, `a.*?c`, `(?s)a.c`, `(?s).*`, `.`, `..`, `.*`, `.+`, `.?`, `.{2,4}`,
	`[a-c]+`, `[^a-c]+`, `[a-z]+?`, `\w+?`, `\d+`, `\w+`, `\s+`, `\D+`, `\W+`, `\S+`, `\W{2}`, `\D{2}`, `[^a]{2}`,
	`[a-z]+[0-9]+`, `[a-zA-Z]+[0-9]+[a-z]*`, `\w+[0-9]+`, `[a-z]+[a-z]+[0-9]`, `[a-z]*[0-9]+`, `\d+\.\d+`, `\d+\.\d+\.\d+\.\d+`,
	`[0-9]{1,3}\.[0-9]{1,3}`, `(\d{1,3}\.){3}\d{1,3}`,
	// anchors
	`^abc`, `abc$`, `^abc$`, `^$`, `^`, `$`, `\Aabc\z`, `(?m)^abc$`, `(?m)^`, `(?m)$`, `(?m)^$`, `(?m)^a.*b$`, `\bfoo\b`, `\Bfoo\B`, `\b`, `\B`,
	`\B$`, `^\B`, `\b$`, `^(?:\w|@|$)foobar`, `a\b`, `\ba`, `a\B`, `\Ba`, `(?m)a$\n^b`, `^a|b$`, `^a?$|^b?$`, `(^a|b)c`, `a$|b`, `x*$`, `^x*`,
	// reverse strategies
	`.*\.txt`, `.*\.txt$`, `.*foo`, `.+foo`, `[a-z]*foo`, `.*\.(txt|log|md)`, `.*(foo|bar)$`, `ERROR.*timeout`, `a.*bcd.*e`, `[a-z]+bcd[a-z]+`,
	`\w+@\w+\.com`, `(?m)^.*\.php`, `(?m)^/.*[\w-]+\.php`, `(?m)^.*foo$`, `.*abc.*`, `x.*yz`, `.*?foo`, `.*?\.txt`, `(?s).*foo`, `(?s).*foo.*bar`,
	`^prefix.*suffix$`, `^/.*\.php$`, `^.*\.txt$`, `^abc.+xyz$`, `^a.*[0-9]+z$`, `^.*z$`, `^ab.*$`,
	// literal alternations: Teddy / AC / branch dispatch
	`foo|bar`, `foo|bar|baz`, `foo|foobar`, `foobar|foo`, `(foo|bar)baz`, `abc|abd|abe|abf`, `a|b|c|d|e|f|g|h|i`, `apple|banana|cherry|date|elder|fig|grape|honey|iris`,
	`xxx0|abcd|xxx2|xxx3|xxx4|xxx5|xxx6|xxx7|abc`, `ab|abc|abcd|abcde`, `abcde|abcd|abc|ab`, `(?i)foo|bar`, `(?i)abc`, `(?i)a|b`,
	`^(\d+|UUID|hex32)`, `^(foo|bar|qux)`, `^(a|b|c)x`, `^(?:ab|cd)+`, `^(\w+|-)`, `^([a-z]+|[0-9]+)$`,
	`aa|ab|ac|ad|ae|af|ag|ah|ai|aj|ak|al|am|an|ao|ap|aq|ar|as|at|au|av|aw|ax|ay|az|ba|bb|bc|bd|be|bf|bg|bh|bi|bj`,
	// literal alternations next to assertions (prefilter completeness must be downgraded)
	`(foo|bar)\B`, `(foo|bar)\b`, `\B(foo|bar)`, `\b(foo|bar)\b`, `(?m)^(?:GET|PUT|POST)\B`, `(?m)^(foo|bar)$`, `(foo|bar)$`, `^(foo|bar)\B`, `(?:abc|abd)\B`,
	`foo\B`, `\Bfoo`, `(?m)(foo|bar)$`, `(foo|bar)\z`, `\A(foo|bar)`,
	// suffix / inner literals that overlap themselves
	`\w+ana`, `[a-z]+aa`, `[0-9b]+aba`, `\w+abab`, `.*ana`, `.+aa`, `[a-z]*anan`, `\w+ana\w*`, `x\w+aba`, `[A-Z][a-z.]+\.(txt|log|md)`, `[A-Z][a-z.]+\.txt`,
	// 33..64 literals of >= 3 bytes (fat multi-literal prefilter), alone and followed by something
	c40Words, c40Words + `\d+`, `(?:` + c40Words + `)x`,
	// captures
	`(a)(b)`, `(a)|(b)`, `(a*)(a*)`, `(a*)(a+)`, `(a+)(a*)`, `(a*?)(a*)`, `((a)|(b))*`, `(a|b)*`, `(?P<x>a)(?P<y>b)?`, `(a)?b`, `(a)*b`, `(a|(b))+`, `((a))`, `()`, `(|a)`, `(a|)`,
	`(\w+)\s(\w+)`, `(\d+)-(\d+)`, `^(\w+)@(\w+)\.(\w+)$`, `(a+)(b+)?(c+)?`, `(?:(a)|b)*`, `(a)(?:b)(c)`, `(x)?(y)?(z)?`,
	// unicode
	`é`, `(?i)é`, `(?i:é)`, `(?i)привет`, `привет`, `世界`, `[а-я]+`, `[α-ω]+`, `\p{Greek}+`, `\pL+`, `\PL+`, `\p{Lu}\p{Ll}*`, `[^\x00-\x7f]+`, `.世.`, `(?i)k`, `(?i)K`, `(?i)ſ`, `(?i)s+`,
	`\x{10000}`, `[\x{10000}-\x{10FFFF}]`, `[😀-😏]`, `😀+`, `[^a]`, `[^\n]`, `(?s)[^a]`, `\xff`, `[\x80-\xff]`, `(?i)ǅ`, `(?i)σ+`, `[[:alpha:]]+`, `[[:^alpha:]]+`, `[[:word:]]+`,
	// repeats
	`a{3}`, `a{2,}`, `a{0,2}`, `(ab){2,3}`, `(a|b){3}`, `a{0}`, `(a{2}){2}`, `(?:a{1,2}){1,2}`, `\w{2,8}`, `(\w{2,8})+`, `[ab]{2}c`, `x{1,3}?y`,
	// empty-ish
	``, `(?:)`, `a*b*`, `(a*b*)*`, `(?:a?)*`, `\b*`, `(?:^)*`, `(?:$)+`, `(?:|a)+b`, `a**`, `(a*)*b`,
	// flags
	`(?U)a+`, `(?U)a+?`, `(?U)(a+)(b*)`, `(?s).`, `(?m)^.$`, `(?i)[a-z]+`, `(?i)Straße`, `(?is)a.b`, `(?-s).`, `(?i:a)b`, `a(?i)b`,
	// escaped / special
	`\.`, `\\`, `\$`, `\^`, `\[`, `\(`, `a\|b`, `\Qa.b\E`, `\Q*\E+`, `[\]]`, `[-a]`, `[a-]`, `[\^a]`, `\pN`, `\t\n`, `\x41`, `\101`, `\z`, `\A`,
}

// forty keywords, first letters spread over the alphabet so that every prefilter bucket is used
const c40Words = `alpha|bravo|charlie|delta|echo|foxtrot|golf|hotel|india|juliet|kilo|lima|mike|november|oscar|papa|quebec|romeo|sierra|tango|uniform|victor|whiskey|xray|yankee|zulu|apple|banana|cherry|grape|lemon|mango|orange|peach|pear|plum|quince|raisin|tomato|walnut`

// forty literals whose bucket (index mod 16) decides the high nibble of the first bytes: indices 8..15 mod 16 are upper case / digits / punctuation
const c40Mixed = `alpha|bravo|charlie|delta|echo|foxtrot|golf|hotel|ALPHA|BRAVO|CHARLIE|DELTA|ECHO|FOXTROT|GOLF|HOTEL|india|juliet|kilo|lima|mike|november|oscar|papa|123a|456b|789c|0ab1|_x_y|-dash|\+plus|#hash|quebec|romeo|sierra|tango|uniform|victor|whiskey|xray`

type patGen struct {
	r      *rng
	corpus []string
}

var genAlphabet = []string{"a", "b", "c", "x", "1", "2", " ", "é", "я", "世", "😀", "-", "_", "\\.", "A", "B", "\\n"}
var genClasses = []string{`[a-c]`, `[^a]`, `[^a-c]`, `\d`, `\w`, `\s`, `\D`, `\W`, `\S`, `[[:alpha:]]`, `[[:digit:]]`, `\pL`, `\PL`, `\p{Greek}`, `[а-я]`, `[a-zA-Z0-9_]`, `[0-9a-f]`, `[^\n]`, `[x-z1-3]`, `[é-я]`, `[^\x00-\x7f]`, `[\x00-\x{10FFFF}]`, `[ab]`, `[a-y]`}
var genAnchors = []string{`^`, `$`, `\A`, `\z`, `\b`, `\B`, `(?m:^)`, `(?m:$)`}

func (g *patGen) atom(depth int) string {
	r := g.r
	switch k := r.intn(100); {
	case k < 38:
		n := 1 + r.intn(3)
		var sb strings.Builder
		for i := 0; i < n; i++ {
			sb.WriteString(r.pick(genAlphabet))
		}
		return sb.String()
	case k < 58:
		return r.pick(genClasses)
	case k < 66:
		if r.chance(30) {
			return `(?s:.)`
		}
		return `.`
	case k < 72:
		return r.pick(genAnchors)
	case k < 90 && depth > 0:
		inner := g.expr(depth - 1)
		switch r.intn(4) {
		case 0:
			return "(?:" + inner + ")"
		case 1:
			return "(?P<n" + string(rune('a'+r.intn(5))) + ">" + inner + ")"
		default:
			return "(" + inner + ")"
		}
	case k < 94 && depth > 0:
		return "(?i:" + g.expr(depth-1) + ")"
	default:
		return r.pick(genAlphabet)
	}
}

func (g *patGen) quant() string {
	r := g.r
	q := ""
	switch k := r.intn(100); {
	case k < 55:
		return ""
	case k < 67:
		q = "*"
	case k < 79:
		q = "+"
	case k < 88:
		q = "?"
	case k < 92:
		q = "{2}"
	case k < 95:
		q = "{1,3}"
	case k < 98:
		q = "{2,}"
	default:
		q = "{0,2}"
	}
	if r.chance(22) {
		q += "?"
	}
	return q
}

func (g *patGen) concat(depth int) string {
	n := 1 + g.r.intn(4)
	var sb strings.Builder
	for i := 0; i < n; i++ {
		a := g.atom(depth)
		q := g.quant()
		if q != "" && (strings.HasPrefix(a, `^`) || strings.HasPrefix(a, `$`) || strings.HasPrefix(a, `\A`) || strings.HasPrefix(a, `\z`) || strings.HasPrefix(a, `\b`) || strings.HasPrefix(a, `\B`) || strings.HasPrefix(a, `(?m:`)) {
			a = "(?:" + a + ")"
		} else if q != "" && len(a) > 1 && !strings.HasPrefix(a, "(") && !strings.HasPrefix(a, "[") && !(strings.HasPrefix(a, `\`) && len(a) <= 3) && utf8.RuneCountInString(a) > 1 {
			a = "(?:" + a + ")"
		}
		sb.WriteString(a + q)
	}
	return sb.String()
}

func (g *patGen) expr(depth int) string {
	n := 1
	if g.r.chance(30) {
		n = 2 + g.r.intn(3)
	}
	parts := make([]string, n)
	for i := range parts {
		parts[i] = g.concat(depth)
		if g.r.chance(4) {
			parts[i] = ""
		}
	}
	return strings.Join(parts, "|")
}

func (g *patGen) grammar() string {
	p := g.expr(2)
	switch g.r.intn(20) {
	case 0:
		p = "(?i)" + p
	case 1:
		p = "(?s)" + p
	case 2:
		p = "(?m)" + p
	case 3:
		p = "(?U)" + p
	case 4:
		p = "^" + p
	case 5:
		p = p + "$"
	case 6:
		p = ".*" + p
	}
	return p
}

// template patterns around the fast-path whitelists
func (g *patGen) template() string {
	r := g.r
	lit := func() string {
		words := []string{"foo", "bar", "ab", "abc", "xyz", "ERROR", ".txt", ".php", "b", "zz", "aab", "é", "я"}
		w := r.pick(words)
		return strings.ReplaceAll(w, ".", `\.`)
	}
	cls := func() string {
		return r.pick([]string{`[a-z]`, `[0-9]`, `\w`, `\d`, `[a-zA-Z]`, `[abc]`, `[^ ]`, `\s`, `[a-c1-3]`})
	}
	q := func() string { return r.pick([]string{"+", "*", "+", "{1,3}", "?", "+?", "*?"}) }
	wild := func() string { return r.pick([]string{".*", ".+", ".*?", "[^\n]*", `\w*`, "(?s:.*)"}) }
	ovl := func() string { return r.pick([]string{"ana", "aa", "aba", "abab", "xx", "anan"}) }
	asrt := func() string { return r.pick([]string{`\B`, `\b`, `$`, `(?m:$)`, `\z`}) }
	switch r.intn(15) {
	case 12: // literal alternation followed / preceded by an assertion
		n := 2 + r.intn(4)
		p := make([]string, n)
		for i := range p {
			p[i] = lit()
		}
		if r.bool() {
			return "(" + strings.Join(p, "|") + ")" + asrt()
		}
		return r.pick([]string{`\B`, `\b`, `^`, `(?m:^)`}) + "(?:" + strings.Join(p, "|") + ")"
	case 13: // class repetition + self-overlapping literal (reverse suffix / inner)
		return cls() + q() + ovl() + r.pick([]string{"", "", cls() + "*"})
	case 14:
		return wild() + ovl()
	case 0:
		return wild() + lit()
	case 1:
		return wild() + lit() + "$"
	case 2:
		return lit() + wild() + lit()
	case 3:
		return "^" + lit() + wild() + lit() + "$"
	case 4:
		n := 2 + r.intn(9)
		p := make([]string, n)
		for i := range p {
			p[i] = lit()
		}
		return strings.Join(p, "|")
	case 5:
		return cls() + q() + cls() + q()
	case 6:
		return cls() + q() + cls() + q() + cls() + q()
	case 7:
		return cls() + q()
	case 8:
		return "^(" + lit() + "|" + cls() + q() + "|" + lit() + ")"
	case 9:
		return "(?m)^" + wild() + lit()
	case 10:
		return wild() + "(" + lit() + "|" + lit() + "|" + lit() + ")"
	default:
		return `\b` + lit() + `\b`
	}
}

// next returns a pattern accepted by regexp/syntax (Perl flags) and a tag naming its source.
func (g *patGen) next(i int) (string, string) {
	for tries := 0; tries < 50; tries++ {
		var p, src string
		switch {
		case i < len(curatedPatterns):
			p, src = curatedPatterns[i], "curated"
		default:
			switch k := g.r.intn(100); {
			case k < 30 && len(g.corpus) > 0:
				p, src = g.corpus[g.r.intn(len(g.corpus))], "corpus"
			case k < 50:
				p, src = g.template(), "template"
			default:
				p, src = g.grammar(), "grammar"
			}
		}
		if _, err := syntax.Parse(p, syntax.Perl); err == nil {
			return p, src
		}
		i = len(curatedPatterns) // a curated pattern that does not parse: fall through to generation
	}
	return "a", "fallback"
}

// ---------------------------------------------------------------------------
// Haystack generation from the pattern's own AST.
// ---------------------------------------------------------------------------

// sampleMatch produces a string from (an over-approximation of) the language of re:
// assertions are ignored, repetitions are bounded.
func sampleMatch(r *rng, re *syntax.Regexp, depth int) []byte {
	var out []byte
	switch re.Op {
	case syntax.OpLiteral:
		for _, c := range re.Rune {
			if re.Flags&syntax.FoldCase != 0 && r.bool() {
				c = foldVariant(r, c)
			}
			out = utf8.AppendRune(out, c)
		}
	case syntax.OpCharClass:
		if len(re.Rune) >= 2 {
			k := r.intn(len(re.Rune)/2) * 2
			lo, hi := re.Rune[k], re.Rune[k+1]
			c := lo
			if hi > lo {
				switch r.intn(3) {
				case 0:
					c = lo
				case 1:
					c = hi
				default:
					c = lo + rune(r.intn(int(hi-lo)+1))
				}
			}
			if c >= 0xD800 && c <= 0xDFFF {
				c = 0xE000
			}
			out = utf8.AppendRune(out, c)
		}
	case syntax.OpAnyCharNotNL, syntax.OpAnyChar:
		out = append(out, []byte(r.pick([]string{"a", "x", " ", "é", "世", "1", "z", "\xff", "😀"}))...)
	case syntax.OpCapture, syntax.OpPlus, syntax.OpStar, syntax.OpQuest, syntax.OpRepeat:
		lo, hi := 1, 1
		switch re.Op {
		case syntax.OpStar:
			lo, hi = 0, 3
		case syntax.OpPlus:
			lo, hi = 1, 3
		case syntax.OpQuest:
			lo, hi = 0, 1
		case syntax.OpRepeat:
			lo, hi = re.Min, re.Max
			if hi < 0 {
				hi = lo + 2
			}
			if hi > lo+3 {
				hi = lo + 3
			}
		}
		n := lo
		if hi > lo {
			n = lo + r.intn(hi-lo+1)
		}
		if depth > 6 && n > 1 {
			n = 1
		}
		for i := 0; i < n && len(out) < 200; i++ {
			out = append(out, sampleMatch(r, re.Sub[0], depth+1)...)
		}
	case syntax.OpConcat:
		for _, s := range re.Sub {
			out = append(out, sampleMatch(r, s, depth+1)...)
		}
	case syntax.OpAlternate:
		out = sampleMatch(r, re.Sub[r.intn(len(re.Sub))], depth+1)
	}
	return out
}

func foldVariant(r *rng, c rune) rune {
	// walk the simple-fold orbit a random number of steps
	n := r.intn(3)
	for i := 0; i < n; i++ {
		c = simpleFold(c)
	}
	return c
}

// alphabetOf collects bytes that occur in literals/classes of the pattern, for noise.
func alphabetOf(re *syntax.Regexp, acc map[rune]bool) {
	switch re.Op {
	case syntax.OpLiteral:
		for _, c := range re.Rune {
			acc[c] = true
		}
	case syntax.OpCharClass:
		for i := 0; i+1 < len(re.Rune) && i < 8; i += 2 {
			acc[re.Rune[i]] = true
			acc[re.Rune[i+1]] = true
			if re.Rune[i] > 0 {
				acc[re.Rune[i]-1] = true
			}
			if re.Rune[i+1] < 0x10FFFF {
				acc[re.Rune[i+1]+1] = true
			}
		}
	}
	for _, s := range re.Sub {
		alphabetOf(s, acc)
	}
}

type hayGen struct {
	r     *rng
	re    *syntax.Regexp
	alpha [][]byte
	lits  [][]byte // literal substrings of the pattern (for overlapping-occurrence haystacks)
	lr    *rng     // separate stream for longHays / hugeHays (never advances r: the 12 shapes stay what they were)
}

func collectLits(re *syntax.Regexp, acc *[][]byte) {
	if re.Op == syntax.OpLiteral && len(re.Rune) >= 2 {
		*acc = append(*acc, []byte(string(re.Rune)))
	}
	for _, s := range re.Sub {
		collectLits(s, acc)
	}
}

func newHayGen(r *rng, re *syntax.Regexp) *hayGen {
	acc := map[rune]bool{}
	alphabetOf(re, acc)
	g := &hayGen{r: r, re: re, lr: newRng(r.s ^ 0x4C4F4E4748415953)}
	collectLits(re, &g.lits)
	n := 0
	// deterministic order
	keys := make([]int, 0, len(acc))
	for c := range acc {
		keys = append(keys, int(c))
	}
	sortInts(keys)
	for _, k := range keys {
		c := rune(k)
		if c >= 0xD800 && c <= 0xDFFF || c > 0x10FFFF || c < 0 {
			continue
		}
		g.alpha = append(g.alpha, utf8.AppendRune(nil, c))
		n++
		if n > 24 {
			break
		}
	}
	for _, s := range []string{"a", "b", " ", "\n", "x", "0", "_", "é", "Z"} {
		g.alpha = append(g.alpha, []byte(s))
	}
	return g
}

func sortInts(a []int) {
	for i := 1; i < len(a); i++ {
		for j := i; j > 0 && a[j-1] > a[j]; j-- {
			a[j-1], a[j] = a[j], a[j-1]
		}
	}
}

func (g *hayGen) noise(maxLen int) []byte {
	n := g.r.intn(maxLen + 1)
	var out []byte
	for len(out) < n {
		out = append(out, g.alpha[g.r.intn(len(g.alpha))]...)
	}
	return out
}

// next produces the i-th haystack for this pattern; shapes are cycled so that every
// pattern sees each shape.
func (g *hayGen) next(i int) []byte {
	r := g.r
	if i%12 == 9 && len(g.lits) > 0 && r.bool() { // every other noise slot: overlapping literal occurrences
		l := g.lits[r.intn(len(g.lits))]
		var out []byte
		out = append(out, g.noise(3)...)
		n := 2 + r.intn(3)
		for k := 0; k < n; k++ {
			ov := 0
			if len(l) > 1 {
				ov = 1 + r.intn(len(l)-1)
			}
			if k == 0 {
				out = append(out, l...)
			} else {
				out = append(out, l[len(l)-ov:]...) // may or may not re-create an occurrence
				out = append(out, l[ov:]...)
			}
		}
		if r.bool() {
			out = append(out, g.noise(4)...)
			out = append(out, sampleMatch(r, g.re, 0)...)
		}
		return out
	}
	switch i % 12 {
	case 0:
		if i == 0 {
			return []byte{}
		}
		return g.noise(6)
	case 1:
		return sampleMatch(r, g.re, 0)
	case 2:
		return concatBytes(g.noise(8), sampleMatch(r, g.re, 0), g.noise(8))
	case 3: // near miss: sample with one byte changed / dropped
		m := sampleMatch(r, g.re, 0)
		if len(m) > 0 {
			k := r.intn(len(m))
			switch r.intn(3) {
			case 0:
				m[k] ^= 0x01
			case 1:
				m = append(m[:k:k], m[k+1:]...)
			default:
				m[k] = g.alpha[r.intn(len(g.alpha))][0]
			}
		}
		return concatBytes(g.noise(4), m, g.noise(4))
	case 4: // two samples separated by noise (FindAll, leftmost)
		return concatBytes(sampleMatch(r, g.re, 0), g.noise(3), sampleMatch(r, g.re, 0), g.noise(3))
	case 5: // multi-line
		return concatBytes(g.noise(5), []byte("\n"), sampleMatch(r, g.re, 0), []byte("\n"), g.noise(5))
	case 6: // long: pushes past internal 16/32/64-byte windows
		pad := 20 + r.intn(120)
		return concatBytes(repeatNoise(g, pad), sampleMatch(r, g.re, 0), repeatNoise(g, r.intn(40)))
	case 7: // invalid UTF-8 injected
		m := concatBytes(g.noise(4), sampleMatch(r, g.re, 0), g.noise(4))
		k := r.intn(len(m) + 1)
		bad := [][]byte{{0xff}, {0xc3}, {0xe4, 0xb8}, {0x80}, {0xf0, 0x9f, 0x98}, {0xed, 0xa0, 0x80}, {0xc0, 0x80}}
		return concatBytes(m[:k:k], bad[r.intn(len(bad))], m[k:])
	case 8: // sample at the very start / very end
		if r.bool() {
			return concatBytes(sampleMatch(r, g.re, 0), g.noise(10))
		}
		return concatBytes(g.noise(10), sampleMatch(r, g.re, 0))
	case 9: // pure noise over the pattern's alphabet
		return g.noise(30)
	case 10: // repeated sample (greedy/lazy loops, long matches)
		var out []byte
		n := 2 + r.intn(5)
		for k := 0; k < n && len(out) < 300; k++ {
			out = append(out, sampleMatch(r, g.re, 0)...)
		}
		return out
	default: // word-boundary / line context around a sample
		pre := r.pick([]string{"", " ", "a", "_", "\n", "é", "1", "-"})
		post := r.pick([]string{"", " ", "a", "_", "\n", "é", "1", "-"})
		return concatBytes([]byte(pre), sampleMatch(r, g.re, 0), []byte(post))
	}
}

// perLiteral: for patterns with many literal alternatives (multi-literal prefilters), one long
// haystack per literal: >= 64 bytes of padding (past every vector block size), the literal, a
// digit and a tail - so that every literal / every prefilter bucket is exercised.
func (g *hayGen) perLiteral() [][]byte {
	if len(g.lits) < 8 {
		return nil
	}
	var out [][]byte
	for i, l := range g.lits {
		if i >= 64 {
			break
		}
		pad := 64 + (i*7)%23
		h := append([]byte(strings.Repeat(".", pad)+" "), l...)
		h = append(h, []byte("7 ....")...)
		out = append(out, h)
	}
	return out
}

// overlapHays: for every literal of the pattern that can overlap itself (l[len-k:] == l[:k]),
// haystacks in which a first occurrence is immediately followed by an overlapping one, after a
// separator that cannot be consumed by a word/letter class: "-anana", " aaa", "\nababab x".
func (g *hayGen) overlapHays() [][]byte {
	var out [][]byte
	for i, l := range g.lits {
		if i >= 6 {
			break
		}
		for k := 1; k < len(l); k++ {
			if string(l[len(l)-k:]) != string(l[:k]) {
				continue
			}
			ov := append(append([]byte{}, l...), l[k:]...)
			for _, sep := range []string{"-", " ", "\n", "x-"} {
				out = append(out, append([]byte(sep), ov...))
				out = append(out, append(append([]byte(sep), ov...), []byte(", then b"+string(l))...))
			}
			break
		}
	}
	return out
}

// asciiFill: n bytes of ASCII drawn from the pattern's alphabet (runs of one symbol, so that
// greedy loops and class repetitions travel far), never a multi-byte rune.
func (g *hayGen) asciiFill(n int) []byte {
	var as []byte
	for _, a := range g.alpha {
		if len(a) == 1 && a[0] < 0x80 {
			as = append(as, a[0])
		}
	}
	out := make([]byte, 0, n)
	for len(out) < n {
		c := as[g.lr.intn(len(as))]
		run := 1 + g.lr.intn(40)
		for k := 0; k < run && len(out) < n; k++ {
			out = append(out, c)
		}
	}
	return out
}

// longHays: haystacks longer than the library's internal size thresholds (the 4 KiB ASCII-prefix
// check of the bounded-backtracker dispatchers, backtracker input limits of a few KiB, vector
// blocks): ASCII for more than 4 KiB, then a late non-ASCII rune, with members of the pattern's
// language at the start, in the middle and at the end.
var noLongHays bool

// lateCurated: curated patterns added after the ledgers were first recorded; they are processed AFTER the
// numbered patterns (appending to curatedPatterns would shift every index and with it every haystack).
// Alternations of four and more branches that end in a quantifier or a group, with and without a literal
// branch: the join state of such an alternation has many epsilon in-edges, which the reverse-NFA
// construction chains through Split states (nfa/reverse.go:buildSplitChain).
var lateCurated = []string{`x(\d+|[a-z]+|_+|-)=`, `id=(?:\d+|[a-f]+|_+|-);`, `foo(?:a+|b+|c+|d+)x`, `(?:a+|b+|c+|d+)x`, `(a)|(b)|(c)|(d)`,
	`(?:ab|c+|d+|e+)x`, `(?:\d+|[a-z]+|_+|-+|=+)!`, `(?:a+|b+|c+|d+|e+)$`, `k(?:(a)|(b+)|(c*)|d)z`}

func lateCuratedFor(tierIsThorough bool) []string {
	if tierIsThorough {
		return nil // the thorough ledgers predate them
	}
	return lateCurated
}

func (g *hayGen) longHays() [][]byte {
	if noLongHays {
		return nil
	}
	lr := g.lr
	m1, m2, m3 := sampleMatch(lr, g.re, 0), sampleMatch(lr, g.re, 0), sampleMatch(lr, g.re, 0)
	a := concatBytes(m1, g.asciiFill(4100+lr.intn(200)), []byte("é"), m2, g.asciiFill(3))
	if lr.intn(8) != 0 {
		return [][]byte{a}
	}
	b := concatBytes(g.asciiFill(60), m1, g.asciiFill(8200+lr.intn(500)), m3, []byte("é"))
	return [][]byte{a, b}
}

// hugeHays: one haystack of about n bytes (beyond the visited-table capacity of the bounded
// backtracker for mid-sized automata, so that the large-input fallbacks of the dispatchers run):
// short ASCII words separated by single separators, i.e. very many adjacent short matches for
// class-repetition patterns, with members of the language sprinkled in.
func (g *hayGen) hugeHays(n int) [][]byte {
	if noLongHays {
		return nil
	}
	lr := g.lr
	out := make([]byte, 0, n+64)
	for len(out) < n {
		switch lr.intn(40) {
		case 0:
			out = append(out, sampleMatch(lr, g.re, 0)...)
		case 1:
			out = append(out, "é"...)
		default:
			out = append(out, g.asciiFill(1+lr.intn(5))...)
		}
	}
	return [][]byte{out}
}

func repeatNoise(g *hayGen, n int) []byte {
	var out []byte
	for len(out) < n {
		out = append(out, g.alpha[g.r.intn(len(g.alpha))]...)
	}
	return out
}

func concatBytes(parts ...[]byte) []byte {
	var out []byte
	for _, p := range parts {
		out = append(out, p...)
	}
	return out
}
