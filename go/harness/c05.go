package main

import (
	"bufio"
	"flag"
	"fmt"
	"os"
	"os/exec"
	"path/filepath"
	"regexp/syntax"
	"runtime"
	"runtime/coverage"
	"sort"
	"strconv"
	"strings"
	"sync"
	"time"

	"github.com/coregx/coregex"
	"github.com/coregx/coregex/meta"
	"github.com/coregx/coregex/nfa"
)

// ---------------------------------------------------------------------------
// `c05`: linear time (property C05).  Work = executed statements of library code, read
// from the coverage counters of a binary built with
//   go build -tags verif -cover -covermode=atomic \
//      -coverpkg=verifharness,github.com/coregx/coregex/... -o harness-cover .
// One measurement = ClearCounters(); one API call; WriteCountersDir(); then
// `covdata textfmt` (run concurrently) and sum count*numStmts over the blocks of files
// under github.com/coregx/coregex/.  Deterministic: no clocks enter a verdict or a
// signature (wall time only decides when to stop growing a family that is already slow).
// ---------------------------------------------------------------------------

const c05Prefix = "github.com/coregx/coregex/"

// fixed, generous: 10 x the largest work/(states*(n+1)) seen on the benign families
// (see `calibration` in the stats file)
const c05K = 200

const c05MaxRatio = 2.6

// one-time costs (lazy DFA states, pools) that may fall into the larger of two sizes
const c05Slack = 30000
const c05MaxCompileRatio = 8.0

type c05Family struct {
	name    string
	pat     string
	hay     func(n int, r *rng) []byte
	apis    []string
	benign  bool
	small   bool // start at n = 32 (families known to be slow)
	comment string
}

func c05Rep(s string) func(int, *rng) []byte {
	return func(n int, _ *rng) []byte {
		b := []byte(strings.Repeat(s, n/len(s)+1))
		return b[:n]
	}
}

func c05RepThen(s, tail string) func(int, *rng) []byte {
	return func(n int, _ *rng) []byte {
		b := []byte(strings.Repeat(s, n/len(s)+1))
		return append(b[:n], tail...)
	}
}

// c05PrefixRep: prefix once, then the unit repeated: every unit ends a valid match that starts
// at the far-left prefix (each suffix candidate is a true match end sharing one start).
func c05PrefixRep(prefix, unit string) func(int, *rng) []byte {
	return func(n int, _ *rng) []byte {
		b := []byte(prefix + strings.Repeat(unit, n/len(unit)+1))
		return b[:n]
	}
}

func c05Random(alpha string) func(int, *rng) []byte {
	return func(n int, r *rng) []byte {
		b := make([]byte, n)
		for i := range b {
			b[i] = alpha[r.intn(len(alpha))]
		}
		return b
	}
}

func c05Lines(line string) func(int, *rng) []byte { return c05Rep(line + "\n") }

var c05Families = []c05Family{
	// benign: one per major strategy, haystack without pathological structure
	{name: "benign-literal", pat: `hello`, hay: c05Random("abcdefgh \n"), apis: []string{"Match", "FindIndex"}, benign: true},
	{name: "benign-dfa", pat: `(a|b)*abb`, hay: c05Random("abc "), apis: []string{"Match", "FindIndex"}, benign: true},
	{name: "benign-class", pat: `[a-z]+`, hay: c05Random("abc 12"), apis: []string{"Match", "FindIndex"}, benign: true},
	{name: "benign-digits", pat: `\d+\.\d+\.\d+`, hay: c05Random("0123456789. ab"), apis: []string{"Match", "FindIndex"}, benign: true},
	{name: "benign-suffix", pat: `.*\.txt`, hay: c05Random("abc/ \n"), apis: []string{"Match", "FindIndex"}, benign: true},
	{name: "benign-inner", pat: `ERROR.*timeout`, hay: c05Random("abcER \n"), apis: []string{"Match", "FindIndex"}, benign: true},
	{name: "benign-teddy", pat: `foo|bar|baz`, hay: c05Random("abfoz \n"), apis: []string{"Match", "FindIndex"}, benign: true},
	{name: "benign-captures", pat: `(\w+)\s(\w+)`, hay: c05Random("ab \n"), apis: []string{"FindSubmatchIndex", "FindIndex"}, benign: true},
	{name: "benign-anchored", pat: `^(\d+)-(\d+)$`, hay: c05Random("0123456789"), apis: []string{"Match", "FindSubmatchIndex"}, benign: true},
	{name: "benign-multiline", pat: `(?m)^.*\.php`, hay: c05Lines("GET /index.php HTTP/1.1"), apis: []string{"Match", "FindIndex"}, benign: true},
	{name: "benign-nfa", pat: `\bfoo\b.*\bbar\b`, hay: c05Random("fobar \n"), apis: []string{"Match", "FindIndex"}, benign: true},
	// near-miss runs
	{name: "nearmiss-a+b", pat: `a+b`, hay: c05Rep("a"), apis: []string{"Match", "FindIndex"}},
	{name: "nearmiss-(a|aa)+$", pat: `(a|aa)+$`, hay: c05RepThen("a", "b"), apis: []string{"Match", "FindIndex"}},
	{name: "nearmiss-(a*)*b", pat: `(a*)*b`, hay: c05Rep("a"), apis: []string{"Match", "FindIndex"}},
	{name: "nearmiss-(x+x+)+y", pat: `(x+x+)+y`, hay: c05Rep("x"), apis: []string{"Match", "FindIndex"}},
	{name: "nearmiss-a*b", pat: `a*b`, hay: c05Rep("a"), apis: []string{"Match", "FindIndex"}},
	// nested quantifiers over overlapping classes
	{name: "overlap-classes-3+digit", pat: `[a-z]+[a-z]+[a-z]+[0-9]`, hay: c05Rep("a"), apis: []string{"Match", "FindIndex"}, small: true},
	{name: "overlap-classes-2+digit", pat: `[a-z]+[a-z]+[0-9]`, hay: c05Rep("a"), apis: []string{"Match", "FindIndex"}, small: true},
	{name: "overlap-w-digits", pat: `\w+[0-9]+`, hay: c05Rep("a"), apis: []string{"Match", "FindIndex"}},
	// many prefilter candidates
	{name: "candidates-ab+c", pat: `ab+c`, hay: c05Rep("ab"), apis: []string{"FindIndex", "FindAllIndex"}},
	{name: "candidates-email", pat: `\w+@\w+\.com`, hay: c05Rep("a@"), apis: []string{"Match", "FindIndex"}},
	{name: "candidates-abcd-prefix", pat: `abcd\w+x`, hay: c05Rep("abcd"), apis: []string{"Match", "FindIndex"}},
	// reverse suffix with many suffix hits
	{name: "revsuffix-.txt", pat: `.*\.txt`, hay: c05Rep(".txt"), apis: []string{"FindIndex", "FindAllIndex"}},
	{name: "revsuffix-foo-lines", pat: `.*foo`, hay: c05Rep("foo\n"), apis: []string{"FindIndex", "FindAllIndex"}},
	{name: "revsuffix-class-foo", pat: `[a-z]+foo`, hay: c05Rep("foo "), apis: []string{"FindIndex", "FindAllIndex"}},
	{name: "revsuffix-nomatch-prefix", pat: `[a-z]+\d\.txt`, hay: c05Rep(".txt"), apis: []string{"Match", "FindIndex"}},
	{name: "revsuffixset", pat: `.*\.(txt|log|md)`, hay: c05Rep(".md.log"), apis: []string{"Match", "FindIndex"}},
	// every suffix candidate is a valid match end sharing one far-left start
	{name: "revsuffixset-valid-ends", pat: `[A-Z][a-z.]+\.(txt|log|md)`, hay: c05PrefixRep("A", "a.txt"), apis: []string{"Match", "FindIndex", "FindSubmatchIndex"}},
	{name: "revsuffixset-valid-ends-mixed", pat: `[A-Z][a-z.]+\.(txt|log|md)`, hay: c05PrefixRep("A", "a.txt.log.md"), apis: []string{"FindIndex"}},
	{name: "revsuffix-valid-ends", pat: `[A-Z][a-z.]+\.txt`, hay: c05PrefixRep("A", "a.txt"), apis: []string{"Match", "FindIndex"}, small: true},
	{name: "revinner-valid-ends", pat: `A[a-z.]*foo[a-z.]*`, hay: c05PrefixRep("A", "foo."), apis: []string{"Match", "FindIndex"}},
	{name: "multiline-valid-ends", pat: `(?m)^[A-Z][a-z.]+\.php`, hay: c05PrefixRep("A", "a.php"), apis: []string{"Match", "FindIndex"}},
	// every candidate has a valid prefix (long reverse scan ending in a match start) and an
	// almost matching suffix (long anchored forward scan that fails): the anti-quadratic guard must
	// also advance when the PREFIX succeeded
	{name: "revinner-prefix-ok-suffix-fails", pat: `[0-9]+[a-z ]*connection[a-z ]*[0-9]`, hay: c05PrefixRep("1 ", "lost connection "), apis: []string{"Match", "FindIndex"}},
	{name: "revinner-prefix-ok-suffix-fails-2", pat: `[A-Z][a-z.]*foo[a-z.]*[0-9]`, hay: c05PrefixRep("A", "foo."), apis: []string{"Match", "FindIndex"}},
	{name: "revsuffix-prefix-ok-tail-fails", pat: `[0-9]+[a-z ]*\.txt[a-z ]*[0-9]`, hay: c05PrefixRep("1 ", "a.txt "), apis: []string{"Match", "FindIndex"}},
	// occurrences of the inner literal BACK TO BACK (no byte between one occurrence and the next), the literal's
	// bytes inside the prefix class, no match anywhere: the end of each reverse scan equals the guard position
	{name: "revinner-back-to-back", pat: `[A-Z]+[a-z]*connection[a-z]*[A-Z]`, hay: c05PrefixRep("A", "connection"), apis: []string{"Match"}},
	{name: "revinner-back-to-back-2", pat: `[a-z_]+_id_[a-z_]*[0-9]`, hay: c05PrefixRep("a", "_id_"), apis: []string{"Match"}},
	// reverse inner
	{name: "revinner-a.*foo.*b", pat: `a.*foo.*b`, hay: c05Rep("foo"), apis: []string{"Match", "FindIndex"}},
	{name: "revinner-x.*foo.*y-lines", pat: `x.*foo.*y`, hay: c05Rep("xfoo\n"), apis: []string{"Match", "FindIndex"}},
	// multiline
	{name: "multiline-php", pat: `(?m)^.*\.php`, hay: c05Lines("a.ph.php.ph"), apis: []string{"FindIndex", "FindAllIndex"}},
	{name: "multiline-php-nomatch-lines", pat: `(?m)^/.*[\w-]+\.php`, hay: c05Lines("x.php"), apis: []string{"Match", "FindIndex"}},
	// cache thrashing
	{name: "thrash-(a|b)*a(a|b){8}", pat: `(a|b)*a(a|b){8}`, hay: c05Random("ab"), apis: []string{"FindIndex", "FindAllIndex"}},
	{name: "thrash-(a|b)*a(a|b){14}c", pat: `(a|b)*a(a|b){14}c`, hay: c05Random("ab"), apis: []string{"Match", "FindIndex"}},
	// digits
	{name: "digits-version", pat: `\d+\.\d+\.\d+`, hay: c05Rep("1"), apis: []string{"Match", "FindIndex"}},
	{name: "digits-ip", pat: `(\d{1,3}\.){3}\d{1,3}`, hay: c05Rep("1.2."), apis: []string{"Match", "FindIndex"}},
	// captures
	{name: "captures-(a+)(a+)(a+)b", pat: `(a+)(a+)(a+)b`, hay: c05Rep("a"), apis: []string{"FindSubmatchIndex", "FindIndex"}},
	{name: "captures-(\\w+)\\s(\\w+)", pat: `(\w+)\s(\w+)`, hay: c05Rep("a"), apis: []string{"FindSubmatchIndex", "FindIndex", "Match"}, small: true},
	{name: "captures-nested", pat: `((a+)|(b+))*c`, hay: c05Rep("ab"), apis: []string{"FindSubmatchIndex", "FindIndex"}},
	// bounded backtracker (SearchAtWithState bumps the generation per start position)
	{name: "bt-(\\w{2,8})+x", pat: `(\w{2,8})+x`, hay: c05Rep("a"), apis: []string{"Match", "FindIndex"}, small: true},
	{name: "bt-^(\\w+)@", pat: `(\w+)@(\w+)\.(\w+)`, hay: c05Rep("a"), apis: []string{"Match", "FindIndex"}, small: true},
	{name: "bt-[^a]{2}-nonascii", pat: `[а-я]+x`, hay: c05Rep("я"), apis: []string{"Match", "FindIndex"}},
	// literal alternations / aho-corasick
	{name: "alternation-overlap", pat: `ab|abc|abcd|abcde`, hay: c05Rep("abcd"), apis: []string{"Match", "FindIndex"}},
	{name: "anchored-literal", pat: `^/.*\.php$`, hay: c05Rep("/a.php"), apis: []string{"Match", "FindIndex"}},
	{name: "empty-matches", pat: `x*`, hay: c05Rep("a"), apis: []string{"FindAllIndex", "FindIndex"}},
}

type c05Compile struct {
	name string
	gen  func(k int) string
	ks   []int
}

var c05Compiles = []c05Compile{
	{"nested-repeat-(a{k}){k}", func(k int) string { return fmt.Sprintf("(a{%d}){%d}", k, k) }, []int{4, 8, 16, 24}},
	{"nested-repeat-((a{k}){k}){2}", func(k int) string { return fmt.Sprintf("((a{%d}){%d}){2}", k, k) }, []int{4, 8, 16}},
	{"long-alternation", func(k int) string {
		var p []string
		for i := 0; i < k; i++ {
			p = append(p, fmt.Sprintf("w%05dx", i*7919%100000))
		}
		return strings.Join(p, "|")
	}, []int{16, 32, 64, 128, 256}},
	{"optional-run-a?^k a^k", func(k int) string { return strings.Repeat("a?", k) + strings.Repeat("a", k) }, []int{8, 16, 32, 64, 128}},
	{"class-sequence", func(k int) string { return strings.Repeat(`[a-z]\d`, k) }, []int{8, 16, 32, 64, 128}},
	{"nested-groups", func(k int) string { return strings.Repeat("(", k) + "a" + strings.Repeat(")*", k) }, []int{4, 8, 16, 32}},
	{"unicode-classes", func(k int) string { return strings.Repeat(`\pL\p{Greek}`, k) }, []int{2, 4, 8, 16}},
	{"counted-class {k}", func(k int) string { return fmt.Sprintf(`[a-z]{%d}\d{%d,%d}x`, k, k, 2*k) }, []int{8, 16, 32, 64, 128}},
}

// ---- the meter -------------------------------------------------------------
type c05Meter struct {
	root string
	tool string
	meta string // name of the meta file inside root/meta
	sem  chan struct{}
	wg   sync.WaitGroup
	mu   sync.Mutex
	work map[int]uint64
	top  map[int]string
	errs []string
	next int
}

func c05NewMeter() (*c05Meter, error) {
	if err := coverage.ClearCounters(); err != nil {
		return nil, fmt.Errorf("coverage counters unavailable (%v): build the harness with\n  go build -tags verif -cover -covermode=atomic -coverpkg=verifharness,github.com/coregx/coregex/... -o harness-cover .", err)
	}
	root, err := os.MkdirTemp(".", "c05cov-")
	if err != nil {
		return nil, err
	}
	root, _ = filepath.Abs(root)
	metaDir := filepath.Join(root, "meta")
	os.MkdirAll(metaDir, 0o755)
	if err := coverage.WriteMetaDir(metaDir); err != nil {
		return nil, fmt.Errorf("WriteMetaDir: %v", err)
	}
	out, err := exec.Command("go", "tool", "-n", "covdata").Output()
	if err != nil {
		return nil, fmt.Errorf("go tool -n covdata: %v", err)
	}
	tool := strings.TrimSpace(string(out))
	if _, err := os.Stat(tool); err != nil {
		// not built yet: let the go command build it once
		if err := exec.Command("go", "tool", "covdata", "help").Run(); err != nil {
			return nil, fmt.Errorf("go tool covdata: %v", err)
		}
	}
	nw := runtime.NumCPU()
	if nw > 16 {
		nw = 16
	}
	return &c05Meter{root: root, tool: tool, sem: make(chan struct{}, nw), work: map[int]uint64{}, top: map[int]string{}}, nil
}

// measure runs f with cleared counters and returns a ticket; the work is available
// after wait().
func (m *c05Meter) measure(f func()) (int, time.Duration) {
	id := m.next
	m.next++
	if err := coverage.ClearCounters(); err != nil {
		fatal("ClearCounters: %v", err)
	}
	t0 := time.Now()
	f()
	wall := time.Since(t0)
	dir := filepath.Join(m.root, strconv.Itoa(id))
	os.MkdirAll(dir, 0o755)
	if err := coverage.WriteCountersDir(dir); err != nil {
		fatal("WriteCountersDir: %v", err)
	}
	m.wg.Add(1)
	m.sem <- struct{}{}
	go func() {
		defer func() { <-m.sem; m.wg.Done() }()
		w, top, err := m.textfmt(dir)
		m.mu.Lock()
		defer m.mu.Unlock()
		if err != nil {
			m.errs = append(m.errs, err.Error())
			return
		}
		m.work[id], m.top[id] = w, top
	}()
	return id, wall
}

func (m *c05Meter) textfmt(dir string) (uint64, string, error) {
	outFile := filepath.Join(dir, "cov.txt")
	cmd := exec.Command(m.tool, "textfmt", "-pkg="+c05Prefix+"...", "-i="+dir+","+filepath.Join(m.root, "meta"), "-o="+outFile)
	cmd.Env = append(os.Environ(), "GOMAXPROCS=1")
	if b, err := cmd.CombinedOutput(); err != nil {
		return 0, "", fmt.Errorf("covdata textfmt: %v: %s", err, b)
	}
	f, err := os.Open(outFile)
	if err != nil {
		return 0, "", err
	}
	defer f.Close()
	var total uint64
	perFile := map[string]uint64{}
	sc := bufio.NewScanner(f)
	sc.Buffer(make([]byte, 1<<20), 1<<20)
	for sc.Scan() {
		line := sc.Text()
		if !strings.HasPrefix(line, c05Prefix) {
			continue
		}
		// file:sl.sc,el.ec numStmts count
		sp2 := strings.LastIndexByte(line, ' ')
		sp1 := strings.LastIndexByte(line[:sp2], ' ')
		cnt, _ := strconv.ParseUint(line[sp2+1:], 10, 64)
		if cnt == 0 {
			continue
		}
		ns, _ := strconv.ParseUint(line[sp1+1:sp2], 10, 64)
		total += cnt * ns
		file := line[len(c05Prefix):strings.IndexByte(line, ':')]
		perFile[file] += cnt * ns
	}
	os.RemoveAll(dir)
	type kv struct {
		k string
		v uint64
	}
	var kvs []kv
	for k, v := range perFile {
		kvs = append(kvs, kv{k, v})
	}
	sort.Slice(kvs, func(i, j int) bool { return kvs[i].v > kvs[j].v || kvs[i].v == kvs[j].v && kvs[i].k < kvs[j].k })
	var tops []string
	for i := 0; i < len(kvs) && i < 3; i++ {
		tops = append(tops, fmt.Sprintf("%s=%d%%", kvs[i].k, kvs[i].v*100/max(total, 1)))
	}
	return total, strings.Join(tops, " "), nil
}

func (m *c05Meter) wait() {
	m.wg.Wait()
	os.RemoveAll(m.root)
}

func c05Call(re *coregex.Regex, api string, h []byte) {
	switch api {
	case "Match":
		re.Match(h)
	case "FindIndex":
		re.FindIndex(h)
	case "FindAllIndex":
		re.FindAllIndex(h, -1)
	case "FindSubmatchIndex":
		re.FindSubmatchIndex(h)
	case "FindAllSubmatchIndex":
		re.FindAllSubmatchIndex(h, -1)
	}
}

type c05Point struct {
	n      int
	ticket int
	work   uint64
}

func c05Ratios(pts []c05Point) []string {
	var rs []string
	for i := 1; i < len(pts); i++ {
		rs = append(rs, fmt.Sprintf("%d->%d:%.2f", pts[i-1].n, pts[i].n, float64(pts[i].work)/float64(max(pts[i-1].work, 1))))
	}
	return rs
}

// growth class of a series, for the signature (stable across machines: work is exact)
func c05Class(pts []c05Point) string {
	worst := 0.0
	for i := 1; i < len(pts); i++ {
		if pts[i].n != 2*pts[i-1].n || pts[i].n < 128 {
			continue
		}
		if float64(pts[i].work) <= c05MaxRatio*float64(pts[i-1].work)+c05Slack {
			continue
		}
		if r := float64(pts[i].work) / float64(max(pts[i-1].work, 1)); r > worst {
			worst = r
		}
	}
	switch {
	case worst <= c05MaxRatio:
		return "linear"
	case worst < 5.5:
		return "quadratic"
	case worst < 11:
		return "cubic"
	default:
		return "quartic+"
	}
}

func cmdC05(args []string) int {
	fs := flag.NewFlagSet("c05", flag.ExitOnError)
	seed := fs.Uint64("seed", 1, "seed")
	tier := fs.String("tier", "quick", "quick|thorough")
	_ = fs.Int("n", 0, "unused (sizes are fixed by tier)")
	out := fs.String("out", "cases.v", "Coq case file")
	statsPath := fs.String("stats", "stats.json", "stats output")
	only := fs.String("only", "", "substring filter on family names")
	fs.Parse(args)

	meter, err := c05NewMeter()
	if err != nil {
		fmt.Fprintln(os.Stderr, "harness c05:", err)
		return 4
	}
	st := newStats("C05", *seed)
	r := newRng(*seed)
	sizes := []int{256, 512, 1024, 2048, 4096}
	if *tier == "thorough" {
		sizes = append(sizes, 8192, 16384, 32768)
	}
	slowStop := 250 * time.Millisecond
	if *tier == "thorough" {
		slowStop = 20 * time.Second
	}
	distinct := distinctSet{}

	type series struct {
		fam      c05Family
		api      string
		strategy string
		states   int
		pts      []c05Point
		aborted  int // n after which the family was not grown any further (0: complete)
	}
	var all []*series
	for fi, fam := range c05Families {
		if *only != "" && !strings.Contains(fam.name, *only) {
			continue
		}
		re0, err := syntax.Parse(fam.pat, syntax.Perl)
		if err != nil {
			st.hist("skip:parse")
			continue
		}
		states := 1
		if n, err := nfa.NewDefaultCompiler().CompileRegexp(re0); err == nil {
			states = n.States()
		}
		strategy := "?"
		if eng, err := meta.Compile(fam.pat); err == nil {
			strategy = eng.Strategy().String()
		}
		st.hist("strategy:" + strategy)
		for _, api := range fam.apis {
			s := &series{fam: fam, api: api, strategy: strategy, states: states}
			all = append(all, s)
			run := func(n int) bool {
				h := fam.hay(n, r.fork(uint64(fi)+77))
				re, err := coregex.Compile(fam.pat)
				if err != nil {
					st.hist("skip:compile")
					return false
				}
				ticket, wall := meter.measure(func() { c05Call(re, api, h) })
				s.pts = append(s.pts, c05Point{n: n, ticket: ticket})
				st.Evaluations++
				distinct.add(fmt.Sprintf("%s|%s|%d", fam.name, api, n))
				return wall <= slowStop
			}
			grow := sizes
			if fam.small { // known to be slow: grown from n = 32
				grow = append([]int{32, 64, 128}, sizes...)
			}
			for _, n := range grow {
				if !run(n) {
					s.aborted = n
					st.hist("stopped-growing-slow-family")
					break
				}
			}
			if s.aborted != 0 && s.aborted <= 1024 && len(grow) == len(sizes) {
				// too few doublings above 2^8: add the small sizes
				run(32)
				run(64)
				run(128)
			}
			sort.Slice(s.pts, func(i, j int) bool { return s.pts[i].n < s.pts[j].n })
		}
	}
	// compile work
	type cseries struct {
		c   c05Compile
		pts []c05Point
		len []int
	}
	var call []*cseries
	for _, c := range c05Compiles {
		if *only != "" && !strings.Contains(c.name, *only) {
			continue
		}
		cs := &cseries{c: c}
		call = append(call, cs)
		for _, k := range c.ks {
			pat := c.gen(k)
			ticket, wall := meter.measure(func() { coregex.Compile(pat) })
			cs.pts = append(cs.pts, c05Point{n: k, ticket: ticket})
			cs.len = append(cs.len, len(pat))
			st.Evaluations++
			distinct.add(fmt.Sprintf("compile|%s|%d", c.name, k))
			if wall > slowStop {
				st.hist("stopped-growing-slow-compile")
				break
			}
		}
	}
	meter.wait()
	if len(meter.errs) > 0 {
		fmt.Fprintln(os.Stderr, "harness c05:", meter.errs[0])
		return 4
	}

	var coq strings.Builder
	coq.WriteString("From CV Require Import Cost.\nFrom Coq Require Import List NArith.\nImport ListNotations.\nOpen Scope N_scope.\n")
	coq.WriteString("(* generated by `harness c05`: work (executed statements of library code) per call *)\nDefinition cases : list case := [\n")
	ncoq := 0
	calib := 0.0
	calibBy := ""
	for _, s := range all {
		for i := range s.pts {
			s.pts[i].work = meter.work[s.pts[i].ticket]
		}
		// the checked points: n >= 256, or the small ones when the family had to be stopped early
		var pts []c05Point
		for _, p := range s.pts {
			if p.n >= 256 || (s.aborted != 0 && s.aborted <= 1024) {
				pts = append(pts, p)
			}
		}
		if len(pts) == 0 {
			continue
		}
		ratios := c05Ratios(pts)
		class := c05Class(pts)
		st.hist("growth:" + class)
		st.hist("growth:" + class + ":" + s.strategy)
		worstK := 0.0
		for _, p := range pts {
			k := float64(p.work) / float64(s.states*(p.n+1))
			if k > worstK {
				worstK = k
			}
		}
		if s.fam.benign && worstK > calib {
			calib, calibBy = worstK, s.fam.name+"/"+s.api
		}
		var bad []string
		checked := 0
		for i := 1; i < len(pts); i++ {
			if pts[i].n == 2*pts[i-1].n && (pts[i].n >= 512 || s.aborted != 0) {
				checked++
				if float64(pts[i].work) > c05MaxRatio*float64(pts[i-1].work)+c05Slack {
					bad = append(bad, fmt.Sprintf("%d->%d", pts[i-1].n, pts[i].n))
				}
			}
		}
		overK := worstK > c05K
		flagged := len(bad) >= 2 || (len(bad) == 1 && checked <= 2) || overK
		if flagged {
			what := "ratio"
			if len(bad) == 0 {
				what = "bound"
			}
			var works []uint64
			var ns []int
			for _, p := range pts {
				works = append(works, p.work)
				ns = append(ns, p.n)
			}
			last := s.pts[len(s.pts)-1]
			st.violate(violation{Kind: "superlinear", Case: ncoq,
				Detail: map[string]any{"family": s.fam.name, "pattern": s.fam.pat, "api": s.api, "strategy": s.strategy, "nfa_states": s.states,
					"n": ns, "work": works, "ratios": ratios, "doublings_over_2.6": bad, "max_work_per_state_byte": int(worstK), "K": c05K,
					"stopped_growing_after_n": s.aborted, "top_files_at_largest_n": meter.top[last.ticket], "haystack_head": string(s.fam.hay(24, r.fork(1)))},
				// the signature names the failing series, not its measured numbers: a harmless edit of
				// the library changes block counts in the second decimal
				Sig:      fmt.Sprintf("superlinear(%s) family=%s api=%s strategy=%s", what, s.fam.name, s.api, s.strategy),
				RC:       "superlinear/" + s.strategy,
				Expected: fmt.Sprintf("work(2n) <= %.1f*work(n)+%d and work <= %d*states*(n+1)", c05MaxRatio, c05Slack, c05K),
				Got:      fmt.Sprintf("ratios %s; max work/(states*(n+1)) = %.0f", strings.Join(ratios, ","), worstK)})
		}
		if ncoq < 1200 {
			if ncoq > 0 {
				coq.WriteString(";\n")
			}
			var obs []string
			for _, p := range pts {
				obs = append(obs, fmt.Sprintf("(%d,%d)", p.n, p.work))
			}
			fmt.Fprintf(&coq, "  (* %s %s %s *)\n  mkCase %d %d %d %s %s [%s]", strings.ReplaceAll(s.fam.name, "*", "x"), s.api, s.strategy, ncoq, s.states, c05K,
				coqBool(s.aborted != 0), coqBool(flagged), strings.Join(obs, ";"))
			ncoq++
		}
		if len(st.Samples) < 8 && (flagged || s.fam.benign && s.api == "FindIndex") {
			st.sample(map[string]any{"family": s.fam.name, "pattern": s.fam.pat, "api": s.api, "strategy": s.strategy, "ratios": ratios, "class": class})
		}
	}
	for _, cs := range call {
		for i := range cs.pts {
			cs.pts[i].work = meter.work[cs.pts[i].ticket]
		}
		ratios := c05Ratios(cs.pts)
		var bad []string
		for i := 1; i < len(cs.pts); i++ {
			// per doubling of the pattern length (the parameter doubles; the text at most doubles)
			if float64(cs.pts[i].work) > c05MaxCompileRatio*float64(cs.pts[i-1].work) && cs.pts[i].n <= 2*cs.pts[i-1].n {
				bad = append(bad, fmt.Sprintf("%d->%d", cs.pts[i-1].n, cs.pts[i].n))
			}
		}
		st.hist("compile-family")
		var works []uint64
		for _, p := range cs.pts {
			works = append(works, p.work)
		}
		if len(bad) > 0 {
			st.violate(violation{Kind: "compile-superpolynomial", Case: 0,
				Detail: map[string]any{"family": cs.c.name, "ks": cs.c.ks, "pattern_len": cs.len, "work": works, "ratios": ratios},
				Sig:    fmt.Sprintf("compile family=%s ratios=%s", cs.c.name, strings.Join(ratios, ",")), RC: "superlinear/compile",
				Expected: fmt.Sprintf("work(2k)/work(k) <= %.0f", c05MaxCompileRatio), Got: strings.Join(ratios, ",")})
		}
		if len(st.Samples) < 10 {
			st.sample(map[string]any{"compile_family": cs.c.name, "ks": cs.c.ks, "pattern_len": cs.len, "work": works, "ratios": ratios})
		}
	}
	coq.WriteString("\n].\nDefinition M := Eval vm_compute in mismatches cases.\nPrint M.\n")
	if err := os.WriteFile(*out, []byte(coq.String()), 0o644); err != nil {
		fatal("write %s: %v", *out, err)
	}
	st.CoqCases = ncoq
	st.Distinct = len(distinct)
	st.Extra["calibration"] = map[string]any{"max_benign_work_per_state_byte": calib, "by": calibBy, "K": c05K}
	st.Rule = fmt.Sprintf("C05: work = sum(count*numStmts) over coverage blocks of github.com/coregx/coregex/ for ONE call on a freshly compiled Regex; per (family, api): sizes n = 2^8..2^12 (thorough 2^15); violation when work(2n) > %.1f*work(n) + 30000 for two doublings with 2n >= 2^9 (one, when at most two doublings could be measured; one-time threshold effects such as a prefilter being switched off are thereby tolerated) (all measured doublings from n=32 when the family had to be stopped for slowness), or work > %d*states*(n+1); compile families: work(2k)/work(k) <= %.0f; distinct = distinct (family, api, n)", c05MaxRatio, c05K, c05MaxCompileRatio)
	st.write(*statsPath)
	return 0
}

func init() { register("c05", cmdC05) }
