package main

// Sub-command c07: property C07, "total and memory-safe: no panic, hang, stray read or
// write; results well-formed".
//
//	harness c07 -seed N -tier quick|thorough -out cases.v -stats stats.json
//
// The parent generates a deterministic list of patterns (index -> pattern from (seed, index)):
//   - the valid, strategy-covering corpus (curated + harvested + templates + grammar), and
//   - hostile byte strings offered as patterns (mutations of corpus patterns, unbalanced
//     brackets, huge repeats, invalid UTF-8, NUL bytes, nesting 50..1200 deep, alternations
//     of 2000 literals, classes with 500 ranges, ...),
// and runs them in CHILD processes (re-exec: `harness c07-child ...`), a batch of patterns per
// child, several children at a time.  The child publishes (pattern, haystack, api) of the call
// in progress in a MAP_SHARED word; the parent watches it: a call that makes no progress for
// the hang limit is a `timeout`, a child that dies is a `crash` / `fatal` (Go "fatal error:",
// e.g. stack overflow, or a signal outside Go's reach) attributed to exactly that call, the
// call is re-run alone in a fresh child to see whether it reproduces in isolation, and the
// batch resumes without it.  Ordinary panics (incl. faults on the guard pages, turned into
// panics by SetPanicOnFault) are recovered in the child and reported with the call.
//
// Haystacks live in an mmap'ed region [PROT_NONE][data, PROT_READ while searching][PROT_NONE]:
// either the haystack ends exactly at the trailing guard page (over-read => fault) or starts
// right after the leading one (under-read => fault); a write to it faults as well.  The string
// arguments of the *String APIs are unsafe.String views of the same bytes.
//
// Every value returned by every exported search / enumeration / replace method of
// coregex.Regex (default and Longest) and of meta.Engine (incl. the explicit-offset variants
// with at in {0,1,len-1,len,len+1,-1}) is checked against the well-formedness predicates of
// coq/Wf.v re-implemented here; returned slices/strings must alias the input at the reported
// offsets; the haystack must be unchanged.  A sample of the observed integers goes to the Coq
// case file (Wf.check_case).

import (
	"bufio"
	"bytes"
	"encoding/hex"
	"encoding/json"
	"flag"
	"fmt"
	"os"
	"os/exec"
	"regexp/syntax"
	"runtime/debug"
	"sort"
	"strings"
	"sync"
	"sync/atomic"
	"time"
	"unicode/utf8"
	"unsafe"

	"github.com/coregx/coregex"
	"github.com/coregx/coregex/meta"
	"golang.org/x/sys/unix"
)

func init() {
	register("c07", c07Main)
	register("c07-child", c07Child)
}

func c07Rng(seed uint64, idx int) *rng { return newRng(seed*1000003 + uint64(idx)*7919 + 707) }

// ---------------------------------------------------------------------------
// Patterns.
// ---------------------------------------------------------------------------

type c07pat struct {
	idx     int
	pat     string
	src     string
	hostile bool
}

type c07plan struct {
	seed     uint64
	thorough bool
	nValid   int // curated + generated
	nHostile int
	corpus   []string
}

func (pl *c07plan) total() int { return pl.nValid + pl.nHostile }

// inputs of defects seen earlier on this code base: they stay in the corpus (pattern, extra
// haystack in hex); indices len(curatedPatterns)..+len(c07Regress)-1
var c07Regress = []struct{ pat, hayHex string }{
	// inverted capture of a repeated group (ReplaceAll panics on it)
	{"(?i:x{1,3}|b|(я{1,3}?(?:Ax){0,2}?|_{2,}Bé\\s*?)?b(?:é😀)+?|2B\\.(?:x_2)+?)(?:éB){2}.+((?P<nb>я)c\nB\n)+$",
		"32422e585f32585f32585f32c3a942c3a942f09f988078e4b896d18f630a420ad18f630a420ad18f630a420a"},
	{"(?:éB){2}.+((я)c\n)+$", hex.EncodeToString([]byte("éBéBzzяc\nяc\nяc\n"))},
	{"x.+((?P<n>я)c)+$", hex.EncodeToString([]byte("x12яcяcяc"))},
	{"(a+)(b+)?(c+)?$", hex.EncodeToString([]byte("zzaabbccaac"))},
	{"[a-z]+[a-z]+[a-z]+[0-9]", hex.EncodeToString([]byte(strings.Repeat("a", 60)))},
}

// pattern i is a function of (seed, i) only.
func (pl *c07plan) pattern(i int) c07pat {
	r := c07Rng(pl.seed, i)
	pg := &patGen{r: r, corpus: pl.corpus}
	if k := i - len(curatedPatterns); k >= 0 && k < len(c07Regress) && i < pl.nValid {
		return c07pat{idx: i, pat: c07Regress[k].pat, src: "regress"}
	}
	if i < pl.nValid {
		p, src := pg.next(i)
		return c07pat{idx: i, pat: p, src: src}
	}
	p, src := c07Hostile(r, pg, i-pl.nValid)
	return c07pat{idx: i, pat: p, src: src, hostile: true}
}

var c07HostileBytes = []string{"(", ")", "[", "]", "{", "}", "*", "+", "?", "|", "\\", "^", "$", "\x00", "\xff", "\xc3", "\x80", "-", ",", "1", "0", ":", "<", ">", "=", "!", "P", "i", "\xf0\x9f", "\xed\xa0\x80", "."}

func c07Base(r *rng, pg *patGen) string {
	if r.chance(35) {
		return curatedPatterns[r.intn(len(curatedPatterns))]
	}
	p, _ := pg.next(len(curatedPatterns) + 1)
	return p
}

func c07Words(r *rng, n int, kind int) []string {
	out := make([]string, n)
	for i := range out {
		switch kind {
		case 0: // distinct, fixed width
			out[i] = fmt.Sprintf("w%04dz", i)
		case 1: // shared prefixes and prefixes of each other
			out[i] = strings.Repeat("ab", 1+i%7) + fmt.Sprint(i%97)
		case 2: // non-ASCII
			out[i] = fmt.Sprintf("я%dé", i)
		default: // random letters, length 1..6
			l := 1 + r.intn(6)
			b := make([]byte, l)
			for k := range b {
				b[k] = byte('a' + r.intn(6))
			}
			out[i] = string(b)
		}
	}
	return out
}

// c07Hostile: the k-th hostile pattern; the kind cycles so that every kind is present.
func c07Hostile(r *rng, pg *patGen, k int) (string, string) {
	insertAt := func(p string, s string) string {
		at := r.intn(len(p) + 1)
		return p[:at] + s + p[at:]
	}
	switch k % 16 {
	case 0:
		p := c07Base(r, pg)
		for n := 1 + r.intn(3); n > 0 && len(p) > 0; n-- {
			at := r.intn(len(p))
			p = p[:at] + p[at+1:]
		}
		return p, "mut-delete"
	case 1:
		p := c07Base(r, pg)
		for n := 1 + r.intn(3); n > 0; n-- {
			p = insertAt(p, r.pick(c07HostileBytes))
		}
		return p, "mut-insert"
	case 2:
		p := c07Base(r, pg)
		if len(p) > 0 {
			a := r.intn(len(p))
			b := a + 1 + r.intn(len(p)-a)
			p = p[:b] + strings.Repeat(p[a:b], 1+r.intn(3)) + p[b:]
		}
		return p, "mut-duplicate"
	case 3:
		p := c07Base(r, pg)
		for n := 1 + r.intn(3); n > 0; n-- {
			p = insertAt(p, r.pick([]string{"(", ")", "[", "]", "{", "}", "(?:", "(?P<x>", "[^", "[[:", ":]]"}))
		}
		return p, "mut-brackets"
	case 4:
		atom := r.pick([]string{"a", "(?:ab)", "[a-z]", ".", "(?:a|b)", `\pL`, `\w`, "(a)", "(?i:k)", "é", `[^\n]`, `\b`, "(?:)", `(?s:.)`})
		n := []int{2, 10, 63, 64, 65, 100, 255, 256, 500, 999, 1000}[r.intn(11)]
		switch r.intn(10) {
		case 0:
			return fmt.Sprintf("%s{%d}", atom, n), "repeat"
		case 1:
			return fmt.Sprintf("%s{%d,}", atom, n), "repeat"
		case 2:
			return fmt.Sprintf("%s{0,%d}", atom, n), "repeat"
		case 3:
			m := 1 + r.intn(30)
			return fmt.Sprintf("(?:%s{%d}){%d}", atom, 1000/(m+1), m), "repeat-nested"
		case 4:
			return fmt.Sprintf("(%s{1,%d}){1,3}x", atom, n/4+1), "repeat-nested"
		case 5:
			return fmt.Sprintf("%s{%d}", atom, 1001+r.intn(5)), "repeat-too-large"
		case 6:
			return fmt.Sprintf("(?:(?:%s{100}){100}){100}", atom), "repeat-too-large"
		case 7:
			return fmt.Sprintf("%s{%d,%d}", atom, n, n/2), "repeat-inverted"
		case 8:
			return atom + "{99999999999999999999}", "repeat-overflow"
		default:
			return fmt.Sprintf("(?:%s*){%d}b", atom, n), "repeat-star"
		}
	case 5:
		p := c07Base(r, pg)
		for n := 1 + r.intn(2); n > 0; n-- {
			p = insertAt(p, r.pick([]string{"\xff", "\xc3", "\x80", "\xf0\x9f\x98", "\xed\xa0\x80", "\xc0\x80", "\xe4\xb8", "\xf8\x88\x80\x80\x80", "[\xff-\xfe]", "[^\xc3]"}))
		}
		return p, "invalid-utf8"
	case 6:
		p := c07Base(r, pg)
		for n := 1 + r.intn(2); n > 0; n-- {
			p = insertAt(p, r.pick([]string{"\x00", "\x00\x00", "[\x00-a]", "\\x00", "[^\x00]", "\x00*", "(\x00|a)"}))
		}
		return p, "nul"
	case 7:
		d := []int{50, 100, 200, 500, 999, 1000, 1001, 1200}[r.intn(8)]
		switch r.intn(8) {
		case 0:
			return strings.Repeat("(", d) + "a" + strings.Repeat(")", d), fmt.Sprintf("nest-cap-%d", d)
		case 1:
			return strings.Repeat("(?:", d) + "a" + strings.Repeat(")", d), fmt.Sprintf("nest-noncap-%d", d)
		case 2:
			return strings.Repeat("(a|", d) + "b" + strings.Repeat(")", d), fmt.Sprintf("nest-alt-%d", d)
		case 3:
			return strings.Repeat("(", d) + "a" + strings.Repeat(")*", d), fmt.Sprintf("nest-star-%d", d)
		case 4:
			return strings.Repeat("(?:", d) + "a" + strings.Repeat(")?", d), fmt.Sprintf("nest-quest-%d", d)
		case 5:
			return strings.Repeat("(?i:", d) + "a" + strings.Repeat(")", d), fmt.Sprintf("nest-flag-%d", d)
		case 6:
			return strings.Repeat("(", d) + "a", fmt.Sprintf("nest-open-%d", d)
		default:
			return strings.Repeat("(?:a", d) + strings.Repeat(")+", d), fmt.Sprintf("nest-plus-%d", d)
		}
	case 8:
		ws := c07Words(r, 2000, r.intn(4))
		p := strings.Join(ws, "|")
		switch r.intn(5) {
		case 0:
			p = "(?i)" + p
		case 1:
			p = "^(?:" + p + ")$"
		case 2:
			p = "(" + p + ")+"
		}
		return p, "alt-2000"
	case 9:
		var sb strings.Builder
		sb.WriteString("[")
		if r.chance(30) {
			sb.WriteString("^")
		}
		base := []rune{0x21, 0x100, 0x400, 0x4e00, 0x10000}[r.intn(5)]
		step := 3
		if base == 0x21 {
			step = 0 // ASCII: 500 ranges cannot be disjoint, overlap them
		}
		for i := 0; i < 500; i++ {
			lo := base + rune(i*step)
			if step == 0 {
				lo = base + rune(r.intn(90))
			}
			hi := lo + rune(r.intn(2))
			for _, c := range []rune{lo, hi} {
				if strings.ContainsRune(`\]^-[`, c) {
					sb.WriteByte('\\')
				}
				sb.WriteRune(c)
				if c == lo {
					sb.WriteByte('-')
				}
			}
		}
		sb.WriteString("]")
		return sb.String() + r.pick([]string{"", "+", "*", "{2}", "+$"}), "class-500"
	case 10:
		p := c07Base(r, pg)
		if len(p) > 1 {
			p = p[:1+r.intn(len(p)-1)]
		}
		return p, "truncate"
	case 11:
		n := 1 + r.intn(20)
		b := make([]byte, n)
		for i := range b {
			if r.chance(60) {
				b[i] = c07HostileBytes[r.intn(len(c07HostileBytes))][0]
			} else {
				b[i] = byte(r.intn(256))
			}
		}
		return string(b), "random-bytes"
	case 12:
		esc := []string{`\p{`, `\x{`, `\Q`, `\E`, `\8`, `\z`, `\C`, `(?P<`, `(?P=n)`, `(?<n>a)`, `(?#c)`, `(?=a)`, `(?!a)`, `(?<=a)`, `\p{Greek}`, `\P{^Greek}`, `\x{110000}`, `\x{FFFFFFFFF}`, `\pZ`, `\1`, `\k<n>`, `\G`, `\X`, `\R`, `[[:foo:]]`, `[a-\d]`, `[z-a]`, `\`, `\c`, `\_`}
		p := c07Base(r, pg)
		for n := 1 + r.intn(3); n > 0; n-- {
			p = insertAt(p, r.pick(esc))
		}
		return p, "escape-soup"
	case 13:
		fl := []string{"(?i-s:", "(?mmm)", "(?U)", "(?z)", "(?i", "(?-)", "(?i-i)", "(?s-m:", "(?:", "(?P<n>", "(?P<n>a)(?P<n>b)", "(?i)(?-i)", "(?sU)", "(?m:^)(?s:.)"}
		return r.pick(fl) + c07Base(r, pg) + r.pick([]string{"", ")", "))"}), "flags"
	case 14:
		return r.pick([]string{`(?:$)*`, `\b+`, `(?:^*)+`, `(|)+`, `(a*)*{2}`, `a***`, `x{0}{0}`, `(?:(?:a{0,2}){0,2}){0,3}`, `(?:\b|\B)*a`, `(?:^|$|\b)+`, `(a?)*?b`, `(?:a*?)*?`, `(a|b*)*?c`, `(?:)*`, `(?:)+x`, `()*()+`, `(?:a{0})*`, `\B*\b*`, `(?m:^$)*x`, `((a*)*)*`, `(a*|b*)*`, `(?:a??)*`, `^*`, `$+^+`}) +
			r.pick([]string{"", "$", "b", "|", "(c)"}), "empty-loops"
	default:
		a, b := c07Base(r, pg), c07Base(r, pg)
		ca, cb := r.intn(len(a)+1), r.intn(len(b)+1)
		return a[:ca] + b[cb:], "splice"
	}
}

// ---------------------------------------------------------------------------
// Haystacks.
// ---------------------------------------------------------------------------

var c07BigLens = []int{127, 128, 129, 255, 256, 257, 1023, 1024, 1025, 4095, 4096, 4097}

const c07MaxLen = 4097

type c07hay struct {
	shape string
	data  []byte
}

func c07Special(kind int, n int) (string, []byte) {
	b := make([]byte, n)
	switch kind % 4 {
	case 0:
		for i := range b {
			b[i] = 0xff
		}
		return "ff", b
	case 1:
		return "00", b
	case 2:
		for i := range b {
			if i%2 == 0 {
				b[i] = byte('a' + i%26)
			} else {
				b[i] = 0x80 | byte(i*7)&0x7f
			}
		}
		return "alt", b
	default:
		src := []byte("aé1世 😀b_\n")
		for i := range b {
			b[i] = src[i%len(src)]
		}
		return "utf", b
	}
}

// fit cuts or pads d to exactly n bytes.
func c07Fit(r *rng, d []byte, n int, pad func(int) []byte) []byte {
	if len(d) >= n {
		switch r.intn(3) {
		case 0:
			return append([]byte(nil), d[:n]...)
		case 1:
			return append([]byte(nil), d[len(d)-n:]...)
		default:
			o := (len(d) - n) / 2
			return append([]byte(nil), d[o:o+n]...)
		}
	}
	p := pad(n - len(d))[:n-len(d)]
	switch r.intn(3) {
	case 0:
		return concatBytes(d, p)
	case 1:
		return concatBytes(p, d)
	default:
		k := len(p) / 2
		return concatBytes(p[:k], d, p[k:])
	}
}

// c07Hays: the haystacks of pattern p (a function of (seed, p.idx) only).
func c07Hays(pl *c07plan, p *c07pat) []c07hay {
	r := c07Rng(pl.seed, p.idx).fork(9)
	re, err := syntax.Parse(p.pat, syntax.Perl)
	var hg *hayGen
	if err == nil {
		hg = newHayGen(r.fork(1), re)
	} else {
		re, _ = syntax.Parse("a", syntax.Perl)
		hg = newHayGen(r.fork(1), re)
		seen := map[byte]bool{}
		for i := 0; i < len(p.pat) && len(hg.alpha) < 40; i++ {
			if !seen[p.pat[i]] {
				seen[p.pat[i]] = true
				hg.alpha = append(hg.alpha, []byte{p.pat[i]})
			}
		}
	}
	pad := func(n int) []byte { return repeatNoise(hg, n) }
	var lens []int
	if p.hostile {
		lens = []int{0, 1, 2, 15, 16, 17, 33, 64, 129}
		if pl.thorough {
			lens = append(lens, 31, 32, 63, 65, 257, 1025)
		}
	} else {
		for l := 0; l <= 70; l++ {
			if pl.thorough || l <= 1 || (l+p.idx)%4 == 0 {
				lens = append(lens, l)
			}
		}
		if pl.thorough {
			lens = append(lens, c07BigLens...)
		} else {
			for j := 0; j < 3; j++ {
				lens = append(lens, c07BigLens[(p.idx*3+j*5)%12])
			}
		}
	}
	var out []c07hay
	if k := p.idx - len(curatedPatterns); p.src == "regress" && k >= 0 && k < len(c07Regress) {
		d, _ := hex.DecodeString(c07Regress[k].hayHex)
		out = append(out, c07hay{shape: "gen", data: d})
	}
	for k, l := range lens {
		g := hg.next(k + 1)
		if l > 200 && r.bool() { // a match-shaped piece at one edge of a long noise run
			g = hg.next(1)
		}
		out = append(out, c07hay{shape: "gen", data: c07Fit(r, g, l, pad)})
		if !p.hostile || k%3 == 0 {
			sh, d := c07Special(k+p.idx, l)
			out = append(out, c07hay{shape: sh, data: d})
		}
	}
	return out
}

// ---------------------------------------------------------------------------
// Guard pages.
// ---------------------------------------------------------------------------

type c07mem struct {
	all  []byte
	data []byte
	ps   int
}

func c07NewMem(maxLen int) (*c07mem, error) {
	ps := os.Getpagesize()
	pages := (maxLen + ps - 1) / ps
	if pages == 0 {
		pages = 1
	}
	all, err := unix.Mmap(-1, 0, (pages+2)*ps, unix.PROT_READ|unix.PROT_WRITE, unix.MAP_ANON|unix.MAP_PRIVATE)
	if err != nil {
		return nil, err
	}
	if err := unix.Mprotect(all[:ps], unix.PROT_NONE); err != nil {
		return nil, err
	}
	if err := unix.Mprotect(all[(pages+1)*ps:], unix.PROT_NONE); err != nil {
		return nil, err
	}
	return &c07mem{all: all, data: all[ps : (pages+1)*ps : (pages+1)*ps], ps: ps}, nil
}

func (m *c07mem) writable() {
	if err := unix.Mprotect(m.data, unix.PROT_READ|unix.PROT_WRITE); err != nil {
		fatal("c07: mprotect rw: %v", err)
	}
}

func (m *c07mem) readonly() {
	if err := unix.Mprotect(m.data, unix.PROT_READ); err != nil {
		fatal("c07: mprotect ro: %v", err)
	}
}

// c07GuardEnd: the returned slice ends exactly where the trailing PROT_NONE page starts; the
// bytes before it are poison; the data pages are read-only on return.
func (m *c07mem) c07GuardEnd(h []byte) []byte {
	m.writable()
	n := len(m.data)
	lo := n - len(h) - 256
	if lo < 0 {
		lo = 0
	}
	for i := lo; i < n-len(h); i++ {
		m.data[i] = 0xA5
	}
	copy(m.data[n-len(h):], h)
	m.readonly()
	return m.data[n-len(h) : n : n]
}

// c07GuardStart: the returned slice starts right after the leading PROT_NONE page.
func (m *c07mem) c07GuardStart(h []byte) []byte {
	m.writable()
	copy(m.data, h)
	hi := len(h) + 256
	if hi > len(m.data) {
		hi = len(m.data)
	}
	for i := len(h); i < hi; i++ {
		m.data[i] = 0xA5
	}
	m.readonly()
	return m.data[:len(h):len(h)]
}

// classify a fault address
func (m *c07mem) where(addr uintptr) string {
	base := uintptr(unsafe.Pointer(&m.all[0]))
	switch {
	case addr >= base && addr < base+uintptr(m.ps):
		return "before-start"
	case addr >= base+uintptr(m.ps) && addr < base+uintptr(len(m.all)-m.ps):
		return "write-to-haystack"
	case addr >= base+uintptr(len(m.all)-m.ps) && addr < base+uintptr(len(m.all)):
		return "past-end"
	}
	return "elsewhere"
}

// ---------------------------------------------------------------------------
// Well-formedness predicates (coq/Wf.v: wf_span, wf_caps, wf_all, wf_split).
// ---------------------------------------------------------------------------

func c07WfSpan(n, s, e int) bool { return 0 <= s && s <= e && e <= n }

func c07WfCaps(n int, l []int) bool {
	if len(l) < 2 || len(l)%2 != 0 || !c07WfSpan(n, l[0], l[1]) {
		return false
	}
	for i := 2; i < len(l); i += 2 {
		s, e := l[i], l[i+1]
		if !((s == -1 && e == -1) || (l[0] <= s && s <= e && e <= l[1])) {
			return false
		}
	}
	return true
}

func c07WfAll(n int, ms [][]int) bool {
	prev := -1
	for _, m := range ms {
		if !c07WfCaps(n, m) || prev > m[0] || (m[0] == m[1] && prev >= m[0]) {
			return false
		}
		prev = m[1]
	}
	return true
}

func c07WfSplit(n, k int, l []int) bool {
	if k == 0 {
		return len(l) == 0
	}
	prev := 0
	for i := 0; i+1 < len(l); i += 2 {
		s, e := l[i], l[i+1]
		if s == -1 && e == -1 {
			continue
		}
		if !(prev <= s && s < e && e <= n) {
			return false
		}
		prev = e
	}
	if len(l)%2 != 0 || (k > 0 && len(l) > 2*k) || (n > 0 && len(l) == 0) {
		return false
	}
	return true
}

// ---------------------------------------------------------------------------
// Child: runs patterns [lo,hi).
// ---------------------------------------------------------------------------

type c07case struct {
	Kind  int    `json:"k"`
	Len   int    `json:"l"`
	Width int    `json:"w,omitempty"`
	Arg   int    `json:"a,omitempty"`
	Obs   []int  `json:"o"`
	Bad   bool   `json:"bad,omitempty"`
	From  string `json:"from"`
}

type c07patLine struct {
	PI         int            `json:"pi"`
	Evals      int            `json:"evals"`
	Hist       map[string]int `json:"hist"`
	Viol       []violation    `json:"viol,omitempty"`
	NViol      int            `json:"nviol"`
	Cases      []c07case      `json:"cases,omitempty"`
	CompileMs  float64        `json:"compile_ms"`
	SearchMs   float64        `json:"search_ms"`
	CompileErr string         `json:"compile_err,omitempty"`
	Strategy   string         `json:"strategy,omitempty"`
	Done       bool           `json:"done,omitempty"` // last line of the child
}

type c07ctx struct {
	pl      *c07plan
	p       *c07pat
	mem     *c07mem
	prog    []byte
	line    *c07patLine
	re      *coregex.Regex
	reL     *coregex.Regex
	eng     *meta.Engine
	ng      int // NumSubexp()+1
	hi      int // haystack index
	hay     *c07hay
	place   string
	b       []byte
	s       string
	api     string
	apiIdx  int
	skip    map[string]bool
	only    string
	perKind map[string]int
	ncase   int
	rcSfx   string // qualifies the RC label (out-of-range offsets)
}

func (c *c07ctx) setProgress(hcode, api int) {
	if c.prog == nil {
		return
	}
	atomic.StoreInt64((*int64)(unsafe.Pointer(&c.prog[0])), int64(c.p.idx))
	atomic.StoreInt64((*int64)(unsafe.Pointer(&c.prog[8])), int64(hcode))
	atomic.StoreInt64((*int64)(unsafe.Pointer(&c.prog[16])), int64(api))
	atomic.AddInt64((*int64)(unsafe.Pointer(&c.prog[24])), 1)
}

func c07PatText(p string) string {
	if utf8.ValidString(p) && !strings.ContainsAny(p, "\x00\n") && len(p) <= 200 {
		return p
	}
	if len(p) > 120 {
		return fmt.Sprintf("hex:%s..(%d bytes, sha %s)", hex.EncodeToString([]byte(p[:60])), len(p), sigHash(p)[:10])
	}
	return "hex:" + hex.EncodeToString([]byte(p))
}

func c07Trunc(s string, n int) string {
	if len(s) > n {
		return s[:n] + "…"
	}
	return s
}

func (c *c07ctx) hayText() string {
	if c.hay == nil {
		return "-"
	}
	return fmt.Sprintf("len=%d/%s/%s/%s", len(c.hay.data), c.hay.shape, c.place, sigHash(string(c.hay.data))[:8])
}

// apiBase strips the parameters: "FindAllIndex/n=-1" -> "FindAllIndex"
func c07ApiBase(a string) string {
	if i := strings.IndexByte(a, '/'); i >= 0 {
		return a[:i]
	}
	return a
}

func (c *c07ctx) bad(kind, got string) {
	c.line.NViol++
	pk := kind + "\x00" + c07ApiBase(c.api) + c.rcSfx
	c.perKind[pk]++
	if c.perKind[pk] > 2 || len(c.line.Viol) >= 12 {
		// still counted (NViol); the parent keeps totals
		c.line.Hist["suppressed-duplicate-violation"]++
		return
	}
	d := map[string]any{"pattern": c07PatText(c.p.pat), "source": c.p.src, "api": c.api, "pattern_index": c.p.idx}
	if c.hay != nil {
		d["haystack_len"] = len(c.hay.data)
		d["haystack_shape"] = c.hay.shape
		d["placement"] = c.place
		d["haystack_index"] = c.hi
		if len(c.hay.data) <= 96 {
			d["haystack_hex"] = hex.EncodeToString(c.hay.data)
		}
	}
	if c.line.Strategy != "" {
		d["strategy"] = c.line.Strategy
	}
	c.line.Viol = append(c.line.Viol, violation{
		Kind: kind, Case: c.p.idx, Detail: d,
		Sig:      fmt.Sprintf("%s api=%s pat=%s hay=%s got=%s", kind, c.api, c07PatText(c.p.pat), c.hayText(), c07Trunc(got, 80)),
		RC:       kind + "/" + c07ApiBase(c.api) + c.rcSfx,
		Expected: "normal return, well-formed value", Got: c07Trunc(got, 400),
	})
}

// sample an observed integer result for the Coq case file
func (c *c07ctx) sampleCase(kind, n, width, arg int, obs []int, bad bool) {
	if len(obs) > 240 {
		return
	}
	if !bad {
		h := uint64(c.p.idx)*1315423911 ^ uint64(c.hi)*2654435761 ^ uint64(c.apiIdx)*40503
		h ^= h >> 13
		if h%23 != 0 || c.ncase >= 6 {
			return
		}
		c.ncase++
	} else if len(c.line.Cases) >= 10 {
		return
	}
	c.line.Cases = append(c.line.Cases, c07case{Kind: kind, Len: n, Width: width, Arg: arg, Obs: append([]int{}, obs...), Bad: bad,
		From: fmt.Sprintf("%s pat=%s hay=%s", c.api, c07Trunc(c07PatText(c.p.pat), 60), c.hayText())})
}

func (c *c07ctx) span(loc []int, n int) {
	if loc == nil {
		return
	}
	ok := len(loc) == 2 && c07WfSpan(n, loc[0], loc[1])
	if !ok {
		c.bad("wf-span", fmt.Sprint(loc))
	}
	if len(loc) == 2 {
		c.sampleCase(0, n, 0, 0, loc, !ok)
	}
}

func (c *c07ctx) caps(loc []int, n int, ng int) {
	if loc == nil {
		return
	}
	ok := c07WfCaps(n, loc)
	if !ok {
		c.bad("wf-caps", fmt.Sprint(loc))
	} else if ng > 0 && len(loc) != 2*ng {
		c.bad("wf-ngroups", fmt.Sprintf("%d entries, NumSubexp()+1 = %d", len(loc), ng))
	}
	c.sampleCase(1, n, 0, 0, loc, !ok)
}

// all: width = entries per element (2 or 2*ng)
func (c *c07ctx) all(ms [][]int, n int, lim int, width int) {
	if lim == 0 && len(ms) != 0 {
		c.bad("wf-all-n0", fmt.Sprint(ms))
	}
	if lim > 0 && len(ms) > lim {
		c.bad("wf-all-limit", fmt.Sprintf("%d matches for n=%d", len(ms), lim))
	}
	ok := c07WfAll(n, ms)
	uniform := true
	for _, m := range ms {
		if len(m) != width {
			uniform = false
		}
	}
	if !ok {
		c.bad("wf-all", c07FmtAll(ms))
	} else if !uniform {
		c.bad("wf-ngroups", fmt.Sprintf("element widths differ from %d: %s", width, c07FmtAll(ms)))
	}
	if uniform && len(ms) > 0 {
		flat := make([]int, 0, len(ms)*width)
		for _, m := range ms {
			flat = append(flat, m...)
		}
		c.sampleCase(2, n, width, 0, flat, !ok)
	}
}

func c07FmtAll(ms [][]int) string {
	var sb strings.Builder
	for i, m := range ms {
		if i > 0 {
			sb.WriteByte(' ')
		}
		if sb.Len() > 300 {
			sb.WriteString("…")
			break
		}
		sb.WriteString(fmt.Sprint(m))
	}
	return sb.String()
}

func c07Pairs(ms [][2]int) [][]int {
	out := make([][]int, len(ms))
	for i := range ms {
		out[i] = []int{ms[i][0], ms[i][1]}
	}
	return out
}

// aliasB: res must be b[s:e]
func (c *c07ctx) aliasB(what string, res []byte, s, e int) {
	if res == nil {
		c.bad("alias", what+": nil slice for a reported match")
		return
	}
	if len(res) != e-s {
		c.bad("alias", fmt.Sprintf("%s: len %d for span [%d,%d]", what, len(res), s, e))
		return
	}
	if len(res) > 0 && len(c.b) > 0 {
		off := int(uintptr(unsafe.Pointer(&res[0])) - uintptr(unsafe.Pointer(&c.b[0])))
		if off != s {
			c.bad("alias", fmt.Sprintf("%s: &res[0]-&b[0] = %d for span [%d,%d]", what, off, s, e))
		}
	}
}

// aliasS: strings are immutable, so sharing memory is not observable; the value must be the
// reported substring
func (c *c07ctx) aliasS(what string, res string, s, e int) {
	if len(res) != e-s {
		c.bad("alias", fmt.Sprintf("%s: len %d for span [%d,%d]", what, len(res), s, e))
		return
	}
	if res != c.s[s:e] {
		c.bad("alias", fmt.Sprintf("%s: value differs from s[%d:%d]", what, s, e))
	}
}

// offset of a piece inside c.s, (-1,-1) for an empty piece
func (c *c07ctx) pieceOff(p string) (int, int, bool) {
	if len(p) == 0 {
		return -1, -1, true
	}
	if len(c.s) == 0 {
		return 0, 0, false
	}
	off := int(uintptr(unsafe.Pointer(unsafe.StringData(p))) - uintptr(unsafe.Pointer(unsafe.StringData(c.s))))
	if off < 0 || off+len(p) > len(c.s) {
		return off, off + len(p), false
	}
	return off, off + len(p), true
}

type c07api struct {
	name    string
	hostile bool // also run for hostile patterns' extra haystacks (all are)
	f       func(c *c07ctx)
}

var c07Ns = []int{-1, 0, 1, 2}

var c07Core = map[string]bool{"Match": true, "FindIndex": true, "FindSubmatchIndex": true, "FindAllIndex/n=-1": true,
	"ReplaceAll": true, "Longest:FindIndex": true, "meta.FindIndices": true, "FindAllSubmatchIndex/n=-1": true}

const c07Templ = "<$1|${0}|$x|$$>"

// readerLen: the Reader APIs decode runes and re-encode them (invalid bytes become U+FFFD)
func c07ReaderLen(b []byte) int { return len(string([]rune(string(b)))) }

func c07APIs() []c07api {
	var as []c07api
	add := func(name string, f func(c *c07ctx)) { as = append(as, c07api{name: name, f: f}) }

	for _, mode := range []string{"", "Longest:"} {
		mode := mode
		rx := func(c *c07ctx) *coregex.Regex {
			if mode == "" {
				return c.re
			}
			return c.reL
		}
		add(mode+"Match", func(c *c07ctx) {
			m := rx(c).Match(c.b)
			if m != (rx(c).FindIndex(c.b) != nil) {
				c.line.Hist["note:Match-vs-FindIndex-disagree"]++
			}
		})
		add(mode+"MatchString", func(c *c07ctx) { rx(c).MatchString(c.s) })
		add(mode+"FindIndex", func(c *c07ctx) { c.span(rx(c).FindIndex(c.b), len(c.b)) })
		add(mode+"FindStringIndex", func(c *c07ctx) { c.span(rx(c).FindStringIndex(c.s), len(c.b)) })
		add(mode+"Find", func(c *c07ctx) {
			r := rx(c)
			res := r.Find(c.b)
			loc := r.FindIndex(c.b)
			if (res == nil) != (loc == nil) {
				c.bad("alias", fmt.Sprintf("Find nil=%v but FindIndex=%v", res == nil, loc))
			} else if loc != nil && len(loc) == 2 && c07WfSpan(len(c.b), loc[0], loc[1]) {
				c.aliasB("Find", res, loc[0], loc[1])
			}
		})
		add(mode+"FindString", func(c *c07ctx) {
			r := rx(c)
			res := r.FindString(c.s)
			loc := r.FindStringIndex(c.s)
			if loc == nil {
				if res != "" {
					c.bad("alias", fmt.Sprintf("FindString=%q but FindStringIndex=nil", c07Trunc(res, 40)))
				}
			} else if len(loc) == 2 && c07WfSpan(len(c.b), loc[0], loc[1]) {
				c.aliasS("FindString", res, loc[0], loc[1])
			}
		})
		add(mode+"FindSubmatchIndex", func(c *c07ctx) { c.caps(rx(c).FindSubmatchIndex(c.b), len(c.b), c.ng) })
		add(mode+"FindStringSubmatchIndex", func(c *c07ctx) { c.caps(rx(c).FindStringSubmatchIndex(c.s), len(c.b), c.ng) })
		add(mode+"FindSubmatch", func(c *c07ctx) {
			r := rx(c)
			res := r.FindSubmatch(c.b)
			loc := r.FindSubmatchIndex(c.b)
			if (res == nil) != (loc == nil) {
				c.bad("alias", fmt.Sprintf("FindSubmatch nil=%v but FindSubmatchIndex=%v", res == nil, loc))
				return
			}
			if loc == nil || !c07WfCaps(len(c.b), loc) {
				return
			}
			if len(res)*2 != len(loc) {
				c.bad("wf-ngroups", fmt.Sprintf("FindSubmatch has %d groups, FindSubmatchIndex %d entries", len(res), len(loc)))
				return
			}
			for i := range res {
				if loc[2*i] < 0 {
					if res[i] != nil {
						c.bad("alias", fmt.Sprintf("FindSubmatch group %d non-nil for (-1,-1)", i))
					}
					continue
				}
				c.aliasB(fmt.Sprintf("FindSubmatch group %d", i), res[i], loc[2*i], loc[2*i+1])
			}
		})
		add(mode+"FindStringSubmatch", func(c *c07ctx) {
			r := rx(c)
			res := r.FindStringSubmatch(c.s)
			loc := r.FindStringSubmatchIndex(c.s)
			if (res == nil) != (loc == nil) {
				c.bad("alias", fmt.Sprintf("FindStringSubmatch nil=%v but index=%v", res == nil, loc))
				return
			}
			if loc == nil || !c07WfCaps(len(c.b), loc) || len(res)*2 != len(loc) {
				return
			}
			for i := range res {
				if loc[2*i] >= 0 {
					c.aliasS(fmt.Sprintf("FindStringSubmatch group %d", i), res[i], loc[2*i], loc[2*i+1])
				} else if res[i] != "" {
					c.bad("alias", fmt.Sprintf("FindStringSubmatch group %d = %q for (-1,-1)", i, c07Trunc(res[i], 30)))
				}
			}
		})
		for _, n := range c07Ns {
			n := n
			sfx := fmt.Sprintf("/n=%d", n)
			add(mode+"FindAllIndex"+sfx, func(c *c07ctx) { c.all(rx(c).FindAllIndex(c.b, n), len(c.b), n, 2) })
			add(mode+"FindAllSubmatchIndex"+sfx, func(c *c07ctx) { c.all(rx(c).FindAllSubmatchIndex(c.b, n), len(c.b), n, 2*c.ng) })
			if mode != "" {
				continue
			}
			add("FindAllStringIndex"+sfx, func(c *c07ctx) { c.all(c.re.FindAllStringIndex(c.s, n), len(c.b), n, 2) })
			add("FindAllStringSubmatchIndex"+sfx, func(c *c07ctx) {
				c.all(c.re.FindAllStringSubmatchIndex(c.s, n), len(c.b), n, 2*c.ng)
			})
			add("FindAll"+sfx, func(c *c07ctx) {
				res := c.re.FindAll(c.b, n)
				locs := c.re.FindAllIndex(c.b, n)
				if len(res) != len(locs) {
					c.bad("alias", fmt.Sprintf("FindAll %d elements, FindAllIndex %d", len(res), len(locs)))
					return
				}
				for i := range res {
					if len(locs[i]) == 2 && c07WfSpan(len(c.b), locs[i][0], locs[i][1]) {
						c.aliasB(fmt.Sprintf("FindAll[%d]", i), res[i], locs[i][0], locs[i][1])
					}
				}
			})
			add("FindAllString"+sfx, func(c *c07ctx) {
				res := c.re.FindAllString(c.s, n)
				locs := c.re.FindAllStringIndex(c.s, n)
				if len(res) != len(locs) {
					c.bad("alias", fmt.Sprintf("FindAllString %d elements, index %d", len(res), len(locs)))
					return
				}
				for i := range res {
					if len(locs[i]) == 2 && c07WfSpan(len(c.b), locs[i][0], locs[i][1]) {
						c.aliasS(fmt.Sprintf("FindAllString[%d]", i), res[i], locs[i][0], locs[i][1])
					}
				}
			})
			add("FindAllSubmatch"+sfx, func(c *c07ctx) {
				res := c.re.FindAllSubmatch(c.b, n)
				locs := c.re.FindAllSubmatchIndex(c.b, n)
				if len(res) != len(locs) {
					c.bad("alias", fmt.Sprintf("FindAllSubmatch %d elements, index %d", len(res), len(locs)))
					return
				}
				for i := range res {
					if !c07WfCaps(len(c.b), locs[i]) || len(res[i])*2 != len(locs[i]) {
						continue
					}
					for g := range res[i] {
						if locs[i][2*g] >= 0 {
							c.aliasB(fmt.Sprintf("FindAllSubmatch[%d][%d]", i, g), res[i][g], locs[i][2*g], locs[i][2*g+1])
						} else if res[i][g] != nil {
							c.bad("alias", fmt.Sprintf("FindAllSubmatch[%d][%d] non-nil for (-1,-1)", i, g))
						}
					}
				}
			})
			add("FindAllStringSubmatch"+sfx, func(c *c07ctx) {
				res := c.re.FindAllStringSubmatch(c.s, n)
				locs := c.re.FindAllStringSubmatchIndex(c.s, n)
				if len(res) != len(locs) {
					c.bad("alias", fmt.Sprintf("FindAllStringSubmatch %d elements, index %d", len(res), len(locs)))
					return
				}
				for i := range res {
					if !c07WfCaps(len(c.b), locs[i]) || len(res[i])*2 != len(locs[i]) {
						continue
					}
					for g := range res[i] {
						if locs[i][2*g] >= 0 {
							c.aliasS(fmt.Sprintf("FindAllStringSubmatch[%d][%d]", i, g), res[i][g], locs[i][2*g], locs[i][2*g+1])
						}
					}
				}
			})
			add("Count"+sfx, func(c *c07ctx) {
				k := c.re.Count(c.b, n)
				if k < 0 || k > len(c.b)+1 || (n >= 0 && k > n) {
					c.bad("wf-count", fmt.Sprintf("Count(n=%d) = %d on %d bytes", n, k, len(c.b)))
				}
			})
			add("CountString"+sfx, func(c *c07ctx) {
				k := c.re.CountString(c.s, n)
				if k < 0 || k > len(c.b)+1 || (n >= 0 && k > n) {
					c.bad("wf-count", fmt.Sprintf("CountString(n=%d) = %d on %d bytes", n, k, len(c.b)))
				}
			})
			add("AppendAllIndex"+sfx, func(c *c07ctx) {
				c.all(c07Pairs(c.re.AppendAllIndex(nil, c.b, n)), len(c.b), n, 2)
				dst := make([][2]int, 1, 4)
				dst[0] = [2]int{7, 7}
				got := c.re.AppendAllIndex(dst, c.b, n)
				if len(got) < 1 || got[0] != [2]int{7, 7} {
					c.line.Hist["note:AppendAllIndex-drops-dst"]++
				} else {
					c.all(c07Pairs(got[1:]), len(c.b), n, 2)
				}
			})
			add("AppendAllStringIndex"+sfx, func(c *c07ctx) {
				c.all(c07Pairs(c.re.AppendAllStringIndex(nil, c.s, n)), len(c.b), n, 2)
			})
			add("Split"+sfx, func(c *c07ctx) {
				ps := c.re.Split(c.s, n)
				offs := make([]int, 0, 2*len(ps))
				inside := true
				for _, p := range ps {
					s, e, ok := c.pieceOff(p)
					if !ok {
						inside = false
					}
					offs = append(offs, s, e)
				}
				ok := inside && c07WfSplit(len(c.b), n, offs)
				if n == 0 && ps != nil && len(ps) == 0 {
					c.line.Hist["note:Split-n0-non-nil"]++
				}
				if !ok {
					c.bad("wf-split", fmt.Sprintf("n=%d pieces(offsets)=%v", n, offs))
				}
				c.sampleCase(3, len(c.b), 0, n, offs, !ok)
			})
		}
	}

	add("MatchReader", func(c *c07ctx) { c.re.MatchReader(bytes.NewReader(c.b)) })
	add("FindReaderIndex", func(c *c07ctx) { c.span(c.re.FindReaderIndex(bytes.NewReader(c.b)), c07ReaderLen(c.b)) })
	add("FindReaderSubmatchIndex", func(c *c07ctx) {
		c.caps(c.re.FindReaderSubmatchIndex(bytes.NewReader(c.b)), c07ReaderLen(c.b), c.ng)
	})
	add("AllIndex", func(c *c07ctx) {
		var ms [][]int
		for m := range c.re.AllIndex(c.b) {
			ms = append(ms, []int{m[0], m[1]})
			if len(ms) > len(c.b)+2 {
				c.bad("wf-all", "AllIndex yields more than len+2 matches")
				break
			}
		}
		c.all(ms, len(c.b), -1, 2)
	})
	add("AllIndex/break", func(c *c07ctx) {
		k := 0
		for m := range c.re.AllIndex(c.b) {
			c.span([]int{m[0], m[1]}, len(c.b))
			k++
			if k == 2 {
				break
			}
		}
	})
	add("AllStringIndex", func(c *c07ctx) {
		var ms [][]int
		for m := range c.re.AllStringIndex(c.s) {
			ms = append(ms, []int{m[0], m[1]})
			if len(ms) > len(c.b)+2 {
				break
			}
		}
		c.all(ms, len(c.b), -1, 2)
	})
	add("All", func(c *c07ctx) {
		// every yielded slice must lie inside b; whether the iterator enumerates the same
		// matches as FindAllIndex is another property's business (noted only)
		locs := c.re.FindAllIndex(c.b, -1)
		i, differs := 0, false
		for m := range c.re.All(c.b) {
			if m == nil {
				c.bad("alias", fmt.Sprintf("All[%d] is nil", i))
			} else if len(m) > 0 && len(c.b) > 0 {
				off := int(uintptr(unsafe.Pointer(&m[0])) - uintptr(unsafe.Pointer(&c.b[0])))
				if off < 0 || off+len(m) > len(c.b) {
					c.bad("alias", fmt.Sprintf("All[%d]: offset %d len %d outside the haystack of %d bytes", i, off, len(m), len(c.b)))
				} else if i >= len(locs) || len(locs[i]) != 2 || locs[i][0] != off || locs[i][1] != off+len(m) {
					differs = true
				}
			}
			i++
			if i > len(c.b)+2 {
				break
			}
		}
		if i != len(locs) || differs {
			c.line.Hist["note:All-vs-FindAllIndex-differs"]++
		}
	})
	add("All/break", func(c *c07ctx) {
		for range c.re.All(c.b) {
			break
		}
	})
	add("AllString", func(c *c07ctx) {
		locs := c.re.FindAllStringIndex(c.s, -1)
		i, differs := 0, false
		for m := range c.re.AllString(c.s) {
			if len(m) > len(c.s) {
				c.bad("alias", fmt.Sprintf("AllString[%d]: %d bytes from an input of %d", i, len(m), len(c.s)))
			} else if i >= len(locs) || len(locs[i]) != 2 || !c07WfSpan(len(c.b), locs[i][0], locs[i][1]) || m != c.s[locs[i][0]:locs[i][1]] {
				differs = true
			}
			i++
			if i > len(c.b)+2 {
				break
			}
		}
		if i != len(locs) || differs {
			c.line.Hist["note:AllString-vs-FindAllStringIndex-differs"]++
		}
	})
	add("ReplaceAll", func(c *c07ctx) { c.re.ReplaceAll(c.b, []byte(c07Templ)) })
	add("ReplaceAllString", func(c *c07ctx) { c.re.ReplaceAllString(c.s, c07Templ) })
	add("ReplaceAllLiteral", func(c *c07ctx) { c.re.ReplaceAllLiteral(c.b, []byte("$1")) })
	add("ReplaceAllLiteralString", func(c *c07ctx) { c.re.ReplaceAllLiteralString(c.s, "$1") })
	add("ReplaceAllFunc", func(c *c07ctx) {
		out := c.re.ReplaceAllFunc(c.b, func(m []byte) []byte {
			if len(m) > 0 && len(c.b) > 0 {
				off := int(uintptr(unsafe.Pointer(&m[0])) - uintptr(unsafe.Pointer(&c.b[0])))
				if off < 0 || off+len(m) > len(c.b) {
					c.bad("alias", fmt.Sprintf("ReplaceAllFunc callback argument at offset %d len %d", off, len(m)))
				}
			}
			return m
		})
		if !bytes.Equal(out, c.b) {
			c.bad("wf-replace-identity", fmt.Sprintf("ReplaceAllFunc(identity) changed the input: %d -> %d bytes", len(c.b), len(out)))
		}
	})
	add("ReplaceAllStringFunc", func(c *c07ctx) {
		out := c.re.ReplaceAllStringFunc(c.s, func(m string) string { return m })
		if out != c.s {
			c.bad("wf-replace-identity", fmt.Sprintf("ReplaceAllStringFunc(identity) changed the input: %d -> %d bytes", len(c.s), len(out)))
		}
	})
	add("Longest:ReplaceAll", func(c *c07ctx) { c.reL.ReplaceAll(c.b, []byte(c07Templ)) })
	add("Expand", func(c *c07ctx) {
		loc := c.re.FindSubmatchIndex(c.b)
		if loc != nil && c07WfCaps(len(c.b), loc) {
			c.re.Expand(nil, []byte(c07Templ), c.b, loc)
			c.re.ExpandString(nil, c07Templ, c.s, loc)
		}
	})

	// meta.Engine
	add("meta.IsMatch", func(c *c07ctx) { c.eng.IsMatch(c.b) })
	add("meta.Find", func(c *c07ctx) {
		if m := c.eng.Find(c.b); m != nil {
			c.span([]int{m.Start(), m.End()}, len(c.b))
			if c07WfSpan(len(c.b), m.Start(), m.End()) {
				c.aliasB("meta.Find.Bytes", m.Bytes(), m.Start(), m.End())
			}
		}
	})
	add("meta.FindIndices", func(c *c07ctx) {
		if s, e, ok := c.eng.FindIndices(c.b); ok {
			c.span([]int{s, e}, len(c.b))
		}
	})
	add("meta.FindSubmatch", func(c *c07ctx) {
		if m := c.eng.FindSubmatch(c.b); m != nil {
			c.caps(c07Flat(m), len(c.b), c.ng)
		}
	})
	for _, n := range c07Ns {
		n := n
		sfx := fmt.Sprintf("/n=%d", n)
		add("meta.FindAllIndicesStreaming"+sfx, func(c *c07ctx) {
			lim := n
			if n == 0 {
				lim = -1 // engine level: n <= 0 means "all"
			}
			c.all(c07Pairs(c.eng.FindAllIndicesStreaming(c.b, n, nil)), len(c.b), lim, 2)
		})
		add("meta.Count"+sfx, func(c *c07ctx) {
			k := c.eng.Count(c.b, n)
			if k < 0 || k > len(c.b)+1 || (n > 0 && k > n) {
				c.bad("wf-count", fmt.Sprintf("meta.Count(n=%d) = %d on %d bytes", n, k, len(c.b)))
			}
		})
		add("meta.FindAllSubmatch"+sfx, func(c *c07ctx) {
			var ms [][]int
			for _, m := range c.eng.FindAllSubmatch(c.b, n) {
				ms = append(ms, c07Flat(m))
			}
			lim := n
			if n == 0 {
				lim = -1
			}
			c.all(ms, len(c.b), lim, 2*c.ng)
		})
	}
	for _, at := range []string{"0", "1", "len-1", "len", "len+1", "-1"} {
		at := at
		pos := func(c *c07ctx) int {
			switch at {
			case "0":
				return 0
			case "1":
				return 1
			case "len-1":
				return len(c.b) - 1
			case "len":
				return len(c.b)
			case "len+1":
				return len(c.b) + 1
			}
			return -1
		}
		// out-of-range offsets (and duplicates of other labels on very short haystacks) are
		// tried on every third haystack only; the label of the range goes into the RC
		prep := func(c *c07ctx) (int, bool) {
			p := pos(c)
			switch {
			case p < 0:
				c.rcSfx = "(at<0)"
			case p > len(c.b):
				c.rcSfx = "(at>len)"
			}
			if (at == "1" || at == "len-1") && len(c.b) == 0 {
				return p, false
			}
			if c.rcSfx != "" && c.hi%3 != 0 {
				return p, false
			}
			return p, true
		}
		add("meta.FindAt/at="+at, func(c *c07ctx) {
			p, run := prep(c)
			if !run {
				return
			}
			if m := c.eng.FindAt(c.b, p); m != nil {
				c.span([]int{m.Start(), m.End()}, len(c.b))
				if c.rcSfx != "" {
					c.bad("wf-at", fmt.Sprintf("match [%d,%d] for at=%d outside [0,%d]", m.Start(), m.End(), p, len(c.b)))
				} else if m.Start() < p {
					c.bad("wf-at", fmt.Sprintf("match [%d,%d] starts before at=%d", m.Start(), m.End(), p))
				}
			}
		})
		add("meta.FindIndicesAt/at="+at, func(c *c07ctx) {
			p, run := prep(c)
			if !run {
				return
			}
			if s, e, ok := c.eng.FindIndicesAt(c.b, p); ok {
				c.span([]int{s, e}, len(c.b))
				if c.rcSfx != "" {
					c.bad("wf-at", fmt.Sprintf("match [%d,%d] for at=%d outside [0,%d]", s, e, p, len(c.b)))
				} else if s < p {
					c.bad("wf-at", fmt.Sprintf("match [%d,%d] starts before at=%d", s, e, p))
				}
			}
		})
		add("meta.FindSubmatchAt/at="+at, func(c *c07ctx) {
			p, run := prep(c)
			if !run {
				return
			}
			if m := c.eng.FindSubmatchAt(c.b, p); m != nil {
				fl := c07Flat(m)
				c.caps(fl, len(c.b), c.ng)
				if c.rcSfx != "" {
					c.bad("wf-at", fmt.Sprintf("match %v for at=%d outside [0,%d]", fl, p, len(c.b)))
				} else if len(fl) >= 2 && fl[0] < p {
					c.bad("wf-at", fmt.Sprintf("match %v starts before at=%d", fl, p))
				}
			}
		})
	}
	return as
}

func c07Flat(m *meta.MatchWithCaptures) []int {
	n := m.NumCaptures()
	out := make([]int, 0, 2*n)
	for i := 0; i < n; i++ {
		g := m.GroupIndex(i)
		if len(g) == 2 {
			out = append(out, g[0], g[1])
		} else {
			out = append(out, -1, -1)
		}
	}
	return out
}

// faultAddr: the address of a memory fault turned into a panic by SetPanicOnFault
type c07addrErr interface{ Addr() uintptr }

func (c *c07ctx) call(idx int, a *c07api, hcode int) {
	c.api, c.apiIdx, c.rcSfx = a.name, idx, ""
	key := fmt.Sprintf("%d:%d:%d", c.p.idx, hcode, idx)
	if c.only != "" && c.only != key {
		return
	}
	if c.skip[key] || c.skip[fmt.Sprintf("%d:*:%d", c.p.idx, idx)] {
		c.line.Hist["skipped-after-failure"]++
		return
	}
	c.setProgress(hcode, idx)
	defer func() {
		if e := recover(); e != nil {
			msg := fmt.Sprint(e)
			if ae, ok := e.(c07addrErr); ok {
				c.bad("fault", fmt.Sprintf("%s: %s", c.mem.where(ae.Addr()), msg))
			} else {
				c.bad("panic", msg)
			}
		}
	}()
	a.f(c)
	c.line.Evals++
}

func c07CompileConfig() meta.Config {
	cfg := meta.DefaultConfig()
	cfg.MaxRecursionDepth = 1000
	return cfg
}

func (c *c07ctx) compile() (ok bool) {
	c.api, c.apiIdx, c.hay, c.hi = "Compile", -1, nil, -1
	key := fmt.Sprintf("%d:-1:-1", c.p.idx)
	if c.skip[key] {
		c.line.Hist["skipped-after-failure"]++
		return false
	}
	c.setProgress(-1, -1)
	defer func() {
		if e := recover(); e != nil {
			c.bad("panic", fmt.Sprint(e))
			ok = false
		}
	}()
	t0 := time.Now()
	re, err := coregex.Compile(c.p.pat)
	c.line.Evals++
	if err != nil {
		c.line.CompileErr = c07Trunc(err.Error(), 120)
		c.line.CompileMs = float64(time.Since(t0).Microseconds()) / 1000
		if re != nil {
			c.bad("compile-both", "Compile returned a value and an error")
		}
		if _, perr := syntax.Parse(c.p.pat, syntax.Perl); perr == nil {
			c.line.Hist["note:compile-error-where-syntax.Parse-accepts"]++
		}
		return false
	}
	if re == nil {
		c.bad("compile-nil", "Compile returned (nil, nil)")
		return false
	}
	c.re = re
	// second instance for the Longest mode (Longest mutates the engine), via Copy for the
	// valid corpus so that Copy is exercised
	c.api = "Copy"
	c.setProgress(-1, -1) // each compilation is its own watched step
	if c.p.hostile {
		c.reL, _ = coregex.Compile(c.p.pat)
	} else {
		c.reL = re.Copy()
	}
	if c.reL == nil {
		c.bad("copy-nil", "Copy returned nil")
		return false
	}
	c.api = "Longest"
	c.reL.Longest()
	c.api = "meta.CompileWithConfig"
	c.setProgress(-1, -1)
	eng, err := meta.CompileWithConfig(c.p.pat, c07CompileConfig())
	if err != nil || eng == nil {
		c.bad("compile-meta", fmt.Sprintf("coregex.Compile succeeded, meta.CompileWithConfig: %v", err))
		return false
	}
	c.eng = eng
	c.line.Evals += 3
	c.line.CompileMs = float64(time.Since(t0).Microseconds()) / 1000
	c.api = "NumSubexp"
	c.ng = re.NumSubexp() + 1
	if eng.NumCaptures() != c.ng {
		c.bad("wf-ngroups", fmt.Sprintf("NumSubexp()+1 = %d, engine NumCaptures = %d", c.ng, eng.NumCaptures()))
	}
	if names := re.SubexpNames(); len(names) != c.ng {
		c.bad("wf-ngroups", fmt.Sprintf("NumSubexp()+1 = %d, len(SubexpNames) = %d", c.ng, len(names)))
	}
	_ = re.String()
	re.LiteralPrefix()
	c.line.Strategy = eng.Strategy().String()
	return true
}

func c07RunPattern(c *c07ctx, apis []c07api) {
	c.line = &c07patLine{PI: c.p.idx, Hist: map[string]int{}}
	c.perKind = map[string]int{}
	c.ncase = 0
	c.re, c.reL, c.eng = nil, nil, nil
	if c.p.hostile {
		c.line.Hist["pattern:hostile:"+strings.TrimRight(c.p.src, "-0123456789")]++
	} else {
		c.line.Hist["pattern:valid:"+c.p.src]++
	}
	if !c.compile() {
		if c.line.CompileErr != "" {
			c.line.Hist["compile:error"]++
		}
		return
	}
	c.line.Hist["compile:ok"]++
	c.line.Hist["strategy:"+c.line.Strategy]++
	t0 := time.Now()
	hays := c07Hays(c.pl, c.p)
	for hi := range hays {
		h := &hays[hi]
		for pl := 0; pl < 2; pl++ {
			// generated contents: both placements; special contents alternate
			if h.shape != "gen" && (hi+c.p.idx)%2 != pl {
				continue
			}
			c.hay, c.hi = h, hi
			if pl == 0 {
				c.place = "end"
				c.b = c.mem.c07GuardEnd(h.data)
			} else {
				c.place = "start"
				c.b = c.mem.c07GuardStart(h.data)
			}
			c.s = ""
			if len(c.b) > 0 {
				c.s = unsafe.String(&c.b[0], len(c.b))
			}
			hcode := hi*2 + pl
			c.line.Hist[fmt.Sprintf("hay:%s:%s", h.shape, c.place)]++
			for ai := range apis {
				// long haystacks: the core calls plus a rotating third of the others
				if len(h.data) > 300 && !c.pl.thorough && !c07Core[apis[ai].name] && (ai+c.p.idx+hi)%3 != 0 {
					continue
				}
				c.call(ai, &apis[ai], hcode)
			}
			c.api = "(after all calls)"
			if !bytes.Equal(c.b, h.data) {
				c.bad("haystack-modified", "haystack bytes differ after the calls")
			}
		}
	}
	c.mem.writable()
	c.line.SearchMs = float64(time.Since(t0).Microseconds()) / 1000
}

func c07Child(args []string) int {
	fs := flag.NewFlagSet("c07-child", flag.ExitOnError)
	seed := fs.Uint64("seed", 1, "")
	tier := fs.String("tier", "quick", "")
	corpus := fs.String("corpus", "/verif/corpus/patterns_harvested.txt", "")
	nValid := fs.Int("valid", 0, "")
	nHostile := fs.Int("hostile", 0, "")
	lo := fs.Int("lo", 0, "")
	hi := fs.Int("hi", 0, "")
	skipArg := fs.String("skip", "", "comma separated pattern:haycode:api keys to skip")
	only := fs.String("only", "", "run only this pattern:haycode:api")
	progress := fs.String("progress", "", "")
	maxStack := fs.Int("maxstack", 256<<20, "")
	fs.Parse(args)

	debug.SetPanicOnFault(true)
	debug.SetMaxStack(*maxStack)
	pl := &c07plan{seed: *seed, thorough: *tier == "thorough", nValid: *nValid, nHostile: *nHostile, corpus: loadCorpus(*corpus)}
	mem, err := c07NewMem(c07MaxLen)
	if err != nil {
		fatal("c07-child: mmap: %v", err)
	}
	c := &c07ctx{pl: pl, mem: mem, skip: map[string]bool{}, only: *only}
	for _, k := range strings.Split(*skipArg, ",") {
		if k != "" {
			c.skip[k] = true
		}
	}
	if *progress != "" {
		f, err := os.OpenFile(*progress, os.O_RDWR, 0o644)
		if err != nil {
			fatal("c07-child: %v", err)
		}
		c.prog, err = unix.Mmap(int(f.Fd()), 0, 64, unix.PROT_READ|unix.PROT_WRITE, unix.MAP_SHARED)
		if err != nil {
			fatal("c07-child: mmap progress: %v", err)
		}
		f.Close()
	}
	out := bufio.NewWriterSize(os.Stdout, 1<<16)
	enc := json.NewEncoder(out)
	apis := c07APIs()
	for i := *lo; i < *hi; i++ {
		p := pl.pattern(i)
		c.p = &p
		if c.skip[fmt.Sprintf("%d:*:*", i)] {
			continue
		}
		c07RunPattern(c, apis)
		enc.Encode(c.line)
		out.Flush()
	}
	enc.Encode(c07patLine{PI: -1, Done: true})
	out.Flush()
	return 0
}

// ---------------------------------------------------------------------------
// Parent.
// ---------------------------------------------------------------------------

type c07batch struct {
	lo, hi   int
	lines    []c07patLine
	failures []violation
	notes    []string
	seconds  float64
	restarts int
}

type c07parent struct {
	pl        *c07plan
	exe       string
	corpus    string
	tier      string
	hangLimit time.Duration
	batchMax  time.Duration
	apis      []c07api
}

func (pp *c07parent) childArgs(lo, hi int, skip []string, only, prog string) []string {
	a := []string{"c07-child", "-seed", fmt.Sprint(pp.pl.seed), "-tier", pp.tier, "-corpus", pp.corpus,
		"-valid", fmt.Sprint(pp.pl.nValid), "-hostile", fmt.Sprint(pp.pl.nHostile),
		"-lo", fmt.Sprint(lo), "-hi", fmt.Sprint(hi), "-progress", prog}
	if len(skip) > 0 {
		a = append(a, "-skip", strings.Join(skip, ","))
	}
	if only != "" {
		a = append(a, "-only", only)
	}
	return a
}

type c07runResult struct {
	lines   []c07patLine
	done    bool
	timeout bool
	err     error
	stderr  string
	pi, hc  int
	api     int
}

// run one child and watch its progress word
func (pp *c07parent) run(lo, hi int, skip []string, only string, tag string) c07runResult {
	progFile := fmt.Sprintf(".c07-progress-%d-%s", os.Getpid(), tag)
	f, err := os.OpenFile(progFile, os.O_RDWR|os.O_CREATE|os.O_TRUNC, 0o644)
	if err != nil {
		fatal("c07: %v", err)
	}
	f.Truncate(64)
	prog, err := unix.Mmap(int(f.Fd()), 0, 64, unix.PROT_READ|unix.PROT_WRITE, unix.MAP_SHARED)
	f.Close()
	if err != nil {
		fatal("c07: mmap progress: %v", err)
	}
	defer func() { unix.Munmap(prog); os.Remove(progFile) }()
	atomic.StoreInt64((*int64)(unsafe.Pointer(&prog[0])), -1)

	cmd := exec.Command(pp.exe, pp.childArgs(lo, hi, skip, only, progFile)...)
	var stdout, stderr bytes.Buffer
	cmd.Stdout, cmd.Stderr = &stdout, &stderr
	if err := cmd.Start(); err != nil {
		fatal("c07: start child: %v", err)
	}
	exited := make(chan error, 1)
	go func() { exited <- cmd.Wait() }()
	res := c07runResult{}
	t0 := time.Now()
	// A hang is measured in CPU seconds the child consumed without advancing its progress word
	// (load on the machine does not count), with a wall-clock backstop of 20x for a child
	// that sleeps forever.
	lastTick, lastChange, lastCPU := int64(-1), time.Now(), 0.0
	tk := time.NewTicker(25 * time.Millisecond)
	defer tk.Stop()
loop:
	for {
		select {
		case res.err = <-exited:
			break loop
		case <-tk.C:
			t := atomic.LoadInt64((*int64)(unsafe.Pointer(&prog[24])))
			cpu := c07ChildCPU(cmd.Process.Pid)
			if t != lastTick {
				c07MaxMu.Lock()
				if d := cpu - lastCPU; d > c07MaxCallCPU {
					c07MaxCallCPU = d
				}
				c07MaxMu.Unlock()
				lastTick, lastChange, lastCPU = t, time.Now(), cpu
			} else if cpu-lastCPU > pp.hangLimit.Seconds() || time.Since(lastChange) > 20*pp.hangLimit || time.Since(t0) > pp.batchMax {
				res.timeout = true
				cmd.Process.Kill()
				res.err = <-exited
				break loop
			}
		}
	}
	res.pi = int(atomic.LoadInt64((*int64)(unsafe.Pointer(&prog[0]))))
	res.hc = int(atomic.LoadInt64((*int64)(unsafe.Pointer(&prog[8]))))
	res.api = int(atomic.LoadInt64((*int64)(unsafe.Pointer(&prog[16]))))
	res.stderr = stderr.String()
	sc := bufio.NewScanner(&stdout)
	sc.Buffer(make([]byte, 1<<20), 1<<27)
	for sc.Scan() {
		var l c07patLine
		if json.Unmarshal(sc.Bytes(), &l) != nil {
			continue
		}
		if l.Done {
			res.done = true
			continue
		}
		res.lines = append(res.lines, l)
	}
	return res
}

// largest CPU time one call (one progress step) of any child consumed, for the evidence
var c07MaxCallCPU float64
var c07MaxMu sync.Mutex

// c07ChildCPU: user+system CPU seconds of process pid (all threads), from /proc/<pid>/stat.
func c07ChildCPU(pid int) float64 {
	b, err := os.ReadFile(fmt.Sprintf("/proc/%d/stat", pid))
	if err != nil {
		return 0
	}
	i := bytes.LastIndexByte(b, ')')
	if i < 0 {
		return 0
	}
	f := strings.Fields(string(b[i+1:]))
	if len(f) < 13 {
		return 0
	}
	var ut, stt float64
	fmt.Sscan(f[11], &ut)
	fmt.Sscan(f[12], &stt)
	return (ut + stt) / 100
}

// describe the call (pattern, haystack, api) a progress word names
func (pp *c07parent) describe(pi, hc, api int) (sig string, rc string, detail map[string]any) {
	detail = map[string]any{"pattern_index": pi}
	if pi < 0 || pi >= pp.pl.total() {
		return fmt.Sprintf("child died before the first call (progress %d:%d:%d)", pi, hc, api), "startup", detail
	}
	p := pp.pl.pattern(pi)
	detail["pattern"] = c07PatText(p.pat)
	detail["source"] = p.src
	apiName := "Compile"
	hayTxt := "-"
	if api >= 0 && api < len(pp.apis) {
		apiName = pp.apis[api].name
	}
	if hc >= 0 {
		hays := c07Hays(pp.pl, &p)
		if hc/2 < len(hays) {
			h := hays[hc/2]
			place := "end"
			if hc%2 == 1 {
				place = "start"
			}
			hayTxt = fmt.Sprintf("len=%d/%s/%s/%s", len(h.data), h.shape, place, sigHash(string(h.data))[:8])
			detail["haystack_len"] = len(h.data)
			detail["haystack_shape"] = h.shape
			detail["placement"] = place
			if len(h.data) <= 96 {
				detail["haystack_hex"] = hex.EncodeToString(h.data)
			}
		}
	}
	detail["api"] = apiName
	return fmt.Sprintf("api=%s pat=%s hay=%s", apiName, c07PatText(p.pat), hayTxt), c07ApiBase(apiName), detail
}

func c07FirstLines(s string, n int) string {
	ls := strings.Split(s, "\n")
	if len(ls) > n {
		ls = ls[:n]
	}
	return strings.Join(ls, "\n")
}

func (pp *c07parent) runBatch(b *c07batch, tag string) {
	t0 := time.Now()
	lo := b.lo
	var skip []string
	perPat := map[int]int{}
	for lo < b.hi {
		r := pp.run(lo, b.hi, skip, "", tag)
		b.lines = append(b.lines, r.lines...)
		if r.done && r.err == nil {
			break
		}
		b.restarts++
		kind := "crash"
		switch {
		case r.timeout:
			kind = "timeout"
		case strings.Contains(r.stderr, "fatal error:"):
			kind = "fatal"
		}
		sig, rcApi, detail := pp.describe(r.pi, r.hc, r.api)
		detail["error"] = fmt.Sprint(r.err)
		detail["stderr_head"] = c07FirstLines(r.stderr, 12)
		if kind == "timeout" {
			detail["hang_limit_seconds"] = pp.hangLimit.Seconds()
		}
		got := kind
		if kind != "timeout" {
			got = kind + ": " + c07Trunc(strings.TrimSpace(c07FirstLines(r.stderr, 2)), 160)
			// does the call reproduce alone in a fresh process?
			only := fmt.Sprintf("%d:%d:%d", r.pi, r.hc, r.api)
			if r.pi >= 0 && r.api >= 0 {
				rr := pp.run(r.pi, r.pi+1, nil, only, tag+"r")
				detail["reproduces_in_isolation"] = !(rr.done && rr.err == nil)
			}
		}
		b.failures = append(b.failures, violation{Kind: kind, Case: r.pi, Detail: detail,
			Sig: kind + " " + sig, RC: kind + "/" + rcApi, Expected: "normal return", Got: got})
		if r.pi < lo || r.pi >= b.hi {
			b.notes = append(b.notes, fmt.Sprintf("batch [%d,%d): child failed outside the batch (progress %d); rest of the batch not run", b.lo, b.hi, r.pi))
			break
		}
		perPat[r.pi]++
		// drop what the child had printed for the failing pattern (it is redone)
		for len(b.lines) > 0 && b.lines[len(b.lines)-1].PI >= r.pi {
			b.lines = b.lines[:len(b.lines)-1]
		}
		switch {
		case r.api < 0, kind == "timeout", perPat[r.pi] >= 3:
			skip = append(skip, fmt.Sprintf("%d:*:*", r.pi))
			b.notes = append(b.notes, fmt.Sprintf("pattern %d skipped after %s in %s", r.pi, kind, rcApi))
		default:
			skip = append(skip, fmt.Sprintf("%d:*:%d", r.pi, r.api))
		}
		lo = r.pi
		if b.restarts > 25 {
			b.notes = append(b.notes, fmt.Sprintf("batch [%d,%d): more than 25 restarts, patterns from %d on not run", b.lo, b.hi, lo))
			break
		}
	}
	b.seconds = time.Since(t0).Seconds()
}

func c07Main(args []string) int {
	fs := flag.NewFlagSet("c07", flag.ExitOnError)
	seed := fs.Uint64("seed", 1, "PRNG seed")
	tier := fs.String("tier", "quick", "quick|thorough")
	outPath := fs.String("out", "cases.v", "Coq case file")
	statsPath := fs.String("stats", "stats.json", "stats file")
	nGen := fs.Int("n", 0, "number of generated valid patterns besides the curated ones (0 = tier default)")
	nHost := fs.Int("hostile", 0, "number of hostile patterns (0 = tier default)")
	corpus := fs.String("corpus", "/verif/corpus/patterns_harvested.txt", "pattern corpus")
	jobs := fs.Int("jobs", 4, "children run at a time")
	batch := fs.Int("batch", 24, "patterns per child")
	hang := fs.Float64("hang", 0, "seconds without progress that count as a hang (0 = tier default)")
	nCoq := fs.Int("coq", 800, "maximal number of Coq cases")
	show := fs.Int("show", -1, "print pattern i (hex) with its haystacks and exit")
	fs.Parse(args)

	thorough := *tier == "thorough"
	if *nGen == 0 {
		*nGen = 150
		if thorough {
			*nGen = 800
		}
	}
	if *nHost == 0 {
		*nHost = 320
		if thorough {
			*nHost = 1600
		}
	}
	if *hang == 0 {
		*hang = 150
		if thorough {
			*hang = 150
		}
	}
	exe, err := os.Executable()
	if err != nil {
		fatal("c07: %v", err)
	}
	pl := &c07plan{seed: *seed, thorough: thorough, nValid: len(curatedPatterns) + *nGen, nHostile: *nHost, corpus: loadCorpus(*corpus)}
	pp := &c07parent{pl: pl, exe: exe, corpus: *corpus, tier: *tier, hangLimit: time.Duration(*hang * float64(time.Second)),
		batchMax: 40 * time.Minute, apis: c07APIs()}

	if *show >= 0 {
		p := pl.pattern(*show)
		fmt.Printf("pattern %d source=%s hostile=%v\n text: %s\n hex: %s\n", p.idx, p.src, p.hostile, c07PatText(p.pat), hex.EncodeToString([]byte(p.pat)))
		for i, h := range c07Hays(pl, &p) {
			fmt.Printf(" hay %d len=%d shape=%s sha=%s hex=%s\n", i, len(h.data), h.shape, sigHash(string(h.data))[:8], c07Trunc(hex.EncodeToString(h.data), 200))
		}
		return 0
	}

	st := newStats("C07", *seed)
	st.Rule = "for every byte string offered as a pattern: Compile returns normally; for every compiled pattern, every exported search/enumeration/replace method of coregex.Regex (default, Longest, Copy) and meta.Engine (incl. explicit offsets) returns normally on haystacks of length 0..70, 127..129, 255..257, 1023..1025, 4095..4097 placed against PROT_NONE guard pages in read-only memory; every returned value satisfies wf_span / wf_caps / wf_all / wf_split of coq/Wf.v, aliases the input, and the haystack is unchanged; calls run in child processes watched for hangs and crashes"

	// batches, hostile and valid patterns interleaved by construction (index order), run
	// `jobs` at a time; results are merged in index order
	var batches []*c07batch
	for lo := 0; lo < pl.total(); lo += *batch {
		hi := lo + *batch
		if hi > pl.total() {
			hi = pl.total()
		}
		batches = append(batches, &c07batch{lo: lo, hi: hi})
	}
	t0 := time.Now()
	var wg sync.WaitGroup
	sem := make(chan struct{}, *jobs)
	for bi, b := range batches {
		wg.Add(1)
		sem <- struct{}{}
		go func(bi int, b *c07batch) {
			defer wg.Done()
			defer func() { <-sem }()
			pp.runBatch(b, fmt.Sprint(bi))
		}(bi, b)
	}
	wg.Wait()
	wall := time.Since(t0).Seconds()

	// merge
	var cases []c07case
	var badCases []c07case
	var childViol, procViol []violation
	distinct := distinctSet{}
	compileMax, searchMax := 0.0, 0.0
	compileMaxPat, searchMaxPat := "", ""
	childSeconds := 0.0
	patternsRun := 0
	for _, b := range batches {
		childSeconds += b.seconds
		for _, l := range b.lines {
			patternsRun++
			st.Evaluations += l.Evals
			for k, v := range l.Hist {
				st.Histogram[k] += v
			}
			extra := l.NViol - len(l.Viol)
			childViol = append(childViol, l.Viol...)
			st.TotalViolations += extra
			if extra > 0 {
				st.Histogram["violations-counted-not-listed"] += extra
			}
			for _, cs := range l.Cases {
				if cs.Bad {
					badCases = append(badCases, cs)
				} else {
					cases = append(cases, cs)
				}
			}
			if l.CompileErr == "" {
				distinct.add(fmt.Sprint(l.PI))
			}
			if l.CompileMs > compileMax {
				compileMax, compileMaxPat = l.CompileMs, c07PatText(pl.pattern(l.PI).pat)
			}
			if l.SearchMs > searchMax {
				searchMax, searchMaxPat = l.SearchMs, c07PatText(pl.pattern(l.PI).pat)
			}
		}
		procViol = append(procViol, b.failures...)
		st.Notes = append(st.Notes, b.notes...)
	}
	// the stats file lists at most 400 violations in full: process-level failures first, then
	// the first 12 of every root-cause label, then the rest (all are counted and matched
	// against the ledger)
	for _, v := range procViol {
		st.violate(v)
	}
	perRC := map[string]int{}
	var rest []violation
	for _, v := range childViol {
		perRC[v.RC]++
		if perRC[v.RC] <= 12 {
			st.violate(v)
		} else {
			rest = append(rest, v)
		}
	}
	for _, v := range rest {
		st.violate(v)
	}
	rcTotals := map[string]int{}
	for _, v := range procViol {
		rcTotals[v.RC]++
	}
	for k, n := range perRC {
		rcTotals[k] += n
	}
	st.Extra["violations_reported_by_rc"] = rcTotals
	st.Distinct = len(distinct)
	st.Extra["patterns_valid"] = pl.nValid
	st.Extra["patterns_hostile"] = pl.nHostile
	st.Extra["patterns_run"] = patternsRun
	st.Extra["apis_per_haystack"] = len(pp.apis)
	st.Extra["wall_seconds"] = wall
	st.Extra["child_seconds_total"] = childSeconds
	st.Extra["jobs"] = *jobs
	st.Extra["hang_limit_seconds"] = *hang
	st.Extra["hang_limit_unit"] = "CPU seconds of the child without progress (wall-clock backstop 20x)"
	st.Extra["max_cpu_seconds_of_one_step"] = c07MaxCallCPU
	st.Extra["child_max_stack_bytes"] = 256 << 20
	st.Extra["slowest_compile_ms"] = compileMax
	st.Extra["slowest_compile_pattern"] = c07Trunc(compileMaxPat, 160)
	st.Extra["slowest_pattern_search_ms"] = searchMax
	st.Extra["slowest_pattern"] = c07Trunc(searchMaxPat, 160)
	restarts := 0
	for _, b := range batches {
		restarts += b.restarts
	}
	st.Extra["child_restarts"] = restarts

	// Coq cases: all violating observations first (bounded), then an even sample of the rest
	if len(badCases) > 60 {
		badCases = badCases[:60]
	}
	room := *nCoq - len(badCases)
	if len(cases) > room {
		step := float64(len(cases)) / float64(room)
		sel := make([]c07case, 0, room)
		for i := 0; i < room; i++ {
			sel = append(sel, cases[int(float64(i)*step)])
		}
		cases = sel
	}
	allCases := append(append([]c07case{}, badCases...), cases...)
	var expected []int
	kinds := map[int]int{}
	var sb strings.Builder
	sb.WriteString("From Coq Require Import List NArith ZArith.\nFrom CV Require Import Wf.\nImport ListNotations.\nOpen Scope Z_scope.\n")
	sb.WriteString("Definition cases : list case := [\n")
	for i, cs := range allCases {
		if i > 0 {
			sb.WriteString(";\n")
		}
		fmt.Fprintf(&sb, " mkCase %d %s %d %d %s %s", i, coqZ(cs.Len), cs.Kind, cs.Width, coqZ(cs.Arg), coqZList(cs.Obs))
		kinds[cs.Kind]++
		if cs.Bad {
			expected = append(expected, i)
		}
	}
	sb.WriteString("\n].\nDefinition M := Eval vm_compute in mismatches cases.\nPrint M.\n")
	if err := os.WriteFile(*outPath, []byte(sb.String()), 0o644); err != nil {
		fatal("c07: %v", err)
	}
	st.CoqCases = len(allCases)
	st.Extra["coq_expected_mismatches"] = expected
	st.Extra["coq_cases_by_kind"] = map[string]int{"span": kinds[0], "caps": kinds[1], "all": kinds[2], "split": kinds[3]}
	var idmap []string
	for _, i := range expected {
		idmap = append(idmap, fmt.Sprintf("%d: %s obs=%v", i, allCases[i].From, allCases[i].Obs))
	}
	st.Extra["coq_expected_mismatch_inputs"] = idmap
	for i := 0; i < len(cases) && i < 6; i++ {
		st.sample(map[string]any{"from": cases[i*len(cases)/6].From, "obs": cases[i*len(cases)/6].Obs})
	}
	st.write(*statsPath)

	// summary
	byRC := rcTotals
	fmt.Printf("c07: %d patterns (%d compiled), %d evaluations, %d violations (%d known), %d coq cases, %.1fs wall, %d child restarts\n",
		patternsRun, st.Distinct, st.Evaluations, st.TotalViolations, st.KnownHits, st.CoqCases, wall, restarts)
	ks := sortedKeys(byRC)
	sort.Strings(ks)
	for _, k := range ks {
		fmt.Printf("  reported %-44s %d\n", k, byRC[k])
	}
	return 0
}
