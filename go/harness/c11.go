package main

import (
	"flag"
	"fmt"
	"os"
	"regexp/syntax"
	"strings"
	"time"

	"github.com/coregx/coregex"
	"github.com/coregx/coregex/meta"
)

// ---------------------------------------------------------------------------
// `c11`: all views of one Regex tell the same story (oracle-free: only coregex's own
// methods are compared with each other, on the same compiled value and haystack).
// ---------------------------------------------------------------------------

func cmdC11(args []string) int {
	fs := flag.NewFlagSet("c11", flag.ExitOnError)
	seed := fs.Uint64("seed", 1, "seed")
	tier := fs.String("tier", "quick", "tier")
	statsPath := fs.String("stats", "stats.json", "stats")
	_ = fs.String("out", "", "unused")
	corpus := fs.String("corpus", "/verif/corpus/patterns_harvested.txt", "corpus")
	fs.Parse(args)
	noLongHays = *tier == "thorough" // the thorough ledgers predate the long-haystack families (DESIGN section 5)
	st := newStats("C11", *seed)
	r := newRng(*seed)
	pg := &patGen{r: r.fork(1), corpus: loadCorpus(*corpus)}
	npat, nhay := 450, 16
	if *tier == "thorough" {
		npat, nhay = 6000, 30
	}
	distinct := distinctSet{}
	nontriv := 0
	slowDbg, slowT, slowWhat := os.Getenv("VERIF_SLOW") != "", time.Now(), ""
	// patterns with LARGE automata on the backtracker strategies: with them an input of ~150 KB already exceeds the
	// visited-table capacity, so the large-input fallbacks of every dispatcher run (bidirectional DFA, windowed
	// backtracker, PikeVM) - each gets one huge haystack of short adjacent words
	c11Huge := []string{`(\pL\pL?)`, `(\pL{2})(\pL{2})?`}
	if noLongHays {
		c11Huge = nil
	}
	c11Huge = append(c11Huge, lateCuratedFor(noLongHays)...)
	for i := 0; i < npat+len(c11Huge); i++ {
		var pat, src string
		if i < npat {
			pat, src = pg.next(i)
		} else {
			pat, src = c11Huge[i-npat], "huge"
			if i-npat >= 2 {
				src = "curated-late"
			}
		}
		ast, err := syntax.Parse(pat, syntax.Perl)
		if err != nil {
			continue
		}
		re, err := coregex.Compile(pat)
		if err != nil {
			continue
		}
		eng, err := meta.Compile(pat)
		if err != nil {
			continue
		}
		strat := eng.Strategy().String()
		st.hist("src:" + src)
		st.hist("strategy:" + strat)
		hg := newHayGen(r.fork(uint64(i)+6000), ast)
		var long [][]byte
		if i%2 == 0 || src == "huge" { // every other pattern: keeps the quick tier near two minutes
			long = hg.longHays()
		}
		if src == "huge" {
			long = append(long, hg.hugeHays(20000)...)
		}
		for j := 0; j < nhay+len(long); j++ {
			var h []byte
			if j < nhay {
				h = hg.next(j)
			} else {
				h = long[j-nhay]
			}
			if j < nhay && j%8 == 7 { // oracle-free: much larger haystacks are affordable
				var parts [][]byte
				for len(concatBytes(parts...)) < 3000 {
					parts = append(parts, hg.next(r.intn(12)))
				}
				h = concatBytes(parts...)
			}
			key := pat + "\x00" + string(h)
			if _, dup := distinct[key]; dup {
				continue
			}
			distinct.add(key)
			if slowDbg {
				if d := time.Since(slowT); d > 300*time.Millisecond {
					fmt.Fprintf(os.Stderr, "slow %v %s\n", d, slowWhat)
				}
				slowT, slowWhat = time.Now(), fmt.Sprintf("%q len=%d strat=%s", pat, len(h), strat)
			}
			s := string(h)
			rel := func(name, a, b string) {
				st.Evaluations++
				if a != b {
					st.violate(violation{Kind: name, Case: i,
						Detail: map[string]any{"relation": name, "pattern": pat, "haystack": short(s, 400), "haystack_hex": short(fmt.Sprintf("%x", h), 800), "haystack_len": len(h), "strategy": strat, "left": short(a, 300), "right": short(b, 300)},
						Sig:    fmt.Sprintf("%s pat=%q hay=%s left=%s right=%s", name, pat, sigHash(s), short(a, 60), short(b, 60)), Expected: a, Got: b, RC: name + "/" + strat})
				}
			}
			fi := re.FindIndex(h)
			if fi != nil {
				nontriv++
			}
			// Match <-> FindIndex
			rel("Match=(FindIndex!=nil)", fmt.Sprint(re.Match(h)), fmt.Sprint(fi != nil))
			rel("MatchString=Match", fmt.Sprint(re.MatchString(s)), fmt.Sprint(re.Match(h)))
			rel("MatchReader=Match(valid utf8 only)", readerCmp(s, fmt.Sprint(re.MatchReader(strings.NewReader(s)))), readerCmp(s, fmt.Sprint(re.Match(h))))
			// Find / FindString / group 0 are the haystack sliced at FindIndex
			sl := "<nil>"
			if fi != nil {
				sl = fmt.Sprintf("%q", h[fi[0]:fi[1]])
			}
			f := re.Find(h)
			fs1 := "<nil>"
			if f != nil {
				fs1 = fmt.Sprintf("%q", f)
			}
			rel("Find=h[FindIndex]", fs1, sl)
			if fi != nil {
				rel("FindString=h[FindIndex]", fmt.Sprintf("%q", re.FindString(s)), sl)
			} else {
				rel("FindString=\"\" when no match", fmt.Sprintf("%q", re.FindString(s)), `""`)
			}
			rel("FindStringIndex=FindIndex", fmtInts(re.FindStringIndex(s)), fmtInts(fi))
			sm := re.FindSubmatchIndex(h)
			g0 := "nil"
			if sm != nil {
				g0 = fmt.Sprint(sm[:2])
			}
			rel("FindSubmatchIndex[0:2]=FindIndex", g0, fmtInts(fi))
			rel("FindStringSubmatchIndex=FindSubmatchIndex", fmtInts(re.FindStringSubmatchIndex(s)), fmtInts(sm))
			if sm != nil {
				sub := re.FindSubmatch(h)
				ok := len(sub)*2 == len(sm)
				for g := 0; ok && g < len(sub); g++ {
					if sm[2*g] < 0 {
						ok = sub[g] == nil
					} else {
						ok = sub[g] != nil && string(sub[g]) == string(h[sm[2*g]:sm[2*g+1]])
					}
				}
				rel("FindSubmatch=h sliced at FindSubmatchIndex", fmt.Sprint(ok), "true")
				rel("len(FindSubmatchIndex)=2*(NumSubexp+1)", fmt.Sprint(len(sm)), fmt.Sprint(2*(re.NumSubexp()+1)))
			}
			// enumeration family
			all := re.FindAllIndex(h, -1)
			if len(all) > 0 {
				rel("FindAllIndex(-1)[0]=FindIndex", fmt.Sprint(all[0]), fmtInts(fi))
			} else {
				rel("FindAllIndex(-1) empty <-> FindIndex nil", fmt.Sprint(fi == nil), "true")
			}
			for _, n := range []int{0, 1, 2, 5} {
				got := re.FindAllIndex(h, n)
				want := all
				if n < len(all) {
					want = all[:n]
				}
				rel(fmt.Sprintf("FindAllIndex(n=%d)=prefix of FindAllIndex(-1)", n), fmtIntss(got), fmtIntss(want))
			}
			rel("Count=len(FindAllIndex)", fmt.Sprint(re.Count(h, -1)), fmt.Sprint(len(all)))
			rel("CountString=Count", fmt.Sprint(re.CountString(s, -1)), fmt.Sprint(re.Count(h, -1)))
			rel("FindAllStringIndex=FindAllIndex", fmtIntss(re.FindAllStringIndex(s, -1)), fmtIntss(all))
			var it [][]int
			for m := range re.AllIndex(h) {
				it = append(it, []int{m[0], m[1]})
			}
			rel("AllIndex=FindAllIndex", fmtIntss(it), fmtIntss(all))
			var its [][]int
			for m := range re.AllStringIndex(s) {
				its = append(its, []int{m[0], m[1]})
			}
			rel("AllStringIndex=FindAllIndex", fmtIntss(its), fmtIntss(all))
			app := re.AppendAllIndex(nil, h, -1)
			var appl [][]int
			for _, m := range app {
				appl = append(appl, []int{m[0], m[1]})
			}
			rel("AppendAllIndex(nil)=FindAllIndex", fmtIntss(appl), fmtIntss(all))
			fa := re.FindAll(h, -1)
			ok := len(fa) == len(all)
			for k := 0; ok && k < len(fa); k++ {
				ok = string(fa[k]) == string(h[all[k][0]:all[k][1]])
			}
			rel("FindAll=h sliced at FindAllIndex", fmt.Sprint(ok), "true")
			asm := re.FindAllSubmatchIndex(h, -1)
			var g0s [][]int
			for _, m := range asm {
				g0s = append(g0s, []int{m[0], m[1]})
			}
			rel("FindAllSubmatchIndex group0=FindAllIndex", fmtIntss(g0s), fmtIntss(all))
			// lower-level engine API
			es, ee, ef := eng.FindIndices(h)
			rel("Engine.FindIndices=FindIndex", spanStr(es, ee, ef), func() string {
				if fi == nil {
					return "none"
				}
				return fmt.Sprintf("[%d %d]", fi[0], fi[1])
			}())
			rel("Engine.IsMatch=Match", fmt.Sprint(eng.IsMatch(h)), fmt.Sprint(re.Match(h)))
			m := eng.Find(h)
			if m != nil {
				rel("Engine.Find=FindIndex", fmt.Sprintf("[%d %d]", m.Start(), m.End()), fmtInts(fi))
			} else {
				rel("Engine.Find=FindIndex", "nil", fmtInts(fi))
			}
			as, ae, af := eng.FindIndicesAt(h, 0)
			rel("Engine.FindIndicesAt(0)=Engine.FindIndices", spanStr(as, ae, af), spanStr(es, ee, ef))
			rel("Engine.Count=Count", fmt.Sprint(eng.Count(h, -1)), fmt.Sprint(re.Count(h, -1)))
			ms := eng.FindSubmatch(h)
			if ms != nil {
				rel("Engine.FindSubmatch span=FindIndex", fmt.Sprintf("[%d %d]", ms.Start(), ms.End()), fmtInts(fi))
			} else {
				rel("Engine.FindSubmatch span=FindIndex", "nil", fmtInts(fi))
			}
			// views_coherent at every offset (short haystacks): IsMatch on the suffix context is
			// not expressible without look-behind context, so compare FindIndicesAt with FindAt
			if len(h) <= 24 {
				for p := 0; p <= len(h); p++ {
					s1, e1, f1 := eng.FindIndicesAt(h, p)
					mm := eng.FindAt(h, p)
					g := "none"
					if mm != nil {
						g = fmt.Sprintf("[%d %d]", mm.Start(), mm.End())
					}
					rel("Engine.FindAt(p)=Engine.FindIndicesAt(p)", g, spanStr(s1, e1, f1))
					sm2 := eng.FindSubmatchAt(h, p)
					g = "none"
					if sm2 != nil {
						g = fmt.Sprintf("[%d %d]", sm2.Start(), sm2.End())
					}
					rel("Engine.FindSubmatchAt(p) span=Engine.FindIndicesAt(p)", g, spanStr(s1, e1, f1))
				}
			}
			if j == 2 && i%50 == 0 {
				st.sample(map[string]any{"pattern": pat, "haystack": short(s, 80), "strategy": strat, "FindIndex": fmtInts(fi), "matches": len(all)})
			}
		}
	}
	st.Distinct = nontriv
	st.Extra["distinct_pairs"] = len(distinct)
	st.Rule = "oracle-free: ~35 relations between methods of one compiled value (Regex and meta.Engine) on the same haystack, incl. every offset for short haystacks; haystacks up to 3 KiB incl. invalid UTF-8 and NULs; non-trivial = FindIndex is non-nil"
	st.write(*statsPath)
	return 0
}

// readerCmp: a RuneReader sees U+FFFD for invalid bytes, so the Reader view is only
// comparable on valid UTF-8; on invalid input both sides are replaced by a constant.
func readerCmp(s, v string) string {
	if !validUTF8(s) {
		return "n/a(invalid utf8)"
	}
	return v
}

func validUTF8(s string) bool {
	for _, r := range s {
		if r == 0xFFFD {
			// could be a genuine U+FFFD; treat as not comparable too
			return false
		}
	}
	return true
}

func init() { register("c11", cmdC11) }
