package main

import (
	"encoding/hex"
	"flag"
	"fmt"
	"os"
	"regexp"
	"regexp/syntax"
	"strings"

	"github.com/coregx/coregex/nfa"
)

// ---------------------------------------------------------------------------
// pikecaps-cases — correspondence cases for PikeCaps.v (properties C03 / C14 for the capture
// entry points of the PikeVM, nfa/pikevm.go).  For small patterns WITH GROUPS (alternations,
// nested and repeated groups, optional groups, empty-width loops, lazy quantifiers; NFA <= 30
// states) and haystacks <= 10 bytes the sub-command runs
//   nfa.NewPikeVM(n).SearchWithCapturesAt(h, at)          (op 1)
//   nfa.NewPikeVM(n).SearchWithSlotTableCapturesAt(h, at) (op 2)
//   nfa.NewPikeVM(n).SearchWithCapturesInSpan(h, at, end)  (op 3; end = len(h) and one shorter span)
// and writes the observed FULL capture vectors (2 entries per group, -1 -1 for an unset group)
// as Coq cases: `mismatches` replays the PikeCaps MODEL on them (fidelity), `ref_mismatches`
// compares them with the reference search Nfa.find_at (slots of the first accepting path in
// priority order).  On the Go side the result for at == 0 is compared with
// regexp.FindSubmatchIndex (violation `pikecaps-vs-regexp`), and the two entry points with
// each other (`pikecaps-slottable-vs-captures`).
// ---------------------------------------------------------------------------

// patterns with groups; the first entries are the witnesses of the copy-on-write defect
// repaired in nfa/pikevm.go (reference of the right branch of a Split taken after the left
// branch was explored)
var pcPatterns = []string{
	`(a*)+$`, `([0-9]2{1,3}){2,}2c`, `(a*)+`, `(a*)*`, `(a+)*`, `(a?)*`, `(a*?)*`, `(a*)*?`, `(a|b)*`, `(a|b)*?c`,
	`(a|ab)(c|bcd)(d*)`, `(a+)(b+)?`, `(a+?)(a*)`, `(a??)(a*)`, `((a)|b)+`, `((a)*)*`, `(?:(a)|(b)|(c))*`,
	`(a)|(b)|(c)`, `(ab|a)(bc|c)?`, `x*(y)?`, `(a{0,2})*`, `(?:a(b)?)+`, `(a(b)?)+`, `(()|a)+`, `(a|())+`,
	`^(a)?(b)?$`, `(\b)?a`, `(a)(b)?c`, `((a)(b))?c`, `(a(b(c)?)?)?`, `(a|b|c)+?c`, `(a+)(a+)`, `(a*)(a*)`,
	`(a*?)(a*)`, `(a*)(a*?)`, `(a|ab)(b*)`, `(ab|a)(b*)`, `((a|b)(c|d))+`, `(a)+(b)+`, `(?:(a)|b)*`, `(?:(a)|b)+c`,
	`(a)*b`, `(a)*?b`, `(a)+?b`, `(a)??b`, `(a)?b`, `(^a)|(b$)`, `(a$)|(a)`, `(\Ba)|(a)`, `(a\b)|(a)`,
	`(a|b)(c)?(d)?`, `((((a))))`, `(a(b)*)*`, `(a(b)*?)*`, `((a)|(b))*c`, `(a?)(a?)(a?)`, `(a??)(a??)`, `(a|aa)(a|aa)`,
	`(aa|a)(a|aa)`, `(a*)b(a*)`, `(.)(.)`, `(.*)(b)`, `(.*?)(b)`, `(.*)b(.*)`, `([ab]*)(b)`, `([ab]*?)(b+)`,
	`(\d+)-(\d+)`, `(\w+) (\w+)`, `(a)\b`, `\b(a)`, `(?m:^(a)$)`, `(?s:(.)(.))`, `(?i:(a))(b)`, `(a)(?:b|(c))`,
	`(?:(a)(b)?)+`, `(?:(a)?(b))+`, `(?:(a)|(b)c)+`, `(?:a|(b))+?$`, `(|a)+`, `(a|)+`, `(|a)*`, `(a|)*b`,
	`(a*)+b`, `(a*)+?b`, `(a+|b*)*`, `(a+|b*)+c`, `(a*|b)*c`, `(?:(a*)b)*`, `(?:(a*)b)+c`, `((a*)b)*c`,
}

// pcGrammar generates a small pattern with groups over the alphabet {a, b, c}.
func pcGrammar(r *rng, depth int) string {
	atom := func() string {
		switch k := r.intn(100); {
		case k < 45:
			return r.pick([]string{"a", "b", "c", "a", "b"})
		case k < 55:
			return r.pick([]string{"[ab]", "[^a]", ".", `\w`})
		case k < 62:
			return r.pick([]string{`\b`, `^`, `$`, `\B`})
		case depth > 0:
			inner := pcGrammar(r, depth-1)
			if r.chance(25) {
				return "(?:" + inner + ")"
			}
			return "(" + inner + ")"
		default:
			return r.pick([]string{"a", "b", ""})
		}
	}
	piece := func() string {
		a := atom()
		if a == "" || strings.HasPrefix(a, `\b`) || a == "^" || a == "$" || a == `\B` {
			return a
		}
		switch k := r.intn(100); {
		case k < 45:
			return a
		case k < 60:
			return a + r.pick([]string{"*", "+", "?"})
		case k < 72:
			return a + r.pick([]string{"*?", "+?", "??"})
		case k < 78:
			return a + r.pick([]string{"{0,2}", "{1,2}", "{2}", "{1,2}?"})
		default:
			return a
		}
	}
	nalt := 1
	if r.chance(35) {
		nalt = 2 + r.intn(2)
	}
	alts := make([]string, nalt)
	for i := range alts {
		n := 1 + r.intn(3)
		if r.chance(8) {
			n = 0
		}
		var sb strings.Builder
		for j := 0; j < n; j++ {
			sb.WriteString(piece())
		}
		alts[i] = sb.String()
	}
	return strings.Join(alts, "|")
}

// pcFlatten renders a MatchWithCaptures as the full capture vector.
func pcFlatten(m *nfa.MatchWithCaptures) (bool, []int) {
	if m == nil {
		return false, nil
	}
	out := make([]int, 0, 2*len(m.Captures))
	for _, g := range m.Captures {
		if len(g) == 2 {
			out = append(out, g[0], g[1])
		} else {
			out = append(out, -1, -1)
		}
	}
	return true, out
}

func pcShow(found bool, caps []int) string {
	if !found {
		return "none"
	}
	return fmt.Sprint(caps)
}

func pcEqual(f1 bool, c1 []int, f2 bool, c2 []int) bool {
	if f1 != f2 {
		return false
	}
	if !f1 {
		return true
	}
	if len(c1) != len(c2) {
		return false
	}
	for i := range c1 {
		if c1[i] != c2[i] {
			return false
		}
	}
	return true
}

// pcHay returns the j-th haystack (<= maxLen bytes) for a pattern.
func pcHay(r *rng, hg *hayGen, re *syntax.Regexp, j, maxLen int) []byte {
	var h []byte
	switch j % 6 {
	case 0:
		if j == 0 {
			h = []byte{}
		} else {
			h = sampleMatch(r, re, 0)
		}
	case 1:
		h = sampleMatch(r, re, 0)
	case 2:
		h = concatBytes(hg.noise(2), sampleMatch(r, re, 0), hg.noise(2))
	case 3:
		h = concatBytes(sampleMatch(r, re, 0), sampleMatch(r, re, 0))
	case 4:
		// short strings over the letters the group patterns use
		n := r.intn(maxLen + 1)
		for i := 0; i < n; i++ {
			h = append(h, "aabbc"[r.intn(5)])
		}
	default:
		h = hg.noise(maxLen)
	}
	if len(h) > maxLen {
		h = h[:maxLen]
	}
	return h
}

func cmdPikeCapsCases(args []string) int {
	fs := flag.NewFlagSet("pikecaps-cases", flag.ExitOnError)
	seed := fs.Uint64("seed", 1, "seed")
	tier := fs.String("tier", "quick", "quick|thorough")
	npat := fs.Int("n", 0, "number of patterns (0: by tier)")
	out := fs.String("out", "cases.v", "Coq case file")
	statsPath := fs.String("stats", "stats.json", "stats output")
	fs.Parse(args)

	st := newStats("C03", *seed)
	np, maxCoq, perPat, stride := 160, 700, 4, 8
	if *tier == "thorough" {
		np, maxCoq, perPat, stride = 1500, 700, 8, 130
	}
	if *npat > 0 {
		np = *npat
	}
	r := newRng(*seed)
	distinct := distinctSet{}

	var coq strings.Builder
	coq.WriteString("From CV Require Import Nfa PikeCaps.\nFrom Coq Require Import List NArith ZArith.\nImport ListNotations.\nOpen Scope N_scope.\n")
	coq.WriteString("(* generated by `harness pikecaps-cases`: capture vectors observed from nfa.PikeVM.SearchWithCapturesAt / SearchWithSlotTableCapturesAt *)\n")
	coq.WriteString("Definition cases : list case := [\n")
	ncoq, used, tried, elig := 0, 0, 0, 0
	sel := r.fork(99)
	emit := func(idx int, pat string, d dumpedNFA, anch bool, h []byte, at, end, op int, found bool, caps []int) {
		elig++
		if ncoq >= maxCoq || sel.intn(stride) != 0 {
			return
		}
		if ncoq > 0 {
			coq.WriteString(";\n")
		}
		if !found {
			caps = nil
		}
		fmt.Fprintf(&coq, "  (* %d: %s *)\n  mkCase %d %s %s %s %d %d %d %s %s%%Z", idx, pkSafe(pat), ncoq, d.coq, coqBool(anch), coqBytes(h), at, end, op, coqBool(found), coqZList(caps))
		ncoq++
	}

	pick := r.fork(98)
	gr := r.fork(97)
	for i := 0; used < np && tried < 40*np; i++ {
		tried++
		// the listed patterns first (every one, in order, then picked by the seed), then generated ones
		var pat, src string
		switch {
		case i < len(pcPatterns):
			pat, src = pcPatterns[i], "listed"
		case used < 2*np/3 && pick.chance(30):
			pat, src = pcPatterns[pick.intn(len(pcPatterns))], "listed"
		default:
			pat, src = pcGrammar(gr, 2), "grammar"
		}
		re, err := syntax.Parse(pat, syntax.Perl)
		if err != nil {
			st.hist("skip:parse")
			continue
		}
		if re.MaxCap() == 0 {
			st.hist("skip:no-groups")
			continue
		}
		n, err := nfa.NewDefaultCompiler().CompileRegexp(re)
		if err != nil {
			st.hist("skip:nfacompile")
			continue
		}
		d := dumpNFA(n)
		if !d.ok || n.States() > 30 || strings.Contains(d.coq, "999999") {
			st.hist("skip:nfa-too-large-or-unsupported")
			continue
		}
		std, err := regexp.Compile(pat)
		if err != nil {
			st.hist("skip:regexp")
			continue
		}
		used++
		st.hist("src:" + src)
		if n.IsAnchored() {
			st.hist("nfa:anchored")
		}
		pr := r.fork(uint64(i) + 7000)
		hg := newHayGen(pr.fork(7), re)
		vm := nfa.NewPikeVM(n)
		for j := 0; j < perPat; j++ {
			h := pcHay(pr, hg, re, j+i, 10)
			ats := []int{0}
			if len(h) > 0 {
				ats = append(ats, 1+pr.intn(len(h)))
			}
			for _, at := range ats {
				f1, c1 := pcFlatten(vm.SearchWithCapturesAt(h, at))
				st.Evaluations++
				distinct.add(fmt.Sprintf("%s\x00%d\x00%s", pat, at, h))
				emit(i, pat, d, n.IsAnchored(), h, at, 0, 1, f1, c1)
				f2, c2 := pcFlatten(vm.SearchWithSlotTableCapturesAt(h, at))
				st.Evaluations++
				emit(i, pat, d, n.IsAnchored(), h, at, 0, 2, f2, c2)
				if !pcEqual(f1, c1, f2, c2) {
					st.violate(violation{Kind: "pikecaps-slottable-vs-captures", Case: i, RC: "PikeVM.SearchWithSlotTableCapturesAt",
						Detail:   map[string]any{"pattern": pat, "at": at, "haystack_hex": hex.EncodeToString(h)},
						Sig:      fmt.Sprintf("pikecaps SlotTableCapturesAt %s %s %d", pat, hex.EncodeToString(h), at),
						Expected: pcShow(f1, c1), Got: pcShow(f2, c2)})
				}
				// SearchWithCapturesInSpan: one seed at `at`; with spanEnd = len(h) it must agree with
				// SearchWithCapturesAt whenever that match starts at `at`, and find nothing otherwise
				// (unanchored NFAs; a leftmost match starting later means no match starts at `at`)
				f3, c3 := pcFlatten(vm.SearchWithCapturesInSpan(h, at, len(h)))
				st.Evaluations++
				emit(i, pat, d, n.IsAnchored(), h, at, len(h), 3, f3, c3)
				if !n.IsAnchored() {
					fw, cw := f1, c1
					if f1 && c1[0] != at {
						fw, cw = false, nil
					}
					if !pcEqual(f3, c3, fw, cw) {
						st.violate(violation{Kind: "pikecaps-inspan-vs-captures", Case: i, RC: "PikeVM.SearchWithCapturesInSpan",
							Detail:   map[string]any{"pattern": pat, "at": at, "haystack_hex": hex.EncodeToString(h)},
							Sig:      fmt.Sprintf("pikecaps InSpan %s %s %d", pat, hex.EncodeToString(h), at),
							Expected: pcShow(fw, cw), Got: pcShow(f3, c3)})
					}
				}
				if len(h) > at {
					// a shorter span: model fidelity only (M)
					e := at + pr.intn(len(h)-at)
					f4, c4 := pcFlatten(vm.SearchWithCapturesInSpan(h, at, e))
					st.Evaluations++
					emit(i, pat, d, n.IsAnchored(), h, at, e, 3, f4, c4)
				}
				if at == 0 {
					loc := std.FindSubmatchIndex(h)
					fw, cw := loc != nil, loc
					if !pcEqual(f1, c1, fw, cw) {
						st.violate(violation{Kind: "pikecaps-vs-regexp", Case: i, RC: "PikeVM.SearchWithCapturesAt",
							Detail:   map[string]any{"pattern": pat, "api": "SearchWithCapturesAt", "at": at, "haystack_hex": hex.EncodeToString(h)},
							Sig:      fmt.Sprintf("pikecaps CapturesAt %s %s", pat, hex.EncodeToString(h)),
							Expected: pcShow(fw, cw), Got: pcShow(f1, c1)})
					}
					if !pcEqual(f2, c2, fw, cw) && pcEqual(f1, c1, fw, cw) {
						st.violate(violation{Kind: "pikecaps-vs-regexp", Case: i, RC: "PikeVM.SearchWithSlotTableCapturesAt",
							Detail:   map[string]any{"pattern": pat, "api": "SearchWithSlotTableCapturesAt", "at": at, "haystack_hex": hex.EncodeToString(h)},
							Sig:      fmt.Sprintf("pikecaps SlotTableCapturesAt-vs-regexp %s %s", pat, hex.EncodeToString(h)),
							Expected: pcShow(fw, cw), Got: pcShow(f2, c2)})
					}
				}
				switch {
				case !f1:
					st.hist("caps:none")
				default:
					unset := 0
					for k := 2; k+1 < len(c1); k += 2 {
						if c1[k] < 0 {
							unset++
						}
					}
					switch {
					case unset == 0:
						st.hist("caps:all-groups-set")
					case unset*2+2 == len(c1):
						st.hist("caps:no-subgroup-set")
					default:
						st.hist("caps:some-groups-unset")
					}
				}
			}
		}
	}
	coq.WriteString("\n].\n")
	coq.WriteString("Definition M := Eval vm_compute in mismatches cases.\nPrint M.\n")
	coq.WriteString("Definition R := Eval vm_compute in ref_mismatches cases.\nPrint R.\n")
	if err := os.WriteFile(*out, []byte(coq.String()), 0o644); err != nil {
		fatal("write %s: %v", *out, err)
	}
	st.CoqCases = ncoq
	st.Distinct = len(distinct)
	st.Rule = "per pattern with groups (listed witnesses + grammar over {a,b,c} with nested/repeated/optional groups, empty-width loops, lazy quantifiers; NFA <= 30 states of the modelled kinds): haystacks <= 10 bytes (empty, sampled match, match in noise, two matches, short letter strings, noise); nfa.NewPikeVM(n).SearchWithCapturesAt(h, at), SearchWithSlotTableCapturesAt(h, at), SearchWithCapturesInSpan(h, at, len(h)) and (h, at, shorter end) for at = 0 and one random offset, full capture vectors; compared in Go with regexp.FindSubmatchIndex for at = 0 (pikecaps-vs-regexp) and with each other (pikecaps-slottable-vs-captures, pikecaps-inspan-vs-captures), in Coq with the PikeCaps model (M) and the reference Nfa.find_at slots (R). distinct = distinct (pattern, offset, haystack)"
	st.Extra["patterns"] = used
	st.Extra["eligible_cases"] = elig
	st.write(*statsPath)
	fmt.Printf("pikecaps-cases: %d patterns, %d evaluations, %d coq cases, %d violations\n", used, st.Evaluations, ncoq, st.TotalViolations)
	return 0
}

func init() { register("pikecaps-cases", cmdPikeCapsCases) }
