package main

// Sub-command c08: property C08, "Replace, Expand and Split produce stdlib's output".
//
//	harness c08 -seed N -tier quick|thorough -out cases.v -stats stats.json
//
// patterns (curated strategy triggers, harvested corpus, templates, grammar: gen.go;
// plus patterns with named / many / unmatched groups) x texts (the 12 shapes of
// hayGen, plus fixed multi-byte and invalid-UTF-8 texts) x replacement templates
// (a grammar over the pieces of the $-language, see c08Pieces) x n for Split.  Each
// of ReplaceAll, ReplaceAllString, ReplaceAllLiteral, ReplaceAllLiteralString,
// ReplaceAllFunc, ReplaceAllStringFunc, Expand, ExpandString and Split is compared
// byte for byte with package regexp (nil-ness included for Split), the byte-slice
// results are checked not to share memory with src, Expand is run with empty and
// non-empty dst and with match arrays that are truncated / have groups unset.
//
// Every disagreement is attributed by a replay: regexp's own replaceAll / Split
// algorithm is re-run over COREGEX's single-match results (meta.Engine.FindIndicesAt /
// FindSubmatchAt on the very engine instance inside the Regex under test,
// FindAllStringIndex(s, n) for Split; and, second, regexp's construction of the result
// from the list of all matches over coregex's own FindAllSubmatchIndex).  cause=engine
// only if such a replay reproduces coregex's output exactly (the C08 layer did what regexp's would have done
// with those matches; the difference comes from the match engine, C02-C04's business);
// otherwise cause=c08-layer (template / loop / split logic).  Expand has no engine
// behind it: always c08-layer.  Every sig ends with " cause=<class>"; the per-class
// counts are in stats.extra.root_causes.
//
// The Coq case file feeds Replace.v's checker and isolates the C08 layer: the match
// lists are coregex's own FindAllSubmatchIndex / FindAllStringIndex, the observed
// output is coregex's, and only evaluations whose verdict cannot depend on the engine
// are emitted (see the header written into the file).  Case ids are evaluation
// numbers: for a given seed the same id is the same input on every tree.

import (
	"bytes"
	"encoding/hex"
	"flag"
	"fmt"
	"os"
	"reflect"
	"regexp"
	"strings"
	"time"
	"unicode/utf8"
	"unsafe"

	"github.com/coregx/coregex/meta"
)

func init() { register("c08", cmdC08) }

// patterns that exercise the template language: named groups, more than nine groups,
// groups that stay unmatched, digit-only names, empty matches around multi-byte runes
var c08Patterns = []string{
	`(?P<n>a)(b)?`, `(?P<name>\w+)@(?P<host>\w+)\.(\w+)`, `(a)(b)(c)(d)(e)(f)(g)(h)(i)(j)(k)`,
	`(a)(b)?(c)?(d)?(e)?(f)?(g)?(h)?(i)?(j)?(k)?(l)?`, `(?P<1234567890>a)`, `(?P<x1>a)|(?P<x2>b)`,
	`(?P<_>.)`, `(?P<n1>a)(?P<n1x>b)`, `(?P<N>\d+)-(?P<n>\d+)`, `(?P<n>)`, `(?P<n>a*)`, `(a)|b`,
	`a*`, `x*`, ``, `\b`, `(?:)`, `a|`, `(a*)(b*)`, `é*`, `\pL*`, `[^a]*`, `(?s).*?`, `.??`, `$`, `^`, `(?m)^`, `(?m)$`,
	`a`, `,`, `\s+`, `\s*`, `a+`, `(\w+)\s(\w+)`, `(?i)a`, `[aé]`, `世|a`, `\B`,
}

var c08Texts = []string{"", "é", "xaby", "日本", "xay", "a", "aa", "éa", "\xff\xfe", "a\xc3", "\xe4\xb8", "abcdefghijkl", "abcdefghijk abcdefghijk",
	"joe@example.com, ann@host.org", "12-34 5-6", "a,b,,c,", ",a", "  a  b ", "😀a😀", "aéa世a😀a"}

// pieces of the template language; <N> is replaced by a name of the pattern (or "n")
var c08Pieces = []string{
	"", "x", "-", " ", "é", "\xff", "\xc3", "{", "}", "0", "_",
	"$0", "$1", "$2", "$3", "$9", "$10", "$11", "$12", "${0}", "${1}", "${2}", "${10}", "${11}",
	"${<N>}", "$<N>", "$<N>x", "$<N>1", "$<N>_", "$<N>-", "$<N> ", "$<N>é", "$<N>\xff", "${<N>}x", "${<N>",
	"${nope}", "$nope", "$N0PE", "$$", "$$$", "$", "${", "${}", "${1", "$-", "$1x", "${1}x", "$1_", "$1-", "$1 ", "$1é",
	"$é", "${é}", "$日本", "${日本}", "$\xff", "${1\xff}", "$\xc3", "$01", "${01}", "$00", "$0x", "${0x}",
	"$1234567890", "${1234567890}", "$123456789", "$99999999999999999999", "$100000000", "$_", "${_}",
	"$$1", "$$$1", "$${1}", "${1}$", "${ 1}", "${1 }", "$1$2", "${1}${2}", "$2$1$0", "${1}}", "$ {1}", "$١", "${١}", "$ǅ",
}

// whole templates tried on every (pattern, text) in rotation
var c08Templates = []string{
	"${n}-$2-$10-$$", "$1x|${1}x|$01|$n|$é|$", "[$0]", "-", "", "$", "$$", "$1", "${1}", "$10", "${10}", "$11", "$n", "$name@$host", "${name}@${host}",
	"$1234567890", "<$0>", "$0$0", "${", "${}", "${1", "$-", "$1x", "${1}x", "\xff$1\xff", "$é", "${nope}|", "$x1$x2", "$_", "$n1x-$n1", "$N$n",
}

type c08Run struct {
	st        *stats
	cases     []string // rendered mk_case terms
	caseCap   int
	caseMod   int
	evalNo    int   // counts every evaluation that could become a Coq case: the case id
	expected  []int // ids of emitted cases on which the Go side saw a c08-layer difference
	skipped   int   // sampled evaluations not emitted because their verdict would depend on the engine
	selfcheck int
	panics    int
	perKind   map[string]int
	causes    map[string]int
}

func c08Bracket(b []byte) []byte  { return append(append([]byte{'['}, b...), ']') }
func c08BracketS(s string) string { return "[" + s + "]" }

// c08Call runs f, converting a panic of the implementation into a value.
func c08Call(f func() any) (res any, panicked string) {
	defer func() {
		if r := recover(); r != nil {
			panicked = fmt.Sprint(r)
		}
	}()
	return f(), ""
}

func c08Fmt(v any) string {
	switch x := v.(type) {
	case []byte:
		if x == nil {
			return "nil"
		}
		return fmt.Sprintf("%q", x)
	case string:
		return fmt.Sprintf("%q", x)
	case []string:
		if x == nil {
			return "nil"
		}
		return fmt.Sprintf("%q", x)
	}
	return fmt.Sprint(v)
}

// stdlib's ReplaceAll expressed over the list of all matches (the Go twin of
// Replace.v:std_replace_from_matches); used to check that the Coq spec side is fed
// the right thing
func c08FromMatches(src []byte, ms [][]int, repl func(m []int) []byte) []byte {
	out := []byte{}
	last := 0
	for _, m := range ms {
		out = append(out, src[last:m[0]]...)
		out = append(out, repl(m)...)
		last = m[1]
	}
	return append(out, src[last:]...)
}

// ---------------------------------------------------------------------------
// Attribution replay: regexp's own algorithms (replaceAll, Split) re-run over
// COREGEX's single-match results.  If that reproduces what coregex's function
// returned, byte for byte, the C08 layer did exactly what regexp's would have done
// with those matches and the difference from regexp comes from the match engine
// (cause=engine).  Otherwise the template / loop / split logic is to blame
// (cause=c08-layer).
// ---------------------------------------------------------------------------

// c08ReplaySrc is regexp.go:replaceAll with doExecute replaced by find (the engine
// entry point the coregex function under test uses).
func c08ReplaySrc(src []byte, find func(pos int) []int, repl func(dst []byte, m []int) []byte) (buf []byte, panicked string) {
	defer func() {
		if r := recover(); r != nil {
			panicked = fmt.Sprint(r)
		}
	}()
	lastMatchEnd, searchPos := 0, 0
	for searchPos <= len(src) {
		a := find(searchPos)
		if len(a) == 0 {
			break
		}
		buf = append(buf, src[lastMatchEnd:a[0]]...)
		if a[1] > lastMatchEnd || a[0] == 0 {
			buf = repl(buf, a)
		}
		lastMatchEnd = a[1]
		_, width := utf8.DecodeRune(src[searchPos:])
		if searchPos+width > a[1] {
			searchPos += width
		} else if searchPos+1 > a[1] {
			searchPos++
		} else {
			searchPos = a[1]
		}
	}
	buf = append(buf, src[lastMatchEnd:]...)
	return buf, ""
}

// the two single-match entry points of /repo/regex.go's loops
func c08FindSpan(eng *meta.Engine, src []byte) func(int) []int {
	return func(pos int) []int {
		s, e, ok := eng.FindIndicesAt(src, pos)
		if !ok {
			return nil
		}
		return []int{s, e}
	}
}

func c08FindSub(eng *meta.Engine, src []byte) func(int) []int {
	n := eng.NumCaptures()
	return func(pos int) []int {
		md := eng.FindSubmatchAt(src, pos)
		if md == nil {
			return nil
		}
		out := make([]int, 2*n)
		for i := 0; i < n; i++ {
			if idx := md.GroupIndex(i); len(idx) >= 2 {
				out[2*i], out[2*i+1] = idx[0], idx[1]
			} else {
				out[2*i], out[2*i+1] = -1, -1
			}
		}
		return out
	}
}

// c08ReplaySplit is regexp.go:Split over matches = coregex's FindAllStringIndex(s, n).
func c08ReplaySplit(patternNonEmpty bool, s string, n int, matches [][]int) (res []string, panicked string) {
	defer func() {
		if r := recover(); r != nil {
			panicked = fmt.Sprint(r)
		}
	}()
	if n == 0 {
		return nil, ""
	}
	if patternNonEmpty && len(s) == 0 {
		return []string{""}, ""
	}
	out := make([]string, 0, len(matches))
	beg, end := 0, 0
	for _, m := range matches {
		if n > 0 && len(out) >= n-1 {
			break
		}
		end = m[0]
		if m[1] != 0 {
			out = append(out, s[beg:end])
		}
		beg = m[1]
	}
	if end != len(s) {
		out = append(out, s[beg:])
	}
	return out, ""
}

func c08EqStrings(a, b []string) bool {
	if (a == nil) != (b == nil) || len(a) != len(b) {
		return false
	}
	for i := range a {
		if a[i] != b[i] {
			return false
		}
	}
	return true
}

// every group (-1,-1) or 0 <= s <= e <= n: the domain of Replace.v's theorems
func c08WellFormed(ms [][]int, n int) bool {
	for _, m := range ms {
		for i := 0; i+1 < len(m); i += 2 {
			if m[i] == -1 && m[i+1] == -1 {
				continue
			}
			if m[i] < 0 || m[i] > m[i+1] || m[i+1] > n {
				return false
			}
		}
	}
	return true
}

func c08Names(re *regexp.Regexp) string {
	parts := []string{}
	for _, n := range re.SubexpNames() {
		parts = append(parts, coqString(n))
	}
	return "[" + strings.Join(parts, ";") + "]"
}

func c08Matches(ms [][]int) string {
	parts := make([]string, len(ms))
	for i, m := range ms {
		parts[i] = coqZList(m) + "%Z"
	}
	return "[" + strings.Join(parts, ";") + "]"
}

func c08Obs(pieces [][]byte) string {
	parts := make([]string, len(pieces))
	for i, p := range pieces {
		parts[i] = coqBytes(p)
	}
	return "[" + strings.Join(parts, ";") + "]"
}

// tick numbers an evaluation; the number is the Coq case id, so that case ids depend on
// the seed only (not on what the implementation answers).
func (rr *c08Run) tick() (id int, sampled bool) {
	rr.evalNo++
	return rr.evalNo, rr.evalNo%rr.caseMod == 0
}

// emit writes the Coq case of a sampled evaluation, unless its verdict would depend on
// the engine (consistent == false) or it is too large for the checker.
func (rr *c08Run) emit(id int, sampled, consistent bool, api int, names string, patNonEmpty bool, dst, tmpl, src []byte, ms [][]int, n int, obs [][]byte, obsNil bool, differs bool) {
	if !sampled || len(rr.cases) >= rr.caseCap || len(src) > 80 || len(ms) > 40 || len(tmpl) > 60 {
		return
	}
	if !consistent || !c08WellFormed(ms, len(src)) {
		rr.skipped++
		return
	}
	rr.cases = append(rr.cases, fmt.Sprintf(" mk_case %d %d %s %s %s %s %s %s%%Z %s %s %s", id, api, coqBytes(dst), coqBytes(tmpl), coqBytes(src),
		c08Matches(ms), names, coqZ(n), coqBool(patNonEmpty), c08Obs(obs), coqBool(obsNil)))
	if differs {
		rr.expected = append(rr.expected, id)
	}
}

func (rr *c08Run) violate(c *rxCase, api, cause, mech string, src []byte, tmpl string, n int, want, got string, extra map[string]any) {
	d := map[string]any{"api": api, "cause": cause, "mechanism": mech, "pattern": c.pat, "src_hex": hex.EncodeToString(src), "src": string(src),
		"template": tmpl, "template_hex": hex.EncodeToString([]byte(tmpl)), "n": n, "expected": want, "got": got, "strategy": stratOf(c), "pattern_source": c.src}
	for k, v := range extra {
		d[k] = v
	}
	sig := fmt.Sprintf("%s pat=%q src=%s tmpl=%q n=%d got=%s cause=%s", api, c.pat, hex.EncodeToString(src), tmpl, n, got, cause)
	kind := api + ":" + cause
	rr.st.hist("violation:" + kind + ":" + mech)
	if rr.causes == nil {
		rr.causes = map[string]int{}
		rr.perKind = map[string]int{}
	}
	rr.causes[cause]++
	// at most 150 patterns (2 violations each) recorded per (api, cause, mechanism): one
	// frequent class must not crowd the others out of the 3000 recorded violations
	grp := kind + ":" + mech
	key := grp + "\x00" + c.pat
	rr.perKind[key]++
	if rr.perKind[key] == 1 {
		rr.perKind[grp]++
	}
	// (volume is handled by stats.violate: recorded inputs of the ledger are only counted)
	rr.st.violate(violation{Kind: kind, Case: c.idx, Detail: d, Sig: sig, Expected: want, Got: got})
}

// aliasing: flipping every byte of the result must leave src alone
func c08Aliases(res, src []byte) bool {
	if len(res) == 0 || len(src) == 0 {
		return false
	}
	keep := append([]byte(nil), src...)
	for i := range res {
		res[i] ^= 0xff
	}
	bad := !bytes.Equal(keep, src)
	for i := range res {
		res[i] ^= 0xff
	}
	copy(src, keep)
	return bad
}

// c08Engine returns the meta.Engine INSIDE the coregex.Regex under test (unexported
// field "engine", read through reflect + unsafe; nothing in /repo is modified).  The
// replay must run on this very instance: the engine keeps caches, and a second
// instance compiled from the same pattern has a different history (seen in practice:
// the lazy DFA of `aab|b|zz|abc` answers FindIndicesAt("abczz", 0) = [1,2] after a long
// series of other calls and [0,3] when fresh).  Falls back to the separately compiled
// engine if the field is not there.
func c08Engine(c *rxCase) *meta.Engine {
	defer func() { _ = recover() }()
	v := reflect.ValueOf(c.cx)
	if v.Kind() == reflect.Ptr && !v.IsNil() {
		f := v.Elem().FieldByName("engine")
		if f.IsValid() && f.Kind() == reflect.Ptr && f.CanAddr() {
			if e := *(**meta.Engine)(unsafe.Pointer(f.UnsafeAddr())); e != nil {
				return e
			}
		}
	}
	return c.eng
}

func consistentFormulaEq(src []byte, cxAll [][]int, ok bool, repl func(dst []byte, m []int) []byte, got []byte) bool {
	if !ok {
		return false
	}
	f, fp := c08Call(func() any { return c08FromMatches(src, cxAll, func(m []int) []byte { return repl(nil, m) }) })
	return fp == "" && bytes.Equal(f.([]byte), got)
}

func c08Cause(engine bool) string {
	if engine {
		return "engine"
	}
	return "c08-layer"
}

func (rr *c08Run) checkPair(c *rxCase, src []byte, tmpls []string, r *rng) {
	st := rr.st
	s := string(src)
	patNonEmpty := c.pat != ""
	eng := c08Engine(c)
	stdAll := c.std.FindAllSubmatchIndex(src, -1)
	if len(stdAll) > 0 {
		st.hist("pairs:with-match")
	} else {
		st.hist("pairs:no-match")
	}
	// coregex's own match list: what the Coq spec side is computed from
	var cxAll [][]int
	cxAllOK := false
	if v, pn := c08Call(func() any { return c.cx.FindAllSubmatchIndex(src, -1) }); pn == "" {
		cxAll, cxAllOK = v.([][]int), true
	}
	if !cxAllOK || fmtIntss(cxAll) != fmtIntss(stdAll) {
		st.hist("pairs:engine-differs")
	}
	var cxNamesL []string
	if v, pn := c08Call(func() any { return c.cx.SubexpNames() }); pn == "" {
		cxNamesL = v.([]string)
	}
	nameParts := make([]string, len(cxNamesL))
	for i, n := range cxNamesL {
		nameParts[i] = coqString(n)
	}
	cxNames := "[" + strings.Join(nameParts, ";") + "]"

	// one replace-style evaluation: compare with regexp, attribute, maybe emit
	//   find: the engine entry point the function under test uses
	//   repl: regexp's replacement for a match array
	replaceEval := func(api, mech, tmpl string, want []byte, run func() []byte, isBytes bool, find func(int) []int,
		repl func(dst []byte, m []int) []byte, coqAPI int, tb []byte) {
		st.Evaluations++
		st.hist("api:" + api)
		id, sampled := 0, false
		if coqAPI != 0 {
			id, sampled = rr.tick()
		}
		res, pn := c08Call(func() any { return run() })
		var got []byte
		if pn == "" {
			got = res.([]byte)
		}
		differs := pn != "" || !bytes.Equal(want, got)
		var replay []byte
		replayPanic := "no engine"
		if eng != nil && (differs || sampled) {
			replay, replayPanic = c08ReplaySrc(src, find, repl)
		}
		if differs {
			engine := false
			if pn != "" {
				rr.panics++
				engine = replayPanic == pn
				rr.violate(c, api, c08Cause(engine), "panic", src, tmpl, 0, c08Fmt(want), "panic: "+pn, map[string]any{"replay_panic": replayPanic})
			} else {
				engine = replayPanic == "" && bytes.Equal(replay, got)
				how := "single-match replay"
				if !engine && cxAllOK {
					// second admissible replay: regexp's construction of the result from the list
					// of all matches, over coregex's own FindAllSubmatchIndex (needed when the
					// engine returns a match that ends inside the rune at the search position:
					// regexp.replaceAll then skips to the end of that rune, a situation its own
					// engine never creates)
					if f, fp := c08Call(func() any {
						return c08FromMatches(src, cxAll, func(m []int) []byte { return repl(nil, m) })
					}); fp == "" && bytes.Equal(f.([]byte), got) {
						engine, how = true, "match-list replay"
					}
				}
				rr.violate(c, api, c08Cause(engine), mech, src, tmpl, 0, c08Fmt(want), c08Fmt(got), map[string]any{"attributed_by": how})
			}
		}
		if pn == "" && isBytes && c08Aliases(got, src) {
			rr.violate(c, api, "c08-layer", "aliases-src", src, tmpl, 0, "result does not share memory with src", "modifying the result changed src", nil)
		}
		if coqAPI != 0 && pn == "" {
			// the verdict is engine-independent when regexp's algorithm over coregex's
			// single matches is the match-list formula over coregex's FindAll
			consistent := cxAllOK && replayPanic == "" && c08WellFormed(cxAll, len(src))
			if consistent && sampled {
				formula, fp := c08Call(func() any {
					return c08FromMatches(src, cxAll, func(m []int) []byte { return repl(nil, m) })
				})
				consistent = fp == "" && bytes.Equal(formula.([]byte), replay)
			}
			c08layer := differs && !(replayPanic == "" && bytes.Equal(replay, got)) && !consistentFormulaEq(src, cxAll, cxAllOK, repl, got)
			rr.emit(id, sampled, consistent, coqAPI, cxNames, patNonEmpty, nil, tb, src, cxAll, 0, [][]byte{got}, false, c08layer)
		}
	}
	asBytes := func(f func() string) func() []byte { return func() []byte { return []byte(f()) } }
	var findSpan, findSub func(int) []int
	if eng != nil {
		findSpan, findSub = c08FindSpan(eng, src), c08FindSub(eng, src)
	}

	for _, tmpl := range tmpls {
		tb := []byte(tmpl)
		wantT := c.std.ReplaceAll(src, tb)
		// the oracle's output is a function of its match list (what the Coq spec side computes)
		if fm := c08FromMatches(src, stdAll, func(m []int) []byte { return c.std.Expand(nil, tb, src, m) }); !bytes.Equal(fm, wantT) {
			rr.selfcheck++
			st.Notes = appendNote(st.Notes, fmt.Sprintf("oracle self-check: regexp.ReplaceAll(%q, %q, %q) is not the match-list formula", c.pat, s, tmpl))
		}
		// ReplaceAll searches with FindSubmatchAt when repl contains '$', else with FindIndicesAt
		findT := findSpan
		if bytes.IndexByte(tb, '$') >= 0 {
			findT = findSub
		}
		expandStd := func(dst []byte, m []int) []byte { return c.std.Expand(dst, tb, src, m) }
		literal := func(dst []byte, m []int) []byte { return append(dst, tb...) }
		replaceEval("ReplaceAll", "template", tmpl, wantT, func() []byte { return c.cx.ReplaceAll(src, tb) }, true, findT, expandStd, 2, tb)
		replaceEval("ReplaceAllString", "template", tmpl, []byte(c.std.ReplaceAllString(s, tmpl)), asBytes(func() string { return c.cx.ReplaceAllString(s, tmpl) }), false, findT, expandStd, 0, tb)
		replaceEval("ReplaceAllLiteral", "loop", tmpl, c.std.ReplaceAllLiteral(src, tb), func() []byte { return c.cx.ReplaceAllLiteral(src, tb) }, true, findSpan, literal, 3, tb)
		replaceEval("ReplaceAllLiteralString", "loop", tmpl, []byte(c.std.ReplaceAllLiteralString(s, tmpl)), asBytes(func() string { return c.cx.ReplaceAllLiteralString(s, tmpl) }), false, findSpan, literal, 0, tb)

		// Expand / ExpandString on regexp's first match and on damaged copies of it (the
		// match is an input of Expand: no engine involved, every difference is c08-layer)
		base := c.std.FindSubmatchIndex(src)
		variants := [][]int{base}
		if len(base) >= 2 {
			variants = append(variants, base[:2])
			if len(base) >= 4 {
				g := 1 + r.intn(len(base)/2-1)
				cp := append([]int(nil), base...)
				cp[2*g], cp[2*g+1] = -1, -1
				variants = append(variants, cp, base[:len(base)-1], base[:2*g])
			}
			variants = append(variants, append(append([]int(nil), base...), -1, -1), append(append([]int(nil), base...), 0, len(src)))
		} else {
			variants = append(variants, []int{}, []int{0, len(src)}, []int{-1, -1})
		}
		for vi, mv := range variants {
			var dst []byte
			if (vi+len(tmpl))%2 == 1 {
				dst = []byte("D:")
			}
			st.Evaluations += 2
			st.hist("api:Expand")
			st.hist("api:ExpandString")
			id, sampled := rr.tick()
			want := c.std.Expand(append([]byte(nil), dst...), tb, src, mv)
			res, pn := c08Call(func() any { return c.cx.Expand(append([]byte(nil), dst...), tb, src, mv) })
			extra := map[string]any{"match": fmtInts(mv), "dst": string(dst)}
			if pn != "" {
				rr.panics++
				rr.violate(c, "Expand", "c08-layer", "panic", src, tmpl, 0, c08Fmt(want), "panic: "+pn, extra)
			} else {
				got := res.([]byte)
				differs := !bytes.Equal(got, want)
				if differs {
					rr.violate(c, "Expand", "c08-layer", "template", src, tmpl, 0, c08Fmt(want), c08Fmt(got), extra)
				}
				if len(got) > len(dst) && c08Aliases(got[len(dst):], src) {
					rr.violate(c, "Expand", "c08-layer", "aliases-src", src, tmpl, 0, "fresh", "shares memory with src", extra)
				}
				ms := [][]int{mv}
				if mv == nil {
					ms = nil
				}
				rr.emit(id, sampled, true, 1, cxNames, patNonEmpty, dst, tb, src, ms, 0, [][]byte{got}, false, differs)
			}
			wantS := c.std.ExpandString(append([]byte(nil), dst...), tmpl, s, mv)
			resS, pn := c08Call(func() any { return c.cx.ExpandString(append([]byte(nil), dst...), tmpl, s, mv) })
			if pn != "" {
				rr.panics++
				rr.violate(c, "ExpandString", "c08-layer", "panic", src, tmpl, 0, c08Fmt(wantS), "panic: "+pn, extra)
			} else if gotS := resS.([]byte); !bytes.Equal(gotS, wantS) {
				rr.violate(c, "ExpandString", "c08-layer", "template", src, tmpl, 0, c08Fmt(wantS), c08Fmt(gotS), extra)
			}
		}
	}

	// the function variants
	bracket := func(dst []byte, m []int) []byte { return append(dst, c08Bracket(src[m[0]:m[1]])...) }
	replaceEval("ReplaceAllFunc", "loop", "", c.std.ReplaceAllFunc(src, c08Bracket), func() []byte { return c.cx.ReplaceAllFunc(src, c08Bracket) }, true, findSpan, bracket, 4, nil)
	replaceEval("ReplaceAllStringFunc", "loop", "", []byte(c.std.ReplaceAllStringFunc(s, c08BracketS)), asBytes(func() string { return c.cx.ReplaceAllStringFunc(s, c08BracketS) }), false, findSpan, bracket, 0, nil)
	// the function must be called exactly on regexp's matches, in order
	var wantCalls, gotCalls, replayCalls []string
	c.std.ReplaceAllStringFunc(s, func(m string) string { wantCalls = append(wantCalls, m); return "" })
	if _, pn := c08Call(func() any {
		return c.cx.ReplaceAllStringFunc(s, func(m string) string { gotCalls = append(gotCalls, m); return "" })
	}); pn == "" && !reflect.DeepEqual(wantCalls, gotCalls) {
		engine := false
		if eng != nil {
			_, rp := c08ReplaySrc(src, findSpan, func(dst []byte, m []int) []byte { replayCalls = append(replayCalls, s[m[0]:m[1]]); return dst })
			engine = rp == "" && reflect.DeepEqual(replayCalls, gotCalls)
		}
		if !engine && cxAllOK && c08WellFormed(cxAll, len(src)) {
			// match-list replay: one call per match of coregex's own FindAllSubmatchIndex
			var listCalls []string
			for _, m := range cxAll {
				listCalls = append(listCalls, s[m[0]:m[1]])
			}
			engine = reflect.DeepEqual(listCalls, gotCalls)
		}
		rr.violate(c, "ReplaceAllStringFunc", c08Cause(engine), "calls", src, "", 0, c08Fmt(wantCalls), c08Fmt(gotCalls), nil)
	}

	// Split
	var cxIdx [][]int
	cxIdxOK := false
	if v, pn := c08Call(func() any { return c.cx.FindAllStringIndex(s, -1) }); pn == "" {
		cxIdx, cxIdxOK = v.([][]int), true
	}
	for _, n := range []int{-1, 0, 1, 2, 3, 100} {
		st.Evaluations++
		st.hist("api:Split")
		id, sampled := rr.tick()
		want := c.std.Split(s, n)
		res, pn := c08Call(func() any { return c.cx.Split(s, n) })
		// Split's own input: coregex's FindAllStringIndex(s, n)
		var cxN [][]int
		cxNOK := false
		if v, p2 := c08Call(func() any { return c.cx.FindAllStringIndex(s, n) }); p2 == "" {
			cxN, cxNOK = v.([][]int), true
		}
		var replay []string
		replayPanic := "no match list"
		if cxNOK {
			replay, replayPanic = c08ReplaySplit(patNonEmpty, s, n, cxN)
		}
		if pn != "" {
			rr.panics++
			rr.violate(c, "Split", c08Cause(replayPanic == pn), "panic", src, "", n, c08Fmt(want), "panic: "+pn, nil)
			continue
		}
		got := res.([]string)
		differs := !c08EqStrings(want, got)
		reproduced := replayPanic == "" && c08EqStrings(replay, got)
		if differs {
			mech := "split"
			switch {
			case (want == nil) != (got == nil):
				mech = "split-nil"
			case n == 1:
				mech = "split-n1"
			case len(s) == 0 && c.pat == "":
				mech = "split-empty-pattern-empty-text"
			}
			rr.violate(c, "Split", c08Cause(reproduced), mech, src, "", n, c08Fmt(want), c08Fmt(got), nil)
		}
		// engine-independent verdict: FindAllStringIndex(s, n) is the prefix of
		// FindAllStringIndex(s, -1) that regexp's allMatches would deliver
		consistent := cxIdxOK && cxNOK
		if consistent {
			pre := cxIdx
			if n > 0 && len(pre) > n {
				pre = pre[:n]
			}
			if n == 0 {
				pre = nil
			}
			consistent = n == 0 || fmtIntss(pre) == fmtIntss(cxN)
		}
		obs := make([][]byte, len(got))
		for i := range got {
			obs[i] = []byte(got[i])
		}
		rr.emit(id, sampled, consistent, 5, cxNames, patNonEmpty, nil, nil, src, cxIdx, n, obs, got == nil, differs && !reproduced)
	}
}

func c08Template(r *rng, names []string) string {
	var sb strings.Builder
	k := 1 + r.intn(4)
	for i := 0; i < k; i++ {
		p := c08Pieces[r.intn(len(c08Pieces))]
		if strings.Contains(p, "<N>") {
			nm := "n"
			if len(names) > 0 {
				nm = names[r.intn(len(names))]
			}
			p = strings.ReplaceAll(p, "<N>", nm)
		}
		sb.WriteString(p)
	}
	return sb.String()
}

func cmdC08(args []string) int {
	fs := flag.NewFlagSet("c08", flag.ExitOnError)
	seed := fs.Uint64("seed", 1, "seed")
	tier := fs.String("tier", "quick", "quick|thorough")
	npatF := fs.Int("n", 0, "number of generated patterns (0: tier default)")
	corpus := fs.String("corpus", "/verif/corpus/patterns_harvested.txt", "pattern corpus")
	outPath := fs.String("out", "cases.v", "Coq case file")
	statsPath := fs.String("stats", "stats.json", "stats output")
	fs.Parse(args)
	noLongHays = *tier == "thorough" // the thorough ledgers predate the long-haystack families (DESIGN section 5)
	t0 := time.Now()

	npat, nhay, ntmpl, caseCap := 260, 12, 3, 600
	if *tier == "thorough" {
		npat, nhay, ntmpl, caseCap = 2500, 24, 5, 1500
	}
	if *npatF > 0 {
		npat = *npatF
	}
	st := newStats("C08", *seed)
	rr := &c08Run{st: st, caseCap: caseCap}
	// expected number of sampled evaluations: spread the Coq cases over the whole run
	perPair := ntmpl*(2+7) + 1 + 6
	rr.caseMod = (npat+len(c08Patterns))*(nhay+4)*perPair/caseCap + 1

	r := newRng(*seed)
	pg := &patGen{r: r.fork(1), corpus: loadCorpus(*corpus)}
	tr := r.fork(2)
	distinct := distinctSet{}
	rot := 0
	total := len(c08Patterns) + npat
	for i := 0; i < total; i++ {
		var pat, psrc string
		if i < len(c08Patterns) {
			pat, psrc = c08Patterns[i], "c08"
		} else {
			pat, psrc = pg.next(i - len(c08Patterns))
		}
		c, why := prepCase(i, pat, psrc, nil)
		if c == nil {
			st.hist("skip:" + why)
			continue
		}
		if c.cx == nil {
			st.hist("coregex-rejects")
			st.Notes = appendNote(st.Notes, fmt.Sprintf("coregex rejects %q: %s (C09's business)", pat, why))
			continue
		}
		st.hist("src:" + psrc)
		var names []string
		for _, n := range c.std.SubexpNames() {
			if n != "" {
				names = append(names, n)
			}
		}
		if len(names) > 0 {
			st.hist("pattern:named-groups")
		}
		if c.std.NumSubexp() >= 10 {
			st.hist("pattern:10+groups")
		}
		hg := newHayGen(r.fork(uint64(i)+1000), c.re)
		pr := r.fork(uint64(i) + 500000)
		long := hg.longHays()
		for j := 0; j < nhay+4+len(long); j++ {
			var h []byte
			if j < nhay {
				h = hg.next(j)
			} else if j < nhay+4 {
				h = []byte(c08Texts[(i*4+j)%len(c08Texts)])
			} else {
				h = long[j-nhay-4] // > 4 KiB ASCII, then a late non-ASCII rune
			}
			if len(h) > 400 && j < nhay+4 {
				h = h[:400]
			}
			key := pat + "\x00" + string(h)
			if _, dup := distinct[key]; dup {
				continue
			}
			distinct.add(key)
			tmpls := make([]string, 0, ntmpl)
			tmpls = append(tmpls, c08Templates[rot%len(c08Templates)])
			rot++
			for len(tmpls) < ntmpl {
				tmpls = append(tmpls, c08Template(tr, names))
			}
			rr.checkPair(c, h, tmpls, pr)
			if j == 1 && len(tmpls) > 1 {
				st.sample(map[string]any{"pattern": pat, "src": string(h), "template": tmpls[1], "std": string(c.std.ReplaceAll(h, []byte(tmpls[1])))})
			}
		}
	}
	st.Distinct = len(distinct)
	st.Rule = "patterns: 38 template-language patterns (named, >9, unmatched, digit-named groups, nullable) + curated strategy triggers + harvested corpus + templates + grammar; texts: 12 AST-derived shapes + 4 of 20 fixed multi-byte / invalid-UTF-8 / separator texts; templates: 1 of 31 fixed templates in rotation + random concatenations of 1-4 of 87 pieces of the $-language; Split n in {-1,0,1,2,3,100}; Expand on regexp's first match and 4-6 damaged copies with empty and non-empty dst. distinct = distinct (pattern, text)"

	var sb strings.Builder
	sb.WriteString("From CV Require Import Replace.\nFrom Coq Require Import List NArith ZArith.\nImport ListNotations.\nOpen Scope N_scope.\n")
	fmt.Fprintf(&sb, "(* harness c08 -seed %d -tier %s: %d cases (cid = evaluation number, a function of the seed only).\n", *seed, *tier, len(rr.cases))
	sb.WriteString("   These cases isolate the C08 layer from the match engine.  The observed output (cobs) is\n")
	sb.WriteString("   coregex's; the match lists (cms) are the ones COREGEX's own FindAllSubmatchIndex /\n")
	sb.WriteString("   FindAllStringIndex returned, not regexp's; for Expand the match is an input (regexp's first\n")
	sb.WriteString("   match and damaged copies).  A sampled evaluation is emitted only if its verdict cannot depend\n")
	sb.WriteString("   on the engine: regexp's replaceAll re-run over coregex's single-match functions equals the\n")
	sb.WriteString("   match-list formula over cms, FindAllStringIndex(s,n) is the prefix of FindAllStringIndex(s,-1),\n")
	fmt.Fprintf(&sb, "   all match arrays are well formed (%d sampled evaluations were left out for that reason).\n", rr.skipped)
	sb.WriteString("   M: observed <> regexp's algorithm on those matches; MM: observed <> model of the current code;\n")
	sb.WriteString("   all three lists are expected to be [].  MO (informational): observed <> model of the original code. *)\n")
	sb.WriteString("Definition cases : list case := [\n")
	sb.WriteString(strings.Join(rr.cases, ";\n"))
	sb.WriteString("\n].\nDefinition M := Eval vm_compute in mismatches cases.\nPrint M.\n")
	sb.WriteString("Definition MM := Eval vm_compute in model_mismatches cases.\nPrint MM.\n")
	sb.WriteString("Definition ILL := Eval vm_compute in ill_formed cases.\nPrint ILL.\n")
	sb.WriteString("Definition MO := Eval vm_compute in mismatches_original cases.\nPrint MO.\n")
	if err := os.WriteFile(*outPath, []byte(sb.String()), 0o644); err != nil {
		fatal("c08: %v", err)
	}
	st.CoqCases = len(rr.cases)
	st.Extra["coq_expected_mismatches"] = rr.expected
	st.Extra["coq_skipped_engine_dependent"] = rr.skipped
	rc := map[string]int{"engine": 0, "c08-layer": 0}
	for k, v := range rr.causes {
		rc[k] = v
	}
	st.Extra["root_causes"] = rc
	st.Extra["oracle_selfcheck_failures"] = rr.selfcheck
	st.Extra["panics"] = rr.panics
	st.Extra["seconds"] = time.Since(t0).Seconds()
	st.write(*statsPath)
	fmt.Fprintf(os.Stderr, "c08: %d evaluations, %d distinct (pattern,text), %d coq cases (%d expected mismatches, %d engine-dependent left out), %d violations (%d recorded; engine %d, c08-layer %d), %.1fs\n",
		st.Evaluations, st.Distinct, st.CoqCases, len(rr.expected), rr.skipped, st.TotalViolations, len(st.Violations), rc["engine"], rc["c08-layer"], time.Since(t0).Seconds())
	return 0
}
