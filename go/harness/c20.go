package main

import (
	"flag"
	"fmt"
	"os"
	"regexp/syntax"
	"runtime"
	"sort"
	"strings"
	"testing"
	"time"

	"github.com/coregx/coregex"
	"github.com/coregx/coregex/dfa/lazy"
	"github.com/coregx/coregex/meta"
	"github.com/coregx/coregex/nfa"
)

// ---------------------------------------------------------------------------
// `c20`: bounded memory / zero allocation (property C20).
//   (a) lazy.DFA driven directly with one DFACache over search histories: after every
//       search MemoryUsage() must obey the bound of Cache.cache_mem_bound_obs, ClearCount()
//       the bound of clear_count_bounded; raw traces of the exported cache primitives must
//       be reproduced exactly by the accounting model (Go port below and Coq checker).
//   (b) nfa.BoundedBacktracker + one BacktrackerState: cap(Visited) <= MaxVisitedSize().
//   (c) heap retained per Regex after k searches does not depend on k.
//   (d) the calls documented as zero-allocation allocate nothing once warmed up.
// ---------------------------------------------------------------------------

// strategy-covering corpus (the strategy is read from meta at run time and reported)
var c20Patterns = []string{
	// UseNFA / UseDFA / UseBoth
	`a`, `(a|b)*abb`, `(a|b)*a(a|b){6}`, `[a-z]+[0-9]+x`, `\w+@\w+\.\w+`, `(a*)*b`, `(?:a|ab)(?:c|bcd)`, `a.*c`, `(?s)a.c`,
	`(\w{2,8})+`, `x*`, `\d+\.\d+\.\d+`, `(?i)hello|world`, `[^a]*a[^b]*b[^c]*c`, `\bfoo\b`, `(?i)[a-z]+ing`,
	// reverse strategies
	`.*\.txt`, `.*foo`, `abc$`, `[a-z]+foo$`, `.*\.(txt|log|md)`, `ERROR.*timeout`, `a.*bcd.*e`, `\w+@\w+\.com`, `(?m)^.*\.php`, `(?m)^/.*[\w-]+\.php`,
	// anchored
	`^abc`, `^(\d+)-(\d+)$`, `^prefix.*suffix$`, `^/.*\.php$`, `^(foo|bar|qux)`, `^(\d+|UUID|hex32)`, `^(\w+)@(\w+)\.(\w+)$`,
	// literal alternations
	`foo|bar|baz`, `apple|banana|cherry|date|elder|fig|grape|honey|iris`,
	`aa|ab|ac|ad|ae|af|ag|ah|ai|aj|ak|al|am|an|ao|ap|aq|ar|as|at|au|av|aw|ax|ay|az|ba|bb|bc|bd|be|bf|bg|bh|bi|bj`,
	// char classes / composite / digit prefilter / backtracker
	`[a-z]+`, `\d+`, `\w+`, `[a-z]+[0-9]+`, `[a-zA-Z]+[0-9]+[a-z]*`, `\d+\.\d+\.\d+\.\d+`, `(\d{1,3}\.){3}\d{1,3}`, `[0-9]{1,3}\.[0-9]{1,3}`,
	`(a)(b)`, `(a+)(a+)(a+)b`, `(\w+)\s(\w+)`, `[а-я]+`, `\p{Greek}+`, `(?i)привет`, `世界`,
}

type c20Run struct {
	st       *stats
	r        *rng
	distinct distinctSet
	coq      strings.Builder
	ncoq     int
	maxCoq   int
	tier     string
}

func c20Strategy(pat string) (string, *meta.Engine) {
	eng, err := meta.Compile(pat)
	if err != nil {
		return "compile-error", nil
	}
	return eng.Strategy().String(), eng
}

// ---- Go port of Cache.v (accounting of dfa/lazy/cache.go) for the raw traces ----
type c20Model struct {
	nmap, slen, flat, stride, ids, accel, capacity, next, clears int
}

func (m *c20Model) mem() int { return 4*m.flat + 8*m.slen + 48*m.nmap + 4*m.ids + m.accel }
func (m *c20Model) insert() bool {
	if m.mem() >= m.capacity {
		return false
	}
	id := m.next
	m.next++
	m.nmap++
	if m.stride > 0 && (id+1)*m.stride > m.flat {
		m.flat = (id + 1) * m.stride
	}
	return true
}
func (m *c20Model) clearKeep() {
	m.nmap, m.slen, m.flat, m.ids, m.accel, m.next = 0, 0, 0, 0, 0, 1
	m.clears++
}
func (m *c20Model) reset() {
	m.nmap, m.slen, m.flat, m.ids, m.accel, m.next, m.clears = 0, 0, 0, 0, 0, 1, 0
}

func c20Bound(capacity, stride, maxK, size int) int {
	// Cache.cache_mem_bound_obs: mem < cap + state_cost + slot0_cost + 3*(size+1)
	return capacity + (48 + 8 + 4*stride + 4*maxK) + (8 + 4*stride) + 3*(size+1)
}

func (rr *c20Run) emitCase(kind, capacity, stride, maxK, maxClears int, comment string, obs []string) {
	if rr.ncoq >= rr.maxCoq {
		return
	}
	if rr.ncoq > 0 {
		rr.coq.WriteString(";\n")
	}
	fmt.Fprintf(&rr.coq, "  (* %s *)\n  mkCase %d %d %d %d %d %d [%s]", strings.ReplaceAll(strings.ReplaceAll(comment, "*)", "* )"), "(*", "( *"),
		rr.ncoq, kind, capacity, stride, maxK, maxClears, strings.Join(obs, ";"))
	rr.ncoq++
}

var c20DFAPatterns = []string{
	`(a|b)*a(a|b){6}`, `[a-z]+[0-9]+x`, `\w+@\w+\.\w+`, `(a|b)*abb`, `[^a]*a[^b]*b[^c]*c[^d]*d[^e]*e`,
	`(?i)foo\d+bar`, `\d+\.\d+\.\d+`, `(?m)^.*\.php$`, `\bfoo\b`, `(a|b)*a(a|b){8}`, `(foo|bar|baz|qux)+\d`, `[a-f]{3,9}[0-9]*z`,
}

func c20Alphabet(pat string) []byte {
	re, err := syntax.Parse(pat, syntax.Perl)
	set := map[rune]bool{}
	if err == nil {
		alphabetOf(re, set)
	}
	var out []byte
	for c := range set {
		if c < 0x80 {
			out = append(out, byte(c))
		}
	}
	sort.Slice(out, func(i, j int) bool { return out[i] < out[j] })
	out = append(out, ' ', '\n', 'z', '0')
	return out
}

func c20RandHay(r *rng, alpha []byte, maxLen int) []byte {
	n := r.intn(maxLen + 1)
	h := make([]byte, n)
	// a few runs so that classes with + see long stretches
	for i := 0; i < n; {
		c := alpha[r.intn(len(alpha))]
		run := 1
		if r.chance(30) {
			run = 1 + r.intn(12)
		}
		for k := 0; k < run && i < n; k++ {
			h[i] = c
			i++
		}
	}
	return h
}

// (a) search histories on one DFACache
func (rr *c20Run) cacheHistories() {
	caps := []int{200, 600, 1600, 4096, 16384, 65536}
	mcs := []int{0, 1, 5, 1000}
	nsearch := 30
	if rr.tier == "thorough" {
		nsearch = 120
	}
	idx := 0
	for _, pat := range c20DFAPatterns {
		re, err := syntax.Parse(pat, syntax.Perl)
		if err != nil {
			continue
		}
		n, err := nfa.NewDefaultCompiler().CompileRegexp(re)
		if err != nil {
			rr.st.hist("cache:skip-nfacompile")
			continue
		}
		alpha := c20Alphabet(pat)
		for _, capacity := range caps {
			for _, mc := range mcs {
				idx++
				cfg := lazy.DefaultConfig()
				cfg.CacheCapacityBytes = capacity
				cfg.MaxCacheClears = mc
				d, err := lazy.CompileWithConfig(n, cfg)
				if err != nil {
					rr.st.hist("cache:skip-dfacompile")
					continue
				}
				cache := d.NewCache()
				stride, maxK := d.AlphabetLen(), n.States()
				r := rr.r.fork(uint64(idx) + 100)
				var obs []string
				maxMem, literal := 0, true
				violated := false
				for s := 0; s < nsearch; s++ {
					h := c20RandHay(r, alpha, 400)
					api := r.intn(4)
					panicked := ""
					func() {
						defer func() {
							if p := recover(); p != nil {
								panicked = fmt.Sprint(p)
							}
						}()
						switch api {
						case 0:
							d.FindAt(cache, h, 0)
						case 1:
							d.IsMatch(cache, h)
						case 2:
							d.SearchAt(cache, h, r.intn(len(h)+1))
						case 3:
							d.SearchFirstAt(cache, h, 0)
						}
					}()
					rr.st.Evaluations++
					mem, size, clears := cache.MemoryUsage(), cache.Size(), cache.ClearCount()
					obs = append(obs, fmt.Sprintf("mkObs 0 0 %d %d %d", mem, size, clears))
					if mem > maxMem {
						maxMem = mem
					}
					if mem >= capacity+(48+8+4*stride+4*maxK)+3 {
						literal = false
					}
					if panicked != "" {
						rr.st.hist("cache:panic")
						rr.st.violate(violation{Kind: "cache-panic", Case: idx,
							Detail: map[string]any{"pattern": pat, "capacity": capacity, "max_clears": mc, "search": s, "api": api, "haystack": string(h), "panic": panicked},
							Sig:    fmt.Sprintf("cache-panic pat=%q cap=%d mc=%d", pat, capacity, mc), RC: "cache-panic/lazyDFA"})
					}
					if !violated && (mem >= c20Bound(capacity, stride, maxK, size) || clears > mc) {
						violated = true
						what := "memory"
						if clears > mc {
							what = "clears"
						}
						rr.st.violate(violation{Kind: "cache-bound", Case: idx,
							Detail: map[string]any{"pattern": pat, "capacity": capacity, "max_clears": mc, "search": s, "stride": stride, "nfa_states": maxK,
								"memory_usage": mem, "size": size, "clear_count": clears, "bound": c20Bound(capacity, stride, maxK, size), "what": what},
							Sig:      fmt.Sprintf("cache-bound %s pat=%q cap=%d mc=%d", what, pat, capacity, mc),
							RC:       "cache-bound/lazyDFA",
							Expected: fmt.Sprintf("MemoryUsage < %d, ClearCount <= %d", c20Bound(capacity, stride, maxK, size), mc),
							Got:      fmt.Sprintf("MemoryUsage=%d ClearCount=%d", mem, clears)})
					}
				}
				rr.distinct.add(fmt.Sprintf("cache|%s|%d|%d", pat, capacity, mc))
				if cache.ClearCount() > 0 {
					rr.st.hist("cache:history-with-clears")
				}
				if maxMem >= capacity {
					rr.st.hist("cache:reached-capacity")
				}
				if !literal {
					rr.st.hist("cache:exceeds-capacity-plus-one-state(literal wording)")
				}
				rr.emitCase(0, capacity, stride, maxK, mc, fmt.Sprintf("%s cap=%d mc=%d", pat, capacity, mc), obs)
				if idx%37 == 0 {
					rr.st.sample(map[string]any{"check": "cache-history", "pattern": pat, "capacity": capacity, "max_clears": mc, "stride": stride, "nfa_states": maxK,
						"max_memory_usage": maxMem, "final_size": cache.Size(), "final_clears": cache.ClearCount()})
				}
			}
		}
	}
}

// (a') raw traces of the exported cache primitives
func (rr *c20Run) cacheRawTraces() {
	ntr := 60
	if rr.tier == "thorough" {
		ntr = 400
	}
	pats := []string{`(a|b)*abb`, `[a-z]+[0-9]+x`, `\w+@\w+\.\w+`, `(?s).*x`}
	for t := 0; t < ntr; t++ {
		r := rr.r.fork(uint64(t) + 70000)
		pat := pats[t%len(pats)]
		re, _ := syntax.Parse(pat, syntax.Perl)
		n, err := nfa.NewDefaultCompiler().CompileRegexp(re)
		if err != nil {
			continue
		}
		capacity := []int{100, 200, 500, 1000, 3000, 10000}[r.intn(6)]
		cfg := lazy.DefaultConfig()
		cfg.CacheCapacityBytes = capacity
		d, err := lazy.CompileWithConfig(n, cfg)
		if err != nil {
			continue
		}
		cache := d.NewCache()
		stride := d.AlphabetLen()
		m := &c20Model{stride: stride, capacity: capacity, next: 1}
		var obs []string
		var keys []lazy.StateKey
		fresh := uint32(0)
		nops := 20 + r.intn(40)
		ok, reported := true, false
		for i := 0; i < nops; i++ {
			op, k := 1, 1+r.intn(6)
			switch x := r.intn(100); {
			case x < 70:
				op = 1
			case x < 78 && len(keys) > 0:
				op = 2
			case x < 86:
				op = 3
			case x < 91:
				op = 4
			case x < 95:
				op = 5
			default:
				op = 6
			}
			switch op {
			case 1:
				ids := make([]nfa.StateID, k)
				for j := range ids {
					fresh++
					ids[j] = nfa.StateID(fresh)
				}
				key := lazy.ComputeStateKeyWithWord(ids, false)
				stt := lazy.NewStateWithStride(lazy.InvalidState, ids, false, false, stride)
				_, err := cache.Insert(key, stt)
				if m.insert() != (err == nil) {
					ok = false
				}
				if err == nil {
					keys = append(keys, key)
				}
			case 2:
				key := keys[r.intn(len(keys))]
				stt := lazy.NewStateWithStride(lazy.InvalidState, []nfa.StateID{1}, false, false, stride)
				cache.Insert(key, stt)
			case 3:
				cache.ClearKeepMemory()
				m.clearKeep()
				keys = keys[:0]
			case 4:
				cache.Reset()
				m.reset()
				keys = keys[:0]
			case 5:
				cache.Clear()
				m.reset()
				keys = keys[:0]
			case 6:
				cache.ResetClearCount()
				m.clears = 0
			}
			rr.st.Evaluations++
			mem, size, clears := cache.MemoryUsage(), cache.Size(), cache.ClearCount()
			obs = append(obs, fmt.Sprintf("mkObs %d %d %d %d %d", op, k, mem, size, clears))
			if mem != m.mem() || size != m.nmap || clears != m.clears {
				ok = false
			}
			if !ok && !reported {
				reported = true
				rr.st.violate(violation{Kind: "cache-model", Case: t,
					Detail: map[string]any{"pattern": pat, "capacity": capacity, "stride": stride, "op_index": i, "op": op,
						"observed": []int{mem, size, clears}, "model": []int{m.mem(), m.nmap, m.clears}},
					Sig:      fmt.Sprintf("cache-model trace=%d cap=%d stride=%d op=%d", t, capacity, stride, op),
					RC:       "cache-model/lazyDFA",
					Expected: fmt.Sprint([]int{m.mem(), m.nmap, m.clears}), Got: fmt.Sprint([]int{mem, size, clears})})
			}
		}
		rr.distinct.add(fmt.Sprintf("raw|%d", t))
		rr.st.hist("cache:raw-trace")
		rr.emitCase(1, capacity, stride, n.States(), 0, fmt.Sprintf("raw trace %d %s", t, pat), obs)
	}
}

// (b) visited table of the bounded backtracker
func (rr *c20Run) backtrackerCap() {
	nhist := 40
	if rr.tier == "thorough" {
		nhist = 200
	}
	for i, pat := range c20Patterns {
		re, err := syntax.Parse(pat, syntax.Perl)
		if err != nil {
			continue
		}
		n, err := nfa.NewDefaultCompiler().CompileRegexp(re)
		if err != nil {
			continue
		}
		alpha := c20Alphabet(pat)
		for variant := 0; variant < 2; variant++ {
			var bt *nfa.BoundedBacktracker
			if variant == 0 {
				bt = nfa.NewBoundedBacktrackerSmall(n)
			} else {
				bt = nfa.NewBoundedBacktracker(n)
			}
			st := nfa.NewBacktrackerState()
			r := rr.r.fork(uint64(i*2+variant) + 20000)
			maxCap := 0
			for c := 0; c < nhist; c++ {
				// lengths around the CanHandle limit of the small variant, and small ones
				maxLen := 300
				if variant == 0 && r.chance(25) {
					maxLen = bt.MaxInputSize() + 50
					if maxLen > 40000 {
						maxLen = 40000
					}
				}
				h := c20RandHay(r, alpha, maxLen)
				st.Longest = r.chance(20)
				func() {
					defer func() { recover() }()
					switch r.intn(3) {
					case 0:
						bt.IsMatchWithState(h, st)
					case 1:
						bt.IsMatchAnchoredWithState(h, st)
					case 2:
						bt.SearchAtWithState(h, r.intn(len(h)+1), st)
					}
				}()
				rr.st.Evaluations++
				if cap(st.Visited) > maxCap {
					maxCap = cap(st.Visited)
				}
				if cap(st.Visited) > bt.MaxVisitedSize() {
					rr.st.violate(violation{Kind: "visited-cap", Case: i,
						Detail: map[string]any{"pattern": pat, "variant": variant, "cap": cap(st.Visited), "max": bt.MaxVisitedSize(), "haystack_len": len(h)},
						Sig:    fmt.Sprintf("visited-cap pat=%q variant=%d", pat, variant), RC: "visited-cap/BoundedBacktracker"})
					break
				}
			}
			rr.distinct.add(fmt.Sprintf("bt|%s|%d", pat, variant))
			if maxCap*2 > bt.MaxVisitedSize() {
				rr.st.hist("bt:table-above-half-cap")
			}
			rr.st.hist("bt:history")
		}
	}
}

func c20HeapNow() uint64 {
	runtime.GC()
	runtime.GC()
	var ms runtime.MemStats
	runtime.ReadMemStats(&ms)
	return ms.HeapAlloc
}

// deterministic haystack #j for a pattern (mixed lengths <= 4 KiB)
func c20HeapHay(r *rng, alpha []byte, j int) []byte {
	maxLen := 64
	switch {
	case j%50 == 7:
		maxLen = 4096
	case j%10 == 3:
		maxLen = 1024
	case j%3 == 0:
		maxLen = 256
	}
	h := c20RandHay(r, alpha, maxLen)
	if j < 8 { // warm-up: the longest haystacks come first (all four APIs twice)
		for len(h) < 4096 {
			h = append(h, c20RandHay(r, alpha, 512)...)
			h = append(h, 'a')
		}
		h = h[:4096]
	}
	return h
}

// (c) heap retained per Regex
func (rr *c20Run) heapPerRegex(deadline time.Time) {
	ks := []int{10, 100, 1000, 10000}
	if rr.tier == "thorough" {
		ks = []int{10, 100, 1000, 10000, 50000}
	}
	const tolerance = 64 << 10
	for i, pat := range c20Patterns {
		if time.Now().After(deadline) {
			rr.st.hist("heap:skipped-deadline")
			continue
		}
		strat, _ := c20Strategy(pat)
		if strat == "UseCompositeSearcher" {
			// known superlinear (C05): keep haystacks short through the alphabet below
		}
		re, err := coregex.Compile(pat)
		if err != nil {
			continue
		}
		alpha := c20Alphabet(pat)
		r := rr.r.fork(uint64(i) + 30000)
		done := 0
		var heaps []uint64
		for _, k := range ks {
			for ; done < k; done++ {
				h := c20HeapHay(r, alpha, done)
				if strat == "UseCompositeSearcher" && len(h) > 200 {
					h = h[:200]
				}
				switch done % 4 {
				case 0:
					re.Match(h)
				case 1:
					re.FindIndex(h)
				case 2:
					re.FindAllIndex(h, -1)
				case 3:
					re.FindSubmatchIndex(h)
				}
				rr.st.Evaluations++
			}
			heaps = append(heaps, c20HeapNow())
		}
		runtime.KeepAlive(re)
		rr.distinct.add("heap|" + pat)
		rr.st.hist("heap:" + strat)
		base, last := heaps[1], heaps[len(heaps)-1]
		if last > base+tolerance {
			rr.st.violate(violation{Kind: "heap-growth", Case: i,
				Detail: map[string]any{"pattern": pat, "strategy": strat, "ks": ks, "heap_alloc": heaps, "tolerance": tolerance},
				Sig:    fmt.Sprintf("heap-growth pat=%q strategy=%s", pat, strat), RC: "heap-growth/" + strat,
				Expected: fmt.Sprintf("HeapAlloc(k=%d) <= HeapAlloc(k=100) + %d", ks[len(ks)-1], tolerance), Got: fmt.Sprint(heaps)})
		}
		if i%9 == 0 {
			rr.st.sample(map[string]any{"check": "heap", "pattern": pat, "strategy": strat, "ks": ks, "heap_alloc": heaps})
		}
	}
}

type c20Shape struct {
	name string
	gen  func(pat string, alpha []byte, n int, r *rng) []byte
}

func c20Shapes() []c20Shape {
	return []c20Shape{
		{"ascii", func(pat string, alpha []byte, n int, r *rng) []byte {
			h := make([]byte, n)
			for i := range h {
				h[i] = alpha[r.intn(len(alpha))]
			}
			return h
		}},
		{"nonascii", func(pat string, alpha []byte, n int, r *rng) []byte {
			words := []string{"é", "я", "世", "😀", "α", "привет", " ", "a", "1"}
			var sb []byte
			for len(sb) < n {
				sb = append(sb, words[r.intn(len(words))]...)
			}
			return sb[:n]
		}},
		{"nomatch", func(pat string, alpha []byte, n int, r *rng) []byte {
			return []byte(strings.Repeat("~", n))
		}},
		{"manymatch", func(pat string, alpha []byte, n int, r *rng) []byte {
			re, err := syntax.Parse(pat, syntax.Perl)
			var sb []byte
			for len(sb) < n {
				var m []byte
				if err == nil {
					m = sampleMatch(r, re, 0)
				}
				if len(m) == 0 {
					m = []byte("a")
				}
				sb = append(sb, m...)
				sb = append(sb, ' ')
			}
			return sb[:n]
		}},
	}
}

// c20AllocSite runs f 200 times with every allocation profiled and returns the innermost
// coregex frame of the stack that allocated most objects (attribution for the report).
func c20AllocSite(f func()) string {
	snap := func() map[[32]uintptr]int64 {
		runtime.GC()
		runtime.GC()
		runtime.GC()
		n, _ := runtime.MemProfile(nil, true)
		recs := make([]runtime.MemProfileRecord, n+64)
		n, ok := runtime.MemProfile(recs, true)
		if !ok {
			return nil
		}
		m := map[[32]uintptr]int64{}
		for _, r := range recs[:n] {
			m[r.Stack0] += r.AllocObjects
		}
		return m
	}
	before := snap()
	for i := 0; i < 200; i++ {
		f()
	}
	after := snap()
	bestSite, bestD := "?", int64(99)
	for k, v := range after {
		d := v - before[k]
		if d <= bestD {
			continue
		}
		pcs := k[:]
		for i, pc := range pcs {
			if pc == 0 {
				pcs = pcs[:i]
				break
			}
		}
		frames := runtime.CallersFrames(pcs)
		for {
			fr, more := frames.Next()
			if strings.Contains(fr.Function, "coregx/coregex") {
				fn := fr.Function[strings.LastIndex(fr.Function, "/")+1:]
				bestSite, bestD = fmt.Sprintf("%s:%d", fn, fr.Line), d
				break
			}
			if !more {
				break
			}
		}
	}
	return bestSite
}

var c20Sink []byte

// (d) zero-allocation calls
func (rr *c20Run) allocs(deadline time.Time) {
	sizes := []int{16, 64, 1000, 5000}
	shapes := c20Shapes()
	apis := []string{"Match", "MatchString", "Engine.IsMatch", "Engine.FindIndices", "Count", "AllIndex", "AppendAllIndex"}
	runtime.MemProfileRate = 1
	for i := 0; i < 8192; i++ { // cross the pending sampling point so that the new rate takes effect
		c20Sink = make([]byte, 1024)
	}
	sited := map[string]int{}
	for i, pat := range c20Patterns {
		strat, eng := c20Strategy(pat)
		re, err := coregex.Compile(pat)
		if err != nil || eng == nil {
			continue
		}
		alpha := c20Alphabet(pat)
		r := rr.r.fork(uint64(i) + 40000)
		rr.st.hist("allocs:" + strat)
		for _, sh := range shapes {
			for _, n := range sizes {
				if time.Now().After(deadline) {
					rr.st.hist("allocs:skipped-deadline")
					continue
				}
				if strat == "UseCompositeSearcher" && n > 1000 {
					rr.st.hist("allocs:skipped-composite-large")
					continue
				}
				h := sh.gen(pat, alpha, n, r)
				s := string(h)
				buf := make([][2]int, 0, len(h)+2)
				runs := 50
				if n >= 5000 && rr.tier != "thorough" {
					runs = 10
				}
				for _, api := range apis {
					var f func()
					switch api {
					case "Match":
						f = func() { re.Match(h) }
					case "MatchString":
						f = func() { re.MatchString(s) }
					case "Engine.IsMatch":
						f = func() { eng.IsMatch(h) }
					case "Engine.FindIndices":
						f = func() { eng.FindIndices(h) }
					case "Count":
						f = func() { re.Count(h, -1) }
					case "AllIndex":
						f = func() {
							for range re.AllIndex(h) {
							}
						}
					case "AppendAllIndex":
						f = func() { buf = re.AppendAllIndex(buf[:0], h, -1) }
					}
					var got float64
					panicked := ""
					func() {
						defer func() {
							if p := recover(); p != nil {
								panicked = fmt.Sprint(p)
							}
						}()
						f()
						f()
						f() // warm-up
						got = testing.AllocsPerRun(runs, f)
					}()
					rr.st.Evaluations++
					rr.distinct.add(fmt.Sprintf("allocs|%s|%s|%s|%d", pat, api, sh.name, n))
					if panicked != "" {
						rr.st.hist("allocs:panic")
						continue
					}
					if got != 0 {
						rr.st.hist("allocs:nonzero:" + api)
						site := ""
						if sited[strat+api] < 3 {
							sited[strat+api]++
							site = c20AllocSite(f)
							rr.st.hist("allocs:site:" + site)
						}
						rr.st.violate(violation{Kind: "allocs", Case: i,
							Detail: map[string]any{"pattern": pat, "strategy": strat, "api": api, "shape": sh.name, "len": len(h), "allocs_per_run": got, "site": site,
								"haystack_head": string(h[:min(len(h), 48)])},
							Sig:      fmt.Sprintf("allocs %s pat=%q strategy=%s shape=%s/%d", api, pat, strat, sh.name, n),
							RC:       "allocs/" + strat,
							Expected: "0 allocs/run", Got: fmt.Sprintf("%v allocs/run", got)})
					}
				}
			}
		}
	}
}

func cmdC20(args []string) int {
	fs := flag.NewFlagSet("c20", flag.ExitOnError)
	seed := fs.Uint64("seed", 1, "seed")
	tier := fs.String("tier", "quick", "quick|thorough")
	_ = fs.Int("n", 0, "unused (sizes are fixed by tier)")
	out := fs.String("out", "cases.v", "Coq case file")
	statsPath := fs.String("stats", "stats.json", "stats output")
	only := fs.String("only", "", "comma list of parts: cache,raw,bt,heap,allocs (default all)")
	fs.Parse(args)

	st := newStats("C20", *seed)
	rr := &c20Run{st: st, r: newRng(*seed), distinct: distinctSet{}, maxCoq: 1200, tier: *tier}
	want := func(p string) bool { return *only == "" || strings.Contains(","+*only+",", ","+p+",") }
	start := time.Now()
	budget := 50 * time.Second
	if *tier == "thorough" {
		budget = 20 * time.Minute
	}
	rr.coq.WriteString("From CV Require Import Cache.\nFrom Coq Require Import List NArith.\nImport ListNotations.\nOpen Scope N_scope.\n")
	rr.coq.WriteString("(* generated by `harness c20`: observations on real lazy.DFACache values *)\nDefinition cases : list case := [\n")
	// strategy coverage of the corpus
	for _, p := range c20Patterns {
		s, _ := c20Strategy(p)
		st.hist("strategy:" + s)
	}
	if want("cache") {
		rr.cacheHistories()
	}
	if want("raw") {
		rr.cacheRawTraces()
	}
	if want("bt") {
		rr.backtrackerCap()
	}
	if want("heap") {
		rr.heapPerRegex(start.Add(budget * 2 / 5))
	}
	if want("allocs") {
		rr.allocs(start.Add(budget))
	}
	rr.coq.WriteString("\n].\nDefinition M := Eval vm_compute in mismatches cases.\nPrint M.\nDefinition L := Eval vm_compute in literal_mismatches cases.\nPrint L.\n")
	if err := os.WriteFile(*out, []byte(rr.coq.String()), 0o644); err != nil {
		fatal("write %s: %v", *out, err)
	}
	st.CoqCases = rr.ncoq
	st.Distinct = len(rr.distinct)
	st.Rule = "C20: (a) per (pattern, capacity 200B..64KiB, MaxCacheClears 0/1/5/1000) one lazy.DFACache over a history of searches: MemoryUsage() < capacity + state_cost + slot0_cost + 3*(Size()+1) (Cache.cache_mem_bound_obs) and ClearCount() <= MaxCacheClears after every search; raw traces of Insert/ClearKeepMemory/Reset/Clear must equal the accounting model; (b) cap(BacktrackerState.Visited) <= MaxVisitedSize() over call histories; (c) HeapAlloc with only the Regex retained after k searches: last k vs k=100 within 64 KiB; (d) testing.AllocsPerRun == 0 after warm-up for Match, MatchString, Engine.IsMatch, Engine.FindIndices, Count, AllIndex, AppendAllIndex over corpus x 4 shapes x 4 sizes; distinct = distinct (check, pattern, parameters)"
	st.Extra["elapsed_seconds"] = int(time.Since(start).Seconds())
	st.write(*statsPath)
	return 0
}

func init() { register("c20", cmdC20) }
