package main

// `c15`: compiled byte automata recognise exactly the UTF-8 of the intended runes.
//
// For each one-rune syntax node (class, literal, fold-case literal, dot) and each
// compilation mode the automaton built by the PUBLIC compiler
// (nfa.NewCompiler(cfg).CompileRegexp) is
//   (a) compared on the Go side, input by input, with regexp `^(?:c)$` over every code
//       point, every byte string of length <= 2 and many of length 3..4.  The automaton is
//       run by a small state-set simulation over the public State accessors (it does not
//       depend on any engine of the library), and
//   (b) for a subset dumped as a Gallina term with the rune ranges of the node, for the
//       certified checker CV.ClassAuto.first_failure / class_check.

import (
	"encoding/hex"
	"flag"
	"fmt"
	"os"
	"regexp"
	"regexp/syntax"
	"sort"
	"strings"
	"sync"
	"unicode"
	"unicode/utf8"

	"github.com/coregx/coregex/nfa"
)

func init() { register("c15", c15Main) }

// ---------------------------------------------------------------------------
// modes
// ---------------------------------------------------------------------------

type c15Mode struct {
	name      string
	cfg       nfa.CompilerConfig
	asciiOnly bool // the property is claimed for ASCII haystacks only
}

func c15Modes() []c15Mode {
	d := nfa.DefaultCompilerConfig()
	sp := d
	sp.UseRuneStates = true
	as := d
	as.ASCIIOnly = true
	return []c15Mode{{"default", d, false}, {"sparse", sp, false}, {"ascii", as, true}}
}

// ---------------------------------------------------------------------------
// the classes
// ---------------------------------------------------------------------------

type c15Class struct {
	text string // pattern text of the single node
	kind string // perl, posix, unicode, hand, literal, fold, dot
	pri  int    // > 0: candidate for the Coq obligations, smaller first
}

func c15Classes(tier string) []c15Class {
	var cs []c15Class
	add := func(kind string, pri int, texts ...string) {
		for _, t := range texts {
			cs = append(cs, c15Class{t, kind, pri})
		}
	}
	add("dot", 1, `.`)
	add("dot", 5, `(?s:.)`)
	add("perl", 2, `\W`, `\d`)
	add("perl", 0, `\D`, `\w`, `\s`, `\S`)
	posix := []string{"alnum", "alpha", "ascii", "blank", "cntrl", "digit", "graph", "lower", "print", "punct", "space", "upper", "word", "xdigit"}
	for _, p := range posix {
		add("posix", 0, `[[:`+p+`:]]`)
		if tier == "thorough" || p == "alpha" || p == "ascii" || p == "space" {
			add("posix", 0, `[[:^`+p+`:]]`)
		}
	}
	if tier == "thorough" {
		var names []string
		for k := range unicode.Scripts {
			names = append(names, k)
		}
		for k := range unicode.Categories {
			names = append(names, k)
		}
		sort.Strings(names)
		for _, k := range names {
			add("unicode", 9, `\p{`+k+`}`)
			add("unicode", 0, `\P{`+k+`}`)
		}
	} else {
		add("unicode", 9, `\p{Greek}`, `\p{Lu}`, `\pN`, `\p{Han}`, `\p{Cyrillic}`, `\pL`, `\p{Zs}`, `\p{Latin}`, `\p{Cc}`, `\p{Braille}`)
		add("unicode", 9, `\P{Greek}`, `\P{Lu}`, `\PN`, `\P{Han}`, `\PL`)
	}
	add("hand", 3, `[^a]`, `[\x{10000}-\x{10FFFF}]`, `[\x{80}-\x{7FF}]`, `[\x{3000}-\x{303F}\x{4E00}-\x{4EFF}]`)
	add("hand", 5, `[^\n]`, `[^\x00-\x7F]`, `[\x{80}-\x{10FFFF}]`, `[\x{0}-\x{10FFFF}]`, `[^\x{10FFFF}]`, `[^\x{FFFD}]`,
		`[\x{7F}-\x{80}]`, `[\x{7FF}-\x{800}]`, `[\x{FFFF}-\x{10000}]`, `[\x{D7FF}-\x{E000}]`, `[\x{D7FF}]`, `[\x{E000}]`,
		`[\x{10FFFF}]`, `[\x{FFFD}]`, `[\x{D800}-\x{DFFF}]`, `[\x{D000}-\x{DBFF}]`, `[\x{DC00}-\x{E100}]`,
		`[\x{E000}-\x{FFFC}]`, `[\x{FFFE}-\x{10FFFF}]`, `[\x{1F600}-\x{1F64F}]`, `[\x{10000}-\x{3FFFF}]`, `[\x{40000}-\x{FFFFF}]`,
		`[\x{100000}-\x{10FFFF}]`, `[\x{400}-\x{7FF}]`, `[\x{780}-\x{8FF}]`, `[\x{1000}-\x{1FFF}]`, `[\x{1000}-\x{11FF}]`)
	add("hand", 0, `[a-z]`, `[^a-z]`, `[a-zA-Z0-9_]`, `[\x00-\x7F]`, `[\x{800}-\x{FFFF}]`, `[\x{100}-\x{2000}]`, `[\x{3FF}-\x{1234}]`,
		`[α-ω]`, `[а-яё]`, `[a\x{80}]`, `[\x{7F}\x{80}\x{7FF}\x{800}\x{FFFF}\x{10000}\x{10FFFF}]`, `(?i)[k]`, `(?i)[a-z]`, `(?i)[σ]`,
		`[^\x{80}-\x{10FFFF}]`, `[^\x{800}-\x{FFFF}]`, `[^\x{0}-\x{FFFF}]`, `[\x{0}-\x{D7FF}\x{E000}-\x{10FFFF}]`, `[^α]`, `[^€]`, `[^\x{1F600}]`)
	add("literal", 4, `€`)
	add("literal", 6, `é`)
	add("literal", 6, `a`, `\n`, `\x00`, `\x7F`, `\x{80}`, `\x{7FF}`, `\x{800}`, `\x{FFFF}`, `\x{10000}`, `😀`, `\x{10FFFF}`,
		`\x{D7FF}`, `\x{E000}`, `\x{FFFD}`)
	// (a literal surrogate such as \x{D800} is left out: regexp itself turns the literal into
	// the string "\uFFFD" for its prefix matcher, so `^\x{D800}$` matches U+FFFD there)
	add("fold", 4, `(?i:k)`, `(?i:é)`)
	add("fold", 6, `(?i:K)`, `(?i:\x{212A})`, `(?i:s)`, `(?i:ſ)`, `(?i:É)`, `(?i:я)`, `(?i:σ)`, `(?i:ς)`, `(?i:ǅ)`, `(?i:ß)`, `(?i:ẞ)`,
		`(?i:a)`, `(?i:Z)`, `(?i:1)`, `(?i:µ)`, `(?i:å)`, `(?i:Ω)`)
	// two runes in a row: the pieces of one encoding must not be taken for two runes
	for _, t := range []string{`\W`, `\D`, `\S`, `.`, `(?s:.)`, `[^a]`, `[^\n]`, `[\x{80}-\x{10FFFF}]`, `[^\x00-\x7F]`, `\PL`, `[\x{FFFD}]`} {
		add("pair", 0, `(?:`+t+`)(?:`+t+`)`)
	}
	return cs
}

// c15Ranges: the rune set regexp uses for a one-rune node (sorted inclusive ranges).
func c15Ranges(re *syntax.Regexp) ([][2]rune, bool) {
	switch re.Op {
	case syntax.OpCharClass:
		var rs [][2]rune
		for i := 0; i+1 < len(re.Rune); i += 2 {
			rs = append(rs, [2]rune{re.Rune[i], re.Rune[i+1]})
		}
		return rs, true
	case syntax.OpLiteral:
		if len(re.Rune) != 1 {
			return nil, false
		}
		r := re.Rune[0]
		set := []rune{r}
		if re.Flags&syntax.FoldCase != 0 {
			for f := unicode.SimpleFold(r); f != r; f = unicode.SimpleFold(f) {
				set = append(set, f)
			}
		}
		sort.Slice(set, func(i, j int) bool { return set[i] < set[j] })
		var rs [][2]rune
		for _, x := range set {
			rs = append(rs, [2]rune{x, x})
		}
		return rs, true
	case syntax.OpAnyChar:
		return [][2]rune{{0, 0x10FFFF}}, true
	case syntax.OpAnyCharNotNL:
		return [][2]rune{{0, 9}, {11, 0x10FFFF}}, true
	}
	return nil, false
}

func c15InRanges(rs [][2]rune, r rune) bool {
	i := sort.Search(len(rs), func(i int) bool { return rs[i][1] >= r })
	return i < len(rs) && rs[i][0] <= r
}

// c15Spec mirrors CV.ClassAuto.spec_class_on_bytes (checked against regexp on every input).
func c15Spec(rs [][2]rune, b []byte) bool {
	if len(b) == 0 {
		return false
	}
	r, w := utf8.DecodeRune(b)
	return w == len(b) && c15InRanges(rs, r)
}

// ---------------------------------------------------------------------------
// state-set simulation over the public accessors
// ---------------------------------------------------------------------------

type c15State struct {
	kind      nfa.StateKind
	lo, hi    byte
	next, alt int32 // -1: none
	look      nfa.Look
	trs       []nfa.Transition
}

type c15Auto struct {
	st    []c15State
	start int32
	hasLk bool
}

func c15Tgt(id nfa.StateID, n int) int32 {
	if id == nfa.InvalidState || int(id) >= n {
		return -1
	}
	return int32(id)
}

func c15Load(n *nfa.NFA) *c15Auto {
	a := &c15Auto{st: make([]c15State, n.States()), start: c15Tgt(n.StartAnchored(), n.States())}
	for i := range a.st {
		s := n.State(nfa.StateID(i))
		c := c15State{kind: s.Kind(), next: -1, alt: -1}
		switch s.Kind() {
		case nfa.StateByteRange:
			lo, hi, nx := s.ByteRange()
			c.lo, c.hi, c.next = lo, hi, c15Tgt(nx, len(a.st))
		case nfa.StateSparse:
			c.trs = s.Transitions()
		case nfa.StateSplit:
			l, r := s.Split()
			c.next, c.alt = c15Tgt(l, len(a.st)), c15Tgt(r, len(a.st))
		case nfa.StateEpsilon:
			c.next = c15Tgt(s.Epsilon(), len(a.st))
		case nfa.StateCapture:
			_, _, nx := s.Capture()
			c.next = c15Tgt(nx, len(a.st))
		case nfa.StateLook:
			lk, nx := s.Look()
			c.look, c.next = lk, c15Tgt(nx, len(a.st))
			a.hasLk = true
		}
		a.st[i] = c
	}
	return a
}

type c15Sim struct {
	first      [256][]int32 // without Look states: the set after the first byte, computed once
	firstOK    bool
	startMatch bool
	a          *c15Auto
	mark       []uint32
	gen        uint32
	cur, nxt   []int32
	stack      []int32
}

func c15NewSim(a *c15Auto) *c15Sim {
	return &c15Sim{a: a, mark: make([]uint32, len(a.st))}
}

func c15IsWord(b byte) bool {
	return b >= '0' && b <= '9' || b >= 'A' && b <= 'Z' || b == '_' || b >= 'a' && b <= 'z'
}

func c15LookOK(lk nfa.Look, h []byte, p int) bool {
	wb := p > 0 && c15IsWord(h[p-1])
	wa := p < len(h) && c15IsWord(h[p])
	switch lk {
	case nfa.LookStartText:
		return p == 0
	case nfa.LookEndText:
		return p == len(h)
	case nfa.LookStartLine:
		return p == 0 || h[p-1] == '\n'
	case nfa.LookEndLine:
		return p == len(h) || h[p] == '\n'
	case nfa.LookWordBoundary:
		return wb != wa
	default:
		return wb == wa
	}
}

// closure adds the ε-closure of q (at position p of h) to dst.
func (s *c15Sim) closure(q int32, h []byte, p int, dst []int32) []int32 {
	s.stack = append(s.stack[:0], q)
	for len(s.stack) > 0 {
		q := s.stack[len(s.stack)-1]
		s.stack = s.stack[:len(s.stack)-1]
		if q < 0 || s.mark[q] == s.gen {
			continue
		}
		s.mark[q] = s.gen
		dst = append(dst, q)
		st := &s.a.st[q]
		switch st.kind {
		case nfa.StateSplit:
			s.stack = append(s.stack, st.alt, st.next)
		case nfa.StateEpsilon, nfa.StateCapture:
			s.stack = append(s.stack, st.next)
		case nfa.StateLook:
			if c15LookOK(st.look, h, p) {
				s.stack = append(s.stack, st.next)
			}
		}
	}
	return dst
}

// accepts: anchored whole-string acceptance from the anchored start state.
func (s *c15Sim) accepts(h []byte) bool {
	if !s.a.hasLk {
		// the start closure and the first step do not depend on the input: tabulate them
		// (large classes have thousands of states in the start closure)
		if !s.firstOK {
			s.firstOK = true
			s.startMatch = s.run(nil, 0, nil)
			s.gen++
			start := s.closure(s.a.start, nil, 0, nil)
			for b := 0; b < 256; b++ {
				s.run([]byte{byte(b)}, 0, start)
				s.first[b] = append(make([]int32, 0, len(s.cur)+1), s.cur...)
			}
		}
		if len(h) == 0 {
			return s.startMatch
		}
		return s.run(h, 1, s.first[h[0]])
	}
	return s.run(h, 0, nil)
}

// run simulates h[from:] starting from the given set (nil: the start closure at position 0).
func (s *c15Sim) run(h []byte, from int, set []int32) bool {
	if set == nil {
		s.gen++
		s.cur = s.closure(s.a.start, h, 0, s.cur[:0])
	} else {
		s.cur = append(s.cur[:0], set...)
	}
	for p := from; p < len(h); p++ {
		if len(s.cur) == 0 {
			return false
		}
		b := h[p]
		s.gen++
		s.nxt = s.nxt[:0]
		for _, q := range s.cur {
			st := &s.a.st[q]
			switch st.kind {
			case nfa.StateByteRange:
				if st.lo <= b && b <= st.hi {
					s.nxt = s.closure(st.next, h, p+1, s.nxt)
				}
			case nfa.StateSparse:
				for _, t := range st.trs {
					if t.Lo <= b && b <= t.Hi {
						s.nxt = s.closure(c15Tgt(t.Next, len(s.a.st)), h, p+1, s.nxt)
					}
				}
			}
		}
		s.cur, s.nxt = s.nxt, s.cur
	}
	for _, q := range s.cur {
		if s.a.st[q].kind == nfa.StateMatch {
			return true
		}
	}
	return false
}

// ---------------------------------------------------------------------------
// inputs
// ---------------------------------------------------------------------------

type c15Inputs struct {
	all   [][]byte
	ascii []bool // all bytes < 0x80
}

func c15BuildInputs(tier string, seed uint64) *c15Inputs {
	in := &c15Inputs{}
	push := func(b []byte) { in.all = append(in.all, b) }
	// every code point (surrogates encode as U+FFFD, like string(rune))
	for r := rune(0); r <= 0x10FFFF; r++ {
		push(utf8.AppendRune(nil, r))
	}
	// every byte string of length <= 2
	push([]byte{})
	for a := 0; a < 256; a++ {
		push([]byte{byte(a)})
	}
	for a := 0; a < 256; a++ {
		for b := 0; b < 256; b++ {
			push([]byte{byte(a), byte(b)})
		}
	}
	edge := []byte{0x00, 0x0A, 0x41, 0x7F, 0x80, 0x8F, 0x90, 0x9F, 0xA0, 0xBF, 0xC0, 0xC2, 0xE0, 0xF4, 0xFF}
	if tier == "thorough" {
		for a := 0xC0; a < 256; a++ {
			for b := 0; b < 256; b++ {
				for c := 0; c < 256; c++ {
					push([]byte{byte(a), byte(b), byte(c)})
				}
			}
		}
	} else {
		for a := 0xC0; a < 256; a++ {
			for _, b := range edge {
				for _, c := range edge {
					push([]byte{byte(a), b, c})
				}
			}
		}
	}
	for _, a := range edge {
		for _, b := range edge {
			for _, c := range edge {
				if a < 0xC0 {
					push([]byte{a, b, c})
				}
			}
		}
	}
	// length 4: every lead F0..F7 (and E0, ED, EF, C2) with boundary continuations
	for _, a := range []byte{0xC2, 0xE0, 0xED, 0xEF, 0xF0, 0xF1, 0xF3, 0xF4, 0xF5, 0xF7, 0xFF} {
		for _, b := range edge {
			for _, c := range edge {
				for _, d := range edge {
					push([]byte{a, b, c, d})
				}
			}
		}
	}
	// random strings of length 3..5, biased to lead/continuation bytes
	r := newRng(seed)
	nrand := 200000
	if tier == "thorough" {
		nrand = 1000000
	}
	for i := 0; i < nrand; i++ {
		l := 3 + r.intn(3)
		b := make([]byte, l)
		for j := range b {
			switch r.intn(4) {
			case 0:
				b[j] = byte(r.intn(256))
			case 1:
				b[j] = byte(0x80 + r.intn(0x40))
			case 2:
				b[j] = byte(0xC0 + r.intn(0x40))
			default:
				b[j] = edge[r.intn(len(edge))]
			}
		}
		push(b)
	}
	in.ascii = make([]bool, len(in.all))
	for i, b := range in.all {
		ok := true
		for _, c := range b {
			if c >= 0x80 {
				ok = false
				break
			}
		}
		in.ascii[i] = ok
	}
	return in
}

// ---------------------------------------------------------------------------
// one automaton
// ---------------------------------------------------------------------------

type c15Result struct {
	Index     int      `json:"index"`
	Mode      string   `json:"mode"`
	Class     string   `json:"class"`
	Kind      string   `json:"kind"`
	States    int      `json:"states"`
	Ranges    int      `json:"ranges"`
	GoFail    bool     `json:"go_fail"`
	Diffs     int      `json:"diffs"`
	Witnesses []string `json:"witnesses,omitempty"` // kind:hex, first of each kind
	CoqID     int      `json:"coq_id"`              // -1: not emitted
	Shard     int      `json:"shard"`
	Note      string   `json:"note,omitempty"`
	dump      dumpedNFA
	ranges    [][2]rune
	pri       int
	viol      []violation
}

func c15DiffKind(b []byte, got bool) string {
	dir := "missing"
	if got {
		dir = "extra"
	}
	switch {
	case len(b) == 0:
		return dir + "-empty"
	case utf8.Valid(b) && utf8.RuneCount(b) == 1:
		return dir + "-rune"
	case len(b) == 1:
		return dir + "-invalid-byte"
	case utf8.Valid(b):
		return dir + "-many-runes"
	default:
		return dir + "-ill-formed"
	}
}

// c15ClipASCII: in ASCII-only mode the claim is about ASCII haystacks; the obligation
// uses the ASCII part of the rune set.
func c15ClipASCII(rs [][2]rune) [][2]rune {
	var out [][2]rune
	for _, r := range rs {
		if r[0] > 0x7F {
			continue
		}
		hi := r[1]
		if hi > 0x7F {
			hi = 0x7F
		}
		out = append(out, [2]rune{r[0], hi})
	}
	return out
}

func c15CoqRanges(rs [][2]rune) string {
	parts := make([]string, len(rs))
	for i, r := range rs {
		parts[i] = fmt.Sprintf("(%d,%d)", r[0], r[1])
	}
	return "[" + strings.Join(parts, ";") + "]"
}

// ---------------------------------------------------------------------------
// main
// ---------------------------------------------------------------------------

func c15Main(args []string) int {
	fs := flag.NewFlagSet("c15", flag.ExitOnError)
	seed := fs.Uint64("seed", 1, "seed")
	tier := fs.String("tier", "quick", "quick|thorough")
	out := fs.String("out", "cases.v", "Coq obligations file (shards: cases_0.v ... when -shards > 1)")
	statsPath := fs.String("stats", "stats.json", "stats file")
	shards := fs.Int("shards", 0, "number of Coq files (0: automatic, <= 8 automata per file)")
	maxCoq := fs.Int("coq", 0, "number of automata with a Coq obligation (0: 12 quick, 48 thorough)")
	maxStates := fs.Int("maxstates", 0, "largest automaton with a Coq obligation (0: 60 quick, 120 thorough)")
	only := fs.String("only", "", "restrict to classes whose text contains this string (debugging)")
	_ = fs.Int("n", 0, "unused")
	fs.Parse(args)
	if *maxCoq == 0 {
		*maxCoq = 12
		if *tier == "thorough" {
			*maxCoq = 48
		}
	}
	if *maxStates == 0 {
		*maxStates = 60
		if *tier == "thorough" {
			*maxStates = 120
		}
	}

	st := newStats("C15", *seed)
	st.Rule = "one-rune node x mode: automaton (state-set simulation over public accessors) vs regexp ^(?:c)$ on all code points, all byte strings of length <= 2, sampled/structured strings of length 3..5"
	in := c15BuildInputs(*tier, *seed)
	classes := c15Classes(*tier)
	modes := c15Modes()

	type job struct {
		ci  int
		cls c15Class
	}
	results := make([][]*c15Result, len(classes))
	notes := make([]string, len(classes))
	specMismatch := make([][]violation, len(classes))
	jobs := make(chan job)
	var wg sync.WaitGroup
	for w := 0; w < 16; w++ {
		wg.Add(1)
		go func() {
			defer wg.Done()
			for j := range jobs {
				results[j.ci], notes[j.ci], specMismatch[j.ci] = c15RunClass(j.ci, j.cls, modes, in)
			}
		}()
	}
	for ci, c := range classes {
		if *only != "" && !strings.Contains(c.text, *only) {
			continue
		}
		jobs <- job{ci, c}
	}
	close(jobs)
	wg.Wait()

	var all []*c15Result
	for ci := range classes {
		if notes[ci] != "" {
			st.Notes = appendNote(st.Notes, notes[ci])
		}
		for _, v := range specMismatch[ci] {
			st.violate(v)
		}
		for _, r := range results[ci] {
			r.Index = len(all)
			all = append(all, r)
		}
	}
	// ---- one REUSED compiler per mode compiling every class in sequence must produce the same
	// automata as a fresh compiler per class (nfa.Compiler is a reusable public object)
	byKey := map[string]*c15Result{}
	for _, r := range all {
		byKey[r.Mode+"\x00"+r.Class] = r
	}
	for _, m := range modes {
		shared := nfa.NewCompiler(m.cfg)
		for round := 0; round < 2; round++ {
			for _, c := range classes {
				if *only != "" && !strings.Contains(c.text, *only) {
					continue
				}
				re2, err := syntax.Parse(c.text, syntax.Perl)
				if err != nil {
					continue
				}
				ref := byKey[m.name+"\x00"+c.text]
				if ref == nil || ref.Note != "" {
					continue
				}
				st.Evaluations++
				n, err := shared.CompileRegexp(re2)
				got := "compile error"
				if err == nil {
					got = dumpNFA(n).coq
				} else {
					got += ": " + err.Error()
				}
				if got != ref.dump.coq {
					st.violate(violation{Kind: "reused-compiler-differs", Case: ref.Index,
						Detail: map[string]any{"mode": m.name, "pattern": c.text, "round": round, "fresh_states": ref.States, "reused": short(got, 300)},
						Sig:    "reused-compiler|" + m.name + "|" + c.text, RC: "reused-compiler-differs"})
				}
			}
		}
	}
	distinct := distinctSet{}
	for _, r := range all {
		st.Evaluations += len(in.all)
		st.hist("mode:" + r.Mode)
		st.hist("kind:" + r.Kind)
		if r.GoFail {
			st.hist("go-fail:" + r.Mode)
		}
		distinct.add(r.dump.coq)
		for _, v := range r.viol {
			v.Case = r.Index
			st.violate(v)
		}
		st.sample(map[string]any{"mode": r.Mode, "class": r.Class, "states": r.States})
	}
	st.Distinct = len(distinct)

	// ---- the Coq obligations: by priority, then size
	cand := []*c15Result{}
	for _, r := range all {
		r.CoqID, r.Shard = -1, -1
		if r.pri > 0 && r.dump.ok && r.States <= *maxStates && len(r.ranges) <= 64 {
			if r.Mode == "ascii" && r.Kind != "dot" {
				continue // ASCIIOnly only changes the compilation of dot
			}
			if r.Mode == "sparse" && r.Kind != "dot" {
				continue // UseRuneStates only changes the compilation of dot
			}
			cand = append(cand, r)
		}
	}
	sort.SliceStable(cand, func(i, j int) bool {
		if cand[i].pri != cand[j].pri {
			return cand[i].pri < cand[j].pri
		}
		return cand[i].States < cand[j].States
	})
	if len(cand) > *maxCoq {
		cand = cand[:*maxCoq]
	}
	nsh := *shards
	if nsh <= 0 {
		nsh = (len(cand) + 7) / 8
		if *tier == "quick" && len(cand) > 6 {
			nsh = 2
		}
	}
	if nsh < 1 {
		nsh = 1
	}
	files := make([]strings.Builder, nsh)
	ids := make([][]int, nsh)
	for i, r := range cand {
		r.CoqID = r.Index
		r.Shard = i % nsh
		ids[r.Shard] = append(ids[r.Shard], r.Index)
	}
	for s := 0; s < nsh; s++ {
		f := &files[s]
		f.WriteString("From Coq Require Import List NArith.\nFrom CV Require Import Nfa Utf8 ClassAuto.\nImport ListNotations.\nOpen Scope N_scope.\n")
	}
	for _, r := range cand {
		f := &files[r.Shard]
		rs := r.ranges
		if r.Mode == "ascii" {
			rs = c15ClipASCII(rs)
		}
		fmt.Fprintf(f, "(* %d: mode %s, class %s, %d states *)\n", r.Index, r.Mode, strings.ReplaceAll(r.Class, "*)", "* )"), r.States)
		fmt.Fprintf(f, "Definition a%d : nfa := %s.\n", r.Index, r.dump.coq)
		fmt.Fprintf(f, "Definition r%d : list (N*N) := %s.\n", r.Index, c15CoqRanges(rs))
	}
	for s := 0; s < nsh; s++ {
		f := &files[s]
		f.WriteString("Definition cases : list case := [")
		for i, id := range ids[s] {
			if i > 0 {
				f.WriteString("; ")
			}
			fmt.Fprintf(f, "mkCase %d a%d r%d", id, id, id)
		}
		f.WriteString("].\n")
		f.WriteString("(* per automaton: (id, class_check, first_failure witness) *)\n")
		f.WriteString("Definition R := Eval vm_compute in run_cases cases.\nPrint R.\n")
		f.WriteString("Definition M := Eval vm_compute in failing R.\nPrint M.\n")
		f.WriteString("(* failing automata: the witness of each phase (single bytes; code points; anything else accepted) *)\n")
		f.WriteString("Definition W := Eval vm_compute in map (fun c => (c_id c, phase_failures (c_nfa c) (c_ranges c))) (filter (fun c => existsb (N.eqb (c_id c)) M) cases).\nPrint W.\n")
		name := *out
		if nsh > 1 {
			name = strings.TrimSuffix(*out, ".v") + fmt.Sprintf("_%d.v", s)
		}
		if err := os.WriteFile(name, []byte(f.String()), 0o644); err != nil {
			fatal("write %s: %v", name, err)
		}
	}
	st.CoqCases = len(cand)

	autos := make([]any, len(all))
	failing := []string{}
	for i, r := range all {
		autos[i] = r
		if r.GoFail {
			failing = append(failing, fmt.Sprintf("%s|%s", r.Mode, r.Class))
		}
	}
	st.Extra["automata"] = autos
	st.Extra["go_failing"] = failing
	st.Extra["inputs_per_automaton"] = len(in.all)
	st.Extra["coq_shards"] = nsh
	st.write(*statsPath)
	fmt.Printf("c15: %d automata (%d classes x modes), %d inputs each, %d fail on the Go side, %d violations, %d Coq obligations in %d file(s)\n",
		len(all), len(classes), len(in.all), len(failing), st.TotalViolations, len(cand), nsh)
	return 0
}

func c15RunClass(ci int, cls c15Class, modes []c15Mode, in *c15Inputs) ([]*c15Result, string, []violation) {
	re, err := syntax.Parse(cls.text, syntax.Perl)
	if err != nil {
		return nil, fmt.Sprintf("syntax rejects %s: %v", cls.text, err), nil
	}
	ranges, ok := c15Ranges(re)
	pair := cls.kind == "pair"
	if !ok && !pair {
		return nil, fmt.Sprintf("not a one-rune node: %s parses to %v", cls.text, re.Op), nil
	}
	std, err := regexp.Compile("^(?:" + cls.text + ")$")
	if err != nil {
		return nil, fmt.Sprintf("regexp rejects %s: %v", cls.text, err), nil
	}
	// the oracle, once per class; and the Go mirror of the Coq spec against it
	want := make([]bool, len(in.all))
	var specViol []violation
	for i, b := range in.all {
		want[i] = std.Match(b)
		if !pair && c15Spec(ranges, b) != want[i] && len(specViol) < 2 {
			specViol = append(specViol, violation{Kind: "spec-model-vs-regexp", Case: ci,
				Detail:   map[string]any{"pattern": cls.text, "input": hex.EncodeToString(b)},
				Sig:      "spec|" + cls.text + "|" + hex.EncodeToString(b),
				Expected: fmt.Sprint(want[i]), Got: fmt.Sprint(!want[i])})
		}
	}
	var out []*c15Result
	for _, m := range modes {
		r := &c15Result{Mode: m.name, Class: cls.text, Kind: cls.kind, Ranges: len(ranges), ranges: ranges, pri: cls.pri, CoqID: -1, Shard: -1}
		// a fresh parse: the compiler must not see a tree another compilation touched
		re2, _ := syntax.Parse(cls.text, syntax.Perl)
		n, err := nfa.NewCompiler(m.cfg).CompileRegexp(re2)
		if err != nil {
			r.Note = "compile error: " + err.Error()
			r.GoFail = true
			r.viol = append(r.viol, violation{Kind: "compile-error", Detail: map[string]any{"pattern": cls.text, "mode": m.name, "error": err.Error()},
				Sig: m.name + "|" + cls.text + "|compile-error"})
			out = append(out, r)
			continue
		}
		r.States = n.States()
		r.dump = dumpNFA(n)
		sim := c15NewSim(c15Load(n))
		seen := map[string]bool{}
		for i, b := range in.all {
			if m.asciiOnly && !in.ascii[i] {
				continue
			}
			got := sim.accepts(b)
			if got == want[i] {
				continue
			}
			r.Diffs++
			k := c15DiffKind(b, got)
			if seen[k] {
				continue
			}
			seen[k] = true
			hx := hex.EncodeToString(b)
			r.Witnesses = append(r.Witnesses, k+":"+hx)
			dr, dw := utf8.DecodeRune(b)
			vk := "automaton-vs-regexp/"
			if pair {
				vk = "pair-vs-regexp/"
			}
			r.viol = append(r.viol, violation{Kind: vk + k,
				Detail: map[string]any{"pattern": cls.text, "mode": m.name, "input": hx, "states": r.States,
					"decode": fmt.Sprintf("U+%04X width %d", dr, dw)},
				Sig:      m.name + "|" + cls.text + "|" + hx,
				Expected: fmt.Sprint(want[i]), Got: fmt.Sprint(got)})
		}
		r.GoFail = r.Diffs > 0
		out = append(out, r)
	}
	return out, "", specViol
}
