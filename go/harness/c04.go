package main

import (
	"bufio"
	"encoding/hex"
	"flag"
	"fmt"
	"os"
	"strings"
	"time"
	"unicode/utf8"
)

// ---------------------------------------------------------------------------
// `c04`: every enumeration API of property C04 (and the enumeration relations of
// C11) against Go's regexp, same limit n, contents and nil-ness included; plus the
// Coq case file for FindAll.v: the table p -> meta.Engine.FindIndicesAt(h, p) together
// with what each enumeration API returned, so that the specification loop
// (std_all over the observed table) is replayed inside Coq.
// ---------------------------------------------------------------------------

func init() { register("c04", cmdC04) }

// haystacks that put empty matches next to / inside multi-byte runes and invalid UTF-8
var c04FixedHays = []string{
	"", "a", "ab", " a", "a ", "baaab", "abc", "aa bb",
	"é", "aé", "éa", " é ", "日本", "a日b", "😀", "a😀", "я я",
	"\xff", "a\xffb", "\xe4\xb8", "a\xe4\xb8b", "\xc3", "\xc3a", "x\xed\xa0\x80y", "\xc0\x80", "\xf0\x9f\x98", "é\xffé", "\x80é",
	"a\né\nb", "foo é bar", "1é2", "_é_",
}

type c04Run struct {
	st       *stats
	cases    []string // Coq case terms
	caseIdx  []string // id -> description
	maxCases int
	pairs    int
	maxPairs int
	seen     map[string]bool
	// triage
	curKey       string
	curTab       *c04Tab
	causes       map[string]*c04Cause
	unstable     int
	unstableSeen map[string]bool
}

type c04Cause struct {
	Count    int              `json:"count"`
	Patterns int              `json:"distinct_patterns"`
	Examples []map[string]any `json:"examples"`
	pats     map[string]bool
}

// c04Tab holds the single-match answers of one (pattern, haystack) at every offset
// p = 0..len(h): idx[p] = meta.Engine.FindIndicesAt(h, p), sub[p] = the flat slot list
// of meta.Engine.FindSubmatchAt(h, p) (nil = no match).
type c04Tab struct {
	idx []*[2]int
	sub [][]int
}

func (cr *c04Run) tables(c *rxCase, h []byte) *c04Tab {
	key := c.pat + "\x00" + string(h)
	if cr.curKey == key && cr.curTab != nil {
		return cr.curTab
	}
	t := &c04Tab{idx: make([]*[2]int, len(h)+1), sub: make([][]int, len(h)+1)}
	if c.eng != nil && len(h) > 1500 {
		// long haystack: the full table costs O(n^2).  Only the entries regexp's loop can visit are
		// filled: the chains pos -> end (or pos + width after an empty match) that start at 0, once
		// following the index entry point and once following the sub-match entry point.
		fill := func(p int) {
			if t.idx[p] == nil && t.sub[p] == nil {
				if s, e, ok := c.eng.FindIndicesAt(h, p); ok {
					t.idx[p] = &[2]int{s, e}
				}
				if m := c.eng.FindSubmatchAt(h, p); m != nil {
					slots := make([]int, 0, 2*m.NumCaptures())
					for g := 0; g < m.NumCaptures(); g++ {
						if ix := m.GroupIndex(g); len(ix) >= 2 {
							slots = append(slots, ix[0], ix[1])
						} else {
							slots = append(slots, -1, -1)
						}
					}
					if len(slots) >= 2 {
						t.sub[p] = slots
					}
				}
			}
		}
		for _, useSub := range []bool{false, true} {
			for pos, guard := 0, 0; pos <= len(h) && guard <= len(h)+2; guard++ {
				fill(pos)
				var e int
				if useSub {
					if t.sub[pos] == nil {
						break
					}
					e = t.sub[pos][1]
				} else {
					if t.idx[pos] == nil {
						break
					}
					e = t.idx[pos][1]
				}
				if e <= pos { // empty match at pos (or a malformed entry): step one rune
					_, w := utf8.DecodeRune(h[pos:])
					if w == 0 {
						w = 1
					}
					pos += w
				} else {
					pos = e
				}
			}
		}
		cr.curKey, cr.curTab = key, t
		return t
	}
	if c.eng != nil {
		for p := 0; p <= len(h); p++ {
			if s, e, ok := c.eng.FindIndicesAt(h, p); ok {
				t.idx[p] = &[2]int{s, e}
			}
			if m := c.eng.FindSubmatchAt(h, p); m != nil {
				slots := make([]int, 0, 2*m.NumCaptures())
				for g := 0; g < m.NumCaptures(); g++ {
					if ix := m.GroupIndex(g); len(ix) >= 2 {
						slots = append(slots, ix[0], ix[1])
					} else {
						slots = append(slots, -1, -1)
					}
				}
				if len(slots) >= 2 {
					t.sub[p] = slots
				}
			}
		}
	}
	cr.curKey, cr.curTab = key, t
	return t
}

func (t *c04Tab) sub0() []*[2]int {
	out := make([]*[2]int, len(t.sub))
	for p, sl := range t.sub {
		if sl != nil {
			out[p] = &[2]int{sl[0], sl[1]}
		}
	}
	return out
}

func (t *c04Tab) pairs(offs []int) [][2]int {
	out := make([][2]int, len(offs))
	for i, p := range offs {
		out[i] = *t.idx[p]
	}
	return out
}

func (t *c04Tab) slots(offs []int) [][]int {
	out := make([][]int, len(offs))
	for i, p := range offs {
		out[i] = t.sub[p]
	}
	return out
}

// c04Replay is regexp.allMatches replayed over a single-match table (the Go twin of
// std_all in FindAll.v).  It returns the table offsets at which the delivered matches
// were found.
func c04Replay(tbl []*[2]int, h []byte, n int) []int {
	end := len(h)
	if n < 0 {
		n = end + 1
	}
	out := []int{}
	guard := 0
	for pos, i, prev := 0, 0, -1; i < n && pos <= end && guard < end+4; guard++ {
		m := tbl[pos]
		if m == nil {
			break
		}
		at := pos
		accept := true
		if m[1] == pos {
			if m[0] == prev {
				accept = false
			}
			w := 0
			if pos < end {
				w = 1
				if h[pos] >= utf8.RuneSelf {
					_, w = utf8.DecodeRune(h[pos:])
				}
			}
			if w > 0 {
				pos += w
			} else {
				pos = end + 1
			}
		} else {
			pos = m[1]
		}
		prev = m[1]
		if accept {
			out = append(out, at)
			i++
		}
	}
	return out
}

func c04EqPairs(a, b [][2]int) bool {
	if len(a) != len(b) {
		return false
	}
	for i := range a {
		if a[i] != b[i] {
			return false
		}
	}
	return true
}

// triage classifies one disagreement (got != want).  render says what the API would
// have returned had it enumerated exactly the matches found at the given offsets of the
// given table.  n is the limit to replay with (-1 for the iterators).
//
//	single-match           regexp's own loop replayed over coregex's single-match table
//	                       reproduces the observed output exactly: the enumeration loop is
//	                       innocent, the single-match layer differs from regexp
//	captures(group>0)      same for the sub-match family, and group 0 of the replay is
//	                       regexp's sequence: only groups > 0 differ
//	entry-point-disagrees  the replay reproduces the output only after the table entry at
//	                       offset 0 is replaced by what another public single-match entry
//	                       point (FindIndices / first-byte reject) answers
//	loop                   everything else: the enumeration layer itself
func (cr *c04Run) triage(c *rxCase, h []byte, n int, sub bool, got string, render func(offs []int, t *c04Tab) string) string {
	if c.eng == nil {
		return "loop"
	}
	t := cr.tables(c, h)
	if sub {
		offs := c04Replay(t.sub0(), h, n)
		if render(offs, t) != got {
			return "loop"
		}
		g0 := make([][2]int, len(offs))
		for i, p := range offs {
			g0[i] = [2]int{t.sub[p][0], t.sub[p][1]}
		}
		if c04EqPairs(g0, c04Pairs(c.std.FindAllIndex(h, n))) {
			return "captures(group>0)"
		}
		return "single-match"
	}
	if render(c04Replay(t.idx, h, n), t) == got {
		return "single-match"
	}
	// other public single-match entry points at offset 0
	var alts []*[2]int
	if s, e, ok := c.eng.FindIndices(h); ok {
		alts = append(alts, &[2]int{s, e})
	} else {
		alts = append(alts, nil)
	}
	if c.eng.IsStartAnchoredWithFirstByteReject(h) {
		alts = append(alts, nil)
	}
	for _, a := range alts {
		if (a == nil) == (t.idx[0] == nil) && (a == nil || *a == *t.idx[0]) {
			continue
		}
		alt := &c04Tab{idx: append([]*[2]int{a}, t.idx[1:]...), sub: t.sub}
		if render(c04Replay(alt.idx, h, n), alt) == got {
			return "entry-point-disagrees"
		}
	}
	return "loop"
}

// stability of empty matches found beyond the search position: the hypothesis
// find_empty_stable of FindAll.v, checked on every haystack.
func (cr *c04Run) checkStable(c *rxCase, h []byte) {
	if len(h) > 1500 {
		return // the full single-match table is quadratic; stability is checked on the short haystacks
	}
	t := cr.tables(c, h)
	for p, m := range t.idx {
		if m != nil && m[0] == m[1] && m[0] > p && m[0] < len(t.idx) {
			q := t.idx[m[0]]
			if q == nil || *q != *m {
				cr.unstable++
				cr.diff(c, "meta.Engine.FindIndicesAt:empty-match-not-stable", h, p, fmt.Sprint(*m), fmt.Sprint(q), nil, "views-disagree")
				return
			}
		}
	}
}

func c04Pairs(v [][]int) [][2]int {
	out := make([][2]int, len(v))
	for i, m := range v {
		out[i] = [2]int{m[0], m[1]}
	}
	return out
}

func c04FmtPairs(v [][2]int, isNil bool) string {
	if isNil {
		return "nil"
	}
	if len(v) == 0 {
		return "[](non-nil)"
	}
	return fmt.Sprint(v)
}

func c04FmtIntss(v [][]int) string {
	if v == nil {
		return "nil"
	}
	if len(v) == 0 {
		return "[](non-nil)"
	}
	return fmt.Sprint(v)
}

func c04FmtBytess(v [][]byte) string {
	if v == nil {
		return "nil"
	}
	parts := make([]string, len(v))
	for i, b := range v {
		if b == nil {
			parts[i] = "<nil>"
		} else {
			parts[i] = fmt.Sprintf("%q", b)
		}
	}
	return "[" + strings.Join(parts, " ") + "]"
}

func c04FmtStrs(v []string) string {
	if v == nil {
		return "nil"
	}
	return fmt.Sprintf("%q", v)
}

func c04FmtBytesss(v [][][]byte) string {
	if v == nil {
		return "nil"
	}
	parts := make([]string, len(v))
	for i, m := range v {
		parts[i] = c04FmtBytess(m)
	}
	return "[" + strings.Join(parts, " ") + "]"
}

func c04FmtStrss(v [][]string) string {
	if v == nil {
		return "nil"
	}
	parts := make([]string, len(v))
	for i, m := range v {
		parts[i] = c04FmtStrs(m)
	}
	return "[" + strings.Join(parts, " ") + "]"
}

func (cr *c04Run) diff(c *rxCase, api string, h []byte, n int, want, got string, extra map[string]any, cause string) {
	d := map[string]any{"api": api, "pattern": c.pat, "haystack_hex": hex.EncodeToString(h), "haystack": string(h), "n": n,
		"expected": want, "got": got, "strategy": stratOf(c), "tags": c.tags, "pattern_source": c.src, "cause": cause}
	for k, v := range extra {
		d[k] = v
	}
	cr.st.hist("violation:" + api)
	cr.st.hist("cause:" + cause)
	if cr.causes == nil {
		cr.causes = map[string]*c04Cause{}
	}
	cc := cr.causes[cause]
	if cc == nil {
		cc = &c04Cause{pats: map[string]bool{}}
		cr.causes[cause] = cc
	}
	cc.Count++
	if !cc.pats[c.pat] {
		cc.pats[c.pat] = true
		cc.Patterns++
		if len(cc.Examples) < 12 {
			cc.Examples = append(cc.Examples, map[string]any{"api": api, "pattern": c.pat, "haystack": string(h), "haystack_hex": hex.EncodeToString(h), "n": n, "expected": want, "got": got, "strategy": stratOf(c)})
		}
	}
	cr.st.violate(violation{Kind: api, Case: c.idx, Detail: d,
		Sig:      fmt.Sprintf("%s pat=%q hay=%s n=%d got=%s cause=%s", api, c.pat, hex.EncodeToString(h), n, got, cause),
		Expected: want, Got: got})
}

// renderers: what each API returns when it enumerates exactly the matches found at the
// given table offsets (same formatting as the observed value).
func c04RIntss(offs []int, t *c04Tab) string {
	var v [][]int
	for _, m := range t.pairs(offs) {
		v = append(v, []int{m[0], m[1]})
	}
	return c04FmtIntss(v)
}

func c04RBytes(h []byte) func([]int, *c04Tab) string {
	return func(offs []int, t *c04Tab) string {
		var v [][]byte
		for _, m := range t.pairs(offs) {
			v = append(v, h[m[0]:m[1]:m[1]])
		}
		return c04FmtBytess(v)
	}
}

func c04RStrs(h []byte) func([]int, *c04Tab) string {
	return func(offs []int, t *c04Tab) string {
		var v []string
		for _, m := range t.pairs(offs) {
			v = append(v, string(h[m[0]:m[1]]))
		}
		return c04FmtStrs(v)
	}
}

func c04RCount(offs []int, _ *c04Tab) string { return fmt.Sprint(len(offs)) }

func c04RSprint(offs []int, t *c04Tab) string { return fmt.Sprint(t.pairs(offs)) }

func c04RAppend(dst [][2]int) func([]int, *c04Tab) string {
	return func(offs []int, t *c04Tab) string {
		return c04FmtPairs(append(append([][2]int{}, dst...), t.pairs(offs)...), false)
	}
}

func c04RSubIdx(offs []int, t *c04Tab) string {
	var v [][]int
	for _, sl := range t.slots(offs) {
		v = append(v, sl)
	}
	return c04FmtIntss(v)
}

func c04RSubBytes(h []byte) func([]int, *c04Tab) string {
	return func(offs []int, t *c04Tab) string {
		var v [][][]byte
		for _, sl := range t.slots(offs) {
			m := make([][]byte, len(sl)/2)
			for g := range m {
				if sl[2*g] >= 0 {
					m[g] = h[sl[2*g]:sl[2*g+1]:sl[2*g+1]]
				}
			}
			v = append(v, m)
		}
		return c04FmtBytesss(v)
	}
}

func c04RSubStrs(h []byte) func([]int, *c04Tab) string {
	return func(offs []int, t *c04Tab) string {
		var v [][]string
		for _, sl := range t.slots(offs) {
			m := make([]string, len(sl)/2)
			for g := range m {
				if sl[2*g] >= 0 {
					m[g] = string(h[sl[2*g]:sl[2*g+1]])
				}
			}
			v = append(v, m)
		}
		return c04FmtStrss(v)
	}
}

// checkOne compares every enumeration API on (pattern, haystack, n).  It returns true
// when the stdlib enumeration has at least one element.
func (cr *c04Run) checkOne(c *rxCase, h []byte, n int, first bool) bool {
	s := string(h)
	std, cx := c.std, c.cx
	wIdx := std.FindAllIndex(h, n)
	wSub := std.FindAllSubmatchIndex(h, n)
	wPairs := c04Pairs(wIdx)
	gIdx := cx.FindAllIndex(h, n)
	gPairs := c04Pairs(gIdx)
	gSub := cx.FindAllSubmatchIndex(h, n)
	gSub0 := c04Pairs(gSub)
	type renderer = func([]int, *c04Tab) string
	cmpN := func(api string, nn int, want, got string, sub bool, r renderer) {
		if want != got {
			cr.diff(c, api, h, nn, want, got, nil, cr.triage(c, h, nn, sub, got, r))
		}
	}
	cmp := func(api, want, got string, sub bool, r renderer) { cmpN(api, n, want, got, sub, r) }

	// --- the FindAll* family -------------------------------------------------
	cmp("Regex.FindAll", c04FmtBytess(std.FindAll(h, n)), c04FmtBytess(cx.FindAll(h, n)), false, c04RBytes(h))
	cmp("Regex.FindAllString", c04FmtStrs(std.FindAllString(s, n)), c04FmtStrs(cx.FindAllString(s, n)), false, c04RStrs(h))
	cmp("Regex.FindAllIndex", c04FmtIntss(wIdx), c04FmtIntss(gIdx), false, c04RIntss)
	cmp("Regex.FindAllStringIndex", c04FmtIntss(std.FindAllStringIndex(s, n)), c04FmtIntss(cx.FindAllStringIndex(s, n)), false, c04RIntss)
	cmp("Regex.FindAllSubmatch", c04FmtBytesss(std.FindAllSubmatch(h, n)), c04FmtBytesss(cx.FindAllSubmatch(h, n)), true, c04RSubBytes(h))
	cmp("Regex.FindAllStringSubmatch", c04FmtStrss(std.FindAllStringSubmatch(s, n)), c04FmtStrss(cx.FindAllStringSubmatch(s, n)), true, c04RSubStrs(h))
	cmp("Regex.FindAllSubmatchIndex", c04FmtIntss(wSub), c04FmtIntss(gSub), true, c04RSubIdx)
	cmp("Regex.FindAllStringSubmatchIndex", c04FmtIntss(std.FindAllStringSubmatchIndex(s, n)), c04FmtIntss(cx.FindAllStringSubmatchIndex(s, n)), true, c04RSubIdx)

	// --- Count ---------------------------------------------------------------------
	cmp("Regex.Count", fmt.Sprint(len(wIdx)), fmt.Sprint(cx.Count(h, n)), false, c04RCount)
	cmp("Regex.CountString", fmt.Sprint(len(wIdx)), fmt.Sprint(cx.CountString(s, n)), false, c04RCount)

	// --- AppendAllIndex: dst nil, and dst non-empty with spare capacity ------------
	for _, withDst := range []bool{false, true} {
		mk := func() [][2]int {
			if !withDst {
				return nil
			}
			d := make([][2]int, 2, 8)
			d[0], d[1] = [2]int{7, 7}, [2]int{8, 9}
			return d
		}
		tag := "(dst=nil)"
		if withDst {
			tag = "(dst=[[7 7] [8 9]],cap=8)"
		}
		dst := mk()
		want := c04FmtPairs(append(append([][2]int{}, dst...), wPairs...), false)
		cmp("Regex.AppendAllIndex"+tag, want, c04FmtPairs(cx.AppendAllIndex(mk(), h, n), false), false, c04RAppend(dst))
		cmp("Regex.AppendAllStringIndex"+tag, want, c04FmtPairs(cx.AppendAllStringIndex(mk(), s, n), false), false, c04RAppend(dst))
	}

	// --- iterators: the whole sequence and an early break (only once per haystack) ----
	if first {
		wAll := c04Pairs(std.FindAllIndex(h, -1))
		wAllS := std.FindAllString(s, -1)
		for _, stop := range []int{-1, 1, 2} {
			lim := len(wAll)
			if stop >= 0 && stop < lim {
				lim = stop
			}
			guard := len(h) + 3
			gi := [][2]int{}
			for m := range cx.AllIndex(h) {
				if stop >= 0 && len(gi) >= stop || len(gi) > guard {
					break
				}
				gi = append(gi, m)
			}
			gsi := [][2]int{}
			for m := range cx.AllStringIndex(s) {
				if stop >= 0 && len(gsi) >= stop || len(gsi) > guard {
					break
				}
				gsi = append(gsi, m)
			}
			ga := []string{}
			for m := range cx.All(h) {
				if stop >= 0 && len(ga) >= stop || len(ga) > guard {
					break
				}
				ga = append(ga, string(m))
			}
			gs := []string{}
			for m := range cx.AllString(s) {
				if stop >= 0 && len(gs) >= stop || len(gs) > guard {
					break
				}
				gs = append(gs, m)
			}
			sfx := fmt.Sprintf("(break after %d)", stop)
			if stop < 0 {
				sfx = ""
			}
			cut := func(offs []int) []int {
				if stop >= 0 && stop < len(offs) {
					return offs[:stop]
				}
				return offs
			}
			rIdx := func(offs []int, t *c04Tab) string { return fmt.Sprint(t.pairs(cut(offs))) }
			rStr := func(offs []int, t *c04Tab) string {
				v := []string{}
				for _, m := range t.pairs(cut(offs)) {
					v = append(v, string(h[m[0]:m[1]]))
				}
				return fmt.Sprintf("%q", v)
			}
			cmpN("Regex.AllIndex"+sfx, -1, fmt.Sprint(wAll[:lim]), fmt.Sprint(gi), false, rIdx)
			cmpN("Regex.AllStringIndex"+sfx, -1, fmt.Sprint(wAll[:lim]), fmt.Sprint(gsi), false, rIdx)
			cmpN("Regex.All"+sfx, -1, fmt.Sprintf("%q", wAllS[:lim]), fmt.Sprintf("%q", ga), false, rStr)
			cmpN("Regex.AllString"+sfx, -1, fmt.Sprintf("%q", wAllS[:lim]), fmt.Sprintf("%q", gs), false, rStr)
		}
	}

	// --- engine level --------------------------------------------------------------
	if c.eng != nil {
		// documented contract of FindAllIndicesStreaming: n == 0 means no limit
		nn := n
		if nn == 0 {
			nn = -1
		}
		wS := c04Pairs(std.FindAllIndex(h, nn))
		gS := c.eng.FindAllIndicesStreaming(h, n, nil)
		if w, g := fmt.Sprint(wS), fmt.Sprint(gS); w != g {
			// recorded under the caller's n, replayed with the effective limit
			cr.diff(c, "meta.Engine.FindAllIndicesStreaming", h, n, w, g, nil, cr.triage(c, h, nn, false, g, c04RSprint))
		}
		cmp("meta.Engine.Count", fmt.Sprint(len(wIdx)), fmt.Sprint(c.eng.Count(h, n)), false, c04RCount)
		ms := c.eng.FindAllSubmatch(h, n)
		var gm [][]int
		for _, m := range ms {
			var slots []int
			for g := 0; g < m.NumCaptures(); g++ {
				idx := m.GroupIndex(g)
				if len(idx) >= 2 {
					slots = append(slots, idx[0], idx[1])
				} else {
					slots = append(slots, -1, -1)
				}
			}
			gm = append(gm, slots)
		}
		cmp("meta.Engine.FindAllSubmatch", c04FmtIntss(wSub), c04FmtIntss(gm), true, c04RSubIdx)
	}

	// --- C11: relations that need no oracle -------------------------------------------
	if n >= 0 {
		all := cx.FindAllIndex(h, -1)
		lim := n
		if lim > len(all) {
			lim = len(all)
		}
		var pre [][]int
		if lim > 0 {
			pre = all[:lim]
		}
		if c04FmtIntss(gIdx) != c04FmtIntss(pre) {
			cr.diff(c, "C11:FindAllIndex(n)=prefix(FindAllIndex(-1))", h, n, c04FmtIntss(pre), c04FmtIntss(gIdx), nil, "views-disagree")
		}
	}
	if first {
		one := cx.FindIndex(h)
		var hd []int
		if len(gIdx) > 0 {
			hd = gIdx[0]
		}
		if fmtInts(hd) != fmtInts(one) {
			cr.diff(c, "C11:FindAllIndex(-1)[0]=FindIndex", h, -1, fmtInts(one), fmtInts(hd), nil, "views-disagree")
		}
		if !c04EqPairs(gSub0, gPairs) {
			cr.diff(c, "C11:FindAllSubmatchIndex group0=FindAllIndex", h, -1, fmt.Sprint(gPairs), fmt.Sprint(gSub0), nil, "views-disagree")
		}
		if cnt := cx.Count(h, -1); cnt != len(gIdx) {
			cr.diff(c, "C11:Count=len(FindAllIndex)", h, -1, fmt.Sprint(len(gIdx)), fmt.Sprint(cnt), nil, "views-disagree")
		}
		cr.checkStable(c, h)
	}
	return len(wIdx) > 0
}

// ---- Coq cases ----------------------------------------------------------------

func c04CoqPairs(v [][2]int) string {
	if len(v) == 0 {
		return "[]"
	}
	parts := make([]string, len(v))
	for i, m := range v {
		parts[i] = fmt.Sprintf("(%d,%d)", m[0], m[1])
	}
	return "[" + strings.Join(parts, ";") + "]"
}

func c04CoqTbl(t []*[2]int) string {
	parts := make([]string, len(t))
	for i, m := range t {
		if m == nil {
			parts[i] = "None"
		} else {
			parts[i] = fmt.Sprintf("Some (%d,%d)", m[0], m[1])
		}
	}
	return "[" + strings.Join(parts, ";") + "]"
}

func (cr *c04Run) emit(c *rxCase, api int, h []byte, tbl []*[2]int, anch bool, n int, dst, obs [][2]int, cnt int, what string) {
	if len(cr.cases) >= cr.maxCases {
		return
	}
	id := len(cr.cases)
	cr.cases = append(cr.cases, fmt.Sprintf("mkCase %d %d %s %s %s (%d)%%Z %s %s %d",
		id, api, coqBytes(h), c04CoqTbl(tbl), coqBool(anch), n, c04CoqPairs(dst), c04CoqPairs(obs), cnt))
	cr.caseIdx = append(cr.caseIdx, fmt.Sprintf("%d: %s pat=%q hay=%s n=%d strategy=%s", id, what, c.pat, hex.EncodeToString(h), n, stratOf(c)))
}

// record writes the six cases (one per API code) of one (pattern, haystack, n).
func (cr *c04Run) record(c *rxCase, h []byte, n int) {
	if c.eng == nil || len(h) > 40 || cr.pairs >= cr.maxPairs {
		return
	}
	cr.pairs++
	tab := cr.tables(c, h)
	tbl, tbl2 := tab.idx, tab.sub0()
	anch := c.nfa != nil && c.nfa.IsAlwaysAnchored()
	cx := c.cx
	cr.emit(c, 0, h, tbl, anch, n, nil, c04Pairs(cx.FindAllIndex(h, n)), 0, "Regex.FindAllIndex")
	cr.emit(c, 1, h, tbl, anch, n, nil, nil, cx.Count(h, n), "Regex.Count")
	dst := make([][2]int, 1, 8)
	dst[0] = [2]int{7, 7}
	got := cx.AppendAllIndex(dst, h, n)
	cr.emit(c, 2, h, tbl, anch, n, [][2]int{{7, 7}}, append([][2]int{}, got...), 0, "Regex.AppendAllIndex")
	var it [][2]int
	for m := range cx.AllIndex(h) {
		it = append(it, m)
		if len(it) > len(h)+3 {
			break
		}
	}
	cr.emit(c, 3, h, tbl, anch, -1, nil, it, 0, "Regex.AllIndex")
	cr.emit(c, 4, h, tbl, anch, n, nil, append([][2]int{}, c.eng.FindAllIndicesStreaming(h, n, nil)...), 0, "meta.Engine.FindAllIndicesStreaming")
	var g0 [][2]int
	for _, m := range cx.FindAllSubmatchIndex(h, n) {
		g0 = append(g0, [2]int{m[0], m[1]})
	}
	cr.emit(c, 5, h, tbl2, anch, n, nil, g0, 0, "Regex.FindAllSubmatchIndex[group 0]")
}

func cmdC04(args []string) int {
	fs := flag.NewFlagSet("c04", flag.ExitOnError)
	seed := fs.Uint64("seed", 1, "seed")
	tier := fs.String("tier", "quick", "quick|thorough")
	npat := fs.Int("n", 0, "number of patterns (0 = tier default)")
	nhay := fs.Int("haystacks", 0, "generated haystacks per pattern (0 = tier default)")
	corpus := fs.String("corpus", "/verif/corpus/patterns_harvested.txt", "pattern corpus")
	out := fs.String("out", "cases.v", "Coq case file")
	statsPath := fs.String("stats", "stats.json", "stats output")
	fs.Parse(args)
	noLongHays = *tier == "thorough" // the thorough ledgers predate the long-haystack families (DESIGN section 5)

	t0 := time.Now()
	np, nh, maxPairs := 520, 12, 100
	if *tier == "thorough" {
		np, nh, maxPairs = 4000, 24, 250
	}
	if *npat > 0 {
		np = *npat
	}
	if *nhay > 0 {
		nh = *nhay
	}
	st := newStats("C04", *seed)
	cr := &c04Run{st: st, maxCases: maxPairs * 6, maxPairs: maxPairs, seen: map[string]bool{}}
	r := newRng(*seed)
	pg := &patGen{r: r.fork(1), corpus: loadCorpus(*corpus)}
	nontriv := 0
	for i := 0; i < np; i++ {
		pat, src := pg.next(i)
		c, why := prepCase(i, pat, src, nil)
		if c == nil {
			st.hist("skip:" + why)
			continue
		}
		if c.cx == nil {
			st.hist("coregex-rejects")
			continue
		}
		st.hist("src:" + src)
		st.hist("strategy:" + stratOf(c))
		hg := newHayGen(r.fork(uint64(i)+1000), c.re)
		sr := r.fork(uint64(i) + 500000)
		var hays [][]byte
		for j := 0; j < nh; j++ {
			hays = append(hays, hg.next(j))
		}
		for _, fh := range c04FixedHays {
			hays = append(hays, []byte(fh))
		}
		hays = append(hays, hg.longHays()...)
		// a member of the language wrapped in multi-byte / invalid context
		for k := 0; k < 4; k++ {
			m := sampleMatch(sr, c.re, 0)
			pre := sr.pick([]string{"é", "日", "\xff", "a", "", "😀", "\xe4\xb8"})
			post := sr.pick([]string{"é", "本", "\xc3", " ", "", "я", "\x80"})
			hays = append(hays, concatBytes([]byte(pre), m, []byte(post), m))
		}
		recorded := 0
		for j, h := range hays {
			key := pat + "\x00" + string(h)
			if cr.seen[key] {
				continue
			}
			cr.seen[key] = true
			ns := []int{-1, 0, 1, 2, 3, len(h)}
			some := false
			for k, n := range ns {
				st.Evaluations++
				if cr.checkOne(c, h, n, k == 0) {
					some = true
				}
			}
			if some {
				nontriv++
			}
			// Coq sample: per pattern at most two haystacks, preferring non-ASCII ones on
			// which something matches; n cycles through the limits.
			nullable := false
			for _, t := range c.tags {
				if t == "nullable" || t == "wordb" || t == "mline" || t == "textanchor" {
					nullable = true
				}
			}
			if recorded < 2 && len(h) <= 40 && len(h) > 0 && some && (c04HasHigh(h) || sr.chance(8)) && (nullable && sr.chance(60) || i%5 == 0 || sr.chance(6)) {
				cr.record(c, h, ns[(i+j)%len(ns)])
				recorded++
			}
		}
	}
	st.Distinct = nontriv
	st.CoqCases = len(cr.cases)
	st.Rule = "patterns: curated + corpus + templates + grammar (gen.go); haystacks: 12 AST-derived shapes + fixed multi-byte/invalid-UTF-8 set + language members wrapped in multi-byte context; n in {-1,0,1,2,3,len}; dst in {nil, 2 elements cap 8}; every enumeration API vs regexp with the same n (contents and nil-ness); non-trivial = stdlib enumerates at least one match"
	st.Extra["coq_case_index"] = cr.caseIdx
	st.Extra["root_causes"] = cr.causes
	st.Extra["unstable_empty_match_tables"] = cr.unstable
	st.Extra["elapsed_ms"] = time.Since(t0).Milliseconds()
	st.write(*statsPath)

	f, err := os.Create(*out)
	if err != nil {
		fatal("out: %v", err)
	}
	w := bufio.NewWriter(f)
	fmt.Fprintln(w, "From CV Require Import FindAll. From Coq Require Import List NArith ZArith. Import ListNotations. Open Scope N_scope.")
	fmt.Fprintln(w, "Definition cases : list case := [")
	for i, cs := range cr.cases {
		sep := ";"
		if i == len(cr.cases)-1 {
			sep = ""
		}
		fmt.Fprintf(w, "  %s%s\n", cs, sep)
	}
	fmt.Fprintln(w, "].")
	fmt.Fprintln(w, "Definition M := Eval vm_compute in mismatches cases. Print M.")
	fmt.Fprintln(w, "Definition MM := Eval vm_compute in model_mismatches cases. Print MM.")
	fmt.Fprintln(w, "Definition MH := Eval vm_compute in hyp_mismatches cases. Print MH.")
	w.Flush()
	f.Close()
	fmt.Fprintf(os.Stderr, "c04: %d evaluations, %d violations (%d recorded), %d coq cases, %v\n", st.Evaluations, st.TotalViolations, len(st.Violations), len(cr.cases), time.Since(t0).Round(time.Millisecond))
	return 0
}

func c04HasHigh(b []byte) bool {
	for _, c := range b {
		if c >= 0x80 {
			return true
		}
	}
	return false
}
