package main

import (
	"flag"
	"fmt"
	"go/ast"
	"go/parser"
	"go/token"
	"os"
	"path/filepath"
	"sort"
	"strings"
)

// `c06-scope`: the call-site discipline the ownership theorem (Pool.v) assumes, extracted
// from the CURRENT source of /repo/meta: a search state may only be released by the scope
// that acquired it.  For every function: each `putSearchState(x)` (plain or deferred) must
// lie in the block of a `x = getSearchState()` / `x := getSearchState()` or in a block nested
// inside it.  A put of a variable that was (possibly) handed in by the caller, or a put placed
// outside the block of the get, releases a state that another scope still uses (double
// release => two goroutines can be handed the same state).
//
// Also: a function must not call putSearchState on a parameter.

type c06sSite struct {
	varName string
	blocks  []*ast.BlockStmt // enclosing blocks, outermost first
	pos     token.Pos
}

func c06sEnclosing(stack []ast.Node) []*ast.BlockStmt {
	var out []*ast.BlockStmt
	for _, n := range stack {
		if b, ok := n.(*ast.BlockStmt); ok {
			out = append(out, b)
		}
	}
	return out
}

func cmdC06Scope(args []string) int {
	fs := flag.NewFlagSet("c06-scope", flag.ExitOnError)
	repo := fs.String("repo", "/repo", "repository root")
	statsPath := fs.String("stats", "stats.json", "stats")
	_ = fs.String("out", "", "unused")
	_ = fs.String("tier", "quick", "unused")
	seed := fs.Uint64("seed", 1, "unused")
	fs.Parse(args)
	st := newStats("C06", *seed)
	files, _ := filepath.Glob(filepath.Join(*repo, "meta", "*.go"))
	sort.Strings(files)
	fset := token.NewFileSet()
	nfuncs, nputs := 0, 0
	for _, f := range files {
		if strings.HasSuffix(f, "_test.go") {
			continue
		}
		af, err := parser.ParseFile(fset, f, nil, 0)
		if err != nil {
			st.violate(violation{Kind: "parse-error", Detail: map[string]any{"file": f, "error": err.Error()}, Sig: "parse-error " + filepath.Base(f)})
			continue
		}
		for _, d := range af.Decls {
			fd, ok := d.(*ast.FuncDecl)
			if !ok || fd.Body == nil {
				continue
			}
			if fd.Name.Name == "getSearchState" || fd.Name.Name == "putSearchState" {
				continue
			}
			params := map[string]bool{}
			if fd.Type.Params != nil {
				for _, p := range fd.Type.Params.List {
					for _, n := range p.Names {
						params[n.Name] = true
					}
				}
			}
			var gets, puts []c06sSite
			// variables that may alias a parameter: v = param / v = param[i]
			aliasOfParam := map[string]bool{}
			var stack []ast.Node
			ast.Inspect(fd.Body, func(n ast.Node) bool {
				if n == nil {
					stack = stack[:len(stack)-1]
					return true
				}
				stack = append(stack, n)
				switch x := n.(type) {
				case *ast.AssignStmt:
					for i, rhs := range x.Rhs {
						if i >= len(x.Lhs) {
							break
						}
						lhs, ok := x.Lhs[i].(*ast.Ident)
						if !ok {
							continue
						}
						if call, ok := rhs.(*ast.CallExpr); ok && c06pLastSel(call.Fun) == "getSearchState" {
							gets = append(gets, c06sSite{lhs.Name, c06sEnclosing(stack), call.Pos()})
						}
						root := rhs
						if ix, ok := root.(*ast.IndexExpr); ok {
							root = ix.X
						}
						if id, ok := root.(*ast.Ident); ok && params[id.Name] {
							aliasOfParam[lhs.Name] = true
						}
					}
				case *ast.CallExpr:
					if c06pLastSel(x.Fun) == "putSearchState" && len(x.Args) == 1 {
						if id, ok := x.Args[0].(*ast.Ident); ok {
							puts = append(puts, c06sSite{id.Name, c06sEnclosing(stack), x.Pos()})
						}
					}
				}
				return true
			})
			if len(gets)+len(puts) == 0 {
				continue
			}
			nfuncs++
			fname := c06pRecvType(fd) + "." + fd.Name.Name
			for _, p := range puts {
				nputs++
				st.Evaluations++
				if params[p.varName] {
					st.violate(violation{Kind: "put-of-parameter", Detail: map[string]any{"function": fname, "file": filepath.Base(f), "variable": p.varName, "line": fset.Position(p.pos).Line},
						Sig: "put-of-parameter " + fname + " " + p.varName, RC: "state-released-outside-acquiring-scope"})
					continue
				}
				ok := false
				for _, g := range gets {
					if g.varName != p.varName || len(g.blocks) == 0 {
						continue
					}
					gb := g.blocks[len(g.blocks)-1]
					for _, b := range p.blocks {
						if b == gb {
							ok = true
						}
					}
				}
				if !ok {
					st.violate(violation{Kind: "put-outside-get-scope",
						Detail: map[string]any{"function": fname, "file": filepath.Base(f), "variable": p.varName, "line": fset.Position(p.pos).Line,
							"may_alias_parameter": aliasOfParam[p.varName],
							"explanation":         "putSearchState(" + p.varName + ") is not inside the block of a `" + p.varName + " = getSearchState()`: the state may belong to the caller"},
						Sig: "put-outside-get-scope " + fname + " " + p.varName, RC: "state-released-outside-acquiring-scope"})
				}
			}
		}
	}
	st.Distinct = nfuncs
	st.sample(map[string]any{"functions_with_get_or_put": nfuncs, "puts_checked": nputs})
	st.Rule = "every function of /repo/meta that calls getSearchState/putSearchState: each put must lie within the block that acquired the same variable; distinct = functions"
	st.write(*statsPath)
	fmt.Fprintf(os.Stderr, "c06-scope: %d functions, %d puts, %d violations\n", nfuncs, nputs, st.TotalViolations)
	return 0
}

func init() { register("c06-scope", cmdC06Scope) }
