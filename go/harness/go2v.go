package main

// `go2v`: the leaf translator.  Reads the CURRENT source of a fixed list of small pure leaf
// functions of /repo (byte classification, assertion checks, rune widths, line-start scans,
// empty-match step) with go/parser and emits, for each, two Gallina definitions:
//
//	<pkg>_<name>       the function itself, over Z (integers, bytes, runes), bool and list Z ([]byte)
//	<pkg>_<name>_safe  true iff no index or slice expression evaluated on the executed path
//	                   is out of range (the function cannot panic on these arguments)
//
// The theorems of coq/leaf/LeafProofs.v are then re-checked against what the code says NOW.
//
// Supported fragment (anything else is a translation error, reported as a failed obligation):
// parameters and results of type bool, byte, rune, int, uint*, Look and []byte; statements
// `return`, `if` / `else` (also `if x := e; cond`) whose branches end in `return`, tag and tagless `switch` whose clauses
// end in `return` or fall out of the switch, `x := e`, `_, x := f(..)`; expressions built from
// literals, named constants of the table below, parameters and locals, `len`, indexing,
// slicing, conversions, comparison / boolean / arithmetic / bit operators, calls of other
// translated functions, bytes.LastIndexByte and utf8.DecodeRune (mapped to GoLib.v).
// Arithmetic on int and rune is translated to unbounded Z (overflow of 64- and 32-bit values
// is NOT modelled); arithmetic on byte is reduced mod 256.

import (
	"flag"
	"fmt"
	"go/ast"
	"go/parser"
	"go/token"
	"os"
	"path/filepath"
	"sort"
	"strconv"
	"strings"
	"unicode/utf8"

	"github.com/coregx/coregex/nfa"
)

func init() { register("go2v", go2vMain) }

type leafSpec struct {
	file, fn, prefix string
}

var leafList = []leafSpec{
	{"nfa/pikevm.go", "isWordByte", "nfa"},
	{"nfa/pikevm.go", "checkLookAssertion", "nfa"},
	{"dfa/lazy/start.go", "isWordByte", "lazy"},
	{"simd/memchr_class_generic.go", "isWordChar", "simd"},
	{"nfa/compile.go", "isASCIILetter", "nfa"},
	{"nfa/compile.go", "toUpperASCII", "nfa"},
	{"nfa/compile.go", "toLowerASCII", "nfa"},
	{"nfa/backtrack.go", "runeWidth", "nfa"},
	{"meta/findall.go", "emptyMatchStep", "meta"},
	{"regex.go", "emptyMatchStep", "coregex"},
	{"meta/reverse_suffix.go", "lineStartBefore", "meta"},
	{"meta/reverse_suffix_multiline.go", "findLineStart", "meta"},
}

// named constants the leaves may mention; the values come from the packages the harness is
// compiled against, i.e. from /repo's current source
var leafConsts = map[string]int64{
	"LookStartText":      int64(nfa.LookStartText),
	"LookEndText":        int64(nfa.LookEndText),
	"LookStartLine":      int64(nfa.LookStartLine),
	"LookEndLine":        int64(nfa.LookEndLine),
	"LookWordBoundary":   int64(nfa.LookWordBoundary),
	"LookNoWordBoundary": int64(nfa.LookNoWordBoundary),
	"utf8.RuneSelf":      utf8.RuneSelf,
	"utf8.RuneError":     utf8.RuneError,
	"utf8.UTFMax":        utf8.UTFMax,
}

type gty int

const (
	tInt gty = iota
	tByte
	tBool
	tBytes
	tPair // (rune, int) of utf8.DecodeRune
)

type g2v struct {
	prefix string
	funcs  map[string]gty // translated functions of this prefix -> result type
	env    map[string]gty
	ren    map[string]string // Go name -> Gallina name for variables scoped to an if statement
	nfresh int
	err    error
}

func (g *g2v) fail(n ast.Node, fset *token.FileSet, msg string) {
	if g.err == nil {
		g.err = fmt.Errorf("%s: unsupported: %s", fset.Position(n.Pos()), msg)
	}
}

func tyOf(e ast.Expr) (gty, bool) {
	switch t := e.(type) {
	case *ast.Ident:
		switch t.Name {
		case "bool":
			return tBool, true
		case "byte", "uint8":
			return tByte, true
		case "int", "rune", "int32", "int64", "uint", "uint32", "uint64", "Look":
			return tInt, true
		}
	case *ast.ArrayType:
		if t.Len == nil {
			if id, ok := t.Elt.(*ast.Ident); ok && (id.Name == "byte" || id.Name == "uint8") {
				return tBytes, true
			}
		}
	}
	return tInt, false
}

func coqTy(t gty) string {
	switch t {
	case tBool:
		return "bool"
	case tBytes:
		return "list Z"
	case tPair:
		return "(Z * Z)"
	}
	return "Z"
}

func cname(s string) string { return s + "_" }

var fsetG *token.FileSet

// expr returns (term, safety term, type)
func (g *g2v) expr(e ast.Expr) (string, string, gty) {
	switch x := e.(type) {
	case *ast.ParenExpr:
		return g.expr(x.X)
	case *ast.BasicLit:
		switch x.Kind {
		case token.INT:
			v, err := strconv.ParseInt(x.Value, 0, 64)
			if err != nil {
				g.fail(e, fsetG, "integer literal "+x.Value)
			}
			return fmt.Sprintf("(%d)%%Z", v), "true", tInt
		case token.CHAR:
			r, _, _, err := strconv.UnquoteChar(x.Value[1:len(x.Value)-1], '\'')
			if err != nil {
				g.fail(e, fsetG, "char literal "+x.Value)
			}
			return fmt.Sprintf("(%d)%%Z", r), "true", tInt
		}
		g.fail(e, fsetG, "literal "+x.Value)
	case *ast.Ident:
		if x.Name == "true" || x.Name == "false" {
			return x.Name, "true", tBool
		}
		if t, ok := g.env[x.Name]; ok {
			if n, ok := g.ren[x.Name]; ok {
				return n, "true", t
			}
			return cname(x.Name), "true", t
		}
		if _, ok := leafConsts[x.Name]; ok {
			return "c_" + x.Name, "true", tInt
		}
		g.fail(e, fsetG, "identifier "+x.Name)
	case *ast.SelectorExpr:
		if p, ok := x.X.(*ast.Ident); ok {
			if v, ok := leafConsts[p.Name+"."+x.Sel.Name]; ok {
				return fmt.Sprintf("(%d)%%Z", v), "true", tInt
			}
		}
		g.fail(e, fsetG, "selector")
	case *ast.UnaryExpr:
		a, sa, ta := g.expr(x.X)
		switch x.Op {
		case token.NOT:
			return "(negb " + a + ")", sa, tBool
		case token.SUB:
			return "(Z.opp " + a + ")", sa, ta
		}
		g.fail(e, fsetG, "unary "+x.Op.String())
	case *ast.BinaryExpr:
		a, sa, ta := g.expr(x.X)
		b, sb, tb := g.expr(x.Y)
		both := andS(sa, sb)
		wrap := func(s string) (string, string, gty) {
			if ta == tByte && tb != tInt || tb == tByte && ta != tInt || (ta == tByte && tb == tInt && isLit(x.Y)) || (tb == tByte && ta == tInt && isLit(x.X)) {
				return "((" + s + ") mod 256)%Z", both, tByte
			}
			return "(" + s + ")%Z", both, tInt
		}
		switch x.Op {
		case token.LAND:
			return "(" + a + " && " + b + ")", andS(sa, ifS(a, sb, "true")), tBool
		case token.LOR:
			return "(" + a + " || " + b + ")", andS(sa, ifS(a, "true", sb)), tBool
		case token.EQL:
			if ta == tBool {
				return "(Bool.eqb " + a + " " + b + ")", both, tBool
			}
			return "(" + a + " =? " + b + ")%Z", both, tBool
		case token.NEQ:
			if ta == tBool {
				return "(negb (Bool.eqb " + a + " " + b + "))", both, tBool
			}
			return "(negb (" + a + " =? " + b + ")%Z)", both, tBool
		case token.LSS:
			return "(" + a + " <? " + b + ")%Z", both, tBool
		case token.LEQ:
			return "(" + a + " <=? " + b + ")%Z", both, tBool
		case token.GTR:
			return "(" + b + " <? " + a + ")%Z", both, tBool
		case token.GEQ:
			return "(" + b + " <=? " + a + ")%Z", both, tBool
		case token.ADD:
			return wrap(a + " + " + b)
		case token.SUB:
			return wrap(a + " - " + b)
		case token.MUL:
			return wrap(a + " * " + b)
		case token.AND:
			t := tInt
			if ta == tByte || tb == tByte {
				t = tByte
			}
			return "(Z.land " + a + " " + b + ")", both, t
		case token.OR:
			t := tInt
			if ta == tByte && tb == tByte {
				t = tByte
			}
			return "(Z.lor " + a + " " + b + ")", both, t
		case token.SHR:
			return "(Z.shiftr " + a + " " + b + ")", both, ta
		case token.SHL:
			if ta == tByte {
				return "((Z.shiftl " + a + " " + b + ") mod 256)%Z", both, tByte
			}
			return "(Z.shiftl " + a + " " + b + ")", both, tInt
		}
		g.fail(e, fsetG, "binary "+x.Op.String())
	case *ast.IndexExpr:
		s, ss, ts := g.expr(x.X)
		i, si, _ := g.expr(x.Index)
		if ts != tBytes {
			g.fail(e, fsetG, "index of non-[]byte")
		}
		return "(idx " + s + " " + i + ")", andS(ss, si, "idx_ok "+s+" "+i), tByte
	case *ast.SliceExpr:
		s, ss, ts := g.expr(x.X)
		if ts != tBytes || x.Slice3 {
			g.fail(e, fsetG, "slice")
		}
		lo, slo := "0%Z", "true"
		hi, shi := "(len "+s+")", "true"
		if x.Low != nil {
			lo, slo, _ = g.expr(x.Low)
		}
		if x.High != nil {
			hi, shi, _ = g.expr(x.High)
		}
		return "(slice " + s + " " + lo + " " + hi + ")", andS(ss, slo, shi, "slice_ok "+s+" "+lo+" "+hi), tBytes
	case *ast.CallExpr:
		var args, safes []string
		var tys []gty
		for _, a := range x.Args {
			t, s, ty := g.expr(a)
			args = append(args, t)
			safes = append(safes, s)
			tys = append(tys, ty)
		}
		sargs := andS(safes...)
		switch f := x.Fun.(type) {
		case *ast.Ident:
			switch f.Name {
			case "len":
				if len(args) == 1 && tys[0] == tBytes {
					return "(len " + args[0] + ")", sargs, tInt
				}
			case "byte", "uint8":
				if len(args) == 1 {
					if tys[0] == tByte {
						return args[0], sargs, tByte
					}
					return "(" + args[0] + " mod 256)%Z", sargs, tByte
				}
			case "int", "rune", "int32", "int64":
				if len(args) == 1 {
					return args[0], sargs, tInt
				}
			}
			if rt, ok := g.funcs[f.Name]; ok {
				call := "(" + g.prefix + "_" + f.Name + " " + strings.Join(args, " ") + ")"
				return call, andS(sargs, g.prefix+"_"+f.Name+"_safe "+strings.Join(args, " ")), rt
			}
			g.fail(e, fsetG, "call of "+f.Name)
		case *ast.SelectorExpr:
			if p, ok := f.X.(*ast.Ident); ok {
				switch p.Name + "." + f.Sel.Name {
				case "bytes.LastIndexByte":
					return "(last_index_byte " + args[0] + " " + args[1] + ")", sargs, tInt
				case "bytes.IndexByte":
					return "(index_byte " + args[0] + " " + args[1] + ")", sargs, tInt
				case "utf8.DecodeRune":
					return "(decode_rune " + args[0] + ")", sargs, tPair
				}
			}
			g.fail(e, fsetG, "call of a selector")
		}
	}
	g.fail(e, fsetG, fmt.Sprintf("expression %T", e))
	return "0%Z", "true", tInt
}

// andS / ifS / letS build safety terms with the trivial cases folded away
func andS(xs ...string) string {
	var ys []string
	for _, x := range xs {
		if x != "true" {
			ys = append(ys, x)
		}
	}
	if len(ys) == 0 {
		return "true"
	}
	if len(ys) == 1 {
		return ys[0]
	}
	return "(" + strings.Join(ys, " && ") + ")"
}

func ifS(c, a, b string) string {
	if a == "true" && b == "true" {
		return "true"
	}
	return "(if " + c + " then " + a + " else " + b + ")"
}

func letS(pat, r, body string) string {
	if body == "true" {
		return "true"
	}
	return "(let " + pat + " := " + r + " in " + body + ")"
}

func isLit(e ast.Expr) bool {
	switch x := e.(type) {
	case *ast.BasicLit:
		return true
	case *ast.ParenExpr:
		return isLit(x.X)
	}
	return false
}

// stmts translates a statement list that must end by returning; `dflt` is what follows
// (statements after an enclosing if / switch).  Returns (term, safety term).
func (g *g2v) stmts(list []ast.Stmt, rest []ast.Stmt) (string, string) {
	if len(list) == 0 {
		if len(rest) == 0 {
			g.err = fmt.Errorf("control reaches the end of a function without return")
			return "0%Z", "true"
		}
		return g.stmts(rest, nil)
	}
	s, tail := list[0], list[1:]
	switch x := s.(type) {
	case *ast.ReturnStmt:
		var ts, ss []string
		for _, r := range x.Results {
			t, sf, _ := g.expr(r)
			ts = append(ts, t)
			ss = append(ss, sf)
		}
		if len(ts) == 0 {
			g.fail(s, fsetG, "bare return")
			return "0%Z", "true"
		}
		if len(ts) == 1 {
			return ts[0], ss[0]
		}
		return "(" + strings.Join(ts, ", ") + ")", andS(ss...)
	case *ast.IfStmt:
		follow := append(append([]ast.Stmt{}, tail...), rest...)
		// `if x := e; cond { .. }`: x is scoped to the if statement; it gets a fresh Gallina name so
		// that the statements after the if (translated inside the same let) cannot see it
		var initName, initTerm, initSafe, initGo string
		var hadOld bool
		var oldTy gty
		var oldRen string
		var hadRen bool
		if x.Init != nil {
			as, ok := x.Init.(*ast.AssignStmt)
			if !ok || as.Tok != token.DEFINE || len(as.Lhs) != 1 || len(as.Rhs) != 1 {
				g.fail(s, fsetG, "if with an init statement other than `x := e`")
				return "0%Z", "true"
			}
			r, sr, tr := g.expr(as.Rhs[0])
			initGo = as.Lhs[0].(*ast.Ident).Name
			g.nfresh++
			initName = fmt.Sprintf("%s_if%d_", initGo, g.nfresh)
			initTerm, initSafe = r, sr
			oldTy, hadOld = g.env[initGo]
			oldRen, hadRen = g.ren[initGo]
			g.env[initGo] = tr
			g.ren[initGo] = initName
		}
		c, sc, _ := g.expr(x.Cond)
		saved := g.copyEnv()
		th, sth := g.stmts(x.Body.List, follow)
		g.env = saved
		var el, sel string
		saved = g.copyEnv()
		switch e := x.Else.(type) {
		case nil:
			// the statements after the if do not see the init variable
			if x.Init != nil {
				g.unbind(initGo, hadOld, oldTy, hadRen, oldRen)
			}
			el, sel = g.stmts(follow, nil)
		case *ast.BlockStmt:
			el, sel = g.stmts(e.List, follow)
		case *ast.IfStmt:
			el, sel = g.stmts([]ast.Stmt{e}, follow)
		}
		g.env = saved
		term, safe := "(if "+c+"\n then "+th+"\n else "+el+")", andS(sc, ifS(c, sth, sel))
		if x.Init != nil {
			g.unbind(initGo, hadOld, oldTy, hadRen, oldRen)
			term = "(let " + initName + " := " + initTerm + " in\n " + term + ")"
			safe = andS(initSafe, letS(initName, initTerm, safe))
		}
		return term, safe
	case *ast.SwitchStmt:
		if x.Init != nil {
			g.fail(s, fsetG, "switch with init")
		}
		follow := append(append([]ast.Stmt{}, tail...), rest...)
		tag, stag := "", "true"
		if x.Tag != nil {
			tag, stag, _ = g.expr(x.Tag)
		}
		type clause struct {
			cond, scond string
			body        []ast.Stmt
		}
		var cls []clause
		var dflt []ast.Stmt
		hasDflt := false
		for _, c := range x.Body.List {
			cc := c.(*ast.CaseClause)
			for _, st := range cc.Body {
				if b, ok := st.(*ast.BranchStmt); ok && b.Tok == token.FALLTHROUGH {
					g.fail(st, fsetG, "fallthrough")
				}
			}
			if cc.List == nil {
				dflt, hasDflt = cc.Body, true
				continue
			}
			var cs, ss []string
			for _, e := range cc.List {
				t, sf, _ := g.expr(e)
				if x.Tag != nil {
					t = "(" + tag + " =? " + t + ")%Z"
				}
				cs = append(cs, t)
				ss = append(ss, sf)
			}
			cond, scond := cs[0], ss[0]
			for i := 1; i < len(cs); i++ {
				scond = andS(scond, ifS(cond, "true", ss[i]))
				cond = "(" + cond + " || " + cs[i] + ")"
			}
			cls = append(cls, clause{cond, scond, cc.Body})
		}
		_ = hasDflt
		saved := g.copyEnv()
		term, safe := g.stmts(dflt, follow)
		g.env = saved
		for i := len(cls) - 1; i >= 0; i-- {
			saved := g.copyEnv()
			b, sb := g.stmts(cls[i].body, follow)
			g.env = saved
			term = "(if " + cls[i].cond + "\n then " + b + "\n else " + term + ")"
			safe = andS(cls[i].scond, ifS(cls[i].cond, sb, safe))
		}
		if x.Tag != nil {
			safe = andS(stag, safe)
		}
		return term, safe
	case *ast.AssignStmt:
		if x.Tok != token.DEFINE || len(x.Rhs) != 1 {
			g.fail(s, fsetG, "assignment other than :=")
			return "0%Z", "true"
		}
		r, sr, tr := g.expr(x.Rhs[0])
		if len(x.Lhs) == 1 {
			id := x.Lhs[0].(*ast.Ident)
			g.env[id.Name] = tr
			b, sb := g.stmts(tail, rest)
			return "(let " + cname(id.Name) + " := " + r + " in\n " + b + ")", andS(sr, letS(cname(id.Name), r, sb))
		}
		if len(x.Lhs) == 2 && tr == tPair {
			var names [2]string
			for i, l := range x.Lhs {
				id := l.(*ast.Ident)
				if id.Name == "_" {
					names[i] = "_"
				} else {
					names[i] = cname(id.Name)
					g.env[id.Name] = tInt
				}
			}
			b, sb := g.stmts(tail, rest)
			pat := "'(" + names[0] + ", " + names[1] + ")"
			return "(let " + pat + " := " + r + " in\n " + b + ")", andS(sr, letS(pat, r, sb))
		}
		g.fail(s, fsetG, "multi-assignment")
	default:
		g.fail(s, fsetG, fmt.Sprintf("statement %T", s))
	}
	return "0%Z", "true"
}

func (g *g2v) unbind(name string, hadOld bool, oldTy gty, hadRen bool, oldRen string) {
	if hadOld {
		g.env[name] = oldTy
	} else {
		delete(g.env, name)
	}
	if hadRen {
		g.ren[name] = oldRen
	} else {
		delete(g.ren, name)
	}
}

func (g *g2v) copyEnv() map[string]gty {
	m := map[string]gty{}
	for k, v := range g.env {
		m[k] = v
	}
	return m
}

func go2vMain(args []string) int {
	fs := flag.NewFlagSet("go2v", flag.ExitOnError)
	repo := fs.String("repo", "/repo", "root of the coregex tree")
	out := fs.String("out", "LeafGen.v", "output .v file")
	_ = fs.Parse(args)
	var b strings.Builder
	b.WriteString("(* GENERATED by `harness go2v` from the current source of " + *repo + " -- do not edit. *)\n")
	b.WriteString("From Coq Require Import List ZArith Bool.\nFrom CV Require Import GoLib.\nImport ListNotations.\nLocal Open Scope bool_scope.\n\n")
	{
		var names []string
		for n := range leafConsts {
			if !strings.Contains(n, ".") {
				names = append(names, n)
			}
		}
		sort.Strings(names)
		b.WriteString("(* named constants: values of the packages the harness was compiled against *)\n")
		for _, n := range names {
			fmt.Fprintf(&b, "Definition c_%s : Z := (%d)%%Z.\n", n, leafConsts[n])
		}
		b.WriteString("\n")
	}
	fsetG = token.NewFileSet()
	parsed := map[string]*ast.File{}
	// result types of all leaves first (so that calls between leaves type)
	funcsByPrefix := map[string]map[string]gty{}
	decls := map[string]*ast.FuncDecl{}
	for _, l := range leafList {
		f, ok := parsed[l.file]
		if !ok {
			var err error
			f, err = parser.ParseFile(fsetG, filepath.Join(*repo, l.file), nil, 0)
			if err != nil {
				fmt.Fprintln(os.Stderr, "go2v:", err)
				return 1
			}
			parsed[l.file] = f
		}
		var fd *ast.FuncDecl
		for _, d := range f.Decls {
			if x, ok := d.(*ast.FuncDecl); ok && x.Recv == nil && x.Name.Name == l.fn {
				fd = x
			}
		}
		if fd == nil {
			fmt.Fprintf(os.Stderr, "go2v: function %s not found in %s\n", l.fn, l.file)
			return 1
		}
		decls[l.prefix+"_"+l.fn] = fd
		if funcsByPrefix[l.prefix] == nil {
			funcsByPrefix[l.prefix] = map[string]gty{}
		}
		rt := tInt
		if fd.Type.Results != nil && len(fd.Type.Results.List) == 1 {
			rt, _ = tyOf(fd.Type.Results.List[0].Type)
		}
		funcsByPrefix[l.prefix][l.fn] = rt
	}
	for _, l := range leafList {
		fd := decls[l.prefix+"_"+l.fn]
		g := &g2v{prefix: l.prefix, funcs: funcsByPrefix[l.prefix], env: map[string]gty{}, ren: map[string]string{}}
		var params []string
		var pnames []string
		for _, p := range fd.Type.Params.List {
			t, ok := tyOf(p.Type)
			if !ok {
				g.fail(p, fsetG, "parameter type")
			}
			for _, n := range p.Names {
				g.env[n.Name] = t
				params = append(params, "("+cname(n.Name)+" : "+coqTy(t)+")")
				pnames = append(pnames, cname(n.Name))
			}
		}
		rty := "Z"
		if fd.Type.Results != nil {
			var rs []string
			for _, r := range fd.Type.Results.List {
				t, ok := tyOf(r.Type)
				if !ok {
					g.fail(r, fsetG, "result type")
				}
				n := len(r.Names)
				if n == 0 {
					n = 1
				}
				for i := 0; i < n; i++ {
					rs = append(rs, coqTy(t))
				}
			}
			rty = strings.Join(rs, " * ")
		}
		term, safe := g.stmts(fd.Body.List, nil)
		if g.err != nil {
			fmt.Fprintf(os.Stderr, "go2v: %s.%s: %v\n", l.prefix, l.fn, g.err)
			return 1
		}
		name := l.prefix + "_" + l.fn
		fmt.Fprintf(&b, "(* %s: func %s *)\nDefinition %s %s : %s :=\n %s.\n\n", l.file, l.fn, name, strings.Join(params, " "), rty, term)
		fmt.Fprintf(&b, "Definition %s_safe %s : bool :=\n %s.\n\n", name, strings.Join(params, " "), safe)
	}
	if err := os.WriteFile(*out, []byte(b.String()), 0o644); err != nil {
		fmt.Fprintln(os.Stderr, "go2v:", err)
		return 1
	}
	fmt.Printf("go2v: %d leaf functions translated into %s\n", len(leafList), *out)
	return 0
}
