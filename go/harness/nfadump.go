package main

import (
	"bufio"
	"encoding/hex"
	"fmt"
	"io"
	"os/exec"
	"strings"

	"github.com/coregx/coregex/nfa"
)

// ---------------------------------------------------------------------------
// Dumping a compiled nfa.NFA through its public accessors, (a) in the line protocol
// of ocaml/driver.ml and (b) as a Gallina term of type CV.Nfa.nfa.
// ---------------------------------------------------------------------------

type dumpedNFA struct {
	lines  []string // driver protocol
	coq    string   // Gallina term
	states int
	ok     bool   // false if the NFA uses a state kind the model does not cover
	why    string // reason when !ok
}

func dumpNFA(n *nfa.NFA) dumpedNFA {
	var d dumpedNFA
	d.states = n.States()
	d.ok = true
	d.lines = append(d.lines, fmt.Sprintf("nfa %d %d %d %d", n.States(), n.StartAnchored(), n.StartUnanchored(), n.CaptureCount()))
	var cq strings.Builder
	cq.WriteString("(mkNfa [")
	for i := 0; i < n.States(); i++ {
		s := n.State(nfa.StateID(i))
		if i > 0 {
			cq.WriteString("; ")
		}
		switch s.Kind() {
		case nfa.StateMatch:
			d.lines = append(d.lines, "st M")
			cq.WriteString("SMatch")
		case nfa.StateFail:
			d.lines = append(d.lines, "st F")
			cq.WriteString("SFail")
		case nfa.StateByteRange:
			lo, hi, nx := s.ByteRange()
			d.lines = append(d.lines, fmt.Sprintf("st B %d %d %d", lo, hi, tgt(nx)))
			fmt.Fprintf(&cq, "SByteRange %d %d %d", lo, hi, tgt(nx))
		case nfa.StateSparse:
			trs := s.Transitions()
			var sb strings.Builder
			fmt.Fprintf(&sb, "st P %d", len(trs))
			cq.WriteString("SSparse [")
			for j, t := range trs {
				fmt.Fprintf(&sb, " %d %d %d", t.Lo, t.Hi, tgt(t.Next))
				if j > 0 {
					cq.WriteString("; ")
				}
				fmt.Fprintf(&cq, "(%d, %d, %d%%nat)", t.Lo, t.Hi, tgt(t.Next))
			}
			cq.WriteString("]")
			d.lines = append(d.lines, sb.String())
		case nfa.StateSplit:
			l, r := s.Split()
			d.lines = append(d.lines, fmt.Sprintf("st S %d %d", tgt(l), tgt(r)))
			fmt.Fprintf(&cq, "SSplit %d %d", tgt(l), tgt(r))
		case nfa.StateEpsilon:
			d.lines = append(d.lines, fmt.Sprintf("st E %d", tgt(s.Epsilon())))
			fmt.Fprintf(&cq, "SEpsilon %d", tgt(s.Epsilon()))
		case nfa.StateCapture:
			idx, st, nx := s.Capture()
			b := 0
			if st {
				b = 1
			}
			d.lines = append(d.lines, fmt.Sprintf("st C %d %d %d", idx, b, tgt(nx)))
			fmt.Fprintf(&cq, "SCapture %d %s %d", idx, coqBool(st), tgt(nx))
		case nfa.StateLook:
			lk, nx := s.Look()
			d.lines = append(d.lines, fmt.Sprintf("st L %d %d", lk, tgt(nx)))
			fmt.Fprintf(&cq, "SLook %s %d", coqLook(lk), tgt(nx))
		default:
			d.ok = false
			d.why = "state kind " + s.Kind().String()
			d.lines = append(d.lines, "st F")
			cq.WriteString("SFail")
		}
	}
	fmt.Fprintf(&cq, "] %d %d %d)", n.StartAnchored(), n.StartUnanchored(), n.CaptureCount())
	d.lines = append(d.lines, "end")
	d.coq = cq.String()
	return d
}

// tgt maps InvalidState (0xFFFFFFFF) to a large out-of-range number the model rejects
// through wf_nfa.
func tgt(id nfa.StateID) uint32 {
	if id == nfa.InvalidState {
		return 999999
	}
	return uint32(id)
}

func coqLook(l nfa.Look) string {
	switch l {
	case nfa.LookStartText:
		return "LStartText"
	case nfa.LookEndText:
		return "LEndText"
	case nfa.LookStartLine:
		return "LStartLine"
	case nfa.LookEndLine:
		return "LEndLine"
	case nfa.LookWordBoundary:
		return "LWordB"
	default:
		return "LNoWordB"
	}
}

// ---------------------------------------------------------------------------
// The extracted model as a co-process.
// ---------------------------------------------------------------------------

type modelProc struct {
	cmd *exec.Cmd
	in  io.WriteCloser
	out *bufio.Reader
}

func startModel(path string) *modelProc {
	cmd := exec.Command(path)
	in, err := cmd.StdinPipe()
	if err != nil {
		fatal("model: %v", err)
	}
	out, err := cmd.StdoutPipe()
	if err != nil {
		fatal("model: %v", err)
	}
	if err := cmd.Start(); err != nil {
		fatal("model: cannot start %s: %v", path, err)
	}
	return &modelProc{cmd: cmd, in: in, out: bufio.NewReaderSize(out, 1<<16)}
}

func (m *modelProc) ask(line string) string {
	if _, err := io.WriteString(m.in, line+"\n"); err != nil {
		fatal("model write: %v", err)
	}
	ans, err := m.out.ReadString('\n')
	if err != nil {
		fatal("model read: %v (query %q)", err, line)
	}
	return strings.TrimRight(ans, "\n")
}

func (m *modelProc) tell(line string) {
	if _, err := io.WriteString(m.in, line+"\n"); err != nil {
		fatal("model write: %v", err)
	}
}

// load sends an NFA; returns the model's wf_nfa verdict.
func (m *modelProc) load(d dumpedNFA) bool {
	for i, l := range d.lines {
		if i == len(d.lines)-1 {
			ans := m.ask(l)
			return ans == "ok wf=true"
		}
		m.tell(l)
	}
	return false
}

func (m *modelProc) close() {
	m.in.Close()
	m.cmd.Wait()
}

// modelFind asks for the leftmost-first match from `at`; returns nil for none, and
// ok=false if the model ran out of fuel / errored.
func (m *modelProc) find(h []byte, at int) (caps []int, ok bool) {
	ans := m.ask(fmt.Sprintf("find %d %s", at, hex.EncodeToString(h)))
	return parseModelMatch(ans)
}

func (m *modelProc) anch(h []byte, s int) (caps []int, ok bool) {
	ans := m.ask(fmt.Sprintf("anch %d %s", s, hex.EncodeToString(h)))
	return parseModelMatch(ans)
}

func parseModelMatch(ans string) ([]int, bool) {
	if ans == "none" {
		return nil, true
	}
	if !strings.HasPrefix(ans, "m ") {
		return nil, false
	}
	f := strings.Fields(ans)
	// m s e c0 c1 ...
	caps := make([]int, 0, len(f)-3)
	for _, x := range f[3:] {
		var v int
		fmt.Sscanf(x, "%d", &v)
		caps = append(caps, v)
	}
	return caps, true
}
